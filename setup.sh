#!/bin/bash
# setup_cmd: offline; warms the Go build cache for the harness against /repo's current tree.
set -u
cd "$(dirname "${BASH_SOURCE[0]}")"
export GOFLAGS=-mod=mod GOPROXY=off GOSUMDB=off GOTOOLCHAIN=local
mkdir -p .bin evidence replays
cd harness || exit 1
cp -f /repo/v8/go.sum go.sum
go build ./... || true
go vet -tags verif ./evid >/dev/null 2>&1 || true
go test -tags verif -count=1 -run '^$' ./... >/dev/null 2>&1 || true
exit 0
