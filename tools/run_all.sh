#!/bin/bash
# usage: tools/run_all.sh quick|thorough [ID...]   -> one line per check: ID exit wall
cd "$(dirname "$0")/.."
tier="${1:-quick}"; shift
ids="$*"; [ -n "$ids" ] || ids="$(python3 -c "import json;print(' '.join(c['property_id'] for c in json.load(open('MANIFEST.json'))['checks']))")"
for id in $ids; do
  s=$(date +%s); out=$(./check $id $tier 2>&1); rc=$?; e=$(date +%s)
  echo "$id tier=$tier seed=${VERIF_SEED:-1} exit=$rc wall=$((e-s))s $(echo "$out" | grep -c '^VIOLATION') violations $(echo "$out" | grep -c '^KNOWN-FINDING') known"
  [ $rc -eq 0 ] || echo "$out" | grep -E '^(VIOLATION|INCONCLUSIVE|  check=)' | head -6
done
