#!/bin/bash
# usage: tools/recheck_seeds.sh [ID...]   -> re-confirms every kept seeded change (of the given properties) against /repo HEAD
cd "$(dirname "$0")/.."
want=" $* "
for d in seeded/*/; do
  n=$(basename "$d"); id=${n%%-*}; slug=${n#*-}
  [ "$want" = "  " ] || case "$want" in *" $id "*) ;; *) continue;; esac
  demodir=$(python3 -c "import json;print(json.load(open('$d/meta.json')).get('demo_placement','v8/').split('v8/',1)[1])")
  if grep -q superseded_by_fix "$d/meta.json"; then echo "$n: superseded by a fix (skipped)"; continue; fi
  res=$(tools/confirm_seed.sh "$d" "$id" "$slug" "$demodir" 2>&1 | grep -E "^check |NOT CONFIRMED|DOES NOT APPLY" | head -1)
  echo "$n: $res"
done
