#!/usr/bin/env python3
# usage: tools/seed_note.py <seeded dir name> "<note>"   -> appends a history note to seeded/<dir>/meta.json
import json,sys
p='/verif/seeded/%s/meta.json'%sys.argv[1]
m=json.load(open(p))
h=m.get('history') or []
if isinstance(h,str): h=[{"note":h}]
h.append({"note":sys.argv[2]})
m['history']=h
json.dump(m,open(p,'w'),indent=1)
