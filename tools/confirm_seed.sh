#!/bin/bash
# usage: tools/confirm_seed.sh <out dir with patch.diff + demo> <ID> <slug> <v8-relative dir for the demo file(s)> [tier]
# Confirms in a scratch worktree: demo passes without the change; with it the suite passes and the demo fails;
# then runs the check against the changed tree. Writes /verif/seeded/<ID>-<slug>/ (patch.diff, demo, README.md, meta.json).
set -u
OUT="$(readlink -f "$1")"; ID="$2"; SLUG="$3"; DEMODIR="$4"; TIER="${5:-quick}"
export GOFLAGS=-mod=mod GOPROXY=off GOSUMDB=off GOTOOLCHAIN=local
WT="$(mktemp -d /tmp/cs-XXXXXX)"; rmdir "$WT"; git -C /repo worktree add -q "$WT" HEAD || exit 2
trap 'git -C /repo worktree remove --force "$WT" >/dev/null 2>&1; rm -rf "$WT" /verif/.bin/alt-$(echo "$WT/v8" | md5sum | cut -c1-10)' EXIT
demos=$(ls "$OUT" | grep -E '\.go$')
for d in $demos; do cp "$OUT/$d" "$WT/v8/$DEMODIR/$d"; done
runpat=$(grep -ho 'func Test[A-Za-z0-9_]*' $(for d in $demos; do echo "$OUT/$d"; done) | sed 's/func //' | paste -sd'|')
demo_without=$( (cd "$WT/v8" && go test -count=1 -run "^($runpat)\$" "./$DEMODIR/" ) 2>&1 | tail -3); rc_without=$?
(cd "$WT/v8" && go test -count=1 -run "^($runpat)\$" "./$DEMODIR/" >/dev/null 2>&1); rc_without=$?
for d in $demos; do rm -f "$WT/v8/$DEMODIR/$d"; done
if ! git -C "$WT" apply "$OUT/patch.diff" 2>/tmp/cs-apply.err; then echo "PATCH DOES NOT APPLY: $(head -2 /tmp/cs-apply.err)"; exit 3; fi
(cd "$WT/v8" && go build ./... && go test -count=1 ./... >/tmp/cs-suite.log 2>&1); rc_suite=$?
for d in $demos; do cp "$OUT/$d" "$WT/v8/$DEMODIR/$d"; done
(cd "$WT/v8" && go test -count=1 -run "^($runpat)\$" "./$DEMODIR/" >/tmp/cs-demo.log 2>&1); rc_with=$?
for d in $demos; do rm -f "$WT/v8/$DEMODIR/$d"; done
echo "demo without change: rc=$rc_without (want 0); suite with change: rc=$rc_suite (want 0); demo with change: rc=$rc_with (want !=0)"
if [ $rc_without -ne 0 ] || [ $rc_suite -ne 0 ] || [ $rc_with -eq 0 ]; then echo "NOT CONFIRMED"; tail -5 /tmp/cs-suite.log /tmp/cs-demo.log; exit 4; fi
out="$(cd /verif && VERIF_REPO="$WT/v8" ./check "$ID" "$TIER" 2>&1)"; rc=$?
sig="$(echo "$out" | grep -m1 'sig=' | sed 's/^ *//')"
case $rc in 1) verdict=caught;; 0) verdict=missed;; *) verdict=inconclusive;; esac
echo "check $ID $TIER: exit=$rc $verdict $sig"
[ -z "${CONFIRM_NO_WRITE:-}" ] || exit 0   # measuring only: leave seeded/ and regress/ as they are
D="/verif/seeded/$ID-$SLUG"; mkdir -p "$D"
rp="$(echo "$out" | grep -m1 '^VIOLATION' | sed 's/.*replay=//')"
if [ -n "$rp" ] && [ -f "$rp" ]; then
  case "$rp" in
    /verif/regress/*) ;;   # reported from a saved regression case: already kept
    *.json) cp "$rp" "$D/replay.json"; mkdir -p "/verif/regress/$ID"; [ -f "/verif/regress/$ID/seeded-$SLUG.json" ] || cp "$rp" "/verif/regress/$ID/seeded-$SLUG.json";;
    *) cp "$rp" "$D/replay.txt";;
  esac
fi
 cp "$OUT/patch.diff" "$D/"; for d in $demos; do cp "$OUT/$d" "$D/"; done; [ -f "$OUT/README.md" ] && cp "$OUT/README.md" "$D/README.md"
python3 - "$D" "$ID" "$SLUG" "$DEMODIR" "$TIER" "$rc" "$verdict" "$sig" "$(git -C /repo log --format=%h -1)" <<'PY'
import json,sys,os
D,ID,SLUG,DEMODIR,TIER,rc,verdict,sig,head=sys.argv[1:10]
p=os.path.join(D,'meta.json')
m=json.load(open(p)) if os.path.exists(p) else {}
m.update({"property":ID,"name":SLUG,"breaks":"see README.md (written by the independent sub-agent that produced the change)","demo_placement":"v8/"+DEMODIR,
 "confirmed":{"repo_head":head,"demo_passes_without_change":True,"suite_passes_with_change":True,"demo_fails_with_change":True,
   "commands":["git -C <worktree> apply patch.diff","cd v8 && go build ./... && go test -count=1 ./...","go test -count=1 -run <demo tests> ./"+DEMODIR+"/"]}})
if isinstance(m.get("history"),str): m["history"]=[{"note":m["history"]}]
prev=m.get("check_results",{}).get(TIER)
if prev and prev.get("verdict")!=verdict:
    m.setdefault("history",[]).append({"tier":TIER,"earlier_verdict":prev.get("verdict"),"earlier_signature":prev.get("signature",""),"note":"result of the check as it stood before it was strengthened"})
m.setdefault("check_results",{})[TIER]={"exit":int(rc),"verdict":verdict,"signature":sig,"command":"VERIF_REPO=<worktree>/v8 ./check %s %s"%(ID,TIER)}
json.dump(m,open(p,'w'),indent=1)
PY
exit 0
