#!/bin/bash
# usage: tools/new_seed_worktree.sh <ID> <dir under /tmp>   -> scratch worktree of /repo HEAD holding PROPERTY.txt (the property's text only)
set -eu
ID="$1"; WT="$2"
case "$WT" in /tmp/*) ;; *) echo "worktree must be under /tmp"; exit 2;; esac
git -C /repo worktree add -q --detach "$WT" HEAD
python3 - "$ID" "$WT" <<'PY'
import json,sys
ID,WT=sys.argv[1:3]
for l in open('/verif/properties.jsonl'):
    d=json.loads(l)
    if d['id']==ID:
        a=d.get('anchors',{})
        with open(WT+'/PROPERTY.txt','w') as f:
            f.write("Property %s: %s\n\nStatement:\n%s\n\nQuantified over:\n%s\n\nAnchored in (paths relative to the repository root):\n"%(ID,d['title'],d['statement'],d['quantifier']['text']))
            for p in a.get('files',[]): f.write("  file: %s\n"%p)
            for m in a.get('mechanism',[]): f.write("  mechanism: %s (%s)\n"%(m['name'],m['where']))
            for s in a.get('state',[]): f.write("  state: %s - %s (%s)\n"%(s['name'],s['meaning'],s['where']))
            f.write("\nObserved at:\n")
            for o in a.get('observe_at',[]): f.write("  %s\n"%o)
PY
sed "s|__WT__|$WT|g" /verif/tools/${SEED_PROMPT:-seed_prompt.txt} > "$WT/PROMPT.txt"
echo "$WT"
