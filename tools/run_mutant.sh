#!/bin/bash
# usage: tools/run_mutant.sh <ID> <patch file> [quick|thorough]
# Applies the patch to a scratch worktree of /repo (HEAD), builds it, runs gokrb5's own tests of the
# touched packages, runs the check against it, prints CAUGHT / MISSED / INVALID, removes the worktree.
set -u
ID="$1"; PATCH="$(readlink -f "$2")"; TIER="${3:-quick}"
WT="$(mktemp -d /tmp/mut-XXXXXX)"; rmdir "$WT"
git -C /repo worktree add -q "$WT" HEAD || exit 2
cleanup() { git -C /repo worktree remove --force "$WT" >/dev/null 2>&1; rm -rf "$WT" "/verif/.bin/alt-$(echo "$WT/v8" | md5sum | cut -c1-10)"; }
trap cleanup EXIT
export GOFLAGS=-mod=mod GOPROXY=off GOSUMDB=off GOTOOLCHAIN=local
if ! git -C "$WT" apply "$PATCH" 2>/tmp/mut-apply.err; then echo "INVALID $ID $(basename "$PATCH"): patch does not apply: $(head -1 /tmp/mut-apply.err)"; exit 3; fi
pkgs=$(git -C "$WT" diff --name-only | sed -n 's|^v8/\(.*\)/[^/]*\.go$|./\1/|p' | sort -u | tr '\n' ' ')
if ! (cd "$WT/v8" && go build ./... ) >/tmp/mut-build.err 2>&1; then echo "INVALID $ID $(basename "$PATCH"): does not compile"; exit 3; fi
if [ "${MUT_SKIP_TESTS:-0}" != 1 ]; then
  if ! (cd "$WT/v8" && go test -count=1 ./... ) >/tmp/mut-test.err 2>&1; then echo "INVALID $ID $(basename "$PATCH"): gokrb5's own tests fail with it"; grep -E "^(---|FAIL)" /tmp/mut-test.err | head -5; exit 3; fi
fi
out="$(cd /verif && VERIF_REPO="$WT/v8" ./check "$ID" "$TIER" 2>&1)"; rc=$?
case $rc in
  1) echo "CAUGHT  $ID $(basename "$PATCH"): $(echo "$out" | grep -m1 'sig=' | sed 's/^ *//')";;
  0) echo "MISSED  $ID $(basename "$PATCH")";;
  *) echo "INCONCLUSIVE $ID $(basename "$PATCH") rc=$rc"; echo "$out" | tail -5;;
esac
exit $rc
