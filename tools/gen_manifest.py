#!/usr/bin/env python3
"""Writes /verif/MANIFEST.json from the table below; run after adding or changing a check."""
import json, os
V = os.path.dirname(os.path.dirname(os.path.abspath(__file__)))
ids = [json.loads(l)["id"] for l in open(os.path.join(V, "properties.jsonl"))]
checks = json.load(open(os.path.join(V, "tools", "checks.json")))
man = {
    "version": 1,
    "setup_cmd": "./setup.sh",
    "hooks": {
        "guard": "verif",
        "enable": "go build tag: checks build /repo/v8 with `-tags verif` (go test -tags verif ...)",
        "baseline_off_cmd": "cd /repo/v8 && GOFLAGS=-mod=mod GOPROXY=off GOSUMDB=off go test -json -vet=off -count=1 -timeout 25m ./...",
        "source_commits": checks.get("_hook_commits", []),
        "add_only": True,
    },
    "engines": [
        {"name": "harness", "path": "harness", "serves_properties": [c for c in ids if c in checks],
         "kind_free_text": "Go module: pgregory.net/rapid v1.3.0 property tests + bounded-exhaustive enumerators + native go fuzzing (thorough), judged by independent reference implementations (ref/*) and a simulated KDC (sim/*)"},
    ],
    "checks": [],
    "not_applicable": [],
    "notes": "Driver: ./check <ID> quick|thorough|--replay <file>. Exit 0 held / 1 VIOLATION / 2 inconclusive. Known findings: KNOWN_FINDINGS.txt. Saved reproducers re-run by every quick check: regress/<ID>/.",
}
for i in ids:
    c = checks.get(i)
    if not c:
        man["not_applicable"].append({"property_id": i, "reason": checks.get("_na", {}).get(i, "check not built yet in this session; design in DESIGN.md section 3")})
        continue
    man["checks"].append({
        "property_id": i,
        "quick_cmd": "./check %s quick" % i,
        "thorough_cmd": "./check %s thorough" % i,
        "evidence_file": "/verif/evidence/%s.json" % i,
        "replay_cmd_template": "./check %s --replay {path}" % i,
        "engine": "harness",
        "level_claimed": {"category": c.get("level", "exploration"), "text": c["text"], "design_ref": "DESIGN.md section 3, " + i},
        "level_note": c["note"],
        "technique": c["technique"],
    })
json.dump(man, open(os.path.join(V, "MANIFEST.json"), "w"), indent=1)
print("checks:", len(man["checks"]), "not_applicable:", len(man["not_applicable"]))
