package ccachefmt_test

import (
	"encoding/hex"
	"testing"

	"github.com/jcmturner/gokrb5/v8/test/testdata"

	"verif/harness/ref/ccachefmt"
)

func TestSelf(t *testing.T) {
	b, _ := hex.DecodeString(testdata.CCACHE_TEST)
	if err := ccachefmt.SelfTest(b); err != nil {
		t.Fatal(err)
	}
}
