// CcDump reads credential cache files with the JDK's own reader
// (sun.security.krb5.internal.ccache.FileCredentialsCache) and prints what it sees, one block per
// file, so that the harness can compare an implementation that is independent of both gokrb5 and
// ref/ccachefmt with the model a file was rendered from.
//
//   javac -encoding UTF-8 --add-exports java.security.jgss/sun.security.krb5=ALL-UNNAMED \
//         --add-exports java.security.jgss/sun.security.krb5.internal=ALL-UNNAMED \
//         --add-exports java.security.jgss/sun.security.krb5.internal.ccache=ALL-UNNAMED -d OUT CcDump.java
//   java  (same --add-exports) --add-opens java.security.jgss/sun.security.krb5.internal=ALL-UNNAMED \
//         --add-opens java.security.jgss/sun.security.krb5.internal.ccache=ALL-UNNAMED \
//         -Djava.security.krb5.conf=/dev/null -cp OUT CcDump file...
import java.lang.reflect.Field;
import java.nio.charset.StandardCharsets;

import sun.security.krb5.EncryptionKey;
import sun.security.krb5.PrincipalName;
import sun.security.krb5.internal.AuthorizationData;
import sun.security.krb5.internal.AuthorizationDataEntry;
import sun.security.krb5.internal.HostAddress;
import sun.security.krb5.internal.HostAddresses;
import sun.security.krb5.internal.KerberosTime;
import sun.security.krb5.internal.Ticket;
import sun.security.krb5.internal.ccache.Credentials;
import sun.security.krb5.internal.ccache.CredentialsCache;
import sun.security.krb5.internal.ccache.FileCredentialsCache;

public class CcDump {
    static String hex(byte[] b) {
        if (b == null) return "";
        StringBuilder sb = new StringBuilder();
        for (byte x : b) sb.append(String.format("%02x", x & 0xff));
        return sb.toString();
    }

    static String hexs(String s) { return hex(s.getBytes(StandardCharsets.UTF_8)); }

    static String princ(PrincipalName p) {
        if (p == null) return "null";
        StringBuilder sb = new StringBuilder();
        sb.append(p.getNameType()).append(':').append(hexs(p.getRealmString())).append(':');
        String[] c = p.getNameStrings();
        for (int i = 0; i < c.length; i++) {
            if (i > 0) sb.append(',');
            sb.append(hexs(c[i]));
        }
        return sb.toString();
    }

    static Object get(Object o, Class<?> cl, String name) throws Exception {
        Field f = cl.getDeclaredField(name);
        f.setAccessible(true);
        return f.get(o);
    }

    static long secs(KerberosTime t) { return t == null ? 0 : t.getTime() / 1000; }

    public static void main(String[] args) throws Exception {
        for (String path : args) {
            System.out.println("FILE " + path);
            try {
                FileCredentialsCache fcc = FileCredentialsCache.acquireInstance(null, path);
                if (fcc == null) {
                    System.out.println("ERROR acquireInstance returned null");
                    System.out.println("END");
                    continue;
                }
                System.out.println("VERSION " + (fcc.version & 0xff));
                Object off = fcc.tag == null ? null : get(fcc.tag, fcc.tag.getClass(), "time_offset");
                Object uoff = fcc.tag == null ? null : get(fcc.tag, fcc.tag.getClass(), "usec_offset");
                System.out.println("OFFSET " + off + " " + uoff);
                System.out.println("PRINC " + princ(fcc.getPrimaryPrincipal()));
                Credentials[] cl = fcc.getCredsList();
                if (cl != null) {
                    for (Credentials c : cl) {
                        StringBuilder sb = new StringBuilder("CRED ");
                        sb.append("c=").append(princ(c.getClientPrincipal()));
                        sb.append(" s=").append(princ(c.getServicePrincipal()));
                        EncryptionKey k = c.getKey();
                        sb.append(" k=").append(k.getEType()).append(':').append(hex(k.getBytes()));
                        sb.append(" t=").append(secs(c.getAuthTime())).append(',').append(secs(c.getStartTime())).append(',')
                          .append(secs(c.getEndTime())).append(',').append(secs(c.getRenewTill()));
                        sb.append(" skey=").append(c.isEncInSKey ? 1 : 0);
                        boolean[] fl = c.getTicketFlags().toBooleanArray();
                        long fv = 0;
                        for (int i = 0; i < 32 && i < fl.length; i++) if (fl[i]) fv |= 1L << (31 - i);
                        sb.append(String.format(" flags=%08x", fv));
                        sb.append(" addrs=");
                        HostAddresses ha = (HostAddresses) get(c, Credentials.class, "caddr");
                        if (ha != null) {
                            HostAddress[] as = (HostAddress[]) get(ha, HostAddresses.class, "addresses");
                            for (int i = 0; as != null && i < as.length; i++) {
                                if (i > 0) sb.append(';');
                                sb.append(get(as[i], HostAddress.class, "addrType")).append(':').append(hex((byte[]) get(as[i], HostAddress.class, "address")));
                            }
                        }
                        sb.append(" ad=");
                        AuthorizationData ad = (AuthorizationData) get(c, Credentials.class, "authorizationData");
                        if (ad != null) {
                            AuthorizationDataEntry[] es = (AuthorizationDataEntry[]) get(ad, AuthorizationData.class, "entry");
                            for (int i = 0; es != null && i < es.length; i++) {
                                if (i > 0) sb.append(';');
                                sb.append(es[i].adType).append(':').append(hex(es[i].adData));
                            }
                        }
                        Ticket t = c.getTicket();
                        sb.append(" tkt=").append(t == null ? "" : hex(t.asn1Encode()));
                        Ticket t2 = (Ticket) get(c, Credentials.class, "secondTicket");
                        sb.append(" tkt2=").append(t2 == null ? "" : hex(t2.asn1Encode()));
                        System.out.println(sb);
                    }
                }
                for (CredentialsCache.ConfigEntry e : fcc.getConfigEntries()) {
                    System.out.println("CONF n=" + hexs(e.getName()) + " p=" + (e.getPrinc() == null ? "" : hexs(e.getPrinc().toString())) + " d=" + hex(e.getData()));
                }
            } catch (Throwable e) {
                System.out.println("ERROR " + e);
            }
            System.out.println("END");
        }
    }
}
