// Package ccachefmt is an independent writer and reader of the MIT Kerberos file credential
// cache ("FILE:" ccache), format versions 1 to 4, written from the MIT format document
// (doc/formats/ccache_file_format.rst). It shares no code with gokrb5 and imports nothing from it.
//
// Layout, as documented:
//
//	file        ::= 0x05 version(1..4) [header, version 4 only] principal credential*
//	header      ::= uint16 length-of-all-fields, then fields: uint16 tag, uint16 length, value
//	                (tag 1 = KDC time offset: int32 seconds, int32 microseconds; a reader
//	                 "should ignore fields with unknown tags")
//	principal   ::= uint32 name type [omitted in version 1]
//	                uint32 count of components [includes the realm in version 1]
//	                data realm, data component...
//	data        ::= uint32 length, value
//	credential  ::= principal client, principal server, keyblock, uint32 authtime, starttime,
//	                endtime, renew_till, uint8 is_skey, uint32 ticket_flags, addresses, authdata,
//	                data ticket, data second_ticket
//	keyblock    ::= uint16 enctype [repeated twice in version 3], data
//	addresses   ::= uint32 count, (uint16 addrtype, data)*
//	authdata    ::= uint32 count, (uint16 ad_type, data)*
//
// Versions 1 and 2 use the byte order of the host that wrote the file; versions 3 and 4 are
// big-endian. There is no credential count: credentials follow each other until the file ends.
// Configuration entries are credentials whose server realm is "X-CACHECONF:" and whose first
// server component is "krb5_ccache_conf_data"; the value is carried in the ticket field.
package ccachefmt

import (
	"bytes"
	"encoding/binary"
	"encoding/hex"
	"encoding/json"
	"errors"
	"fmt"
)

// ConfRealm is the server realm of configuration entries; ConfName their first component.
const (
	ConfRealm = "X-CACHECONF:"
	ConfName  = "krb5_ccache_conf_data"
	TagKDCOff = 1
)

// Ticket flag values as stored in ticket_flags (the 32-bit integer whose most significant bit is
// bit 0 of the RFC 4120 TicketFlags bit string).
const (
	FlagForwardable uint32 = 0x40000000
	FlagForwarded   uint32 = 0x20000000
	FlagProxiable   uint32 = 0x10000000
	FlagRenewable   uint32 = 0x00800000
	FlagInitial     uint32 = 0x00400000
	FlagPreAuthent  uint32 = 0x00200000
)

// Hex is a byte string that serialises to JSON as hexadecimal text.
type Hex []byte

func (h Hex) MarshalJSON() ([]byte, error) { return json.Marshal(hex.EncodeToString(h)) }
func (h *Hex) UnmarshalJSON(b []byte) error {
	var s string
	if err := json.Unmarshal(b, &s); err != nil {
		return err
	}
	d, err := hex.DecodeString(s)
	if err != nil {
		return err
	}
	*h = d
	return nil
}

// HeaderField is one (tag, value) field of the version 4 header.
type HeaderField struct {
	Tag  uint16 `json:"tag"`
	Data Hex    `json:"data"`
}

// Principal is a realm and name. NameType is not stored in version 1.
type Principal struct {
	NameType int32    `json:"name_type"`
	Realm    string   `json:"realm"`
	Comps    []string `json:"comps"`
}

// Typed is an address or authorization-data element.
type Typed struct {
	Type uint16 `json:"type"`
	Data Hex    `json:"data"`
}

// Credential is one cache entry.
type Credential struct {
	Client       Principal `json:"client"`
	Server       Principal `json:"server"`
	KeyType      int16     `json:"key_type"`
	Key          Hex       `json:"key"`
	AuthTime     int32     `json:"authtime"`
	StartTime    int32     `json:"starttime"`
	EndTime      int32     `json:"endtime"`
	RenewTill    int32     `json:"renew_till"`
	IsSKey       uint8     `json:"is_skey"`
	Flags        uint32    `json:"flags"`
	Addrs        []Typed   `json:"addrs"`
	AuthData     []Typed   `json:"authdata"`
	Ticket       Hex       `json:"ticket"`
	SecondTicket Hex       `json:"second_ticket"`
}

// File is a whole cache.
type File struct {
	Version int           `json:"version"`
	Header  []HeaderField `json:"header"` // version 4 only
	Default Principal     `json:"default"`
	Creds   []Credential  `json:"creds"`
}

// IsConfig reports whether the credential is a configuration entry by the documented rule.
func (c *Credential) IsConfig() bool {
	return c.Server.Realm == ConfRealm && len(c.Server.Comps) >= 1 && c.Server.Comps[0] == ConfName
}

// ConfigEntry builds a configuration entry as MIT writes it: client = the cache's default
// principal, server = krb5_ccache_conf_data/<key>[/<principal>]@X-CACHECONF:, value in the ticket
// field, everything else zero.
func ConfigEntry(def Principal, key, princ string, value []byte) Credential {
	comps := []string{ConfName, key}
	if princ != "" {
		comps = append(comps, princ)
	}
	return Credential{Client: def, Server: Principal{NameType: 0, Realm: ConfRealm, Comps: comps}, Ticket: value}
}

// order returns the byte order of integers for a version.
func order(version int, native binary.ByteOrder) binary.ByteOrder {
	if version == 1 || version == 2 {
		return native
	}
	return binary.BigEndian
}

// ---------------------------------------------------------------------------------------------
// Writer

type wr struct {
	buf bytes.Buffer
	o   binary.ByteOrder
	v   int
}

func (w *wr) u8(x uint8) { w.buf.WriteByte(x) }
func (w *wr) u16(x uint16) {
	var b [2]byte
	w.o.PutUint16(b[:], x)
	w.buf.Write(b[:])
}
func (w *wr) u32(x uint32) {
	var b [4]byte
	w.o.PutUint32(b[:], x)
	w.buf.Write(b[:])
}
func (w *wr) data(b []byte) { w.u32(uint32(len(b))); w.buf.Write(b) }

func (w *wr) principal(p Principal) {
	if w.v != 1 {
		w.u32(uint32(p.NameType))
	}
	n := uint32(len(p.Comps))
	if w.v == 1 {
		n++ // the version 1 count includes the realm
	}
	w.u32(n)
	w.data([]byte(p.Realm))
	for _, c := range p.Comps {
		w.data([]byte(c))
	}
}

func (w *wr) typed(l []Typed) {
	w.u32(uint32(len(l)))
	for _, e := range l {
		w.u16(e.Type)
		w.data(e.Data)
	}
}

func (w *wr) credential(c *Credential) {
	w.principal(c.Client)
	w.principal(c.Server)
	w.u16(uint16(c.KeyType))
	if w.v == 3 {
		w.u16(uint16(c.KeyType)) // version 3 stores the enctype twice
	}
	w.data(c.Key)
	w.u32(uint32(c.AuthTime))
	w.u32(uint32(c.StartTime))
	w.u32(uint32(c.EndTime))
	w.u32(uint32(c.RenewTill))
	w.u8(c.IsSKey)
	w.u32(c.Flags)
	w.typed(c.Addrs)
	w.typed(c.AuthData)
	w.data(c.Ticket)
	w.data(c.SecondTicket)
}

// Marshal renders the cache. native is the byte order used for versions 1 and 2.
func Marshal(f *File, native binary.ByteOrder) ([]byte, error) {
	if f.Version < 1 || f.Version > 4 {
		return nil, fmt.Errorf("ccachefmt: version %d", f.Version)
	}
	if f.Version != 4 && len(f.Header) != 0 {
		return nil, errors.New("ccachefmt: header fields exist only in version 4")
	}
	w := &wr{o: order(f.Version, native), v: f.Version}
	w.u8(5)
	w.u8(uint8(f.Version))
	if f.Version == 4 {
		total := 0
		for _, h := range f.Header {
			if len(h.Data) > 0xffff {
				return nil, errors.New("ccachefmt: header field too long")
			}
			total += 4 + len(h.Data)
		}
		if total > 0xffff {
			return nil, errors.New("ccachefmt: header too long")
		}
		w.u16(uint16(total))
		for _, h := range f.Header {
			w.u16(h.Tag)
			w.u16(uint16(len(h.Data)))
			w.buf.Write(h.Data)
		}
	}
	w.principal(f.Default)
	for i := range f.Creds {
		w.credential(&f.Creds[i])
	}
	return w.buf.Bytes(), nil
}

// KDCOffsetField builds the tag 1 header field.
func KDCOffsetField(sec, usec int32) HeaderField {
	b := make([]byte, 8)
	binary.BigEndian.PutUint32(b[0:], uint32(sec))
	binary.BigEndian.PutUint32(b[4:], uint32(usec))
	return HeaderField{Tag: TagKDCOff, Data: b}
}

// ---------------------------------------------------------------------------------------------
// Reader (strict: every length is bounds-checked; trailing partial credentials are errors)

type rd struct {
	b   []byte
	p   int
	o   binary.ByteOrder
	v   int
	err error
}

func (r *rd) need(n int) bool {
	if r.err != nil {
		return false
	}
	if n < 0 || len(r.b)-r.p < n {
		r.err = fmt.Errorf("ccachefmt: truncated at offset %d (need %d bytes, have %d)", r.p, n, len(r.b)-r.p)
		return false
	}
	return true
}
func (r *rd) u8() uint8 {
	if !r.need(1) {
		return 0
	}
	x := r.b[r.p]
	r.p++
	return x
}
func (r *rd) u16() uint16 {
	if !r.need(2) {
		return 0
	}
	x := r.o.Uint16(r.b[r.p:])
	r.p += 2
	return x
}
func (r *rd) u32() uint32 {
	if !r.need(4) {
		return 0
	}
	x := r.o.Uint32(r.b[r.p:])
	r.p += 4
	return x
}
func (r *rd) bytes(n int) []byte {
	if !r.need(n) {
		return nil
	}
	x := append([]byte{}, r.b[r.p:r.p+n]...)
	r.p += n
	return x
}
func (r *rd) data() []byte {
	n := r.u32()
	if n > uint32(len(r.b)) {
		r.need(len(r.b) + 1)
		return nil
	}
	return r.bytes(int(n))
}

func (r *rd) principal() Principal {
	var p Principal
	if r.v != 1 {
		p.NameType = int32(r.u32())
	}
	n := r.u32()
	if r.v == 1 {
		if n == 0 && r.err == nil {
			r.err = errors.New("ccachefmt: version 1 principal with component count 0")
			return p
		}
		n--
	}
	p.Realm = string(r.data())
	p.Comps = []string{}
	for i := uint32(0); i < n && r.err == nil; i++ {
		p.Comps = append(p.Comps, string(r.data()))
	}
	return p
}

func (r *rd) typed() []Typed {
	n := r.u32()
	l := []Typed{}
	for i := uint32(0); i < n && r.err == nil; i++ {
		t := r.u16()
		l = append(l, Typed{Type: t, Data: r.data()})
	}
	return l
}

func (r *rd) credential() Credential {
	var c Credential
	c.Client = r.principal()
	c.Server = r.principal()
	c.KeyType = int16(r.u16())
	if r.v == 3 {
		r.u16() // second copy, ignored
	}
	c.Key = r.data()
	c.AuthTime = int32(r.u32())
	c.StartTime = int32(r.u32())
	c.EndTime = int32(r.u32())
	c.RenewTill = int32(r.u32())
	c.IsSKey = r.u8()
	c.Flags = r.u32()
	c.Addrs = r.typed()
	c.AuthData = r.typed()
	c.Ticket = r.data()
	c.SecondTicket = r.data()
	return c
}

// Parse reads a cache file. native is the byte order assumed for versions 1 and 2. All header
// fields (known or not) are kept so that Marshal(Parse(b)) == b.
func Parse(b []byte, native binary.ByteOrder) (*File, error) {
	if len(b) < 2 {
		return nil, errors.New("ccachefmt: shorter than the two-byte version indicator")
	}
	if b[0] != 5 {
		return nil, fmt.Errorf("ccachefmt: first byte %#x, want 5", b[0])
	}
	v := int(b[1])
	if v < 1 || v > 4 {
		return nil, fmt.Errorf("ccachefmt: version %d", v)
	}
	r := &rd{b: b, p: 2, o: order(v, native), v: v}
	f := &File{Version: v, Header: []HeaderField{}, Creds: []Credential{}}
	if v == 4 {
		hl := int(r.u16())
		if !r.need(hl) {
			return nil, r.err
		}
		end := r.p + hl
		for r.p < end {
			if end-r.p < 4 {
				return nil, errors.New("ccachefmt: header field overruns the header")
			}
			tag := r.u16()
			l := int(r.u16())
			if end-r.p < l {
				return nil, errors.New("ccachefmt: header field value overruns the header")
			}
			f.Header = append(f.Header, HeaderField{Tag: tag, Data: r.bytes(l)})
		}
	}
	f.Default = r.principal()
	for r.err == nil && r.p < len(b) {
		f.Creds = append(f.Creds, r.credential())
	}
	if r.err != nil {
		return nil, r.err
	}
	return f, nil
}

// KDCOffset returns the value of the first well-formed tag 1 header field.
func (f *File) KDCOffset() (sec, usec int32, ok bool) {
	for _, h := range f.Header {
		if h.Tag == TagKDCOff && len(h.Data) == 8 {
			return int32(binary.BigEndian.Uint32(h.Data[0:])), int32(binary.BigEndian.Uint32(h.Data[4:])), true
		}
	}
	return 0, 0, false
}

// ---------------------------------------------------------------------------------------------
// Self-test

// hand-assembled from the format document, independent of the writer above: default principal
// u/i@R (name type 1), one credential for client u/i@R and server s@R, key type 0x0012 with key
// bytes AA BB, times 1,2,3,4, is_skey 1, flags 0x40800000, one address (type 2, 7f000001), one
// authdata element (type 1, 'x'), ticket "TK", second ticket empty.
func handVector(version int, o binary.ByteOrder) []byte {
	var out []byte
	u16 := func(x uint16) {
		if o == binary.ByteOrder(binary.LittleEndian) {
			out = append(out, byte(x), byte(x>>8))
		} else {
			out = append(out, byte(x>>8), byte(x))
		}
	}
	u32 := func(x uint32) {
		if o == binary.ByteOrder(binary.LittleEndian) {
			out = append(out, byte(x), byte(x>>8), byte(x>>16), byte(x>>24))
		} else {
			out = append(out, byte(x>>24), byte(x>>16), byte(x>>8), byte(x))
		}
	}
	str := func(s string) { u32(uint32(len(s))); out = append(out, s...) }
	out = append(out, 5, byte(version))
	if version == 4 {
		u16(12)
		u16(1)
		u16(8)
		out = append(out, 0, 0, 0, 7, 0, 0, 0, 9)
	}
	ui := func() {
		if version != 1 {
			u32(1)
			u32(2)
		} else {
			u32(3)
		}
		str("R")
		str("u")
		str("i")
	}
	ui()
	ui()
	if version != 1 {
		u32(3)
		u32(1)
	} else {
		u32(2)
	}
	str("R")
	str("s")
	u16(0x12)
	if version == 3 {
		u16(0x12)
	}
	u32(2)
	out = append(out, 0xAA, 0xBB)
	u32(1)
	u32(2)
	u32(3)
	u32(4)
	out = append(out, 1)
	u32(0x40800000)
	u32(1)
	u16(2)
	u32(4)
	out = append(out, 0x7f, 0, 0, 1)
	u32(1)
	u16(1)
	u32(1)
	out = append(out, 'x')
	str("TK")
	u32(0)
	return out
}

func handModel(version int) *File {
	ui := Principal{NameType: 1, Realm: "R", Comps: []string{"u", "i"}}
	srv := Principal{NameType: 3, Realm: "R", Comps: []string{"s"}}
	f := &File{Version: version, Header: []HeaderField{}, Default: ui, Creds: []Credential{{
		Client: ui, Server: srv, KeyType: 0x12, Key: Hex{0xAA, 0xBB}, AuthTime: 1, StartTime: 2, EndTime: 3, RenewTill: 4,
		IsSKey: 1, Flags: FlagForwardable | FlagRenewable, Addrs: []Typed{{Type: 2, Data: Hex{0x7f, 0, 0, 1}}},
		AuthData: []Typed{{Type: 1, Data: Hex("x")}}, Ticket: Hex("TK"), SecondTicket: Hex{}}}}
	if version == 4 {
		f.Header = []HeaderField{KDCOffsetField(7, 9)}
	}
	if version == 1 {
		f.Default.NameType, f.Creds[0].Client.NameType, f.Creds[0].Server.NameType = 0, 0, 0
	}
	return f
}

// SelfTest validates writer and reader: (1) the MIT kinit sample (version 4) passed in by the
// caller parses to the documented facts and re-writes byte-identically; (2) for every version and
// both byte orders a hand-assembled file equals the writer's output for the same model and parses
// back to it; (3) spot values of the version 1/2 little-endian layout are pinned as literal hex.
func SelfTest(mitSample []byte) error {
	f, err := Parse(mitSample, binary.LittleEndian)
	if err != nil {
		return fmt.Errorf("MIT sample: %v", err)
	}
	if f.Version != 4 || len(f.Header) != 1 || f.Header[0].Tag != 1 || len(f.Header[0].Data) != 8 {
		return fmt.Errorf("MIT sample: version/header %d %+v", f.Version, f.Header)
	}
	if f.Default.Realm != "TEST.GOKRB5" || len(f.Default.Comps) != 1 || f.Default.Comps[0] != "testuser1" || f.Default.NameType != 1 {
		return fmt.Errorf("MIT sample: default principal %+v", f.Default)
	}
	if len(f.Creds) != 3 {
		return fmt.Errorf("MIT sample: %d credentials, want 3", len(f.Creds))
	}
	tgt := f.Creds[0]
	if fmt.Sprint(tgt.Server.Comps) != "[krbtgt TEST.GOKRB5]" || tgt.Server.Realm != "TEST.GOKRB5" || tgt.KeyType != 18 || len(tgt.Key) != 32 ||
		tgt.Flags != 0x40c10000 || tgt.AuthTime != 0x59665b8e || tgt.EndTime != 0x5967044e || tgt.RenewTill != 0x5967ad08 || tgt.IsSKey != 0 ||
		len(tgt.Ticket) == 0 || tgt.Ticket[0] != 0x61 {
		return fmt.Errorf("MIT sample: TGT credential %+v", tgt)
	}
	nconf := 0
	for i := range f.Creds {
		if f.Creds[i].IsConfig() {
			nconf++
		}
	}
	if nconf != 1 || fmt.Sprint(f.Creds[2].Server.Comps) != "[HTTP host.test.gokrb5]" {
		return fmt.Errorf("MIT sample: %d config entries, third server %v", nconf, f.Creds[2].Server.Comps)
	}
	re, err := Marshal(f, binary.LittleEndian)
	if err != nil || !bytes.Equal(re, mitSample) {
		return fmt.Errorf("MIT sample does not re-write byte-identically (%v)", err)
	}
	for v := 1; v <= 4; v++ {
		for _, o := range []binary.ByteOrder{binary.LittleEndian, binary.BigEndian} {
			eff := order(v, o)
			want := handVector(v, eff)
			got, err := Marshal(handModel(v), o)
			if err != nil || !bytes.Equal(got, want) {
				return fmt.Errorf("version %d %v: writer output differs from the hand-assembled file\n have %x\n want %x (%v)", v, eff, got, want, err)
			}
			back, err := Parse(want, o)
			if err != nil {
				return fmt.Errorf("version %d %v: reader: %v", v, eff, err)
			}
			a, _ := json.Marshal(back)
			b, _ := json.Marshal(handModel(v))
			if !bytes.Equal(a, b) {
				return fmt.Errorf("version %d %v: reader yields\n %s\nwant\n %s", v, eff, a, b)
			}
		}
	}
	// literal pins: start of the version 1 and version 2 little-endian hand files
	v1 := hex.EncodeToString(handVector(1, binary.LittleEndian)[:21])
	if v1 != "0501"+"03000000"+"01000000"+"52"+"01000000"+"75"+"01000000"+"69" {
		return fmt.Errorf("version 1 literal pin: %s", v1)
	}
	v2 := hex.EncodeToString(handVector(2, binary.LittleEndian)[:14])
	if v2 != "0502"+"01000000"+"02000000"+"01000000" {
		return fmt.Errorf("version 2 literal pin: %s", v2)
	}
	return nil
}
