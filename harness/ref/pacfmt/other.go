package pacfmt

import (
	"encoding/binary"
	"fmt"
	"unicode/utf16"
)

// ClientInfo is PAC_CLIENT_INFO ([MS-PAC] 2.7): FILETIME ClientId; USHORT NameLength; WCHAR Name[].
type ClientInfo struct {
	ClientID   uint64
	NameLength uint16
	Name       string
	NameOff    int // offset of the first name character in the buffer
}

func decodeUTF16(b []byte) string {
	u := make([]uint16, len(b)/2)
	for i := range u {
		u[i] = binary.LittleEndian.Uint16(b[2*i:])
	}
	return string(utf16.Decode(u))
}

// EncodeUTF16 is the little-endian UTF-16 form of s.
func EncodeUTF16(s string) []byte {
	u := utf16.Encode([]rune(s))
	b := make([]byte, 2*len(u))
	for i, c := range u {
		binary.LittleEndian.PutUint16(b[2*i:], c)
	}
	return b
}

// ParseClientInfo decodes a PAC_CLIENT_INFO buffer strictly.
func ParseClientInfo(b []byte) (*ClientInfo, error) {
	if len(b) < 10 {
		return nil, fmt.Errorf("client info of %d octets", len(b))
	}
	c := &ClientInfo{ClientID: binary.LittleEndian.Uint64(b), NameLength: binary.LittleEndian.Uint16(b[8:]), NameOff: 10}
	if int(c.NameLength) != len(b)-10 || c.NameLength%2 != 0 {
		return nil, fmt.Errorf("client info: NameLength %d in a %d-octet buffer", c.NameLength, len(b))
	}
	c.Name = decodeUTF16(b[10:])
	return c, nil
}

// EncodeClientInfo builds a PAC_CLIENT_INFO buffer.
func EncodeClientInfo(clientID uint64, name string) []byte {
	n := EncodeUTF16(name)
	b := make([]byte, 10, 10+len(n))
	binary.LittleEndian.PutUint64(b, clientID)
	binary.LittleEndian.PutUint16(b[8:], uint16(len(n)))
	return append(b, n...)
}

// UPNDNSInfo is UPN_DNS_INFO ([MS-PAC] 2.10): four USHORTs (UpnLength, UpnOffset,
// DnsDomainNameLength, DnsDomainNameOffset), ULONG Flags, then the strings at their offsets.
type UPNDNSInfo struct {
	UPNLength, UPNOffset, DNSLength, DNSOffset uint16
	Flags                                      uint32
	UPN, DNSDomain                             string
}

// ParseUPNDNSInfo decodes a UPN_DNS_INFO buffer strictly.
func ParseUPNDNSInfo(b []byte) (*UPNDNSInfo, error) {
	if len(b) < 12 {
		return nil, fmt.Errorf("upn_dns_info of %d octets", len(b))
	}
	u := &UPNDNSInfo{UPNLength: binary.LittleEndian.Uint16(b), UPNOffset: binary.LittleEndian.Uint16(b[2:]),
		DNSLength: binary.LittleEndian.Uint16(b[4:]), DNSOffset: binary.LittleEndian.Uint16(b[6:]), Flags: binary.LittleEndian.Uint32(b[8:])}
	if int(u.UPNOffset)+int(u.UPNLength) > len(b) || int(u.DNSOffset)+int(u.DNSLength) > len(b) || u.UPNLength%2 != 0 || u.DNSLength%2 != 0 {
		return nil, fmt.Errorf("upn_dns_info: strings [%d,+%d) [%d,+%d) outside a %d-octet buffer", u.UPNOffset, u.UPNLength, u.DNSOffset, u.DNSLength, len(b))
	}
	u.UPN = decodeUTF16(b[u.UPNOffset : u.UPNOffset+u.UPNLength])
	u.DNSDomain = decodeUTF16(b[u.DNSOffset : u.DNSOffset+u.DNSLength])
	return u, nil
}

// EncodeUPNDNSInfo builds a UPN_DNS_INFO buffer the way Windows lays it out (strings 8-aligned).
func EncodeUPNDNSInfo(upn, dns string, flags uint32) []byte {
	u, d := EncodeUTF16(upn), EncodeUTF16(dns)
	uo := 16
	do := pad8(uo + len(u))
	b := make([]byte, pad8(do+len(d)))
	binary.LittleEndian.PutUint16(b[0:], uint16(len(u)))
	binary.LittleEndian.PutUint16(b[2:], uint16(uo))
	binary.LittleEndian.PutUint16(b[4:], uint16(len(d)))
	binary.LittleEndian.PutUint16(b[6:], uint16(do))
	binary.LittleEndian.PutUint32(b[8:], flags)
	copy(b[uo:], u)
	copy(b[do:], d)
	return b
}
