package pacfmt

import (
	"encoding/binary"
	"fmt"

	ref "verif/harness/ref/krbcrypto"
)

// KeyUsage is KERB_NON_KERB_CKSUM_SALT ([MS-PAC] 2.8, [MS-KILE] 3.1.5.9).
const KeyUsage uint32 = 17

// SigTypes are the checksum types a PAC_SIGNATURE_DATA may declare: the three of [MS-PAC] 2.8
// (KERB_CHECKSUM_HMAC_MD5 = -138, HMAC_SHA1_96_AES128 = 15, HMAC_SHA1_96_AES256 = 16) and the two
// RFC 8009 types gokrb5 also knows (19, 20).
var SigTypes = []int32{-138, 15, 16, 19, 20}

// SigLen is the size of the Signature field for a checksum type; 0 for a type that cannot appear.
func SigLen(typ int32) int {
	switch typ {
	case -138:
		return 16
	case 15, 16:
		return 12
	case 19:
		return 16
	case 20:
		return 24
	}
	return 0
}

// Signature is a decoded PAC_SIGNATURE_DATA.
type Signature struct {
	Type  int32
	Value []byte
	RODC  *uint16 // RODCIdentifier; nil when the KDC is not an RODC (the field then does not exist)
}

// SignatureBuffer encodes a PAC_SIGNATURE_DATA whose Signature field is n zero bytes.
func SignatureBuffer(declared int32, n int, rodc *uint16) []byte {
	b := make([]byte, 4+n)
	binary.LittleEndian.PutUint32(b, uint32(declared))
	if rodc != nil {
		b = append(b, byte(*rodc), byte(*rodc>>8))
	}
	return b
}

// ParseSignature decodes a PAC_SIGNATURE_DATA strictly.
func ParseSignature(b []byte) (Signature, error) {
	if len(b) < 4 {
		return Signature{}, fmt.Errorf("signature buffer of %d bytes", len(b))
	}
	s := Signature{Type: int32(binary.LittleEndian.Uint32(b))}
	n := SigLen(s.Type)
	if n == 0 {
		return s, fmt.Errorf("signature type %d is not a PAC checksum type", s.Type)
	}
	switch len(b) {
	case 4 + n:
	case 4 + n + 2:
		v := binary.LittleEndian.Uint16(b[4+n:])
		s.RODC = &v
	default:
		return s, fmt.Errorf("signature buffer of %d bytes for type %d (want %d or %d)", len(b), s.Type, 4+n, 4+n+2)
	}
	s.Value = append([]byte{}, b[4:4+n]...)
	return s, nil
}

// Span is a byte range [Lo,Hi) of the PAC.
type Span struct{ Lo, Hi int }

// Contains reports whether byte i lies in the span.
func (s Span) Contains(i int) bool { return i >= s.Lo && i < s.Hi }

// ValueSpan is the range of the Signature field of the effective (first) signature buffer of the
// given type: four bytes behind the buffer start, as long as the buffer's declared type says, cut
// to the buffer. ok is false when there is no such buffer.
func ValueSpan(pac []byte, es []Entry, typ uint32) (Span, bool) {
	i := First(es, typ)
	if i < 0 {
		return Span{}, false
	}
	e := es[i]
	if e.Size < 4 {
		return Span{int(e.Offset), int(e.Offset)}, true
	}
	decl := int32(binary.LittleEndian.Uint32(pac[e.Offset:]))
	n := SigLen(decl)
	if 4+n > int(e.Size) {
		n = int(e.Size) - 4
	}
	return Span{int(e.Offset) + 4, int(e.Offset) + 4 + n}, true
}

// SignedData is the input of the server checksum ([MS-PAC] 2.8.1): the whole PAC with the Signature
// fields of both the server and the KDC PAC_SIGNATURE_DATA set to zero.
func SignedData(pac []byte, es []Entry) []byte {
	z := append([]byte{}, pac...)
	for _, t := range []uint32{TypeServerChecksum, TypeKDCChecksum} {
		if sp, ok := ValueSpan(pac, es, t); ok {
			for i := sp.Lo; i < sp.Hi; i++ {
				z[i] = 0
			}
		}
	}
	return z
}

// fit cuts or zero-extends v to n bytes.
func fit(v []byte, n int) []byte {
	out := make([]byte, n)
	copy(out, v)
	return out
}

// Sign fills in both signatures of an assembled PAC in place: the server signature is the keyed
// checksum (usage 17) under the service key over SignedData; the KDC signature is the keyed
// checksum under the KDC key over the server signature value ([MS-PAC] 2.8.2). srvAlg / kdcAlg are
// the algorithms actually used; they normally equal the types declared in the buffers. A value
// whose length differs from the declared field is cut or zero-extended to the field.
func Sign(pac []byte, es []Entry, srvAlg int32, srvKey []byte, kdcAlg int32, kdcKey []byte) error {
	ssp, ok := ValueSpan(pac, es, TypeServerChecksum)
	if !ok {
		return nil // nothing to sign: the server signature buffer is absent
	}
	sv, err := ref.Checksum(srvAlg, srvKey, KeyUsage, SignedData(pac, es))
	if err != nil {
		return err
	}
	copy(pac[ssp.Lo:ssp.Hi], fit(sv, ssp.Hi-ssp.Lo))
	if ksp, ok := ValueSpan(pac, es, TypeKDCChecksum); ok {
		kv, err := ref.Checksum(kdcAlg, kdcKey, KeyUsage, pac[ssp.Lo:ssp.Hi])
		if err != nil {
			return err
		}
		copy(pac[ksp.Lo:ksp.Hi], fit(kv, ksp.Hi-ksp.Lo))
	}
	return nil
}

// VerifyServer is the reference verdict on a PAC's server signature for a service key: it reports
// whether the signature declared in the effective server-signature buffer equals the reference
// checksum of the declared type over SignedData.
func VerifyServer(pac []byte, es []Entry, key []byte) (bool, error) {
	i := First(es, TypeServerChecksum)
	if i < 0 {
		return false, fmt.Errorf("no server signature buffer")
	}
	s, err := ParseSignature(pac[es[i].Offset : es[i].Offset+uint64(es[i].Size)])
	if err != nil {
		return false, err
	}
	want, err := ref.Checksum(s.Type, key, KeyUsage, SignedData(pac, es))
	if err != nil {
		return false, err
	}
	if len(want) != len(s.Value) {
		return false, nil
	}
	d := byte(0)
	for j := range want {
		d |= want[j] ^ s.Value[j]
	}
	return d == 0, nil
}
