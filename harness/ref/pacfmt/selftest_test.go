package pacfmt_test

import (
	"testing"

	"github.com/jcmturner/gokrb5/v8/test/testdata"

	"verif/harness/ref/pacfmt"
)

func TestSelf(t *testing.T) {
	if err := pacfmt.SelfTest(pacfmt.Samples{
		WIN2KPAC: testdata.MarshaledPAC_AD_WIN2K_PAC, ADDataMS: testdata.MarshaledPAC_AuthorizationData_MS,
		LogonInfo: testdata.MarshaledPAC_Kerb_Validation_Info, LogonInfoMS: testdata.MarshaledPAC_Kerb_Validation_Info_MS,
		LogonInfoTrust: testdata.MarshaledPAC_Kerb_Validation_Info_Trust, ClientInfo: testdata.MarshaledPAC_Client_Info,
		UPNDNSInfo: testdata.MarshaledPAC_UPN_DNS_Info, ServerSig: testdata.MarshaledPAC_Server_Signature,
		KDCSig: testdata.MarshaledPAC_KDC_Signature, KeytabSysHTTP: testdata.KEYTAB_SYSHTTP_TEST_GOKRB5,
	}); err != nil {
		t.Fatal(err)
	}
}
