// Package pacfmt is an independent reader and assembler for the Microsoft Privilege Attribute
// Certificate, written from [MS-PAC] section 2 (PACTYPE, PAC_INFO_BUFFER, PAC_SIGNATURE_DATA,
// PAC_CLIENT_INFO, UPN_DNS_INFO) and, for KERB_VALIDATION_INFO, from [MS-PAC] 2.5 with the NDR
// transfer syntax of [C706] chapter 14 and the type-serialisation headers of [MS-RPCE] 2.2.6.
// It shares no code with gokrb5 or with github.com/jcmturner/rpc.
package pacfmt

import (
	"encoding/binary"
	"fmt"
)

// ulType values of PAC_INFO_BUFFER ([MS-PAC] 2.4).
const (
	TypeLogonInfo      uint32 = 1
	TypeCredentials    uint32 = 2
	TypeServerChecksum uint32 = 6
	TypeKDCChecksum    uint32 = 7
	TypeClientInfo     uint32 = 10
	TypeS4UDelegation  uint32 = 11
	TypeUPNDNSInfo     uint32 = 12
	TypeClientClaims   uint32 = 13
	TypeDeviceInfo     uint32 = 14
	TypeDeviceClaims   uint32 = 15
	TypeTicketChecksum uint32 = 16
	TypeAttributes     uint32 = 17
	TypeRequestor      uint32 = 18
	TypeFullChecksum   uint32 = 19
)

// Mandatory lists the buffers every PAC MUST contain ([MS-PAC] 2.4: logon information, server
// checksum, KDC checksum, client name and ticket information).
var Mandatory = []uint32{TypeLogonInfo, TypeClientInfo, TypeServerChecksum, TypeKDCChecksum}

// Entry is one PAC_INFO_BUFFER: {ULONG ulType; ULONG cbBufferSize; ULONG64 Offset}, little-endian.
type Entry struct {
	Type   uint32
	Size   uint32
	Offset uint64
}

// PAC is a decoded PACTYPE.
type PAC struct {
	Version uint32
	Entries []Entry
	Raw     []byte
}

// HeaderLen is the size of a PACTYPE header with n PAC_INFO_BUFFER entries.
func HeaderLen(n int) int { return 8 + 16*n }

// Parse reads a PACTYPE strictly: version 0, every buffer 8-byte aligned, behind the header and
// inside the input.
func Parse(b []byte) (*PAC, error) {
	if len(b) < 8 {
		return nil, fmt.Errorf("pac: %d bytes, shorter than the PACTYPE header", len(b))
	}
	n := binary.LittleEndian.Uint32(b[0:4])
	v := binary.LittleEndian.Uint32(b[4:8])
	if v != 0 {
		return nil, fmt.Errorf("pac: version %d, MUST be 0", v)
	}
	if uint64(n)*16+8 > uint64(len(b)) {
		return nil, fmt.Errorf("pac: cBuffers %d does not fit in %d bytes", n, len(b))
	}
	p := &PAC{Version: v, Raw: b}
	hl := uint64(HeaderLen(int(n)))
	for i := 0; i < int(n); i++ {
		q := b[8+16*i:]
		e := Entry{Type: binary.LittleEndian.Uint32(q[0:4]), Size: binary.LittleEndian.Uint32(q[4:8]), Offset: binary.LittleEndian.Uint64(q[8:16])}
		if e.Offset%8 != 0 {
			return nil, fmt.Errorf("pac: buffer %d offset %d is not a multiple of 8", i, e.Offset)
		}
		if e.Offset < hl || e.Offset > uint64(len(b)) || uint64(e.Size) > uint64(len(b))-e.Offset {
			return nil, fmt.Errorf("pac: buffer %d [%d,+%d) outside the PAC data area [%d,%d)", i, e.Offset, e.Size, hl, len(b))
		}
		p.Entries = append(p.Entries, e)
	}
	return p, nil
}

// Data returns the bytes of buffer i.
func (p *PAC) Data(i int) []byte {
	e := p.Entries[i]
	return p.Raw[e.Offset : e.Offset+uint64(e.Size)]
}

// First returns the index of the first buffer of a type, or -1. Where [MS-PAC] allows only one
// buffer of a type it says that additional ones MUST be ignored, so the first one is the effective one.
func First(es []Entry, typ uint32) int {
	for i, e := range es {
		if e.Type == typ {
			return i
		}
	}
	return -1
}

// MissingMandatory lists the mandatory buffer types absent from the entries.
func MissingMandatory(es []Entry) []uint32 {
	var out []uint32
	for _, t := range Mandatory {
		if First(es, t) < 0 {
			out = append(out, t)
		}
	}
	return out
}

// Item is one buffer to place in an assembled PAC.
type Item struct {
	Type uint32
	Data []byte
}

// Layout controls where the assembler puts the payloads. The zero value is the layout Windows
// produces: payloads in header order, each padded with zero bytes to a multiple of 8.
type Layout struct {
	DataOrder []int // order in which the payloads are laid out in the data area; nil or wrong length = header order
	Gap       []int // extra 8-byte units of padding in front of payload i (indexed like the items)
	Fill      byte  // value of every padding byte
	TailUnits int   // extra 8-byte units of padding after the last payload
}

func pad8(n int) int { return (n + 7) &^ 7 }

// Assemble builds PACTYPE bytes for the items and returns the entries it wrote.
func Assemble(items []Item, l Layout) ([]byte, []Entry) {
	n := len(items)
	order := l.DataOrder
	if len(order) != n || !isPerm(order) {
		order = make([]int, n)
		for i := range order {
			order[i] = i
		}
	}
	entries := make([]Entry, n)
	pos := HeaderLen(n)
	for _, i := range order {
		if i < len(l.Gap) && l.Gap[i] > 0 {
			pos += 8 * l.Gap[i]
		}
		entries[i] = Entry{Type: items[i].Type, Size: uint32(len(items[i].Data)), Offset: uint64(pos)}
		pos = pad8(pos + len(items[i].Data))
	}
	pos += 8 * l.TailUnits
	out := make([]byte, pos)
	for i := range out {
		out[i] = l.Fill
	}
	binary.LittleEndian.PutUint32(out[0:], uint32(n))
	binary.LittleEndian.PutUint32(out[4:], 0)
	for i, e := range entries {
		q := out[8+16*i:]
		binary.LittleEndian.PutUint32(q[0:], e.Type)
		binary.LittleEndian.PutUint32(q[4:], e.Size)
		binary.LittleEndian.PutUint64(q[8:], e.Offset)
		copy(out[e.Offset:], items[i].Data)
	}
	return out, entries
}

func isPerm(p []int) bool {
	seen := make([]bool, len(p))
	for _, v := range p {
		if v < 0 || v >= len(p) || seen[v] {
			return false
		}
		seen[v] = true
	}
	return true
}

// Items decomposes a parsed PAC into its buffers, in header order.
func (p *PAC) Items() []Item {
	out := make([]Item, len(p.Entries))
	for i, e := range p.Entries {
		out[i] = Item{Type: e.Type, Data: append([]byte{}, p.Data(i)...)}
	}
	return out
}
