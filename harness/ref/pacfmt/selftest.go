package pacfmt

import (
	"bytes"
	"encoding/binary"
	"encoding/hex"
	"fmt"
	"reflect"
	"time"
)

// Samples are the captured PAC vectors shipped in gokrb5's test data (hex), handed in by the
// caller so that this package imports nothing of gokrb5.
type Samples struct {
	WIN2KPAC       string // MarshaledPAC_AD_WIN2K_PAC: a complete PAC issued by a Windows KDC for sysHTTP@TEST.GOKRB5
	ADDataMS       string // MarshaledPAC_AuthorizationData_MS: DER AuthorizationData wrapping the PAC of the Microsoft example
	LogonInfo      string // MarshaledPAC_Kerb_Validation_Info
	LogonInfoMS    string // MarshaledPAC_Kerb_Validation_Info_MS
	LogonInfoTrust string // MarshaledPAC_Kerb_Validation_Info_Trust
	ClientInfo     string
	UPNDNSInfo     string
	ServerSig      string
	KDCSig         string
	KeytabSysHTTP  string // KEYTAB_SYSHTTP_TEST_GOKRB5 (MIT keytab v2): holds the aes256 key, kvno 2, that signed WIN2KPAC
}

// KeytabKey extracts a key from an MIT keytab (file format version 0x0502: big-endian, per entry
// int32 size, uint16 components, counted realm and components, uint32 name type, uint32 timestamp,
// uint8 vno, uint16 keytype, counted key, optional uint32 vno).
func KeytabKey(kt []byte, etype int, kvno int) ([]byte, error) {
	if len(kt) < 2 || kt[0] != 5 || kt[1] != 2 {
		return nil, fmt.Errorf("not a version 0x0502 keytab")
	}
	p := 2
	for p+4 <= len(kt) {
		sz := int(int32(binary.BigEndian.Uint32(kt[p:])))
		p += 4
		if sz < 0 {
			p += -sz
			continue
		}
		if p+sz > len(kt) {
			return nil, fmt.Errorf("keytab entry overruns the file")
		}
		e := kt[p : p+sz]
		p += sz
		q := 0
		counted := func() []byte {
			n := int(binary.BigEndian.Uint16(e[q:]))
			q += 2
			v := e[q : q+n]
			q += n
			return v
		}
		nc := int(binary.BigEndian.Uint16(e[q:]))
		q += 2
		counted() // realm
		for i := 0; i < nc; i++ {
			counted()
		}
		q += 4 + 4 // name type, timestamp
		vno := int(e[q])
		q++
		kt16 := int(binary.BigEndian.Uint16(e[q:]))
		q += 2
		key := counted()
		if len(e)-q >= 4 {
			if v := int(binary.BigEndian.Uint32(e[q:])); v != 0 {
				vno = v
			}
		}
		if kt16 == etype && vno == kvno {
			return append([]byte{}, key...), nil
		}
	}
	return nil, fmt.Errorf("no key of etype %d kvno %d in the keytab", etype, kvno)
}

func unhex(s string) []byte {
	b, err := hex.DecodeString(s)
	if err != nil {
		panic(err)
	}
	return b
}

// ExtractPAC finds the PACTYPE inside DER AuthorizationData bytes (the content of the innermost
// OCTET STRING, which is the tail of the encoding).
func ExtractPAC(adData []byte, cBuffers uint32) ([]byte, error) {
	var head [8]byte
	binary.LittleEndian.PutUint32(head[:], cBuffers)
	i := bytes.Index(adData, head[:])
	if i < 0 {
		return nil, fmt.Errorf("no PACTYPE header with %d buffers found", cBuffers)
	}
	return adData[i:], nil
}

type liWant struct {
	logon, pwdLastSet, pwdCanChange          time.Time
	eff, full, script, server, domain, domID string
	logonCount                               uint16
	userID, primary, flags, uac              uint32
	rids                                     []uint32
	extra                                    []string
	extraAttr                                []uint32
	resDom                                   string
	resRids                                  []uint32
	groupSIDs                                []string
}

const never = 0x7fffffffffffffff

func checkLogonInfo(name string, b []byte, w liWant) error {
	li, err := ParseLogonInfo(b)
	if err != nil {
		return fmt.Errorf("%s: %v", name, err)
	}
	bad := func(f string, got, want any) error {
		return fmt.Errorf("%s: %s = %v, documented value %v", name, f, got, want)
	}
	for _, c := range []struct {
		f    string
		g, w any
	}{
		{"LogonTime", FileTimeToTime(li.LogonTime), w.logon}, {"PasswordLastSet", FileTimeToTime(li.PasswordLastSet), w.pwdLastSet},
		{"PasswordCanChange", FileTimeToTime(li.PasswordCanChange), w.pwdCanChange},
		{"LogoffTime", li.LogoffTime, uint64(never)}, {"KickOffTime", li.KickOffTime, uint64(never)},
		{"EffectiveName", li.EffectiveName.String(), w.eff}, {"FullName", li.FullName.String(), w.full}, {"LogonScript", li.LogonScript.String(), w.script},
		{"ProfilePath", li.ProfilePath.String(), ""}, {"HomeDirectory", li.HomeDirectory.String(), ""}, {"HomeDirectoryDrive", li.HomeDirectoryDrive.String(), ""},
		{"LogonServer", li.LogonServer.String(), w.server}, {"LogonDomainName", li.LogonDomainName.String(), w.domain}, {"LogonDomainID", li.LogonDomainID.String(), w.domID},
		{"LogonCount", li.LogonCount, w.logonCount}, {"BadPasswordCount", li.BadPasswordCount, uint16(0)},
		{"UserID", li.UserID, w.userID}, {"PrimaryGroupID", li.PrimaryGroupID, w.primary}, {"UserFlags", li.UserFlags, w.flags},
		{"UserAccountControl", li.UserAccountControl, w.uac}, {"GroupCount", int(li.GroupCount), len(w.rids)}, {"SIDCount", int(li.SIDCount), len(w.extra)},
		{"UserSessionKey", li.UserSessionKey, [16]byte{}}, {"SubAuthStatus", li.SubAuthStatus, uint32(0)}, {"FailedILogonCount", li.FailedILogonCount, uint32(0)},
	} {
		if !reflect.DeepEqual(c.g, c.w) {
			return bad(c.f, c.g, c.w)
		}
	}
	for i, r := range w.rids {
		if li.GroupIDs[i].RelativeID != r || li.GroupIDs[i].Attributes != 7 {
			return bad(fmt.Sprintf("GroupIDs[%d]", i), li.GroupIDs[i], r)
		}
	}
	for i, s := range w.extra {
		if li.ExtraSIDs[i].SID.String() != s || li.ExtraSIDs[i].Attributes != w.extraAttr[i] {
			return bad(fmt.Sprintf("ExtraSIDs[%d]", i), li.ExtraSIDs[i].SID.String(), s)
		}
	}
	if w.resDom == "" {
		if li.ResourceGroupDomainSID != nil || len(li.ResourceGroupIDs) != 0 {
			return bad("ResourceGroupDomainSID", li.ResourceGroupDomainSID.String(), "absent")
		}
	} else {
		if li.ResourceGroupDomainSID.String() != w.resDom {
			return bad("ResourceGroupDomainSID", li.ResourceGroupDomainSID.String(), w.resDom)
		}
		for i, r := range w.resRids {
			if li.ResourceGroupIDs[i].RelativeID != r || li.ResourceGroupIDs[i].Attributes != 536870919 {
				return bad(fmt.Sprintf("ResourceGroupIDs[%d]", i), li.ResourceGroupIDs[i], r)
			}
		}
	}
	if w.groupSIDs != nil && !reflect.DeepEqual(li.GroupSIDs(), w.groupSIDs) {
		return bad("GroupSIDs", li.GroupSIDs(), w.groupSIDs)
	}
	if re := li.Encode(); !bytes.Equal(re, b) {
		return fmt.Errorf("%s: re-encoding differs from the sample (%d vs %d octets)", name, len(re), len(b))
	}
	// a structure rebuilt from the values alone must encode to the sample as well (referent ids and
	// padding as Windows writes them)
	cp := *li
	cp.ObjectLen = 0
	if re := cp.Encode(); !bytes.Equal(re, b) {
		return fmt.Errorf("%s: encoding from values differs from the sample", name)
	}
	return nil
}

// SelfTest validates reader, writer, assembler and the signing model against the captured samples
// and their documented contents (the values asserted by gokrb5's own pac tests, which describe
// captures from a Windows KDC and the Microsoft example).
func SelfTest(s Samples) error {
	d := func(y int, mo time.Month, dd, h, mi, se, ns int) time.Time {
		return time.Date(y, mo, dd, h, mi, se, ns, time.UTC)
	}
	if err := checkLogonInfo("Kerb_Validation_Info", unhex(s.LogonInfo), liWant{
		logon: d(2017, 5, 6, 15, 53, 11, 825766900), pwdLastSet: d(2017, 5, 6, 7, 23, 8, 968750000), pwdCanChange: d(2017, 5, 7, 7, 23, 8, 968750000),
		eff: "testuser1", full: "Test1 User1", server: "ADDC", domain: "TEST", domID: "S-1-5-21-3167651404-3865080224-2280184895",
		logonCount: 216, userID: 1105, primary: 513, flags: 32, uac: 528, rids: []uint32{513, 1108, 1109, 1115, 1116},
		extra:     []string{"S-1-5-21-3167651404-3865080224-2280184895-1114", "S-1-5-21-3167651404-3865080224-2280184895-1111"},
		extraAttr: []uint32{536870919, 536870919}}); err != nil {
		return err
	}
	if err := checkLogonInfo("Kerb_Validation_Info_MS", unhex(s.LogonInfoMS), liWant{
		logon: d(2006, 4, 28, 1, 42, 50, 925640100), pwdLastSet: d(2006, 3, 18, 10, 44, 54, 837147900), pwdCanChange: d(2006, 3, 19, 10, 44, 54, 837147900),
		eff: "lzhu", full: "Liqiang(Larry) Zhu", script: "ntds2.bat", server: "NTDEV-DC-05", domain: "NTDEV", domID: "S-1-5-21-397955417-626881126-188441444",
		logonCount: 4180, userID: 2914711, primary: 513, flags: 32, uac: 16,
		rids: []uint32{3392609, 2999049, 3322974, 513, 2931095, 3338539, 3354830, 3026599, 3338538, 2931096, 3392610, 3342740, 3392630, 3014318, 2937394, 3278870,
			3038018, 3322975, 3513546, 2966661, 3338434, 3271401, 3051245, 3271606, 3026603, 3018354},
		extra: []string{"S-1-5-21-773533881-1816936887-355810188-513", "S-1-5-21-397955417-626881126-188441444-3101812", "S-1-5-21-397955417-626881126-188441444-3291368",
			"S-1-5-21-397955417-626881126-188441444-3291341", "S-1-5-21-397955417-626881126-188441444-3322973", "S-1-5-21-397955417-626881126-188441444-3479105",
			"S-1-5-21-397955417-626881126-188441444-3271400", "S-1-5-21-397955417-626881126-188441444-3283393", "S-1-5-21-397955417-626881126-188441444-3338537",
			"S-1-5-21-397955417-626881126-188441444-3038991", "S-1-5-21-397955417-626881126-188441444-3037999", "S-1-5-21-397955417-626881126-188441444-3248111",
			"S-1-5-21-397955417-626881126-188441444-3038983"}, // SidCount is 13; gokrb5's own test spells out the first twelve
		extraAttr: []uint32{7, 536870919, 536870919, 536870919, 536870919, 536870919, 536870919, 536870919, 536870919, 536870919, 536870919, 536870919, 536870919}}); err != nil {
		return err
	}
	if err := checkLogonInfo("Kerb_Validation_Info_Trust", unhex(s.LogonInfoTrust), liWant{
		logon: d(2017, 10, 14, 12, 3, 41, 52409900), pwdLastSet: d(2017, 10, 10, 20, 42, 56, 220282300), pwdCanChange: d(2017, 10, 11, 20, 42, 56, 220282300),
		eff: "testuser1", full: "Test1 User1", server: "UDC", domain: "USER", domID: "S-1-5-21-2284869408-3503417140-1141177250",
		logonCount: 46, userID: 1106, primary: 513, flags: 544, uac: 528, rids: []uint32{1110, 513, 1109},
		extra: []string{"S-1-18-1"}, extraAttr: []uint32{7}, resDom: "S-1-5-21-3062750306-1230139592-1973306805", resRids: []uint32{1107, 1108},
		groupSIDs: []string{"S-1-5-21-2284869408-3503417140-1141177250-1110", "S-1-5-21-2284869408-3503417140-1141177250-513",
			"S-1-5-21-2284869408-3503417140-1141177250-1109", "S-1-18-1",
			"S-1-5-21-3062750306-1230139592-1973306805-1107", "S-1-5-21-3062750306-1230139592-1973306805-1108"}}); err != nil {
		return err
	}
	ci, err := ParseClientInfo(unhex(s.ClientInfo))
	if err != nil {
		return err
	}
	if ci.Name != "testuser1" || ci.NameLength != 18 || !FileTimeToTime(ci.ClientID).Equal(d(2017, 5, 6, 15, 53, 11, 0)) {
		return fmt.Errorf("client info decodes to %+v", ci)
	}
	if !bytes.Equal(EncodeClientInfo(ci.ClientID, ci.Name), unhex(s.ClientInfo)) {
		return fmt.Errorf("client info does not re-encode to the sample")
	}
	u, err := ParseUPNDNSInfo(unhex(s.UPNDNSInfo))
	if err != nil {
		return err
	}
	if u.UPN != "testuser1@test.gokrb5" || u.DNSDomain != "TEST.GOKRB5" || u.Flags != 0 || u.UPNLength != 42 || u.UPNOffset != 16 || u.DNSLength != 22 || u.DNSOffset != 64 {
		return fmt.Errorf("upn_dns_info decodes to %+v", u)
	}
	if !bytes.Equal(EncodeUPNDNSInfo(u.UPN, u.DNSDomain, u.Flags), unhex(s.UPNDNSInfo)) {
		return fmt.Errorf("upn_dns_info does not re-encode to the sample")
	}
	ss, err := ParseSignature(unhex(s.ServerSig))
	if err != nil || ss.Type != 16 || hex.EncodeToString(ss.Value) != "1e251d98d552be7df384f550" || ss.RODC != nil {
		return fmt.Errorf("server signature sample decodes to %+v (%v)", ss, err)
	}
	ks, err := ParseSignature(unhex(s.KDCSig))
	if err != nil || ks.Type != -138 || hex.EncodeToString(ks.Value) != "340be28b48765d0519ee9346cf53d822" || ks.RODC != nil {
		return fmt.Errorf("KDC signature sample decodes to %+v (%v)", ks, err)
	}
	// container: the Windows-issued PAC
	raw := unhex(s.WIN2KPAC)
	p, err := Parse(raw)
	if err != nil {
		return err
	}
	types := []uint32{}
	for _, e := range p.Entries {
		types = append(types, e.Type)
	}
	if !reflect.DeepEqual(types, []uint32{1, 10, 12, 6, 7}) {
		return fmt.Errorf("WIN2K PAC buffer types %v", types)
	}
	for i, want := range []string{s.LogonInfo, s.ClientInfo, s.UPNDNSInfo, s.ServerSig, s.KDCSig} {
		if !bytes.Equal(p.Data(i), unhex(want)) {
			return fmt.Errorf("WIN2K PAC buffer %d differs from the separately captured buffer", i)
		}
	}
	re, es := Assemble(p.Items(), Layout{})
	if !bytes.Equal(re, raw) || !reflect.DeepEqual(es, p.Entries) {
		return fmt.Errorf("re-assembling the WIN2K PAC does not reproduce it")
	}
	// signing model against the real KDC: the captured server signature must verify under the
	// service's long-term key, and signing afresh must reproduce it bit for bit
	key, err := KeytabKey(unhex(s.KeytabSysHTTP), 18, 2)
	if err != nil {
		return err
	}
	ok, err := VerifyServer(raw, p.Entries, key)
	if err != nil || !ok {
		return fmt.Errorf("captured WIN2K PAC does not verify under the reference signing model: ok=%v err=%v", ok, err)
	}
	cp := append([]byte{}, raw...)
	sp, _ := ValueSpan(cp, p.Entries, TypeServerChecksum)
	for i := sp.Lo; i < sp.Hi; i++ {
		cp[i] = 0xaa
	}
	kk := bytes.Repeat([]byte{7}, 16)
	if err := Sign(cp, p.Entries, 16, key, -138, kk); err != nil {
		return err
	}
	if !bytes.Equal(cp[sp.Lo:sp.Hi], raw[sp.Lo:sp.Hi]) {
		return fmt.Errorf("re-signing the WIN2K PAC gives server signature %x, the KDC wrote %x", cp[sp.Lo:sp.Hi], raw[sp.Lo:sp.Hi])
	}
	if ok, _ := VerifyServer(raw, p.Entries, append([]byte{key[0] ^ 1}, key[1:]...)); ok {
		return fmt.Errorf("reference verification accepts a wrong key")
	}
	// the Microsoft example PAC (no key known): container only
	msRaw, err := ExtractPAC(unhex(s.ADDataMS), 4)
	if err != nil {
		return err
	}
	mp, err := Parse(msRaw)
	if err != nil {
		return err
	}
	if len(mp.Entries) != 4 || !bytes.Equal(mp.Data(0), unhex(s.LogonInfoMS)) {
		return fmt.Errorf("Microsoft example PAC does not decompose as documented")
	}
	if re, _ := Assemble(mp.Items(), Layout{}); !bytes.Equal(re, msRaw) {
		return fmt.Errorf("re-assembling the Microsoft example PAC does not reproduce it")
	}
	for i := 2; i < 4; i++ {
		if _, err := ParseSignature(mp.Data(i)); err != nil {
			return fmt.Errorf("Microsoft example signature %d: %v", i, err)
		}
	}
	return nil
}
