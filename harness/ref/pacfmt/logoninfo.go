package pacfmt

import (
	"encoding/binary"
	"fmt"
	"strings"
	"time"
	"unicode/utf16"
)

// This file reads and writes KERB_VALIDATION_INFO ([MS-PAC] 2.5) in its wire form: an
// [MS-RPCE] 2.2.6 type-serialisation-version-1 stream (8-byte common header, 8-byte private
// header) holding a unique pointer to the structure in NDR transfer syntax ([C706] 14.3):
// little-endian, natural alignment, embedded pointers as 4-byte referent ids whose referents are
// deferred to the end of the enclosing structure in order of appearance, conformant arrays
// preceded by their maximum count, conformant-varying arrays by maximum count, offset and actual
// count. One walk function serves both directions so that reader and writer cannot disagree;
// the reader is validated against the documented contents of the captured samples and the
// writer by re-encoding those samples byte for byte.

// UnicodeString is an RPC_UNICODE_STRING with its deferred buffer.
type UnicodeString struct {
	Length        uint16 // bytes
	MaximumLength uint16 // bytes
	Ptr           uint32 // referent id of Buffer; 0 = null
	MaxCount      uint32 // conformance of the buffer (elements)
	Offset        uint32 // variance: first transmitted element
	ActualCount   uint32 // variance: transmitted elements
	Chars         []uint16
}

// String decodes the transmitted UTF-16 code units.
func (u UnicodeString) String() string { return string(utf16.Decode(u.Chars)) }

// NewUnicodeString builds the representation Windows emits for a string (non-null pointer even
// when empty, MaximumLength = Length).
func NewUnicodeString(s string) UnicodeString {
	c := utf16.Encode([]rune(s))
	n := uint32(len(c))
	return UnicodeString{Length: uint16(2 * n), MaximumLength: uint16(2 * n), Ptr: 1, MaxCount: n, ActualCount: n, Chars: c}
}

// GroupMembership is GROUP_MEMBERSHIP.
type GroupMembership struct{ RelativeID, Attributes uint32 }

// SID is an RPC_SID.
type SID struct {
	Revision     uint8
	SubAuthCount uint8
	Authority    [6]byte
	MaxCount     uint32 // conformance of SubAuthority
	SubAuthority []uint32
}

// String renders the SID per [MS-DTYP] 2.4.2.1: S-1-<authority>-<sub>..., the authority in
// decimal when below 2^32 and as 0x followed by twelve hex digits otherwise.
func (s *SID) String() string {
	if s == nil {
		return ""
	}
	var a uint64
	for _, b := range s.Authority {
		a = a<<8 | uint64(b)
	}
	var sb strings.Builder
	fmt.Fprintf(&sb, "S-%d-", s.Revision)
	if a < 1<<32 {
		fmt.Fprintf(&sb, "%d", a)
	} else {
		fmt.Fprintf(&sb, "0x%012x", a)
	}
	for _, v := range s.SubAuthority {
		fmt.Fprintf(&sb, "-%d", v)
	}
	return sb.String()
}

// NewSID builds S-1-<auth>-<subs...>.
func NewSID(auth uint64, subs ...uint32) *SID {
	s := &SID{Revision: 1, SubAuthCount: uint8(len(subs)), MaxCount: uint32(len(subs)), SubAuthority: append([]uint32{}, subs...)}
	for i := 0; i < 6; i++ {
		s.Authority[5-i] = byte(auth >> (8 * i))
	}
	return s
}

// SIDAndAttributes is KERB_SID_AND_ATTRIBUTES.
type SIDAndAttributes struct {
	Ptr        uint32
	SID        *SID
	Attributes uint32
}

// LogonInfo is a decoded KERB_VALIDATION_INFO buffer.
type LogonInfo struct {
	Common    [8]byte // 01 10 08 00 cc cc cc cc
	ObjectLen uint32  // private header: ObjectBufferLength
	Filler    uint32
	TopPtr    uint32

	LogonTime, LogoffTime, KickOffTime, PasswordLastSet, PasswordCanChange, PasswordMustChange uint64 // FILETIME
	EffectiveName, FullName, LogonScript, ProfilePath, HomeDirectory, HomeDirectoryDrive       UnicodeString
	LogonCount, BadPasswordCount                                                               uint16
	UserID, PrimaryGroupID, GroupCount                                                         uint32
	GroupIDsPtr, GroupIDsMax                                                                   uint32
	GroupIDs                                                                                   []GroupMembership
	UserFlags                                                                                  uint32
	UserSessionKey                                                                             [16]byte
	LogonServer, LogonDomainName                                                               UnicodeString
	LogonDomainIDPtr                                                                           uint32
	LogonDomainID                                                                              *SID
	Reserved1                                                                                  [2]uint32
	UserAccountControl, SubAuthStatus                                                          uint32
	LastSuccessfulILogon, LastFailedILogon                                                     uint64
	FailedILogonCount, Reserved3, SIDCount                                                     uint32
	ExtraSIDsPtr, ExtraSIDsMax                                                                 uint32
	ExtraSIDs                                                                                  []SIDAndAttributes
	ResourceGroupDomainSIDPtr                                                                  uint32
	ResourceGroupDomainSID                                                                     *SID
	ResourceGroupCount                                                                         uint32
	ResourceGroupIDsPtr, ResourceGroupIDsMax                                                   uint32
	ResourceGroupIDs                                                                           []GroupMembership
	Trailing                                                                                   []byte // octets behind the last referent (alignment of the object to 8)

	// Off maps a field name to the offset of its value in the buffer (filled by Parse and Encode):
	// scalars by name ("UserID"), strings as "<name>.chars", arrays as "GroupIDs", "ExtraSIDs",
	// "ResourceGroupIDs", SIDs as "LogonDomainID.sub" (first sub-authority).
	Off map[string]int
	// Structural lists the spans that hold lengths, counts, offsets and referent ids: the octets
	// that steer a decoder rather than carry an attribute value.
	Structural []Span
}

type codec struct {
	w    bool
	b    []byte
	pos  int
	err  error
	off  map[string]int
	strc []Span
}

func (c *codec) fail(format string, a ...any) {
	if c.err == nil {
		c.err = fmt.Errorf("logon info @%d: %s", c.pos, fmt.Sprintf(format, a...))
	}
}

func (c *codec) align(n int) {
	if c.err != nil {
		return
	}
	for c.pos%n != 0 {
		if c.w {
			c.b = append(c.b, 0)
		} else if c.pos >= len(c.b) {
			c.fail("alignment gap runs past the end")
			return
		}
		c.pos++
	}
}

func (c *codec) raw(p []byte) {
	if c.err != nil {
		return
	}
	if c.w {
		c.b = append(c.b, p...)
	} else {
		if c.pos+len(p) > len(c.b) {
			c.fail("need %d octets, %d left", len(p), len(c.b)-c.pos)
			return
		}
		copy(p, c.b[c.pos:])
	}
	c.pos += len(p)
}

func (c *codec) mark(name string) {
	if name != "" && c.err == nil {
		c.off[name] = c.pos
	}
}

func (c *codec) structural(n int) {
	if c.err == nil {
		c.strc = append(c.strc, Span{c.pos, c.pos + n})
	}
}

func (c *codec) u8(v *uint8) {
	p := []byte{*v}
	c.raw(p)
	*v = p[0]
}

func (c *codec) u16(name string, v *uint16) {
	c.align(2)
	c.mark(name)
	var p [2]byte
	binary.LittleEndian.PutUint16(p[:], *v)
	c.raw(p[:])
	*v = binary.LittleEndian.Uint16(p[:])
}

func (c *codec) u32(name string, v *uint32) {
	c.align(4)
	c.mark(name)
	var p [4]byte
	binary.LittleEndian.PutUint32(p[:], *v)
	c.raw(p[:])
	*v = binary.LittleEndian.Uint32(p[:])
}

// s32 is a u32 that steers decoding (count, offset, referent id).
func (c *codec) s32(v *uint32) {
	c.align(4)
	c.structural(4)
	c.u32("", v)
}

// filetime: struct { DWORD dwLowDateTime; DWORD dwHighDateTime } — alignment 4.
func (c *codec) filetime(name string, v *uint64) {
	c.align(4)
	c.mark(name)
	lo, hi := uint32(*v), uint32(*v>>32)
	c.u32("", &lo)
	c.u32("", &hi)
	*v = uint64(hi)<<32 | uint64(lo)
}

func (c *codec) ustrHead(u *UnicodeString) {
	c.align(4)
	c.structural(8)
	c.u16("", &u.Length)
	c.u16("", &u.MaximumLength)
	c.u32("", &u.Ptr)
}

func (c *codec) ustrBody(name string, u *UnicodeString) {
	if u.Ptr == 0 || c.err != nil {
		return
	}
	c.s32(&u.MaxCount)
	c.s32(&u.Offset)
	c.s32(&u.ActualCount)
	if !c.w {
		if uint64(u.ActualCount)*2 > uint64(len(c.b)-c.pos) {
			c.fail("%s: actual count %d exceeds the buffer", name, u.ActualCount)
			return
		}
		if u.Offset != 0 || uint64(u.Offset)+uint64(u.ActualCount) > uint64(u.MaxCount) {
			c.fail("%s: offset %d + actual count %d outside maximum count %d", name, u.Offset, u.ActualCount, u.MaxCount)
			return
		}
		if uint32(u.Length) != 2*u.ActualCount || uint32(u.MaximumLength/2) != u.MaxCount {
			c.fail("%s: Length %d / MaximumLength %d inconsistent with counts %d / %d", name, u.Length, u.MaximumLength, u.ActualCount, u.MaxCount)
			return
		}
		u.Chars = make([]uint16, u.ActualCount)
	}
	c.mark(name + ".chars")
	for i := range u.Chars {
		c.u16("", &u.Chars[i])
	}
}

func (c *codec) groups(name string, ptr uint32, max *uint32, count uint32, g *[]GroupMembership) {
	if ptr == 0 || c.err != nil {
		return
	}
	c.s32(max)
	if !c.w {
		if uint64(*max)*8 > uint64(len(c.b)-c.pos) {
			c.fail("%s: maximum count %d exceeds the buffer", name, *max)
			return
		}
		if *max != count {
			c.fail("%s: maximum count %d differs from the count field %d", name, *max, count)
			return
		}
		*g = make([]GroupMembership, *max)
	}
	c.mark(name)
	for i := range *g {
		c.u32("", &(*g)[i].RelativeID)
		c.u32("", &(*g)[i].Attributes)
	}
}

func (c *codec) sid(name string, ptr uint32, s **SID) {
	if ptr == 0 || c.err != nil {
		return
	}
	if !c.w {
		*s = &SID{}
	}
	v := *s
	c.s32(&v.MaxCount)
	c.structural(2)
	c.u8(&v.Revision)
	c.u8(&v.SubAuthCount)
	c.mark(name + ".authority")
	c.raw(v.Authority[:])
	if !c.w {
		if c.err != nil {
			return
		}
		if v.MaxCount != uint32(v.SubAuthCount) || v.SubAuthCount > 15 {
			c.fail("%s: SubAuthorityCount %d / conformance %d", name, v.SubAuthCount, v.MaxCount)
			return
		}
		if v.Revision != 1 {
			c.fail("%s: SID revision %d", name, v.Revision)
			return
		}
		v.SubAuthority = make([]uint32, v.MaxCount)
	}
	c.mark(name + ".sub")
	for i := range v.SubAuthority {
		c.u32("", &v.SubAuthority[i])
	}
}

func (c *codec) walk(li *LogonInfo) {
	c.raw(li.Common[:])
	c.structural(-8)
	c.s32(&li.ObjectLen)
	c.s32(&li.Filler)
	c.s32(&li.TopPtr)
	if !c.w && c.err == nil {
		if li.Common != [8]byte{1, 0x10, 8, 0, 0xcc, 0xcc, 0xcc, 0xcc} {
			c.fail("common type header % x", li.Common[:])
		}
		if int(li.ObjectLen) != len(c.b)-16 || li.ObjectLen%8 != 0 {
			c.fail("ObjectBufferLength %d for a %d-octet buffer", li.ObjectLen, len(c.b))
		}
		if li.TopPtr == 0 {
			c.fail("null top-level pointer")
		}
	}
	c.filetime("LogonTime", &li.LogonTime)
	c.filetime("LogoffTime", &li.LogoffTime)
	c.filetime("KickOffTime", &li.KickOffTime)
	c.filetime("PasswordLastSet", &li.PasswordLastSet)
	c.filetime("PasswordCanChange", &li.PasswordCanChange)
	c.filetime("PasswordMustChange", &li.PasswordMustChange)
	c.ustrHead(&li.EffectiveName)
	c.ustrHead(&li.FullName)
	c.ustrHead(&li.LogonScript)
	c.ustrHead(&li.ProfilePath)
	c.ustrHead(&li.HomeDirectory)
	c.ustrHead(&li.HomeDirectoryDrive)
	c.u16("LogonCount", &li.LogonCount)
	c.u16("BadPasswordCount", &li.BadPasswordCount)
	c.u32("UserID", &li.UserID)
	c.u32("PrimaryGroupID", &li.PrimaryGroupID)
	c.structural(8)
	c.u32("GroupCount", &li.GroupCount)
	c.u32("", &li.GroupIDsPtr)
	c.u32("UserFlags", &li.UserFlags)
	c.mark("UserSessionKey")
	c.raw(li.UserSessionKey[:])
	c.ustrHead(&li.LogonServer)
	c.ustrHead(&li.LogonDomainName)
	c.s32(&li.LogonDomainIDPtr)
	c.u32("Reserved1.0", &li.Reserved1[0])
	c.u32("Reserved1.1", &li.Reserved1[1])
	c.u32("UserAccountControl", &li.UserAccountControl)
	c.u32("SubAuthStatus", &li.SubAuthStatus)
	c.filetime("LastSuccessfulILogon", &li.LastSuccessfulILogon)
	c.filetime("LastFailedILogon", &li.LastFailedILogon)
	c.u32("FailedILogonCount", &li.FailedILogonCount)
	c.u32("Reserved3", &li.Reserved3)
	c.structural(12)
	c.u32("SIDCount", &li.SIDCount)
	c.u32("", &li.ExtraSIDsPtr)
	c.u32("", &li.ResourceGroupDomainSIDPtr)
	c.structural(8)
	c.u32("ResourceGroupCount", &li.ResourceGroupCount)
	c.u32("", &li.ResourceGroupIDsPtr)
	c.mark("deferred")
	// deferred referents, in order of appearance of their pointers
	c.ustrBody("EffectiveName", &li.EffectiveName)
	c.ustrBody("FullName", &li.FullName)
	c.ustrBody("LogonScript", &li.LogonScript)
	c.ustrBody("ProfilePath", &li.ProfilePath)
	c.ustrBody("HomeDirectory", &li.HomeDirectory)
	c.ustrBody("HomeDirectoryDrive", &li.HomeDirectoryDrive)
	c.groups("GroupIDs", li.GroupIDsPtr, &li.GroupIDsMax, li.GroupCount, &li.GroupIDs)
	c.ustrBody("LogonServer", &li.LogonServer)
	c.ustrBody("LogonDomainName", &li.LogonDomainName)
	c.sid("LogonDomainID", li.LogonDomainIDPtr, &li.LogonDomainID)
	if li.ExtraSIDsPtr != 0 && c.err == nil {
		c.s32(&li.ExtraSIDsMax)
		if !c.w {
			if uint64(li.ExtraSIDsMax)*8 > uint64(len(c.b)-c.pos) {
				c.fail("ExtraSids: maximum count %d exceeds the buffer", li.ExtraSIDsMax)
			} else if li.ExtraSIDsMax != li.SIDCount {
				c.fail("ExtraSids: maximum count %d differs from SidCount %d", li.ExtraSIDsMax, li.SIDCount)
			} else {
				li.ExtraSIDs = make([]SIDAndAttributes, li.ExtraSIDsMax)
			}
		}
		c.mark("ExtraSIDs")
		for i := range li.ExtraSIDs {
			c.s32(&li.ExtraSIDs[i].Ptr)
			c.u32("", &li.ExtraSIDs[i].Attributes)
		}
		for i := range li.ExtraSIDs {
			c.sid(fmt.Sprintf("ExtraSIDs.%d", i), li.ExtraSIDs[i].Ptr, &li.ExtraSIDs[i].SID)
		}
	}
	c.sid("ResourceGroupDomainSID", li.ResourceGroupDomainSIDPtr, &li.ResourceGroupDomainSID)
	c.groups("ResourceGroupIDs", li.ResourceGroupIDsPtr, &li.ResourceGroupIDsMax, li.ResourceGroupCount, &li.ResourceGroupIDs)
	c.mark("end")
	if c.err != nil {
		return
	}
	if c.w {
		c.b = append(c.b, li.Trailing...)
		c.pos += len(li.Trailing)
	} else {
		li.Trailing = append([]byte{}, c.b[c.pos:]...)
		if len(li.Trailing) >= 8 {
			c.fail("%d octets behind the last referent", len(li.Trailing))
		}
		c.pos = len(c.b)
	}
}

// ParseLogonInfo decodes a KERB_VALIDATION_INFO buffer strictly (counts must agree with each
// other and fit the buffer before anything is allocated).
func ParseLogonInfo(b []byte) (*LogonInfo, error) {
	li := &LogonInfo{}
	c := &codec{b: b, off: map[string]int{}}
	c.walk(li)
	if c.err != nil {
		return nil, c.err
	}
	li.Off, li.Structural = c.off, normalise(c.strc)
	return li, nil
}

// Encode writes the buffer. Referent ids of value 1 are replaced by the sequence Windows uses
// (0x00020000, 0x00020004, ...) and the private header length and trailing alignment are
// recomputed when ObjectLen is 0.
func (li *LogonInfo) Encode() []byte {
	cp := *li
	auto := cp.ObjectLen == 0
	if auto {
		cp.Common = [8]byte{1, 0x10, 8, 0, 0xcc, 0xcc, 0xcc, 0xcc}
		cp.Trailing = nil
		next := uint32(0x00020000)
		id := func(p *uint32) {
			if *p != 0 {
				*p = next
				next += 4
			}
		}
		if cp.TopPtr == 0 {
			cp.TopPtr = 1
		}
		id(&cp.TopPtr)
		for _, u := range []*UnicodeString{&cp.EffectiveName, &cp.FullName, &cp.LogonScript, &cp.ProfilePath, &cp.HomeDirectory, &cp.HomeDirectoryDrive} {
			id(&u.Ptr)
		}
		id(&cp.GroupIDsPtr)
		id(&cp.LogonServer.Ptr)
		id(&cp.LogonDomainName.Ptr)
		id(&cp.LogonDomainIDPtr)
		id(&cp.ExtraSIDsPtr)
		cp.ExtraSIDs = append([]SIDAndAttributes{}, cp.ExtraSIDs...)
		for i := range cp.ExtraSIDs { // the captured trust-domain sample numbers these before the resource-group referents
			id(&cp.ExtraSIDs[i].Ptr)
		}
		id(&cp.ResourceGroupDomainSIDPtr)
		id(&cp.ResourceGroupIDsPtr)
	}
	c := &codec{w: true, off: map[string]int{}}
	c.walk(&cp)
	if auto {
		for len(c.b)%8 != 0 {
			c.b = append(c.b, 0)
		}
		binary.LittleEndian.PutUint32(c.b[8:], uint32(len(c.b)-16))
	}
	li.Off, li.Structural = c.off, normalise(c.strc)
	return c.b
}

// Normalize makes the count and pointer fields agree with the slices and SIDs present, for
// structures built in memory (ObjectLen 0): counts from lengths, non-null referents where there
// is something to point to. Strings keep the pointer their constructor chose.
func (li *LogonInfo) Normalize() {
	flag := func(p *uint32, present bool) {
		if present {
			*p = 1
		} else {
			*p = 0
		}
	}
	li.ObjectLen = 0
	li.GroupCount, li.GroupIDsMax = uint32(len(li.GroupIDs)), uint32(len(li.GroupIDs))
	flag(&li.GroupIDsPtr, li.GroupIDs != nil)
	li.SIDCount, li.ExtraSIDsMax = uint32(len(li.ExtraSIDs)), uint32(len(li.ExtraSIDs))
	flag(&li.ExtraSIDsPtr, li.ExtraSIDs != nil)
	for i := range li.ExtraSIDs {
		flag(&li.ExtraSIDs[i].Ptr, li.ExtraSIDs[i].SID != nil)
	}
	li.ResourceGroupCount, li.ResourceGroupIDsMax = uint32(len(li.ResourceGroupIDs)), uint32(len(li.ResourceGroupIDs))
	flag(&li.ResourceGroupIDsPtr, li.ResourceGroupIDs != nil)
	flag(&li.LogonDomainIDPtr, li.LogonDomainID != nil)
	flag(&li.ResourceGroupDomainSIDPtr, li.ResourceGroupDomainSID != nil)
}

func normalise(s []Span) []Span {
	out := s[:0]
	for _, x := range s {
		if x.Hi < x.Lo {
			x.Lo, x.Hi = x.Hi, x.Lo
		}
		if x.Hi > x.Lo {
			out = append(out, x)
		}
	}
	return out
}

// IsStructural reports whether octet i of the buffer holds a length, count, offset or referent id.
func (li *LogonInfo) IsStructural(i int) bool {
	for _, s := range li.Structural {
		if s.Contains(i) {
			return true
		}
	}
	return false
}

// GroupSIDs composes the account's group SIDs the way [MS-PAC] 2.5 defines the fields: every
// GroupIds RID under LogonDomainId, every ExtraSids SID, every ResourceGroupIds RID under
// ResourceGroupDomainSid; first occurrence kept, order kept.
func (li *LogonInfo) GroupSIDs() []string {
	var out []string
	seen := map[string]bool{}
	add := func(s string) {
		if !seen[s] {
			seen[s] = true
			out = append(out, s)
		}
	}
	for _, g := range li.GroupIDs {
		add(fmt.Sprintf("%s-%d", li.LogonDomainID.String(), g.RelativeID))
	}
	for _, e := range li.ExtraSIDs {
		if e.SID != nil {
			add(e.SID.String())
		}
	}
	for _, g := range li.ResourceGroupIDs {
		add(fmt.Sprintf("%s-%d", li.ResourceGroupDomainSID.String(), g.RelativeID))
	}
	return out
}

// FileTimeToTime converts a FILETIME (100 ns units since 1601-01-01 UTC) without overflow.
func FileTimeToTime(ft uint64) time.Time {
	const unixDiff = 116444736000000000 // 100 ns units between 1601-01-01 and 1970-01-01
	v := int64(ft) - unixDiff           // FILETIMEs used by Windows are below 2^63
	sec, rem := v/10000000, v%10000000
	if rem < 0 {
		sec, rem = sec-1, rem+10000000
	}
	return time.Unix(sec, rem*100).UTC()
}

// TimeToFileTime is the inverse for times Windows can express.
func TimeToFileTime(t time.Time) uint64 {
	const unixDiff = 116444736000000000
	return uint64(t.Unix()*10000000 + int64(t.Nanosecond()/100) + unixDiff)
}
