// Package krbcrypto is an independent implementation of the Kerberos cryptosystems
// (RFC 3961 des3-cbc-sha1-kd, RFC 3962 aes-cts-hmac-sha1-96, RFC 8009 aes-cts-hmac-sha2,
// RFC 4757 rc4-hmac) written from the RFC text on top of the Go standard library
// primitives only. It shares no code with gokrb5 and is the oracle of C05–C08, C17, C19
// and the engine of the minting toolkit and the simulated KDC.
package krbcrypto

import (
	"bytes"
	"crypto/aes"
	"crypto/cipher"
	"crypto/des"
	"crypto/hmac"
	"crypto/md5"
	"crypto/rc4"
	"crypto/sha1"
	"crypto/sha256"
	"crypto/sha512"
	"encoding/binary"
	"errors"
	"fmt"
	"hash"
	"unicode/utf16"

	"golang.org/x/crypto/md4"
)

// Encryption type numbers (IANA).
const (
	DES3       int32 = 16
	AES128SHA1 int32 = 17
	AES256SHA1 int32 = 18
	AES128SHA2 int32 = 19
	AES256SHA2 int32 = 20
	RC4        int32 = 23
)

// Checksum type numbers (IANA).
const (
	CkDES3       int32 = 12
	CkAES128SHA1 int32 = 15
	CkAES256SHA1 int32 = 16
	CkAES128SHA2 int32 = 19
	CkAES256SHA2 int32 = 20
	CkRC4        int32 = -138
)

// ETypes lists the six supported encryption types.
var ETypes = []int32{DES3, AES128SHA1, AES256SHA1, AES128SHA2, AES256SHA2, RC4}

// CksumTypes lists the six supported checksum types.
var CksumTypes = []int32{CkDES3, CkAES128SHA1, CkAES256SHA1, CkAES128SHA2, CkAES256SHA2, CkRC4}

// CksumForEType is the IANA mandatory checksum type of each etype.
func CksumForEType(et int32) int32 {
	switch et {
	case DES3:
		return CkDES3
	case AES128SHA1:
		return CkAES128SHA1
	case AES256SHA1:
		return CkAES256SHA1
	case AES128SHA2:
		return CkAES128SHA2
	case AES256SHA2:
		return CkAES256SHA2
	case RC4:
		return CkRC4
	}
	return 0
}

// ETypeForCksum is the inverse of CksumForEType; 0 when unknown.
func ETypeForCksum(ck int32) int32 {
	for _, e := range ETypes {
		if CksumForEType(e) == ck {
			return e
		}
	}
	return 0
}

// KeyLen is the protocol key length in bytes (RFC 3961 §6.3, RFC 3962 §6, RFC 8009 §5, RFC 4757).
func KeyLen(et int32) int {
	switch et {
	case DES3:
		return 24
	case AES128SHA1, AES128SHA2, RC4:
		return 16
	case AES256SHA1, AES256SHA2:
		return 32
	}
	return 0
}

// MACLen is the length of the integrity tag in an encrypted message.
func MACLen(et int32) int {
	switch et {
	case DES3:
		return 20
	case AES128SHA1, AES256SHA1:
		return 12
	case AES128SHA2:
		return 16
	case AES256SHA2:
		return 24
	case RC4:
		return 16
	}
	return 0
}

// CksumLen is the length of the keyed checksum of the etype's mandatory checksum type.
func CksumLen(et int32) int { return MACLen(et) }

// ConfounderLen is the confounder length.
func ConfounderLen(et int32) int {
	switch et {
	case DES3, RC4:
		return 8
	}
	return 16
}

// EncryptedLen is the RFC formula for the ciphertext length of an n-byte plaintext.
func EncryptedLen(et int32, n int) int {
	switch et {
	case DES3:
		return (8+n+7)/8*8 + 20
	default:
		return ConfounderLen(et) + n + MACLen(et)
	}
}

func hashFor(et int32) func() hash.Hash {
	switch et {
	case AES128SHA2:
		return sha256.New
	case AES256SHA2:
		return sha512.New384
	case RC4:
		return md5.New
	}
	return sha1.New
}

// ---------------------------------------------------------------------------------------------
// n-fold (RFC 3961 §5.1), byte-wise formulation.

// NFold folds in to outBits bits.
func NFold(in []byte, outBits int) []byte {
	inLen := len(in)
	outLen := outBits / 8
	a, b := outLen, inLen
	for b != 0 {
		a, b = b, a%b
	}
	lcm := outLen * inLen / a
	out := make([]byte, outLen)
	acc := 0
	for i := lcm - 1; i >= 0; i-- {
		msbit := ((inLen << 3) - 1 + ((inLen<<3)+13)*(i/inLen) + ((inLen - (i % inLen)) << 3)) % (inLen << 3)
		hi := int(in[((inLen-1)-(msbit>>3))%inLen])
		lo := int(in[((inLen)-(msbit>>3))%inLen])
		acc += (((hi << 8) | lo) >> uint((msbit&7)+1)) & 0xff
		acc += int(out[i%outLen])
		out[i%outLen] = byte(acc & 0xff)
		acc >>= 8
	}
	if acc != 0 {
		for i := outLen - 1; i >= 0; i-- {
			acc += int(out[i])
			out[i] = byte(acc & 0xff)
			acc >>= 8
		}
	}
	return out
}

// ---------------------------------------------------------------------------------------------
// DES3 (RFC 3961 §6.3)

var desWeak = [][8]byte{
	{0x01, 0x01, 0x01, 0x01, 0x01, 0x01, 0x01, 0x01}, {0xFE, 0xFE, 0xFE, 0xFE, 0xFE, 0xFE, 0xFE, 0xFE},
	{0xE0, 0xE0, 0xE0, 0xE0, 0xF1, 0xF1, 0xF1, 0xF1}, {0x1F, 0x1F, 0x1F, 0x1F, 0x0E, 0x0E, 0x0E, 0x0E},
	{0x01, 0x1F, 0x01, 0x1F, 0x01, 0x0E, 0x01, 0x0E}, {0x1F, 0x01, 0x1F, 0x01, 0x0E, 0x01, 0x0E, 0x01},
	{0x01, 0xE0, 0x01, 0xE0, 0x01, 0xF1, 0x01, 0xF1}, {0xE0, 0x01, 0xE0, 0x01, 0xF1, 0x01, 0xF1, 0x01},
	{0x01, 0xFE, 0x01, 0xFE, 0x01, 0xFE, 0x01, 0xFE}, {0xFE, 0x01, 0xFE, 0x01, 0xFE, 0x01, 0xFE, 0x01},
	{0x1F, 0xE0, 0x1F, 0xE0, 0x0E, 0xF1, 0x0E, 0xF1}, {0xE0, 0x1F, 0xE0, 0x1F, 0xF1, 0x0E, 0xF1, 0x0E},
	{0x1F, 0xFE, 0x1F, 0xFE, 0x0E, 0xFE, 0x0E, 0xFE}, {0xFE, 0x1F, 0xFE, 0x1F, 0xFE, 0x0E, 0xFE, 0x0E},
	{0xE0, 0xFE, 0xE0, 0xFE, 0xF1, 0xFE, 0xF1, 0xFE}, {0xFE, 0xE0, 0xFE, 0xE0, 0xFE, 0xF1, 0xFE, 0xF1},
}

// DESWeakKeys returns the 16 weak and semi-weak DES keys (odd parity form).
func DESWeakKeys() [][8]byte { return desWeak }

func oddParity(b byte) byte {
	// set the least significant bit so that the byte has odd parity
	n := 0
	for i := 1; i < 8; i++ {
		if b&(1<<uint(i)) != 0 {
			n++
		}
	}
	if n%2 == 0 {
		return b | 1
	}
	return b &^ 1
}

// DES3RandomToKey is the RFC 3961 §6.3.1 random-to-key function (21 bytes -> 24 bytes).
func DES3RandomToKey(r []byte) []byte {
	out := make([]byte, 24)
	for i := 0; i < 3; i++ {
		k := out[i*8 : i*8+8]
		copy(k, r[i*7:i*7+7])
		var last byte
		for j := 0; j < 7; j++ {
			last |= (k[j] & 1) << uint(j+1)
		}
		k[7] = last
		for j := 0; j < 8; j++ {
			k[j] = oddParity(k[j])
		}
		for _, w := range desWeak {
			if bytes.Equal(k, w[:]) {
				k[7] ^= 0xF0
				break
			}
		}
	}
	return out
}

func des3CBC(key, data []byte, enc bool) ([]byte, error) {
	blk, err := des.NewTripleDESCipher(key)
	if err != nil {
		return nil, err
	}
	if len(data)%8 != 0 || len(data) == 0 {
		return nil, errors.New("des3: data not a positive multiple of 8")
	}
	out := make([]byte, len(data))
	iv := make([]byte, 8)
	if enc {
		cipher.NewCBCEncrypter(blk, iv).CryptBlocks(out, data)
	} else {
		cipher.NewCBCDecrypter(blk, iv).CryptBlocks(out, data)
	}
	return out, nil
}

// ---------------------------------------------------------------------------------------------
// AES CBC with ciphertext stealing (RFC 3962 §5), zero IV.

func aesCTS(key, data []byte, enc bool) ([]byte, error) {
	blk, err := aes.NewCipher(key)
	if err != nil {
		return nil, err
	}
	n := len(data)
	if n < 16 {
		return nil, errors.New("aes-cts: input shorter than one block")
	}
	iv := make([]byte, 16)
	if n == 16 {
		out := make([]byte, 16)
		if enc {
			blk.Encrypt(out, data)
		} else {
			blk.Decrypt(out, data)
		}
		return out, nil
	}
	nb := (n + 15) / 16
	d := n - (nb-1)*16 // bytes in the final (possibly partial) block, 1..16
	if enc {
		padded := make([]byte, nb*16)
		copy(padded, data)
		ct := make([]byte, nb*16)
		cipher.NewCBCEncrypter(blk, iv).CryptBlocks(ct, padded)
		out := make([]byte, 0, n)
		out = append(out, ct[:(nb-2)*16]...)
		out = append(out, ct[(nb-1)*16:nb*16]...)       // last CBC block goes second to last
		out = append(out, ct[(nb-2)*16:(nb-2)*16+d]...) // truncated second-to-last goes last
		return out, nil
	}
	// decrypt
	head := data[:(nb-2)*16]
	cnm1 := data[(nb-2)*16 : (nb-1)*16] // this is E_n (full block)
	cn := data[(nb-1)*16:]              // this is E_{n-1} truncated to d bytes
	prev := iv
	if nb > 2 {
		prev = data[(nb-3)*16 : (nb-2)*16]
	}
	out := make([]byte, 0, n)
	if len(head) > 0 {
		ph := make([]byte, len(head))
		cipher.NewCBCDecrypter(blk, iv).CryptBlocks(ph, head)
		out = append(out, ph...)
	}
	dn := make([]byte, 16)
	blk.Decrypt(dn, cnm1)
	full := make([]byte, 16) // reconstructed E_{n-1}
	copy(full, cn)
	copy(full[d:], dn[d:])
	pn := make([]byte, 16)
	for i := 0; i < 16; i++ {
		pn[i] = dn[i] ^ full[i]
	}
	pnm1 := make([]byte, 16)
	blk.Decrypt(pnm1, full)
	for i := 0; i < 16; i++ {
		pnm1[i] ^= prev[i]
	}
	out = append(out, pnm1...)
	out = append(out, pn[:d]...)
	return out, nil
}

// ---------------------------------------------------------------------------------------------
// RFC 3961 simplified profile: DR / DK

// basicEncrypt is E(key, data) with a zero initial state for the simplified-profile etypes.
func basicEncrypt(et int32, key, data []byte) ([]byte, error) {
	switch et {
	case DES3:
		return des3CBC(key, data, true)
	case AES128SHA1, AES256SHA1:
		return aesCTS(key, data, true)
	}
	return nil, fmt.Errorf("no simplified profile for etype %d", et)
}

func blockLen(et int32) int {
	if et == DES3 {
		return 8
	}
	return 16
}

func seedLen(et int32) int {
	if et == DES3 {
		return 21
	}
	return KeyLen(et)
}

// DR is the RFC 3961 §5.1 derive-random function for etypes 16, 17, 18.
func DR(et int32, key, constant []byte) ([]byte, error) {
	bl := blockLen(et)
	in := constant
	if len(in) != bl {
		in = NFold(constant, bl*8)
	}
	var out []byte
	cur := in
	for len(out) < seedLen(et) {
		c, err := basicEncrypt(et, key, cur)
		if err != nil {
			return nil, err
		}
		out = append(out, c...)
		cur = c
	}
	return out[:seedLen(et)], nil
}

// RandomToKey maps random bits to a protocol key.
func RandomToKey(et int32, r []byte) []byte {
	if et == DES3 {
		return DES3RandomToKey(r)
	}
	return append([]byte{}, r...)
}

// DK is the RFC 3961 §5.1 derive-key function for etypes 16, 17, 18.
func DK(et int32, key, constant []byte) ([]byte, error) {
	r, err := DR(et, key, constant)
	if err != nil {
		return nil, err
	}
	return RandomToKey(et, r), nil
}

func usageConst(usage uint32, tail byte) []byte {
	b := make([]byte, 5)
	binary.BigEndian.PutUint32(b, usage)
	b[4] = tail
	return b
}

// ---------------------------------------------------------------------------------------------
// RFC 8009 KDF

// KDFHMACSHA2 is RFC 8009 §3: k-truncate(HMAC(key, 0x00000001 | label | 0x00 | context | k)).
func KDFHMACSHA2(h func() hash.Hash, key, label, context []byte, kbits int) []byte {
	m := hmac.New(h, key)
	m.Write([]byte{0, 0, 0, 1})
	m.Write(label)
	m.Write([]byte{0})
	m.Write(context)
	var k [4]byte
	binary.BigEndian.PutUint32(k[:], uint32(kbits))
	m.Write(k[:])
	return m.Sum(nil)[:kbits/8]
}

// DeriveUsageKey returns Ke (0xAA), Ki (0x55) or Kc (0x99) for the given base key and usage.
func DeriveUsageKey(et int32, key []byte, usage uint32, tail byte) ([]byte, error) {
	switch et {
	case DES3, AES128SHA1, AES256SHA1:
		return DK(et, key, usageConst(usage, tail))
	case AES128SHA2:
		return KDFHMACSHA2(sha256.New, key, usageConst(usage, tail), nil, 128), nil
	case AES256SHA2:
		bits := 192
		if tail == 0xAA {
			bits = 256
		}
		return KDFHMACSHA2(sha512.New384, key, usageConst(usage, tail), nil, bits), nil
	}
	return nil, fmt.Errorf("no usage keys for etype %d", et)
}

// ---------------------------------------------------------------------------------------------
// RFC 4757

// RC4Usage translates a key usage number as RFC 4757 §3 and its implementations do.
func RC4Usage(usage uint32) uint32 {
	switch usage {
	case 3, 9:
		return 8
	case 23:
		return 13
	}
	return usage
}

func le32(v uint32) []byte {
	b := make([]byte, 4)
	binary.LittleEndian.PutUint32(b, v)
	return b
}

func hmacMD5(key, data []byte) []byte {
	m := hmac.New(md5.New, key)
	m.Write(data)
	return m.Sum(nil)
}

func rc4Crypt(key, data []byte) []byte {
	c, _ := rc4.NewCipher(key)
	out := make([]byte, len(data))
	c.XORKeyStream(out, data)
	return out
}

// ---------------------------------------------------------------------------------------------
// Message encryption

// Encrypt encrypts plaintext under (key, usage) with the given confounder (ConfounderLen bytes).
func Encrypt(et int32, key []byte, usage uint32, plaintext, confounder []byte) ([]byte, error) {
	if len(key) != KeyLen(et) {
		return nil, fmt.Errorf("ref: key length %d for etype %d", len(key), et)
	}
	if len(confounder) != ConfounderLen(et) {
		return nil, fmt.Errorf("ref: confounder length %d for etype %d", len(confounder), et)
	}
	msg := append(append([]byte{}, confounder...), plaintext...)
	switch et {
	case DES3, AES128SHA1, AES256SHA1:
		if et == DES3 {
			for len(msg)%8 != 0 {
				msg = append(msg, 0)
			}
		}
		ke, err := DeriveUsageKey(et, key, usage, 0xAA)
		if err != nil {
			return nil, err
		}
		ki, err := DeriveUsageKey(et, key, usage, 0x55)
		if err != nil {
			return nil, err
		}
		c, err := basicEncrypt(et, ke, msg)
		if err != nil {
			return nil, err
		}
		m := hmac.New(sha1.New, ki)
		m.Write(msg)
		return append(c, m.Sum(nil)[:MACLen(et)]...), nil
	case AES128SHA2, AES256SHA2:
		ke, _ := DeriveUsageKey(et, key, usage, 0xAA)
		ki, _ := DeriveUsageKey(et, key, usage, 0x55)
		c, err := aesCTS(ke, msg, true)
		if err != nil {
			return nil, err
		}
		m := hmac.New(hashFor(et), ki)
		m.Write(make([]byte, 16)) // IV (initial cipher state)
		m.Write(c)
		return append(c, m.Sum(nil)[:MACLen(et)]...), nil
	case RC4:
		k1 := hmacMD5(key, le32(RC4Usage(usage)))
		cks := hmacMD5(k1, msg)
		k3 := hmacMD5(k1, cks)
		return append(cks, rc4Crypt(k3, msg)...), nil
	}
	return nil, fmt.Errorf("ref: unsupported etype %d", et)
}

// SealShort builds messages whose integrity tag is correct although the protected part is shorter than a
// confounder - something only a holder of the key can produce, and every client holds the key its own
// authenticator is sealed with. For rc4-hmac the protected part is msg as given (any length, nothing prepended);
// for the SHA-2 etypes, whose tag covers the ciphertext, msg is taken as the ciphertext itself (any length);
// for the other etypes no such message exists and an error is returned.
func SealShort(et int32, key []byte, usage uint32, msg []byte) ([]byte, error) {
	if len(key) != KeyLen(et) {
		return nil, fmt.Errorf("ref: key length %d for etype %d", len(key), et)
	}
	switch et {
	case RC4:
		k1 := hmacMD5(key, le32(RC4Usage(usage)))
		cks := hmacMD5(k1, msg)
		k3 := hmacMD5(k1, cks)
		return append(cks, rc4Crypt(k3, msg)...), nil
	case AES128SHA2, AES256SHA2:
		ki, err := DeriveUsageKey(et, key, usage, 0x55)
		if err != nil {
			return nil, err
		}
		m := hmac.New(hashFor(et), ki)
		m.Write(make([]byte, 16))
		m.Write(msg)
		return append(append([]byte{}, msg...), m.Sum(nil)[:MACLen(et)]...), nil
	}
	return nil, fmt.Errorf("ref: no short sealed message exists for etype %d", et)
}

// ErrIntegrity is returned when the integrity tag does not verify.
var ErrIntegrity = errors.New("ref: integrity check failed")

// Decrypt verifies and decrypts; it returns the plaintext after the confounder (for des3 including
// the zero padding the RFC prescribes) and the confounder.
func Decrypt(et int32, key []byte, usage uint32, ct []byte) (plain, confounder []byte, err error) {
	if len(key) != KeyLen(et) {
		return nil, nil, fmt.Errorf("ref: key length %d for etype %d", len(key), et)
	}
	ml, cl := MACLen(et), ConfounderLen(et)
	if len(ct) < ml+cl {
		return nil, nil, errors.New("ref: ciphertext too short")
	}
	switch et {
	case DES3, AES128SHA1, AES256SHA1:
		body, mac := ct[:len(ct)-ml], ct[len(ct)-ml:]
		ke, err := DeriveUsageKey(et, key, usage, 0xAA)
		if err != nil {
			return nil, nil, err
		}
		ki, err := DeriveUsageKey(et, key, usage, 0x55)
		if err != nil {
			return nil, nil, err
		}
		var msg []byte
		if et == DES3 {
			msg, err = des3CBC(ke, body, false)
		} else {
			msg, err = aesCTS(ke, body, false)
		}
		if err != nil {
			return nil, nil, err
		}
		m := hmac.New(sha1.New, ki)
		m.Write(msg)
		if !hmac.Equal(m.Sum(nil)[:ml], mac) {
			return nil, nil, ErrIntegrity
		}
		return msg[cl:], msg[:cl], nil
	case AES128SHA2, AES256SHA2:
		body, mac := ct[:len(ct)-ml], ct[len(ct)-ml:]
		ke, _ := DeriveUsageKey(et, key, usage, 0xAA)
		ki, _ := DeriveUsageKey(et, key, usage, 0x55)
		m := hmac.New(hashFor(et), ki)
		m.Write(make([]byte, 16))
		m.Write(body)
		if !hmac.Equal(m.Sum(nil)[:ml], mac) {
			return nil, nil, ErrIntegrity
		}
		msg, err := aesCTS(ke, body, false)
		if err != nil {
			return nil, nil, err
		}
		return msg[cl:], msg[:cl], nil
	case RC4:
		cks, body := ct[:16], ct[16:]
		k1 := hmacMD5(key, le32(RC4Usage(usage)))
		k3 := hmacMD5(k1, cks)
		msg := rc4Crypt(k3, body)
		if !hmac.Equal(hmacMD5(k1, msg), cks) {
			return nil, nil, ErrIntegrity
		}
		return msg[cl:], msg[:cl], nil
	}
	return nil, nil, fmt.Errorf("ref: unsupported etype %d", et)
}

// ---------------------------------------------------------------------------------------------
// Keyed checksums

// Checksum computes the keyed checksum of the given checksum type.
func Checksum(ck int32, key []byte, usage uint32, data []byte) ([]byte, error) {
	et := ETypeForCksum(ck)
	if et == 0 {
		return nil, fmt.Errorf("ref: unsupported checksum type %d", ck)
	}
	if len(key) != KeyLen(et) {
		return nil, fmt.Errorf("ref: key length %d for checksum type %d", len(key), ck)
	}
	if et == RC4 {
		ksign := hmacMD5(key, []byte("signaturekey\x00"))
		h := md5.New()
		h.Write(le32(RC4Usage(usage)))
		h.Write(data)
		return hmacMD5(ksign, h.Sum(nil)), nil
	}
	kc, err := DeriveUsageKey(et, key, usage, 0x99)
	if err != nil {
		return nil, err
	}
	m := hmac.New(hashFor(et), kc)
	m.Write(data)
	return m.Sum(nil)[:CksumLen(et)], nil
}

// ChecksumFull is the untruncated HMAC the checksum of the simplified profile is cut from (the checksum itself for
// types that do not truncate).
func ChecksumFull(ck int32, key []byte, usage uint32, data []byte) ([]byte, error) {
	et := ETypeForCksum(ck)
	if et == 0 || et == RC4 {
		return Checksum(ck, key, usage, data)
	}
	if len(key) != KeyLen(et) {
		return nil, fmt.Errorf("ref: key length %d for checksum type %d", len(key), ck)
	}
	kc, err := DeriveUsageKey(et, key, usage, 0x99)
	if err != nil {
		return nil, err
	}
	m := hmac.New(hashFor(et), kc)
	m.Write(data)
	return m.Sum(nil), nil
}

// ---------------------------------------------------------------------------------------------
// String-to-key

// PBKDF2 per RFC 2898 §5.2.
func PBKDF2(h func() hash.Hash, password, salt []byte, iter uint64, keyLen int) []byte {
	prf := hmac.New(h, password)
	hl := prf.Size()
	var out []byte
	for blk := uint32(1); len(out) < keyLen; blk++ {
		prf.Reset()
		prf.Write(salt)
		var ib [4]byte
		binary.BigEndian.PutUint32(ib[:], blk)
		prf.Write(ib[:])
		u := prf.Sum(nil)
		t := append([]byte{}, u...)
		for i := uint64(1); i < iter; i++ {
			prf.Reset()
			prf.Write(u)
			u = prf.Sum(u[:0])
			for j := 0; j < hl; j++ {
				t[j] ^= u[j]
			}
		}
		out = append(out, t...)
	}
	return out[:keyLen]
}

// ETypeName is the enctype name used in the RFC 8009 salt prefix.
func ETypeName(et int32) string {
	switch et {
	case AES128SHA2:
		return "aes128-cts-hmac-sha256-128"
	case AES256SHA2:
		return "aes256-cts-hmac-sha384-192"
	}
	return ""
}

// DefaultIterations is the iteration count used when no parameters are given.
func DefaultIterations(et int32) uint32 {
	switch et {
	case AES128SHA1, AES256SHA1:
		return 4096
	case AES128SHA2, AES256SHA2:
		return 32768
	}
	return 0
}

// ErrBadParams is returned for string-to-key parameters the RFCs do not allow.
var ErrBadParams = errors.New("ref: invalid string-to-key parameters")

// StringToKey derives the protocol key. params is the raw s2kparams octet string (nil = default).
// For the AES types params must be exactly four bytes (big-endian iteration count); an iteration
// count of 0 means 2^32 in RFC 3962 and is refused here as not computable.
func StringToKey(et int32, password, salt string, params []byte) ([]byte, error) {
	switch et {
	case DES3:
		if len(params) != 0 {
			return nil, ErrBadParams
		}
		tmp := DES3RandomToKey(NFold([]byte(password+salt), 168))
		return DK(DES3, tmp, []byte("kerberos"))
	case AES128SHA1, AES256SHA1, AES128SHA2, AES256SHA2:
		iter := uint64(DefaultIterations(et))
		if params != nil {
			if len(params) != 4 {
				return nil, ErrBadParams
			}
			iter = uint64(binary.BigEndian.Uint32(params))
			if iter == 0 {
				return nil, ErrBadParams
			}
		}
		if et == AES128SHA1 || et == AES256SHA1 {
			tkey := PBKDF2(sha1.New, []byte(password), []byte(salt), iter, KeyLen(et))
			return DK(et, tkey, []byte("kerberos"))
		}
		saltp := ETypeName(et) + "\x00" + salt
		tkey := PBKDF2(hashFor(et), []byte(password), []byte(saltp), iter, KeyLen(et))
		return KDFHMACSHA2(hashFor(et), tkey, []byte("kerberos"), nil, KeyLen(et)*8), nil
	case RC4:
		u := utf16.Encode([]rune(password))
		b := make([]byte, 2*len(u))
		for i, c := range u {
			b[2*i] = byte(c)
			b[2*i+1] = byte(c >> 8)
		}
		h := md4.New()
		h.Write(b)
		return h.Sum(nil), nil
	}
	return nil, fmt.Errorf("ref: unsupported etype %d", et)
}

// RandomKey turns ConfounderLen-independent random bytes into a valid protocol key of the etype.
// seed must be at least 32 bytes.
func RandomKey(et int32, seed []byte) []byte {
	switch et {
	case DES3:
		return DES3RandomToKey(seed[:21])
	}
	return append([]byte{}, seed[:KeyLen(et)]...)
}
