package krbcrypto

import (
	"bytes"
	"crypto/sha1"
	"encoding/hex"
	"fmt"
)

func hx(s string) []byte {
	b, err := hex.DecodeString(s)
	if err != nil {
		panic(err)
	}
	return b
}

// SelfTest checks the reference against the RFC appendix vectors (RFC 3961 A.1, A.3, A.4,
// RFC 3962 B, RFC 8009 A, and the NT-hash of two well-known passwords). A failure means the
// oracle is broken; checks report it as inconclusive, never as a violation.
func SelfTest() error {
	nf := []struct {
		n  int
		in string
		h  string
	}{
		{64, "012345", "be072631276b1955"},
		{56, "password", "78a07b6caf85fa"},
		{64, "Rough Consensus, and Running Code", "bb6ed30870b7f0e0"},
		{168, "password", "59e4a8ca7c0385c3c37b3f6d2000247cb6e6bd5b3e"},
		{192, "MASSACHVSETTS INSTITVTE OF TECHNOLOGY", "db3b0d8f0b061e603282b308a50841229ad798fab9540c1b"},
		{168, "Q", "518a54a215a8452a518a54a215a8452a518a54a215"},
		{168, "ba", "fb25d531ae8974499f52fd92ea9857c4ba24cf297e"},
		{64, "kerberos", "6b65726265726f73"},
		{128, "kerberos", "6b65726265726f737b9b5b2b93132b93"},
		{168, "kerberos", "8372c236344e5f1550cd0747e15d62ca7a5a3bcea4"},
		{256, "kerberos", "6b65726265726f737b9b5b2b93132b935c9bdcdad95c9899c4cae4dee6d6cae4"},
	}
	for _, v := range nf {
		if got := NFold([]byte(v.in), v.n); !bytes.Equal(got, hx(v.h)) {
			return fmt.Errorf("n-fold(%q,%d) = %x want %s", v.in, v.n, got, v.h)
		}
	}
	dk := []struct{ key, c, dr, dk string }{
		{"dce06b1f64c857a11c3db57c51899b2cc1791008ce973b92", "0000000155", "935079d14490a75c3093c4a6e8c3b049c71e6ee705", "925179d04591a79b5d3192c4a7e9c289b049c71f6ee604cd"},
		{"5e13d31c70ef765746578531cb51c15bf11ca82c97cee9f2", "00000001aa", "9f58e5a047d894101c469845d67ae3c5249ed812f2", "9e58e5a146d9942a101c469845d67a20e3c4259ed913f207"},
		{"d3f8298ccb166438dcb9b93ee5a7629286a491f838f802fb", "6b65726265726f73", "2270db565d2a3d64cfbfdc5305d4f778a6de42d9da", "2370da575d2a3da864cebfdc5204d56df779a7df43d9da43"},
		{"26dce334b545292f2feab9a8701a89a4b99eb9942cecd016", "00000001aa", "f58efc6f83f93e55e695fd252cf8fe59f7d5ba37ec", "f48ffd6e83f83e7354e694fd252cf83bfe58f7d5ba37ec5d"},
	}
	for _, v := range dk {
		r, err := DR(DES3, hx(v.key), hx(v.c))
		if err != nil || !bytes.Equal(r, hx(v.dr)) {
			return fmt.Errorf("des3 DR(%s,%s) = %x (%v) want %s", v.key, v.c, r, err, v.dr)
		}
		k, _ := DK(DES3, hx(v.key), hx(v.c))
		if !bytes.Equal(k, hx(v.dk)) {
			return fmt.Errorf("des3 DK(%s,%s) = %x want %s", v.key, v.c, k, v.dk)
		}
	}
	s2k := []struct {
		et             int32
		pw, salt, key  string
		iter           uint32
		defaultsParams bool
	}{
		{DES3, "password", "ATHENA.MIT.EDUraeburn", "850bb51358548cd05e86768c313e3bfef7511937dcf72c3e", 0, true},
		{DES3, "potatoe", "WHITEHOUSE.GOVdanny", "dfcd233dd0a43204ea6dc437fb15e061b02979c1f74f377a", 0, true},
		{DES3, "ß", "ATHENA.MIT.EDUJurišić", "16d5a40e1ce3bacb61b9dce00470324c831973a7b952feb0", 0, true},
		{DES3, "𝄞", "EXAMPLE.COMpianist", "85763726585dbc1cce6ec43e1f751f07f1c4cbb098f40b19", 0, true},
		{AES128SHA1, "password", "ATHENA.MIT.EDUraeburn", "42263c6e89f4fc28b8df68ee09799f15", 1, false},
		{AES128SHA1, "password", "ATHENA.MIT.EDUraeburn", "4c01cd46d632d01e6dbe230a01ed642a", 1200, false},
		{AES128SHA1, "password", string(hx("1234567878563412")), "e9b23d52273747dd5c35cb55be619d8e", 5, false},
		{AES128SHA1, "𝄞", "EXAMPLE.COMpianist", "f149c1f2e154a73452d43e7fe62a56e5", 50, false},
		{AES256SHA1, "password", "ATHENA.MIT.EDUraeburn", "fe697b52bc0d3ce14432ba036a92e65bbb52280990a2fa27883998d72af30161", 1, false},
		{AES256SHA1, "password", "ATHENA.MIT.EDUraeburn", "55a6ac740ad17b4846941051e1e8b0a7548d93b0ab30a8bc3ff16280382b8c2a", 1200, false},
		{AES256SHA1, "XXXXXXXXXXXXXXXXXXXXXXXXXXXXXXXXXXXXXXXXXXXXXXXXXXXXXXXXXXXXXXXXX", "pass phrase exceeds block size", "d78c5c9cb872a8c9dad4697f0bb5b2d21496c82beb2caeda2112fceea057401b", 1200, false},
		{AES256SHA1, "𝄞", "EXAMPLE.COMpianist", "4b6d9839f84406df1f09cc166db4b83c571848b784a3d6bdc346589a3e393f9e", 50, false},
		{AES128SHA2, "password", string(hx("10DF9DD783E5BC8ACEA1730E74355F61")) + "ATHENA.MIT.EDUraeburn", "089bca48b105ea6ea77ca5d2f39dc5e7", 32768, false},
		{AES256SHA2, "password", string(hx("10DF9DD783E5BC8ACEA1730E74355F61")) + "ATHENA.MIT.EDUraeburn", "45bd806dbf6a833a9cffc1c94589a222367a79bc21c413718906e9f578a78467", 32768, false},
		{AES256SHA2, "password", string(hx("10DF9DD783E5BC8ACEA1730E74355F61")) + "ATHENA.MIT.EDUraeburn", "45bd806dbf6a833a9cffc1c94589a222367a79bc21c413718906e9f578a78467", 0, true},
		{RC4, "foo", "", "ac8e657f83df82beea5d43bdaf7800cc", 0, true},
		{RC4, "password", "ignored", "8846f7eaee8fb117ad06bdd830b7586c", 0, true},
	}
	for _, v := range s2k {
		var p []byte
		if !v.defaultsParams {
			p = []byte{byte(v.iter >> 24), byte(v.iter >> 16), byte(v.iter >> 8), byte(v.iter)}
		}
		k, err := StringToKey(v.et, v.pw, v.salt, p)
		if err != nil || !bytes.Equal(k, hx(v.key)) {
			return fmt.Errorf("s2k(%d,%q,%q,%d) = %x (%v) want %s", v.et, v.pw, v.salt, v.iter, k, err, v.key)
		}
	}
	if got := PBKDF2(sha1.New, []byte("password"), []byte("ATHENA.MIT.EDUraeburn"), 2, 32); !bytes.Equal(got, hx("01dbee7f4a9e243e988b62c73cda935da05378b93244ec8f48a99e61ad799d86")) {
		return fmt.Errorf("pbkdf2 = %x", got)
	}
	// RFC 3962 B: AES-CTS with key "chicken teriyaki", zero IV.
	ctsKey := []byte("chicken teriyaki")
	text := "I would like the General Gau's Chicken, please, and wonton soup."
	cts := []struct {
		n int
		c string
	}{
		{17, "c6353568f2bf8cb4d8a580362da7ff7f97"},
		{31, "fc00783e0efdb2c1d445d4c8eff7ed2297687268d6ecccc0c07b25e25ecfe5"},
		{32, "39312523a78662d5be7fcbcc98ebf5a897687268d6ecccc0c07b25e25ecfe584"},
		{47, "97687268d6ecccc0c07b25e25ecfe584b3fffd940c16a18c1b5549d2f838029e39312523a78662d5be7fcbcc98ebf5"},
		{48, "97687268d6ecccc0c07b25e25ecfe5849dad8bbb96c4cdc03bc103e1a194bbd839312523a78662d5be7fcbcc98ebf5a8"},
		{64, "97687268d6ecccc0c07b25e25ecfe58439312523a78662d5be7fcbcc98ebf5a84807efe836ee89a526730dbc2f7bc8409dad8bbb96c4cdc03bc103e1a194bbd8"},
	}
	for _, v := range cts {
		c, err := aesCTS(ctsKey, []byte(text[:v.n]), true)
		if err != nil || !bytes.Equal(c, hx(v.c)) {
			return fmt.Errorf("aes-cts enc %d = %x (%v) want %s", v.n, c, err, v.c)
		}
		p, err := aesCTS(ctsKey, c, false)
		if err != nil || string(p) != text[:v.n] {
			return fmt.Errorf("aes-cts dec %d = %q (%v)", v.n, p, err)
		}
	}
	// RFC 8009 A: key derivation, checksum, encryption.
	b128 := hx("3705d96080c17728a0e800eab6e0d23c")
	b256 := hx("6d404d37faf79f9df0d33568d320669800eb4836472ea8a026d16b7182460c52")
	kd := []struct {
		et   int32
		base []byte
		tail byte
		want string
	}{
		{AES128SHA2, b128, 0x99, "b31a018a48f54776f403e9a396325dc3"},
		{AES128SHA2, b128, 0xAA, "9b197dd1e8c5609d6e67c3e37c62c72e"},
		{AES128SHA2, b128, 0x55, "9fda0e56ab2d85e1569a688696c26a6c"},
		{AES256SHA2, b256, 0x99, "ef5718be86cc84963d8bbb5031e9f5c4ba41f28faf69e73d"},
		{AES256SHA2, b256, 0xAA, "56ab22bee63d82d7bc5227f6773f8ea7a5eb1c825160c38312980c442e5c7e49"},
		{AES256SHA2, b256, 0x55, "69b16514e3cd8e56b82010d5c73012b622c4d00ffc23ed1f"},
	}
	for _, v := range kd {
		k, _ := DeriveUsageKey(v.et, v.base, 2, v.tail)
		if !bytes.Equal(k, hx(v.want)) {
			return fmt.Errorf("8009 derive(%d,%02x) = %x want %s", v.et, v.tail, k, v.want)
		}
	}
	pt := hx("000102030405060708090a0b0c0d0e0f1011121314")
	if c, _ := Checksum(CkAES128SHA2, b128, 2, pt); !bytes.Equal(c, hx("d78367186643d67b411cba9139fc1dee")) {
		return fmt.Errorf("8009 cksum128 = %x", c)
	}
	if c, _ := Checksum(CkAES256SHA2, b256, 2, pt); !bytes.Equal(c, hx("45ee791567eefca37f4ac1e0222de80d43c3bfa06699672a")) {
		return fmt.Errorf("8009 cksum256 = %x", c)
	}
	enc := []struct {
		et         int32
		base       []byte
		plain, cf  string
		ciphertext string
	}{
		{AES128SHA2, b128, "", "7e5895eaf2672435bad817f545a37148", "ef85fb890bb8472f4dab20394dca781dad877eda39d50c870c0d5a0a8e48c718"},
		{AES128SHA2, b128, "000102030405", "7bca285e2fd4130fb55b1a5c83bc5b24", "84d7f30754ed987bab0bf3506beb09cfb55402cef7e6877ce99e247e52d16ed4421dfdf8976c"},
		{AES128SHA2, b128, "000102030405060708090a0b0c0d0e0f1011121314", "a7a4e29a4728ce10664fb64e49ad3fac", "720f73b18d9859cd6ccb4346115cd336c70f58edc0c4437c5573544c31c813bce1e6d072c186b39a413c2f92ca9b8334a287ffcbfc"},
		{AES256SHA2, b256, "", "f764e9fa15c276478b2c7d0c4e5f58e4", "41f53fa5bfe7026d91faf9be959195a058707273a96a40f0a01960621ac612748b9bbfbe7eb4ce3c"},
		{AES256SHA2, b256, "000102030405060708090a0b0c0d0e0f", "53bf8a0d105265d4e276428624ce5e63", "bc47ffec7998eb91e8115cf8d19dac4bbbe2e163e87dd37f49beca92027764f68cf51f14d798c2273f35df574d1f932e40c4ff255b36a266"},
		{AES256SHA2, b256, "000102030405060708090a0b0c0d0e0f1011121314", "763e65367e864f02f55153c7e3b58af1", "40013e2df58e8751957d2878bcd2d6fe101ccfd556cb1eae79db3c3ee86429f2b2a602ac86fef6ecb647d6295fae077a1feb517508d2c16b4192e01f62"},
	}
	for _, v := range enc {
		c, err := Encrypt(v.et, v.base, 2, hx(v.plain), hx(v.cf))
		if err != nil || !bytes.Equal(c, hx(v.ciphertext)) {
			return fmt.Errorf("8009 encrypt(%d,%s) = %x (%v) want %s", v.et, v.plain, c, err, v.ciphertext)
		}
		p, cf, err := Decrypt(v.et, v.base, 2, c)
		if err != nil || !bytes.Equal(p, hx(v.plain)) || !bytes.Equal(cf, hx(v.cf)) {
			return fmt.Errorf("8009 decrypt(%d,%s) = %x,%x (%v)", v.et, v.plain, p, cf, err)
		}
	}
	// round trips and tamper rejection for every etype (sanity of the oracle itself)
	seed := hx("000102030405060708090a0b0c0d0e0f101112131415161718191a1b1c1d1e1f")
	for _, et := range ETypes {
		key := RandomKey(et, seed)
		for n := 0; n < 40; n++ {
			p := bytes.Repeat([]byte{byte(n)}, n)
			c, err := Encrypt(et, key, 7, p, seed[:ConfounderLen(et)])
			if err != nil {
				return fmt.Errorf("encrypt %d/%d: %v", et, n, err)
			}
			if len(c) != EncryptedLen(et, n) {
				return fmt.Errorf("encrypted length %d/%d: %d want %d", et, n, len(c), EncryptedLen(et, n))
			}
			q, _, err := Decrypt(et, key, 7, c)
			if err != nil || !bytes.Equal(q[:n], p) {
				return fmt.Errorf("round trip %d/%d: %x (%v)", et, n, q, err)
			}
			c[len(c)/2] ^= 1
			if _, _, err := Decrypt(et, key, 7, c); err == nil {
				return fmt.Errorf("tamper accepted %d/%d", et, n)
			}
		}
	}
	return nil
}
