package leak

import (
	"crypto/sha256"
	"encoding/base64"
	"encoding/binary"
	"encoding/json"
	"errors"
	"fmt"
	"strings"
)

// prng is a deterministic byte stream (SHA-256 in counter mode); the self-test uses no other randomness.
type prng struct {
	seed uint64
	ctr  uint64
	buf  []byte
}

func (p *prng) bytes(n int) []byte {
	for len(p.buf) < n {
		var b [16]byte
		binary.BigEndian.PutUint64(b[:8], p.seed)
		binary.BigEndian.PutUint64(b[8:], p.ctr)
		p.ctr++
		h := sha256.Sum256(b[:])
		p.buf = append(p.buf, h[:]...)
	}
	out := append([]byte{}, p.buf[:n]...)
	p.buf = p.buf[n:]
	return out
}

func (p *prng) intn(n int) int {
	if n <= 1 {
		return 0
	}
	return int(binary.BigEndian.Uint32(p.bytes(4)) % uint32(n))
}

const printable = "abcdefghijklmnopqrstuvwxyzABCDEFGHIJKLMNOPQRSTUVWXYZ0123456789!#$%&()*+,-./:;<=>?@[]^_{|}~\"\\' "

func (p *prng) text(n int) string {
	b := p.bytes(n)
	for i := range b {
		b[i] = printable[int(b[i])%len(printable)]
	}
	return string(b)
}

func ints(b []byte) []int {
	o := make([]int, len(b))
	for i, c := range b {
		o[i] = int(c)
	}
	return o
}

type rendering struct {
	name   string
	expect []string // acceptable Hit.Rendering values
	f      func(p *prng, w []byte) string
}

func sepHex(w []byte, sep string, upper bool) string {
	parts := make([]string, len(w))
	for i, c := range w {
		if upper {
			parts[i] = fmt.Sprintf("%02X", c)
		} else {
			parts[i] = fmt.Sprintf("%02x", c)
		}
	}
	return strings.Join(parts, sep)
}

func b64in(p *prng, enc *base64.Encoding, w []byte) string {
	pre, post := p.bytes(p.intn(7)), p.bytes(p.intn(7))
	return enc.EncodeToString(append(append(pre, w...), post...))
}

var renderings = []rendering{
	{"raw", []string{"raw"}, func(p *prng, w []byte) string { return string(w) }},
	{"%x", []string{"hex-lower"}, func(p *prng, w []byte) string { return fmt.Sprintf("%x", w) }},
	{"%X", []string{"hex-upper", "hex-lower"}, func(p *prng, w []byte) string { return fmt.Sprintf("%X", w) }},
	{"% x", []string{"hex-sep"}, func(p *prng, w []byte) string { return fmt.Sprintf("% x", w) }},
	{"% X", []string{"hex-sep"}, func(p *prng, w []byte) string { return fmt.Sprintf("% X", w) }},
	{"hex-colon", []string{"hex-sep"}, func(p *prng, w []byte) string { return sepHex(w, ":", false) }},
	{"hex-dash-upper", []string{"hex-sep"}, func(p *prng, w []byte) string { return sepHex(w, "-", true) }},
	{"base64-std", []string{"base64-std"}, func(p *prng, w []byte) string { return b64in(p, base64.StdEncoding, w) }},
	{"base64-rawstd", []string{"base64-std"}, func(p *prng, w []byte) string { return b64in(p, base64.RawStdEncoding, w) }},
	{"base64-url", []string{"base64-url", "base64-std"}, func(p *prng, w []byte) string { return b64in(p, base64.URLEncoding, w) }},
	{"base64-rawurl", []string{"base64-url", "base64-std"}, func(p *prng, w []byte) string { return b64in(p, base64.RawURLEncoding, w) }},
	{"json-bytes", []string{"base64-std"}, func(p *prng, w []byte) string {
		b, _ := json.Marshal(map[string]any{"KeyType": 18, "KeyValue": append(p.bytes(p.intn(3)), w...)})
		return string(b)
	}},
	{"%v", []string{"num-list"}, func(p *prng, w []byte) string { return fmt.Sprintf("%v", w) }},
	{"%d", []string{"num-list"}, func(p *prng, w []byte) string { return fmt.Sprintf("%d", w) }},
	{"%v-struct", []string{"num-list"}, func(p *prng, w []byte) string {
		return fmt.Sprintf("%+v", struct {
			KeyType  int32
			KeyValue []byte
		}{18, w})
	}},
	{"%#v", []string{"num-list"}, func(p *prng, w []byte) string { return fmt.Sprintf("%#v", w) }},
	{"json-ints", []string{"num-list"}, func(p *prng, w []byte) string { b, _ := json.Marshal(ints(w)); return string(b) }},
	{"json-ints-indent", []string{"num-list"}, func(p *prng, w []byte) string {
		b, _ := json.MarshalIndent(map[string]any{"k": ints(w)}, "", "  ")
		return string(b)
	}},
	{"%q", []string{"escaped", "raw"}, func(p *prng, w []byte) string { return fmt.Sprintf("%q", w) }},
	{"%+q", []string{"escaped", "raw"}, func(p *prng, w []byte) string { return fmt.Sprintf("%+q", string(w)) }},
	{"%x-of-string-in-error", []string{"hex-lower"}, func(p *prng, w []byte) string {
		return fmt.Errorf("decrypt failed: %w", fmt.Errorf("integrity check with key %x failed", string(w))).Error()
	}},
}

func has(hits []Hit, secret string, rend []string) bool {
	for _, h := range hits {
		if h.Secret != secret {
			continue
		}
		for _, r := range rend {
			if h.Rendering == r {
				return true
			}
		}
	}
	return false
}

// SelfTest plants every rendering of random windows of random secrets in random noise and expects
// a hit naming the right secret; then searches renderings of unrelated random data, of seven-byte
// windows, and ordinary structured text, and expects no hit.
func SelfTest() error {
	p := &prng{seed: 0xC20}
	var secrets []Secret
	for i := 0; i < 24; i++ {
		v := p.bytes(8 + p.intn(33))
		kind := "binary"
		if i%3 == 0 {
			v = []byte(p.text(32))
			kind = "text"
		}
		secrets = append(secrets, Secret{Name: fmt.Sprintf("s%d", i), Kind: kind, Value: v})
	}
	set := NewSet(secrets...)
	if set.Len() != len(secrets) {
		return fmt.Errorf("leak self-test: %d of %d secrets compiled", set.Len(), len(secrets))
	}
	if set.Dropped > 2 {
		return fmt.Errorf("leak self-test: %d windows of random secrets dropped as low-entropy", set.Dropped)
	}
	noise := func() string {
		switch p.intn(3) {
		case 0:
			return p.text(p.intn(60))
		case 1:
			return "error decrypting: [Root cause: Decrypting_Error] key " + p.text(5) + " kvno: 3 etype: 18; "
		}
		return string(p.bytes(p.intn(40)))
	}
	// 1. planted positives
	for round := 0; round < 12; round++ {
		for si, s := range secrets {
			n := MinWindow + p.intn(len(s.Value)-MinWindow+1)
			off := p.intn(len(s.Value) - n + 1)
			w := s.Value[off : off+n]
			for _, r := range renderings {
				pre, post := noise(), noise()
				// keep noise from gluing onto the rendering (a letter or digit next to a number list would change its tokens)
				blob := pre + " <" + r.f(p, w) + "> " + post
				hits := set.SearchString(blob)
				if !has(hits, s.Name, r.expect) {
					return fmt.Errorf("leak self-test: secret %d bytes [%d:%d] planted as %s not found (hits %v) in %q", si, off, off+n, r.name, hits, blob)
				}
				for _, h := range hits {
					if h.Secret != s.Name {
						return fmt.Errorf("leak self-test: planted %s of secret %s, but hit names %s", r.name, s.Name, h)
					}
				}
			}
		}
	}
	// JSON string forms
	pw := []byte(`pA<ss>&w"or\d-with/specials+and=more`)
	bin := []byte("ab\xffcdefg\xfehijklm\x01\x02nop")
	js := NewSet(Secret{Name: "pw", Kind: "text", Value: pw}, Secret{Name: "bin", Kind: "binary", Value: bin})
	for _, v := range []struct {
		name string
		val  []byte
		rend []string
	}{{"pw", pw, []string{"escaped", "raw"}}, {"bin", bin, []string{"json-lossy"}}} {
		b, _ := json.Marshal(map[string]string{"Password": string(v.val)})
		if hits := js.Search(b); !has(hits, v.name, v.rend) {
			return fmt.Errorf("leak self-test: JSON string form of %q not found in %s (hits %v)", v.val, b, hits)
		}
		b, _ = json.MarshalIndent([]string{"x", string(v.val[3:])}, "", " ")
		if hits := js.Search(b); !has(hits, v.name, v.rend) {
			return fmt.Errorf("leak self-test: JSON string form of a suffix of %q not found in %s (hits %v)", v.val, b, hits)
		}
	}
	// 2. negatives: the same renderings of unrelated random data
	for round := 0; round < 200; round++ {
		w := p.bytes(8 + p.intn(40))
		if round%4 == 0 {
			w = []byte(p.text(32))
		}
		for _, r := range renderings {
			blob := noise() + " <" + r.f(p, w) + "> " + noise()
			if hits := set.SearchString(blob); len(hits) != 0 {
				return fmt.Errorf("leak self-test: false positive %v on unrelated data rendered as %s: %q", hits, r.name, blob)
			}
		}
	}
	// 3. negatives: seven consecutive secret bytes are below the threshold. The bytes around the window
	// are chosen different from the secret's own neighbours so that the window does not extend.
	for round := 0; round < 6; round++ {
		for _, s := range secrets {
			off := p.intn(len(s.Value) - 7 + 1)
			w := append([]byte{}, s.Value[off:off+7]...)
			// text renderings: printable neighbours that differ from the secret's own
			before, after := byte('!'), byte('!')
			if off > 0 && s.Value[off-1] == before {
				before = '#'
			}
			if off+7 < len(s.Value) && s.Value[off+7] == after {
				after = '#'
			}
			// base64: every bit of the neighbours differs from the secret's own (a base64 needle covers the 60 bits of
			// an eight-byte window that whole characters determine, so a neighbour sharing its high bits would extend it)
			nb, na := byte(0x5a), byte(0x5a)
			if off > 0 {
				nb = ^s.Value[off-1]
			}
			if off+7 < len(s.Value) {
				na = ^s.Value[off+7]
			}
			for _, r := range renderings {
				if strings.HasPrefix(r.name, "base64") || r.name == "json-bytes" {
					continue // the self-test's base64 planting adds random neighbours; covered below
				}
				ext := append(append([]byte{before}, w...), after)
				blob := "x <" + r.f(p, ext) + "> y"
				if hits := set.SearchString(blob); len(hits) != 0 {
					return fmt.Errorf("leak self-test: seven-byte window reported as a leak: %v in %q", hits, blob)
				}
			}
			for _, enc := range []*base64.Encoding{base64.StdEncoding, base64.RawURLEncoding} {
				for a := 0; a < 3; a++ {
					ext := append(append(bytesOf(nb, a+1), w...), bytesOf(na, 3)...)
					if hits := set.SearchString(enc.EncodeToString(ext)); len(hits) != 0 {
						return fmt.Errorf("leak self-test: seven-byte window in base64 reported as a leak: %v", hits)
					}
				}
			}
		}
	}
	// 4. negatives: ordinary diagnostic text
	ordinary := []string{
		`{"LibDefaults":{"AllowWeakCrypto":true,"Canonicalize":false,"CCacheType":4,"Clockskew":300000000000,"DefaultTktEnctypeIDs":[18,17,23,16,20,19],"UDPPreferenceLimit":1465,"K5LoginDirectory":"/root","KDCTimeSync":1,"VerifyAPReqNofail":false},"Realms":[{"Realm":"EXAMPLE.COM","KDC":["127.0.0.1:88"]}]}`,
		"2026/01/02 03:04:05 127.0.0.1:4321 alice@EXAMPLE.COM - SPNEGO authentication succeeded; ticket added to cache for HTTP/web.example.com (EndTime: 2026-01-02 13:04:05 +0000 UTC)",
		"[Root cause: KDC_Error] KDC_Error: AS Exchange Error: kerberos error response from KDC: KRB Error: (24) KDC_ERR_PREAUTH_FAILED Pre-authentication information was invalid",
		"0 1 2 3 4 5 6 7 8 9 10 11 12 13 14 15 16 17 18 19 20 00:11:22:33:44:55:66:77:88:99 0x0, 0x1, 0x2, 0x3, 0x4, 0x5, 0x6, 0x7, 0x8",
		strings.Repeat("\\ufffd", 20) + strings.Repeat("\xef\xbf\xbd", 20) + strings.Repeat("00", 40) + strings.Repeat("A", 64),
	}
	for _, o := range ordinary {
		if hits := set.SearchString(o); len(hits) != 0 {
			return fmt.Errorf("leak self-test: false positive %v on ordinary text %q", hits, o)
		}
	}
	// 5. secrets shorter than the window are reported as unsearchable, not silently accepted
	sh := NewSet(Secret{Name: "short", Value: []byte("1234567")})
	if sh.Len() != 0 || len(sh.Short) != 1 {
		return errors.New("leak self-test: a seven-byte secret was not reported as too short")
	}
	// 6. low-entropy windows are dropped, the rest of the secret is still searched
	le := NewSet(Secret{Name: "le", Value: append(make([]byte, 12), []byte("Zq8#kL2$vN5@")...)})
	if le.Dropped == 0 {
		return errors.New("leak self-test: windows of zero bytes were not dropped")
	}
	if hits := le.Search(make([]byte, 64)); len(hits) != 0 {
		return fmt.Errorf("leak self-test: zero bytes matched a secret: %v", hits)
	}
	if hits := le.SearchString("xx Zq8#kL2$vN5@ yy"); !has(hits, "le", []string{"raw"}) {
		return errors.New("leak self-test: the high-entropy part of a partly low-entropy secret was not found")
	}
	return nil
}

func bytesOf(c byte, n int) []byte {
	o := make([]byte, n)
	for i := range o {
		o[i] = c
	}
	return o
}
