package leak

import "testing"

func TestSelfTest(t *testing.T) {
	if err := SelfTest(); err != nil {
		t.Fatal(err)
	}
}
