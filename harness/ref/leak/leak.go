// Package leak searches captured output (error texts, log lines, JSON and gob dumps, wire bytes)
// for secret material. Given a set of named secrets it reports any occurrence of any window of
// MinWindow or more consecutive secret bytes in one of these renderings:
//
//	raw           the bytes themselves (%s of a []byte or string)
//	hex-lower     contiguous lower-case hexadecimal (%x, hex.EncodeToString)
//	hex-upper     contiguous upper-case hexadecimal (%X)
//	hex-sep       two-digit hexadecimal groups separated by one space, colon, dash or comma ("% x", "a1:b2")
//	base64-std    RFC 4648 standard alphabet, any of the three byte alignments (JSON of a []byte); the needle is
//	              the ten characters that an eight-byte window determines completely (60 of its 64 bits)
//	base64-url    RFC 4648 URL alphabet, any of the three byte alignments
//	num-list      lists of small numbers: Go %v / %d of a []byte ("[12 255 3]"), JSON arrays ("[12,255,3]"),
//	              Go syntax ("[]byte{0xc, 0xff, 0x3}")
//	escaped       backslash-escaped strings: Go %q / %+q / strconv.Quote (\x.., \u...., \NNN, \n ...) and JSON
//	              string escapes; the text is unescaped and then searched raw
//	json-lossy    a JSON string of binary data, where encoding/json replaced every invalid UTF-8 byte by U+FFFD
//
// It imports nothing from gokrb5. The search is exact (no heuristics): a hit means the blob
// contains the rendering of at least MinWindow consecutive bytes of the named secret.
package leak

import (
	"encoding/base64"
	"encoding/binary"
	"encoding/hex"
	"fmt"
	"sort"
	"strings"
	"unicode/utf8"
)

// MinWindow is the smallest number of consecutive secret bytes that counts as a leak.
const MinWindow = 8

// minDistinct is the smallest number of distinct byte values a window must have to be searched
// for; windows below it (runs of zeros, "aaaaaaaa") are too likely to occur innocently. Marker
// secrets are high-entropy, so no window of theirs is normally dropped (see Set.Dropped).
const minDistinct = 4

// Secret is one named secret value.
type Secret struct {
	Name  string
	Kind  string // free-form class: password, keytab-key, session-key, subkey ...
	Value []byte
}

// Hit is one occurrence.
type Hit struct {
	Secret    string // name of the secret
	Kind      string
	Rendering string
	SecretOff int // offset of the matched window inside the secret
	BlobOff   int // offset of the match in the searched text (for derived texts: offset in the derived text)
}

func (h Hit) String() string {
	return fmt.Sprintf("secret %q (%s) bytes [%d:%d+] rendered %s at offset %d", h.Secret, h.Kind, h.SecretOff, h.SecretOff+MinWindow, h.Rendering, h.BlobOff)
}

type needle struct {
	b         []byte
	secret    int
	off       int
	rendering string
	rawOnly   bool // a raw window: also searched in the texts derived from the blob
}

const (
	modeAll   = iota // every needle
	modeRaw          // raw windows only (texts derived from the blob)
	modeLossy        // json-lossy needles only
)

// Set is a compiled set of secrets.
type Set struct {
	secrets []Secret
	idx     map[uint64][]int // first 8 bytes of a needle -> needle numbers
	needles []needle
	seen    map[string]bool // dedupe identical needle bytes of one secret
	Dropped int             // windows not searched for because they have fewer than minDistinct distinct bytes
	Short   []string        // secrets shorter than MinWindow (not searchable)
}

// NewSet compiles secrets.
func NewSet(secrets ...Secret) *Set {
	s := &Set{idx: map[uint64][]int{}, seen: map[string]bool{}}
	for _, x := range secrets {
		s.Add(x)
	}
	return s
}

// Names lists the secrets held, sorted.
func (s *Set) Names() []string {
	out := []string{}
	for _, x := range s.secrets {
		out = append(out, x.Name)
	}
	sort.Strings(out)
	return out
}

// Len is the number of searchable secrets.
func (s *Set) Len() int { return len(s.secrets) }

// Has reports whether a secret with exactly this value is already held.
func (s *Set) Has(v []byte) bool {
	for _, x := range s.secrets {
		if string(x.Value) == string(v) {
			return true
		}
	}
	return false
}

func distinct(b []byte) int {
	var seen [256]bool
	n := 0
	for _, c := range b {
		if !seen[c] {
			seen[c] = true
			n++
		}
	}
	return n
}

func (s *Set) addNeedle(b []byte, secret, off int, rendering string, raw bool) {
	if len(b) < 8 {
		return
	}
	k := fmt.Sprintf("%d|%v|%s", secret, raw, b)
	if s.seen[k] {
		return
	}
	s.seen[k] = true
	s.needles = append(s.needles, needle{b: b, secret: secret, off: off, rendering: rendering, rawOnly: raw})
	key := binary.LittleEndian.Uint64(b)
	s.idx[key] = append(s.idx[key], len(s.needles)-1)
}

// b64Window returns the base64 characters that are completely determined by the window w when it
// starts at byte alignment a (0, 1 or 2) of the encoded stream.
func b64Window(enc *base64.Encoding, w []byte, a int) []byte {
	buf := make([]byte, a+len(w)+2) // a unknown bytes before, 2 after (so the tail is never padded)
	copy(buf[a:], w)
	full := enc.EncodeToString(buf)
	lo := (8*a + 5) / 6        // first character index k with 6k >= 8a
	hi := 8 * (a + len(w)) / 6 // characters k < hi satisfy 6k+6 <= 8(a+n)
	return []byte(full[lo:hi])
}

// Add compiles one more secret.
func (s *Set) Add(x Secret) {
	if len(x.Value) < MinWindow {
		s.Short = append(s.Short, x.Name)
		return
	}
	if s.Has(x.Value) {
		return
	}
	v := append([]byte{}, x.Value...)
	x.Value = v
	s.secrets = append(s.secrets, x)
	id := len(s.secrets) - 1
	for off := 0; off+MinWindow <= len(v); off++ {
		w := v[off : off+MinWindow]
		if distinct(w) < minDistinct {
			s.Dropped++
			continue
		}
		s.addNeedle(w, id, off, "raw", true)
		hx := hex.EncodeToString(w)
		s.addNeedle([]byte(hx), id, off, "hex-lower", false)
		s.addNeedle([]byte(strings.ToUpper(hx)), id, off, "hex-upper", false)
		for a := 0; a < 3; a++ {
			s.addNeedle(b64Window(base64.RawStdEncoding, w, a), id, off, "base64-std", false)
			s.addNeedle(b64Window(base64.RawURLEncoding, w, a), id, off, "base64-url", false)
		}
	}
	// JSON string of binary data: every invalid UTF-8 byte became U+FFFD. Needles start at rune
	// boundaries of the secret, cover at least MinWindow source bytes and must keep at least six
	// source bytes intact (otherwise they are mostly replacement characters and carry no information).
	type seg struct {
		out  []byte
		n    int
		kept int
	}
	var segs []seg
	for i := 0; i < len(v); {
		r, n := utf8.DecodeRune(v[i:])
		if r == utf8.RuneError && n <= 1 {
			segs = append(segs, seg{[]byte("\xef\xbf\xbd"), 1, 0})
			i++
			continue
		}
		segs = append(segs, seg{v[i : i+n], n, n})
		i += n
	}
	pos := 0
	for i := range segs {
		var out []byte
		src, kept, lossy := 0, 0, false
		for j := i; j < len(segs) && src < MinWindow; j++ {
			out = append(out, segs[j].out...)
			src += segs[j].n
			kept += segs[j].kept
			if segs[j].kept == 0 {
				lossy = true
			}
		}
		if src >= MinWindow && lossy && kept >= 6 && distinct(out) >= minDistinct+2 {
			s.addNeedle(out, id, pos, "json-lossy", false)
		}
		pos += segs[i].n
	}
}

func (s *Set) scan(text []byte, derived string, mode int, hits *[]Hit, dedupe map[string]bool) {
	if len(text) < 8 || len(s.needles) == 0 {
		return
	}
	for i := 0; i+8 <= len(text); i++ {
		cands, ok := s.idx[binary.LittleEndian.Uint64(text[i:])]
		if !ok {
			continue
		}
		for _, ni := range cands {
			n := &s.needles[ni]
			if (mode == modeRaw && !n.rawOnly) || (mode == modeLossy && n.rendering != "json-lossy") {
				continue
			}
			if i+len(n.b) > len(text) || string(text[i:i+len(n.b)]) != string(n.b) {
				continue
			}
			rend := n.rendering
			if derived != "" {
				rend = derived
			}
			k := fmt.Sprintf("%d|%s", n.secret, rend)
			if dedupe[k] {
				continue
			}
			dedupe[k] = true
			*hits = append(*hits, Hit{Secret: s.secrets[n.secret].Name, Kind: s.secrets[n.secret].Kind, Rendering: rend, SecretOff: n.off, BlobOff: i})
		}
	}
}

// Search reports the occurrences of any secret in blob: at most one hit per (secret, rendering),
// the first in the text.
func (s *Set) Search(blob []byte) []Hit {
	var hits []Hit
	if len(s.needles) == 0 || len(blob) < 8 {
		return nil
	}
	dd := map[string]bool{}
	s.scan(blob, "", modeAll, &hits, dd)
	if d := Unescape(blob); d != nil {
		s.scan(d, "escaped", modeRaw, &hits, dd)
		// a JSON string of binary data: encoding/json writes the replacement character as the escape \ufffd
		s.scan(d, "", modeLossy, &hits, dd)
	}
	for _, run := range NumberRuns(blob) {
		s.scan(run, "num-list", modeRaw, &hits, dd)
	}
	for _, run := range HexPairRuns(blob) {
		s.scan(run, "hex-sep", modeRaw, &hits, dd)
	}
	return hits
}

// SearchString is Search on a string.
func (s *Set) SearchString(t string) []Hit { return s.Search([]byte(t)) }

func hexVal(c byte) int {
	switch {
	case c >= '0' && c <= '9':
		return int(c - '0')
	case c >= 'a' && c <= 'f':
		return int(c-'a') + 10
	case c >= 'A' && c <= 'F':
		return int(c-'A') + 10
	}
	return -1
}

// Unescape undoes backslash escapes of Go quoted strings and JSON strings wherever they occur in
// the text; everything else is copied. It returns nil when the text holds no backslash.
func Unescape(b []byte) []byte {
	found := false
	for _, c := range b {
		if c == '\\' {
			found = true
			break
		}
	}
	if !found {
		return nil
	}
	out := make([]byte, 0, len(b))
	hexN := func(i, n int) (rune, bool) {
		if i+n > len(b) {
			return 0, false
		}
		var v rune
		for k := 0; k < n; k++ {
			h := hexVal(b[i+k])
			if h < 0 {
				return 0, false
			}
			v = v<<4 | rune(h)
		}
		return v, true
	}
	for i := 0; i < len(b); {
		c := b[i]
		if c != '\\' || i+1 >= len(b) {
			out = append(out, c)
			i++
			continue
		}
		e := b[i+1]
		switch e {
		case 'x':
			if v, ok := hexN(i+2, 2); ok {
				out = append(out, byte(v))
				i += 4
				continue
			}
		case 'u':
			if v, ok := hexN(i+2, 4); ok {
				// JSON surrogate pair
				if v >= 0xd800 && v < 0xdc00 && i+12 <= len(b) && b[i+6] == '\\' && b[i+7] == 'u' {
					if w, ok2 := hexN(i+8, 4); ok2 && w >= 0xdc00 && w < 0xe000 {
						out = utf8.AppendRune(out, 0x10000+(v-0xd800)<<10+(w-0xdc00))
						i += 12
						continue
					}
				}
				out = utf8.AppendRune(out, v)
				i += 6
				continue
			}
		case 'U':
			if v, ok := hexN(i+2, 8); ok {
				out = utf8.AppendRune(out, v)
				i += 10
				continue
			}
		case 'a':
			out = append(out, 7)
			i += 2
			continue
		case 'b':
			out = append(out, 8)
			i += 2
			continue
		case 'f':
			out = append(out, 12)
			i += 2
			continue
		case 'n':
			out = append(out, 10)
			i += 2
			continue
		case 'r':
			out = append(out, 13)
			i += 2
			continue
		case 't':
			out = append(out, 9)
			i += 2
			continue
		case 'v':
			out = append(out, 11)
			i += 2
			continue
		case '\\', '"', '\'', '/':
			out = append(out, e)
			i += 2
			continue
		default:
			if e >= '0' && e <= '7' && i+3 < len(b) && b[i+2] >= '0' && b[i+2] <= '7' && b[i+3] >= '0' && b[i+3] <= '7' {
				v := int(e-'0')<<6 | int(b[i+2]-'0')<<3 | int(b[i+3]-'0')
				if v <= 255 {
					out = append(out, byte(v))
					i += 4
					continue
				}
			}
		}
		out = append(out, c)
		i++
	}
	return out
}

// words splits the text into maximal runs of letters, digits, dots and underscores and calls f
// with the bounds of each.
func words(b []byte, f func(from, to int)) {
	isWord := func(c byte) bool {
		return c >= '0' && c <= '9' || c >= 'a' && c <= 'z' || c >= 'A' && c <= 'Z' || c == '.' || c == '_'
	}
	for i := 0; i < len(b); {
		if !isWord(b[i]) {
			i++
			continue
		}
		j := i
		for j < len(b) && isWord(b[j]) {
			j++
		}
		f(i, j)
		i = j
	}
}

// smallNumber reads a word as a byte value: one to three decimal digits (0..255) or 0x followed by
// one or two hexadecimal digits; -1 otherwise.
func smallNumber(w []byte) int {
	if len(w) >= 3 && len(w) <= 4 && w[0] == '0' && (w[1] == 'x' || w[1] == 'X') {
		v := 0
		for _, c := range w[2:] {
			h := hexVal(c)
			if h < 0 {
				return -1
			}
			v = v<<4 | h
		}
		return v
	}
	if len(w) < 1 || len(w) > 3 {
		return -1
	}
	v := 0
	for _, c := range w {
		if c < '0' || c > '9' {
			return -1
		}
		v = v*10 + int(c-'0')
	}
	if v > 255 {
		return -1
	}
	return v
}

// listSep accepts what separates the elements of a printed list: one space (%v, %d), a comma
// optionally followed by white space (JSON, indented JSON, Go syntax).
func listSep(s []byte) bool {
	if len(s) == 0 {
		return false
	}
	if len(s) == 1 && s[0] == ' ' {
		return true
	}
	if s[0] != ',' {
		return false
	}
	for _, c := range s[1:] {
		if c != ' ' && c != '\n' && c != '\t' && c != '\r' {
			return false
		}
	}
	return true
}

// NumberRuns extracts every maximal run of at least MinWindow small numbers (decimal 0..255, or
// 0x-prefixed hexadecimal of one or two digits) separated like the elements of a printed list, and
// returns each run as bytes.
func NumberRuns(b []byte) [][]byte {
	var runs [][]byte
	var cur []byte
	prevEnd := 0
	flush := func() {
		if len(cur) >= MinWindow {
			runs = append(runs, cur)
		}
		cur = nil
	}
	words(b, func(from, to int) {
		v := smallNumber(b[from:to])
		if v < 0 {
			flush()
			return
		}
		if len(cur) > 0 && !listSep(b[prevEnd:from]) {
			flush()
		}
		cur = append(cur, byte(v))
		prevEnd = to
	})
	flush()
	return runs
}

// HexPairRuns extracts every maximal run of at least MinWindow two-digit hexadecimal groups
// separated by exactly one space, colon, dash or comma ("a1 b2 c3", "A1:B2:C3") as bytes.
func HexPairRuns(b []byte) [][]byte {
	var runs [][]byte
	var cur []byte
	prevEnd := 0
	flush := func() {
		if len(cur) >= MinWindow {
			runs = append(runs, cur)
		}
		cur = nil
	}
	words(b, func(from, to int) {
		if to-from != 2 || hexVal(b[from]) < 0 || hexVal(b[from+1]) < 0 {
			flush()
			return
		}
		if len(cur) > 0 {
			sep := b[prevEnd:from]
			if len(sep) != 1 || !(sep[0] == ' ' || sep[0] == ':' || sep[0] == '-' || sep[0] == ',') {
				flush()
			}
		}
		cur = append(cur, byte(hexVal(b[from])<<4|hexVal(b[from+1])))
		prevEnd = to
	})
	flush()
	return runs
}
