package krb5conf

import (
	"fmt"
	"sort"
	"strings"
)

// Inject describes one structural defect applied while rendering (the invalid-file generator).
type Inject struct {
	Kind    string `json:"kind"`              // class name, e.g. libdefaults-no-equals, unterminated-realm
	Op      string `json:"op"`                // insert | drop-close
	Section string `json:"section,omitempty"` // insert: libdefaults | realms | domain_realm
	Realm   int    `json:"realm"`             // insert: -1 = at section level, k = inside realm k; drop-close: the realm
	At      int    `json:"at,omitempty"`      // insert: which of the candidate positions (mod their number)
	Line    string `json:"line,omitempty"`    // insert: the raw line (indentation is added)
	Nested  bool   `json:"nested,omitempty"`  // drop-close: drop the first nested block's brace instead of the realm's; insert: inside a block nested in the realm
}

// tape is the layout choice sequence: Pick(n) consumes one element (cycling); an empty tape
// always picks 0, the plain layout, so that a shrunk case is laid out canonically.
type tape struct {
	t []int
	i int
}

func (t *tape) pick(n int) int {
	if len(t.t) == 0 {
		return 0
	}
	v := t.t[t.i%len(t.t)]
	t.i++
	if v < 0 {
		v = -v
	}
	return v % n
}

type ll struct {
	sec        string
	role       string // header entry open close raw
	realm      int
	depth      int // depth of the line itself (0 = section level)
	depthAfter int
	tag, val   string
}

var eqForms = []string{" = ", "=", " =", "= ", "\t=\t", "  =  ", " =\t", "\t= "}
var indents = []string{"", " ", "\t", "    ", "\t\t", " \t", "        "}
var commentTexts = []string{"comment", "kdc = evil.example.com:88", "default_realm = WRONG.REALM", "}", "{", "[realms]",
	"x = {", "forwardable = maybe", "admin_server = evil.example.com*", ".example.com = WRONG.REALM", "[libdefaults]", "no equals sign here", ""}

func blockLines(out *[]ll, sec string, realm, depth int, lines []Line) {
	for _, l := range lines {
		if l.IsBlock {
			*out = append(*out, ll{sec: sec, role: "open", realm: realm, depth: depth, depthAfter: depth + 1, tag: l.Key})
			blockLines(out, sec, realm, depth+1, l.Sub)
			*out = append(*out, ll{sec: sec, role: "close", realm: realm, depth: depth, depthAfter: depth})
		} else {
			*out = append(*out, ll{sec: sec, role: "entry", realm: realm, depth: depth, depthAfter: depth, tag: l.Key, val: l.Value})
		}
	}
}

func logical(m Model) ([]ll, error) {
	var out []ll
	other := map[string]Section{}
	for _, s := range m.Other {
		other[s.Name] = s
	}
	seen := map[string]bool{}
	for _, name := range m.Order {
		if seen[name] {
			return nil, fmt.Errorf("section %s repeated in model order", name)
		}
		seen[name] = true
		out = append(out, ll{sec: name, role: "header", realm: -1, tag: name})
		switch name {
		case "libdefaults":
			for _, e := range m.Lib {
				out = append(out, ll{sec: name, role: "entry", realm: -1, tag: e.Key, val: e.Text})
			}
		case "realms":
			for k, r := range m.Realms {
				out = append(out, ll{sec: name, role: "open", realm: k, depthAfter: 1, tag: r.Name})
				for _, it := range r.Items {
					switch it.Kind {
					case "kdc", "admin_server", "kpasswd_server", "master_kdc":
						out = append(out, ll{sec: name, role: "entry", realm: k, depth: 1, depthAfter: 1, tag: it.Kind, val: ServerText(it.Host, it.Port, it.Final)})
					case "default_domain":
						out = append(out, ll{sec: name, role: "entry", realm: k, depth: 1, depthAfter: 1, tag: it.Kind, val: it.Value})
					case "unknown":
						out = append(out, ll{sec: name, role: "entry", realm: k, depth: 1, depthAfter: 1, tag: it.Key, val: it.Value})
					case "block":
						out = append(out, ll{sec: name, role: "open", realm: k, depth: 1, depthAfter: 2, tag: it.Key})
						blockLines(&out, name, k, 2, it.Block)
						out = append(out, ll{sec: name, role: "close", realm: k, depth: 1, depthAfter: 1})
					default:
						return nil, fmt.Errorf("bad realm item kind %q", it.Kind)
					}
				}
				out = append(out, ll{sec: name, role: "close", realm: k, depth: 0, depthAfter: 0})
			}
		case "domain_realm":
			first := m.Domains
			if m.DomainSplit > 0 && m.DomainSplit < len(m.Domains) {
				first = m.Domains[:m.DomainSplit]
			}
			for _, d := range first {
				out = append(out, ll{sec: name, role: "entry", realm: -1, tag: d.Domain, val: d.Realm})
			}
		default:
			s, ok := other[name]
			if !ok {
				return nil, fmt.Errorf("section %s in order but not in model", name)
			}
			blockLines(&out, name, -1, 0, s.Lines)
		}
	}
	if seen["domain_realm"] && m.DomainSplit > 0 && m.DomainSplit < len(m.Domains) {
		out = append(out, ll{sec: "domain_realm", role: "header", realm: -1, tag: "domain_realm"})
		for _, d := range m.Domains[m.DomainSplit:] {
			out = append(out, ll{sec: "domain_realm", role: "entry", realm: -1, tag: d.Domain, val: d.Realm})
		}
	}
	if (len(m.Lib) > 0 && !seen["libdefaults"]) || (len(m.Realms) > 0 && !seen["realms"]) || (len(m.Domains) > 0 && !seen["domain_realm"]) {
		return nil, fmt.Errorf("model has content for a section missing from its order")
	}
	return out, nil
}

func applyInject(ls []ll, inj *Inject) ([]ll, error) {
	switch inj.Op {
	case "insert":
		var cand []int
		for i, l := range ls {
			if l.sec != inj.Section {
				continue
			}
			if inj.Realm < 0 && l.depthAfter == 0 {
				cand = append(cand, i)
			}
			if inj.Realm >= 0 && l.realm == inj.Realm && ((!inj.Nested && l.depthAfter == 1) || (inj.Nested && l.depthAfter >= 2)) {
				cand = append(cand, i)
			}
		}
		if len(cand) == 0 {
			return nil, fmt.Errorf("inject: no position in section %q realm %d", inj.Section, inj.Realm)
		}
		at := inj.At
		if at < 0 {
			at = -at
		}
		i := cand[at%len(cand)]
		d := 0
		if inj.Realm >= 0 {
			d = 1
		}
		if inj.Nested {
			d = ls[i].depthAfter
		}
		n := ll{sec: inj.Section, role: "raw", realm: inj.Realm, depth: d, depthAfter: d, val: inj.Line}
		out := append([]ll{}, ls[:i+1]...)
		out = append(out, n)
		return append(out, ls[i+1:]...), nil
	case "drop-close":
		want := 0
		if inj.Nested {
			want = 1
		}
		for i, l := range ls {
			if l.role == "close" && l.realm == inj.Realm && l.sec == "realms" && l.depthAfter == want {
				out := append([]ll{}, ls[:i]...)
				return append(out, ls[i+1:]...), nil
			}
		}
		return nil, fmt.Errorf("inject: realm %d has no such closing brace", inj.Realm)
	}
	return nil, fmt.Errorf("inject: bad op %q", inj.Op)
}

// Render lays the model out as text. layout is a sequence of small integers consumed as layout
// choices (indentation, spacing around "=", blank lines, comment lines, trailing comments, trailing
// white space, final newline); an empty layout gives the plain canonical form. The returned
// feature list names the layout devices actually used (for histograms).
func Render(m Model, layout []int, inj *Inject) (string, []string, error) {
	ls, err := logical(m)
	if err != nil {
		return "", nil, err
	}
	if inj != nil {
		if ls, err = applyInject(ls, inj); err != nil {
			return "", nil, err
		}
	}
	tp := &tape{t: layout}
	feats := map[string]bool{}
	var b strings.Builder
	comment := func(ind string) string {
		c := "#"
		if tp.pick(2) == 1 {
			c = ";"
		}
		sp := " "
		if tp.pick(3) == 2 {
			sp = ""
		}
		return ind + c + sp + commentTexts[tp.pick(len(commentTexts))]
	}
	for _, l := range ls {
		ind := strings.Repeat("  ", l.depth+1)
		if l.role == "header" {
			ind = ""
		}
		if k := tp.pick(len(indents) + 4); k >= 4 {
			ind = indents[k-4]
			if strings.Contains(ind, "\t") {
				feats["layout:tab-indent"] = true
			}
			if l.role == "header" && ind != "" {
				feats["layout:indented-header"] = true
			}
		}
		switch tp.pick(12) {
		case 7:
			b.WriteString("\n")
			feats["layout:blank-line"] = true
		case 8:
			b.WriteString(comment(ind) + "\n")
			feats["layout:comment-line"] = true
		case 9:
			b.WriteString("\n" + comment("") + "\n")
			feats["layout:blank-line"], feats["layout:comment-line"] = true, true
		case 10:
			b.WriteString(" \t \n")
			feats["layout:whitespace-line"] = true
		case 11:
			b.WriteString(comment(ind) + "\n" + comment(ind) + "\n\n")
			feats["layout:blank-line"], feats["layout:comment-line"] = true, true
		}
		eq := eqForms[0]
		if l.role == "entry" || l.role == "open" {
			if k := tp.pick(len(eqForms) + 3); k >= 3 {
				eq = eqForms[k-3]
				if strings.Contains(eq, "\t") {
					feats["layout:tab-around-equals"] = true
				}
				if !strings.Contains(eq, " ") && !strings.Contains(eq, "\t") {
					feats["layout:no-space-around-equals"] = true
				}
			}
		}
		b.WriteString(ind)
		switch l.role {
		case "header":
			b.WriteString("[" + l.tag + "]")
		case "entry":
			b.WriteString(l.tag + eq + l.val)
		case "open":
			b.WriteString(l.tag + eq + "{")
		case "close":
			b.WriteString("}")
		case "raw":
			b.WriteString(l.val)
		}
		if l.role != "header" && l.role != "raw" {
			switch tp.pick(14) {
			case 11:
				b.WriteString(" # " + commentTexts[tp.pick(len(commentTexts))])
				feats["layout:trailing-comment"] = true
			case 12:
				b.WriteString(" ;" + commentTexts[tp.pick(len(commentTexts))])
				feats["layout:trailing-comment"] = true
			case 13:
				b.WriteString("#" + commentTexts[tp.pick(len(commentTexts))])
				feats["layout:trailing-comment"] = true
			}
		}
		switch tp.pick(8) {
		case 6:
			b.WriteString(" ")
			feats["layout:trailing-space"] = true
		case 7:
			b.WriteString("\t")
			feats["layout:trailing-space"] = true
		}
		b.WriteString("\n")
	}
	text := b.String()
	if tp.pick(5) == 4 {
		text = strings.TrimSuffix(text, "\n")
		feats["layout:no-final-newline"] = true
	}
	fl := make([]string, 0, len(feats))
	for f := range feats {
		fl = append(fl, f)
	}
	sort.Strings(fl)
	return text, fl, nil
}
