// Package krb5conf is an independent model of the MIT krb5.conf format: a configuration MODEL, a
// MODEL -> TEXT renderer with randomised layout, a reader for the profile syntax and the value
// syntaxes, and the expected-value computation the C16 check judges gokrb5 against.
//
// It is written from the MIT documentation (krb5.conf(5): "Structure", "[libdefaults]", "[realms]",
// "[domain_realm]"; "Supporting information": time duration and encryption types) and shares no
// code with gokrb5.
package krb5conf

import (
	"errors"
	"fmt"
	"strconv"
	"strings"
)

// ---------------------------------------------------------------------------------------------
// Booleans. MIT profile_parse_boolean: case-insensitive y yes true t 1 on / n no false nil 0 off.
// "f" is not in MIT's table but is in the set gokrb5's parser claims (strconv.ParseBool) and the
// C16 design asserts, so the reference reads it as false as well.

var truthy = []string{"y", "yes", "true", "t", "1", "on"}
var falsy = []string{"n", "no", "false", "nil", "0", "off", "f"}

// ParseBool interprets a boolean value the way the MIT profile library does.
func ParseBool(s string) (bool, error) {
	l := strings.ToLower(strings.TrimSpace(s))
	for _, t := range truthy {
		if l == t {
			return true, nil
		}
	}
	for _, f := range falsy {
		if l == f {
			return false, nil
		}
	}
	return false, fmt.Errorf("not a boolean: %q", s)
}

// BoolSpellings is the spelling set the C16 design asserts: what gokrb5's parser claims
// (strconv.ParseBool's set plus yes/no/y/n in any letter case). MIT's on/off/nil and mixed-case
// true/false are valid MIT but not claimed by the parser, so they are not generated.
func BoolSpellings(v bool) []string {
	if v {
		return append([]string{"1", "t", "T", "true", "True", "TRUE"}, append(caseVariants("yes"), caseVariants("y")...)...)
	}
	return append([]string{"0", "f", "F", "false", "False", "FALSE"}, append(caseVariants("no"), caseVariants("n")...)...)
}

func caseVariants(w string) []string {
	out := []string{}
	for m := 0; m < 1<<uint(len(w)); m++ {
		b := []byte(w)
		for i := range b {
			if m&(1<<uint(i)) != 0 {
				b[i] = b[i] - 'a' + 'A'
			}
		}
		out = append(out, string(b))
	}
	return out
}

// BoolClass names the spelling family of a boolean literal (histogram / signature class).
func BoolClass(s string) string {
	switch strings.ToLower(s) {
	case "1", "0":
		return "bool:1/0"
	case "t", "f":
		return "bool:t/f"
	case "true", "false":
		return "bool:true/false"
	case "yes", "no":
		return "bool:yes/no"
	case "y", "n":
		return "bool:y/n"
	}
	return "bool:other"
}

// ---------------------------------------------------------------------------------------------
// Durations. MIT "Time duration" formats: h:m[:s] | NdNhNmNs (any non-empty subset, in this order,
// white space allowed before each number) | N (seconds). The value must not exceed 2147483647 s.

// MaxDuration is the documented upper limit of a time duration in seconds.
const MaxDuration = int64(2147483647)

// ParseDuration returns the number of seconds a duration literal denotes.
func ParseDuration(s string) (int64, error) {
	s = strings.TrimSpace(s)
	if s == "" {
		return 0, errors.New("empty duration")
	}
	toks, err := durTokens(s)
	if err != nil {
		return 0, err
	}
	// toks alternates number, separator, number, ...
	num := func(i int) int64 { return toks[i].n }
	kinds := ""
	for _, t := range toks {
		kinds += string(t.k)
	}
	var total int64
	switch {
	case kinds == "#": // N
		total = num(0)
	case kinds == "#:#": // h:m
		total = num(0)*3600 + num(2)*60
	case kinds == "#:#:#": // h:m:s
		total = num(0)*3600 + num(2)*60 + num(4)
	default:
		// NdNhNmNs subsets in order
		order := "dhms"
		mult := map[byte]int64{'d': 86400, 'h': 3600, 'm': 60, 's': 1}
		pos := 0
		if len(toks)%2 != 0 {
			return 0, fmt.Errorf("bad duration %q", s)
		}
		for i := 0; i < len(toks); i += 2 {
			if toks[i].k != '#' {
				return 0, fmt.Errorf("bad duration %q", s)
			}
			u := toks[i+1].k
			j := strings.IndexByte(order[pos:], u)
			if j < 0 {
				return 0, fmt.Errorf("bad duration %q", s)
			}
			pos += j + 1
			total += toks[i].n * mult[u]
		}
	}
	if total > MaxDuration {
		return 0, fmt.Errorf("duration %q exceeds the documented limit", s)
	}
	return total, nil
}

type durTok struct {
	k byte // '#' number, or one of d h m s :
	n int64
}

func durTokens(s string) ([]durTok, error) {
	var out []durTok
	for i := 0; i < len(s); {
		c := s[i]
		switch {
		case c == ' ' || c == '\t':
			i++
		case c >= '0' && c <= '9':
			j := i
			for j < len(s) && s[j] >= '0' && s[j] <= '9' {
				j++
			}
			n, err := strconv.ParseInt(s[i:j], 10, 64)
			if err != nil {
				return nil, err
			}
			out = append(out, durTok{'#', n})
			i = j
		case c == 'd' || c == 'h' || c == 'm' || c == 's' || c == ':':
			out = append(out, durTok{c, 0})
			i++
		default:
			return nil, fmt.Errorf("bad character %q in duration %q", c, s)
		}
	}
	if len(out) == 0 {
		return nil, errors.New("empty duration")
	}
	return out, nil
}

// Dur is a duration literal described by its components; the literal and its value are both
// derived from it (Text, Seconds), so a known value is what gets rendered.
type Dur struct {
	Form  string   `json:"form"`  // n | units | hm | hms
	Parts [4]int64 `json:"parts"` // d h m s (n: only s; hm: h m; hms: h m s)
	Use   int      `json:"use"`   // units: bit mask of the units present (8 d, 4 h, 2 m, 1 s)
	Space bool     `json:"space"` // units: a space before every number but the first
	Pad   bool     `json:"pad"`   // hm/hms: two-digit fields
}

// Seconds is the documented value of the literal.
func (d Dur) Seconds() int64 {
	switch d.Form {
	case "n":
		return d.Parts[3]
	case "hm":
		return d.Parts[1]*3600 + d.Parts[2]*60
	case "hms":
		return d.Parts[1]*3600 + d.Parts[2]*60 + d.Parts[3]
	}
	mult := [4]int64{86400, 3600, 60, 1}
	var t int64
	for i := 0; i < 4; i++ {
		if d.Use&(8>>uint(i)) != 0 {
			t += d.Parts[i] * mult[i]
		}
	}
	return t
}

// Text renders the literal.
func (d Dur) Text() string {
	f := "%d"
	if d.Pad {
		f = "%02d"
	}
	switch d.Form {
	case "n":
		return strconv.FormatInt(d.Parts[3], 10)
	case "hm":
		return fmt.Sprintf(f+":"+f, d.Parts[1], d.Parts[2])
	case "hms":
		return fmt.Sprintf(f+":"+f+":"+f, d.Parts[1], d.Parts[2], d.Parts[3])
	}
	units := "dhms"
	var b strings.Builder
	for i := 0; i < 4; i++ {
		if d.Use&(8>>uint(i)) == 0 {
			continue
		}
		if b.Len() > 0 && d.Space {
			b.WriteByte(' ')
		}
		b.WriteString(strconv.FormatInt(d.Parts[i], 10))
		b.WriteByte(units[i])
	}
	return b.String()
}

// Class is the histogram / signature class of the literal.
func (d Dur) Class() string {
	switch d.Form {
	case "n":
		return "dur:n"
	case "hm", "hms":
		if d.Parts[1] > 32767 {
			return "dur:h:m[:s]:hours>32767"
		}
		return "dur:" + d.Form
	}
	c := "dur:units:"
	for i, u := range "dhms" {
		if d.Use&(8>>uint(i)) != 0 {
			c += string(u)
		}
	}
	if d.Space {
		c += ":spaced"
	}
	return c
}

// ---------------------------------------------------------------------------------------------
// Lists. Enctype lists "may be delimited with commas or whitespace"; preferred_preauth_types is
// documented as "17, 16, 15, 14"; extra_addresses is a comma-separated list.

// SplitList splits on commas and white space, dropping empty items.
func SplitList(s string) []string {
	return strings.FieldsFunc(s, func(r rune) bool { return r == ',' || r == ' ' || r == '\t' })
}

// ParseIntList reads a comma/whitespace separated list of decimal integers.
func ParseIntList(s string) ([]int64, error) {
	var out []int64
	for _, f := range SplitList(s) {
		n, err := strconv.ParseInt(f, 10, 64)
		if err != nil {
			return nil, err
		}
		out = append(out, n)
	}
	if len(out) == 0 {
		return nil, errors.New("empty list")
	}
	return out, nil
}

// ParseInt reads a decimal integer.
func ParseInt(s string) (int64, error) { return strconv.ParseInt(strings.TrimSpace(s), 10, 64) }

// ParseHex32 reads the 0x-prefixed 32-bit value of kdc_default_options.
func ParseHex32(s string) (int64, error) {
	s = strings.TrimSpace(s)
	if !strings.HasPrefix(s, "0x") {
		return 0, fmt.Errorf("no 0x prefix: %q", s)
	}
	n, err := strconv.ParseUint(s[2:], 16, 32)
	return int64(n), err
}

// ---------------------------------------------------------------------------------------------
// Encryption types (MIT "Encryption types" table). Names are lower case in the documentation.

// EnctypeNames maps every documented enctype name to its assigned number.
var EnctypeNames = map[string]int32{
	"des-cbc-crc": 1, "des-cbc-md4": 2, "des-cbc-md5": 3, "des-cbc-raw": 4, "des3-cbc-raw": 6,
	"des3-cbc-sha1": 16, "des3-hmac-sha1": 16, "des3-cbc-sha1-kd": 16,
	"des-hmac-sha1":           8,
	"aes256-cts-hmac-sha1-96": 18, "aes256-cts": 18, "aes256-sha1": 18,
	"aes128-cts-hmac-sha1-96": 17, "aes128-cts": 17, "aes128-sha1": 17,
	"aes256-cts-hmac-sha384-192": 20, "aes256-sha2": 20,
	"aes128-cts-hmac-sha256-128": 19, "aes128-sha2": 19,
	"arcfour-hmac": 23, "rc4-hmac": 23, "arcfour-hmac-md5": 23,
	"arcfour-hmac-exp": 24, "rc4-hmac-exp": 24, "arcfour-hmac-md5-exp": 24,
	"camellia256-cts-cmac": 26, "camellia256-cts": 26,
	"camellia128-cts-cmac": 25, "camellia128-cts": 25,
}

// CanonicalEnctypeName is the first name the documentation lists for each number.
var CanonicalEnctypeName = map[int32]string{
	1: "des-cbc-crc", 2: "des-cbc-md4", 3: "des-cbc-md5", 4: "des-cbc-raw", 6: "des3-cbc-raw", 8: "des-hmac-sha1",
	16: "des3-cbc-sha1-kd", 17: "aes128-cts-hmac-sha1-96", 18: "aes256-cts-hmac-sha1-96",
	19: "aes128-cts-hmac-sha256-128", 20: "aes256-cts-hmac-sha384-192", 23: "arcfour-hmac-md5",
	24: "arcfour-hmac-exp", 25: "camellia128-cts-cmac", 26: "camellia256-cts-cmac",
}

// WeakEnctypes are the numbers the documentation marks "(weak)": dropped unless allow_weak_crypto.
var WeakEnctypes = map[int32]bool{1: true, 2: true, 3: true, 4: true, 6: true, 8: true, 24: true}

// Implemented are the enctypes gokrb5 implements (RFC 3961 des3, RFC 3962, RFC 8009, RFC 4757);
// the numeric id lists of a loaded configuration hold only these ("filtered as documented" in the
// library's own field comments: unsupported names resolve to nothing).
var Implemented = map[int32]bool{16: true, 17: true, 18: true, 19: true, 20: true, 23: true}

// EnctypeIDs is the documented meaning of an enctype name list restricted to implemented types:
// names in order, unknown names ignored, weak types dropped unless allowWeak.
func EnctypeIDs(names []string, allowWeak bool) []int32 {
	out := []int32{}
	for _, n := range names {
		id, ok := EnctypeNames[n]
		if !ok {
			continue
		}
		if WeakEnctypes[id] && !allowWeak {
			continue
		}
		if Implemented[id] {
			out = append(out, id)
		}
	}
	return out
}
