package krb5conf

import "testing"

func TestSelfTest(t *testing.T) {
	if err := SelfTest(nil); err != nil {
		t.Fatal(err)
	}
}
