package krb5conf

import (
	"fmt"
	"strings"
)

// Node is a relation (Tag = Value) or a subsection (Tag = { Sub }).
type Node struct {
	Tag   string
	Value string
	IsSub bool
	Sub   []*Node
}

// TreeSection is one [section] occurrence.
type TreeSection struct {
	Name  string
	Nodes []*Node
}

// Tree is a parsed profile.
type Tree struct{ Sections []*TreeSection }

// Dialect selects the two deviations from the MIT profile syntax that gokrb5 implements on purpose
// and the C16 design keeps: comments after a value, and "value*" as the final-value marker.
type Dialect struct {
	TrailingComments bool
}

// Parse reads the profile syntax of krb5.conf(5) "Structure":
//
//	[section]
//	tag = value
//	tag = {
//	    tag = value
//	}
//
// Lines whose first non-blank character is '#' or ';' are comments; blank lines are ignored. A
// relation needs "=" and a non-empty value, a "}" needs an open subsection, every subsection must be
// closed before the next section or the end of the file, and relations need a section.
func Parse(text string, d Dialect) (*Tree, error) {
	t := &Tree{}
	var cur *TreeSection
	var stack []*Node
	for ln, raw := range strings.Split(text, "\n") {
		line := strings.TrimRight(raw, "\r")
		trim := strings.TrimLeft(line, " \t")
		if trim == "" || trim[0] == '#' || trim[0] == ';' {
			continue
		}
		if d.TrailingComments {
			if i := strings.IndexAny(trim, "#;"); i >= 0 {
				trim = trim[:i]
			}
		}
		trim = strings.TrimRight(trim, " \t")
		if trim == "" {
			continue
		}
		errf := func(f string, a ...any) error {
			return fmt.Errorf("line %d (%q): %s", ln+1, raw, fmt.Sprintf(f, a...))
		}
		if trim[0] == '[' {
			if len(stack) > 0 {
				return nil, errf("section header inside an open subsection")
			}
			i := strings.Index(trim, "]")
			if i < 0 {
				return nil, errf("section header without ]")
			}
			rest := strings.TrimSpace(trim[i+1:])
			if rest != "" && rest != "*" {
				return nil, errf("text after section header")
			}
			cur = &TreeSection{Name: trim[1:i]}
			t.Sections = append(t.Sections, cur)
			continue
		}
		if trim[0] == '}' {
			rest := strings.TrimSpace(trim[1:])
			if rest != "" && rest != "*" {
				return nil, errf("text after }")
			}
			if len(stack) == 0 {
				return nil, errf("} without an open subsection")
			}
			stack = stack[:len(stack)-1]
			continue
		}
		if cur == nil {
			return nil, errf("relation outside a section")
		}
		i := strings.Index(trim, "=")
		if i < 0 {
			return nil, errf("relation without =")
		}
		tag := strings.TrimRight(trim[:i], " \t")
		tag = strings.TrimSuffix(tag, "*") // MIT's final marker on the tag
		val := strings.TrimSpace(trim[i+1:])
		if tag == "" || strings.ContainsAny(tag, " \t") {
			return nil, errf("bad tag")
		}
		if val == "" {
			return nil, errf("relation without a value")
		}
		n := &Node{Tag: tag, Value: val}
		if val == "{" {
			n.IsSub, n.Value = true, ""
		}
		if len(stack) > 0 {
			p := stack[len(stack)-1]
			p.Sub = append(p.Sub, n)
		} else {
			cur.Nodes = append(cur.Nodes, n)
		}
		if n.IsSub {
			stack = append(stack, n)
		}
	}
	if len(stack) > 0 {
		return nil, fmt.Errorf("end of file inside subsection %q", stack[len(stack)-1].Tag)
	}
	return t, nil
}

// nodes returns the relations of every occurrence of a section, in order.
func (t *Tree) nodes(section string) []*Node {
	var out []*Node
	for _, s := range t.Sections {
		if s.Name == section {
			out = append(out, s.Nodes...)
		}
	}
	return out
}

// FromText reads a file with the independent reader and interprets its values with the
// documented value syntaxes. It is the second, text-based route to the expected values; the
// check requires it to agree with FromModel before gokrb5 is judged.
func FromText(text string) (Expected, error) {
	e := Expected{Lib: map[string]Value{}, Domain: map[string]string{}}
	t, err := Parse(text, Dialect{TrailingComments: true})
	if err != nil {
		return e, err
	}
	for _, n := range t.nodes("libdefaults") {
		kind, known := LibKeys[n.Tag]
		if !known {
			continue
		}
		if n.IsSub {
			return e, fmt.Errorf("libdefaults %s is a subsection", n.Tag)
		}
		if _, dup := e.Lib[n.Tag]; dup {
			return e, fmt.Errorf("libdefaults key %s repeated", n.Tag)
		}
		v := Value{Kind: kind}
		switch kind {
		case "bool":
			v.B, err = ParseBool(n.Value)
		case "dur":
			v.N, err = ParseDuration(n.Value)
		case "int":
			v.N, err = ParseInt(n.Value)
		case "hex":
			v.N, err = ParseHex32(n.Value)
		case "str":
			v.S = n.Value
		case "etypes", "ips":
			v.L = SplitList(n.Value)
		case "ints":
			v.Ints, err = ParseIntList(n.Value)
		}
		if err != nil {
			return e, fmt.Errorf("libdefaults %s: %v", n.Tag, err)
		}
		e.Lib[n.Tag] = v
	}
	for _, n := range t.nodes("realms") {
		if !n.IsSub {
			return e, fmt.Errorf("realms: %s is not a subsection", n.Tag)
		}
		er := ExpRealm{Name: n.Tag}
		final := map[string]bool{}
		for _, c := range n.Sub {
			if c.IsSub {
				continue // nested block: contents are not the realm's relations
			}
			switch c.Tag {
			case "kdc", "admin_server", "kpasswd_server", "master_kdc":
				if final[c.Tag] {
					continue
				}
				s, fin, err := ParseServer(c.Value)
				if err != nil {
					return e, err
				}
				l := er.List(c.Tag)
				*l = append(*l, s)
				if fin {
					final[c.Tag] = true
				}
			case "default_domain":
				er.DefaultDomain = c.Value
			}
		}
		e.Realms = append(e.Realms, er)
	}
	for _, n := range t.nodes("domain_realm") {
		if n.IsSub {
			return e, fmt.Errorf("domain_realm: %s is a subsection", n.Tag)
		}
		if _, dup := e.Domain[n.Tag]; dup {
			return e, fmt.Errorf("domain %s repeated", n.Tag)
		}
		e.Domain[n.Tag] = n.Value
	}
	return e, nil
}
