package krb5conf

import (
	"fmt"
	"sort"
	"strconv"
	"strings"
)

// Model is a configuration: what the file says, independent of how it is laid out.
type Model struct {
	Order   []string   `json:"order"` // section names in file order: libdefaults | realms | domain_realm | the name of an Other section
	Lib     []LibEntry `json:"libdefaults,omitempty"`
	Realms  []Realm    `json:"realms,omitempty"`
	Domains []Mapping  `json:"domain_realm,omitempty"`
	// DomainSplit k (0 < k < len(Domains)) lays [domain_realm] out in two occurrences: the first k mappings where the
	// section stands in Order, the others in a second [domain_realm] section at the end of the file (a site part and
	// local additions). A repeated section continues the earlier one.
	DomainSplit int       `json:"domain_split,omitempty"`
	Other       []Section `json:"other,omitempty"`
}

// LibEntry is one relation of [libdefaults]. Text is the value exactly as written; the remaining
// fields hold the known value the text was rendered from.
type LibEntry struct {
	Key   string   `json:"key"`
	Kind  string   `json:"kind"` // bool dur int str etypes ints hex ips unknown
	Text  string   `json:"text"`
	B     bool     `json:"b,omitempty"`
	N     int64    `json:"n,omitempty"`    // dur: seconds; int: the integer; hex: the 32-bit value
	L     []string `json:"l,omitempty"`    // etypes: names; ips: addresses
	Ints  []int64  `json:"ints,omitempty"` // ints
	Class string   `json:"class,omitempty"`
}

// Realm is one subsection of [realms]; Items are its lines in file order.
type Realm struct {
	Name  string      `json:"name"`
	Items []RealmItem `json:"items,omitempty"`
}

// RealmItem is a server relation, default_domain, an unknown relation or a nested block.
type RealmItem struct {
	Kind  string `json:"kind"` // kdc admin_server kpasswd_server master_kdc default_domain unknown block
	Host  string `json:"host,omitempty"`
	Port  int    `json:"port,omitempty"`  // 0 = none written
	Final bool   `json:"final,omitempty"` // value written with the final marker: "host:port*"
	Key   string `json:"key,omitempty"`   // unknown / block: the tag
	Value string `json:"value,omitempty"` // default_domain / unknown
	Block []Line `json:"block,omitempty"`
}

// Line is a relation inside a nested block or an unknown section; IsBlock marks a sub-block.
type Line struct {
	Key     string `json:"key"`
	Value   string `json:"value,omitempty"`
	IsBlock bool   `json:"is_block,omitempty"`
	Sub     []Line `json:"sub,omitempty"`
}

// Mapping is one [domain_realm] relation.
type Mapping struct {
	Domain string `json:"domain"`
	Realm  string `json:"realm"`
}

// Section is a section the library does not interpret ([logging], [appdefaults], [capaths], ...).
type Section struct {
	Name  string `json:"name"`
	Lines []Line `json:"lines,omitempty"`
}

// ServerKinds are the multi-valued server relations of a realm.
var ServerKinds = []string{"kdc", "admin_server", "kpasswd_server", "master_kdc"}

// LibKeys is every [libdefaults] relation gokrb5's parser handles, with its value kind.
var LibKeys = map[string]string{
	"allow_weak_crypto": "bool", "canonicalize": "bool", "ccache_type": "int", "clockskew": "dur",
	"default_client_keytab_name": "str", "default_keytab_name": "str", "default_realm": "str",
	"default_tgs_enctypes": "etypes", "default_tkt_enctypes": "etypes", "dns_canonicalize_hostname": "bool",
	"dns_lookup_kdc": "bool", "dns_lookup_realm": "bool", "extra_addresses": "ips", "forwardable": "bool",
	"ignore_acceptor_hostname": "bool", "k5login_authoritative": "bool", "k5login_directory": "str",
	"kdc_default_options": "hex", "kdc_timesync": "int", "noaddresses": "bool", "permitted_enctypes": "etypes",
	"preferred_preauth_types": "ints", "proxiable": "bool", "rdns": "bool", "realm_try_domains": "int",
	"renew_lifetime": "dur", "safe_checksum_type": "int", "ticket_lifetime": "dur", "udp_preference_limit": "int",
	"verify_ap_req_nofail": "bool",
}

// SortedLibKeys returns LibKeys' keys in a fixed order.
func SortedLibKeys() []string {
	ks := make([]string, 0, len(LibKeys))
	for k := range LibKeys {
		ks = append(ks, k)
	}
	sort.Strings(ks)
	return ks
}

// ---------------------------------------------------------------------------------------------
// Expected values.

// Value is the documented meaning of one [libdefaults] relation.
type Value struct {
	Kind string
	B    bool
	N    int64
	S    string
	L    []string
	Ints []int64
}

// Server is one value of a server relation.
type Server struct {
	Host string // as written; an IPv6 literal keeps its square brackets
	Port int    // 0 = none written
}

// ExpRealm is the documented meaning of one realm subsection.
type ExpRealm struct {
	Name          string
	KDC           []Server
	Admin         []Server
	KPasswd       []Server
	Master        []Server
	DefaultDomain string
}

// Expected is the documented meaning of a whole file, as far as gokrb5 models it.
type Expected struct {
	Lib    map[string]Value
	Realms []ExpRealm
	Domain map[string]string
}

// List returns the server list of a kind.
func (r *ExpRealm) List(kind string) *[]Server {
	switch kind {
	case "kdc":
		return &r.KDC
	case "admin_server":
		return &r.Admin
	case "kpasswd_server":
		return &r.KPasswd
	}
	return &r.Master
}

// FromModel computes the expected values from the model's known values (no text involved).
func FromModel(m Model) (Expected, error) {
	e := Expected{Lib: map[string]Value{}, Domain: map[string]string{}}
	for _, le := range m.Lib {
		if le.Kind == "unknown" {
			continue
		}
		if _, dup := e.Lib[le.Key]; dup {
			return e, fmt.Errorf("model repeats libdefaults key %s (first/last-wins is not asserted)", le.Key)
		}
		v := Value{Kind: le.Kind}
		switch le.Kind {
		case "bool":
			v.B = le.B
		case "dur", "int", "hex":
			v.N = le.N
		case "str":
			v.S = le.Text
		case "etypes", "ips":
			v.L = append([]string{}, le.L...)
		case "ints":
			v.Ints = append([]int64{}, le.Ints...)
		default:
			return e, fmt.Errorf("bad libdefaults kind %q", le.Kind)
		}
		e.Lib[le.Key] = v
	}
	names := map[string]bool{}
	for _, r := range m.Realms {
		if names[r.Name] {
			return e, fmt.Errorf("model repeats realm %s", r.Name)
		}
		names[r.Name] = true
		er := ExpRealm{Name: r.Name}
		final := map[string]bool{}
		dd := false
		for _, it := range r.Items {
			switch it.Kind {
			case "kdc", "admin_server", "kpasswd_server", "master_kdc":
				if final[it.Kind] {
					continue // values after a final one are dropped
				}
				l := er.List(it.Kind)
				*l = append(*l, Server{Host: it.Host, Port: it.Port})
				if it.Final {
					final[it.Kind] = true
				}
			case "default_domain":
				if dd {
					return e, fmt.Errorf("model repeats default_domain")
				}
				dd = true
				er.DefaultDomain = it.Value
			case "unknown", "block":
				// not modelled by the library; contents of nested blocks are ignored
			default:
				return e, fmt.Errorf("bad realm item kind %q", it.Kind)
			}
		}
		e.Realms = append(e.Realms, er)
	}
	for _, d := range m.Domains {
		if _, dup := e.Domain[d.Domain]; dup {
			return e, fmt.Errorf("model repeats domain %s", d.Domain)
		}
		e.Domain[d.Domain] = d.Realm
	}
	return e, nil
}

// ServerText renders a server value as written in a file.
func ServerText(host string, port int, final bool) string {
	s := host
	if port > 0 {
		s += ":" + strconv.Itoa(port)
	}
	if final {
		s += "*"
	}
	return s
}

// ParseServer reads "host", "host:port", "[v6]" or "[v6]:port" with an optional final marker.
func ParseServer(v string) (s Server, final bool, err error) {
	if strings.HasSuffix(v, "*") {
		final = true
		v = strings.TrimSuffix(v, "*")
	}
	host, port := v, ""
	if strings.HasPrefix(v, "[") {
		i := strings.Index(v, "]")
		if i < 0 {
			return s, final, fmt.Errorf("bad address %q", v)
		}
		host, port = v[:i+1], v[i+1:]
		if port != "" && !strings.HasPrefix(port, ":") {
			return s, final, fmt.Errorf("bad address %q", v)
		}
		port = strings.TrimPrefix(port, ":")
	} else if i := strings.LastIndex(v, ":"); i >= 0 {
		host, port = v[:i], v[i+1:]
	}
	s.Host = host
	if port != "" {
		p, e := strconv.Atoi(port)
		if e != nil || p <= 0 || p > 65535 {
			return s, final, fmt.Errorf("bad port in %q", v)
		}
		s.Port = p
	}
	if host == "" {
		return s, final, fmt.Errorf("empty host in %q", v)
	}
	return s, final, nil
}

// Default ports: kdc 88, kpasswd 464, kadmind 749 (krb5.conf(5) [realms], kdc.conf(5)).
const (
	PortKDC     = 88
	PortKPasswd = 464
	PortAdmin   = 749
)

// Accept lists the renderings of a server value a loaded configuration may hold. A KDC without a
// port must carry the default port 88 (the statement's "port defaults"); for the other relations
// the library keeps the value as written, which is accepted alongside the documented default port.
func Accept(kind string, s Server) []string {
	if s.Port > 0 {
		return []string{s.Host + ":" + strconv.Itoa(s.Port)}
	}
	switch kind {
	case "kdc":
		return []string{s.Host + ":88"}
	case "admin_server":
		return []string{s.Host, s.Host + ":749"}
	case "kpasswd_server":
		return []string{s.Host, s.Host + ":464"}
	}
	return []string{s.Host, s.Host + ":88"}
}

// KPasswdDerived is the documented fallback when a realm has no kpasswd_server: port 464 on each
// admin_server host.
func KPasswdDerived(admin []Server) []string {
	out := []string{}
	for _, a := range admin {
		out = append(out, a.Host+":464")
	}
	return out
}

// ---------------------------------------------------------------------------------------------
// Host-to-realm resolution.

// ResolveDesign is the C16 oracle: the exact host name, else the mapping of the longest ".suffix",
// else "". A single trailing dot of the host is ignored.
func ResolveDesign(domain map[string]string, host string) string {
	host = strings.TrimSuffix(host, ".")
	if r, ok := domain[host]; ok {
		return r
	}
	for i := 0; i < len(host); i++ {
		if host[i] == '.' {
			if r, ok := domain[host[i:]]; ok {
				return r
			}
		}
	}
	return ""
}

// ResolveMIT is the MIT library's search (krb5.conf(5): "A host name relation implicitly provides
// the corresponding domain name relation, unless an explicit domain name relation is provided"):
// host, then for each shorter suffix first ".suffix" and then "suffix".
func ResolveMIT(domain map[string]string, host string) string {
	host = strings.TrimSuffix(host, ".")
	cp := host
	for cp != "" {
		if r, ok := domain[cp]; ok {
			return r
		}
		if cp[0] == '.' {
			cp = cp[1:]
		} else {
			i := strings.Index(cp, ".")
			if i < 0 {
				break
			}
			cp = cp[i:]
		}
	}
	return ""
}

// Matching counts the mappings that match host under the design oracle's notion (exact name or a
// ".suffix" of it): the non-triviality measure of a resolution case.
func Matching(domain map[string]string, host string) int {
	host = strings.TrimSuffix(host, ".")
	n := 0
	for d := range domain {
		if d == host || (strings.HasPrefix(d, ".") && strings.HasSuffix(host, d)) {
			n++
		}
	}
	return n
}
