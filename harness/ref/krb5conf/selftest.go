package krb5conf

import (
	"fmt"
	"reflect"
)

// MITSample is the sample krb5.conf of the MIT documentation (krb5.conf(5), "Sample krb5.conf file").
const MITSample = `[libdefaults]
    default_realm = ATHENA.MIT.EDU
    dns_lookup_kdc = true
    dns_lookup_realm = false

[realms]
    ATHENA.MIT.EDU = {
        kdc = kerberos.mit.edu
        kdc = kerberos-1.mit.edu
        kdc = kerberos-2.mit.edu
        admin_server = kerberos.mit.edu
        primary_kdc = kerberos.mit.edu
    }
    EXAMPLE.COM = {
        kdc = kerberos.example.com
        kdc = kerberos-1.example.com
        admin_server = kerberos.example.com
    }

[domain_realm]
    mit.edu = ATHENA.MIT.EDU

[capaths]
    ATHENA.MIT.EDU = {
           EXAMPLE.COM = .
    }
    EXAMPLE.COM = {
           ATHENA.MIT.EDU = .
    }
`

// RepoSample is the sample file of gokrb5's own configuration tests (config/krb5conf_test.go): it
// carries the dialect features the C16 design keeps (comments after values, "value*" final marker).
const RepoSample = `
[logging]
 default = FILE:/var/log/kerberos/krb5libs.log
 kdc = FILE:/var/log/kerberos/krb5kdc.log
 admin_server = FILE:/var/log/kerberos/kadmind.log

[libdefaults]
 default_realm = TEST.GOKRB5 ; comment to be ignored
 dns_lookup_realm = false

 dns_lookup_kdc = false
 #dns_lookup_kdc = true
 ;dns_lookup_kdc = true
#dns_lookup_kdc = true
;dns_lookup_kdc = true
 ticket_lifetime = 10h ;comment to be ignored
 forwardable = yes #comment to be ignored
 default_keytab_name = FILE:/etc/krb5.keytab

 default_client_keytab_name = FILE:/home/gokrb5/client.keytab
 default_tkt_enctypes = aes256-cts-hmac-sha1-96 aes128-cts-hmac-sha1-96 # comment to be ignored


[realms]
 TEST.GOKRB5 = {
  kdc = 10.80.88.88:88 #comment to be ignored
  kdc = assume.port.num ;comment to be ignored
  kdc = some.other.port:1234 # comment to be ignored

  kdc = 10.80.88.88*
  kdc = 10.1.2.3.4:88

  admin_server = 10.80.88.88:749 ; comment to be ignored
  default_domain = test.gokrb5
 }
 EXAMPLE.COM = {
        kdc = kerberos.example.com
        kdc = kerberos-1.example.com
        admin_server = kerberos.example.com
        auth_to_local = RULE:[1:$1@$0](.*@EXAMPLE.COM)s/.*//
 }
 lowercase.org = {
  kdc = kerberos.lowercase.org
  admin_server = kerberos.lowercase.org
 }


[domain_realm]
 .test.gokrb5 = TEST.GOKRB5 #comment to be ignored

 test.gokrb5 = TEST.GOKRB5 ;comment to be ignored

  .example.com = EXAMPLE.COM # comment to be ignored
 hostname1.example.com = EXAMPLE.COM ; comment to be ignored
 hostname2.example.com = TEST.GOKRB5
 .testlowercase.org = lowercase.org


[appdefaults]
 pam = {
   debug = false

   ticket_lifetime = 36000

   renew_lifetime = 36000
   forwardable = true
   krb4_convert = false
 }
`

func srv(h string, p int) Server { return Server{Host: h, Port: p} }

// SelfTest validates the value syntaxes, the reader and the renderer: documented examples, the MIT
// sample file, gokrb5's sample files (passed in by the caller from /repo/v8/test/testdata), and a
// render -> read round trip of a model that uses every construct under several layouts.
func SelfTest(repoSamples map[string]string) error {
	// value syntaxes: the documentation's own examples
	for _, c := range []struct {
		s string
		n int64
	}{{"36:00", 36 * 3600}, {"8h30s", 8*3600 + 30}, {"3600", 3600}, {"1d", 86400}, {"1d 2h 3m 4s", 93784},
		{"0", 0}, {"00:05:00", 300}, {"10h", 36000}, {"24h", 86400}, {"90m", 5400}, {"2147483647", 2147483647}} {
		n, err := ParseDuration(c.s)
		if err != nil || n != c.n {
			return fmt.Errorf("ParseDuration(%q) = %d, %v; documented value %d", c.s, n, err, c.n)
		}
	}
	for _, s := range []string{"", "abc", "1x", "1:2:3:4", "12:xx", "h", "1h2d", "1s1s", "2147483648", "1h:2"} {
		if n, err := ParseDuration(s); err == nil {
			return fmt.Errorf("ParseDuration(%q) accepted (%d)", s, n)
		}
	}
	for _, v := range []bool{true, false} {
		for _, s := range BoolSpellings(v) {
			b, err := ParseBool(s)
			if err != nil || b != v {
				return fmt.Errorf("ParseBool(%q) = %v, %v", s, b, err)
			}
		}
	}
	if len(BoolSpellings(true)) != 6+8+2 || len(BoolSpellings(false)) != 6+4+2 {
		return fmt.Errorf("boolean spelling table has the wrong size")
	}
	for _, s := range []string{"maybe", "2", "tru", "", "yess"} {
		if _, err := ParseBool(s); err == nil {
			return fmt.Errorf("ParseBool(%q) accepted", s)
		}
	}
	if ids := EnctypeIDs(SplitList("aes256-cts, rc4-hmac des-cbc-crc,camellia128-cts  des3-hmac-sha1 nonsense aes128-sha2"), false); !reflect.DeepEqual(ids, []int32{18, 23, 16, 19}) {
		return fmt.Errorf("EnctypeIDs = %v", ids)
	}
	for id, n := range CanonicalEnctypeName {
		if EnctypeNames[n] != id {
			return fmt.Errorf("enctype table inconsistent for %d", id)
		}
	}
	d := Dur{Form: "units", Parts: [4]int64{1, 2, 3, 4}, Use: 0xD, Space: true}
	if d.Text() != "1d 2h 4s" || d.Seconds() != 86400+7200+4 {
		return fmt.Errorf("Dur render: %q %d", d.Text(), d.Seconds())
	}
	for _, c := range []struct {
		s    string
		want Server
		fin  bool
	}{{"h.example.com", srv("h.example.com", 0), false}, {"10.0.0.1:750*", srv("10.0.0.1", 750), true},
		{"[2001:db8::1]", srv("[2001:db8::1]", 0), false}, {"[::1]:88*", srv("[::1]", 88), true}} {
		s, fin, err := ParseServer(c.s)
		if err != nil || s != c.want || fin != c.fin {
			return fmt.Errorf("ParseServer(%q) = %v %v %v", c.s, s, fin, err)
		}
	}

	// the MIT sample under the strict MIT syntax (no dialect)
	if _, err := Parse(MITSample, Dialect{}); err != nil {
		return fmt.Errorf("MIT sample rejected by the reader: %v", err)
	}
	e, err := FromText(MITSample)
	if err != nil {
		return fmt.Errorf("MIT sample: %v", err)
	}
	if e.Lib["default_realm"].S != "ATHENA.MIT.EDU" || !e.Lib["dns_lookup_kdc"].B || e.Lib["dns_lookup_realm"].B ||
		len(e.Realms) != 2 || e.Realms[0].Name != "ATHENA.MIT.EDU" ||
		!reflect.DeepEqual(e.Realms[0].KDC, []Server{srv("kerberos.mit.edu", 0), srv("kerberos-1.mit.edu", 0), srv("kerberos-2.mit.edu", 0)}) ||
		!reflect.DeepEqual(e.Realms[1].Admin, []Server{srv("kerberos.example.com", 0)}) ||
		!reflect.DeepEqual(e.Domain, map[string]string{"mit.edu": "ATHENA.MIT.EDU"}) {
		return fmt.Errorf("MIT sample read wrongly: %+v", e)
	}
	if ResolveMIT(e.Domain, "www.mit.edu") != "ATHENA.MIT.EDU" || ResolveDesign(e.Domain, "www.mit.edu") != "" || ResolveDesign(e.Domain, "mit.edu.") != "ATHENA.MIT.EDU" {
		return fmt.Errorf("resolution oracles wrong on the MIT sample")
	}

	// gokrb5's own sample
	e, err = FromText(RepoSample)
	if err != nil {
		return fmt.Errorf("repo sample: %v", err)
	}
	wantKDC := []Server{srv("10.80.88.88", 88), srv("assume.port.num", 0), srv("some.other.port", 1234), srv("10.80.88.88", 0)}
	if e.Lib["default_realm"].S != "TEST.GOKRB5" || e.Lib["ticket_lifetime"].N != 36000 || !e.Lib["forwardable"].B ||
		!reflect.DeepEqual(e.Lib["default_tkt_enctypes"].L, []string{"aes256-cts-hmac-sha1-96", "aes128-cts-hmac-sha1-96"}) ||
		len(e.Realms) != 3 || !reflect.DeepEqual(e.Realms[0].KDC, wantKDC) || e.Realms[0].DefaultDomain != "test.gokrb5" ||
		e.Realms[2].Name != "lowercase.org" || len(e.Domain) != 6 || e.Domain[".testlowercase.org"] != "lowercase.org" {
		return fmt.Errorf("repo sample read wrongly: %+v", e)
	}
	if _, known := e.Lib["default"]; known {
		return fmt.Errorf("[logging] leaked into libdefaults")
	}

	// the samples shipped in /repo/v8/test/testdata
	for name, text := range repoSamples {
		e, err := FromText(text)
		if err != nil {
			return fmt.Errorf("testdata %s: %v", name, err)
		}
		if e.Lib["ticket_lifetime"].N != 86400 || !e.Lib["forwardable"].B || e.Lib["noaddresses"].B || e.Lib["dns_lookup_kdc"].B ||
			len(e.Realms) != 2 || len(e.Domain) != 4 || len(e.Realms[0].KDC) < 1 || e.Realms[0].KDC[0].Port != 88 {
			return fmt.Errorf("testdata %s read wrongly: %+v", name, e)
		}
		switch name {
		case "KRB5_CONF":
			if e.Lib["default_realm"].S != "TEST.GOKRB5" || !reflect.DeepEqual(e.Realms[1].KDC, []Server{srv("10.80.88.88", 188)}) ||
				ResolveDesign(e.Domain, "host.resdom.gokrb5") != "RESDOM.GOKRB5" {
				return fmt.Errorf("testdata %s read wrongly: %+v", name, e)
			}
		case "KRB5_CONF_AD":
			if e.Lib["default_realm"].S != "USER.GOKRB5" || !reflect.DeepEqual(e.Realms[0].Admin, []Server{srv("192.168.88.100", 464)}) {
				return fmt.Errorf("testdata %s read wrongly: %+v", name, e)
			}
		}
	}

	// structural errors the reader must see
	for _, bad := range []string{"[libdefaults]\n forwardable true\n", "[realms]\n }\n", "[realms]\n A = {\n kdc = x\n", "kdc = x\n",
		"[realms]\n A = {\n b = {\n }\n", "[libdefaults]\n x =\n"} {
		if _, err := Parse(bad, Dialect{}); err == nil {
			return fmt.Errorf("reader accepted the invalid file %q", bad)
		}
	}

	// render -> read round trip
	m := Model{
		Order: []string{"logging", "libdefaults", "realms", "appdefaults", "domain_realm"},
		Lib: []LibEntry{{Key: "forwardable", Kind: "bool", Text: "yEs", B: true}, {Key: "ticket_lifetime", Kind: "dur", Text: "1d 2h", N: 93600},
			{Key: "permitted_enctypes", Kind: "etypes", Text: "aes256-cts, rc4-hmac", L: []string{"aes256-cts", "rc4-hmac"}},
			{Key: "preferred_preauth_types", Kind: "ints", Text: "17, 16", Ints: []int64{17, 16}}, {Key: "spake_preauth_groups", Kind: "unknown", Text: "edwards25519"},
			{Key: "kdc_default_options", Kind: "hex", Text: "0x00000010", N: 16}, {Key: "default_realm", Kind: "str", Text: "A.B"}},
		Realms: []Realm{{Name: "A.B", Items: []RealmItem{{Kind: "kdc", Host: "k1"}, {Kind: "block", Key: "auth_to_local_names", Block: []Line{{Key: "kdc", Value: "nobody"},
			{Key: "inner", IsBlock: true, Sub: []Line{{Key: "admin_server", Value: "x"}}}}}, {Kind: "kdc", Host: "k2", Port: 750, Final: true}, {Kind: "kdc", Host: "k3"},
			{Kind: "admin_server", Host: "[::1]", Port: 749}, {Kind: "default_domain", Value: "a.b"}, {Kind: "unknown", Key: "auth_to_local", Value: "DEFAULT"}}}, {Name: "C"}},
		Domains: []Mapping{{".a.b", "A.B"}, {"h.c", "C"}},
		Other: []Section{{Name: "logging", Lines: []Line{{Key: "kdc", Value: "FILE:/var/log/kdc.log"}}},
			{Name: "appdefaults", Lines: []Line{{Key: "pam", IsBlock: true, Sub: []Line{{Key: "forwardable", Value: "false"}}}}}},
	}
	want, err := FromModel(m)
	if err != nil {
		return fmt.Errorf("round-trip model: %v", err)
	}
	if !reflect.DeepEqual(want.Realms[0].KDC, []Server{srv("k1", 0), srv("k2", 750)}) {
		return fmt.Errorf("final marker not honoured by FromModel: %+v", want.Realms[0].KDC)
	}
	for _, layout := range [][]int{nil, {1}, {5, 9, 2, 11, 7, 3, 13, 8, 6, 10, 4, 12}, {255, 254, 253, 17, 19, 23, 29, 31, 37, 41, 43}, {11, 11, 11, 13, 12, 7}} {
		text, _, err := Render(m, layout, nil)
		if err != nil {
			return fmt.Errorf("render: %v", err)
		}
		got, err := FromText(text)
		if err != nil || !reflect.DeepEqual(got, want) {
			return fmt.Errorf("render/read round trip failed (layout %v): %v\n%s\ngot  %+v\nwant %+v", layout, err, text, got, want)
		}
	}
	if _, _, err := Render(m, nil, &Inject{Op: "drop-close", Realm: 0}); err != nil {
		return fmt.Errorf("inject: %v", err)
	}
	text, _, _ := Render(m, []int{3, 1, 4, 1, 5}, &Inject{Op: "drop-close", Realm: 0, Nested: true})
	if _, err := Parse(text, Dialect{TrailingComments: true}); err == nil {
		return fmt.Errorf("reader accepted a file with a dropped nested closing brace")
	}
	text, _, _ = Render(m, nil, &Inject{Op: "insert", Section: "libdefaults", Realm: -1, At: 2, Line: "forwardable"})
	if _, err := Parse(text, Dialect{TrailingComments: true}); err == nil {
		return fmt.Errorf("reader accepted an injected line without =")
	}
	return nil
}
