// Package der is a strict DER reader/writer and a small schema language in which the RFC 4120,
// RFC 4178 and RFC 4121 types are written down (schema.go). It uses no encoding/asn1 and shares
// nothing with gokrb5; it is the independent encoder of the minting toolkit and simulated KDC and
// the independent decoder that judges what gokrb5 emits.
package der

import (
	"errors"
	"fmt"
	"time"
)

// Classes.
const (
	Universal   = 0
	Application = 1
	Context     = 2
	Private     = 3
)

// Universal tags used by Kerberos / SPNEGO.
const (
	TagBoolean         = 1
	TagInteger         = 2
	TagBitString       = 3
	TagOctetString     = 4
	TagNull            = 5
	TagOID             = 6
	TagEnumerated      = 10
	TagUTF8String      = 12
	TagSequence        = 16
	TagIA5String       = 22
	TagGeneralizedTime = 24
	TagGeneralString   = 27
)

// LenBytes encodes a definite length minimally.
func LenBytes(n int) []byte {
	if n < 0x80 {
		return []byte{byte(n)}
	}
	var b []byte
	for v := n; v > 0; v >>= 8 {
		b = append([]byte{byte(v)}, b...)
	}
	return append([]byte{0x80 | byte(len(b))}, b...)
}

// TLV builds an encoding with the given identifier and content.
func TLV(class, tag int, constructed bool, content []byte) []byte {
	id := byte(class << 6)
	if constructed {
		id |= 0x20
	}
	var out []byte
	if tag < 31 {
		out = []byte{id | byte(tag)}
	} else {
		out = []byte{id | 0x1f}
		var tb []byte
		for v := tag; ; v >>= 7 {
			x := byte(v & 0x7f)
			if len(tb) > 0 {
				x |= 0x80
			}
			tb = append([]byte{x}, tb...)
			if v < 0x80 {
				break
			}
		}
		out = append(out, tb...)
	}
	out = append(out, LenBytes(len(content))...)
	return append(out, content...)
}

func cat(items ...[]byte) []byte {
	var out []byte
	for _, i := range items {
		out = append(out, i...)
	}
	return out
}

// Seq is a universal SEQUENCE of the given encodings.
func Seq(items ...[]byte) []byte { return TLV(Universal, TagSequence, true, cat(items...)) }

// Ctx wraps inner in an EXPLICIT context tag.
func Ctx(n int, inner []byte) []byte { return TLV(Context, n, true, inner) }

// App wraps inner in an EXPLICIT application tag.
func App(n int, inner []byte) []byte { return TLV(Application, n, true, inner) }

// IntContent is the minimal two's-complement content of an INTEGER.
func IntContent(v int64) []byte {
	n := 1
	for x := v; x > 127 || x < -128; x >>= 8 {
		n++
	}
	b := make([]byte, n)
	for i := n - 1; i >= 0; i-- {
		b[i] = byte(v)
		v >>= 8
	}
	return b
}

// Int encodes an INTEGER.
func Int(v int64) []byte { return TLV(Universal, TagInteger, false, IntContent(v)) }

// Enum encodes an ENUMERATED.
func Enum(v int64) []byte { return TLV(Universal, TagEnumerated, false, IntContent(v)) }

// Octets encodes an OCTET STRING.
func Octets(b []byte) []byte { return TLV(Universal, TagOctetString, false, b) }

// GenStr encodes a GeneralString (KerberosString).
func GenStr(s string) []byte { return TLV(Universal, TagGeneralString, false, []byte(s)) }

// Time encodes a KerberosTime (GeneralizedTime, UTC, no fractional seconds).
func Time(t time.Time) []byte {
	return TLV(Universal, TagGeneralizedTime, false, []byte(t.UTC().Format("20060102150405Z")))
}

// BitStr encodes a BIT STRING.
func BitStr(b []byte, unused int) []byte {
	return TLV(Universal, TagBitString, false, append([]byte{byte(unused)}, b...))
}

// Bool encodes a BOOLEAN.
func Bool(v bool) []byte {
	if v {
		return TLV(Universal, TagBoolean, false, []byte{0xff})
	}
	return TLV(Universal, TagBoolean, false, []byte{0})
}

// OID encodes an OBJECT IDENTIFIER.
func OID(arcs []int) []byte {
	if len(arcs) < 2 {
		return TLV(Universal, TagOID, false, nil)
	}
	var c []byte
	put := func(v int) {
		var tb []byte
		for {
			x := byte(v & 0x7f)
			if len(tb) > 0 {
				x |= 0x80
			}
			tb = append([]byte{x}, tb...)
			v >>= 7
			if v == 0 {
				break
			}
		}
		c = append(c, tb...)
	}
	put(arcs[0]*40 + arcs[1])
	for _, a := range arcs[2:] {
		put(a)
	}
	return TLV(Universal, TagOID, false, c)
}

// Node is one decoded TLV.
type Node struct {
	Class       int
	Tag         int
	Constructed bool
	Content     []byte
	Raw         []byte
	Children    []*Node // parsed lazily for constructed nodes
}

// ErrDER is wrapped by all strictness failures.
var ErrDER = errors.New("der")

func derr(format string, a ...any) error {
	return fmt.Errorf("%w: %s", ErrDER, fmt.Sprintf(format, a...))
}

// ParseOne reads one TLV strictly (definite, minimal length; low-tag-number form when tag < 31).
func ParseOne(b []byte) (*Node, []byte, error) {
	if len(b) < 2 {
		return nil, nil, derr("truncated header")
	}
	n := &Node{Class: int(b[0] >> 6), Constructed: b[0]&0x20 != 0, Tag: int(b[0] & 0x1f)}
	i := 1
	if n.Tag == 0x1f {
		n.Tag = 0
		for {
			if i >= len(b) {
				return nil, nil, derr("truncated high tag")
			}
			if n.Tag == 0 && b[i] == 0x80 {
				return nil, nil, derr("non-minimal high tag")
			}
			n.Tag = n.Tag<<7 | int(b[i]&0x7f)
			i++
			if b[i-1]&0x80 == 0 {
				break
			}
			if n.Tag > 1<<24 {
				return nil, nil, derr("tag too large")
			}
		}
		if n.Tag < 31 {
			return nil, nil, derr("high-tag form used for tag %d", n.Tag)
		}
	}
	if i >= len(b) {
		return nil, nil, derr("truncated length")
	}
	l := int(b[i])
	i++
	if l == 0x80 {
		return nil, nil, derr("indefinite length")
	}
	if l > 0x80 {
		k := l & 0x7f
		if k > 4 || i+k > len(b) {
			return nil, nil, derr("bad length-of-length %d", k)
		}
		l = 0
		for j := 0; j < k; j++ {
			l = l<<8 | int(b[i+j])
		}
		if b[i] == 0 || l < 0x80 {
			return nil, nil, derr("non-minimal length encoding")
		}
		i += k
	}
	if l < 0 || i+l > len(b) {
		return nil, nil, derr("length %d exceeds input (%d left)", l, len(b)-i)
	}
	n.Content = b[i : i+l]
	n.Raw = b[:i+l]
	return n, b[i+l:], nil
}

// Parse reads exactly one TLV with no trailing bytes.
func Parse(b []byte) (*Node, error) {
	n, rest, err := ParseOne(b)
	if err != nil {
		return nil, err
	}
	if len(rest) != 0 {
		return nil, derr("%d trailing bytes", len(rest))
	}
	return n, nil
}

// Kids parses the content of a constructed node into children.
func (n *Node) Kids() ([]*Node, error) {
	if !n.Constructed {
		return nil, derr("primitive node has no children")
	}
	if n.Children != nil {
		return n.Children, nil
	}
	kids := []*Node{}
	rest := n.Content
	for len(rest) > 0 {
		k, r, err := ParseOne(rest)
		if err != nil {
			return nil, err
		}
		kids = append(kids, k)
		rest = r
	}
	n.Children = kids
	return kids, nil
}

// Is reports the identifier.
func (n *Node) Is(class, tag int, constructed bool) bool {
	return n.Class == class && n.Tag == tag && n.Constructed == constructed
}

// Explicit returns the single child of an explicitly tagged node.
func (n *Node) Explicit() (*Node, error) {
	k, err := n.Kids()
	if err != nil {
		return nil, err
	}
	if len(k) != 1 {
		return nil, derr("explicit tag wraps %d elements", len(k))
	}
	return k[0], nil
}

// AsInt decodes a strict INTEGER (or ENUMERATED when enum is set).
func (n *Node) AsInt(enum bool) (int64, error) {
	want := TagInteger
	if enum {
		want = TagEnumerated
	}
	if !n.Is(Universal, want, false) {
		return 0, derr("expected INTEGER, got class %d tag %d", n.Class, n.Tag)
	}
	c := n.Content
	if len(c) == 0 || len(c) > 8 {
		return 0, derr("integer of %d bytes", len(c))
	}
	if len(c) > 1 && ((c[0] == 0 && c[1]&0x80 == 0) || (c[0] == 0xff && c[1]&0x80 != 0)) {
		return 0, derr("non-minimal integer")
	}
	v := int64(int8(c[0]))
	for _, x := range c[1:] {
		v = v<<8 | int64(x)
	}
	return v, nil
}

// AsOctets decodes a primitive OCTET STRING.
func (n *Node) AsOctets() ([]byte, error) {
	if !n.Is(Universal, TagOctetString, false) {
		return nil, derr("expected OCTET STRING, got class %d tag %d constructed %v", n.Class, n.Tag, n.Constructed)
	}
	return n.Content, nil
}

// AsGenStr decodes a GeneralString.
func (n *Node) AsGenStr() (string, error) {
	if !n.Is(Universal, TagGeneralString, false) {
		return "", derr("expected GeneralString, got class %d tag %d", n.Class, n.Tag)
	}
	return string(n.Content), nil
}

// AsTime decodes a KerberosTime.
func (n *Node) AsTime() (time.Time, error) {
	if !n.Is(Universal, TagGeneralizedTime, false) {
		return time.Time{}, derr("expected GeneralizedTime, got class %d tag %d", n.Class, n.Tag)
	}
	if len(n.Content) != 15 {
		return time.Time{}, derr("KerberosTime must be YYYYMMDDHHMMSSZ, got %q", n.Content)
	}
	t, err := time.Parse("20060102150405Z", string(n.Content))
	if err != nil {
		return time.Time{}, derr("bad KerberosTime %q", n.Content)
	}
	return t.UTC(), nil
}

// AsBits decodes a BIT STRING.
func (n *Node) AsBits() ([]byte, int, error) {
	if !n.Is(Universal, TagBitString, false) {
		return nil, 0, derr("expected BIT STRING, got class %d tag %d", n.Class, n.Tag)
	}
	if len(n.Content) < 1 || n.Content[0] > 7 || (len(n.Content) == 1 && n.Content[0] != 0) {
		return nil, 0, derr("bad BIT STRING header")
	}
	u := int(n.Content[0])
	b := n.Content[1:]
	if u > 0 && b[len(b)-1]&(1<<uint(u)-1) != 0 {
		return nil, 0, derr("unused bits not zero")
	}
	return b, u, nil
}

// AsBool decodes a BOOLEAN.
func (n *Node) AsBool() (bool, error) {
	if !n.Is(Universal, TagBoolean, false) || len(n.Content) != 1 {
		return false, derr("expected BOOLEAN")
	}
	switch n.Content[0] {
	case 0:
		return false, nil
	case 0xff:
		return true, nil
	}
	return false, derr("BOOLEAN not 00/FF")
}

// AsOID decodes an OBJECT IDENTIFIER.
func (n *Node) AsOID() ([]int, error) {
	if !n.Is(Universal, TagOID, false) || len(n.Content) == 0 {
		return nil, derr("expected OBJECT IDENTIFIER")
	}
	var arcs []int
	v := 0
	start := true
	for _, x := range n.Content {
		if start && x == 0x80 {
			return nil, derr("non-minimal OID arc")
		}
		start = false
		v = v<<7 | int(x&0x7f)
		if x&0x80 == 0 {
			if len(arcs) == 0 {
				f := v / 40
				if f > 2 {
					f = 2
				}
				arcs = append(arcs, f, v-40*f)
			} else {
				arcs = append(arcs, v)
			}
			v = 0
			start = true
		}
	}
	if !start {
		return nil, derr("truncated OID arc")
	}
	return arcs, nil
}
