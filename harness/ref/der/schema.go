package der

import (
	"bytes"
	"fmt"
	"reflect"
	"sort"
	"time"
)

// Kind of a schema type.
type Kind int

const (
	KInt Kind = iota
	KOctets
	KStr   // GeneralString
	KTime  // GeneralizedTime, whole seconds UTC
	KFlags // BIT STRING used as KerberosFlags: value []byte, no unused bits, at least 32 bits
	KBits  // general BIT STRING: value Bits
	KSeq
	KSeqOf
	KOID
	KBool
	KEnum
)

// Bits is the value of a general BIT STRING.
type Bits struct {
	B      []byte
	Unused int
}

// M is the value of a SEQUENCE: field name -> value; absent optional fields are absent keys.
type M = map[string]any

// Type is a schema node.
type Type struct {
	Name   string
	Kind   Kind
	App    int // application tag wrapping the type, -1 for none
	Fields []Field
	Elem   *Type
	Min    int64 // KInt: generation/validation range
	Max    int64
	Fixed  *int64 // KInt: value the RFC fixes (pvno, msg-type)
}

// Field of a SEQUENCE; every Kerberos/SPNEGO field carries an explicit context tag.
type Field struct {
	Name     string
	Tag      int
	Optional bool
	Type     *Type
}

func prim(name string, k Kind) *Type { return &Type{Name: name, Kind: k, App: -1} }

// Encode renders v under the schema.
func (t *Type) Encode(v any) ([]byte, error) {
	b, err := t.encodeBare(v)
	if err != nil {
		return nil, fmt.Errorf("%s: %w", t.Name, err)
	}
	if t.App >= 0 {
		b = App(t.App, b)
	}
	return b, nil
}

// MustEncode panics on schema misuse (harness bug).
func (t *Type) MustEncode(v any) []byte {
	b, err := t.Encode(v)
	if err != nil {
		panic("der: " + err.Error())
	}
	return b
}

func toInt(v any) (int64, bool) {
	switch x := v.(type) {
	case int:
		return int64(x), true
	case int32:
		return int64(x), true
	case int64:
		return x, true
	case uint32:
		return int64(x), true
	case uint64:
		return int64(x), true
	case float64: // JSON round trip
		return int64(x), true
	}
	return 0, false
}

func (t *Type) encodeBare(v any) ([]byte, error) {
	switch t.Kind {
	case KInt, KEnum:
		i, ok := toInt(v)
		if !ok {
			return nil, fmt.Errorf("want integer, have %T", v)
		}
		if t.Kind == KEnum {
			return Enum(i), nil
		}
		return Int(i), nil
	case KOctets:
		b, ok := v.([]byte)
		if !ok {
			return nil, fmt.Errorf("want []byte, have %T", v)
		}
		return Octets(b), nil
	case KStr:
		s, ok := v.(string)
		if !ok {
			return nil, fmt.Errorf("want string, have %T", v)
		}
		return GenStr(s), nil
	case KTime:
		tm, ok := v.(time.Time)
		if !ok {
			return nil, fmt.Errorf("want time, have %T", v)
		}
		return Time(tm), nil
	case KFlags:
		b, ok := v.([]byte)
		if !ok {
			return nil, fmt.Errorf("want []byte flags, have %T", v)
		}
		return BitStr(b, 0), nil
	case KBits:
		b, ok := v.(Bits)
		if !ok {
			return nil, fmt.Errorf("want Bits, have %T", v)
		}
		return BitStr(b.B, b.Unused), nil
	case KOID:
		a, ok := v.([]int)
		if !ok {
			return nil, fmt.Errorf("want []int, have %T", v)
		}
		return OID(a), nil
	case KBool:
		b, ok := v.(bool)
		if !ok {
			return nil, fmt.Errorf("want bool, have %T", v)
		}
		return Bool(b), nil
	case KSeqOf:
		l, ok := v.([]any)
		if !ok {
			return nil, fmt.Errorf("want []any, have %T", v)
		}
		var parts [][]byte
		for i, e := range l {
			b, err := t.Elem.Encode(e)
			if err != nil {
				return nil, fmt.Errorf("[%d]: %w", i, err)
			}
			parts = append(parts, b)
		}
		return Seq(parts...), nil
	case KSeq:
		m, ok := v.(M)
		if !ok {
			return nil, fmt.Errorf("want M, have %T", v)
		}
		for k := range m {
			found := false
			for _, f := range t.Fields {
				if f.Name == k {
					found = true
				}
			}
			if !found {
				return nil, fmt.Errorf("unknown field %q", k)
			}
		}
		var parts [][]byte
		for _, f := range t.Fields {
			fv, present := m[f.Name]
			if !present {
				if !f.Optional {
					return nil, fmt.Errorf("missing mandatory field %q", f.Name)
				}
				continue
			}
			if raw, isRaw := fv.(Raw); isRaw {
				parts = append(parts, Ctx(f.Tag, raw))
				continue
			}
			b, err := f.Type.Encode(fv)
			if err != nil {
				return nil, fmt.Errorf("%s: %w", f.Name, err)
			}
			parts = append(parts, Ctx(f.Tag, b))
		}
		return Seq(parts...), nil
	}
	return nil, fmt.Errorf("bad kind")
}

// Raw is a pre-encoded element placed verbatim in a field (used to inject malformed content).
type Raw []byte

// Decode reads b strictly under the schema (no trailing bytes).
func (t *Type) Decode(b []byte) (any, error) {
	n, err := Parse(b)
	if err != nil {
		return nil, fmt.Errorf("%s: %w", t.Name, err)
	}
	v, err := t.decodeNode(n)
	if err != nil {
		return nil, fmt.Errorf("%s: %w", t.Name, err)
	}
	return v, nil
}

// DecodeM is Decode for SEQUENCE types.
func (t *Type) DecodeM(b []byte) (M, error) {
	v, err := t.Decode(b)
	if err != nil {
		return nil, err
	}
	m, ok := v.(M)
	if !ok {
		return nil, fmt.Errorf("%s: not a SEQUENCE", t.Name)
	}
	return m, nil
}

func (t *Type) decodeNode(n *Node) (any, error) {
	if t.App >= 0 {
		if !n.Is(Application, t.App, true) {
			return nil, derr("expected [APPLICATION %d], got class %d tag %d", t.App, n.Class, n.Tag)
		}
		inner, err := n.Explicit()
		if err != nil {
			return nil, err
		}
		n = inner
	}
	switch t.Kind {
	case KInt:
		v, err := n.AsInt(false)
		if err != nil {
			return nil, err
		}
		if t.Max != 0 || t.Min != 0 {
			if v < t.Min || v > t.Max {
				return nil, derr("integer %d outside %d..%d", v, t.Min, t.Max)
			}
		}
		if t.Fixed != nil && v != *t.Fixed {
			return nil, derr("integer %d, RFC fixes %d", v, *t.Fixed)
		}
		return v, nil
	case KEnum:
		return n.AsInt(true)
	case KOctets:
		b, err := n.AsOctets()
		return append([]byte{}, b...), err
	case KStr:
		return n.AsGenStr()
	case KTime:
		return n.AsTime()
	case KFlags:
		b, u, err := n.AsBits()
		if err != nil {
			return nil, err
		}
		if u != 0 || len(b) < 4 {
			return nil, derr("KerberosFlags must be at least 32 bits with no unused bits (have %d bytes, %d unused)", len(b), u)
		}
		return append([]byte{}, b...), nil
	case KBits:
		b, u, err := n.AsBits()
		return Bits{append([]byte{}, b...), u}, err
	case KOID:
		return n.AsOID()
	case KBool:
		return n.AsBool()
	case KSeqOf:
		if !n.Is(Universal, TagSequence, true) {
			return nil, derr("expected SEQUENCE OF, got class %d tag %d", n.Class, n.Tag)
		}
		kids, err := n.Kids()
		if err != nil {
			return nil, err
		}
		out := []any{}
		for i, k := range kids {
			v, err := t.Elem.decodeNode(k)
			if err != nil {
				return nil, fmt.Errorf("[%d] %s: %w", i, t.Elem.Name, err)
			}
			out = append(out, v)
		}
		return out, nil
	case KSeq:
		if !n.Is(Universal, TagSequence, true) {
			return nil, derr("expected SEQUENCE, got class %d tag %d", n.Class, n.Tag)
		}
		kids, err := n.Kids()
		if err != nil {
			return nil, err
		}
		out := M{}
		fi := 0
		for _, k := range kids {
			if k.Class != Context || !k.Constructed {
				return nil, derr("field is not an explicit context tag (class %d tag %d)", k.Class, k.Tag)
			}
			for fi < len(t.Fields) && t.Fields[fi].Tag != k.Tag {
				if !t.Fields[fi].Optional {
					return nil, derr("mandatory field %s [%d] missing (found [%d])", t.Fields[fi].Name, t.Fields[fi].Tag, k.Tag)
				}
				fi++
			}
			if fi >= len(t.Fields) {
				return nil, derr("unexpected or out-of-order field [%d]", k.Tag)
			}
			f := t.Fields[fi]
			fi++
			inner, err := k.Explicit()
			if err != nil {
				return nil, fmt.Errorf("%s: %w", f.Name, err)
			}
			v, err := f.Type.decodeNode(inner)
			if err != nil {
				return nil, fmt.Errorf("%s: %w", f.Name, err)
			}
			out[f.Name] = v
		}
		for ; fi < len(t.Fields); fi++ {
			if !t.Fields[fi].Optional {
				return nil, derr("mandatory field %s [%d] missing", t.Fields[fi].Name, t.Fields[fi].Tag)
			}
		}
		return out, nil
	}
	return nil, derr("bad kind")
}

// Equal compares two schema values (times by instant, nil and empty byte slices equal).
func Equal(a, b any) bool { return Diff(a, b, "") == "" }

// Diff returns "" when equal, otherwise the path and values of the first difference.
func Diff(a, b any, path string) string {
	if ai, ok := toInt(a); ok {
		if bi, ok2 := toInt(b); ok2 {
			if ai == bi {
				return ""
			}
			return fmt.Sprintf("%s: %d != %d", path, ai, bi)
		}
	}
	switch x := a.(type) {
	case []byte:
		y, ok := b.([]byte)
		if !ok || !bytes.Equal(x, y) {
			return fmt.Sprintf("%s: %x != %v", path, x, fmtv(b))
		}
		return ""
	case string:
		y, ok := b.(string)
		if !ok || x != y {
			return fmt.Sprintf("%s: %q != %v", path, x, fmtv(b))
		}
		return ""
	case time.Time:
		y, ok := b.(time.Time)
		if !ok || !x.Equal(y) {
			return fmt.Sprintf("%s: %v != %v", path, x.UTC(), fmtv(b))
		}
		return ""
	case Bits:
		y, ok := b.(Bits)
		if !ok || x.Unused != y.Unused || !bytes.Equal(x.B, y.B) {
			return fmt.Sprintf("%s: bits %x/%d != %v", path, x.B, x.Unused, fmtv(b))
		}
		return ""
	case []any:
		y, ok := b.([]any)
		if !ok || len(x) != len(y) {
			return fmt.Sprintf("%s: list of %d != %v", path, len(x), fmtv(b))
		}
		for i := range x {
			if d := Diff(x[i], y[i], fmt.Sprintf("%s[%d]", path, i)); d != "" {
				return d
			}
		}
		return ""
	case M:
		y, ok := b.(M)
		if !ok {
			return fmt.Sprintf("%s: sequence != %v", path, fmtv(b))
		}
		keys := map[string]bool{}
		for k := range x {
			keys[k] = true
		}
		for k := range y {
			keys[k] = true
		}
		ks := []string{}
		for k := range keys {
			ks = append(ks, k)
		}
		sort.Strings(ks)
		for _, k := range ks {
			xv, xo := x[k]
			yv, yo := y[k]
			if xo != yo {
				return fmt.Sprintf("%s.%s: present=%v vs present=%v", path, k, xo, yo)
			}
			if d := Diff(xv, yv, path+"."+k); d != "" {
				return d
			}
		}
		return ""
	}
	if reflect.DeepEqual(a, b) {
		return ""
	}
	return fmt.Sprintf("%s: %v != %v", path, fmtv(a), fmtv(b))
}

func fmtv(v any) string {
	switch x := v.(type) {
	case []byte:
		return fmt.Sprintf("%x", x)
	case time.Time:
		return x.UTC().Format(time.RFC3339)
	}
	return fmt.Sprintf("%v", v)
}

// ---------------------------------------------------------------------------------------------
// RFC 4120 Annex A, RFC 4178 §4.2, RFC 3244 — written from the RFC text.

func fixed(v int64) *int64 { return &v }

func seq(name string, app int, fields ...Field) *Type {
	return &Type{Name: name, Kind: KSeq, App: app, Fields: fields}
}
func seqOf(name string, elem *Type) *Type { return &Type{Name: name, Kind: KSeqOf, App: -1, Elem: elem} }
func f(name string, tag int, t *Type) Field { return Field{name, tag, false, t} }
func opt(name string, tag int, t *Type) Field { return Field{name, tag, true, t} }

var (
	Int32        = &Type{Name: "Int32", Kind: KInt, App: -1, Min: -1 << 31, Max: 1<<31 - 1}
	UInt32       = &Type{Name: "UInt32", Kind: KInt, App: -1, Min: 0, Max: 1<<32 - 1}
	Microseconds = &Type{Name: "Microseconds", Kind: KInt, App: -1, Min: 0, Max: 999999}
	PVNO         = &Type{Name: "pvno", Kind: KInt, App: -1, Min: 5, Max: 5, Fixed: fixed(5)}
	OctetString  = prim("OCTET STRING", KOctets)
	KerberosStr  = prim("KerberosString", KStr)
	KerberosTime = prim("KerberosTime", KTime)
	KerberosFlg  = prim("KerberosFlags", KFlags)
	ObjectID     = prim("OID", KOID)

	PrincipalName  = seq("PrincipalName", -1, f("name-type", 0, Int32), f("name-string", 1, seqOf("name-string", KerberosStr)))
	HostAddress    = seq("HostAddress", -1, f("addr-type", 0, Int32), f("address", 1, OctetString))
	HostAddresses  = seqOf("HostAddresses", HostAddress)
	AuthDataEntry  = seq("AuthorizationDataEntry", -1, f("ad-type", 0, Int32), f("ad-data", 1, OctetString))
	AuthData       = seqOf("AuthorizationData", AuthDataEntry)
	PAData         = seq("PA-DATA", -1, f("padata-type", 1, Int32), f("padata-value", 2, OctetString))
	PADataSeq      = seqOf("SEQUENCE OF PA-DATA", PAData)
	EncryptedData  = seq("EncryptedData", -1, f("etype", 0, Int32), opt("kvno", 1, UInt32), f("cipher", 2, OctetString))
	EncryptionKey  = seq("EncryptionKey", -1, f("keytype", 0, Int32), f("keyvalue", 1, OctetString))
	Checksum       = seq("Checksum", -1, f("cksumtype", 0, Int32), f("checksum", 1, OctetString))
	TransitedEnc   = seq("TransitedEncoding", -1, f("tr-type", 0, Int32), f("contents", 1, OctetString))
	LastReqEntry   = seq("LastReqEntry", -1, f("lr-type", 0, Int32), f("lr-value", 1, KerberosTime))
	LastReq        = seqOf("LastReq", LastReqEntry)
	ETypeInfoEntry = seq("ETYPE-INFO-ENTRY", -1, f("etype", 0, Int32), opt("salt", 1, OctetString))
	ETypeInfo      = seqOf("ETYPE-INFO", ETypeInfoEntry)
	ETypeInfo2Ent  = seq("ETYPE-INFO2-ENTRY", -1, f("etype", 0, Int32), opt("salt", 1, KerberosStr), opt("s2kparams", 2, OctetString))
	ETypeInfo2     = seqOf("ETYPE-INFO2", ETypeInfo2Ent)
	PAEncTSEnc     = seq("PA-ENC-TS-ENC", -1, f("patimestamp", 0, KerberosTime), opt("pausec", 1, Microseconds))

	Ticket = seq("Ticket", 1, f("tkt-vno", 0, PVNO), f("realm", 1, KerberosStr), f("sname", 2, PrincipalName), f("enc-part", 3, EncryptedData))

	EncTicketPart = seq("EncTicketPart", 3,
		f("flags", 0, KerberosFlg), f("key", 1, EncryptionKey), f("crealm", 2, KerberosStr), f("cname", 3, PrincipalName),
		f("transited", 4, TransitedEnc), f("authtime", 5, KerberosTime), opt("starttime", 6, KerberosTime),
		f("endtime", 7, KerberosTime), opt("renew-till", 8, KerberosTime), opt("caddr", 9, HostAddresses),
		opt("authorization-data", 10, AuthData))

	KDCReqBody = seq("KDC-REQ-BODY", -1,
		f("kdc-options", 0, KerberosFlg), opt("cname", 1, PrincipalName), f("realm", 2, KerberosStr), opt("sname", 3, PrincipalName),
		opt("from", 4, KerberosTime), f("till", 5, KerberosTime), opt("rtime", 6, KerberosTime), f("nonce", 7, UInt32),
		f("etype", 8, seqOf("etypes", Int32)), opt("addresses", 9, HostAddresses), opt("enc-authorization-data", 10, EncryptedData),
		opt("additional-tickets", 11, seqOf("additional-tickets", Ticket)))

	ASReq  = kdcReq("AS-REQ", 10)
	TGSReq = kdcReq("TGS-REQ", 12)
	ASRep  = kdcRep("AS-REP", 11)
	TGSRep = kdcRep("TGS-REP", 13)

	EncASRepPart  = encKDCRepPart("EncASRepPart", 25)
	EncTGSRepPart = encKDCRepPart("EncTGSRepPart", 26)

	APReq = seq("AP-REQ", 14, f("pvno", 0, PVNO), f("msg-type", 1, msgType(14)), f("ap-options", 2, KerberosFlg),
		f("ticket", 3, Ticket), f("authenticator", 4, EncryptedData))

	Authenticator = seq("Authenticator", 2,
		f("authenticator-vno", 0, PVNO), f("crealm", 1, KerberosStr), f("cname", 2, PrincipalName), opt("cksum", 3, Checksum),
		f("cusec", 4, Microseconds), f("ctime", 5, KerberosTime), opt("subkey", 6, EncryptionKey), opt("seq-number", 7, UInt32),
		opt("authorization-data", 8, AuthData))

	APRep = seq("AP-REP", 15, f("pvno", 0, PVNO), f("msg-type", 1, msgType(15)), f("enc-part", 2, EncryptedData))

	EncAPRepPart = seq("EncAPRepPart", 27, f("ctime", 0, KerberosTime), f("cusec", 1, Microseconds),
		opt("subkey", 2, EncryptionKey), opt("seq-number", 3, UInt32))

	KRBSafeBody = seq("KRB-SAFE-BODY", -1, f("user-data", 0, OctetString), opt("timestamp", 1, KerberosTime), opt("usec", 2, Microseconds),
		opt("seq-number", 3, UInt32), f("s-address", 4, HostAddress), opt("r-address", 5, HostAddress))
	KRBSafe = seq("KRB-SAFE", 20, f("pvno", 0, PVNO), f("msg-type", 1, msgType(20)), f("safe-body", 2, KRBSafeBody), f("cksum", 3, Checksum))

	KRBPriv        = seq("KRB-PRIV", 21, f("pvno", 0, PVNO), f("msg-type", 1, msgType(21)), f("enc-part", 3, EncryptedData))
	EncKrbPrivPart = seq("EncKrbPrivPart", 28, f("user-data", 0, OctetString), opt("timestamp", 1, KerberosTime), opt("usec", 2, Microseconds),
		opt("seq-number", 3, UInt32), f("s-address", 4, HostAddress), opt("r-address", 5, HostAddress))

	KRBCred = seq("KRB-CRED", 22, f("pvno", 0, PVNO), f("msg-type", 1, msgType(22)), f("tickets", 2, seqOf("tickets", Ticket)),
		f("enc-part", 3, EncryptedData))
	KrbCredInfo = seq("KrbCredInfo", -1, f("key", 0, EncryptionKey), opt("prealm", 1, KerberosStr), opt("pname", 2, PrincipalName),
		opt("flags", 3, KerberosFlg), opt("authtime", 4, KerberosTime), opt("starttime", 5, KerberosTime), opt("endtime", 6, KerberosTime),
		opt("renew-till", 7, KerberosTime), opt("srealm", 8, KerberosStr), opt("sname", 9, PrincipalName), opt("caddr", 10, HostAddresses))
	EncKrbCredPart = seq("EncKrbCredPart", 29, f("ticket-info", 0, seqOf("ticket-info", KrbCredInfo)), opt("nonce", 1, UInt32),
		opt("timestamp", 2, KerberosTime), opt("usec", 3, Microseconds), opt("s-address", 4, HostAddress), opt("r-address", 5, HostAddress))

	KRBError = seq("KRB-ERROR", 30, f("pvno", 0, PVNO), f("msg-type", 1, msgType(30)), opt("ctime", 2, KerberosTime), opt("cusec", 3, Microseconds),
		f("stime", 4, KerberosTime), f("susec", 5, Microseconds), f("error-code", 6, Int32), opt("crealm", 7, KerberosStr),
		opt("cname", 8, PrincipalName), f("realm", 9, KerberosStr), f("sname", 10, PrincipalName), opt("e-text", 11, KerberosStr),
		opt("e-data", 12, OctetString))

	ChangePasswdData = seq("ChangePasswdData", -1, f("newpasswd", 0, OctetString), opt("targname", 1, PrincipalName), opt("targrealm", 2, KerberosStr))

	MechTypeList = seqOf("MechTypeList", ObjectID)
	NegTokenInit = seq("NegTokenInit", -1, f("mechTypes", 0, MechTypeList), opt("reqFlags", 1, prim("ContextFlags", KBits)),
		opt("mechToken", 2, OctetString), opt("mechListMIC", 3, OctetString))
	NegTokenResp = seq("NegTokenResp", -1, opt("negState", 0, prim("negState", KEnum)), opt("supportedMech", 1, ObjectID),
		opt("responseToken", 2, OctetString), opt("mechListMIC", 3, OctetString))
)

func msgType(v int64) *Type {
	return &Type{Name: "msg-type", Kind: KInt, App: -1, Min: v, Max: v, Fixed: fixed(v)}
}

func kdcReq(name string, app int) *Type {
	return seq(name, app, f("pvno", 1, PVNO), f("msg-type", 2, msgType(int64(app))), opt("padata", 3, PADataSeq), f("req-body", 4, KDCReqBody))
}

func kdcRep(name string, app int) *Type {
	return seq(name, app, f("pvno", 0, PVNO), f("msg-type", 1, msgType(int64(app))), opt("padata", 2, PADataSeq), f("crealm", 3, KerberosStr),
		f("cname", 4, PrincipalName), f("ticket", 5, Ticket), f("enc-part", 6, EncryptedData))
}

func encKDCRepPart(name string, app int) *Type {
	return seq(name, app, f("key", 0, EncryptionKey), f("last-req", 1, LastReq), f("nonce", 2, UInt32), opt("key-expiration", 3, KerberosTime),
		f("flags", 4, KerberosFlg), f("authtime", 5, KerberosTime), opt("starttime", 6, KerberosTime), f("endtime", 7, KerberosTime),
		opt("renew-till", 8, KerberosTime), f("srealm", 9, KerberosStr), f("sname", 10, PrincipalName), opt("caddr", 11, HostAddresses),
		opt("encrypted-pa-data", 12, PADataSeq))
}

// OIDs.
var (
	OIDKRB5    = []int{1, 2, 840, 113554, 1, 2, 2}
	OIDMSKRB5  = []int{1, 2, 840, 48018, 1, 2, 2}
	OIDSPNEGO  = []int{1, 3, 6, 1, 5, 5, 2}
	OIDNTLMSSP = []int{1, 3, 6, 1, 4, 1, 311, 2, 2, 10}
)

// Name builds a PrincipalName value.
func Name(nameType int, comps ...string) M {
	l := []any{}
	for _, c := range comps {
		l = append(l, c)
	}
	return M{"name-type": int64(nameType), "name-string": l}
}

// NameStrings extracts the components of a decoded PrincipalName.
func NameStrings(m any) []string {
	mm, ok := m.(M)
	if !ok {
		return nil
	}
	l, _ := mm["name-string"].([]any)
	out := []string{}
	for _, c := range l {
		s, _ := c.(string)
		out = append(out, s)
	}
	return out
}

// GSSWrap frames a mechanism token per RFC 2743 §3.1: [APPLICATION 0] IMPLICIT SEQUENCE { thisMech OID, innerToken }.
func GSSWrap(mech []int, inner []byte) []byte {
	return TLV(Application, 0, true, cat(OID(mech), inner))
}

// GSSUnwrap splits an RFC 2743 initial context token.
func GSSUnwrap(b []byte) (mech []int, inner []byte, err error) {
	n, err := Parse(b)
	if err != nil {
		return nil, nil, err
	}
	if !n.Is(Application, 0, true) {
		return nil, nil, derr("not an [APPLICATION 0] GSS token")
	}
	o, rest, err := ParseOne(n.Content)
	if err != nil {
		return nil, nil, err
	}
	mech, err = o.AsOID()
	return mech, rest, err
}
