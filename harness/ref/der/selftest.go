package der

import (
	"bytes"
	"encoding/hex"
	"fmt"
)

// SelfTestVectors decodes the MIT krb5 reference encodings (passed in by the caller, who
// takes them from gokrb5's test/testdata so that this package has no gokrb5 import) under the
// strict schema, re-encodes the value and requires byte identity, and spot-checks field values.
func SelfTestVectors(v map[string]string) error {
	types := map[string]*Type{
		"authenticator": Authenticator, "ticket": Ticket, "keyblock": EncryptionKey, "enc_tkt_part": EncTicketPart,
		"as_rep": ASRep, "tgs_rep": TGSRep, "ap_req": APReq, "ap_rep": APRep, "ap_rep_enc_part": EncAPRepPart,
		"as_req": ASReq, "tgs_req": TGSReq, "kdc_req_body": KDCReqBody, "safe": KRBSafe, "priv": KRBPriv,
		"enc_priv_part": EncKrbPrivPart, "cred": KRBCred, "enc_cred_part": EncKrbCredPart, "error": KRBError,
		"authorization_data": AuthData, "padata_sequence": PADataSeq, "etype_info": ETypeInfo, "etype_info2": ETypeInfo2,
		"pa_enc_ts": PAEncTSEnc, "enc_data": EncryptedData,
	}
	n := 0
	for name, hx := range v {
		t := types[name]
		if t == nil {
			return fmt.Errorf("no schema for vector %q", name)
		}
		b, err := hex.DecodeString(hx)
		if err != nil {
			return err
		}
		val, err := t.Decode(b)
		if err != nil {
			return fmt.Errorf("vector %s: %v", name, err)
		}
		re, err := t.Encode(val)
		if err != nil {
			return fmt.Errorf("vector %s re-encode: %v", name, err)
		}
		if !bytes.Equal(re, b) {
			return fmt.Errorf("vector %s: re-encoding differs\n have %x\n want %x", name, re, b)
		}
		n++
	}
	if n < 10 {
		return fmt.Errorf("only %d vectors checked", n)
	}
	// field spot checks on the MIT ticket: realm ATHENA.MIT.EDU, sname hftsai/extra, etype 0, kvno 5
	if hx, ok := v["ticket"]; ok {
		b, _ := hex.DecodeString(hx)
		m, _ := Ticket.DecodeM(b)
		if m["realm"] != "ATHENA.MIT.EDU" || fmt.Sprint(NameStrings(m["sname"])) != "[hftsai extra]" {
			return fmt.Errorf("ticket fields: %v", m)
		}
		ep := m["enc-part"].(M)
		if k, _ := toInt(ep["kvno"]); k != 5 || string(ep["cipher"].([]byte)) != "krbASN.1 test message" {
			return fmt.Errorf("ticket enc-part fields: %v", ep)
		}
	}
	return nil
}
