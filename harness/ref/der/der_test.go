package der_test

import (
	"testing"

	"verif/harness/refcheck"
)

func TestVectors(t *testing.T) {
	if err := refcheck.DER(); err != nil {
		t.Fatal(err)
	}
}
