package gsstok

import (
	"bytes"
	"encoding/hex"
	"fmt"
)

// jdkVector is one pair of tokens produced by the JDK 17 GSS-API Kerberos mechanism
// (sun.security.jgss.krb5.MicToken_v2 / WrapToken_v2, driven through reflection by jdk/GssRef.java,
// run once and frozen here). The JDK implements RFC 4121 tokens for the four AES etypes only.
type jdkVector struct {
	et        int32
	key       string
	initiator bool
	subkey    bool
	seq       uint64
	data      string
	mic, wrap string
}

var jdkVectors = []jdkVector{
	{17, "121920272e353c434a51585f666d747b", false, false, 0x575e85d6, "", "040401ffffffffff00000000575e85d6bd767f0facfa30976b199f40", "050401ff000c000000000000575e85d6669d1e7da382b3aa23500d5d"},
	{17, "1d242b323940474e555c636a71787f86", false, true, 0x7fffffff, "b1", "040405ffffffffff000000007fffffff69b3228ea9fe6e85662851d3", "050405ff000c0000000000007fffffffb1351c392d38c39f5f6fff944d"},
	{17, "151c232a31383f464d545b626970777e", true, false, 0x0, "b1becbd8", "040400ffffffffff00000000000000003cfe7c1940e5dce08b6d3225", "050400ff000c00000000000000000000b1becbd837cd485af75ec8d3144acb9b"},
	{17, "20272e353c434a51585f666d747b8289", true, true, 0x575e85d6, "b1becbd8e5f2ff0c192633404d5a67", "040404ffffffffff00000000575e85d6c4caf8d0674ee8c0f0908fb3", "050404ff000c000000000000575e85d6b1becbd8e5f2ff0c192633404d5a6742142dc60f94a52a36e1a64c"},
	{18, "131a21282f363d444b525960676e757c838a91989fa6adb4bbc2c9d0d7dee5ec", false, false, 0x7fffffff, "b2bfccd9e6f3000d1a2734414e5b6875", "040401ffffffffff000000007fffffffab464a0f91afdfc6e31b8833", "050401ff000c0000000000007fffffffb2bfccd9e6f3000d1a2734414e5b6875cd0fcf8b7ee7d4de4f8a98ca"},
	{18, "1e252c333a41484f565d646b727980878e959ca3aab1b8bfc6cdd4dbe2e9f0f7", false, true, 0x0, "b2bfccd9e6f3000d1a2734414e5b687582", "040405ffffffffff0000000000000000dd8f75ca308db1d15476e71e", "050405ff000c00000000000000000000b2bfccd9e6f3000d1a2734414e5b687582b0451e3f33b0d0b98f8a1096"},
	{18, "161d242b323940474e555c636a71787f868d949ba2a9b0b7bec5ccd3dae1e8ef", true, false, 0x575e85d6, "b2bfccd9e6f3000d1a2734414e5b6875828f9ca9b6c3d0ddeaf704111e2b384552", "040400ffffffffff00000000575e85d681cef60e977e7ebedc4a6b4a", "050400ff000c000000000000575e85d6b2bfccd9e6f3000d1a2734414e5b6875828f9ca9b6c3d0ddeaf704111e2b38455254f98e043cccd8ea87e6932d"},
	{18, "21282f363d444b525960676e757c838a91989fa6adb4bbc2c9d0d7dee5ecf3fa", true, true, 0x7fffffff, "b2bfccd9e6f3000d1a2734414e5b6875828f9ca9b6c3d0ddeaf704111e2b3845525f6c798693a0adbac7d4e1eefb0815222f3c495663707d8a97a4b1becbd8e5f2ff0c192633404d5a6774818e9ba8b5c2cfdce9f603101d2a3744515e6b7885929facb9", "040404ffffffffff000000007fffffffb0dafcb63feefd5ab81e2dd7", "050404ff000c0000000000007fffffffb2bfccd9e6f3000d1a2734414e5b6875828f9ca9b6c3d0ddeaf704111e2b3845525f6c798693a0adbac7d4e1eefb0815222f3c495663707d8a97a4b1becbd8e5f2ff0c192633404d5a6774818e9ba8b5c2cfdce9f603101d2a3744515e6b7885929facb96b7a17caf54e958278677412"},
	{19, "141b222930373e454c535a61686f767d", false, false, 0x0, "", "040401ffffffffff0000000000000000ef19f75e1df366c6f2fdf8041e798998", "050401ff001000000000000000000000d4a820173ef2dfc9afd3b060e19c3023"},
	{19, "1f262d343b424950575e656c737a8188", false, true, 0x575e85d6, "b3", "040405ffffffffff00000000575e85d69815722eef2f989fae35adb441f6f119", "050405ff0010000000000000575e85d6b39919569052faa83c7e0060a5d89b45a3"},
	{19, "171e252c333a41484f565d646b727980", true, false, 0x7fffffff, "b3c0cdda", "040400ffffffffff000000007fffffff5500e90496283ae317b31184699f9d30", "050400ff00100000000000007fffffffb3c0cdda90703e71579d6dc6178f95ef7092230a"},
	{19, "222930373e454c535a61686f767d848b", true, true, 0x0, "b3c0cddae7f4010e1b2835424f5c69", "040404ffffffffff0000000000000000c9d9c85cb93efecb4b0b53361e8ce016", "050404ff001000000000000000000000b3c0cddae7f4010e1b2835424f5c6988af8eb7a8770948574a854a1718ff93"},
	{20, "151c232a31383f464d545b626970777e858c939aa1a8afb6bdc4cbd2d9e0e7ee", false, false, 0x575e85d6, "b4c1cedbe8f5020f1c293643505d6a77", "040401ffffffffff00000000575e85d6881fe1455339fea95cdc07eb8a40bdf49bfe78080ddec409", "050401ff0018000000000000575e85d6b4c1cedbe8f5020f1c293643505d6a77ac42e801022dee0aba147b9f1c2df979aa0f73eb8b37af98"},
	{20, "20272e353c434a51585f666d747b828990979ea5acb3bac1c8cfd6dde4ebf2f9", false, true, 0x7fffffff, "b4c1cedbe8f5020f1c293643505d6a7784", "040405ffffffffff000000007ffffffff6df5e06157e7b862258db4cfd2e099a3ec4a2aa80b0e54e", "050405ff00180000000000007fffffffb4c1cedbe8f5020f1c293643505d6a7784d953882253a459ac069c880a98bed028e54cf212161f0733"},
	{20, "181f262d343b424950575e656c737a81888f969da4abb2b9c0c7ced5dce3eaf1", true, false, 0x0, "b4c1cedbe8f5020f1c293643505d6a7784919eabb8c5d2dfecf90613202d3a4754", "040400ffffffffff00000000000000000f9468616bf75dc773bde6a8b6011f763ee9d1285476864a", "050400ff001800000000000000000000b4c1cedbe8f5020f1c293643505d6a7784919eabb8c5d2dfecf90613202d3a4754a218c180dd7febb0dedef99a82cfa7cc1b6eed85d2f3e949"},
	{20, "232a31383f464d545b626970777e858c939aa1a8afb6bdc4cbd2d9e0e7eef5fc", true, true, 0x575e85d6, "b4c1cedbe8f5020f1c293643505d6a7784919eabb8c5d2dfecf90613202d3a4754616e7b8895a2afbcc9d6e3f0fd0a1724313e4b5865727f8c99a6b3c0cddae7f4010e1b2835424f5c697683909daab7c4d1deebf805121f2c394653606d7a8794a1aebb", "040404ffffffffff00000000575e85d611150db8759ce3deddac2dbc5ddaab375272bc3c100ff736", "050404ff0018000000000000575e85d6b4c1cedbe8f5020f1c293643505d6a7784919eabb8c5d2dfecf90613202d3a4754616e7b8895a2afbcc9d6e3f0fd0a1724313e4b5865727f8c99a6b3c0cddae7f4010e1b2835424f5c697683909daab7c4d1deebf805121f2c394653606d7a8794a1aebb948e4c1f8364b61ff0244527cf50c5563141c7db0418b7c7"},
}

// capturedVector is a token from gokrb5's own gssapi tests (v8/gssapi/wrapToken_test.go and
// MICToken_test.go): an LDAP SASL/GSSAPI security-layer exchange with an aes128-cts-hmac-sha1-96
// session key. They are used only to check this package, never as expected values of the check.
type capturedVector struct {
	kind    string
	usage   uint32
	payload string
	token   string
}

const capturedKey = "14f9bde6b50ec508201a97f74c4e5bd3"

var capturedVectors = []capturedVector{
	{KindWrap, UsageAcceptorSeal, "01010000", "050401ff000c000000000000575e85d601010000853b728d5268525a1386c19f"},
	{KindWrap, UsageInitiatorSeal, "01010000", "050400ff000c000000000000000000000101000079a033510b6f127212242b97"},
	{KindMIC, UsageAcceptorSign, "deadbeef", "040401ffffffffff00000000575e85d6c34d12ba3e5b1b1310cd9cb3"},
	{KindMIC, UsageInitiatorSign, "deadbeef", "040400ffffffffff00000000000000009649ca09d2f1bc51ff6e5ca3"},
}

func unhex(s string) []byte {
	b, err := hex.DecodeString(s)
	if err != nil {
		panic(err)
	}
	return b
}

// SelfTest checks the builder and the reader against the frozen JDK tokens, the captured tokens
// and a few structural identities (rotation, strictness of the reader).
func SelfTest() error {
	for i, v := range jdkVectors {
		key, data := unhex(v.key), unhex(v.data)
		var flags byte
		if !v.initiator {
			flags |= FlagSentByAcceptor
		}
		if v.subkey {
			flags |= FlagAcceptorSubkey
		}
		mic, err := BuildMIC(v.et, key, RFCUsage(KindMIC, !v.initiator), flags, v.seq, data)
		if err != nil || !bytes.Equal(mic, unhex(v.mic)) {
			return fmt.Errorf("gsstok: JDK vector %d: MIC token %x, JDK produced %s (%v)", i, mic, v.mic, err)
		}
		wrap, err := BuildWrap(v.et, key, RFCUsage(KindWrap, !v.initiator), flags, v.seq, 0, data)
		if err != nil || !bytes.Equal(wrap, unhex(v.wrap)) {
			return fmt.Errorf("gsstok: JDK vector %d: Wrap token %x, JDK produced %s (%v)", i, wrap, v.wrap, err)
		}
		m, err := ParseMIC(unhex(v.mic))
		if err != nil || m.Flags != flags || m.Seq != v.seq || !m.Verify(v.et, key, RFCUsage(KindMIC, !v.initiator), data) {
			return fmt.Errorf("gsstok: JDK vector %d: MIC token does not parse/verify (%v)", i, err)
		}
		if m.Verify(v.et, key, RFCUsage(KindWrap, !v.initiator), data) || m.Verify(v.et, key, RFCUsage(KindMIC, v.initiator), data) {
			return fmt.Errorf("gsstok: JDK vector %d: MIC token verifies under a wrong key usage", i)
		}
		w, err := ParseWrap(unhex(v.wrap))
		if err != nil || w.Flags != flags || w.Seq != v.seq || w.RRC != 0 || int(w.EC) != len(w.Cksum) || !bytes.Equal(w.Payload, data) ||
			!w.Verify(v.et, key, RFCUsage(KindWrap, !v.initiator)) {
			return fmt.Errorf("gsstok: JDK vector %d: Wrap token does not parse/verify (%v)", i, err)
		}
	}
	key := unhex(capturedKey)
	for i, v := range capturedVectors {
		tok, payload := unhex(v.token), unhex(v.payload)
		switch v.kind {
		case KindMIC:
			m, err := ParseMIC(tok)
			if err != nil || !m.Verify(17, key, v.usage, payload) {
				return fmt.Errorf("gsstok: captured vector %d does not verify (%v)", i, err)
			}
			b, err := BuildMIC(17, key, v.usage, m.Flags, m.Seq, payload)
			if err != nil || !bytes.Equal(b, tok) {
				return fmt.Errorf("gsstok: captured vector %d rebuilt as %x", i, b)
			}
		case KindWrap:
			w, err := ParseWrap(tok)
			if err != nil || !bytes.Equal(w.Payload, payload) || !w.Verify(17, key, v.usage) {
				return fmt.Errorf("gsstok: captured vector %d does not verify (%v)", i, err)
			}
			b, err := BuildWrap(17, key, v.usage, w.Flags, w.Seq, w.RRC, payload)
			if err != nil || !bytes.Equal(b, tok) {
				return fmt.Errorf("gsstok: captured vector %d rebuilt as %x", i, b)
			}
		}
	}
	// RFC 4121 §4.2.5 example: RRC 3 turns aa bb cc dd ee ff gg hh into ff gg hh aa bb cc dd ee.
	in := []byte{0xaa, 0xbb, 0xcc, 0xdd, 0xee, 0xf0, 0xf1, 0xf2}
	if r := RotateRight(in, 3); !bytes.Equal(r, []byte{0xf0, 0xf1, 0xf2, 0xaa, 0xbb, 0xcc, 0xdd, 0xee}) || !bytes.Equal(RotateLeft(r, 3), in) ||
		!bytes.Equal(RotateRight(in, 11), RotateRight(in, 3)) {
		return fmt.Errorf("gsstok: rotation does not match the RFC 4121 4.2.5 example")
	}
	// a rotated token is read back to the same fields
	for _, rrc := range []uint16{1, 5, 12, 16, 17, 400} {
		tok, err := BuildWrap(18, bytes.Repeat([]byte{7}, 32), UsageInitiatorSeal, 0, 9, rrc, []byte("rotate me"))
		if err != nil {
			return err
		}
		w, err := ParseWrap(tok)
		if err != nil || w.RRC != rrc || string(w.Payload) != "rotate me" || !w.Verify(18, bytes.Repeat([]byte{7}, 32), UsageInitiatorSeal) {
			return fmt.Errorf("gsstok: token rotated by %d does not read back (%v)", rrc, err)
		}
	}
	// strictness of the reader
	good := unhex(capturedVectors[0].token)
	for _, m := range []struct {
		off  int
		val  byte
		want error
	}{{0, 0x04, ErrTokID}, {1, 0x05, ErrTokID}, {3, 0xfe, ErrFiller}, {4, 0x01, ErrEC}} {
		b := append([]byte{}, good...)
		b[m.off] = m.val
		if _, err := ParseWrap(b); err != m.want {
			return fmt.Errorf("gsstok: ParseWrap with octet %d = %02x: %v, want %v", m.off, m.val, err, m.want)
		}
	}
	if _, err := ParseWrap(good[:15]); err != ErrShort {
		return fmt.Errorf("gsstok: ParseWrap accepts a truncated header")
	}
	goodMIC := unhex(capturedVectors[2].token)
	for off := 3; off < 8; off++ {
		b := append([]byte{}, goodMIC...)
		b[off] = 0x7f
		if _, err := ParseMIC(b); err != ErrFiller {
			return fmt.Errorf("gsstok: ParseMIC accepts filler octet %d = 7f", off)
		}
	}
	if _, err := ParseMIC(good); err != ErrTokID {
		return fmt.Errorf("gsstok: ParseMIC accepts a Wrap token")
	}
	return nil
}
