import java.lang.reflect.*;
import org.ietf.jgss.MessageProp;
import sun.security.krb5.EncryptionKey;

public class GssRef {
    static String hex(byte[] b){StringBuilder s=new StringBuilder();for(byte x:b)s.append(String.format("%02x",x));return s.toString();}
    static byte[] unhex(String s){byte[] b=new byte[s.length()/2];for(int i=0;i<b.length;i++)b[i]=(byte)Integer.parseInt(s.substring(2*i,2*i+2),16);return b;}
    static void set(Object o,String f,Object v)throws Exception{Field fl=o.getClass().getDeclaredField(f);fl.setAccessible(true);fl.set(o,v);}
    public static void main(String[] a)throws Exception{
        Field uf=sun.misc.Unsafe.class.getDeclaredField("theUnsafe");uf.setAccessible(true);
        sun.misc.Unsafe U=(sun.misc.Unsafe)uf.get(null);
        Class<?> ctxC=Class.forName("sun.security.jgss.krb5.Krb5Context");
        Class<?> micC=Class.forName("sun.security.jgss.krb5.MicToken_v2");
        Class<?> wrapC=Class.forName("sun.security.jgss.krb5.WrapToken_v2");
        int[] etypes={17,18,19,20};
        int[] lens={0,1,4,15,16,17,33,100};
        int n=0;
        for(int et:etypes){
          int kl=(et==17||et==19)?16:32;
          for(int init=0;init<2;init++) for(int sub=0;sub<2;sub++){
            byte[] key=new byte[kl];for(int i=0;i<kl;i++)key[i]=(byte)(i*7+et+init*3+sub*11+1);
            int len=lens[(n++)%lens.length];
            byte[] data=new byte[len];for(int i=0;i<len;i++)data[i]=(byte)(0xA0+i*13+et);
            int seq=(n%3==0)?0:(n%3==1?0x575e85d6:0x7fffffff);
            Object ctx=U.allocateInstance(ctxC);
            set(ctx,"key",new EncryptionKey(key,et,null));
            set(ctx,"initiator",init==1);
            set(ctx,"keySrc",sub==1?2:1);
            set(ctx,"mySeqNumber",seq);
            set(ctx,"mySeqNumberLock",new Object());
            set(ctx,"peerSeqNumberLock",new Object());
            Constructor<?> mc=micC.getDeclaredConstructor(ctxC,MessageProp.class,byte[].class,int.class,int.class);mc.setAccessible(true);
            Object mt=mc.newInstance(ctx,new MessageProp(0,false),data,0,len);
            Method me=micC.getDeclaredMethod("encode");me.setAccessible(true);
            byte[] mtok=(byte[])me.invoke(mt);
            set(ctx,"mySeqNumber",seq);
            Constructor<?> wc=wrapC.getDeclaredConstructor(ctxC,MessageProp.class,byte[].class,int.class,int.class);wc.setAccessible(true);
            Object wt=wc.newInstance(ctx,new MessageProp(0,false),data,0,len);
            Method we=wrapC.getDeclaredMethod("encode");we.setAccessible(true);
            byte[] wtok=(byte[])we.invoke(wt);
            System.out.println("{"+et+", \""+hex(key)+"\", "+(init==1)+", "+(sub==1)+", 0x"+Integer.toHexString(seq)+", \""+hex(data)+"\", \""+hex(mtok)+"\", \""+hex(wtok)+"\"},");
          }
        }
        Field f=ctxC.getDeclaredField("ACCEPTOR_SUBKEY");f.setAccessible(true);System.err.println("ACCEPTOR_SUBKEY="+f.get(null));
    }
}
