// Package gsstok is an independent writer and reader of the RFC 4121 §4.2.6 per-message tokens
// (MIC tokens, and Wrap tokens without confidentiality), written from the RFC text:
//
//	§4.2.6.1 MIC token                       §4.2.6.2 Wrap token
//	 0..1   TOK_ID    04 04                   0..1   TOK_ID   05 04
//	 2      Flags                             2      Flags
//	 3..7   Filler    FF FF FF FF FF          3      Filler   FF
//	 8..15  SND_SEQ   big-endian              4..5   EC       big-endian
//	 16..   SGN_CKSUM                         6..7   RRC      big-endian
//	                                          8..15  SND_SEQ  big-endian
//	                                          16..   plaintext data | checksum   (no confidentiality)
//
// §4.2.4: the checksum is computed over the plaintext data FIRST and then the 16-octet header; for
// Wrap tokens the EC and RRC fields of that header are filled with zeroes for the computation, and
// (§4.2.6.2) EC carries the number of octets of the trailing checksum. §4.2.5: the octets after the
// header are rotated right by RRC by the sender; the receiver rotates left by RRC.
// §4.2.2 flags: bit 0 SentByAcceptor, bit 1 Sealed, bit 2 AcceptorSubkey.
//
// The keyed checksum itself comes from ref/krbcrypto (the mandatory checksum type of the key's
// etype), never from gokrb5. The flags octet is treated as an opaque value by the builder: the
// "no confidentiality" layout is produced whatever bit 1 says, because that is the only layout the
// property under test covers.
package gsstok

import (
	"bytes"
	"encoding/binary"
	"errors"
	"fmt"

	ref "verif/harness/ref/krbcrypto"
)

// Flag bits (RFC 4121 §4.2.2).
const (
	FlagSentByAcceptor byte = 1 << 0
	FlagSealed         byte = 1 << 1
	FlagAcceptorSubkey byte = 1 << 2
)

// HeaderLen is the length of both token headers.
const HeaderLen = 16

// Key usages (RFC 4121 §2).
const (
	UsageAcceptorSeal  uint32 = 22
	UsageAcceptorSign  uint32 = 23
	UsageInitiatorSeal uint32 = 24
	UsageInitiatorSign uint32 = 25
)

// Kinds of token.
const (
	KindMIC  = "mic"
	KindWrap = "wrap"
)

// RFCUsage is the key usage RFC 4121 assigns to a token kind sent in a direction.
func RFCUsage(kind string, fromAcceptor bool) uint32 {
	switch {
	case kind == KindMIC && fromAcceptor:
		return UsageAcceptorSign
	case kind == KindMIC:
		return UsageInitiatorSign
	case fromAcceptor:
		return UsageAcceptorSeal
	}
	return UsageInitiatorSeal
}

// MICHeader is octets 0..15 of a MIC token.
func MICHeader(flags byte, seq uint64) []byte {
	h := []byte{0x04, 0x04, flags, 0xff, 0xff, 0xff, 0xff, 0xff, 0, 0, 0, 0, 0, 0, 0, 0}
	putSeq(h[8:], seq)
	return h
}

// WrapHeader is octets 0..15 of a Wrap token.
func WrapHeader(flags byte, ec, rrc uint16, seq uint64) []byte {
	h := []byte{0x05, 0x04, flags, 0xff, byte(ec >> 8), byte(ec), byte(rrc >> 8), byte(rrc), 0, 0, 0, 0, 0, 0, 0, 0}
	putSeq(h[8:], seq)
	return h
}

func putSeq(b []byte, seq uint64) {
	for i := 0; i < 8; i++ {
		b[i] = byte(seq >> (56 - 8*uint(i)))
	}
}

func cksum(et int32, key []byte, usage uint32, payload, header []byte) ([]byte, error) {
	ck := ref.CksumForEType(et)
	if ck == 0 {
		return nil, fmt.Errorf("gsstok: unsupported etype %d", et)
	}
	d := make([]byte, 0, len(payload)+len(header))
	d = append(d, payload...)
	d = append(d, header...)
	return ref.Checksum(ck, key, usage, d)
}

// MICChecksum is SGN_CKSUM: checksum over payload | header.
func MICChecksum(et int32, key []byte, usage uint32, flags byte, seq uint64, payload []byte) ([]byte, error) {
	return cksum(et, key, usage, payload, MICHeader(flags, seq))
}

// WrapChecksum is the trailing checksum of a Wrap token without confidentiality: checksum over
// payload | header with EC = RRC = 0.
func WrapChecksum(et int32, key []byte, usage uint32, flags byte, seq uint64, payload []byte) ([]byte, error) {
	return cksum(et, key, usage, payload, WrapHeader(flags, 0, 0, seq))
}

// BuildMIC returns the complete MIC token for the payload.
func BuildMIC(et int32, key []byte, usage uint32, flags byte, seq uint64, payload []byte) ([]byte, error) {
	c, err := MICChecksum(et, key, usage, flags, seq, payload)
	if err != nil {
		return nil, err
	}
	return append(MICHeader(flags, seq), c...), nil
}

// BuildWrap returns the complete Wrap token (no confidentiality) carrying the payload; the octets
// after the header are rotated right by rrc as §4.2.5 prescribes.
func BuildWrap(et int32, key []byte, usage uint32, flags byte, seq uint64, rrc uint16, payload []byte) ([]byte, error) {
	c, err := WrapChecksum(et, key, usage, flags, seq, payload)
	if err != nil {
		return nil, err
	}
	if len(c) > 0xffff {
		return nil, errors.New("gsstok: checksum too long")
	}
	body := append(append([]byte{}, payload...), c...)
	return append(WrapHeader(flags, uint16(len(c)), rrc, seq), RotateRight(body, int(rrc))...), nil
}

// RotateRight rotates b right by n octets (n taken modulo len(b)).
func RotateRight(b []byte, n int) []byte {
	out := make([]byte, len(b))
	if len(b) == 0 {
		return out
	}
	n %= len(b)
	copy(out[n:], b[:len(b)-n])
	copy(out[:n], b[len(b)-n:])
	return out
}

// RotateLeft undoes RotateRight.
func RotateLeft(b []byte, n int) []byte {
	if len(b) == 0 {
		return []byte{}
	}
	n %= len(b)
	return RotateRight(b, len(b)-n)
}

// MIC is a decoded MIC token.
type MIC struct {
	Flags byte
	Seq   uint64
	Cksum []byte
}

// Wrap is a decoded Wrap token without confidentiality (rotation already undone).
type Wrap struct {
	Flags   byte
	EC, RRC uint16
	Seq     uint64
	Payload []byte
	Cksum   []byte
}

// Errors of the strict reader.
var (
	ErrShort  = errors.New("gsstok: token shorter than its header")
	ErrTokID  = errors.New("gsstok: wrong TOK_ID")
	ErrFiller = errors.New("gsstok: filler is not FF")
	ErrEC     = errors.New("gsstok: EC exceeds the token")
)

// ParseMIC reads a MIC token.
func ParseMIC(b []byte) (MIC, error) {
	if len(b) < HeaderLen {
		return MIC{}, ErrShort
	}
	if b[0] != 0x04 || b[1] != 0x04 {
		return MIC{}, ErrTokID
	}
	if !bytes.Equal(b[3:8], []byte{0xff, 0xff, 0xff, 0xff, 0xff}) {
		return MIC{}, ErrFiller
	}
	return MIC{Flags: b[2], Seq: binary.BigEndian.Uint64(b[8:16]), Cksum: append([]byte{}, b[16:]...)}, nil
}

// ParseWrap reads a Wrap token without confidentiality.
func ParseWrap(b []byte) (Wrap, error) {
	if len(b) < HeaderLen {
		return Wrap{}, ErrShort
	}
	if b[0] != 0x05 || b[1] != 0x04 {
		return Wrap{}, ErrTokID
	}
	if b[3] != 0xff {
		return Wrap{}, ErrFiller
	}
	w := Wrap{Flags: b[2], EC: binary.BigEndian.Uint16(b[4:6]), RRC: binary.BigEndian.Uint16(b[6:8]), Seq: binary.BigEndian.Uint64(b[8:16])}
	body := RotateLeft(b[16:], int(w.RRC))
	if int(w.EC) > len(body) {
		return Wrap{}, ErrEC
	}
	w.Payload = append([]byte{}, body[:len(body)-int(w.EC)]...)
	w.Cksum = append([]byte{}, body[len(body)-int(w.EC):]...)
	return w, nil
}

// Verify reports whether the MIC token authenticates payload under the key and usage.
func (m MIC) Verify(et int32, key []byte, usage uint32, payload []byte) bool {
	c, err := MICChecksum(et, key, usage, m.Flags, m.Seq, payload)
	return err == nil && bytes.Equal(c, m.Cksum)
}

// Verify reports whether the Wrap token's checksum authenticates its payload and header.
func (w Wrap) Verify(et int32, key []byte, usage uint32) bool {
	c, err := WrapChecksum(et, key, usage, w.Flags, w.Seq, w.Payload)
	return err == nil && bytes.Equal(c, w.Cksum)
}

// Region names the RFC field that holds the given octet offset of a token of the given kind and
// total length; ckLen is the checksum length (Wrap only: it separates payload from checksum).
func Region(kind string, off, total, ckLen int) string {
	switch {
	case off < 2:
		return "tokid"
	case off == 2:
		return "flags"
	}
	if kind == KindMIC {
		switch {
		case off < 8:
			return "filler"
		case off < 16:
			return "seq"
		}
		return "checksum"
	}
	switch {
	case off == 3:
		return "filler"
	case off < 6:
		return "ec"
	case off < 8:
		return "rrc"
	case off < 16:
		return "seq"
	case off < total-ckLen:
		return "payload"
	}
	return "checksum"
}
