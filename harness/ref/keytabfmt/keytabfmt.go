// Package keytabfmt is an independent reader and writer of MIT keytab files, written from the MIT
// "Keytab file format" document (doc/formats/keytab_file_format.rst). It shares nothing with
// gokrb5; it is the oracle of property C14 and the renderer of the generated files.
//
// The format, as documented:
//
//	file    ::= 0x05 version(1|2) { record }
//	record  ::= length(int32) body
//	            length > 0: a key entry that occupies at most length bytes (the rest is ignored)
//	            length < 0: a zero-filled hole of -length bytes
//	            length = 0: end of file
//	entry   ::= principal timestamp(32) vno8(8) enctype(16) keylen(16) key [ vno(32) ]
//	principal ::= count(16) realm(data) component(data)* [ nametype(32), omitted in version 1 ]
//	            count includes the realm in version 1
//	data    ::= length(16) bytes
//
// Version 1 uses the byte order of the host that wrote the file, version 2 is big-endian. The
// 32-bit key version overrides the 8-bit one when at least four bytes remain in the record after
// the key contents and the 32-bit integer in those bytes is non-zero.
package keytabfmt

import (
	"encoding/binary"
	"errors"
	"fmt"
)

// Entry is one key entry as stored in a file.
type Entry struct {
	Realm       string
	Components  []string
	HasNameType bool // false in version-1 files, which do not store a name type
	NameType    uint32
	Timestamp   uint32
	KVNO8       uint8
	KeyType     uint16
	Key         []byte
	HasKVNO32   bool   // at least four bytes followed the key contents inside the record
	KVNO32      uint32 // the integer held by those four bytes
}

// KVNO is the effective key version by the documented rule.
func (e Entry) KVNO() uint32 {
	if e.HasKVNO32 && e.KVNO32 != 0 {
		return e.KVNO32
	}
	return uint32(e.KVNO8)
}

// Record is one length-prefixed unit of a file: a hole (Hole > 0, Entry nil) or an entry followed
// by Pad ignored bytes inside the same record.
type Record struct {
	Hole  int
	Entry *Entry
	Pad   []byte
}

// File is the layout of a whole keytab file.
type File struct {
	Version int
	Records []Record
	EndMark bool   // a zero record length follows the records
	After   []byte // bytes after the end mark (never interpreted)
}

// Field names one encoded field and where it starts; used to say where two encodings differ.
type Field struct {
	Off  int
	Name string
}

func order(version int) (binary.ByteOrder, error) {
	switch version {
	case 1:
		return binary.NativeEndian, nil // "native byte order" of the writing host
	case 2:
		return binary.BigEndian, nil
	}
	return nil, fmt.Errorf("keytabfmt: version %d is neither 1 nor 2", version)
}

type writer struct {
	bo     binary.ByteOrder
	b      []byte
	fields []Field
}

func (w *writer) mark(name string) { w.fields = append(w.fields, Field{len(w.b), name}) }
func (w *writer) u8(v uint8)       { w.b = append(w.b, v) }
func (w *writer) u16(v uint16) {
	var t [2]byte
	w.bo.PutUint16(t[:], v)
	w.b = append(w.b, t[:]...)
}
func (w *writer) u32(v uint32) {
	var t [4]byte
	w.bo.PutUint32(t[:], v)
	w.b = append(w.b, t[:]...)
}
func (w *writer) data(s []byte) error {
	if len(s) > 0xFFFF {
		return errors.New("keytabfmt: counted string longer than 65535 bytes")
	}
	w.u16(uint16(len(s)))
	w.b = append(w.b, s...)
	return nil
}

func (w *writer) entry(version int, e *Entry, tag string) error {
	n := len(e.Components)
	if version == 1 {
		n++
	}
	if n > 0xFFFF {
		return errors.New("keytabfmt: too many components")
	}
	w.mark(tag + "num_components")
	w.u16(uint16(n))
	w.mark(tag + "realm")
	if err := w.data([]byte(e.Realm)); err != nil {
		return err
	}
	for i, c := range e.Components {
		w.mark(fmt.Sprintf("%scomponent%d", tag, i))
		if err := w.data([]byte(c)); err != nil {
			return err
		}
	}
	if version != 1 {
		w.mark(tag + "name_type")
		w.u32(e.NameType)
	}
	w.mark(tag + "timestamp")
	w.u32(e.Timestamp)
	w.mark(tag + "vno8")
	w.u8(e.KVNO8)
	w.mark(tag + "key_type")
	w.u16(e.KeyType)
	w.mark(tag + "key")
	if err := w.data(e.Key); err != nil {
		return err
	}
	if e.HasKVNO32 {
		w.mark(tag + "vno32")
		w.u32(e.KVNO32)
	}
	return nil
}

// Bytes renders the file.
func (f File) Bytes() ([]byte, error) {
	b, _, err := f.BytesMap()
	return b, err
}

// BytesMap renders the file and reports where every field starts.
func (f File) BytesMap() ([]byte, []Field, error) {
	bo, err := order(f.Version)
	if err != nil {
		return nil, nil, err
	}
	w := &writer{bo: bo}
	w.mark("header")
	w.b = append(w.b, 5, byte(f.Version))
	nent := 0
	for _, r := range f.Records {
		if r.Entry == nil {
			if r.Hole <= 0 || r.Hole > 0x7FFFFFFF {
				return nil, nil, errors.New("keytabfmt: a hole must have a positive size")
			}
			w.mark("hole")
			w.u32(uint32(int32(-r.Hole)))
			w.b = append(w.b, make([]byte, r.Hole)...)
			continue
		}
		tag := fmt.Sprintf("entry%d.", nent)
		nent++
		w.mark(tag + "record_length")
		at := len(w.b)
		w.u32(0)
		if err := w.entry(f.Version, r.Entry, tag); err != nil {
			return nil, nil, err
		}
		if len(r.Pad) > 0 {
			w.mark(tag + "trailing")
			w.b = append(w.b, r.Pad...)
		}
		n := len(w.b) - at - 4
		if n <= 0 || n > 0x7FFFFFFF {
			return nil, nil, errors.New("keytabfmt: record size out of range")
		}
		var l [4]byte
		bo.PutUint32(l[:], uint32(n))
		copy(w.b[at:], l[:])
	}
	if f.EndMark {
		w.mark("end_mark")
		w.u32(0)
		if len(f.After) > 0 {
			w.mark("after_end")
			w.b = append(w.b, f.After...)
		}
	} else if len(f.After) > 0 {
		return nil, nil, errors.New("keytabfmt: bytes after the records need an end mark")
	}
	return w.b, w.fields, nil
}

// FieldAt names the field that holds byte offset off.
func FieldAt(fields []Field, off int) string {
	name := "beyond-end"
	for _, f := range fields {
		if f.Off > off {
			break
		}
		name = f.Name
	}
	return name
}

// Canonical is the plain layout of a list of entries: no holes, no trailing bytes, no end mark.
func Canonical(version int, entries []Entry) File {
	f := File{Version: version}
	for i := range entries {
		e := entries[i]
		f.Records = append(f.Records, Record{Entry: &e})
	}
	return f
}

type reader struct {
	bo binary.ByteOrder
	b  []byte
	p  int
}

var errShort = errors.New("keytabfmt: field runs past the end of its record")

func (r *reader) left() int { return len(r.b) - r.p }
func (r *reader) u8() (uint8, error) {
	if r.left() < 1 {
		return 0, errShort
	}
	v := r.b[r.p]
	r.p++
	return v, nil
}
func (r *reader) u16() (uint16, error) {
	if r.left() < 2 {
		return 0, errShort
	}
	v := r.bo.Uint16(r.b[r.p:])
	r.p += 2
	return v, nil
}
func (r *reader) u32() (uint32, error) {
	if r.left() < 4 {
		return 0, errShort
	}
	v := r.bo.Uint32(r.b[r.p:])
	r.p += 4
	return v, nil
}
func (r *reader) data() ([]byte, error) {
	n, err := r.u16()
	if err != nil {
		return nil, err
	}
	if r.left() < int(n) {
		return nil, errShort
	}
	v := append([]byte{}, r.b[r.p:r.p+int(n)]...)
	r.p += int(n)
	return v, nil
}

func readEntry(version int, bo binary.ByteOrder, rec []byte) (*Entry, []byte, error) {
	r := &reader{bo: bo, b: rec}
	e := &Entry{Components: []string{}}
	cnt, err := r.u16()
	if err != nil {
		return nil, nil, err
	}
	n := int(cnt)
	if version == 1 {
		if n == 0 {
			return nil, nil, errors.New("keytabfmt: version-1 component count 0 does not include the realm")
		}
		n--
	}
	realm, err := r.data()
	if err != nil {
		return nil, nil, err
	}
	e.Realm = string(realm)
	for i := 0; i < n; i++ {
		c, err := r.data()
		if err != nil {
			return nil, nil, err
		}
		e.Components = append(e.Components, string(c))
	}
	if version != 1 {
		e.HasNameType = true
		if e.NameType, err = r.u32(); err != nil {
			return nil, nil, err
		}
	}
	if e.Timestamp, err = r.u32(); err != nil {
		return nil, nil, err
	}
	if e.KVNO8, err = r.u8(); err != nil {
		return nil, nil, err
	}
	if e.KeyType, err = r.u16(); err != nil {
		return nil, nil, err
	}
	if e.Key, err = r.data(); err != nil {
		return nil, nil, err
	}
	if r.left() >= 4 {
		e.HasKVNO32 = true
		e.KVNO32, _ = r.u32()
	}
	return e, append([]byte{}, r.b[r.p:]...), nil
}

// ReadLayout parses a file into its full layout. Rendering the result gives the input back
// whenever the holes of the input are zero-filled.
func ReadLayout(b []byte) (File, error) {
	var f File
	if len(b) < 2 {
		return f, errors.New("keytabfmt: shorter than the two-byte header")
	}
	if b[0] != 5 {
		return f, errors.New("keytabfmt: first byte is not 5")
	}
	f.Version = int(b[1])
	bo, err := order(f.Version)
	if err != nil {
		return f, err
	}
	p := 2
	for {
		if len(b)-p < 4 {
			if len(b)-p != 0 {
				return f, fmt.Errorf("keytabfmt: %d stray bytes where a record length was expected", len(b)-p)
			}
			return f, nil // the file simply ends
		}
		l := int32(bo.Uint32(b[p:]))
		p += 4
		switch {
		case l == 0:
			f.EndMark = true
			if p < len(b) {
				f.After = append([]byte{}, b[p:]...)
			}
			return f, nil
		case l < 0:
			if l == -1<<31 {
				return f, errors.New("keytabfmt: hole size out of range")
			}
			n := int(-l)
			if len(b)-p < n {
				return f, errors.New("keytabfmt: hole runs past the end of the file")
			}
			f.Records = append(f.Records, Record{Hole: n})
			p += n
		default:
			n := int(l)
			if len(b)-p < n {
				return f, errors.New("keytabfmt: record runs past the end of the file")
			}
			e, pad, err := readEntry(f.Version, bo, b[p:p+n])
			if err != nil {
				return f, fmt.Errorf("record at offset %d: %w", p-4, err)
			}
			rec := Record{Entry: e}
			if len(pad) > 0 {
				rec.Pad = pad
			}
			f.Records = append(f.Records, rec)
			p += n
		}
	}
}

// Read returns the format version and the key entries of a file, in file order.
func Read(b []byte) (int, []Entry, error) {
	f, err := ReadLayout(b)
	if err != nil {
		return 0, nil, err
	}
	out := []Entry{}
	for _, r := range f.Records {
		if r.Entry != nil {
			out = append(out, *r.Entry)
		}
	}
	return f.Version, out, nil
}
