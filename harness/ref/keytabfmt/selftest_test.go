package keytabfmt

import (
	"os"
	"testing"
)

func TestSelf(t *testing.T) {
	samples := map[string][]byte{}
	if b, err := os.ReadFile("/repo/v8/test/testdata/testuser1.testtab"); err == nil {
		samples["testuser1.testtab"] = b
	}
	if err := SelfTest(samples); err != nil {
		t.Fatal(err)
	}
}
