package keytabfmt

import (
	"bytes"
	"encoding/hex"
	"fmt"
	"reflect"
)

// Fact is what is known about a real keytab file independently of this package (read off the hex
// dump by hand and with a throw-away script): the number of entries and the first entry.
type Fact struct {
	Entries   int
	Realm     string
	Comps     []string
	NameType  uint32
	Timestamp uint32
	KVNO      uint32
	KeyType   uint16
	KeyLen    int
	KeyPrefix string // hex of the first key bytes, "" = not recorded
	HasKVNO32 bool
}

// KnownSamples describes the MIT-produced keytabs shipped in gokrb5's test data
// (test/testdata/test_vectors.go constants and test/testdata/testuser1.testtab).
var KnownSamples = map[string]Fact{
	"testuser1.testtab":                        {12, "TEST.GOKRB5", []string{"testuser1"}, 1, 1505669592, 1, 17, 16, "698c4df8e9f60e7e", true},
	"KEYTAB_TESTUSER1_TEST_GOKRB5":             {12, "TEST.GOKRB5", []string{"testuser1"}, 1, 1505669592, 1, 17, 16, "698c4df8e9f60e7e", true},
	"KEYTAB_TESTUSER2_TEST_GOKRB5":             {12, "TEST.GOKRB5", []string{"testuser2"}, 1, 1505669696, 1, 17, 16, "", true},
	"KEYTAB_TESTUSER1_TEST_GOKRB5_WRONGPASSWD": {2, "TEST.GOKRB5", []string{"testuser1"}, 1, 1492077509, 1, 17, 16, "39a9a382153105f8", false},
	"KEYTAB_SYSHTTP_TEST_GOKRB5":               {1, "TEST.GOKRB5", []string{"sysHTTP"}, 1, 1494074799, 2, 18, 32, "43763702868978d1", false},
	"KEYTAB_SYSHTTP_RESDOM_GOKRB5":             {6, "RESDOM.GOKRB5", []string{"HTTP", "host.resdom.gokrb5"}, 1, 1513985031, 1, 18, 32, "e53945463c231ab7", true},
	"HTTP_KEYTAB":                              {4, "TEST.GOKRB5", []string{"HTTP", "host.test.gokrb5"}, 1, 1494074588, 1, 17, 16, "57a7754c70c4d85c", false},
	"KEYTAB_TESTUSER1_USER_GOKRB5":             {10, "USER.GOKRB5", []string{"testuser1"}, 1, 1585496693, 1, 23, 16, "084768c373663b3b", true},
	"KEYTAB_SYSHTTP_RES_GOKRB5":                {5, "RES.GOKRB5", []string{"sysHTTP"}, 1, 1585085999, 2, 23, 16, "084768c373663b3b", true},
}

// hand-assembled files: every byte below was written down from the format document.
const (
	// version 1, little-endian host: a 7-byte hole, an entry without the 32-bit key version and two
	// trailing bytes, an entry with no components whose 32-bit key version 0x0101 overrides vno8 = 1,
	// an end mark.
	handV1LE = "0501" +
		"f9ffffff" + "00000000000000" +
		"18000000" + "0200" + "0300522e58" + "02006162" + "78563412" + "07" + "1700" + "0200aabb" + "0000" +
		"13000000" + "0100" + "01005a" + "ffffffff" + "01" + "1200" + "0100cc" + "01010000" +
		"00000000"
	// version 2: an entry whose 32-bit key version is zero (so vno8 = 9 stands) with three ignored
	// trailing bytes, a 1-byte hole, an entry with two components (the second empty), name type
	// 0x80000002, timestamp 0x80000000 and no 32-bit key version, a trailing 5-byte hole; no end mark.
	handV2 = "0502" +
		"0000001d" + "0001" + "000141" + "000175" + "00000001" + "00000002" + "09" + "0011" + "0001dd" + "00000000" + "eeeeee" +
		"ffffffff" + "00" +
		"0000001a" + "0002" + "0002422e" + "000178" + "0000" + "80000002" + "80000000" + "ff" + "ffff" + "0002abcd" +
		"fffffffb" + "0000000000"
)

func unhex(s string) []byte {
	b, err := hex.DecodeString(s)
	if err != nil {
		panic(err)
	}
	return b
}

func hostLittleEndian() bool {
	var b [2]byte
	order1, _ := order(1)
	order1.PutUint16(b[:], 1)
	return b[0] == 1
}

// SelfTest checks the reader and writer against hand-assembled files and against real keytabs
// (name -> content; names found in KnownSamples are also compared with the recorded facts).
func SelfTest(samples map[string][]byte) error {
	// 1. hand-assembled files
	if hostLittleEndian() {
		v, es, err := Read(unhex(handV1LE))
		if err != nil || v != 1 {
			return fmt.Errorf("keytabfmt self-test: hand-assembled v1 file: version %d, %v", v, err)
		}
		want := []Entry{
			{Realm: "R.X", Components: []string{"ab"}, Timestamp: 0x12345678, KVNO8: 7, KeyType: 23, Key: []byte{0xaa, 0xbb}},
			{Realm: "Z", Components: []string{}, Timestamp: 0xffffffff, KVNO8: 1, KeyType: 18, Key: []byte{0xcc}, HasKVNO32: true, KVNO32: 0x101},
		}
		if !reflect.DeepEqual(es, want) {
			return fmt.Errorf("keytabfmt self-test: hand-assembled v1 file reads as %+v", es)
		}
		if es[0].KVNO() != 7 || es[1].KVNO() != 0x101 {
			return fmt.Errorf("keytabfmt self-test: effective key versions %d, %d", es[0].KVNO(), es[1].KVNO())
		}
	}
	{
		v, es, err := Read(unhex(handV2))
		if err != nil || v != 2 {
			return fmt.Errorf("keytabfmt self-test: hand-assembled v2 file: version %d, %v", v, err)
		}
		want := []Entry{
			{Realm: "A", Components: []string{"u"}, HasNameType: true, NameType: 1, Timestamp: 2, KVNO8: 9, KeyType: 17, Key: []byte{0xdd}, HasKVNO32: true, KVNO32: 0},
			{Realm: "B.", Components: []string{"x", ""}, HasNameType: true, NameType: 0x80000002, Timestamp: 0x80000000, KVNO8: 0xff, KeyType: 0xffff, Key: []byte{0xab, 0xcd}},
		}
		if !reflect.DeepEqual(es, want) {
			return fmt.Errorf("keytabfmt self-test: hand-assembled v2 file reads as %+v", es)
		}
		if es[0].KVNO() != 9 || es[1].KVNO() != 255 {
			return fmt.Errorf("keytabfmt self-test: effective key versions %d, %d", es[0].KVNO(), es[1].KVNO())
		}
	}
	hand := map[string][]byte{"hand-v2": unhex(handV2)}
	if hostLittleEndian() {
		hand["hand-v1"] = unhex(handV1LE)
	}
	for name, b := range hand {
		f, err := ReadLayout(b)
		if err != nil {
			return fmt.Errorf("keytabfmt self-test: %s: %v", name, err)
		}
		out, fields, err := f.BytesMap()
		if err != nil || !bytes.Equal(out, b) {
			return fmt.Errorf("keytabfmt self-test: %s is not re-written byte-identically (%v)", name, err)
		}
		if FieldAt(fields, 0) != "header" || FieldAt(fields, len(out)) == "header" {
			return fmt.Errorf("keytabfmt self-test: field map of %s is wrong", name)
		}
	}
	// 2. things a reader must refuse
	for _, bad := range []string{"", "05", "0402", "0503", "050200000010" + "0001", "0502fffffff0" + "00", "0502" + "80000000",
		"0502" + "0000000b" + "0001" + "0001" + "41" + "0005" + "4242", "0502" + "00"} {
		if _, _, err := Read(unhex(bad)); err == nil {
			return fmt.Errorf("keytabfmt self-test: malformed file %s accepted", bad)
		}
	}
	// 3. an empty keytab is the bare header, with or without an end mark
	for _, ok := range []string{"0502", "0501", "050200000000", "050100000000"} {
		if _, es, err := Read(unhex(ok)); err != nil || len(es) != 0 {
			return fmt.Errorf("keytabfmt self-test: empty keytab %s: %v, %d entries", ok, err, len(es))
		}
	}
	// 4. real files
	for name, b := range samples {
		f, err := ReadLayout(b)
		if err != nil {
			return fmt.Errorf("keytabfmt self-test: sample %s: %v", name, err)
		}
		out, err := f.Bytes()
		if err != nil || !bytes.Equal(out, b) {
			return fmt.Errorf("keytabfmt self-test: sample %s is not re-written byte-identically (%v)", name, err)
		}
		v, es, _ := Read(b)
		// the samples were written by MIT tools without holes or slack, so the plain layout of the
		// entries is the file itself
		if can, err := Canonical(v, es).Bytes(); err != nil || !bytes.Equal(can, b) {
			return fmt.Errorf("keytabfmt self-test: sample %s differs from the plain layout of its entries (%v)", name, err)
		}
		k, known := KnownSamples[name]
		if !known {
			continue
		}
		if v != 2 || len(es) != k.Entries {
			return fmt.Errorf("keytabfmt self-test: sample %s: version %d with %d entries, recorded 2 / %d", name, v, len(es), k.Entries)
		}
		e := es[0]
		if e.Realm != k.Realm || !reflect.DeepEqual(e.Components, k.Comps) || !e.HasNameType || e.NameType != k.NameType ||
			e.Timestamp != k.Timestamp || e.KVNO() != k.KVNO || uint32(e.KVNO8) != k.KVNO || e.KeyType != k.KeyType || len(e.Key) != k.KeyLen ||
			e.HasKVNO32 != k.HasKVNO32 || !bytes.HasPrefix(e.Key, unhex(k.KeyPrefix)) {
			return fmt.Errorf("keytabfmt self-test: sample %s: first entry reads as %+v, recorded %+v", name, e, k)
		}
	}
	return nil
}
