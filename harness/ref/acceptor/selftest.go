package acceptor

import (
	"encoding/base64"
	"encoding/binary"
	"fmt"
	"time"

	"verif/harness/kgen"
	"verif/harness/mint"
	"verif/harness/ref/der"
	ref "verif/harness/ref/krbcrypto"
)

// vector is one self-test token: a specification, an optional defect and the class the acceptor must report.
type vector struct {
	name   string
	want   string // "" = accept
	mutate func(s *spec)
}

type spec struct {
	tktET, sessET int32
	svcKey        []byte
	tktKey        []byte // key the ticket is actually encrypted under
	tktUsage      uint32
	authUsage     uint32
	sname, realm  string
	cname, crealm string
	acname        string
	acrealm       string
	ctime         time.Time
	start, end    time.Time
	flags         uint32
	cksum         *der.M
	framing       string // spnego | krb5 | bare-init | resp | spnego-ntlm-first | spnego-no-token | spnego-empty-mechs
	tokID         []byte
	trailing      bool
	apOptions     uint32
	authET        int32
	kvno          int
}

// GSSChecksum renders the RFC 4121 §4.1.1 checksum field for the given flags (no delegation).
func GSSChecksum(flags uint32) []byte {
	b := make([]byte, 24)
	binary.LittleEndian.PutUint32(b[0:], 16)
	binary.LittleEndian.PutUint32(b[20:], flags)
	return b
}

func gssCk(b []byte) *der.M {
	m := der.M{"cksumtype": int64(CksumTypeGSS), "checksum": b}
	return &m
}

func (s *spec) token(seed uint64) []byte {
	kv := s.kvno
	t := &mint.TicketSpec{Realm: s.realm, SName: s.sname, SNameType: 2, KVNO: &kv, EncKey: mint.Key{EType: s.tktET, Value: s.tktKey}, Usage: s.tktUsage,
		Conf: kgen.DetBytes(seed, "acc/tconf", 16), Flags: s.flags, Session: mint.Key{EType: s.sessET, Value: ref.RandomKey(s.sessET, kgen.DetBytes(seed, "acc/sess", 32))},
		CRealm: s.crealm, CName: s.cname, CNameType: 1, AuthTime: s.start, StartTime: &s.start, EndTime: s.end}
	a := &mint.AuthSpec{CRealm: s.acrealm, CName: s.acname, CNameType: 1, CTime: s.ctime, Cksum: s.cksum, Key: t.Session, Usage: s.authUsage,
		Conf: kgen.DetBytes(seed, "acc/aconf", 16)}
	if s.authET != 0 {
		a.Key = mint.Key{EType: s.authET, Value: ref.RandomKey(s.authET, kgen.DetBytes(seed, "acc/sess2", 32))}
	}
	ap := mint.APReq(t, a, s.apOptions)
	inner := append(append([]byte{}, s.tokID...), ap...)
	mech := der.GSSWrap(der.OIDKRB5, inner)
	krb, ntlm := any(der.OIDKRB5), any(der.OIDNTLMSSP)
	var tok []byte
	switch s.framing {
	case "krb5":
		tok = mech
	case "bare-init":
		tok = der.Ctx(0, der.NegTokenInit.MustEncode(der.M{"mechTypes": []any{krb}, "mechToken": mech}))
	case "resp":
		tok = der.Ctx(1, der.NegTokenResp.MustEncode(der.M{"negState": int64(1), "supportedMech": der.OIDKRB5, "responseToken": mech}))
	case "spnego-resp-inside":
		tok = der.GSSWrap(der.OIDSPNEGO, der.Ctx(1, der.NegTokenResp.MustEncode(der.M{"negState": int64(1), "responseToken": mech})))
	case "spnego-ntlm-first":
		tok = der.GSSWrap(der.OIDSPNEGO, der.Ctx(0, der.NegTokenInit.MustEncode(der.M{"mechTypes": []any{ntlm, krb}, "mechToken": mech})))
	case "spnego-no-token":
		tok = der.GSSWrap(der.OIDSPNEGO, der.Ctx(0, der.NegTokenInit.MustEncode(der.M{"mechTypes": []any{krb}})))
	case "spnego-empty-mechs":
		tok = der.GSSWrap(der.OIDSPNEGO, der.Ctx(0, der.NegTokenInit.MustEncode(der.M{"mechTypes": []any{}, "mechToken": mech})))
	case "spnego-mskrb5":
		tok = der.GSSWrap(der.OIDSPNEGO, der.Ctx(0, der.NegTokenInit.MustEncode(der.M{"mechTypes": []any{any(der.OIDMSKRB5), krb}, "mechToken": mech})))
	default:
		tok = der.GSSWrap(der.OIDSPNEGO, der.Ctx(0, der.NegTokenInit.MustEncode(der.M{"mechTypes": []any{krb}, "mechToken": mech})))
	}
	if s.trailing {
		tok = append(tok, 0)
	}
	return tok
}

// SelfTest mints tokens with the reference encoder and crypto and requires the acceptor to accept
// the valid ones (every ticket etype x session etype, both framings) and to reject every catalogued
// defect with the expected root-cause class.
func SelfTest() error {
	now := time.Date(2024, 5, 17, 10, 30, 0, 123456000, time.UTC)
	base := func(tet, set int32, seed uint64) *spec {
		k := ref.RandomKey(tet, kgen.DetBytes(seed, "acc/svc", 32))
		return &spec{tktET: tet, sessET: set, svcKey: k, tktKey: k, tktUsage: 2, authUsage: 11, sname: "HTTP/web.example.com", realm: "EXAMPLE.COM",
			cname: "alice", crealm: "EXAMPLE.COM", acname: "alice", acrealm: "EXAMPLE.COM", ctime: now.Add(-2 * time.Second),
			start: now.Add(-time.Hour).Truncate(time.Second), end: now.Add(8 * time.Hour).Truncate(time.Second), flags: mint.Flag(10),
			cksum: gssCk(GSSChecksum(FlagInteg | FlagConf)), framing: "spnego", tokID: []byte{1, 0}, kvno: 2}
	}
	cfgFor := func(s *spec) Config {
		return Config{SPN: "HTTP/web.example.com", Realm: "EXAMPLE.COM", Keys: []Key{{EType: s.tktET, KVNO: 2, Value: s.svcKey}}, Now: now}
	}
	n := 0
	for _, tet := range ref.ETypes {
		for _, set := range ref.ETypes {
			for _, fr := range []string{"spnego", "krb5", "spnego-mskrb5"} {
				s := base(tet, set, uint64(tet)*100+uint64(set))
				s.framing = fr
				res, err := AcceptToken(cfgFor(s), s.token(7))
				if err != nil {
					return fmt.Errorf("acceptor self-test: valid token (ticket etype %d, session etype %d, %s) rejected: %v", tet, set, fr, err)
				}
				if res.CName != "alice" || res.CRealm != "EXAMPLE.COM" || res.TicketSName != "HTTP/web.example.com" || res.SessionEType != set ||
					res.TicketEType != tet || res.GSSFlags != FlagInteg|FlagConf || res.CUsec != 123456 || !res.CTime.Equal(now.Add(-2*time.Second).Truncate(time.Second)) {
					return fmt.Errorf("acceptor self-test: fields of an accepted token are wrong: %+v", res)
				}
				n++
			}
		}
	}
	other := func(et int32) []byte { return ref.RandomKey(et, kgen.DetBytes(99, "acc/other", 32)) }
	deleg := func(dl uint16, extra int, opt uint16) []byte {
		b := GSSChecksum(FlagDeleg | FlagInteg)
		b = binary.LittleEndian.AppendUint16(b, opt)
		b = binary.LittleEndian.AppendUint16(b, dl)
		return append(b, make([]byte, extra)...)
	}
	vectors := []vector{
		{"wrong-service-key", "ticket:decrypt", func(s *spec) { s.tktKey = other(s.tktET) }},
		{"ticket-usage-3", "ticket:decrypt", func(s *spec) { s.tktUsage = 3 }},
		{"auth-usage-7", "auth:decrypt", func(s *spec) { s.authUsage = 7 }},
		{"auth-other-key", "auth:decrypt", func(s *spec) { s.authET = s.sessET }},
		{"cname-mismatch", "auth:cname-mismatch", func(s *spec) { s.acname = "mallory" }},
		{"cname-extra-component", "auth:cname-mismatch", func(s *spec) { s.acname = "alice/admin" }},
		{"crealm-mismatch", "auth:crealm-mismatch", func(s *spec) { s.acrealm = "EVIL.ORG" }},
		{"ctime-past", "auth:skew", func(s *spec) { s.ctime = now.Add(-5*time.Minute - 2*time.Second) }},
		{"ctime-future", "auth:skew", func(s *spec) { s.ctime = now.Add(5*time.Minute + 2*time.Second) }},
		{"ctime-past-inside", "", func(s *spec) { s.ctime = now.Add(-5*time.Minute + 2*time.Second) }},
		{"ctime-future-inside", "", func(s *spec) { s.ctime = now.Add(5*time.Minute - 2*time.Second) }},
		{"ticket-expired", "ticket:expired", func(s *spec) { s.end = now.Add(-6 * time.Minute).Truncate(time.Second) }},
		{"ticket-expired-inside-skew", "", func(s *spec) { s.end = now.Add(-4 * time.Minute).Truncate(time.Second) }},
		{"ticket-not-yet-valid", "ticket:not-yet-valid", func(s *spec) { s.start = now.Add(6 * time.Minute).Truncate(time.Second) }},
		{"ticket-invalid-flag", "ticket:invalid-flag", func(s *spec) { s.flags |= mint.Flag(7) }},
		{"sname-other", "ticket:sname", func(s *spec) { s.sname = "HTTP/other.example.com" }},
		{"sname-prefix", "ticket:sname", func(s *spec) { s.sname = "HTTP" }},
		{"realm-other", "ticket:realm", func(s *spec) { s.realm = "OTHER.COM" }},
		{"kvno-other", "ticket:kvno", func(s *spec) { s.kvno = 3 }},
		{"cksum-absent", "cksum:absent", func(s *spec) { s.cksum = nil }},
		{"cksum-type", "cksum:type", func(s *spec) {
			s.cksum = &der.M{"cksumtype": int64(16), "checksum": GSSChecksum(FlagInteg)}
		}},
		{"cksum-short", "cksum:short", func(s *spec) { s.cksum = gssCk(GSSChecksum(FlagInteg)[:23]) }},
		{"cksum-lgth", "cksum:lgth", func(s *spec) {
			b := GSSChecksum(FlagInteg)
			b[0] = 24
			s.cksum = gssCk(b)
		}},
		{"cksum-lgth-bigendian", "cksum:lgth", func(s *spec) {
			b := GSSChecksum(FlagInteg)
			b[0], b[3] = 0, 16
			s.cksum = gssCk(b)
		}},
		{"cksum-deleg-no-fields", "cksum:deleg", func(s *spec) { s.cksum = gssCk(GSSChecksum(FlagDeleg | FlagInteg)) }},
		{"cksum-deleg-short", "cksum:deleg", func(s *spec) { s.cksum = gssCk(deleg(40, 10, 1)) }},
		{"cksum-deleg-bad-opt", "cksum:deleg", func(s *spec) { s.cksum = gssCk(deleg(8, 8, 2)) }},
		{"cksum-deleg-ok", "", func(s *spec) { s.cksum = gssCk(deleg(8, 8, 1)) }},
		{"cksum-25-bytes", "cksum:length", func(s *spec) { s.cksum = gssCk(append(GSSChecksum(FlagInteg), 0)) }},
		{"first-mech-ntlm", "spnego:first-mech-not-krb5", func(s *spec) { s.framing = "spnego-ntlm-first" }},
		{"no-mechtoken", "spnego:no-mechtoken", func(s *spec) { s.framing = "spnego-no-token" }},
		{"empty-mechtypes", "spnego:no-mechtypes", func(s *spec) { s.framing = "spnego-empty-mechs" }},
		{"bare-negtokeninit", "framing:gss", func(s *spec) { s.framing = "bare-init" }},
		{"negtokenresp", "framing:gss", func(s *spec) { s.framing = "resp" }},
		{"negtokenresp-in-gss", "framing:spnego-choice", func(s *spec) { s.framing = "spnego-resp-inside" }},
		{"tok-id-ap-rep", "mechtoken:tok-id", func(s *spec) { s.tokID = []byte{2, 0} }},
		{"tok-id-absent", "apreq:decode", func(s *spec) { s.tokID = []byte{1, 0, 0} }},
		{"trailing-byte", "framing:gss", func(s *spec) { s.trailing = true }},
		{"use-session-key", "apreq:use-session-key", func(s *spec) { s.apOptions = 1 << 30 }},
		{"mutual-required", "", func(s *spec) { s.apOptions = 1 << 29 }},
	}
	for vi, v := range vectors {
		for ei, et := range ref.ETypes {
			s := base(et, ref.ETypes[(ei+vi)%len(ref.ETypes)], uint64(1000+vi*10+ei))
			v.mutate(s)
			_, err := AcceptToken(cfgFor(s), s.token(uint64(vi)))
			if got := ClassOf(err); got != v.want {
				return fmt.Errorf("acceptor self-test: vector %q (etype %d): want class %q, have %q (%v)", v.name, et, v.want, got, err)
			}
			n++
		}
	}
	// no key of the ticket's etype
	s := base(ref.AES256SHA1, ref.AES128SHA1, 5)
	cfg := cfgFor(s)
	cfg.Keys[0].EType, cfg.Keys[0].Value = ref.AES128SHA1, other(ref.AES128SHA1)
	if _, err := AcceptToken(cfg, s.token(1)); ClassOf(err) != "ticket:nokey" {
		return fmt.Errorf("acceptor self-test: missing key etype: %v", err)
	}
	// replay: the same token twice, then the same authenticator time in a different token
	cfg = cfgFor(s)
	cfg.Replay = NewReplayCache()
	tok := s.token(1)
	if _, err := AcceptToken(cfg, tok); err != nil {
		return fmt.Errorf("acceptor self-test: first presentation rejected: %v", err)
	}
	if _, err := AcceptToken(cfg, tok); ClassOf(err) != "auth:replay" {
		return fmt.Errorf("acceptor self-test: second presentation not detected: %v", err)
	}
	s.ctime = s.ctime.Add(time.Microsecond)
	if _, err := AcceptToken(cfg, s.token(1)); err != nil {
		return fmt.Errorf("acceptor self-test: a later authenticator was rejected: %v", err)
	}
	// header syntax
	hv := "Negotiate " + base64.StdEncoding.EncodeToString(base(ref.AES256SHA1, ref.AES256SHA1, 3).token(1))
	if _, err := ParseHeader(hv); err != nil {
		return fmt.Errorf("acceptor self-test: header: %v", err)
	}
	for in, want := range map[string]string{"Negotiate": "header:no-token", "Basic Zm9vOmJhcg==": "header:scheme", "Negotiate !!!!": "header:base64",
		"Negotiate  ": "header:no-token", "Negotiate YWJj\n": "header:base64", "Negotiate YWJjZA": "header:base64"} {
		if _, err := ParseHeader(in); ClassOf(err) != want {
			return fmt.Errorf("acceptor self-test: header %q: want %s, have %v", in, want, err)
		}
	}
	if _, err := AcceptHeader(cfgFor(base(ref.AES256SHA1, ref.AES256SHA1, 3)), hv); err != nil {
		return fmt.Errorf("acceptor self-test: AcceptHeader: %v", err)
	}
	if n < 300 {
		return fmt.Errorf("acceptor self-test: only %d vectors ran", n)
	}
	return nil
}

// SelfTestCaptured runs the acceptor on a token captured from a real client (an MIT GSS-API initiator)
// for which no matching service key is available: the RFC 2743 framing, the NegTokenInit, the RFC 4121
// mechanism token and the AP-REQ must decode strictly, the ticket must be recognised as one for the given
// service and key version, and processing must stop exactly at the ticket decryption.
func SelfTestCaptured(tok []byte, spn, realm string, keys []Key, wantMechs int, wantEType int32, wantKVNO int) error {
	cfg := Config{SPN: spn, Realm: realm, Keys: keys, Now: time.Date(2040, 1, 1, 0, 0, 0, 0, time.UTC)}
	res, err := AcceptToken(cfg, tok)
	if c := ClassOf(err); c != "ticket:decrypt" {
		return fmt.Errorf("captured token: want processing to reach and stop at ticket:decrypt, have %v", err)
	}
	if res.Framing != "spnego" || len(res.MechTypes) != wantMechs || res.TicketSName != spn || res.TicketRealm != realm || res.TicketEType != wantEType || res.TicketKVNO != wantKVNO {
		return fmt.Errorf("captured token: decoded fields are wrong: %+v", res)
	}
	cfg.SPN = spn + "x"
	if _, err := AcceptToken(cfg, tok); ClassOf(err) != "ticket:sname" {
		return fmt.Errorf("captured token presented to another service: want ticket:sname, have %v", err)
	}
	if _, err := AcceptToken(cfg, tok[:len(tok)-1]); ClassOf(err) != "framing:gss" {
		return fmt.Errorf("truncated captured token: want framing:gss, have %v", err)
	}
	return nil
}
