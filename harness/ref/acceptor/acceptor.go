// Package acceptor is an independent acceptor of Kerberos AP-REQ messages carried in HTTP
// "Negotiate" tokens. It is written from the RFC texts only:
//
//	RFC 4559 §4      Authorization: Negotiate <base64 token>
//	RFC 2743 §3.1    initial context token framing  [APPLICATION 0] { thisMech OID, innerToken }
//	RFC 4178 §4.2    NegotiationToken ::= CHOICE { negTokenInit [0] NegTokenInit, negTokenResp [1] ... }
//	RFC 4121 §4.1    KRB5 mechanism token: TOK_ID 01 00 followed by the AP-REQ
//	RFC 4121 §4.1.1  authenticator checksum of type 0x8003 (Lgth = 16, Bnd, Flags [, delegation])
//	RFC 4120 §3.2.3  receipt of KRB_AP_REQ (key selection, ticket and authenticator decryption with
//	                 key usages 2 and 11, cname/crealm match, clock skew, replay, ticket validity)
//
// over the strict DER codec ref/der and the reference crypto ref/krbcrypto. It shares no code with
// gokrb5 and is the oracle that judges the tokens gokrb5's SPNEGO client emits.
package acceptor

import (
	"encoding/base64"
	"encoding/binary"
	"fmt"
	"strings"
	"sync"
	"time"

	"verif/harness/ref/der"
	ref "verif/harness/ref/krbcrypto"
)

// Key is one long-term key of the service.
type Key struct {
	EType int32
	KVNO  int // 0 = matches any key version
	Value []byte
}

// Config describes the service that receives the token.
type Config struct {
	SPN        string        // the service principal this acceptor serves, "HTTP/host"
	Realm      string        // its realm
	Keys       []Key         // its long-term keys
	Now        time.Time     // the acceptor's clock
	Skew       time.Duration // permitted clock skew; 0 = five minutes (RFC 4120 §3.2.3 suggestion)
	Replay     *ReplayCache  // nil = no replay detection
	ClientAddr []byte        // when set and the ticket carries caddr, the address must be listed
}

// Result is what an accepted (or partially processed) token says.
type Result struct {
	Framing      string // "spnego" | "krb5" (raw mechanism token)
	MechTypes    [][]int
	TicketRealm  string
	TicketSName  string
	TicketEType  int32
	TicketKVNO   int // -1 = absent
	SessionEType int32
	AuthEType    int32
	CName        string
	CRealm       string
	CTime        time.Time
	CUsec        int
	AuthTime     time.Time
	StartTime    time.Time
	EndTime      time.Time
	TicketFlags  uint32
	APOptions    uint32
	GSSFlags     uint32
	CksumLen     int
	HasSubkey    bool
	HasSeq       bool
}

// Error is a rejection with a root-cause class (stable, suitable for failure signatures).
type Error struct {
	Class string
	Msg   string
}

func (e *Error) Error() string { return e.Class + ": " + e.Msg }

func rej(class, format string, a ...any) *Error {
	return &Error{Class: class, Msg: fmt.Sprintf(format, a...)}
}

// ClassOf returns the class of an error produced by this package ("" for nil).
func ClassOf(err error) string {
	if err == nil {
		return ""
	}
	if e, ok := err.(*Error); ok {
		return e.Class
	}
	return "other"
}

// ReplayCache remembers the authenticators seen (RFC 4120 §3.2.3: server name, client name, time and
// microsecond fields).
type ReplayCache struct {
	mu   sync.Mutex
	seen map[string]bool
}

// NewReplayCache creates an empty cache.
func NewReplayCache() *ReplayCache { return &ReplayCache{seen: map[string]bool{}} }

func (c *ReplayCache) add(k string) bool {
	c.mu.Lock()
	defer c.mu.Unlock()
	if c.seen[k] {
		return false
	}
	c.seen[k] = true
	return true
}

// GSS context flags of RFC 4121 §4.1.1.1.
const (
	FlagDeleg    = 1
	FlagMutual   = 2
	FlagReplay   = 4
	FlagSequence = 8
	FlagConf     = 16
	FlagInteg    = 32
)

// CksumTypeGSS is the authenticator checksum type of RFC 4121 §4.1.1.
const CksumTypeGSS = 0x8003

// ParseHeader extracts the token bytes of an HTTP Authorization (or WWW-Authenticate) value with
// the Negotiate scheme (RFC 4559 §4: auth-scheme "Negotiate", 1*SP, base64 gssapi-data).
func ParseHeader(v string) ([]byte, error) {
	i := strings.IndexByte(v, ' ')
	if i < 0 {
		return nil, rej("header:no-token", "no token after the auth-scheme in %q", trunc(v))
	}
	if !strings.EqualFold(v[:i], "Negotiate") {
		return nil, rej("header:scheme", "auth-scheme is %q, not Negotiate", v[:i])
	}
	data := strings.TrimLeft(v[i:], " ")
	if data == "" {
		return nil, rej("header:no-token", "empty token")
	}
	for i := 0; i < len(data); i++ {
		c := data[i]
		if !(c >= 'A' && c <= 'Z' || c >= 'a' && c <= 'z' || c >= '0' && c <= '9' || c == '+' || c == '/' || c == '=') {
			return nil, rej("header:base64", "character %q is outside the base64 alphabet", c)
		}
	}
	b, err := base64.StdEncoding.Strict().DecodeString(data)
	if err != nil {
		return nil, rej("header:base64", "token is not standard padded base64: %v", err)
	}
	return b, nil
}

func trunc(s string) string {
	if len(s) > 40 {
		return s[:40] + "..."
	}
	return s
}

func oidEq(a, b []int) bool {
	if len(a) != len(b) {
		return false
	}
	for i := range a {
		if a[i] != b[i] {
			return false
		}
	}
	return true
}

// AcceptHeader judges an HTTP Authorization header value.
func AcceptHeader(cfg Config, value string) (*Result, error) {
	tok, err := ParseHeader(value)
	if err != nil {
		return nil, err
	}
	return AcceptToken(cfg, tok)
}

// AcceptToken judges a GSS-API initial context token: SPNEGO NegTokenInit carrying a KRB5
// mechanism token as the optimistic token, or a raw KRB5 mechanism token.
func AcceptToken(cfg Config, tok []byte) (*Result, error) {
	mech, inner, err := der.GSSUnwrap(tok)
	if err != nil {
		return nil, rej("framing:gss", "not an RFC 2743 initial context token: %v", err)
	}
	res := &Result{TicketKVNO: -1}
	switch {
	case oidEq(mech, der.OIDSPNEGO):
		res.Framing = "spnego"
		n, err := der.Parse(inner)
		if err != nil {
			return res, rej("framing:spnego", "NegotiationToken: %v", err)
		}
		if !n.Is(der.Context, 0, true) {
			return res, rej("framing:spnego-choice", "the initial SPNEGO token must be negTokenInit [0], got class %d tag %d", n.Class, n.Tag)
		}
		body, err := n.Explicit()
		if err != nil {
			return res, rej("framing:spnego", "negTokenInit: %v", err)
		}
		nti, err := der.NegTokenInit.DecodeM(body.Raw)
		if err != nil {
			return res, rej("framing:negtokeninit", "%v", err)
		}
		mts, _ := nti["mechTypes"].([]any)
		for _, m := range mts {
			res.MechTypes = append(res.MechTypes, m.([]int))
		}
		if len(res.MechTypes) == 0 {
			return res, rej("spnego:no-mechtypes", "mechTypes is empty")
		}
		// RFC 4178 §4.2.1: the optimistic mechToken belongs to the first mechanism of the list
		if !oidEq(res.MechTypes[0], der.OIDKRB5) && !oidEq(res.MechTypes[0], der.OIDMSKRB5) {
			return res, rej("spnego:first-mech-not-krb5", "the preferred mechanism %v is not Kerberos 5", res.MechTypes[0])
		}
		mt, ok := nti["mechToken"].([]byte)
		if !ok || len(mt) == 0 {
			return res, rej("spnego:no-mechtoken", "no optimistic mechToken: authentication cannot complete in one round trip")
		}
		r2, err := acceptMechToken(cfg, mt, res)
		return r2, err
	case oidEq(mech, der.OIDKRB5):
		res.Framing = "krb5"
		return acceptInner(cfg, inner, res)
	}
	return res, rej("framing:mech", "thisMech %v is neither SPNEGO nor Kerberos 5", mech)
}

func acceptMechToken(cfg Config, mt []byte, res *Result) (*Result, error) {
	mech, inner, err := der.GSSUnwrap(mt)
	if err != nil {
		return res, rej("mechtoken:gss", "mechToken is not an RFC 2743 token: %v", err)
	}
	if !oidEq(mech, der.OIDKRB5) && !oidEq(mech, der.OIDMSKRB5) {
		return res, rej("mechtoken:mech", "mechToken thisMech %v is not Kerberos 5", mech)
	}
	return acceptInner(cfg, inner, res)
}

func acceptInner(cfg Config, inner []byte, res *Result) (*Result, error) {
	if len(inner) < 2 {
		return res, rej("mechtoken:short", "no TOK_ID")
	}
	if inner[0] != 0x01 || inner[1] != 0x00 {
		return res, rej("mechtoken:tok-id", "TOK_ID %02x %02x is not KRB_AP_REQ (01 00)", inner[0], inner[1])
	}
	return acceptAPReq(cfg, inner[2:], res, true)
}

// AcceptAPReq judges a bare AP-REQ (no GSS framing); gss says whether the RFC 4121 checksum is required.
func AcceptAPReq(cfg Config, apreq []byte, gss bool) (*Result, error) {
	return acceptAPReq(cfg, apreq, &Result{Framing: "apreq", TicketKVNO: -1}, gss)
}

// decodePadded decodes the first DER element of a decrypted plaintext under t. Encryption systems
// with padding (des3) leave trailing zero octets, which RFC 4120 §5.2.9 tells receivers to ignore.
func decodePadded(t *der.Type, plain []byte, et int32) (der.M, error) {
	n, rest, err := der.ParseOne(plain)
	if err != nil {
		return nil, err
	}
	if len(rest) > 0 {
		if et != ref.DES3 || len(rest) > 7 {
			return nil, fmt.Errorf("%d bytes follow the encoded value", len(rest))
		}
		for _, b := range rest {
			if b != 0 {
				return nil, fmt.Errorf("non-zero padding after the encoded value")
			}
		}
	}
	return t.DecodeM(n.Raw)
}

func joinName(v any) string { return strings.Join(der.NameStrings(v), "/") }

func be32(b []byte) uint32 {
	var v uint32
	for i := 0; i < 4 && i < len(b); i++ {
		v = v<<8 | uint32(b[i])
	}
	return v
}

func acceptAPReq(cfg Config, raw []byte, res *Result, gss bool) (*Result, error) {
	skew := cfg.Skew
	if skew == 0 {
		skew = 5 * time.Minute
	}
	now := cfg.Now
	if now.IsZero() {
		now = time.Now()
	}
	ap, err := der.APReq.DecodeM(raw)
	if err != nil {
		return res, rej("apreq:decode", "not a conformant AP-REQ: %v", err)
	}
	res.APOptions = be32(ap["ap-options"].([]byte))
	if res.APOptions&(1<<30) != 0 {
		return res, rej("apreq:use-session-key", "USE-SESSION-KEY is set but this service holds no TGT")
	}
	tkt := ap["ticket"].(der.M)
	res.TicketRealm, res.TicketSName = tkt["realm"].(string), joinName(tkt["sname"])
	ted := tkt["enc-part"].(der.M)
	res.TicketEType = int32(ted["etype"].(int64))
	if k, ok := ted["kvno"].(int64); ok {
		res.TicketKVNO = int(k)
	}
	// step 1: is the ticket for us, and do we hold the key (KRB_AP_ERR_NOT_US / NOKEY / BADKEYVER)
	if res.TicketSName != cfg.SPN {
		return res, rej("ticket:sname", "the ticket is for service %q, this service is %q", res.TicketSName, cfg.SPN)
	}
	if res.TicketRealm != cfg.Realm {
		return res, rej("ticket:realm", "the ticket is for realm %q, this service is in %q", res.TicketRealm, cfg.Realm)
	}
	var key *Key
	etypeSeen := false
	for i := range cfg.Keys {
		k := &cfg.Keys[i]
		if k.EType != res.TicketEType {
			continue
		}
		etypeSeen = true
		if k.KVNO != 0 && res.TicketKVNO >= 0 && k.KVNO != res.TicketKVNO {
			continue
		}
		key = k
		break
	}
	if key == nil {
		if etypeSeen {
			return res, rej("ticket:kvno", "no key of version %d for etype %d", res.TicketKVNO, res.TicketEType)
		}
		return res, rej("ticket:nokey", "no service key of etype %d", res.TicketEType)
	}
	// step 2: decrypt the ticket (key usage 2)
	tplain, _, err := ref.Decrypt(res.TicketEType, key.Value, 2, ted["cipher"].([]byte))
	if err != nil {
		return res, rej("ticket:decrypt", "the ticket does not decrypt under the service key with usage 2: %v", err)
	}
	etp, err := decodePadded(der.EncTicketPart, tplain, res.TicketEType)
	if err != nil {
		return res, rej("ticket:decode", "EncTicketPart: %v", err)
	}
	sk := etp["key"].(der.M)
	res.SessionEType = int32(sk["keytype"].(int64))
	skey := sk["keyvalue"].([]byte)
	if ref.KeyLen(res.SessionEType) == 0 || len(skey) != ref.KeyLen(res.SessionEType) {
		return res, rej("ticket:session-key", "session key of type %d has %d bytes", res.SessionEType, len(skey))
	}
	res.TicketFlags = be32(etp["flags"].([]byte))
	res.AuthTime = etp["authtime"].(time.Time)
	res.StartTime = res.AuthTime
	if st, ok := etp["starttime"].(time.Time); ok {
		res.StartTime = st
	}
	res.EndTime = etp["endtime"].(time.Time)
	// step 3: decrypt the authenticator with the session key (key usage 11)
	aed := ap["authenticator"].(der.M)
	res.AuthEType = int32(aed["etype"].(int64))
	if res.AuthEType != res.SessionEType {
		return res, rej("auth:etype", "authenticator encrypted with etype %d, the session key has type %d", res.AuthEType, res.SessionEType)
	}
	aplain, _, err := ref.Decrypt(res.AuthEType, skey, 11, aed["cipher"].([]byte))
	if err != nil {
		return res, rej("auth:decrypt", "the authenticator does not decrypt under the ticket session key with usage 11: %v", err)
	}
	auth, err := decodePadded(der.Authenticator, aplain, res.AuthEType)
	if err != nil {
		return res, rej("auth:decode", "Authenticator: %v", err)
	}
	// step 4: the authenticator names the ticket's client (KRB_AP_ERR_BADMATCH)
	res.CName, res.CRealm = joinName(etp["cname"]), etp["crealm"].(string)
	if joinName(auth["cname"]) != res.CName {
		return res, rej("auth:cname-mismatch", "authenticator cname %q, ticket cname %q", joinName(auth["cname"]), res.CName)
	}
	if auth["crealm"].(string) != res.CRealm {
		return res, rej("auth:crealm-mismatch", "authenticator crealm %q, ticket crealm %q", auth["crealm"], res.CRealm)
	}
	// step 5: addresses (KRB_AP_ERR_BADADDR)
	if ca, ok := etp["caddr"].([]any); ok && cfg.ClientAddr != nil {
		found := false
		for _, a := range ca {
			if string(a.(der.M)["address"].([]byte)) == string(cfg.ClientAddr) {
				found = true
			}
		}
		if !found {
			return res, rej("ticket:caddr", "the sender's address is not among the ticket's addresses")
		}
	}
	// step 6: clock skew (KRB_AP_ERR_SKEW)
	res.CTime = auth["ctime"].(time.Time)
	res.CUsec = int(auth["cusec"].(int64))
	ct := res.CTime.Add(time.Duration(res.CUsec) * time.Microsecond)
	if d := now.Sub(ct); d > skew || d < -skew {
		return res, rej("auth:skew", "authenticator time %v differs from the service clock %v by more than %v", ct.UTC(), now.UTC(), skew)
	}
	// step 7: ticket validity (KRB_AP_ERR_TKT_NYV / TKT_EXPIRED)
	if res.TicketFlags&(1<<(31-7)) != 0 {
		return res, rej("ticket:invalid-flag", "the INVALID flag is set")
	}
	if res.StartTime.Sub(now) > skew {
		return res, rej("ticket:not-yet-valid", "ticket starts at %v, now %v", res.StartTime.UTC(), now.UTC())
	}
	if now.Sub(res.EndTime) > skew {
		return res, rej("ticket:expired", "ticket ended at %v, now %v", res.EndTime.UTC(), now.UTC())
	}
	// RFC 4121 §4.1.1: the authenticator checksum
	if sub, ok := auth["subkey"].(der.M); ok {
		res.HasSubkey = true
		st := int32(sub["keytype"].(int64))
		if ref.KeyLen(st) == 0 || len(sub["keyvalue"].([]byte)) != ref.KeyLen(st) {
			return res, rej("auth:subkey", "sub-session key of type %d has %d bytes", st, len(sub["keyvalue"].([]byte)))
		}
	}
	_, res.HasSeq = auth["seq-number"]
	ck, hasCk := auth["cksum"].(der.M)
	if gss {
		if !hasCk {
			return res, rej("cksum:absent", "the authenticator has no checksum; RFC 4121 requires type 0x8003")
		}
		if ct := ck["cksumtype"].(int64); ct != CksumTypeGSS {
			return res, rej("cksum:type", "authenticator checksum type %d, RFC 4121 requires 0x8003 (32771)", ct)
		}
		cb := ck["checksum"].([]byte)
		res.CksumLen = len(cb)
		if len(cb) < 24 {
			return res, rej("cksum:short", "checksum field has %d bytes, at least 24 are required", len(cb))
		}
		if l := binary.LittleEndian.Uint32(cb[0:4]); l != 16 {
			return res, rej("cksum:lgth", "Lgth is %d, must be 16", l)
		}
		res.GSSFlags = binary.LittleEndian.Uint32(cb[20:24])
		if res.GSSFlags&FlagDeleg != 0 {
			if len(cb) < 28 {
				return res, rej("cksum:deleg", "GSS_C_DELEG_FLAG set but no DlgOpt/Dlgth fields (%d bytes)", len(cb))
			}
			if o := binary.LittleEndian.Uint16(cb[24:26]); o != 1 {
				return res, rej("cksum:deleg", "DlgOpt is %d, must be 1", o)
			}
			dl := int(binary.LittleEndian.Uint16(cb[26:28]))
			if len(cb) < 28+dl || dl == 0 {
				return res, rej("cksum:deleg", "Dlgth %d does not fit in %d bytes", dl, len(cb))
			}
		} else if len(cb) != 24 && len(cb) < 28 {
			return res, rej("cksum:length", "checksum field has %d bytes: neither 24 nor a valid extended form", len(cb))
		}
	}
	// step 8: replay (KRB_AP_ERR_REPEAT) — recorded last, so that only otherwise valid authenticators enter the cache
	if cfg.Replay != nil {
		k := fmt.Sprintf("%s|%s@%s|%d.%06d", cfg.SPN, res.CName, res.CRealm, res.CTime.Unix(), res.CUsec)
		if !cfg.Replay.add(k) {
			return res, rej("auth:replay", "authenticator (%s@%s, %v +%dus) was already presented to %s", res.CName, res.CRealm, res.CTime.UTC(), res.CUsec, cfg.SPN)
		}
	}
	return res, nil
}
