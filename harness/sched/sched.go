// Package sched is a cooperative scheduler for code instrumented with yield hooks: exactly one
// thread runs at a time; at each yield the running thread parks and the scheduler picks the next
// runnable thread from a choice sequence. Running all maximal choice sequences (DFS) enumerates
// every interleaving at yield-point granularity.
package sched

import (
	"fmt"
	"time"
)

type event struct {
	thread int
	point  string
	done   bool
}

// Run executes the thread bodies under the schedule given by choices (indices into the list of
// runnable threads at each step; missing entries default to 0). It returns the branching factor
// seen at every step (for DFS), the trace, and an error if a thread blocked outside a yield
// (possible deadlock). install must set the yield hook to the given function and uninstall it
// when called with nil.
func Run(bodies []func(), choices []int, install func(func(string))) (branch []int, trace []string, err error) {
	n := len(bodies)
	events := make(chan event)
	resume := make([]chan struct{}, n)
	current := -1
	install(func(point string) {
		me := current
		events <- event{thread: me, point: point}
		<-resume[me]
	})
	defer install(nil)
	started := make([]bool, n)
	finished := make([]bool, n)
	for i := range resume {
		resume[i] = make(chan struct{})
	}
	runnable := func() []int {
		r := []int{}
		for i := 0; i < n; i++ {
			if !finished[i] {
				r = append(r, i)
			}
		}
		return r
	}
	step := 0
	for {
		r := runnable()
		if len(r) == 0 {
			return branch, trace, nil
		}
		ch := 0
		if step < len(choices) {
			ch = choices[step]
		}
		if ch >= len(r) {
			ch = len(r) - 1
		}
		branch = append(branch, len(r))
		t := r[ch]
		current = t
		if !started[t] {
			started[t] = true
			body := bodies[t]
			go func(t int) {
				body()
				events <- event{thread: t, done: true}
			}(t)
		} else {
			resume[t] <- struct{}{}
		}
		select {
		case ev := <-events:
			if ev.done {
				finished[ev.thread] = true
				trace = append(trace, fmt.Sprintf("T%d:done", ev.thread))
			} else {
				trace = append(trace, fmt.Sprintf("T%d@%s", ev.thread, ev.point))
			}
		case <-time.After(10 * time.Second):
			return branch, trace, fmt.Errorf("thread %d blocked without reaching a yield point (lock held by a parked thread?) after trace %v", t, trace)
		}
		step++
	}
}

// DFS enumerates all schedules: run is called with a choice prefix and must return the branching
// factors observed (as Run does). It stops early when visit returns false. Returns the number of
// schedules executed.
func DFS(run func(choices []int) []int, limit int) int {
	choices := []int{}
	count := 0
	for {
		branch := run(choices)
		count++
		if limit > 0 && count >= limit {
			return count
		}
		// extend choices to the full length with zeros
		full := make([]int, len(branch))
		copy(full, choices)
		// backtrack: find the last position that can be incremented
		i := len(full) - 1
		for i >= 0 && full[i]+1 >= branch[i] {
			i--
		}
		if i < 0 {
			return count
		}
		full[i]++
		choices = full[:i+1]
	}
}
