// C01 — a service accepts an AP-REQ exactly when RFC 4120 §3.2.3 says it is valid, and reports
// the identity sealed in the ticket.
package c01

import (
	"fmt"
	"strings"
	"testing"
	"time"

	"pgregory.net/rapid"

	"verif/harness/evid"
	ref "verif/harness/ref/krbcrypto"
	"verif/harness/refcheck"
)

func count(r *evid.Run, c Case) {
	nt := ""
	if len(c.Defects) > 0 || c.SkewSec != 0 || c.RequireAddr || c.ClientAddr != "" || c.KtPrinc != "" || !c.DecodePAC {
		d := append([]string{}, c.Defects...)
		nt = fmt.Sprintf("%d|%s|%s|%d|%v|%s|%s|%v", c.EType, c.Svc, strings.Join(d, "+"), c.SkewSec, c.RequireAddr, c.ClientAddr, c.KtPrinc, c.DecodePAC)
	}
	e := c.Expect()
	lab := []string{fmt.Sprintf("etype%d", c.EType), fmt.Sprintf("defects%d", len(c.Defects))}
	switch {
	case e.Either:
		lab = append(lab, "expect:undecided")
	case e.Accept:
		lab = append(lab, "expect:accept")
	default:
		lab = append(lab, "expect:reject", "reason:"+e.Reason)
	}
	for _, d := range c.Defects {
		lab = append(lab, "defect:"+d)
	}
	if c.KtPrinc != "" {
		lab = append(lab, "ktprinc:"+c.KtPrinc)
	}
	r.Count(nt, lab...)
	cls := "valid"
	if len(c.Defects) > 0 {
		cls = c.Defects[0]
	}
	r.Sample(cls, c)
}

var skews = []int{0, 10, 3600}

func TestProp(t *testing.T) {
	r := evid.Start(t, "C01", "exploration")
	evid.Reg(r, "apreq", Eval)
	evid.Reg(r, "enum", Eval)
	if r.Replay() {
		return
	}
	defer r.Finish()
	var pool evid.Pool[Case] // rapid-drawn cases, evaluated side by side once more at the end
	defer func() { evid.Concurrent(r, &pool, 16, Eval) }()
	if err := refcheck.All(); err != nil {
		r.Inconclusive("reference self-test failed: %v", err)
		return
	}
	if err := Warmup(); err != nil {
		r.Inconclusive("harness self-test failed: %v", err)
		return
	}
	r.Regress()
	r.Assume("requests are minted with ref/der + ref/krbcrypto; time windows are probed at +-3 s (ticket times) and +-1.5 s (authenticator time) from the edge, not at the exact boundary; a case whose evaluation took longer than its margin is discarded")
	r.Rule("rapid: etype x service {HTTP/host, krbtgt/REALM} x 0-2 defects from a catalogue of " + fmt.Sprint(len(DefectNames)) + " spec transformers x settings (skew {default,10s,1h}, RequireHostAddr, ClientAddress {unset,A,C}, KeytabPrincipal {unset, present, missing}, DecodePAC); oracle = RFC 4120 3.2.3 restated over the spec; non-trivial = >= 1 defect or non-default settings, distinct by (etype, service, defect list, settings)")
	r.Rapid("apreq", r.N(10000, 400000), func(t *rapid.T) {
		et := rapid.SampledFrom(ref.ETypes).Draw(t, "etype")
		svc := rapid.SampledFrom([]string{"HTTP/svc.example.com", "HTTP/svc.example.com", "krbtgt/EXAMPLE.COM"}).Draw(t, "svc")
		c := Base(et, rapid.Uint64().Draw(t, "seed"), svc)
		c.ApplySettings(rapid.SampledFrom(skews).Draw(t, "skew"), rapid.Bool().Draw(t, "requireaddr"),
			rapid.SampledFrom([]string{"", "", "A", "C", "V6"}).Draw(t, "clientaddr"),
			rapid.SampledFrom([]string{"", "", "", "alt", "missing"}).Draw(t, "ktprinc"), rapid.Bool().Draw(t, "decodepac"))
		nd := rapid.SampledFrom([]int{0, 1, 1, 1, 2, 2}).Draw(t, "ndefects")
		ds := []string{}
		for i := 0; i < nd; i++ {
			ds = append(ds, rapid.SampledFrom(DefectNames).Draw(t, "defect"))
		}
		c.Apply(ds...)
		count(r, c)
		v := Eval(c)
		if v.OK {
			pool.Add("apreq", c)
		}
		if r.Judge("apreq", c, v) {
			t.Fatalf("violation")
		}
	})

	// Bounded-exhaustive: every etype x {base, every single defect, every ordered pair (thorough) /
	// a seeded slice of pairs (quick)} x a covering set of settings.
	type setting struct {
		skew int
		req  bool
		ca   string
		kp   string
		pac  bool
	}
	var settings []setting
	for _, sk := range skews {
		for _, rq := range []bool{false, true} {
			for _, ca := range []string{"", "A", "C", "V6"} {
				for _, kp := range []string{"", "alt", "missing"} {
					for _, pd := range []bool{true, false} {
						settings = append(settings, setting{sk, rq, ca, kp, pd})
					}
				}
			}
		}
	}
	type job struct {
		et  int32
		ds  []string
		set setting
		svc string
	}
	var jobs []job
	seedSel := int(r.Seed())
	for ei, et := range ref.ETypes {
		for si, set := range settings {
			svc := "HTTP/svc.example.com"
			if (si+ei)%5 == 0 {
				svc = "krbtgt/EXAMPLE.COM"
			}
			if r.Thorough() || (si+ei+seedSel)%3 == 0 {
				jobs = append(jobs, job{et, nil, set, svc})
			}
			for di, d := range DefectNames {
				if r.Thorough() || (si+di+ei+seedSel)%3 == 0 {
					jobs = append(jobs, job{et, []string{d}, set, svc})
				}
			}
		}
		// pairs under the default settings and two others
		for i, d1 := range DefectNames {
			for j, d2 := range DefectNames {
				if i == j {
					continue
				}
				if r.Quick() && (i*131+j*17+ei+seedSel)%40 != 0 {
					continue
				}
				set := settings[(i*7+j*3+ei)%len(settings)]
				jobs = append(jobs, job{et, []string{d1, d2}, setting{0, false, "", "", true}, "HTTP/svc.example.com"})
				if r.Thorough() {
					jobs = append(jobs, job{et, []string{d1, d2}, set, "HTTP/svc.example.com"})
				}
			}
		}
	}
	// optional ticket fields absent: every single defect again on a ticket without starttime (the two branches of a
	// check that first looks whether the optional field is there must agree on everything else)
	for _, et := range ref.ETypes {
		for _, d := range DefectNames {
			for _, absent := range []string{"start-absent", "kvno-absent"} {
				if d != absent {
					jobs = append(jobs, job{et, []string{d, absent}, setting{0, false, "", "", true}, "HTTP/svc.example.com"})
				}
			}
		}
	}
	// the PAC grid: every PAC condition at every position among the ticket's authorization data, PAC decoding on and off
	for _, et := range ref.ETypes {
		for _, p := range []string{"pac-good", "pac-badsig", "pac-broken-table", "pac-broken-header", "pac-broken-empty", "pac-broken-count", "pac-broken-offset"} {
			for _, pos := range []string{"pac-behind-empty", "pac-behind-restriction", "pac-behind-two", "pac-before-other"} {
				for _, dec := range []bool{true, false} {
					jobs = append(jobs, job{et, []string{p, pos}, setting{0, false, "", "", dec}, "HTTP/svc.example.com"})
				}
			}
		}
	}
	// a replay that comes after thousands of other requests of the same client inside the window (volumes beyond that: C02)
	for ei, et := range ref.ETypes {
		for _, n := range []int{1500, 5000} {
			c := Base(et, r.Seed()*7907+uint64(ei*2+n), "HTTP/svc.example.com")
			c.Apply("replay")
			c.ReplayAfter = n
			count(r, c)
			r.Violation("enum", c, Eval(c))
		}
	}
	r.Rule("enum (optional field absent): every etype x every single defect applied to a ticket whose optional starttime is absent, and to one whose enc-part kvno is absent")
	r.Rule("enum (replay after volume): for every etype an accepted AP-REQ, then 1500 / 5000 further valid AP-REQs of the same client at other client times, then the first one again: refused with KRB_AP_ERR_REPEAT")
	r.Rule("enum (PAC grid): every etype x PAC {good, bad server signature, five unparseable shapes} x position of its AD-IF-RELEVANT container among the ticket's authorization data {behind an empty container, behind a KERB-AD-RESTRICTION-ENTRY container, behind both, in front of another} x PAC decoding on / off")
	r.Rule(fmt.Sprintf("enum: every etype x {valid, every single defect} x all %d settings combinations (quick: a seeded 1/3 slice) + defect pairs (thorough: every ordered pair under default and one rotating setting; quick: a seeded 1/40 slice)", len(settings)))
	evid.Parallel(len(jobs), 16, func(i int) {
		j := jobs[i]
		c := Base(j.et, r.Seed()*1000003+uint64(i), j.svc)
		c.ApplySettings(j.set.skew, j.set.req, j.set.ca, j.set.kp, j.set.pac)
		c.Apply(j.ds...)
		count(r, c)
		r.Violation("enum", c, Eval(c))
	})
	if r.Thorough() {
		r.Exhaustive("every etype x every single defect x every settings combination; every ordered defect pair under default settings")
	}
	Discarded.Lock()
	r.Extra("discarded_time_straddle", Discarded.N)
	Discarded.Unlock()
	_ = time.Second
}
