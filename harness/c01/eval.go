package c01

import (
	"encoding/hex"
	"fmt"
	"io"
	"log"
	"strings"
	"sync"
	"time"

	"github.com/jcmturner/gokrb5/v8/iana/errorcode"
	"github.com/jcmturner/gokrb5/v8/keytab"
	"github.com/jcmturner/gokrb5/v8/messages"
	"github.com/jcmturner/gokrb5/v8/service"
	"github.com/jcmturner/gokrb5/v8/test/testdata"
	"github.com/jcmturner/gokrb5/v8/types"

	"verif/harness/evid"
	"verif/harness/mint"
)

var (
	samplePAC     []byte
	samplePACOnce sync.Once
)

// SamplePAC is the captured PAC shipped with gokrb5's test data.
func SamplePAC() []byte {
	samplePACOnce.Do(func() {
		samplePAC, _ = hex.DecodeString(testdata.MarshaledPAC_AD_WIN2K_PAC)
		// pin the process-wide replay cache's cleaner interval far away so that it never fires mid-run
		service.GetReplayCache(24 * time.Hour)
	})
	return samplePAC
}

// Settings builds the service settings of a Case.
func (c *Case) Settings(kt *keytab.Keytab) *service.Settings {
	opts := []func(*service.Settings){service.Logger(log.New(io.Discard, "", 0)), service.DecodePAC(c.DecodePAC)}
	if c.SkewSec != 0 {
		opts = append(opts, service.MaxClockSkew(time.Duration(c.SkewSec)*time.Second))
	}
	if c.RequireAddr {
		opts = append(opts, service.RequireHostAddr(true))
	}
	if c.ClientAddr != "" {
		opts = append(opts, service.ClientAddress(types.HostAddress{AddrType: AddrType(c.ClientAddr), Address: AddrBytes(c.ClientAddr)}))
	}
	switch c.KtPrinc {
	case "alt":
		opts = append(opts, service.KeytabPrincipal(AltPrincipal))
	case "missing":
		opts = append(opts, service.KeytabPrincipal(MissingPrincipal))
	}
	return service.NewSettings(kt, opts...)
}

// Discarded counts cases not judged because their evaluation straddled a time margin.
var Discarded struct {
	sync.Mutex
	N int
}

// Warmup checks the harness against itself: a valid request must be accepted for every etype,
// otherwise the minting code (not gokrb5) is suspect and the run is inconclusive.
func Warmup() error {
	// intentionally light: only that minting does not fail; acceptance is what the property judges
	for _, et := range []int32{16, 17, 18, 19, 20, 23} {
		c := Base(et, 42, "HTTP/svc.example.com")
		if _, err := c.Mint(SamplePAC()); err != nil {
			return err
		}
		if e := c.Expect(); !e.Accept {
			return fmt.Errorf("base case not expected to be accepted: %s", e.Reason)
		}
	}
	return nil
}

// Eval mints the request, presents it to service.VerifyAPREQ and compares with Expect().
func Eval(c Case) evid.Verdict {
	return evid.SafeEval(func() evid.Verdict {
		exp := c.Expect()
		m, err := c.Mint(SamplePAC())
		if err != nil {
			return evid.Fail("harness", "mint: %v", err)
		}
		kt := keytab.New()
		if err := kt.Unmarshal(m.Keytab); err != nil {
			return evid.Fail("harness", "keytab: %v", err)
		}
		var ap messages.APReq
		uerr := ap.Unmarshal(m.APReq)
		var ok bool
		var verr error
		var credsCName []string
		var credsDomain, credsRealm string
		var credsUntil time.Time
		if uerr == nil {
			okk, creds, e := service.VerifyAPREQ(&ap, c.Settings(kt))
			ok, verr = okk, e
			if ok && creds != nil {
				credsCName = creds.CName().NameString
				credsDomain, credsRealm, credsUntil = creds.Domain(), creds.Realm(), creds.ValidUntil()
			} else if ok {
				return evid.Fail("accept-without-credentials", "VerifyAPREQ returned ok with nil credentials")
			}
		}
		elapsed := time.Since(m.Now)
		if elapsed.Milliseconds() > c.Margin()-200 || elapsed > 1200*time.Millisecond {
			Discarded.Lock()
			Discarded.N++
			Discarded.Unlock()
			return evid.Pass() // straddled a window edge on a slow machine: not judged
		}
		ctx := fmt.Sprintf("defects=%v settings(skew=%ds requireAddr=%v clientAddr=%q ktPrinc=%q decodePAC=%v) etype=%d svc=%s", c.Defects, c.SkewSec, c.RequireAddr, c.ClientAddr, c.KtPrinc, c.DecodePAC, c.EType, c.Svc)
		if uerr != nil {
			if exp.Accept && !exp.Either {
				return evid.Fail("reject-valid:unmarshal", "AP-REQ that satisfies every condition could not be decoded: %v; %s", uerr, ctx)
			}
			return evid.Pass()
		}
		if !exp.Either {
			if ok && !exp.Accept {
				return evid.Fail("accept-despite:"+exp.Reason, "VerifyAPREQ accepted a request that violates RFC 4120 3.2.3 (%s); %s", exp.Reason, ctx)
			}
			if !ok && exp.Accept {
				code := ""
				if ke, isK := verr.(messages.KRBError); isK {
					code = errorcode.Lookup(ke.ErrorCode)
				}
				return evid.Fail("reject-valid:"+rejectClass(c), "VerifyAPREQ rejected a request that satisfies every condition: %v %s; %s", verr, code, ctx)
			}
		}
		if !ok {
			if verr == nil {
				return evid.Fail("reject-without-error", "VerifyAPREQ returned ok=false with a nil error; %s", ctx)
			}
			return evid.Pass()
		}
		// accepted: the identity must be the sealed one
		if fmt.Sprintf("%q", credsCName) != fmt.Sprintf("%q", mint.Name(m.CName)) {
			return evid.Fail("identity:cname", "reported client name %q, sealed in ticket %q; %s", strings.Join(credsCName, "/"), m.CName, ctx)
		}
		if credsDomain != m.CRealm || credsRealm != m.CRealm {
			return evid.Fail("identity:realm", "reported realm %q/%q, sealed in ticket %q (authenticator said %q); %s", credsDomain, credsRealm, m.CRealm, c.ACRealm, ctx)
		}
		if !credsUntil.Equal(m.EndTime) {
			return evid.Fail("identity:expiry", "reported expiry %v, sealed in ticket %v; %s", credsUntil, m.EndTime, ctx)
		}
		if c.Replay {
			if c.ReplayAfter > 0 {
				o := c
				o.Replay, o.ReplayAfter, o.Suffix = false, 0, m.Suffix
				for i := 1; i <= c.ReplayAfter; i++ {
					o.CTimeOff = c.CTimeOff + int64(i) // another millisecond each: distinct authenticators of one client, all inside the window
					om, err := o.Mint(SamplePAC())
					if err != nil {
						return evid.Fail("harness", "mint: %v", err)
					}
					var oap messages.APReq
					if err := oap.Unmarshal(om.APReq); err != nil {
						return evid.Fail("harness", "unmarshal: %v", err)
					}
					service.VerifyAPREQ(&oap, c.Settings(kt))
				}
				if time.Since(m.Now) > 60*time.Second {
					Discarded.Lock()
					Discarded.N++
					Discarded.Unlock()
					return evid.Pass() // far too slow a machine: the window has moved
				}
			}
			var ap2 messages.APReq
			if err := ap2.Unmarshal(m.APReq); err != nil {
				return evid.Fail("harness", "second unmarshal: %v", err)
			}
			ok2, _, err2 := service.VerifyAPREQ(&ap2, c.Settings(kt))
			if ok2 {
				return evid.Fail("replay-accepted", "the same AP-REQ bytes were accepted twice; %s", ctx)
			}
			ke, isK := err2.(messages.KRBError)
			if !isK || ke.ErrorCode != errorcode.KRB_AP_ERR_REPEAT {
				return evid.Fail("replay-wrong-error", "second presentation rejected with %v, want KRB_AP_ERR_REPEAT; %s", err2, ctx)
			}
		}
		return evid.Pass()
	})
}

// rejectClass names what distinguishes a wrongly rejected valid request.
func rejectClass(c Case) string {
	if len(c.Defects) == 0 {
		if c.KtPrinc != "" {
			return "ktprinc-" + c.KtPrinc
		}
		return fmt.Sprintf("base:etype%d", c.EType)
	}
	return strings.Join(c.Defects, "+")
}

var _ = mint.Flag
