// Package c01 holds the AP-REQ request model shared by C01 (acceptance biconditional), C03
// (SPNEGO handler) and C20: a JSON-serialisable request spec, the defect catalogue that derives
// requests from a valid one, the reference statement of RFC 4120 §3.2.3 over the spec
// (Expect), and the renderer that mints the bytes with the reference encoder and crypto.
package c01

import (
	"fmt"
	"sort"
	"strconv"
	"strings"
	"sync"
	"sync/atomic"
	"time"

	"verif/harness/kgen"
	"verif/harness/mint"
	"verif/harness/ref/der"
	ref "verif/harness/ref/krbcrypto"
)

// Case is one AP-REQ presented to a service under given settings. Times are offsets from "now"
// in milliseconds so that a Case can be replayed later.
type Case struct {
	EType int32  `json:"etype"`
	Seed  uint64 `json:"seed"`
	Svc   string `json:"svc"`   // the service principal the keytab is for
	Realm string `json:"realm"` // its realm

	// ticket, clear part
	TktSName  string `json:"tkt_sname"`
	TktRealm  string `json:"tkt_realm"`
	TktKVNO   int    `json:"tkt_kvno"`                // -1 = kvno absent
	SessEType int32  `json:"session_etype,omitempty"` // etype of the session key sealed in the ticket (0 = that of the ticket's own encryption); the authenticator is sealed under the session key
	KtWide    bool   `json:"kt_wide,omitempty"`       // the keytab also holds a newer key of the service under kvno 65539 (same low octet as kvno 3)
	TktEType  int32  `json:"tkt_etype"`
	TktKey    string `json:"tkt_key"` // name of the key that encrypts the ticket: svc old e2 otherrealm alt host unrelated
	TktUsage  uint32 `json:"tkt_usage"`
	TktMut    string `json:"tkt_mut,omitempty"` // "", "flip:<bit>", "trunc:<len>"
	// ticket, sealed part
	Flags     uint32   `json:"flags"`
	CName     string   `json:"cname"`
	CRealm    string   `json:"crealm"`
	StartOff  *int64   `json:"start_off_ms"` // nil = starttime absent
	EndOff    int64    `json:"end_off_ms"`
	AuthOff   int64    `json:"authtime_off_ms"`
	CAddr     []string `json:"caddr"`                   // subset of {"A","B"}; nil = absent
	PAC       string   `json:"pac"`                     // "", "good", "badsig"
	CTimeZone string   `json:"ctime_zone,omitempty"`    // the authenticator's ctime is encoded as local time with this numeric zone offset ("+0130", "-0330", "+0100", "+0545") instead of "Z": the same instant, an encoding the library accepts
	PACPos    string   `json:"pac_pos,omitempty"`       // where the AD-IF-RELEVANT { AD-WIN2K-PAC } element sits among the ticket's authorization data: "" = alone, behind-empty, behind-restriction, behind-two, before-other
	Trailing  string   `json:"wire_trailing,omitempty"` // "" | "forged-encpart": unauthenticated clear-text EncTicketPart-shaped SEQUENCE appended to the Ticket on the wire
	// authenticator
	CNameType  int    `json:"cname_type,omitempty"`      // name type of the ticket's cname (0 = 1, NT-PRINCIPAL)
	ACNameType int    `json:"auth_cname_type,omitempty"` // name type of the authenticator's cname (0 = 1); RFC 4120 6.2: the type is a hint and takes no part in comparisons
	ACName     string `json:"auth_cname"`
	ACRealm    string `json:"auth_crealm"`
	CTimeOff   int64  `json:"ctime_off_ms"`
	AUsage     uint32 `json:"auth_usage"`
	AKey       string `json:"auth_key"` // session | unrelated
	AMut       string `json:"auth_mut,omitempty"`
	SubKey     bool   `json:"subkey"`
	Seq        bool   `json:"seq"`
	// settings
	SkewSec     int    `json:"skew_s"` // 0 = library default (300 s)
	RequireAddr bool   `json:"require_host_addr"`
	ClientAddr  string `json:"client_addr"`      // "", "A", "C"
	KtPrinc     string `json:"keytab_principal"` // "", "alt", "missing"
	DecodePAC   bool   `json:"decode_pac"`
	Replay      bool   `json:"replay"`                 // present the same bytes a second time
	ReplayAfter int    `json:"replay_after,omitempty"` // ... after this many further valid requests of the same client (other client times) have been verified
	Suffix      string `json:"suffix,omitempty"`       // fixed uniqueness suffix of the client name (so that several requests come from one client); "" = a fresh one per request

	Defects []string `json:"defects"`
}

// Skew is the effective permitted clock skew.
func (c *Case) Skew() time.Duration {
	if c.SkewSec == 0 {
		return 5 * time.Minute
	}
	return time.Duration(c.SkewSec) * time.Second
}

// AltPrincipal is the override principal present in the keytab.
const AltPrincipal = "HTTP/alt.example.com"

// MissingPrincipal is an override principal absent from the keytab.
const MissingPrincipal = "HTTP/nokey.example.com"

// OtherRealm has a keytab entry for the service under a different key.
const OtherRealm = "OTHER.ORG"

// OtherEType picks a second supported etype for the decoy entry.
func OtherEType(et int32) int32 {
	for i, e := range ref.ETypes {
		if e == et {
			return ref.ETypes[(i+1)%len(ref.ETypes)]
		}
	}
	return ref.AES256SHA1
}

// AbsentEType is an etype with no keytab entry at all.
func AbsentEType(et int32) int32 {
	for i, e := range ref.ETypes {
		if e == et {
			return ref.ETypes[(i+3)%len(ref.ETypes)]
		}
	}
	return ref.AES128SHA1
}

// K is the world key function: key bytes for a named key under an etype, derived from the seed.
func (c *Case) K(name string, et int32) []byte {
	return ref.RandomKey(et, kgen.DetBytes(c.Seed, fmt.Sprintf("c01key/%s/%d", name, et), 32))
}

// SecondPrincipal is a decoy principal sharing a component with the service.
func (c *Case) SecondPrincipal() string {
	if c.Svc == "krbtgt/EXAMPLE.COM" {
		return "krbtgt/" + OtherRealm
	}
	return "host/svc.example.com"
}

type ktEnt struct {
	mint.KeytabEntry
	keyName string
}

func (c *Case) entries() []ktEnt {
	e2 := OtherEType(c.EType)
	mk := func(p, realm string, kvno uint32, et int32, name string, ts uint32) ktEnt {
		return ktEnt{mint.KeytabEntry{Principal: p, Realm: realm, KVNO: kvno, Key: mint.Key{EType: et, Value: c.K(name, et)}, Timestamp: ts}, name}
	}
	var wide []ktEnt
	if c.KtWide {
		wide = []ktEnt{mk(c.Svc, c.Realm, 65539, c.EType, "wide", 3000)}
	}
	return append(wide, []ktEnt{
		mk(c.Svc, c.Realm, 2, c.EType, "old", 1000),
		mk(c.Svc, c.Realm, 3, c.EType, "svc", 2000),
		mk(c.Svc, c.Realm, 3, e2, "e2", 2000),
		mk(c.Svc, OtherRealm, 3, c.EType, "otherrealm", 2000),
		mk(AltPrincipal, c.Realm, 3, c.EType, "alt", 2000),
		mk(c.SecondPrincipal(), c.Realm, 3, c.EType, "host", 2000),
	}...)
}

// KeytabEntries are the keytab records of the service.
func (c *Case) KeytabEntries() []mint.KeytabEntry {
	out := []mint.KeytabEntry{}
	for _, e := range c.entries() {
		out = append(out, e.KeytabEntry)
	}
	return out
}

// selected returns the name of the keytab key RFC 4120 selects for this ticket, "" if none.
func (c *Case) selected() string {
	p := c.TktSName
	switch c.KtPrinc {
	case "alt":
		p = AltPrincipal
	case "missing":
		p = MissingPrincipal
	}
	kv := c.TktKVNO
	if kv < 0 {
		kv = 0
	}
	best := ""
	var bestTS uint32
	for _, e := range c.entries() {
		if e.Principal != p || e.Realm != c.TktRealm || e.Key.EType != c.TktEType {
			continue
		}
		if kv != 0 && e.KVNO != uint32(kv) {
			continue
		}
		if best == "" || e.Timestamp > bestTS {
			best, bestTS = e.keyName, e.Timestamp
		}
	}
	return best
}

// ExpectedAuthUsage is the key usage RFC 4120 prescribes for the authenticator of this ticket.
func (c *Case) ExpectedAuthUsage() uint32 {
	n := mint.Name(c.TktSName)
	if len(n) > 0 && n[0] == "krbtgt" {
		return 7
	}
	return 11
}

// Expectation of the reference statement.
type Expectation struct {
	Accept bool
	Either bool   // the statement does not decide this case (documented under "Sound")
	Reason string // first violated condition when !Accept
}

// Expect restates the property over the spec: accept iff every RFC 4120 §3.2.3 condition holds.
func (c *Case) Expect() Expectation {
	rej := func(r string) Expectation { return Expectation{Accept: false, Reason: r} }
	sel := c.selected()
	if sel == "" {
		return rej("no-key-selectable")
	}
	if sel != c.TktKey {
		return rej("ticket-key-mismatch")
	}
	if c.TktUsage != 2 {
		return rej("ticket-usage")
	}
	if c.TktMut != "" {
		return rej("ticket-ciphertext-tampered")
	}
	skew := c.Skew().Milliseconds()
	if c.StartOff != nil && *c.StartOff > skew {
		return rej("not-yet-valid")
	}
	if c.Flags&mint.Flag(7) != 0 {
		return rej("invalid-flag")
	}
	if -c.EndOff > skew {
		return rej("expired")
	}
	either := false
	if len(c.CAddr) > 0 {
		if c.ClientAddr == "" {
			// the ticket is restricted to addresses but the service knows no peer address to compare (none configured,
			// or an unparsable RemoteAddr): the restriction cannot be met (RFC 4120 3.2.3: KRB_AP_ERR_BADADDR)
			return rej("address-mismatch")
		} else {
			found := false
			for _, a := range c.CAddr {
				if a == c.ClientAddr {
					found = true
				}
			}
			if !found {
				return rej("address-mismatch")
			}
		}
	}
	if c.AKey != "session" {
		return rej("authenticator-key")
	}
	if c.AUsage != c.ExpectedAuthUsage() {
		return rej("authenticator-usage")
	}
	if c.AMut != "" {
		return rej("authenticator-ciphertext-tampered")
	}
	if fmt.Sprint(mint.Name(c.ACName)) != fmt.Sprint(mint.Name(c.CName)) {
		return rej("cname-mismatch")
	}
	if c.ACRealm != c.CRealm {
		return rej("crealm-mismatch")
	}
	if c.CTimeOff > skew || -c.CTimeOff > skew {
		return rej("authenticator-skew")
	}
	if c.RequireAddr && len(c.CAddr) == 0 {
		return rej("host-address-required")
	}
	if c.DecodePAC && c.PAC == "badsig" {
		return rej("pac-signature")
	}
	if c.DecodePAC && strings.HasPrefix(c.PAC, "broken-") {
		return rej("pac-unparseable")
	}
	return Expectation{Accept: true, Either: either}
}

// Margin reports the smallest distance (ms) of any time offset from its window edge; a Case
// whose evaluation takes longer than this is discarded rather than judged.
func (c *Case) Margin() int64 {
	skew := c.Skew().Milliseconds()
	m := int64(1 << 40)
	d := func(x int64) {
		if x < 0 {
			x = -x
		}
		if x < m {
			m = x
		}
	}
	if c.StartOff != nil {
		d(*c.StartOff - skew)
	}
	d(-c.EndOff - skew)
	d(c.CTimeOff - skew)
	d(-c.CTimeOff - skew)
	return m
}

var uniq atomic.Uint64

var usedMicros = struct {
	sync.Mutex
	m map[int64]bool
}{m: map[int64]bool{}}

func uniqueMicro(t time.Time) time.Time {
	usedMicros.Lock()
	defer usedMicros.Unlock()
	us := t.UnixMicro()
	for usedMicros.m[us] {
		us++
	}
	usedMicros.m[us] = true
	return time.UnixMicro(us).UTC()
}

// Addresses used in tickets and settings.
var addrBytes = map[string][]byte{"A": {10, 1, 1, 1}, "B": {10, 2, 2, 2}, "C": {10, 3, 3, 3},
	"V6":  {0x20, 0x01, 0x0d, 0xb8, 0, 0, 0, 0, 0, 0, 0, 0, 0x0a, 0x01, 0x01, 0x01}, // V6 embeds A's four octets: another address family
	"NB":  []byte("WORKSTATION12   "),                                               // a NetBIOS name (type 20), as Windows KDCs put into tickets: not an address any peer can come from
	"DIR": {0, 0, 0, 1},                                                             // a directional address (type 3)
	"A20": {10, 1, 1, 1}}                                                            // A's four octets declared as a NetBIOS address

// AddrType is the Kerberos address type of a named address.
func AddrType(n string) int32 {
	switch n {
	case "V6":
		return 24
	case "NB", "A20":
		return 20
	case "DIR":
		return 3
	}
	return 2
}

// AddrBytes returns the IPv4 bytes of a named address.
func AddrBytes(n string) []byte { return addrBytes[n] }

// Minted is a rendered request.
type Minted struct {
	APReq     []byte
	Now       time.Time
	EndTime   time.Time
	Suffix    string // the uniqueness suffix used
	CName     string // sealed client name (with the uniqueness suffix)
	CRealm    string
	Session   mint.Key
	SubKey    *mint.Key
	Keytab    []byte
	TicketDER []byte
}

func mutator(spec string) func([]byte) []byte {
	if spec == "" {
		return nil
	}
	kind, arg, _ := strings.Cut(spec, ":")
	n, _ := strconv.Atoi(arg)
	if kind == "trunc" { // drop n trailing bytes
		return func(b []byte) []byte { return b[:len(b)-min(n, len(b))] }
	}
	return func(b []byte) []byte { // flip bit n (negative: counted from the end)
		o := append([]byte{}, b...)
		if len(o) == 0 {
			return o
		}
		i := n
		if i < 0 {
			i += len(o) * 8
		}
		i = ((i % (len(o) * 8)) + len(o)*8) % (len(o) * 8)
		o[i/8] ^= 1 << uint(i%8)
		return o
	}
}

// Mint renders the request. samplePAC is the raw sample PAC used when c.PAC != "".
func (c *Case) Mint(samplePAC []byte) (*Minted, error) {
	now := time.Now()
	suffix := fmt.Sprintf("-%d", uniq.Add(1))
	if c.Suffix != "" {
		suffix = c.Suffix
	}
	// the uniqueness suffix keeps the process-wide replay cache from coupling cases
	cn := func(s string) string {
		if s == "" {
			return ""
		}
		n := mint.Name(s)
		n[len(n)-1] += suffix // at the very end, so that names differing only in component boundaries stay confusable
		for i := range n {
			n[i] = strings.ReplaceAll(n[i], "/", "%2F")
		}
		return strings.Join(n, "/")
	}
	at := func(off int64) time.Time {
		// offsets of centuries exceed what a time.Duration can hold: walk there a century at a time
		const century = int64(36525) * 24 * 3600 * 1000
		t := now
		for ; off > century; off -= century {
			t = t.AddDate(100, 0, 0)
		}
		for ; off < -century; off += century {
			t = t.AddDate(-100, 0, 0)
		}
		return t.Add(time.Duration(off) * time.Millisecond).UTC()
	}
	set := c.TktEType
	if c.SessEType != 0 {
		set = c.SessEType
	}
	sess := mint.Key{EType: set, Value: c.K("session", set)}
	t := &mint.TicketSpec{
		Realm: c.TktRealm, SName: c.TktSName, SNameType: 2,
		EncKey: mint.Key{EType: c.TktEType, Value: c.K(c.TktKey, c.TktEType)}, Usage: c.TktUsage,
		Conf:  kgen.DetBytes(c.Seed, "c01/tconf", 16),
		Flags: c.Flags, Session: sess, CRealm: c.CRealm, CName: cn(c.CName), CNameType: max(1, c.CNameType),
		AuthTime: at(c.AuthOff).Truncate(time.Second), EndTime: at(c.EndOff).Truncate(time.Second),
		MutateCipher: mutator(c.TktMut),
	}
	if c.TktKVNO >= 0 {
		k := c.TktKVNO
		t.KVNO = &k
	}
	if c.StartOff != nil {
		s := at(*c.StartOff).Truncate(time.Second)
		t.StartTime = &s
	}
	if c.CAddr != nil {
		t.CAddr = []mint.Addr{}
		for _, a := range c.CAddr {
			t.CAddr = append(t.CAddr, mint.Addr{Type: AddrType(a), Data: addrBytes[a]})
		}
	}
	if c.PAC != "" {
		ck := ref.CksumForEType(c.TktEType)
		p, err := mint.ResignPAC(samplePAC, ck, t.EncKey.Value, c.PAC == "badsig")
		if err != nil {
			return nil, err
		}
		switch c.PAC {
		case "broken-table": // cut inside the table of info buffers
			p = p[:20]
		case "broken-header": // cut inside the 8-octet header
			p = p[:5]
		case "broken-empty":
			p = []byte{}
		case "broken-count": // announces more buffers than the PAC could hold
			p = append([]byte{0xff, 0xff, 0xff, 0x7f}, p[4:]...)
		case "broken-offset": // the first buffer lies outside the PAC
			p = append([]byte{}, p...)
			for i := 16; i < 24; i++ {
				p[i] = 0xff
			}
			p[23] = 0x7f
		}
		// other authorization data a KDC issues next to the PAC: an AD-IF-RELEVANT holding a KERB-AD-RESTRICTION-ENTRY (141,
		// Windows KDCs) and an AD-IF-RELEVANT without contents; the PAC counts wherever its container stands
		restriction := mint.AD{Type: 1, Data: der.AuthData.MustEncode([]any{der.M{"ad-type": int64(141), "ad-data": []byte{0x30, 0x03, 0x02, 0x01, 0x00}}})}
		empty := mint.AD{Type: 1, Data: der.AuthData.MustEncode([]any{})}
		switch c.PACPos {
		case "":
			t.AuthData = []mint.AD{mint.PACAuthData(p)}
		case "behind-empty":
			t.AuthData = []mint.AD{empty, mint.PACAuthData(p)}
		case "behind-restriction":
			t.AuthData = []mint.AD{restriction, mint.PACAuthData(p)}
		case "behind-two":
			t.AuthData = []mint.AD{restriction, empty, mint.PACAuthData(p)}
		case "before-other":
			t.AuthData = []mint.AD{mint.PACAuthData(p), restriction}
		default:
			return nil, fmt.Errorf("bad PAC position %q", c.PACPos)
		}
	}
	if c.Trailing == "forged-encpart" {
		// what a sender can put on the wire after the ticket's enc-part: a clear-text structure shaped like an
		// EncTicketPart whose OPTIONAL members (addresses, start time, renew-till) favour the sender
		fa := "A"
		if c.ClientAddr != "" {
			fa = c.ClientAddr
		}
		forged := der.M{"flags": mint.Flags32(0), "key": der.M{"keytype": int64(c.TktEType), "keyvalue": c.K("forged", c.TktEType)}, "crealm": "FORGED.ORG",
			"cname": mint.PN(1, "forged"), "transited": der.M{"tr-type": int64(0), "contents": []byte{}}, "authtime": at(-1000).Truncate(time.Second),
			"starttime": at(-100000).Truncate(time.Second), "endtime": at(999999000).Truncate(time.Second), "renew-till": at(999999000).Truncate(time.Second),
			"caddr": []any{der.M{"addr-type": int64(AddrType(fa)), "address": addrBytes[fa]}}}
		inner, _ := der.Parse(der.EncTicketPart.MustEncode(forged))
		seq, _ := inner.Explicit()
		t.Trailing = seq.Raw
	}
	akey := sess
	if c.AKey != "session" {
		akey = mint.Key{EType: set, Value: c.K("unrelated-session", set)}
	}
	ctime := at(c.CTimeOff)
	if c.ACName == "" {
		// an empty client name cannot carry the uniqueness suffix: keep the process-wide replay cache from
		// coupling such cases by giving each a client time (microsecond resolution) no other case has used
		ctime = uniqueMicro(ctime)
	}
	a := &mint.AuthSpec{CRealm: c.ACRealm, CName: cn(c.ACName), CNameType: max(1, c.ACNameType), CTime: ctime,
		Key: akey, Usage: c.AUsage, Conf: kgen.DetBytes(c.Seed, "c01/aconf", 16), MutateCipher: mutator(c.AMut)}
	m := &Minted{Now: now, EndTime: t.EndTime, CName: t.CName, CRealm: c.CRealm, Session: sess, Suffix: suffix}
	if c.SubKey {
		sk := mint.Key{EType: set, Value: c.K("subkey", set)}
		a.SubKey = &sk
		m.SubKey = &sk
	}
	if c.Seq {
		s := uint32(c.Seed&0x3fffffff) + 1
		a.Seq = &s
	}
	if c.CTimeZone != "" {
		// GeneralizedTime with a numeric offset (X.680 allows it, RFC 4120 asks for "Z"; the library's decoder takes both)
		off, err := time.Parse("-0700", c.CTimeZone)
		if err != nil {
			return nil, fmt.Errorf("bad ctime zone %q", c.CTimeZone)
		}
		_, secs := off.Zone()
		v := a.Value()
		str := v["ctime"].(time.Time).In(time.FixedZone("", secs)).Format("20060102150405-0700")
		v["ctime"] = der.Raw(append([]byte{0x18, byte(len(str))}, str...))
		a.RawPlain = der.Authenticator.MustEncode(v)
	}
	m.APReq = mint.APReq(t, a, 0)
	m.TicketDER = t.Bytes()
	m.Keytab = mint.KeytabBytes(c.KeytabEntries())
	return m, nil
}

// ---------------------------------------------------------------------------------------------
// Defect catalogue: transformers of a valid Case.

// Base returns a valid request for the etype, seed, service and settings already set in c.
func Base(et int32, seed uint64, svc string) Case {
	c := Case{EType: et, Seed: seed, Svc: svc, Realm: "EXAMPLE.COM",
		TktSName: svc, TktRealm: "EXAMPLE.COM", TktKVNO: 3, TktEType: et, TktKey: "svc", TktUsage: 2,
		Flags: mint.Flag(1) | mint.Flag(9) | mint.Flag(10), CName: "alice", CRealm: "EXAMPLE.COM",
		EndOff: 8 * 3600 * 1000, AuthOff: -60000, ACName: "alice", ACRealm: "EXAMPLE.COM",
		AKey: "session", DecodePAC: true, Defects: []string{}}
	z := int64(-60000)
	c.StartOff = &z
	c.AUsage = c.ExpectedAuthUsage()
	return c
}

// ApplySettings sets the service settings and keeps the base request valid under them.
func (c *Case) ApplySettings(skewSec int, requireAddr bool, clientAddr, ktPrinc string, decodePAC bool) {
	c.SkewSec, c.RequireAddr, c.ClientAddr, c.KtPrinc, c.DecodePAC = skewSec, requireAddr, clientAddr, ktPrinc, decodePAC
	if ktPrinc == "alt" && c.TktKey == "svc" {
		c.TktKey = "alt" // a KDC would have issued the ticket under the override principal's key
	}
	if requireAddr && c.CAddr == nil {
		if clientAddr != "" {
			c.CAddr = []string{clientAddr}
		} else {
			c.CAddr = []string{"A"}
		}
	}
}

const tkM = 3000 // margin (ms) for ticket times, which have one-second resolution
const ctM = 1500 // margin (ms) for the authenticator time

const farCentury = int64(36525) * 24 * 3600 * 1000 // milliseconds

// Defects maps a defect name to its transformer.
var Defects = map[string]func(c *Case){
	"tkt-key-unrelated":   func(c *Case) { c.TktKey = "unrelated" },
	"tkt-key-old":         func(c *Case) { c.TktKey = "old" },
	"tkt-key-host":        func(c *Case) { c.TktKey = "host" },
	"kvno-old-new-key":    func(c *Case) { c.TktKVNO = 2 },
	"kvno-old-consistent": func(c *Case) { c.TktKVNO = 2; c.TktKey = "old" },
	"kvno-missing":        func(c *Case) { c.TktKVNO = 9 },
	"kvno-zero":           func(c *Case) { c.TktKVNO = 0 },
	"kvno-absent":         func(c *Case) { c.TktKVNO = -1 },
	// key versions that differ only above the low octet (keytab files carry an 8-bit and a 32-bit kvno)
	"kvno-plus-256":          func(c *Case) { c.TktKVNO += 256 },
	"kvno-plus-65536":        func(c *Case) { c.TktKVNO += 65536 },
	"kvno-wide-consistent":   func(c *Case) { c.KtWide = true; c.TktKVNO = 65539; c.TktKey = "wide" },
	"kvno-wide-in-keytab":    func(c *Case) { c.KtWide = true },
	"etype-other-consistent": func(c *Case) { c.TktEType = OtherEType(c.EType); c.TktKey = "e2" },
	"etype-other-wrong-key":  func(c *Case) { c.TktEType = OtherEType(c.EType) },
	"etype-not-in-keytab":    func(c *Case) { c.TktEType = AbsentEType(c.EType) },
	"realm-other-consistent": func(c *Case) { c.TktRealm = OtherRealm; c.TktKey = "otherrealm" },
	"realm-other-wrong-key":  func(c *Case) { c.TktRealm = OtherRealm },
	"realm-unknown":          func(c *Case) { c.TktRealm = "NOWHERE.NET" },
	"sname-unknown":          func(c *Case) { c.TktSName = "HTTP/unknown.example.com" },
	"sname-second-wrong-key": func(c *Case) { c.TktSName = c.SecondPrincipal() },
	"sname-second-consistent": func(c *Case) {
		c.TktSName = c.SecondPrincipal()
		c.TktKey = "host"
		c.AUsage = c.ExpectedAuthUsage()
	},
	"sname-prefix":        func(c *Case) { c.TktSName = mint.Name(c.Svc)[0] },
	"sname-extended":      func(c *Case) { c.TktSName = c.Svc + "/extra" },
	"sname-empty":         func(c *Case) { c.TktSName = ""; c.AUsage = 11 },
	"end-inside":          func(c *Case) { c.EndOff = -c.Skew().Milliseconds() + tkM },
	"end-outside":         func(c *Case) { c.EndOff = -c.Skew().Milliseconds() - tkM },
	"start-inside":        func(c *Case) { v := c.Skew().Milliseconds() - tkM; c.StartOff = &v },
	"start-outside":       func(c *Case) { v := c.Skew().Milliseconds() + tkM; c.StartOff = &v },
	"start-absent":        func(c *Case) { c.StartOff = nil },
	"ctime-past-inside":   func(c *Case) { c.CTimeOff = -c.Skew().Milliseconds() + ctM },
	"ctime-past-outside":  func(c *Case) { c.CTimeOff = -c.Skew().Milliseconds() - ctM },
	"ctime-future-inside": func(c *Case) { c.CTimeOff = c.Skew().Milliseconds() - ctM },
	"ctime-future-outside": func(c *Case) {
		c.CTimeOff = c.Skew().Milliseconds() + ctM
	},
	// centuries away from the service's clock (beyond the range of a 64-bit nanosecond duration)
	"end-far-future":   func(c *Case) { c.EndOff = 70 * farCentury },
	"end-far-past":     func(c *Case) { c.EndOff = -4 * farCentury },
	"start-far-future": func(c *Case) { v := 4 * farCentury; c.StartOff = &v },
	"start-far-past":   func(c *Case) { v := -4 * farCentury; c.StartOff = &v; c.AuthOff = v },
	"ctime-far-future": func(c *Case) { c.CTimeOff = 4 * farCentury },
	"ctime-far-past":   func(c *Case) { c.CTimeOff = -4 * farCentury },
	"tkt-flip-first":   func(c *Case) { c.TktMut = "flip:3" },
	"tkt-flip-middle":  func(c *Case) { c.TktMut = "flip:601" },
	"tkt-flip-last":    func(c *Case) { c.TktMut = "flip:-1" },
	"tkt-trunc-1":      func(c *Case) { c.TktMut = "trunc:1" },
	"tkt-trunc-16":     func(c *Case) { c.TktMut = "trunc:16" },
	"tkt-trunc-most":   func(c *Case) { c.TktMut = "trunc:100000" },
	"auth-flip-first":  func(c *Case) { c.AMut = "flip:5" },
	"auth-flip-middle": func(c *Case) { c.AMut = "flip:333" },
	"auth-trunc-1":     func(c *Case) { c.AMut = "trunc:1" },
	"auth-trunc-most":  func(c *Case) { c.AMut = "trunc:100000" },
	"cname-mismatch":   func(c *Case) { c.ACName = "mallory" },
	"cname-extra-comp": func(c *Case) { c.ACName = c.CName + "/admin" },
	"cname-two-comp":   func(c *Case) { c.CName = "alice/admin"; c.ACName = "alice/admin" },
	// the same characters grouped into other components: ticket {"alice/admin"}, authenticator {"alice","admin"}
	"cname-regrouped":                       func(c *Case) { c.CName = "alice%2Fadmin"; c.ACName = "alice/admin" },
	"cname-regrouped-reverse":               func(c *Case) { c.CName = "alice/admin"; c.ACName = "alice%2Fadmin" },
	"cname-slash-component":                 func(c *Case) { c.CName = "alice%2Fadmin"; c.ACName = "alice%2Fadmin" },
	"wire-trailing-forged-encpart":          func(c *Case) { c.Trailing = "forged-encpart" },
	"wire-trailing-forged-encpart-no-caddr": func(c *Case) { c.Trailing = "forged-encpart"; c.CAddr = nil; c.StartOff = nil },
	"cname-empty":                           func(c *Case) { c.CName = ""; c.ACName = "" },
	"crealm-mismatch":                       func(c *Case) { c.ACRealm = "EVIL.ORG" },
	// name types are hints (RFC 4120 6.2): they neither decide acceptance nor change the identity that is reported, also
	// when the name looks like user@REALM
	"auth-nametype-enterprise":      func(c *Case) { c.ACNameType = 10 },
	"auth-nametype-srv-inst":        func(c *Case) { c.ACNameType = 2 },
	"cname-at-sign":                 func(c *Case) { c.CName, c.ACName = "alice@EVIL.ORG", "alice@EVIL.ORG" },
	"cname-at-sign-auth-enterprise": func(c *Case) { c.CName, c.ACName, c.ACNameType = "alice@EVIL.ORG", "alice@EVIL.ORG", 10 },
	"cname-at-sign-both-enterprise": func(c *Case) {
		c.CName, c.ACName, c.CNameType, c.ACNameType = "alice@EVIL.ORG", "alice@EVIL.ORG", 10, 10
	},
	"cname-at-sign-ticket-enterprise": func(c *Case) { c.CName, c.ACName, c.CNameType = "alice@EVIL.ORG", "alice@EVIL.ORG", 10 },
	// names and realms are case-sensitive octet strings: the same word in another letter case is another principal / realm
	"crealm-other-case":       func(c *Case) { c.ACRealm = strings.ToLower(c.CRealm) },
	"crealm-other-case-first": func(c *Case) { c.ACRealm = swapCaseFirst(c.CRealm) },
	"crealm-trailing-dot":     func(c *Case) { c.ACRealm = c.CRealm + "." },
	"cname-other-case":        func(c *Case) { c.ACName = swapCaseFirst(c.CName) },
	"cname-upper-case":        func(c *Case) { c.ACName = strings.ToUpper(c.CName) },
	"crealm-foreign":          func(c *Case) { c.CRealm = "PARTNER.NET"; c.ACRealm = "PARTNER.NET" },
	"auth-usage-wrong": func(c *Case) {
		if c.ExpectedAuthUsage() == 11 {
			c.AUsage = 7
		} else {
			c.AUsage = 11
		}
	},
	"tkt-usage-wrong":    func(c *Case) { c.TktUsage = 3 },
	"auth-key-unrelated": func(c *Case) { c.AKey = "unrelated" },
	"caddr-A":            func(c *Case) { c.CAddr = []string{"A"} },
	"caddr-B":            func(c *Case) { c.CAddr = []string{"B"} },
	"caddr-AB":           func(c *Case) { c.CAddr = []string{"A", "B"} },
	"caddr-V6":           func(c *Case) { c.CAddr = []string{"V6"} },
	"caddr-A-V6":         func(c *Case) { c.CAddr = []string{"A", "V6"} },
	"caddr-none":         func(c *Case) { c.CAddr = nil },
	// addresses of the other registered kinds: no kind is exempt from the comparison, alone or next to others
	"caddr-NB":     func(c *Case) { c.CAddr = []string{"NB"} },
	"caddr-NB-B":   func(c *Case) { c.CAddr = []string{"NB", "B"} },
	"caddr-A-NB":   func(c *Case) { c.CAddr = []string{"A", "NB"} },
	"caddr-DIR":    func(c *Case) { c.CAddr = []string{"DIR"} },
	"caddr-A20":    func(c *Case) { c.CAddr = []string{"A20"} },
	"caddr-NB-NB":  func(c *Case) { c.CAddr = []string{"NB", "NB"} },
	"flag-invalid": func(c *Case) { c.Flags |= mint.Flag(7) },
	"pac-good":     func(c *Case) { c.PAC = "good" },
	"pac-badsig":   func(c *Case) { c.PAC = "badsig" },
	// a PAC element that cannot even be parsed fails verification all the more
	"pac-broken-table":  func(c *Case) { c.PAC = "broken-table" },
	"pac-broken-header": func(c *Case) { c.PAC = "broken-header" },
	"pac-broken-empty":  func(c *Case) { c.PAC = "broken-empty" },
	"pac-broken-count":  func(c *Case) { c.PAC = "broken-count" },
	"pac-broken-offset": func(c *Case) { c.PAC = "broken-offset" },
	// the authenticator's client time written as local time with a numeric zone offset: the same instant
	"ctime-zone-plus0130":  func(c *Case) { c.CTimeZone = "+0130" },
	"ctime-zone-minus0330": func(c *Case) { c.CTimeZone = "-0330" },
	"ctime-zone-plus0100":  func(c *Case) { c.CTimeZone = "+0100" },
	"ctime-zone-plus0545":  func(c *Case) { c.CTimeZone = "+0545" },
	// the PAC's container is not the first (or not the only) element of the ticket's authorization data
	"pac-behind-empty":       func(c *Case) { c.PACPos = "behind-empty"; pacIfNone(c) },
	"pac-behind-restriction": func(c *Case) { c.PACPos = "behind-restriction"; pacIfNone(c) },
	"pac-behind-two":         func(c *Case) { c.PACPos = "behind-two"; pacIfNone(c) },
	"pac-before-other":       func(c *Case) { c.PACPos = "before-other"; pacIfNone(c) },
	// the session key sealed in the ticket is of another etype than the service key sealing the ticket (KDCs do this routinely)
	"session-etype-other":  func(c *Case) { c.SessEType = OtherEType(c.TktEType) },
	"session-etype-second": func(c *Case) { c.SessEType = AbsentEType(c.TktEType) },
	"subkey-seq":           func(c *Case) { c.SubKey = true; c.Seq = true },
	"replay":               func(c *Case) { c.Replay = true },
}

// swapCaseFirst changes the case of the first letter of s (s itself when it has none).
func swapCaseFirst(s string) string {
	for i, r := range s {
		switch {
		case r >= 'a' && r <= 'z':
			return s[:i] + string(r-32) + s[i+1:]
		case r >= 'A' && r <= 'Z':
			return s[:i] + string(r+32) + s[i+1:]
		}
	}
	return s
}

func pacIfNone(c *Case) {
	if c.PAC == "" {
		c.PAC = "good"
	}
}

// DefectNames is the sorted catalogue.
var DefectNames = func() []string {
	n := []string{}
	for k := range Defects {
		n = append(n, k)
	}
	sort.Strings(n)
	return n
}()

// Apply applies named defects in order and normalises fields the renderer cannot express.
func (c *Case) Apply(names ...string) {
	for _, n := range names {
		Defects[n](c)
		c.Defects = append(c.Defects, n)
	}
	if c.TktEType == ref.DES3 && c.PAC != "" {
		c.PAC = "" // MS-PAC defines no des3 signature type
	}
}
