package c13

import (
	"time"

	"github.com/jcmturner/gofork/encoding/asn1"
	"github.com/jcmturner/gokrb5/v8/messages"
	"github.com/jcmturner/gokrb5/v8/spnego"
	"github.com/jcmturner/gokrb5/v8/types"

	"verif/harness/ref/der"
)

// entry binds a schema type to gokrb5's decoder/encoder and a field extractor.
type entry struct {
	name      string
	schema    *der.Type
	unmarshal func(b []byte) (any, error)
	marshal   func(obj any) ([]byte, error) // nil when gokrb5 has no encoder
	extract   func(obj any) der.M
}

func optTime(m der.M, k string, t time.Time) {
	if !t.IsZero() {
		m[k] = t.UTC()
	}
}
func optInt(m der.M, k string, v int64) {
	if v != 0 {
		m[k] = v
	}
}
func optStr(m der.M, k, v string) {
	if v != "" {
		m[k] = v
	}
}
func optBytes(m der.M, k string, v []byte) {
	if len(v) > 0 {
		m[k] = v
	}
}

func xPN(p types.PrincipalName) der.M {
	l := []any{}
	for _, s := range p.NameString {
		l = append(l, s)
	}
	return der.M{"name-type": int64(p.NameType), "name-string": l}
}
func pnZero(p types.PrincipalName) bool { return p.NameType == 0 && len(p.NameString) == 0 }

func xAddr(a types.HostAddress) der.M {
	return der.M{"addr-type": int64(a.AddrType), "address": a.Address}
}
func addrZero(a types.HostAddress) bool { return a.AddrType == 0 && len(a.Address) == 0 }
func xAddrs(a []types.HostAddress) []any {
	out := []any{}
	for _, x := range a {
		out = append(out, xAddr(x))
	}
	return out
}
func xAD(a types.AuthorizationData) []any {
	out := []any{}
	for _, x := range a {
		out = append(out, der.M{"ad-type": int64(x.ADType), "ad-data": x.ADData})
	}
	return out
}
func xPAs(a []types.PAData) []any {
	out := []any{}
	for _, x := range a {
		out = append(out, der.M{"padata-type": int64(x.PADataType), "padata-value": x.PADataValue})
	}
	return out
}
func xED(e types.EncryptedData) der.M {
	m := der.M{"etype": int64(e.EType), "cipher": e.Cipher}
	optInt(m, "kvno", int64(e.KVNO))
	return m
}
func edZero(e types.EncryptedData) bool { return e.EType == 0 && e.KVNO == 0 && len(e.Cipher) == 0 }
func xKey(k types.EncryptionKey) der.M {
	return der.M{"keytype": int64(k.KeyType), "keyvalue": k.KeyValue}
}
func keyZero(k types.EncryptionKey) bool { return k.KeyType == 0 && len(k.KeyValue) == 0 }
func xCk(k types.Checksum) der.M {
	return der.M{"cksumtype": int64(k.CksumType), "checksum": k.Checksum}
}
func xFlags(b asn1.BitString) []byte { return b.Bytes }

func xTicket(t messages.Ticket) der.M {
	return der.M{"tkt-vno": int64(t.TktVNO), "realm": t.Realm, "sname": xPN(t.SName), "enc-part": xED(t.EncPart)}
}

func xReqBody(b messages.KDCReqBody) der.M {
	m := der.M{"kdc-options": xFlags(b.KDCOptions), "realm": b.Realm, "till": b.Till.UTC(), "nonce": int64(b.Nonce)}
	if !pnZero(b.CName) {
		m["cname"] = xPN(b.CName)
	}
	if !pnZero(b.SName) {
		m["sname"] = xPN(b.SName)
	}
	optTime(m, "from", b.From)
	optTime(m, "rtime", b.RTime)
	et := []any{}
	for _, e := range b.EType {
		et = append(et, int64(e))
	}
	m["etype"] = et
	if len(b.Addresses) > 0 {
		m["addresses"] = xAddrs(b.Addresses)
	}
	if !edZero(b.EncAuthData) {
		m["enc-authorization-data"] = xED(b.EncAuthData)
	}
	if len(b.AdditionalTickets) > 0 {
		l := []any{}
		for _, t := range b.AdditionalTickets {
			l = append(l, xTicket(t))
		}
		m["additional-tickets"] = l
	}
	return m
}

func xKDCReq(f messages.KDCReqFields) der.M {
	m := der.M{"pvno": int64(f.PVNO), "msg-type": int64(f.MsgType), "req-body": xReqBody(f.ReqBody)}
	if len(f.PAData) > 0 {
		m["padata"] = xPAs(f.PAData)
	}
	return m
}

func xKDCRep(f messages.KDCRepFields) der.M {
	m := der.M{"pvno": int64(f.PVNO), "msg-type": int64(f.MsgType), "crealm": f.CRealm, "cname": xPN(f.CName),
		"ticket": xTicket(f.Ticket), "enc-part": xED(f.EncPart)}
	if len(f.PAData) > 0 {
		m["padata"] = xPAs(f.PAData)
	}
	return m
}

func xEncKDCRepPart(e messages.EncKDCRepPart) der.M {
	lr := []any{}
	for _, l := range e.LastReqs {
		lr = append(lr, der.M{"lr-type": int64(l.LRType), "lr-value": l.LRValue.UTC()})
	}
	m := der.M{"key": xKey(e.Key), "last-req": lr, "nonce": int64(e.Nonce), "flags": xFlags(e.Flags), "authtime": e.AuthTime.UTC(),
		"endtime": e.EndTime.UTC(), "srealm": e.SRealm, "sname": xPN(e.SName)}
	optTime(m, "key-expiration", e.KeyExpiration)
	optTime(m, "starttime", e.StartTime)
	optTime(m, "renew-till", e.RenewTill)
	if len(e.CAddr) > 0 {
		m["caddr"] = xAddrs(e.CAddr)
	}
	if len(e.EncPAData) > 0 {
		m["encrypted-pa-data"] = xPAs(e.EncPAData)
	}
	return m
}

func xAuthenticator(a types.Authenticator) der.M {
	m := der.M{"authenticator-vno": int64(a.AVNO), "crealm": a.CRealm, "cname": xPN(a.CName), "cusec": int64(a.Cusec), "ctime": a.CTime.UTC()}
	if a.Cksum.CksumType != 0 || len(a.Cksum.Checksum) > 0 {
		m["cksum"] = xCk(a.Cksum)
	}
	if !keyZero(a.SubKey) {
		m["subkey"] = xKey(a.SubKey)
	}
	optInt(m, "seq-number", a.SeqNumber)
	if len(a.AuthorizationData) > 0 {
		m["authorization-data"] = xAD(a.AuthorizationData)
	}
	return m
}

func xKRBError(k messages.KRBError) der.M {
	m := der.M{"pvno": int64(k.PVNO), "msg-type": int64(k.MsgType), "stime": k.STime.UTC(), "susec": int64(k.Susec),
		"error-code": int64(k.ErrorCode), "realm": k.Realm, "sname": xPN(k.SName)}
	optTime(m, "ctime", k.CTime)
	optInt(m, "cusec", int64(k.Cusec))
	optStr(m, "crealm", k.CRealm)
	if !pnZero(k.CName) {
		m["cname"] = xPN(k.CName)
	}
	optStr(m, "e-text", k.EText)
	optBytes(m, "e-data", k.EData)
	return m
}

func xEncPriv(e messages.EncKrbPrivPart) der.M {
	m := der.M{"user-data": e.UserData, "s-address": xAddr(e.SAddress)}
	optTime(m, "timestamp", e.Timestamp)
	optInt(m, "usec", int64(e.Usec))
	optInt(m, "seq-number", e.SequenceNumber)
	if !addrZero(e.RAddress) {
		m["r-address"] = xAddr(e.RAddress)
	}
	return m
}

func xEncTicketPart(e messages.EncTicketPart) der.M {
	m := der.M{"flags": xFlags(e.Flags), "key": xKey(e.Key), "crealm": e.CRealm, "cname": xPN(e.CName),
		"transited": der.M{"tr-type": int64(e.Transited.TRType), "contents": e.Transited.Contents}, "authtime": e.AuthTime.UTC(), "endtime": e.EndTime.UTC()}
	optTime(m, "starttime", e.StartTime)
	optTime(m, "renew-till", e.RenewTill)
	if len(e.CAddr) > 0 {
		m["caddr"] = xAddrs(e.CAddr)
	}
	if len(e.AuthorizationData) > 0 {
		m["authorization-data"] = xAD(e.AuthorizationData)
	}
	return m
}

func oidList(l []asn1.ObjectIdentifier) []any {
	out := []any{}
	for _, o := range l {
		out = append(out, []int(o))
	}
	return out
}

var entries = []entry{
	{"Ticket", der.Ticket,
		func(b []byte) (any, error) { var t messages.Ticket; err := t.Unmarshal(b); return &t, err },
		func(o any) ([]byte, error) { return o.(*messages.Ticket).Marshal() },
		func(o any) der.M { return xTicket(*o.(*messages.Ticket)) }},
	{"EncTicketPart", der.EncTicketPart,
		func(b []byte) (any, error) { var t messages.EncTicketPart; err := t.Unmarshal(b); return &t, err },
		nil,
		func(o any) der.M { return xEncTicketPart(*o.(*messages.EncTicketPart)) }},
	{"Authenticator", der.Authenticator,
		func(b []byte) (any, error) { var t types.Authenticator; err := t.Unmarshal(b); return &t, err },
		func(o any) ([]byte, error) { return o.(*types.Authenticator).Marshal() },
		func(o any) der.M { return xAuthenticator(*o.(*types.Authenticator)) }},
	{"EncryptedData", der.EncryptedData,
		func(b []byte) (any, error) { var t types.EncryptedData; err := t.Unmarshal(b); return &t, err },
		func(o any) ([]byte, error) { return o.(*types.EncryptedData).Marshal() },
		func(o any) der.M { return xED(*o.(*types.EncryptedData)) }},
	{"AS-REQ", der.ASReq,
		func(b []byte) (any, error) { var t messages.ASReq; err := t.Unmarshal(b); return &t, err },
		func(o any) ([]byte, error) { return o.(*messages.ASReq).Marshal() },
		func(o any) der.M { return xKDCReq(o.(*messages.ASReq).KDCReqFields) }},
	{"TGS-REQ", der.TGSReq,
		func(b []byte) (any, error) { var t messages.TGSReq; err := t.Unmarshal(b); return &t, err },
		func(o any) ([]byte, error) { return o.(*messages.TGSReq).Marshal() },
		func(o any) der.M { return xKDCReq(o.(*messages.TGSReq).KDCReqFields) }},
	{"KDC-REQ-BODY", der.KDCReqBody,
		func(b []byte) (any, error) { var t messages.KDCReqBody; err := t.Unmarshal(b); return &t, err },
		func(o any) ([]byte, error) { return o.(*messages.KDCReqBody).Marshal() },
		func(o any) der.M { return xReqBody(*o.(*messages.KDCReqBody)) }},
	{"AS-REP", der.ASRep,
		func(b []byte) (any, error) { var t messages.ASRep; err := t.Unmarshal(b); return &t, err },
		func(o any) ([]byte, error) { return o.(*messages.ASRep).Marshal() },
		func(o any) der.M { return xKDCRep(o.(*messages.ASRep).KDCRepFields) }},
	{"TGS-REP", der.TGSRep,
		func(b []byte) (any, error) { var t messages.TGSRep; err := t.Unmarshal(b); return &t, err },
		func(o any) ([]byte, error) { return o.(*messages.TGSRep).Marshal() },
		func(o any) der.M { return xKDCRep(o.(*messages.TGSRep).KDCRepFields) }},
	{"EncASRepPart", der.EncASRepPart,
		func(b []byte) (any, error) { var t messages.EncKDCRepPart; err := t.Unmarshal(b); return &t, err },
		func(o any) ([]byte, error) { return o.(*messages.EncKDCRepPart).Marshal() },
		func(o any) der.M { return xEncKDCRepPart(*o.(*messages.EncKDCRepPart)) }},
	{"EncTGSRepPart", der.EncTGSRepPart,
		func(b []byte) (any, error) { var t messages.EncKDCRepPart; err := t.Unmarshal(b); return &t, err },
		nil, // EncKDCRepPart.Marshal always emits the EncASRepPart application tag (25): covered by EncASRepPart
		func(o any) der.M { return xEncKDCRepPart(*o.(*messages.EncKDCRepPart)) }},
	{"AP-REQ", der.APReq,
		func(b []byte) (any, error) { var t messages.APReq; err := t.Unmarshal(b); return &t, err },
		func(o any) ([]byte, error) { return o.(*messages.APReq).Marshal() },
		func(o any) der.M {
			a := o.(*messages.APReq)
			return der.M{"pvno": int64(a.PVNO), "msg-type": int64(a.MsgType), "ap-options": xFlags(a.APOptions), "ticket": xTicket(a.Ticket), "authenticator": xED(a.EncryptedAuthenticator)}
		}},
	{"KRB-ERROR", der.KRBError,
		func(b []byte) (any, error) { var t messages.KRBError; err := t.Unmarshal(b); return &t, err },
		func(o any) ([]byte, error) { return o.(*messages.KRBError).Marshal() },
		func(o any) der.M { return xKRBError(*o.(*messages.KRBError)) }},
	{"KRB-PRIV", der.KRBPriv,
		func(b []byte) (any, error) { var t messages.KRBPriv; err := t.Unmarshal(b); return &t, err },
		func(o any) ([]byte, error) { return o.(*messages.KRBPriv).Marshal() },
		func(o any) der.M {
			a := o.(*messages.KRBPriv)
			return der.M{"pvno": int64(a.PVNO), "msg-type": int64(a.MsgType), "enc-part": xED(a.EncPart)}
		}},
	{"EncKrbPrivPart", der.EncKrbPrivPart,
		func(b []byte) (any, error) { var t messages.EncKrbPrivPart; err := t.Unmarshal(b); return &t, err },
		nil,
		func(o any) der.M { return xEncPriv(*o.(*messages.EncKrbPrivPart)) }},
	{"NegTokenInit", negTokenInitChoice,
		func(b []byte) (any, error) { var t spnego.NegTokenInit; err := t.Unmarshal(b); return &t, err },
		func(o any) ([]byte, error) { return o.(*spnego.NegTokenInit).Marshal() },
		func(o any) der.M {
			a := o.(*spnego.NegTokenInit)
			m := der.M{"mechTypes": oidList(a.MechTypes)}
			if a.ReqFlags.BitLength > 0 {
				m["reqFlags"] = der.Bits{B: a.ReqFlags.Bytes, Unused: len(a.ReqFlags.Bytes)*8 - a.ReqFlags.BitLength}
			}
			optBytes(m, "mechToken", a.MechTokenBytes)
			optBytes(m, "mechListMIC", a.MechListMIC)
			return m
		}},
	{"NegTokenResp", negTokenRespChoice,
		func(b []byte) (any, error) { var t spnego.NegTokenResp; err := t.Unmarshal(b); return &t, err },
		func(o any) ([]byte, error) { return o.(*spnego.NegTokenResp).Marshal() },
		func(o any) der.M {
			a := o.(*spnego.NegTokenResp)
			m := der.M{"negState": int64(a.NegState)}
			if len(a.SupportedMech) > 0 {
				m["supportedMech"] = []int(a.SupportedMech)
			}
			optBytes(m, "responseToken", a.ResponseToken)
			optBytes(m, "mechListMIC", a.MechListMIC)
			return m
		}},
}

// NegotiationToken ::= CHOICE { negTokenInit [0] NegTokenInit, negTokenResp [1] NegTokenResp }: the
// choice tag is modelled as a one-field wrapper whose encoding is unwrapped by choiceBytes.
var (
	negTokenInitChoice = der.NegTokenInit
	negTokenRespChoice = der.NegTokenResp
)

func entryByName(n string) *entry {
	for i := range entries {
		if entries[i].name == n {
			return &entries[i]
		}
	}
	return nil
}

// wire converts the schema encoding into what travels on the wire (adds the CHOICE tag for SPNEGO).
func wire(name string, b []byte) []byte {
	switch name {
	case "NegTokenInit":
		return der.Ctx(0, b)
	case "NegTokenResp":
		return der.Ctx(1, b)
	}
	return b
}

// unwire is the inverse of wire, strict.
func unwire(name string, b []byte) ([]byte, error) {
	tag := -1
	switch name {
	case "NegTokenInit":
		tag = 0
	case "NegTokenResp":
		tag = 1
	default:
		return b, nil
	}
	n, err := der.Parse(b)
	if err != nil {
		return nil, err
	}
	if !n.Is(der.Context, tag, true) {
		return nil, der.ErrDER
	}
	return n.Content, nil
}
