// C13 — Kerberos and SPNEGO messages survive encode/decode and match the RFC ASN.1.
package c13

import (
	"bytes"
	"encoding/hex"
	"fmt"
	"regexp"
	"sort"
	"strings"
	"testing"
	"time"

	"github.com/jcmturner/gofork/encoding/asn1"
	"github.com/jcmturner/gokrb5/v8/asn1tools"
	"github.com/jcmturner/gokrb5/v8/config"
	"github.com/jcmturner/gokrb5/v8/credentials"
	"github.com/jcmturner/gokrb5/v8/kadmin"
	"github.com/jcmturner/gokrb5/v8/keytab"
	"github.com/jcmturner/gokrb5/v8/messages"
	"github.com/jcmturner/gokrb5/v8/spnego"
	"github.com/jcmturner/gokrb5/v8/types"
	"pgregory.net/rapid"

	"verif/harness/c01"
	"verif/harness/dergen"
	"verif/harness/evid"
	"verif/harness/kgen"
	"verif/harness/mint"
	"verif/harness/ref/der"
	ref "verif/harness/ref/krbcrypto"
	"verif/harness/refcheck"
)

// Case: a reference encoding of a typed value, or a parameterised special case.
type Case struct {
	Type  string `json:"type"`
	DER   string `json:"der,omitempty"` // hex of the independent encoding (schema level)
	N     int    `json:"n,omitempty"`
	EType int32  `json:"etype,omitempty"`
	Seed  uint64 `json:"seed,omitempty"`
}

var idx = regexp.MustCompile(`\[\d+\]`)

func firstDiff(a, b []byte) int {
	for i := 0; i < len(a) && i < len(b); i++ {
		if a[i] != b[i] {
			return i
		}
	}
	return min(len(a), len(b))
}

// Eval judges one Case.
func Eval(c Case) evid.Verdict {
	return evid.SafeEval(func() evid.Verdict {
		switch c.Type {
		case "length":
			return evalLength(c.N)
		case "flag":
			return evalFlag(c.N)
		case "built-tgsreq", "built-asreq":
			return evalBuilt(c)
		case "use-ticket", "use-apreq", "use-asrep", "use-tgsrep", "use-krbpriv":
			return evalUse(c)
		case "spnego-framing", "krb5-framing":
			return evalFraming(c)
		case "changepasswd":
			return evalChangePasswd(c)
		case "ticket-seq":
			return evalTicketSeq(c)
		}
		e := entryByName(c.Type)
		if e == nil {
			return evid.Fail("harness", "unknown type %q", c.Type)
		}
		enc, _ := hex.DecodeString(c.DER)
		model, err := e.schema.Decode(enc)
		if err != nil {
			return evid.Fail("harness", "reference cannot decode its own encoding: %v", err)
		}
		b := wire(c.Type, enc)
		obj, err := e.unmarshal(b)
		if err != nil {
			return evid.Fail("decode-fail:"+c.Type, "gokrb5 cannot decode a conformant %s: %v\n%x", c.Type, err, trunc(b))
		}
		if d := der.Diff(model, e.extract(obj), ""); d != "" {
			return evid.Fail("field:"+c.Type+":"+idx.ReplaceAllString(fieldOf(d), "[]"), "decoded %s holds other field values than were encoded: %s (reference vs gokrb5)", c.Type, d)
		}
		if e.marshal == nil {
			return evid.Pass()
		}
		out, err := e.marshal(obj)
		if err != nil {
			return evid.Fail("encode-fail:"+c.Type, "gokrb5 cannot re-encode a decoded %s: %v", c.Type, err)
		}
		if !bytes.Equal(out, b) {
			// is what it produced at least conformant?
			inner, uerr := unwire(c.Type, out)
			var derr error
			var m2 any
			if uerr == nil {
				m2, derr = e.schema.Decode(inner)
			} else {
				derr = uerr
			}
			if derr != nil {
				return evid.Fail("nonconformant:"+c.Type, "re-encoded %s violates the RFC ASN.1: %v (first difference at byte %d)\n in  %x\n out %x", c.Type, derr, firstDiff(out, b), trunc(b), trunc(out))
			}
			return evid.Fail("reencode:"+c.Type+":"+idx.ReplaceAllString(fieldOf(der.Diff(model, m2, "")), "[]"), "re-encoding a decoded %s does not reproduce the original bytes (first difference at byte %d of %d/%d; value difference: %s)\n in  %x\n out %x",
				c.Type, firstDiff(out, b), len(b), len(out), der.Diff(model, m2, ""), trunc(b), trunc(out))
		}
		obj2, err := e.unmarshal(out)
		if err != nil {
			return evid.Fail("roundtrip:"+c.Type, "gokrb5 cannot decode its own encoding: %v", err)
		}
		if d := der.Diff(e.extract(obj), e.extract(obj2), ""); d != "" {
			return evid.Fail("roundtrip:"+c.Type, "Unmarshal(Marshal(v)) differs from v: %s", d)
		}
		return evid.Pass()
	})
}

func fieldOf(d string) string {
	if i := bytes.IndexByte([]byte(d), ':'); i > 0 {
		return d[:i]
	}
	return d
}

func trunc(b []byte) []byte {
	if len(b) > 300 {
		return b[:300]
	}
	return b
}

func refLen(l int) []byte { return der.LenBytes(l) }

func evalLength(l int) evid.Verdict {
	got := asn1tools.MarshalLengthBytes(l)
	want := refLen(l)
	if !bytes.Equal(got, want) {
		return evid.Fail("length:marshal", "MarshalLengthBytes(%d) = %x, DER requires %x", l, got, want)
	}
	hdr := append([]byte{0x30}, want...)
	hdr = append(hdr, 0, 0) // GetLengthFromASN reads b[1..]
	if g := asn1tools.GetLengthFromASN(hdr); g != l {
		return evid.Fail("length:get", "GetLengthFromASN(%x) = %d, want %d", hdr[:len(want)+1], g, l)
	}
	if g := asn1tools.GetNumberBytesInLengthHeader(hdr); g != len(want) {
		return evid.Fail("length:header-bytes", "GetNumberBytesInLengthHeader(%x) = %d, want %d", hdr[:len(want)+1], g, len(want))
	}
	return evid.Pass()
}

func evalFlag(i int) evid.Verdict {
	f := types.NewKrbFlags()
	types.SetFlag(&f, i)
	for j := 0; j < 32; j++ {
		if types.IsFlagSet(&f, j) != (j == i) {
			return evid.Fail("flag:isset", "after SetFlag(%d), IsFlagSet(%d) = %v", i, j, types.IsFlagSet(&f, j))
		}
	}
	body := messages.KDCReqBody{KDCOptions: f, Realm: "R", Till: time.Unix(1700000000, 0).UTC(), Nonce: 1, EType: []int32{18}}
	b, err := body.Marshal()
	if err != nil {
		return evid.Fail("flag:marshal", "KDCReqBody.Marshal: %v", err)
	}
	m, err := der.KDCReqBody.DecodeM(b)
	if err != nil {
		return evid.Fail("nonconformant:KDC-REQ-BODY", "flags: %v\n%x", err, b)
	}
	fl := m["kdc-options"].([]byte)
	for j := 0; j < 32; j++ {
		set := fl[j/8]&(0x80>>uint(j%8)) != 0
		if set != (j == i) {
			return evid.Fail("flag:numbering", "SetFlag(%d) encodes to %x: RFC 4120 bit %d is %v", i, fl, j, set)
		}
	}
	types.UnsetFlag(&f, i)
	if types.IsFlagSet(&f, i) {
		return evid.Fail("flag:unset", "UnsetFlag(%d) left the flag set", i)
	}
	// decode direction: a reference-encoded ticket flags value
	return evid.Pass()
}

// evalUse: Marshal after decrypt/verify must return the bytes received.
// evalBuilt: requests made by the library's own constructors (NewTGSReq, NewUser2UserTGSReq, NewASReqForTGT), one field of
// the body assigned afterwards as an application may (nonce, till, an etype list, a KDC option, a further additional
// ticket), then Marshal: an independent decoder must read the values the object holds now, and Unmarshal must give them back.
func evalBuilt(c Case) evid.Verdict {
	cfg, err := config.NewFromString("[libdefaults]\n default_realm = EXAMPLE.COM\n default_tgs_enctypes = aes256-cts-hmac-sha1-96 aes128-cts-hmac-sha1-96\n default_tkt_enctypes = aes256-cts-hmac-sha1-96\n forwardable = true\n")
	if err != nil {
		return evid.Fail("harness", "config: %v", err)
	}
	et := c.EType
	sess := types.EncryptionKey{KeyType: et, KeyValue: ref.RandomKey(et, kgen.DetBytes(c.Seed, "c13/built/sess", 32))}
	kv := 2
	tk := &mint.TicketSpec{Realm: "EXAMPLE.COM", SName: "krbtgt/EXAMPLE.COM", SNameType: 2, KVNO: &kv, EncKey: mint.Key{EType: et, Value: ref.RandomKey(et, kgen.DetBytes(c.Seed, "c13/built/k", 32))},
		Conf: kgen.DetBytes(c.Seed, "c13/built/conf", 16), Flags: mint.Flag(1), Session: mint.Key{EType: et, Value: sess.KeyValue}, CRealm: "EXAMPLE.COM", CName: "alice", CNameType: 1,
		AuthTime: time.Unix(1700000000, 0).UTC(), EndTime: time.Unix(1700003600, 0).UTC()}
	var tgt messages.Ticket
	if err := tgt.Unmarshal(tk.Bytes()); err != nil {
		return evid.Fail("harness", "ticket: %v", err)
	}
	cname := types.PrincipalName{NameType: 1, NameString: []string{"alice"}}
	sname := types.PrincipalName{NameType: 2, NameString: []string{"HTTP", "web.example.com"}}
	var body *messages.KDCReqBody
	var marshal func() ([]byte, error)
	schema := der.TGSReq
	var tgs messages.TGSReq
	var as messages.ASReq
	switch {
	case c.Type == "built-asreq":
		as, err = messages.NewASReqForTGT("EXAMPLE.COM", cfg, cname)
		body, marshal, schema = &as.ReqBody, as.Marshal, der.ASReq
	case c.N%2 == 0:
		tgs, err = messages.NewTGSReq(cname, "EXAMPLE.COM", cfg, tgt, sess, sname, c.N%4 == 2)
		body, marshal = &tgs.ReqBody, tgs.Marshal
	default:
		tgs, err = messages.NewUser2UserTGSReq(cname, "EXAMPLE.COM", cfg, tgt, sess, sname, false, tgt)
		body, marshal = &tgs.ReqBody, tgs.Marshal
	}
	if err != nil {
		return evid.Fail("harness", "constructor: %v", err)
	}
	what := []string{"nothing", "nonce", "till", "etype", "kdc-options", "additional-ticket", "sname"}[(c.N/4)%7]
	switch what {
	case "nonce":
		body.Nonce = 1234567 + int(c.Seed%1000)
	case "till":
		body.Till = time.Unix(1900000000+int64(c.Seed%1000), 0).UTC()
	case "etype":
		body.EType = []int32{23, 17}
	case "kdc-options":
		types.SetFlag(&body.KDCOptions, 8) // RENEWABLE
		types.SetFlag(&body.KDCOptions, 27)
	case "additional-ticket":
		body.AdditionalTickets = append(body.AdditionalTickets, tgt)
	case "sname":
		body.SName = types.PrincipalName{NameType: 2, NameString: []string{"host", "other.example.com"}}
	}
	out, err := marshal()
	if err != nil {
		return evid.Fail("built:marshal-error", "Marshal of a constructed %s after assigning %s: %v", c.Type, what, err)
	}
	m, err := schema.DecodeM(out)
	if err != nil {
		return evid.Fail("built:not-conformant", "the encoding of a constructed %s (after assigning %s) is not conformant: %v", c.Type, what, err)
	}
	rb := m["req-body"].(der.M)
	var ets []int32
	for _, e := range rb["etype"].([]any) {
		ets = append(ets, int32(e.(int64)))
	}
	nAdd := 0
	if l, ok := rb["additional-tickets"].([]any); ok {
		nAdd = len(l)
	}
	got := fmt.Sprintf("nonce=%d till=%d etype=%v kdc-options=%x additional-tickets=%d sname=%v", rb["nonce"].(int64), rb["till"].(time.Time).Unix(), ets, rb["kdc-options"], nAdd, der.NameStrings(rb["sname"]))
	want := fmt.Sprintf("nonce=%d till=%d etype=%v kdc-options=%x additional-tickets=%d sname=%v", body.Nonce, body.Till.Unix(), body.EType, body.KDCOptions.Bytes, len(body.AdditionalTickets), body.SName.NameString)
	if got != want {
		return evid.Fail("built:stale-field:"+what, "a %s made by the library's constructor had %s assigned and was marshalled: an independent decoder reads\n  %s\nthe object holds\n  %s", c.Type, what, got, want)
	}
	return evid.Pass()
}

func evalUse(c Case) evid.Verdict {
	sig := "marshal-after-use:" + c.Type
	switch c.Type {
	case "use-ticket", "use-apreq":
		cs := c01.Base(c.EType, c.Seed, "HTTP/svc.example.com")
		if c.N%2 == 1 {
			cs.Apply("pac-good", "caddr-A")
			cs.ClientAddr = "A"
		}
		switch c.N % 3 {
		case 1:
			cs.Apply("kvno-absent") // the optional kvno of the ticket's enc-part is not on the wire
		case 2:
			cs.Apply("start-absent") // (an explicit kvno 0 would be an optional field sent with a zero value: the statement's exception)
		}
		m, err := cs.Mint(c01.SamplePAC())
		if err != nil {
			return evid.Fail("harness", "mint: %v", err)
		}
		kt := keytab.New()
		if err := kt.Unmarshal(m.Keytab); err != nil {
			return evid.Fail("harness", "keytab: %v", err)
		}
		if c.Type == "use-ticket" {
			var t messages.Ticket
			if err := t.Unmarshal(m.TicketDER); err != nil {
				return evid.Fail("decode-fail:Ticket", "%v", err)
			}
			if err := t.DecryptEncPart(kt, nil); err != nil {
				return evid.Fail("harness", "ticket did not decrypt: %v", err)
			}
			out, err := t.Marshal()
			if err != nil || !bytes.Equal(out, m.TicketDER) {
				return evid.Fail(sig, "Ticket.Marshal after DecryptEncPart returns %d bytes (%v), the ticket received has %d; first difference at byte %d; contains session key in clear: %v",
					len(out), err, len(m.TicketDER), firstDiff(out, m.TicketDER), bytes.Contains(out, m.Session.Value))
			}
			// the same decrypted ticket sent on as an additional ticket (user-to-user, S4U2Proxy): the other route by which a ticket is encoded
			raw, err := messages.MarshalTicketSequence([]messages.Ticket{t, t})
			if err != nil {
				return evid.Fail("encode-fail:ticket-seq", "MarshalTicketSequence of a decrypted ticket: %v", err)
			}
			seqOf := &der.Type{Name: "SEQUENCE OF Ticket", Kind: der.KSeqOf, App: -1, Elem: der.Ticket}
			if _, derr := seqOf.Decode(raw.Bytes); derr != nil || !bytes.HasSuffix(raw.Bytes, append(append([]byte{}, m.TicketDER...), m.TicketDER...)) || bytes.Contains(raw.Bytes, m.Session.Value) {
				return evid.Fail(sig+":additional-ticket", "MarshalTicketSequence of a ticket after DecryptEncPart: strict decode as SEQUENCE OF Ticket: %v; %d bytes for two tickets of %d; ends with the two tickets received: %v; session key in clear: %v",
					derr, len(raw.Bytes), len(m.TicketDER), bytes.HasSuffix(raw.Bytes, append(append([]byte{}, m.TicketDER...), m.TicketDER...)), bytes.Contains(raw.Bytes, m.Session.Value))
			}
			return evid.Pass()
		}
		var ap messages.APReq
		if err := ap.Unmarshal(m.APReq); err != nil {
			return evid.Fail("decode-fail:AP-REQ", "%v", err)
		}
		ok, err := ap.Verify(kt, 5*time.Minute, types.HostAddress{AddrType: 2, Address: c01.AddrBytes("A")}, nil)
		if !ok {
			return evid.Fail("harness", "AP-REQ did not verify: %v", err)
		}
		out, err := ap.Marshal()
		if err != nil || !bytes.Equal(out, m.APReq) {
			return evid.Fail(sig, "APReq.Marshal after Verify returns %d bytes (%v), the message received has %d; first difference at byte %d; contains session key in clear: %v",
				len(out), err, len(m.APReq), firstDiff(out, m.APReq), bytes.Contains(out, m.Session.Value))
		}
		return evid.Pass()
	case "use-asrep", "use-tgsrep":
		et := c.EType
		conf := kgen.DetBytes(c.Seed, "c13/conf", 16)
		svcKey := mint.Key{EType: et, Value: ref.RandomKey(et, kgen.DetBytes(c.Seed, "c13/svc", 32))}
		sess := mint.Key{EType: et, Value: ref.RandomKey(et, kgen.DetBytes(c.Seed, "c13/sess", 32))}
		replyKey := mint.Key{EType: et, Value: ref.RandomKey(et, kgen.DetBytes(c.Seed, "c13/reply", 32))}
		now := time.Unix(1700000000, 0).UTC()
		kv := 2
		tk := &mint.TicketSpec{Realm: "EXAMPLE.COM", SName: "krbtgt/EXAMPLE.COM", SNameType: 2, KVNO: &kv, EncKey: svcKey, Conf: conf,
			Flags: mint.Flag(1), Session: sess, CRealm: "EXAMPLE.COM", CName: "alice", CNameType: 1, AuthTime: now, EndTime: now.Add(time.Hour)}
		app, usage, schema, msg := der.EncASRepPart, uint32(3), der.ASRep, int64(11)
		if c.Type == "use-tgsrep" {
			app, usage, schema, msg = der.EncTGSRepPart, 8, der.TGSRep, 13
		}
		encPart := app.MustEncode(der.M{"key": der.M{"keytype": int64(et), "keyvalue": sess.Value}, "last-req": []any{}, "nonce": int64(12345),
			"flags": mint.Flags32(mint.Flag(1)), "authtime": now, "endtime": now.Add(time.Hour), "srealm": "EXAMPLE.COM", "sname": der.Name(2, "krbtgt", "EXAMPLE.COM")})
		rep := schema.MustEncode(der.M{"pvno": int64(5), "msg-type": msg, "crealm": "EXAMPLE.COM", "cname": der.Name(1, "alice"),
			"ticket": tk.Value(), "enc-part": mint.EncData(replyKey, usage, encPart, conf, nil)})
		if c.Type == "use-asrep" {
			var r messages.ASRep
			if err := r.Unmarshal(rep); err != nil {
				return evid.Fail("decode-fail:AS-REP", "%v", err)
			}
			kt := keytab.New()
			if err := kt.Unmarshal(mint.KeytabBytes([]mint.KeytabEntry{{Principal: "alice", Realm: "EXAMPLE.COM", KVNO: 1, Key: replyKey, Timestamp: 1000}})); err != nil {
				return evid.Fail("harness", "keytab: %v", err)
			}
			cr := credentials.New("alice", "EXAMPLE.COM").WithKeytab(kt)
			if _, err := r.DecryptEncPart(cr); err != nil {
				return evid.Fail("harness", "AS-REP did not decrypt: %v", err)
			}
			out, err := r.Marshal()
			if err != nil || !bytes.Equal(out, rep) {
				return evid.Fail(sig, "ASRep.Marshal after DecryptEncPart returns %d bytes (%v), received %d; first difference at byte %d; session key in clear: %v", len(out), err, len(rep), firstDiff(out, rep), bytes.Contains(out, sess.Value))
			}
			return evid.Pass()
		}
		var r messages.TGSRep
		if err := r.Unmarshal(rep); err != nil {
			return evid.Fail("decode-fail:TGS-REP", "%v", err)
		}
		if err := r.DecryptEncPart(types.EncryptionKey{KeyType: et, KeyValue: replyKey.Value}); err != nil {
			return evid.Fail("harness", "TGS-REP did not decrypt: %v", err)
		}
		out, err := r.Marshal()
		if err != nil || !bytes.Equal(out, rep) {
			return evid.Fail(sig, "TGSRep.Marshal after DecryptEncPart returns %d bytes (%v), received %d; first difference at byte %d; session key in clear: %v", len(out), err, len(rep), firstDiff(out, rep), bytes.Contains(out, sess.Value))
		}
		return evid.Pass()
	case "use-krbpriv":
		et := c.EType
		key := mint.Key{EType: et, Value: ref.RandomKey(et, kgen.DetBytes(c.Seed, "c13/priv", 32))}
		part := der.EncKrbPrivPart.MustEncode(der.M{"user-data": kgen.DetBytes(c.Seed, "c13/ud", 1+c.N%40), "s-address": der.M{"addr-type": int64(2), "address": []byte{10, 0, 0, 1}}})
		msg := der.KRBPriv.MustEncode(der.M{"pvno": int64(5), "msg-type": int64(21), "enc-part": mint.EncData(key, 13, part, kgen.DetBytes(c.Seed, "c13/pc", 16), nil)})
		var p messages.KRBPriv
		if err := p.Unmarshal(msg); err != nil {
			return evid.Fail("decode-fail:KRB-PRIV", "%v", err)
		}
		if err := p.DecryptEncPart(types.EncryptionKey{KeyType: et, KeyValue: key.Value}); err != nil {
			return evid.Fail("harness", "KRB-PRIV did not decrypt: %v", err)
		}
		out, err := p.Marshal()
		if err != nil || !bytes.Equal(out, msg) {
			return evid.Fail(sig, "KRBPriv.Marshal after DecryptEncPart returns %d bytes (%v), received %d", len(out), err, len(msg))
		}
		return evid.Pass()
	}
	return evid.Fail("harness", "bad use type")
}

// evalFraming: SPNEGOToken / KRB5Token Marshal+Unmarshal around reference-built content.
func evalFraming(c Case) evid.Verdict {
	enc, _ := hex.DecodeString(c.DER)
	if c.Type == "spnego-framing" {
		// DER is a NegTokenInit (N==0) or NegTokenResp (N==1) schema encoding
		var tok []byte
		if c.N == 0 {
			tok = der.GSSWrap(der.OIDSPNEGO, der.Ctx(0, enc))
		} else {
			tok = der.Ctx(1, enc)
		}
		var st spnego.SPNEGOToken
		if err := st.Unmarshal(tok); err != nil {
			return evid.Fail("decode-fail:SPNEGOToken", "gokrb5 cannot decode a conformant SPNEGO token: %v\n%x", err, trunc(tok))
		}
		if st.Init != (c.N == 0) || st.Resp != (c.N == 1) {
			return evid.Fail("field:SPNEGOToken:choice", "Init=%v Resp=%v for choice %d", st.Init, st.Resp, c.N)
		}
		out, err := st.Marshal()
		if err != nil || !bytes.Equal(out, tok) {
			return evid.Fail("reencode:SPNEGOToken", "SPNEGOToken re-encoding differs (err %v; first difference at byte %d)\n in  %x\n out %x", err, firstDiff(out, tok), trunc(tok), trunc(out))
		}
		return evid.Pass()
	}
	// krb5-framing: DER is an AP-REQ schema encoding
	tok := der.GSSWrap(der.OIDKRB5, append([]byte{1, 0}, enc...))
	var kt spnego.KRB5Token
	if err := kt.Unmarshal(tok); err != nil {
		return evid.Fail("decode-fail:KRB5Token", "gokrb5 cannot decode a conformant KRB5 mech token: %v", err)
	}
	if !kt.IsAPReq() {
		return evid.Fail("field:KRB5Token:tokid", "IsAPReq false for TOK_ID 0100")
	}
	out, err := kt.Marshal()
	if err != nil || !bytes.Equal(out, tok) {
		return evid.Fail("reencode:KRB5Token", "KRB5Token re-encoding differs (err %v; first difference at byte %d)\n in  %x\n out %x", err, firstDiff(out, tok), trunc(tok), trunc(out))
	}
	return evid.Pass()
}

func evalChangePasswd(c Case) evid.Verdict {
	enc, _ := hex.DecodeString(c.DER)
	m, err := der.ChangePasswdData.DecodeM(enc)
	if err != nil {
		return evid.Fail("harness", "ref decode: %v", err)
	}
	d := kadmin.ChangePasswdData{NewPasswd: m["newpasswd"].([]byte)}
	if n, ok := m["targname"]; ok {
		nm := n.(der.M)
		nt, _ := nm["name-type"].(int64)
		d.TargName = types.PrincipalName{NameType: int32(nt), NameString: der.NameStrings(nm)}
	}
	if r, ok := m["targrealm"]; ok {
		d.TargRealm = r.(string)
	}
	out, err := d.Marshal()
	if err != nil {
		return evid.Fail("encode-fail:ChangePasswdData", "%v", err)
	}
	if !bytes.Equal(out, enc) {
		if _, derr := der.ChangePasswdData.Decode(out); derr != nil {
			return evid.Fail("nonconformant:ChangePasswdData", "encoding violates RFC 3244: %v\n out %x\n ref %x", derr, trunc(out), trunc(enc))
		}
		return evid.Fail("reencode:ChangePasswdData", "encoding differs from the reference (first difference at byte %d)\n out %x\n ref %x", firstDiff(out, enc), trunc(out), trunc(enc))
	}
	return evid.Pass()
}

// evalTicketSeq: MarshalTicketSequence for N tickets decodes strictly as SEQUENCE OF Ticket.
func evalTicketSeq(c Case) evid.Verdict {
	var tkts []messages.Ticket
	var want []any
	for i := 0; i < c.N; i++ {
		cl := 1 + int(kgen.DetBytes(c.Seed, fmt.Sprintf("ts/%d", i), 1)[0])*(1+i*40)%70000
		tv := der.M{"tkt-vno": int64(5), "realm": "EXAMPLE.COM", "sname": der.Name(2, "host", fmt.Sprintf("h%d", i)),
			"enc-part": der.M{"etype": int64(18), "kvno": int64(i + 1), "cipher": kgen.DetBytes(c.Seed, fmt.Sprintf("tsc/%d", i), cl)}}
		want = append(want, tv)
		var t messages.Ticket
		if err := t.Unmarshal(der.Ticket.MustEncode(tv)); err != nil {
			return evid.Fail("decode-fail:Ticket", "%v", err)
		}
		tkts = append(tkts, t)
	}
	raw, err := messages.MarshalTicketSequence(tkts)
	if err != nil {
		return evid.Fail("encode-fail:ticket-seq", "%v", err)
	}
	if c.N == 0 {
		return evid.Pass()
	}
	got, derr := (&der.Type{Name: "SEQUENCE OF Ticket", Kind: der.KSeqOf, App: -1, Elem: der.Ticket}).Decode(raw.Bytes)
	if derr != nil {
		return evid.Fail("nonconformant:ticket-seq", "MarshalTicketSequence(%d tickets) is not a DER SEQUENCE OF Ticket: %v\n%x", c.N, derr, trunc(raw.Bytes))
	}
	if d := der.Diff(want, got, ""); d != "" {
		return evid.Fail("field:ticket-seq", "ticket sequence differs: %s", d)
	}
	return evid.Pass()
}

var _ = asn1.BitString{}

func TestProp(t *testing.T) {
	r := evid.Start(t, "C13", "exploration")
	for _, k := range []string{"value", "framing", "use", "length", "flag", "enum"} {
		evid.Reg(r, k, Eval)
	}
	if r.Replay() {
		return
	}
	defer r.Finish()
	if err := refcheck.All(); err != nil {
		r.Inconclusive("reference self-test failed: %v", err)
		return
	}
	r.Regress()
	var pool []Case // cases that held one at a time; re-evaluated 16 at once at the end (shared buffers inside the library show only then)
	defer func() {
		r.Rule(fmt.Sprintf("concurrent: the %d value and framing cases above re-evaluated 16 at a time, grouped by type so that the goroutines running side by side are in the same encoder and decoder", len(pool)))
		sort.SliceStable(pool, func(i, j int) bool { return pool[i].Type < pool[j].Type })
		evid.Parallel(len(pool), 16, func(i int) {
			v := Eval(pool[i])
			if !v.OK && v.Sig != "harness" {
				v.Sig = "concurrent:" + v.Sig
				v.Msg = "while 16 messages were encoded and decoded at once (the same case held when run alone): " + v.Msg
			}
			r.Count("", "type:concurrent-"+pool[i].Type)
			check := "value"
			if strings.HasSuffix(pool[i].Type, "framing") || pool[i].Type == "changepasswd" || pool[i].Type == "ticket-seq" {
				check = "framing"
			}
			r.Violation(check, pool[i], v)
		})
	}()
	r.Assume("ref/der (strict DER + RFC 4120 Annex A / RFC 4178 / RFC 3244 schemas) is validated at start-up by decoding and byte-identically re-encoding 24 MIT krb5 reference encodings; OPTIONAL fields are generated absent or with a non-zero/non-empty value (the statement's own exception); NegTokenResp always carries negState (gokrb5 always emits it)")
	r.Rule("value: per type in {Ticket, EncTicketPart, Authenticator, EncryptedData, AS-REQ, TGS-REQ, KDC-REQ-BODY (0..4 additional tickets), AS-REP, TGS-REP, EncAS/TGSRepPart, AP-REQ, KRB-ERROR, KRB-PRIV, EncKrbPrivPart, NegTokenInit, NegTokenResp}: a schema-driven model value (optionals present/absent, boundary integers, 0..4 name components, strings/octets of 0..300 and 65535..65537 bytes, times 1970..2105, single flag bits and >32-bit flag strings) encoded by ref/der; gokrb5 must decode it to the same field values, re-encode it to the same bytes, and round-trip; non-trivial = >=1 optional present and >=1 absent, or a boundary integer, or an element > 127 bytes")
	perType := r.N(700, 8000)
	for ei := range entries {
		e := &entries[ei]
		r.Rapid("value", perType, func(t *rapid.T) {
			v := dergen.Value(t, e.schema, false, dergen.Opts{})
			if e.name == "NegTokenResp" {
				m := v.(der.M)
				if _, ok := m["negState"]; !ok {
					m["negState"] = int64(rapid.IntRange(0, 3).Draw(t, "negState"))
				}
			}
			enc, err := e.schema.Encode(v)
			if err != nil {
				t.Fatalf("harness: encode: %v", err)
			}
			c := Case{Type: e.name, DER: hex.EncodeToString(enc)}
			var st dergen.Stats
			dergen.Classify(e.schema, v, &st)
			nt := ""
			if (st.OptPresent > 0 && st.OptAbsent > 0) || st.BoundaryInt || st.LongElement {
				nt = c.Type + "|" + c.DER
				if len(nt) > 200 {
					nt = nt[:200] + fmt.Sprint(len(c.DER))
				}
			}
			labels := []string{"type:" + e.name}
			if st.LongElement {
				labels = append(labels, "element>127B")
			}
			if st.VeryLongElement {
				labels = append(labels, "element>65535B")
			}
			if st.BoundaryInt {
				labels = append(labels, "boundary-int")
			}
			if st.OptPresent > 0 && st.OptAbsent > 0 {
				labels = append(labels, "optionals-mixed")
			}
			r.Count(nt, labels...)
			if len(enc) < 600 {
				r.Sample("value/"+e.name, c)
			}
			pool = append(pool, c)
			if r.Judge("value", c, Eval(c)) {
				t.Fatalf("violation")
			}
		})
	}

	r.Rule("framing: SPNEGOToken (GSS-framed NegTokenInit / bare NegTokenResp) and KRB5Token (AP-REQ) Unmarshal+Marshal around reference-built content; ChangePasswdData built from a model and compared with the reference encoding; MarshalTicketSequence of 0..4 tickets decoded strictly")
	r.Rapid("framing", r.N(1500, 10000), func(t *rapid.T) {
		var c Case
		switch rapid.IntRange(0, 4).Draw(t, "which") {
		case 0:
			v := dergen.Value(t, der.NegTokenInit, false, dergen.Opts{})
			c = Case{Type: "spnego-framing", N: 0, DER: hex.EncodeToString(der.NegTokenInit.MustEncode(v))}
		case 1:
			v := dergen.Value(t, der.NegTokenResp, false, dergen.Opts{}).(der.M)
			if _, ok := v["negState"]; !ok {
				v["negState"] = int64(1)
			}
			c = Case{Type: "spnego-framing", N: 1, DER: hex.EncodeToString(der.NegTokenResp.MustEncode(v))}
		case 2:
			v := dergen.Value(t, der.APReq, false, dergen.Opts{})
			c = Case{Type: "krb5-framing", DER: hex.EncodeToString(der.APReq.MustEncode(v))}
		case 3:
			v := dergen.Value(t, der.ChangePasswdData, false, dergen.Opts{})
			c = Case{Type: "changepasswd", DER: hex.EncodeToString(der.ChangePasswdData.MustEncode(v))}
		case 4:
			c = Case{Type: "ticket-seq", N: rapid.IntRange(0, 4).Draw(t, "n"), Seed: rapid.Uint64().Draw(t, "seed")}
		}
		r.Count(c.Type+"|"+c.DER+fmt.Sprint(c.N, c.Seed), "type:"+c.Type)
		r.Sample("framing/"+c.Type, c)
		pool = append(pool, c)
		if r.Judge("framing", c, Eval(c)) {
			t.Fatalf("violation")
		}
	})

	r.Rule("use: Ticket, AP-REQ, AS-REP, TGS-REP, KRB-PRIV minted with the reference crypto for every etype, decoded, decrypted/verified by gokrb5, then re-marshalled: the bytes must be those received; the decrypted ticket is also encoded as an additional ticket (MarshalTicketSequence), which must be the received bytes twice inside a SEQUENCE")
	for _, ty := range []string{"use-ticket", "use-apreq", "use-asrep", "use-tgsrep", "use-krbpriv"} {
		for _, et := range ref.ETypes {
			for k := 0; k < r.N(6, 24); k++ {
				c := Case{Type: ty, EType: et, Seed: r.Seed()*31 + uint64(k), N: k}
				r.Count(fmt.Sprintf("%s|%d|%d", ty, et, k), "type:"+ty)
				r.Sample(ty, c)
				r.Violation("use", c, Eval(c))
			}
		}
	}

	r.Rule("built: TGS-REQ (NewTGSReq with and without renewal, NewUser2UserTGSReq) and AS-REQ (NewASReqForTGT) made by the library's constructors for every etype, one body field assigned afterwards {nothing, nonce, till, etype list, two KDC option bits, a further additional ticket, sname}, marshalled: an independent decoder must read the values the object holds")
	for _, ty := range []string{"built-tgsreq", "built-asreq"} {
		for _, et := range ref.ETypes {
			for k := 0; k < 28; k++ {
				c := Case{Type: ty, EType: et, Seed: r.Seed()*37 + uint64(k), N: k}
				r.Count(fmt.Sprintf("%s|%d|%d", ty, et, k), "type:"+ty)
				r.Sample(ty, c)
				r.Violation("use", c, Eval(c))
			}
		}
	}

	r.Rule("flag: every flag bit 0..31 through SetFlag/IsFlagSet/UnsetFlag and the reference reader; length: MarshalLengthBytes/GetLengthFromASN/GetNumberBytesInLengthHeader for every length 0..2^16 (quick) / 0..2^24 (thorough) plus boundary values up to 2^31-1")
	for i := 0; i < 32; i++ {
		c := Case{Type: "flag", N: i}
		r.Count(fmt.Sprintf("flag|%d", i), "type:flag")
		r.Violation("flag", c, Eval(c))
	}
	maxLen := r.N(1<<16, 1<<24)
	bad := 0
	evid.Parallel(16, 16, func(w int) {
		for l := w; l <= maxLen; l += 16 {
			if v := evalLength(l); !v.OK {
				r.Violation("length", Case{Type: "length", N: l}, v)
				bad++
				if bad > 3 {
					return
				}
			}
		}
	})
	for i := 0; i <= maxLen; i += 1 {
		// counted in bulk below
		break
	}
	for k := 0; k <= maxLen; k += 4096 {
		r.Count(fmt.Sprintf("length-block|%d", k), "type:length-block-of-4096")
	}
	for _, l := range []int{1<<24 - 1, 1 << 24, 1<<24 + 1, 1<<31 - 1, 1 << 30, 16777215 * 2} {
		c := Case{Type: "length", N: l}
		r.Count(fmt.Sprintf("length|%d", l), "type:length-boundary")
		r.Violation("length", c, Eval(c))
	}
	r.Extra("lengths_checked_exhaustively_up_to", maxLen)
	r.Exhaustive(fmt.Sprintf("length helpers for every length 0..%d; every flag bit 0..31", maxLen))
}
