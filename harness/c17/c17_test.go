// C17 — GSS-API MIC and Wrap tokens follow RFC 4121 §4.2.6 and bind header and payload.
//
// Expected values come from ref/gsstok (layout, written from the RFC, validated against tokens
// produced by the JDK's GSS-API mechanism) and ref/krbcrypto (keyed checksums); gokrb5 is never
// used to compute an expected value.
package c17

import (
	"bytes"
	"encoding/hex"
	"fmt"
	"strconv"
	"testing"

	"github.com/jcmturner/gokrb5/v8/gssapi"
	"github.com/jcmturner/gokrb5/v8/types"
	"pgregory.net/rapid"

	"verif/harness/evid"
	"verif/harness/kgen"
	"verif/harness/ref/gsstok"
	ref "verif/harness/ref/krbcrypto"
)

// Case is one token construction or one presentation of a token to Unmarshal/Verify.
//
// Variants
//
//	build       library builds the token (struct, SetCheckSum, Marshal): bytes = reference, decode returns the fields, Verify true
//	build-rrc   Wrap token built with RRC = A in the header: checksum as for RRC 0, field carried and returned
//	newinit     NewInitiatorWrapToken / NewInitiatorMICToken = reference for flags 0, seq 0, usage 24 / 25
//	present     the reference token is decoded and verified by the library: fields and Verify true
//	bitflip     reference token with bit A flipped (A/8 = octet, A%8 = bit)
//	truncate    reference token cut to A octets
//	extend      reference token with octet A appended
//	wrongdir    reference token decoded with the opposite expectFromAcceptor
//	badid       reference token with TOK_ID replaced by Other (2 octets)
//	badfiller   reference token with filler octet A (0..4 MIC, 0 Wrap) replaced by Other (1 octet, not FF)
//	chg-payload / chg-flags / chg-seq / chg-key / chg-usage
//	            the field is changed between checksum computation and Verify (new value in Other / A)
//	nocksum     Verify on a token whose checksum was never set
type Case struct {
	Kind    string `json:"kind"` // mic | wrap
	EType   int32  `json:"etype"`
	Key     string `json:"key"`
	Usage   uint32 `json:"usage"`
	Flags   uint8  `json:"flags"`
	Seq     uint64 `json:"seq,string"`
	Payload string `json:"payload"`
	Variant string `json:"variant"`
	A       int    `json:"a"`
	Other   string `json:"other"`
	Then    int32  `json:"then,omitempty"` // afterwards build the same token (same key octets and usage) under this etype of equal key length, then the first one again
}

// sibling is the other etype taking keys of the same length (0 = none).
func sibling(et int32) int32 {
	return map[int32]int32{ref.AES128SHA1: ref.AES128SHA2, ref.AES128SHA2: ref.AES128SHA1, ref.AES256SHA1: ref.AES256SHA2, ref.AES256SHA2: ref.AES256SHA1}[et]
}

// lib wraps the two gokrb5 token types behind one set of operations.
type lib struct {
	kind string
	m    gssapi.MICToken
	w    gssapi.WrapToken
}

func newLib(kind string, flags byte, seq uint64, payload []byte, ec uint16) *lib {
	l := &lib{kind: kind}
	if kind == gsstok.KindMIC {
		l.m = gssapi.MICToken{Flags: flags, SndSeqNum: seq, Payload: payload}
	} else {
		// EC is a caller-maintained field of WrapToken ("checksum length"); Marshal sizes the
		// trailing checksum from it, so a caller building the struct by hand has to set it.
		l.w = gssapi.WrapToken{Flags: flags, EC: ec, RRC: 0, SndSeqNum: seq, Payload: payload}
	}
	return l
}

func (l *lib) setCksum(k types.EncryptionKey, u uint32) error {
	if l.kind == gsstok.KindMIC {
		return l.m.SetChecksum(k, u)
	}
	return l.w.SetCheckSum(k, u)
}

func (l *lib) marshal() ([]byte, error) {
	if l.kind == gsstok.KindMIC {
		return l.m.Marshal()
	}
	return l.w.Marshal()
}

func (l *lib) unmarshal(b []byte, fromAcceptor bool) error {
	if l.kind == gsstok.KindMIC {
		return l.m.Unmarshal(b, fromAcceptor)
	}
	return l.w.Unmarshal(b, fromAcceptor)
}

func (l *lib) verify(k types.EncryptionKey, u uint32) (bool, error) {
	if l.kind == gsstok.KindMIC {
		return l.m.Verify(k, u)
	}
	return l.w.Verify(k, u)
}

func (l *lib) setPayload(p []byte) {
	if l.kind == gsstok.KindMIC {
		l.m.Payload = p
	} else {
		l.w.Payload = p
	}
}

func (l *lib) setFlags(f byte) {
	if l.kind == gsstok.KindMIC {
		l.m.Flags = f
	} else {
		l.w.Flags = f
	}
}

func (l *lib) setSeq(s uint64) {
	if l.kind == gsstok.KindMIC {
		l.m.SndSeqNum = s
	} else {
		l.w.SndSeqNum = s
	}
}

// fieldDiff compares decoded fields with the ones the token was built from; "" when equal.
func (l *lib) fieldDiff(flags byte, seq uint64, payload, cksum []byte) string {
	if l.kind == gsstok.KindMIC {
		switch {
		case l.m.Flags != flags:
			return "flags"
		case l.m.SndSeqNum != seq:
			return "seq"
		case !bytes.Equal(l.m.Checksum, cksum):
			return "checksum"
		}
		return ""
	}
	switch {
	case l.w.Flags != flags:
		return "flags"
	case l.w.SndSeqNum != seq:
		return "seq"
	case int(l.w.EC) != len(cksum):
		return "ec"
	case l.w.RRC != 0:
		return "rrc"
	case !bytes.Equal(l.w.Payload, payload):
		return "payload"
	case !bytes.Equal(l.w.CheckSum, cksum):
		return "checksum"
	}
	return ""
}

func clone(b []byte) []byte { return append(make([]byte, 0, len(b)), b...) }

func tokID(kind string) []byte {
	if kind == gsstok.KindMIC {
		return []byte{0x04, 0x04}
	}
	return []byte{0x05, 0x04}
}

// marshalSig names the RFC field in which the library's bytes first differ from the reference. When
// only the checksum differs, the checksum the library produced is compared with the independent
// checksum of a few wrongly assembled inputs, so that the signature names the root cause.
func marshalSig(c Case, key, payload, got, want []byte, flags byte, seq uint64, usage uint32, ckLen int) string {
	if len(got) != len(want) {
		return fmt.Sprintf("marshal:%s:length", c.Kind)
	}
	for i := range got {
		if got[i] != want[i] {
			reg := gsstok.Region(c.Kind, i, len(want), ckLen)
			if reg == "checksum" {
				return fmt.Sprintf("marshal:%s:checksum:%s", c.Kind, diagnose(c, key, payload, got[len(got)-ckLen:], flags, seq, usage, ckLen))
			}
			return fmt.Sprintf("marshal:%s:%s", c.Kind, reg)
		}
	}
	return "harness"
}

func diagnose(c Case, key, payload, gotCk []byte, flags byte, seq uint64, usage uint32, ckLen int) string {
	hdr := func(f byte, s uint64, ec, rrc uint16) []byte {
		if c.Kind == gsstok.KindMIC {
			return gsstok.MICHeader(f, s)
		}
		return gsstok.WrapHeader(f, ec, rrc, s)
	}
	cat := func(a, b []byte) []byte { return append(clone(a), b...) }
	swap := func(s uint64) uint64 {
		var o uint64
		for i := 0; i < 8; i++ {
			o = o<<8 | (s>>(8*uint(i)))&0xff
		}
		return o
	}
	h := hdr(flags, seq, 0, 0)
	hyps := []struct {
		name string
		u    uint32
		data []byte
	}{
		{"input-without-header", usage, payload},
		{"input-header-before-payload", usage, cat(h, payload)},
		{"input-header-only", usage, h},
		{"flags-masked-to-direction-bit", usage, cat(payload, hdr(flags&1, seq, 0, 0))},
		{"flags-zeroed", usage, cat(payload, hdr(0, seq, 0, 0))},
		{"seq-truncated-to-32-bits", usage, cat(payload, hdr(flags, seq&0xffffffff, 0, 0))},
		{"seq-little-endian", usage, cat(payload, hdr(flags, swap(seq), 0, 0))},
		{"seq-zeroed", usage, cat(payload, hdr(flags, 0, 0, 0))},
		{"ec-not-zeroed", usage, cat(payload, hdr(flags, seq, uint16(ckLen), 0))},
	}
	for _, u := range gssUsages {
		if u != usage {
			hyps = append(hyps, struct {
				name string
				u    uint32
				data []byte
			}{"another-gss-key-usage", u, cat(payload, h)})
		}
	}
	for _, hy := range hyps {
		if ck, err := ref.Checksum(ref.CksumForEType(c.EType), key, hy.u, hy.data); err == nil && bytes.Equal(ck, gotCk) {
			return hy.name
		}
	}
	return fmt.Sprintf("unexplained:etype%d", c.EType)
}

// Eval judges one Case.
func Eval(c Case) evid.Verdict { v, _, _ := eval(c); return v }

// eval returns the verdict, whether the case is trivial (the "change" changes nothing) and, for
// tampered presentations, which defence rejected it.
func eval(c Case) (v evid.Verdict, trivial bool, outcome string) {
	v, trivial, outcome = eval1(c)
	if v.OK && c.Then != 0 && !trivial {
		// no hidden state keyed by the key octets alone: the same octets under the sibling etype, then under the first again
		for _, et := range []int32{c.Then, c.EType} {
			c2 := c
			c2.EType, c2.Then, c2.Variant = et, 0, "build"
			if v2, _, _ := eval1(c2); !v2.OK {
				if v2.Sig != "harness" {
					v2.Sig = "after-sibling-etype:" + v2.Sig
					v2.Msg = fmt.Sprintf("after the same key octets and usage had been used under etype %d: %s", c.EType, v2.Msg)
				}
				return v2, false, outcome
			}
		}
	}
	return v, trivial, outcome
}

func eval1(c Case) (v evid.Verdict, trivial bool, outcome string) {
	// every payload handed to the library is the front of a longer buffer whose rest is filled with a pattern: a callee
	// that appends to the caller's slice writes into memory that is not its own
	var guards [][]byte
	var glens []int
	gclone := func(b []byte) []byte {
		full := make([]byte, len(b)+48)
		copy(full, b)
		for i := len(b); i < len(full); i++ {
			full[i] = 0xa5
		}
		guards, glens = append(guards, full), append(glens, len(b))
		return full[:len(b)]
	}
	defer func() {
		if !v.OK {
			return
		}
		for gi, full := range guards {
			for i := glens[gi]; i < len(full); i++ {
				if full[i] != 0xa5 {
					v = evid.Fail("writes-beyond-payload:"+c.Kind, "the library wrote into the caller's buffer behind the payload slice it was given (payload %d octets, offset %d behind its end now holds %#02x; variant %s)", glens[gi], i-glens[gi], full[i], c.Variant)
					return
				}
			}
		}
	}()
	v = evid.SafeEval(func() evid.Verdict {
		if c.Kind != gsstok.KindMIC && c.Kind != gsstok.KindWrap {
			return evid.Fail("harness", "bad kind %q", c.Kind)
		}
		key, err1 := hex.DecodeString(c.Key)
		pl, err2 := hex.DecodeString(c.Payload)
		if err1 != nil || err2 != nil || len(key) != ref.KeyLen(c.EType) || ref.KeyLen(c.EType) == 0 {
			return evid.Fail("harness", "bad key/payload/etype in case")
		}
		payload := clone(pl) // never nil: gokrb5 treats a nil payload as "not set"
		ek := types.EncryptionKey{KeyType: c.EType, KeyValue: clone(key)}
		ckLen := ref.CksumLen(c.EType)
		fromAcc := c.Flags&gsstok.FlagSentByAcceptor != 0

		build := func(flags byte, seq uint64, usage uint32) ([]byte, []byte, error) {
			if c.Kind == gsstok.KindMIC {
				ck, err := gsstok.MICChecksum(c.EType, key, usage, flags, seq, payload)
				if err != nil {
					return nil, nil, err
				}
				b, err := gsstok.BuildMIC(c.EType, key, usage, flags, seq, payload)
				return b, ck, err
			}
			ck, err := gsstok.WrapChecksum(c.EType, key, usage, flags, seq, payload)
			if err != nil {
				return nil, nil, err
			}
			b, err := gsstok.BuildWrap(c.EType, key, usage, flags, seq, 0, payload)
			return b, ck, err
		}

		if c.Variant == "newinit" {
			usage := gsstok.RFCUsage(c.Kind, false)
			want, _, err := build(0, 0, usage)
			if err != nil {
				return evid.Fail("harness", "reference: %v", err)
			}
			var got []byte
			if c.Kind == gsstok.KindMIC {
				t, err := gssapi.NewInitiatorMICToken(gclone(payload), ek)
				if err != nil {
					return evid.Fail("newinit:mic:error", "NewInitiatorMICToken(%d bytes, etype %d): %v", len(payload), c.EType, err)
				}
				if got, err = t.Marshal(); err != nil {
					return evid.Fail("newinit:mic:error", "Marshal of NewInitiatorMICToken: %v", err)
				}
			} else {
				t, err := gssapi.NewInitiatorWrapToken(gclone(payload), ek)
				if err != nil {
					return evid.Fail("newinit:wrap:error", "NewInitiatorWrapToken(%d bytes, etype %d): %v", len(payload), c.EType, err)
				}
				if got, err = t.Marshal(); err != nil {
					return evid.Fail("newinit:wrap:error", "Marshal of NewInitiatorWrapToken: %v", err)
				}
			}
			if !bytes.Equal(got, want) {
				return evid.Fail("newinit:"+marshalSig(c, key, payload, got, want, 0, 0, usage, ckLen), "NewInitiator %s token for etype %d marshals to\n%x\nRFC 4121 token (flags 0, seq 0, usage %d) is\n%x", c.Kind, c.EType, got, usage, want)
			}
			return evid.Pass()
		}

		refTok, refCk, err := build(c.Flags, c.Seq, c.Usage)
		if err != nil {
			return evid.Fail("harness", "reference: %v", err)
		}
		if len(refCk) != ckLen || len(refTok) != tokLen(c.Kind, c.EType, len(payload)) {
			return evid.Fail("harness", "reference token has an unexpected size")
		}

		switch c.Variant {
		case "build-rrc":
			// a Wrap token whose header announces a rotation count (A): RFC 4121 4.2.4 computes the checksum over the
			// header with EC and RRC zeroed, so the checksum is that of RRC = 0; the field itself is carried in octets 6..7
			if c.Kind != gsstok.KindWrap {
				return evid.Fail("harness", "build-rrc is a Wrap variant")
			}
			rrc := uint16(c.A)
			l := newLib(c.Kind, c.Flags, c.Seq, gclone(payload), uint16(ckLen))
			l.w.RRC = rrc
			if err := l.setCksum(ek, c.Usage); err != nil {
				return evid.Fail("build:wrap:setchecksum-error", "SetCheckSum(etype %d, usage %d, RRC %d): %v", c.EType, c.Usage, rrc, err)
			}
			if !bytes.Equal(l.w.CheckSum, refCk) {
				return evid.Fail("value:wrap:rrc-in-checksum", "Wrap token with RRC %d (etype %d usage %d flags %#x seq %d): SetCheckSum gives %x, RFC 4121 4.2.4 (header with EC and RRC zeroed) gives %x",
					rrc, c.EType, c.Usage, c.Flags, c.Seq, l.w.CheckSum, refCk)
			}
			got, err := l.marshal()
			if err != nil {
				return evid.Fail("build:wrap:marshal-error", "Marshal: %v", err)
			}
			want := clone(refTok)
			want[6], want[7] = byte(rrc>>8), byte(rrc)
			if !bytes.Equal(got, want) {
				return evid.Fail("marshal:wrap:rrc", "Wrap token with RRC %d marshals to\n%x\nexpected the RRC = 0 token with octets 6..7 set:\n%x", rrc, got, want)
			}
			l2 := &lib{kind: c.Kind}
			if err := l2.unmarshal(clone(got), fromAcc); err != nil {
				return evid.Fail("roundtrip:wrap:unmarshal-error", "Unmarshal(Marshal(t)) with RRC %d: %v", rrc, err)
			}
			if l2.w.RRC != rrc || l2.w.Flags != c.Flags || l2.w.SndSeqNum != c.Seq || !bytes.Equal(l2.w.Payload, payload) || !bytes.Equal(l2.w.CheckSum, refCk) {
				return evid.Fail("roundtrip:wrap:rrc", "Unmarshal(Marshal(t)) with RRC %d returns other fields: %+v", rrc, l2.w)
			}
			if ok, err := l2.verify(ek, c.Usage); !ok {
				return evid.Fail("roundtrip:wrap:verify-false", "Verify after Unmarshal(Marshal(t)) with RRC %d = false (%v): the rotation count is not part of the checksum", rrc, err)
			}
			return evid.Pass()
		case "build":
			l := newLib(c.Kind, c.Flags, c.Seq, gclone(payload), uint16(ckLen))
			if err := l.setCksum(ek, c.Usage); err != nil {
				return evid.Fail("build:"+c.Kind+":setchecksum-error", "SetCheckSum(etype %d, usage %d): %v", c.EType, c.Usage, err)
			}
			got, err := l.marshal()
			if err != nil {
				return evid.Fail("build:"+c.Kind+":marshal-error", "Marshal: %v", err)
			}
			if !bytes.Equal(got, refTok) {
				return evid.Fail(marshalSig(c, key, payload, got, refTok, c.Flags, c.Seq, c.Usage, ckLen), "%s token (etype %d usage %d flags %#x seq %d, %d payload bytes) marshals to\n%x\nRFC 4121 4.2.6 layout with the independent checksum is\n%x", c.Kind, c.EType, c.Usage, c.Flags, c.Seq, len(payload), got, refTok)
			}
			// the independent reader accepts what the library built
			if c.Kind == gsstok.KindMIC {
				m, err := gsstok.ParseMIC(got)
				if err != nil || !m.Verify(c.EType, key, c.Usage, payload) {
					return evid.Fail("build:mic:independent-verify", "independent reader rejects the library's MIC token: %v", err)
				}
			} else {
				w, err := gsstok.ParseWrap(got)
				if err != nil || !bytes.Equal(w.Payload, payload) || !w.Verify(c.EType, key, c.Usage) {
					return evid.Fail("build:wrap:independent-verify", "independent reader rejects the library's Wrap token: %v", err)
				}
			}
			if ok, err := l.verify(ek, c.Usage); !ok {
				return evid.Fail("verify:"+c.Kind+":own-token-rejected", "Verify on the token just built = false (%v)", err)
			}
			l2 := &lib{kind: c.Kind}
			if err := l2.unmarshal(clone(got), fromAcc); err != nil {
				return evid.Fail("roundtrip:"+c.Kind+":unmarshal-error", "Unmarshal(Marshal(t), expectFromAcceptor=%v): %v", fromAcc, err)
			}
			if f := l2.fieldDiff(c.Flags, c.Seq, payload, refCk); f != "" {
				return evid.Fail("roundtrip:"+c.Kind+":"+f, "Unmarshal(Marshal(t)) returns a different %s: mic=%+v wrap=%+v", f, l2.m, l2.w)
			}
			if c.Kind == gsstok.KindMIC {
				l2.setPayload(gclone(payload)) // a MIC token does not carry the message
			}
			if ok, err := l2.verify(ek, c.Usage); !ok {
				return evid.Fail("roundtrip:"+c.Kind+":verify-false", "Verify after Unmarshal(Marshal(t)) = false (%v)", err)
			}
			return evid.Pass()

		case "present":
			l := &lib{kind: c.Kind}
			if err := l.unmarshal(clone(refTok), fromAcc); err != nil {
				return evid.Fail("reject-genuine:"+c.Kind+":unmarshal", "Unmarshal of a conformant token %x (expectFromAcceptor=%v): %v", refTok, fromAcc, err)
			}
			if f := l.fieldDiff(c.Flags, c.Seq, payload, refCk); f != "" {
				return evid.Fail("decode:"+c.Kind+":"+f, "Unmarshal of %x decodes a wrong %s: mic=%+v wrap=%+v", refTok, f, l.m, l.w)
			}
			if c.Kind == gsstok.KindMIC {
				l.setPayload(gclone(payload))
			}
			if ok, err := l.verify(ek, c.Usage); !ok {
				return evid.Fail("reject-genuine:"+c.Kind+":verify", "Verify of a conformant token %x (etype %d usage %d) = false: %v", refTok, c.EType, c.Usage, err)
			}
			return evid.Pass()

		case "bitflip", "truncate", "extend", "wrongdir", "badid", "badfiller", "short-ec":
			pres := clone(refTok)
			expectDir := fromAcc
			sig := "accept:" + c.Kind + ":" + c.Variant
			rrcMask := uint16(0)
			mustFailDecode := false
			switch c.Variant {
			case "bitflip":
				if c.A < 0 || c.A >= len(pres)*8 {
					return evid.Fail("harness", "bit index %d outside the %d-octet token", c.A, len(pres))
				}
				pres[c.A/8] ^= 1 << uint(c.A%8)
				reg := gsstok.Region(c.Kind, c.A/8, len(refTok), ckLen)
				sig += ":" + reg
				if reg == "rrc" {
					rrcMask = uint16(1) << uint(c.A%8)
					if c.A/8 == 6 {
						rrcMask <<= 8
					}
				}
				// the direction flag is not the only defence for bit 0 of the flags (the checksum
				// covers it as well), so decode-or-verify is the requirement for every bit.
			case "short-ec":
				// a Wrap token that announces (EC) and carries only the first A octets of its checksum: a coherent token whose
				// checksum is not the one the etype defines (a one-octet checksum can be guessed in 256 tries)
				if c.Kind != gsstok.KindWrap || c.A < 1 || c.A >= ckLen {
					trivial = true
					return evid.Pass()
				}
				pres = pres[:len(pres)-ckLen+c.A]
				pres[4], pres[5] = byte(c.A>>8), byte(c.A)
			case "truncate":
				if c.A < 0 || c.A >= len(pres) {
					return evid.Fail("harness", "truncation length %d outside the %d-octet token", c.A, len(pres))
				}
				pres = pres[:c.A]
			case "extend":
				pres = append(pres, byte(c.A))
			case "wrongdir":
				expectDir = !fromAcc
				mustFailDecode = true
			case "badid":
				id, err := hex.DecodeString(c.Other)
				if err != nil || len(id) != 2 {
					return evid.Fail("harness", "bad token id %q", c.Other)
				}
				if bytes.Equal(id, tokID(c.Kind)) {
					trivial = true
					return evid.Pass()
				}
				copy(pres[0:2], id)
				mustFailDecode = true
			case "badfiller":
				fb, err := hex.DecodeString(c.Other)
				nf := map[string]int{gsstok.KindMIC: 5, gsstok.KindWrap: 1}[c.Kind]
				if err != nil || len(fb) != 1 || c.A < 0 || c.A >= nf {
					return evid.Fail("harness", "bad filler spec %d %q", c.A, c.Other)
				}
				if fb[0] == 0xff {
					trivial = true
					return evid.Pass()
				}
				pres[3+c.A] = fb[0]
				mustFailDecode = true
			}
			l := &lib{kind: c.Kind}
			if err := l.unmarshal(clone(pres), expectDir); err != nil {
				outcome = "rejected-by-unmarshal"
				return evid.Pass()
			}
			if mustFailDecode {
				return evid.Fail(sig, "Unmarshal(expectFromAcceptor=%v) accepted the %s presentation\n%x\nof the token\n%x", expectDir, c.Variant, pres, refTok)
			}
			if c.Kind == gsstok.KindMIC {
				l.setPayload(gclone(payload))
			}
			ok, _ := l.verify(ek, c.Usage)
			if !ok {
				outcome = "rejected-by-verify"
				return evid.Pass()
			}
			if rrcMask != 0 {
				// RFC 4121 4.2.4 excludes RRC from the checksum: the flip cannot be detected by the
				// checksum, but it must be visible in the decoded token, not silently dropped.
				if l.w.RRC != rrcMask {
					return evid.Fail("rrc-flip-lost:wrap", "RRC bit flip (mask %#04x) accepted but decoded RRC = %#04x", rrcMask, l.w.RRC)
				}
				outcome = "rrc-reflected"
				return evid.Pass()
			}
			return evid.Fail(sig, "Unmarshal succeeded and Verify(etype %d, usage %d) = true for the %s (a=%d other=%q) presentation\n%x\nof the token\n%x", c.EType, c.Usage, c.Variant, c.A, c.Other, pres, refTok)

		case "chg-payload", "chg-flags", "chg-seq", "chg-key", "chg-usage", "nocksum":
			sig := "accept:" + c.Kind + ":" + c.Variant
			vk, vu := ek, c.Usage
			var mutate func(l *lib)
			switch c.Variant {
			case "chg-payload":
				np, err := hex.DecodeString(c.Other)
				if err != nil {
					return evid.Fail("harness", "bad payload %q", c.Other)
				}
				if bytes.Equal(np, payload) {
					trivial = true
					return evid.Pass()
				}
				mutate = func(l *lib) { l.setPayload(clone(np)) }
			case "chg-flags":
				if byte(c.A) == c.Flags {
					trivial = true
					return evid.Pass()
				}
				mutate = func(l *lib) { l.setFlags(byte(c.A)) }
			case "chg-seq":
				ns, err := strconv.ParseUint(c.Other, 10, 64)
				if err != nil {
					return evid.Fail("harness", "bad sequence number %q", c.Other)
				}
				if ns == c.Seq {
					trivial = true
					return evid.Pass()
				}
				mutate = func(l *lib) { l.setSeq(ns) }
			case "chg-key":
				nk, err := hex.DecodeString(c.Other)
				net := int32(c.A)
				if err != nil || ref.KeyLen(net) == 0 || len(nk) != ref.KeyLen(net) {
					return evid.Fail("harness", "bad other key %q for etype %d", c.Other, net)
				}
				if net == c.EType && bytes.Equal(nk, key) {
					trivial = true
					return evid.Pass()
				}
				vk = types.EncryptionKey{KeyType: net, KeyValue: nk}
			case "chg-usage":
				vu = uint32(c.A)
				if vu == c.Usage || (c.EType == ref.RC4 && ref.RC4Usage(vu) == ref.RC4Usage(c.Usage)) {
					trivial = true // rc4-hmac aliases usages (RFC 4757 and its implementations: 23 -> 13, 3 and 9 -> 8)
					return evid.Pass()
				}
			}
			// (1) library-built token: checksum computed by SetCheckSum, then the field changes
			l := newLib(c.Kind, c.Flags, c.Seq, gclone(payload), uint16(ckLen))
			if c.Variant != "nocksum" {
				if err := l.setCksum(ek, c.Usage); err != nil {
					return evid.Fail("build:"+c.Kind+":setchecksum-error", "SetCheckSum(etype %d, usage %d): %v", c.EType, c.Usage, err)
				}
			}
			if mutate != nil {
				mutate(l)
			}
			if ok, _ := l.verify(vk, vu); ok {
				return evid.Fail(sig, "Verify = true although %s differs from what SetCheckSum covered (etype %d usage %d flags %#x seq %d payload %x; a=%d other=%q)", c.Variant[4:], c.EType, c.Usage, c.Flags, c.Seq, payload, c.A, c.Other)
			}
			if c.Variant == "nocksum" {
				outcome = "rejected-by-verify"
				return evid.Pass()
			}
			// (2) received token: checksum computed by the independent implementation
			l2 := &lib{kind: c.Kind}
			if err := l2.unmarshal(clone(refTok), fromAcc); err != nil {
				return evid.Fail("reject-genuine:"+c.Kind+":unmarshal", "Unmarshal of a conformant token %x: %v", refTok, err)
			}
			if c.Kind == gsstok.KindMIC {
				l2.setPayload(gclone(payload))
			}
			if mutate != nil {
				mutate(l2)
			}
			if ok, _ := l2.verify(vk, vu); ok {
				return evid.Fail(sig, "Verify = true on a received token although %s differs from what its checksum covers (etype %d usage %d flags %#x seq %d payload %x; a=%d other=%q)", c.Variant[4:], c.EType, c.Usage, c.Flags, c.Seq, payload, c.A, c.Other)
			}
			if c.Variant == "chg-key" && vk.KeyType == c.EType {
				// (3) the caller's key buffer itself is overwritten with the other key (a context that re-keys in place): first a
				// verification under the original key, which succeeds, then the buffer changes and the verdict must follow it
				if ok, err := l2.verify(ek, c.Usage); !ok {
					return evid.Fail("reject-genuine:"+c.Kind+":verify", "Verify of a conformant token %x (etype %d usage %d) = false: %v", refTok, c.EType, c.Usage, err)
				}
				copy(ek.KeyValue, vk.KeyValue)
				if ok, _ := l2.verify(ek, c.Usage); ok {
					return evid.Fail(sig+"-inplace", "Verify = true on a received token after the key buffer used for an earlier (successful) verification was overwritten with another key (etype %d usage %d; other key %q)", c.EType, c.Usage, c.Other)
				}
				// and a token built under the key the buffer holds now carries that key's checksum
				var wantCk []byte
				var err error
				if c.Kind == gsstok.KindMIC {
					wantCk, err = gsstok.MICChecksum(c.EType, vk.KeyValue, c.Usage, c.Flags, c.Seq, payload)
				} else {
					wantCk, err = gsstok.WrapChecksum(c.EType, vk.KeyValue, c.Usage, c.Flags, c.Seq, payload)
				}
				if err != nil {
					return evid.Fail("harness", "reference checksum: %v", err)
				}
				l3 := newLib(c.Kind, c.Flags, c.Seq, gclone(payload), uint16(ckLen))
				if err := l3.setCksum(ek, c.Usage); err != nil {
					return evid.Fail("build:"+c.Kind+":setchecksum-error", "SetCheckSum(etype %d, usage %d): %v", c.EType, c.Usage, err)
				}
				got := l3.w.CheckSum
				if c.Kind == gsstok.KindMIC {
					got = l3.m.Checksum
				}
				if !bytes.Equal(got, wantCk) {
					return evid.Fail("value:"+c.Kind+":key-inplace", "after the key buffer was overwritten with another key, SetCheckSum gives %x, the RFC 4121 checksum under the key now in the buffer is %x", got, wantCk)
				}
			}
			outcome = "rejected-by-verify"
			return evid.Pass()
		}
		return evid.Fail("harness", "bad variant %q", c.Variant)
	})
	return v, trivial, outcome
}

var gssUsages = []uint32{22, 23, 24, 25}

var seqFixed = []uint64{0, 1, 1<<32 - 1, 1 << 32, 1<<64 - 1}

func seqClass(s uint64) string {
	switch s {
	case 0:
		return "seq:0"
	case 1:
		return "seq:1"
	case 1<<32 - 1:
		return "seq:2^32-1"
	case 1 << 32:
		return "seq:2^32"
	case 1<<64 - 1:
		return "seq:2^64-1"
	}
	if s < 1<<32 {
		return "seq:other<2^32"
	}
	return "seq:other>=2^32"
}

func lenClass(n int) string {
	switch {
	case n == 0:
		return "len:0"
	case n < 16:
		return "len:1-15"
	case n < 64:
		return "len:16-63"
	case n < 256:
		return "len:64-255"
	}
	return "len:256-300"
}

var tamperVariants = []string{"bitflip", "truncate", "extend", "wrongdir", "badid", "badfiller", "short-ec",
	"chg-payload", "chg-flags", "chg-seq", "chg-key", "chg-usage", "nocksum"}

func isTamper(v string) bool {
	for _, t := range tamperVariants {
		if t == v {
			return true
		}
	}
	return false
}

func tokLen(kind string, et int32, plen int) int {
	if kind == gsstok.KindMIC {
		return 16 + ref.CksumLen(et)
	}
	return 16 + plen + ref.CksumLen(et)
}

func badIDs(kind string) []string {
	if kind == gsstok.KindMIC {
		// the Wrap id, the RFC 1964 MIC/Wrap ids, the context-token ids, half-right ids, ASN.1 framing
		return []string{"0504", "0101", "0201", "0100", "0200", "0300", "0000", "ffff", "0400", "0004", "0405", "0484", "6082"}
	}
	return []string{"0404", "0101", "0201", "0100", "0200", "0300", "0000", "ffff", "0500", "0004", "0405", "0505", "6082"}
}

func TestProp(t *testing.T) {
	r := evid.Start(t, "C17", "exploration")
	evid.Reg(r, "token", Eval)
	evid.Reg(r, "enum", Eval)
	if r.Replay() {
		return
	}
	defer r.Finish()
	var pool evid.Pool[Case] // rapid-drawn cases, evaluated side by side once more at the end
	defer func() { evid.Concurrent(r, &pool, 16, Eval) }()
	r.Regress()
	if err := ref.SelfTest(); err != nil {
		r.Inconclusive("reference crypto self-test failed: %v", err)
		return
	}
	if err := gsstok.SelfTest(); err != nil {
		r.Inconclusive("reference token builder self-test failed: %v", err)
		return
	}
	r.Assume("ref/gsstok (RFC 4121 4.2.6 layout, checksum input order, EC/RRC zeroing, key usages) reproduces 32 tokens generated by the JDK 17 GSS-API Kerberos mechanism for etypes 17-20 and the four captured aes128 tokens of gokrb5's gssapi tests; for etypes 16 and 23 (for which RFC 4121 peers normally use RFC 1964/4757 tokens) the expected value is the same construction with the etype's mandatory checksum type")
	r.Assume("WrapToken.EC is a caller-maintained field: hand-built Wrap tokens are given EC = checksum length before Marshal, as gokrb5's own tests do; built tokens use RRC = 0 (gokrb5 never rotates)")
	r.Assume("the flags octet is treated as opaque: tokens with the Sealed bit set are built and checked in the integrity-only layout, the only one the library implements")

	judge := func(check string, c Case, rt *rapid.T) {
		v, triv, outcome := eval(c)
		plen := len(c.Payload) / 2
		if triv {
			r.Count("", "trivial-skipped", "variant:"+c.Variant)
			return
		}
		nt := ""
		if isTamper(c.Variant) || plen > 0 {
			nt = fmt.Sprintf("%s|%d|%d|%d|%d|%d|%s|%d|%s", c.Kind, c.EType, plen, c.Flags, c.Seq, c.Usage, c.Variant, c.A, c.Other)
		}
		labels := []string{"kind:" + c.Kind, fmt.Sprintf("etype%d", c.EType), "variant:" + c.Variant, lenClass(plen)}
		if c.Variant != "newinit" {
			labels = append(labels, fmt.Sprintf("flags:%d", c.Flags), seqClass(c.Seq), fmt.Sprintf("usage:%d", c.Usage))
			if c.Usage == gsstok.RFCUsage(c.Kind, c.Flags&1 != 0) {
				labels = append(labels, "usage-is-rfc-usage-for-kind-and-direction")
			}
		}
		if c.Variant == "bitflip" {
			labels = append(labels, "flip:"+c.Kind+":"+gsstok.Region(c.Kind, c.A/8, tokLen(c.Kind, c.EType, plen), ref.CksumLen(c.EType)))
		}
		if outcome != "" {
			labels = append(labels, "outcome:"+outcome)
		}
		r.Count(nt, labels...)
		r.Sample(fmt.Sprintf("%s/%s/etype%d", c.Variant, c.Kind, c.EType), c)
		if rt != nil {
			if v.OK {
				pool.Add(check, c)
			}
			if r.Judge(check, c, v) {
				rt.Fatalf("violation")
			}
		} else {
			r.Violation(check, c, v)
		}
	}

	r.Rule("rapid 'token': kind {mic,wrap} x etype {16,17,18,19,20,23} x random key x usage {22,23,24,25} x flags 0..7 x sequence number {0,1,2^32-1,2^32,2^64-1,random} x payload length 0..300 (boundary-biased) x variant {build, newinit, present, bitflip, truncate, extend, wrongdir, badid, badfiller, chg-payload, chg-flags, chg-seq, chg-key (same or other etype), chg-usage, nocksum}; non-trivial = every tampered presentation that really differs from the genuine one and every constructed token with payload > 0, distinct by (kind,etype,len,flags,seq,usage,variant,args)")
	r.Rapid("token", r.N(6000, 300000), func(t *rapid.T) {
		c := Case{Kind: rapid.SampledFrom([]string{gsstok.KindMIC, gsstok.KindWrap}).Draw(t, "kind")}
		c.EType = kgen.EType(t)
		key := kgen.Key(t, c.EType, "key")
		c.Key = hex.EncodeToString(key)
		c.Usage = rapid.SampledFrom(gssUsages).Draw(t, "usage")
		c.Flags = uint8(rapid.IntRange(0, 7).Draw(t, "flags"))
		if sc := rapid.IntRange(0, len(seqFixed)).Draw(t, "seqclass"); sc < len(seqFixed) {
			c.Seq = seqFixed[sc]
		} else {
			c.Seq = rapid.Uint64().Draw(t, "seq")
		}
		n := kgen.BoundaryLen(t, 300)
		payload := kgen.Bytes(t, "payload", n)
		c.Payload = hex.EncodeToString(payload)
		c.Variant = rapid.SampledFrom(append([]string{"build", "build", "build-rrc", "newinit", "present"}, tamperVariants...)).Draw(t, "variant")
		tl := tokLen(c.Kind, c.EType, n)
		switch c.Variant {
		case "build-rrc":
			c.Kind = gsstok.KindWrap
			c.A = rapid.SampledFrom([]int{1, 12, 16, 28, 255, 256, 65535}).Draw(t, "rrc")
		case "build", "present":
			if sb := sibling(c.EType); sb != 0 && rapid.IntRange(0, 2).Draw(t, "withsibling") == 0 {
				c.Then = sb
			}
		case "newinit":
			c.Flags, c.Seq, c.Usage = 0, 0, gsstok.RFCUsage(c.Kind, false)
		case "bitflip":
			if rapid.Bool().Draw(t, "inheader") {
				c.A = rapid.IntRange(0, 16*8-1).Draw(t, "bit")
			} else {
				c.A = rapid.IntRange(0, tl*8-1).Draw(t, "bit")
			}
		case "truncate":
			c.A = rapid.IntRange(0, tl-1).Draw(t, "newlen")
		case "extend":
			c.A = rapid.IntRange(0, 255).Draw(t, "byte")
		case "badid":
			if rapid.Bool().Draw(t, "listed") {
				c.Other = rapid.SampledFrom(badIDs(c.Kind)).Draw(t, "id")
			} else {
				c.Other = hex.EncodeToString(kgen.Bytes(t, "id", 2))
			}
		case "short-ec":
			c.A = rapid.IntRange(1, 23).Draw(t, "ec")
		case "badfiller":
			if c.Kind == gsstok.KindMIC {
				c.A = rapid.IntRange(0, 4).Draw(t, "fillerpos")
			}
			c.Other = hex.EncodeToString([]byte{byte(rapid.IntRange(0, 254).Draw(t, "fillerbyte"))})
		case "chg-payload":
			switch rapid.IntRange(0, 3).Draw(t, "how") {
			case 0:
				c.Other = hex.EncodeToString(rapid.SliceOfN(rapid.Byte(), 0, 40).Draw(t, "otherpayload"))
			case 1:
				c.Other = hex.EncodeToString(append(clone(payload), byte(rapid.IntRange(0, 255).Draw(t, "app"))))
			case 2:
				if n > 0 {
					c.Other = hex.EncodeToString(payload[:n-1])
				} else {
					c.Other = "00"
				}
			default:
				np := clone(payload)
				if n > 0 {
					b := rapid.IntRange(0, n*8-1).Draw(t, "pbit")
					np[b/8] ^= 1 << uint(b%8)
				} else {
					np = []byte{0x80}
				}
				c.Other = hex.EncodeToString(np)
			}
		case "chg-flags":
			if rapid.Bool().Draw(t, "low") {
				c.A = rapid.IntRange(0, 7).Draw(t, "newflags")
			} else {
				c.A = int(c.Flags) ^ (1 << uint(rapid.IntRange(0, 7).Draw(t, "flagbit")))
			}
		case "chg-seq":
			ns := c.Seq ^ (uint64(1) << uint(rapid.IntRange(0, 63).Draw(t, "seqbit")))
			if rapid.IntRange(0, 2).Draw(t, "how") == 0 {
				ns = seqFixed[rapid.IntRange(0, len(seqFixed)-1).Draw(t, "newseq")]
			}
			c.Other = strconv.FormatUint(ns, 10)
		case "chg-key":
			net := c.EType
			how := rapid.IntRange(0, 2).Draw(t, "how")
			switch how {
			case 0: // unrelated key, same etype
				c.Other = hex.EncodeToString(kgen.Key(t, net, "otherkey"))
			case 1: // one bit of the key changed (des3: parity bits are ignored by the cipher, so change a data bit)
				nk := clone(key)
				b := rapid.IntRange(0, len(nk)*8-1).Draw(t, "keybit")
				if c.EType == ref.DES3 && b%8 == 0 {
					b++
				}
				nk[b/8] ^= 1 << uint(b%8)
				c.Other = hex.EncodeToString(nk)
			default: // same key bytes under another etype of equal key length, else unrelated key of another etype
				net = rapid.SampledFrom(ref.ETypes).Draw(t, "otheretype")
				if ref.KeyLen(net) == len(key) {
					c.Other = c.Key
				} else {
					c.Other = hex.EncodeToString(kgen.Key(t, net, "otherkey"))
				}
			}
			c.A = int(net)
		case "chg-usage":
			c.A = int(rapid.SampledFrom([]uint32{22, 23, 24, 25, 0, 1, 11, 13, 21, 26, 1024}).Draw(t, "newusage"))
		}
		judge("token", c, t)
	})

	// ---- enumerations -------------------------------------------------------------------------
	det := func(label string, n int) []byte { return kgen.DetBytes(r.Seed(), "c17/"+label, n) }
	mk := func(kind string, et int32, plen int, flags uint8, seq uint64, usage uint32, label string) Case {
		return Case{Kind: kind, EType: et, Key: hex.EncodeToString(ref.RandomKey(et, det(label+"/k", 32))), Usage: usage,
			Flags: flags, Seq: seq, Payload: hex.EncodeToString(det(label+"/p", plen))}
	}
	kinds := []string{gsstok.KindMIC, gsstok.KindWrap}
	detSeq := func(label string) uint64 {
		b := det(label+"/seq", 8)
		var s uint64
		for _, x := range b {
			s = s<<8 | uint64(x)
		}
		return s
	}

	// E1: the complete grid kind x etype x flags x usage x sequence-number class, built by the library and presented to it.
	r.Rule("enum E1: complete grid kind x etype x flags 0..7 x usage 22..25 x sequence number {0,1,2^32-1,2^32,2^64-1,one seeded random}: build and present (payload length seeded in 1..300); Wrap tokens also built with a non-zero rotation count in the header (1, 12, 28, 65535), which RFC 4121 4.2.4 keeps out of the checksum")
	type g1 struct {
		kind  string
		et    int32
		flags uint8
		usage uint32
		si    int
	}
	var grid []g1
	for _, k := range kinds {
		for _, et := range ref.ETypes {
			for f := 0; f < 8; f++ {
				for _, u := range gssUsages {
					for si := 0; si <= len(seqFixed); si++ {
						grid = append(grid, g1{k, et, uint8(f), u, si})
					}
				}
			}
		}
	}
	evid.Parallel(len(grid), 16, func(i int) {
		g := grid[i]
		lbl := fmt.Sprintf("e1/%d", i)
		seq := detSeq(lbl)
		if g.si < len(seqFixed) {
			seq = seqFixed[g.si]
		}
		lb := det(lbl+"/len", 2)
		plen := 1 + (int(lb[0])<<8|int(lb[1]))%300
		c := mk(g.kind, g.et, plen, g.flags, seq, g.usage, lbl)
		c.Variant = "build"
		judge("enum", c, nil)
		c.Variant = "present"
		judge("enum", c, nil)
		if g.kind == gsstok.KindWrap {
			c.Variant, c.A = "build-rrc", []int{1, 12, 28, 65535}[i%4]
			judge("enum", c, nil)
		}
		if sb := sibling(g.et); sb != 0 {
			c.Variant, c.A, c.Then = "build", 0, sb
			judge("enum", c, nil)
		}
	})
	r.Exhaustive("build/present grid: kind x etype x flags 0..7 x usage 22..25 x sequence number class")

	// E2: every payload length 0..300 for every kind and etype: build, newinit, present.
	r.Rule("enum E2: kind x etype x EVERY payload length 0..300: build, newinit, present (flags, usage, sequence number cycled)")
	type g2 struct {
		kind string
		et   int32
		n    int
	}
	var lens []g2
	for _, k := range kinds {
		for _, et := range ref.ETypes {
			for n := 0; n <= 300; n++ {
				lens = append(lens, g2{k, et, n})
			}
		}
	}
	evid.Parallel(len(lens), 16, func(i int) {
		g := lens[i]
		lbl := fmt.Sprintf("e2/%s/%d/%d", g.kind, g.et, g.n)
		seq := detSeq(lbl)
		if si := (i + i/7) % (len(seqFixed) + 1); si < len(seqFixed) {
			seq = seqFixed[si]
		}
		c := mk(g.kind, g.et, g.n, uint8((i+i/8)%8), seq, gssUsages[(i+i/5)%4], lbl)
		c.Variant = "build"
		judge("enum", c, nil)
		c.Variant = "present"
		judge("enum", c, nil)
		c.Variant, c.Flags, c.Seq, c.Usage = "newinit", 0, 0, gsstok.RFCUsage(g.kind, false)
		judge("enum", c, nil)
	})
	r.Exhaustive("payload lengths 0..300 x kind x etype for build/newinit/present")

	// E3: selected tokens, every tampering of each.
	var sel []int
	if r.Thorough() {
		for n := 0; n <= 300; n++ {
			sel = append(sel, n)
		}
	} else {
		pick := map[int]bool{0: true, 1: true, 16: true, 300: true}
		b := det("e3/lens", 64)
		for i := 0; len(pick) < 10; i++ {
			pick[(int(b[2*i])<<8|int(b[2*i+1]))%301] = true
		}
		for n := 0; n <= 300; n++ {
			if pick[n] {
				sel = append(sel, n)
			}
		}
	}
	r.Extra("flip_enumerated_payload_lengths", sel)
	r.Rule(fmt.Sprintf("enum E3: for each kind x etype x payload length in %v (flags, usage, sequence number cycled so that all values occur): EVERY single-bit flip of the marshalled token, EVERY truncation, one-byte extension (4 values; thorough 256 on a subset), wrong expectFromAcceptor, 13 wrong token ids, filler values per filler octet (4; thorough all 255 on every fifth token), every other flags octet 0..255, every single-bit change and boundary value of the sequence number, other payloads (bit flip, append, drop, empty), other keys (unrelated, one bit, every other etype), other usages, checksum never set", sel))
	type g3 struct {
		kind string
		et   int32
		n    int
	}
	var toks []g3
	for _, k := range kinds {
		for _, et := range ref.ETypes {
			for _, n := range sel {
				toks = append(toks, g3{k, et, n})
			}
		}
	}
	r.Extra("flip_enumerated_tokens", len(toks))
	evid.Parallel(len(toks), 16, func(i int) {
		g := toks[i]
		lbl := fmt.Sprintf("e3/%s/%d/%d", g.kind, g.et, g.n)
		seq := detSeq(lbl)
		if si := (i + i/6) % (len(seqFixed) + 1); si < len(seqFixed) {
			seq = seqFixed[si]
		}
		base := mk(g.kind, g.et, g.n, uint8((i+int(r.Seed()))%8), seq, gssUsages[(i/2+i/8)%4], lbl)
		key, _ := hex.DecodeString(base.Key)
		payload, _ := hex.DecodeString(base.Payload)
		tl := tokLen(g.kind, g.et, g.n)
		with := func(variant string, a int, other string) {
			c := base
			c.Variant, c.A, c.Other = variant, a, other
			judge("enum", c, nil)
		}
		with("present", 0, "")
		with("build", 0, "")
		for b := 0; b < tl*8; b++ {
			with("bitflip", b, "")
		}
		for l := 0; l < tl; l++ {
			with("truncate", l, "")
		}
		if g.kind == gsstok.KindWrap {
			for ec := 1; ec < ref.CksumLen(g.et); ec++ {
				with("short-ec", ec, "")
			}
		}
		ext := []int{0x00, 0xff, 0x80, int(det(lbl+"/e", 1)[0])}
		if r.Thorough() && i%6 == 0 {
			ext = ext[:0]
			for b := 0; b < 256; b++ {
				ext = append(ext, b)
			}
		}
		for _, b := range ext {
			with("extend", b, "")
		}
		with("wrongdir", 0, "")
		for _, id := range badIDs(g.kind) {
			with("badid", 0, id)
		}
		nf := 1
		if g.kind == gsstok.KindMIC {
			nf = 5
		}
		for p := 0; p < nf; p++ {
			fv := []int{0x00, 0xfe, 0x7f, int(det(lbl+"/f", 1)[0]) % 255}
			if r.Thorough() && i%5 == 0 {
				fv = fv[:0]
				for b := 0; b < 255; b++ {
					fv = append(fv, b)
				}
			}
			for _, b := range fv {
				with("badfiller", p, hex.EncodeToString([]byte{byte(b)}))
			}
		}
		for f := 0; f < 256; f++ {
			with("chg-flags", f, "")
		}
		for b := 0; b < 64; b++ {
			with("chg-seq", 0, strconv.FormatUint(base.Seq^(1<<uint(b)), 10))
		}
		for _, s := range seqFixed {
			with("chg-seq", 0, strconv.FormatUint(s, 10))
		}
		// other payloads
		if g.n > 0 {
			for _, b := range []int{0, g.n*8 - 1, int(det(lbl+"/pb", 2)[0]) % (g.n * 8)} {
				np := clone(payload)
				np[b/8] ^= 1 << uint(b%8)
				with("chg-payload", 0, hex.EncodeToString(np))
			}
			with("chg-payload", 0, hex.EncodeToString(payload[:g.n-1]))
			with("chg-payload", 0, hex.EncodeToString(payload[1:]))
			with("chg-payload", 0, "")
		}
		with("chg-payload", 0, hex.EncodeToString(append(clone(payload), 0x00)))
		with("chg-payload", 0, hex.EncodeToString(append([]byte{0x00}, payload...)))
		// a payload that ends with the token header: shifts the payload/header boundary of the checksummed data
		if g.kind == gsstok.KindMIC {
			with("chg-payload", 0, hex.EncodeToString(append(clone(payload), gsstok.MICHeader(base.Flags, base.Seq)...)))
		} else {
			with("chg-payload", 0, hex.EncodeToString(append(clone(payload), gsstok.WrapHeader(base.Flags, 0, 0, base.Seq)...)))
		}
		// other keys
		with("chg-key", int(g.et), hex.EncodeToString(ref.RandomKey(g.et, det(lbl+"/k2", 32))))
		for _, b := range []int{1, len(key)*8 - 1, len(key) * 4} {
			nk := clone(key)
			if g.et == ref.DES3 && b%8 == 0 {
				b++
			}
			nk[b/8] ^= 1 << uint(b%8)
			with("chg-key", int(g.et), hex.EncodeToString(nk))
		}
		for _, o := range ref.ETypes {
			if o == g.et {
				continue
			}
			if ref.KeyLen(o) == len(key) {
				with("chg-key", int(o), base.Key)
			} else {
				with("chg-key", int(o), hex.EncodeToString(ref.RandomKey(o, det(lbl+"/k3", 32))))
			}
		}
		for _, u := range []uint32{22, 23, 24, 25, 0, 1, 2, 3, 8, 9, 11, 13, 21, 26, 127, 128, 1024} {
			with("chg-usage", int(u), "")
		}
		with("nocksum", 0, "")
	})
	r.Exhaustive("single-bit flips and truncations of the selected (kind, etype, payload length) tokens; flags octet 0..255 and every single-bit change of the sequence number after checksum computation for the same tokens")
}
