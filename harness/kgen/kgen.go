// Package kgen holds small generator helpers shared by the property packages.
package kgen

import (
	"crypto/sha256"
	"encoding/binary"

	"pgregory.net/rapid"

	ref "verif/harness/ref/krbcrypto"
)

// Usages is the key-usage set of C05–C07: every usage constant the library defines
// (iana/keyusage) plus boundary values around the one-, two- and four-byte encodings.
var Usages = func() []uint32 {
	u := []uint32{}
	for i := uint32(1); i <= 17; i++ {
		u = append(u, i)
	}
	u = append(u, 19, 22, 23, 24, 25, 50, 51, 52, 53, 54, 55, 56, 127, 128, 255, 256, 1024, 1<<31)
	return u
}()

// DetBytes is a deterministic byte stream: a pure function of (seed, label).
func DetBytes(seed uint64, label string, n int) []byte {
	out := make([]byte, 0, n+32)
	var ctr uint64
	for len(out) < n {
		h := sha256.New()
		var b [16]byte
		binary.BigEndian.PutUint64(b[:8], seed)
		binary.BigEndian.PutUint64(b[8:], ctr)
		h.Write(b[:])
		h.Write([]byte(label))
		out = h.Sum(out)
		ctr++
	}
	return out[:n]
}

// Bytes draws exactly n bytes.
func Bytes(t *rapid.T, label string, n int) []byte {
	return rapid.SliceOfN(rapid.Byte(), n, n).Draw(t, label)
}

// EType draws one of the six supported etypes.
func EType(t *rapid.T) int32 { return rapid.SampledFrom(ref.ETypes).Draw(t, "etype") }

// Key draws a valid protocol key for the etype.
func Key(t *rapid.T, et int32, label string) []byte {
	return ref.RandomKey(et, Bytes(t, label, 32))
}

// Usage draws a key usage (never 0: Kerberos numbers key usages from 1 and gokrb5's message encryption refuses 0):
// half of the time from the usage set, otherwise any number - small ones (every residue of
// the derivation-constant arithmetic occurs below a few thousand), numbers up to 2^24, and the whole 32-bit range.
func Usage(t *rapid.T) uint32 {
	switch rapid.IntRange(0, 9).Draw(t, "usageclass") {
	case 0, 1, 2:
		return uint32(rapid.IntRange(1, 8191).Draw(t, "usage"))
	case 3:
		return uint32(rapid.IntRange(1, 1<<24).Draw(t, "usage"))
	case 4:
		return rapid.Uint32Min(1).Draw(t, "usage")
	}
	return rapid.SampledFrom(Usages).Draw(t, "usage")
}

// BoundaryLen draws a plaintext length biased to block boundaries within [0,max].
func BoundaryLen(t *rapid.T, max int) int {
	if rapid.IntRange(0, 2).Draw(t, "lenmode") == 0 {
		return rapid.IntRange(0, max).Draw(t, "len")
	}
	blk := rapid.SampledFrom([]int{8, 16}).Draw(t, "blk")
	k := rapid.IntRange(0, max/blk).Draw(t, "k")
	d := rapid.SampledFrom([]int{-1, 0, 1, 7, 15}).Draw(t, "d")
	n := k*blk + d
	if n < 0 {
		n = 0
	}
	if n > max {
		n = max
	}
	return n
}
