// C07 — keyed checksums equal the RFC definitions and verify only exact matches.
package c07

import (
	"bytes"
	"encoding/hex"
	"fmt"
	"strings"
	"testing"

	"github.com/jcmturner/gokrb5/v8/crypto"
	"github.com/jcmturner/gokrb5/v8/crypto/common"
	"pgregory.net/rapid"

	"verif/harness/evid"
	"verif/harness/kgen"
	ref "verif/harness/ref/krbcrypto"
)

// Case is one checksum computation or verification.
type Case struct {
	Ck      int32  `json:"cksumtype"`
	Key     string `json:"key"`
	Usage   uint32 `json:"usage"`
	Data    string `json:"data"`
	Variant string `json:"variant"`        // value correct prefix extend bitflip otherdata otherkey otherkey-inplace otherkeylen otherusage typemap
	A       int    `json:"a"`              // prefix length | appended byte | bit index | other usage | type id
	Other   string `json:"other"`          // other data | other key
	Then    int32  `json:"then,omitempty"` // afterwards compute the same (key octets, usage, data) under this sibling checksum type of equal key length
}

func usageClass(u uint32) string {
	switch {
	case u < 128:
		return "usage<128"
	case u < 1<<28:
		return "usage>=128"
	}
	return "usage>=2^28"
}

var iana = map[int32]int32{12: 16, 15: 17, 16: 18, 19: 19, 20: 20, -138: 23}

// Eval judges one Case; trivial = the variant coincides with the correct presentation.
func Eval(c Case) evid.Verdict { v, _ := eval(c); return v }

func eval(c Case) (evid.Verdict, bool) {
	v, triv := eval1(c)
	if v.OK && c.Then != 0 {
		// no hidden state: the same key octets and usage under another checksum type of equal key length must
		// still give that type's RFC value (and then the first type's again)
		c2 := c
		c2.Ck, c2.Then, c2.Variant = c.Then, 0, "correct"
		if v2, _ := eval1(c2); !v2.OK {
			if v2.Sig == "harness" {
				return v2, false
			}
			v2.Sig = "after-sibling-type:" + v2.Sig
			v2.Msg = fmt.Sprintf("after computing checksum type %d with the same key octets and usage: %s", c.Ck, v2.Msg)
			return v2, false
		}
		c3 := c
		c3.Then, c3.Variant = 0, "correct"
		if v3, _ := eval1(c3); !v3.OK {
			v3.Sig = "after-sibling-type:" + v3.Sig
			return v3, false
		}
	}
	return v, triv
}

func eval1(c Case) (evid.Verdict, bool) {
	trivial := false
	v := evid.SafeEval(func() evid.Verdict {
		if c.Variant == "typemap" {
			id := int32(c.A)
			et, err := crypto.GetChksumEtype(id)
			if want, ok := iana[id]; ok {
				if err != nil {
					return evid.Fail(fmt.Sprintf("typemap:%d", id), "GetChksumEtype(%d) failed: %v", id, err)
				}
				if et.GetETypeID() != want || et.GetHashID() != id {
					return evid.Fail(fmt.Sprintf("typemap:%d", id), "checksum type %d selects etype %d (hash id %d); IANA assigns etype %d", id, et.GetETypeID(), et.GetHashID(), want)
				}
				e2, err := crypto.GetEtype(want)
				if err != nil || e2.GetHashID() != id {
					return evid.Fail(fmt.Sprintf("typemap:%d", id), "etype %d reports checksum type %v, want %d", want, e2, id)
				}
				return evid.Pass()
			}
			if err == nil && et.GetHashID() != id {
				return evid.Fail(fmt.Sprintf("typemap:%d", id), "unassigned checksum type %d silently mapped to etype %d whose checksum type is %d", id, et.GetETypeID(), et.GetHashID())
			}
			return evid.Pass()
		}
		key, _ := hex.DecodeString(c.Key)
		data, _ := hex.DecodeString(c.Data)
		et, err := crypto.GetChksumEtype(c.Ck)
		if err != nil {
			return evid.Fail(fmt.Sprintf("typemap:%d", c.Ck), "GetChksumEtype(%d): %v", c.Ck, err)
		}
		want, err := ref.Checksum(c.Ck, key, c.Usage, data)
		if err != nil {
			return evid.Fail("harness", "reference: %v", err)
		}
		sigv := fmt.Sprintf("value:cksum%d:%s", c.Ck, usageClass(c.Usage))
		// the data is the front of a record the caller holds (the rest is filled with a pattern): the checksum of the part,
		// then the checksum of the whole record and the checksum of the part again must all be the RFC values
		rec := append(append(make([]byte, 0, len(data)+48), data...), bytes.Repeat([]byte{0xa5}, 48)...)
		recWant, err := ref.Checksum(c.Ck, key, c.Usage, rec)
		if err != nil {
			return evid.Fail("harness", "reference checksum failed: %v", err)
		}
		got, err := et.GetChecksumHash(key, rec[:len(data)], c.Usage)
		if err != nil {
			return evid.Fail(sigv, "GetChecksumHash failed: %v", err)
		}
		if !bytes.Equal(got, want) {
			return evid.Fail(sigv, "GetChecksumHash = %x, RFC value %x", got, want)
		}
		if g2, err := et.GetChecksumHash(key, rec, c.Usage); err != nil || !bytes.Equal(g2, recWant) {
			return evid.Fail("record-after-part:"+sigv, "after the checksum of the first %d octets of a record had been computed, GetChecksumHash over the whole record = %x (%v), RFC value %x", len(data), g2, err, recWant)
		}
		if g3, err := et.GetChecksumHash(key, rec[:len(data)], c.Usage); err != nil || !bytes.Equal(g3, want) {
			return evid.Fail("again:"+sigv, "second GetChecksumHash over the same data and key buffers = %x (%v), RFC value %x", g3, err, want)
		}
		sig := fmt.Sprintf("verify:%s:cksum%d", c.Variant, c.Ck)
		vkey, vdata, vusage, pres := key, data, c.Usage, append([]byte{}, want...)
		expect := false
		switch c.Variant {
		case "value":
			return evid.Pass()
		case "correct":
			expect = true
		case "prefix":
			pres = pres[:c.A]
		case "extend":
			pres = append(pres, byte(c.A))
		case "extend-hmac":
			// the checksum followed by the octets the truncation cut off: the first A octets of the untruncated HMAC
			full, err := ref.ChecksumFull(c.Ck, key, c.Usage, data)
			if err != nil {
				return evid.Fail("harness", "reference: %v", err)
			}
			if c.A <= len(pres) || c.A > len(full) {
				trivial = true
				return evid.Pass()
			}
			pres = append([]byte{}, full[:c.A]...)
		case "bitflip":
			pres[c.A/8] ^= 1 << uint(c.A%8)
		case "otherdata":
			vdata, _ = hex.DecodeString(c.Other)
			if bytes.Equal(vdata, data) {
				trivial = true
				return evid.Pass()
			}
		case "otherkey":
			vkey, _ = hex.DecodeString(c.Other)
			if bytes.Equal(vkey, key) {
				trivial = true
				return evid.Pass()
			}
		case "otherkey-inplace":
			// the caller's key buffer is overwritten with another key of the same length: the verdict and the value are
			// those of the key the buffer holds now
			o, _ := hex.DecodeString(c.Other)
			if bytes.Equal(o, key) || len(o) != len(key) {
				trivial = true
				return evid.Pass()
			}
			copy(key, o)
			w2, err := ref.Checksum(c.Ck, o, c.Usage, data)
			if err != nil {
				return evid.Fail("harness", "reference checksum failed: %v", err)
			}
			if g, err := et.GetChecksumHash(key, data, c.Usage); err != nil || !bytes.Equal(g, w2) {
				return evid.Fail(fmt.Sprintf("value:key-inplace:cksum%d", c.Ck), "after the key buffer was overwritten with another key, GetChecksumHash = %x (%v), RFC value for the key now in the buffer %x (for the earlier key %x)", g, err, w2, want)
			}
		case "otherkeylen":
			// another key of another length (one that another checksum type would take, or none): whatever is
			// presented - the checksum computed under the right key, the empty string, nil - is not "that value"
			vkey, _ = hex.DecodeString(c.Other)
			if len(vkey) == len(key) {
				trivial = true
				return evid.Pass()
			}
			switch c.A {
			case 0:
				pres = []byte{}
			case 1:
				pres = nil
			}
		case "otherusage":
			vusage = uint32(c.A)
			if vusage == c.Usage || (c.Ck == ref.CkRC4 && ref.RC4Usage(vusage) == ref.RC4Usage(c.Usage)) {
				trivial = true
				return evid.Pass()
			}
		default:
			return evid.Fail("harness", "bad variant %q", c.Variant)
		}
		ok := et.VerifyChecksum(vkey, vdata, pres, vusage)
		if ok != expect {
			return evid.Fail(sig, "VerifyChecksum(%s presentation %x; correct %x) = %v, want %v", c.Variant, pres, want, ok, expect)
		}
		// the verdict is about the values: asking again with the same buffers gives the same answer
		if ok := et.VerifyChecksum(vkey, vdata, pres, vusage); ok != expect {
			return evid.Fail("again:"+sig, "second VerifyChecksum with the same buffers (%s presentation %x; correct %x) = %v, want %v", c.Variant, pres, want, ok, expect)
		}
		if c.Ck != ref.CkRC4 {
			// the package-level helper of the simplified profile (exported API) must agree
			if ok2 := common.VerifyChecksum(vkey, pres, vdata, vusage, et); ok2 != expect {
				return evid.Fail("common-"+sig, "common.VerifyChecksum(%s presentation %x; correct %x) = %v, want %v", c.Variant, pres, want, ok2, expect)
			}
			if c.Variant == "correct" {
				if h, err := common.GetChecksumHash(data, key, c.Usage, et); err != nil || !bytes.Equal(h, want) {
					return evid.Fail("common-"+sigv, "common.GetChecksumHash = %x (%v), RFC value %x", h, err, want)
				}
			}
		}
		return evid.Pass()
	})
	return v, trivial
}

func TestProp(t *testing.T) {
	r := evid.Start(t, "C07", "exploration")
	evid.Reg(r, "cksum", Eval)
	evid.Reg(r, "enum", Eval)
	if r.Replay() {
		return
	}
	defer r.Finish()
	r.Regress()
	if err := ref.SelfTest(); err != nil {
		r.Inconclusive("reference crypto self-test failed: %v", err)
		return
	}
	r.Assume("ref/krbcrypto.Checksum validated against RFC 8009 vectors; hmac-sha1 types share the DK path validated by the RFC 3961 A.3 vectors")
	judge := func(check string, c Case, rt *rapid.T) {
		v, triv := eval(c)
		if triv {
			r.Count("", "trivial-skipped")
			return
		}
		lab := []string{fmt.Sprintf("cksum%d", c.Ck), "variant:" + c.Variant, usageClass(c.Usage)}
		if c.Then != 0 {
			lab = append(lab, "then-sibling-type-with-same-key")
		}
		r.Count(fmt.Sprintf("%d|%d|%d|%s|%d|%s|%d", c.Ck, len(c.Data)/2, c.Usage, c.Variant, c.A, c.Other, c.Then), lab...)
		r.Sample(fmt.Sprintf("%s/cksum%d", c.Variant, c.Ck), c)
		if rt != nil {
			if r.Judge(check, c, v) {
				rt.Fatalf("violation")
			}
		} else {
			r.Violation(check, c, v)
		}
	}
	r.Rule("rapid: checksum type {12,15,16,19,20,-138} x data length 0..200 x usage set x random key; variant from {value equality with the reference, correct verification, proper prefix, one-byte extension, bit flip, other data, other key (in a fresh slice, or written over the key buffer in place), a key of another length (0..64 octets) with the right-key checksum / the empty string / nil presented, other usage (rc4 aliases skipped)}; every case compares against the independent value, distinct by (type,len,usage,variant,arg)")
	r.Rapid("cksum", r.N(8000, 200000), func(t *rapid.T) {
		ck := rapid.SampledFrom(ref.CksumTypes).Draw(t, "cksumtype")
		et := ref.ETypeForCksum(ck)
		c := Case{Ck: ck, Usage: kgen.Usage(t)}
		c.Key = hex.EncodeToString(kgen.Key(t, et, "key"))
		c.Data = hex.EncodeToString(kgen.Bytes(t, "data", rapid.IntRange(0, 200).Draw(t, "len")))
		cl := ref.CksumLen(et)
		c.Variant = rapid.SampledFrom([]string{"value", "correct", "prefix", "extend", "extend-hmac", "bitflip", "otherdata", "otherkey", "otherkey-inplace", "otherkeylen", "otherusage"}).Draw(t, "variant")
		switch c.Variant {
		case "prefix":
			c.A = rapid.IntRange(0, cl-1).Draw(t, "plen")
		case "extend":
			c.A = rapid.IntRange(0, 255).Draw(t, "byte")
		case "extend-hmac":
			c.A = rapid.IntRange(cl+1, 64).Draw(t, "hmac-octets")
		case "bitflip":
			c.A = rapid.IntRange(0, cl*8-1).Draw(t, "bit")
		case "otherdata":
			c.Other = hex.EncodeToString(rapid.SliceOfN(rapid.Byte(), 0, 40).Draw(t, "otherdata"))
		case "otherkey", "otherkey-inplace":
			c.Other = hex.EncodeToString(kgen.Key(t, et, "otherkey"))
		case "otherkeylen":
			c.Other = hex.EncodeToString(kgen.Bytes(t, "otherkey", rapid.SampledFrom([]int{0, 1, 8, 15, 16, 17, 24, 32, 33, 64}).Draw(t, "otherkeylen")))
			c.A = rapid.IntRange(0, 2).Draw(t, "presented")
		case "otherusage":
			c.A = int(kgen.Usage(t))
		}
		if c.Variant == "value" || c.Variant == "correct" {
			var sib []int32
			for _, o := range ref.CksumTypes {
				if o != ck && ref.KeyLen(ref.ETypeForCksum(o)) == ref.KeyLen(et) {
					sib = append(sib, o)
				}
			}
			if len(sib) > 0 && rapid.Bool().Draw(t, "withsibling") {
				c.Then = rapid.SampledFrom(sib).Draw(t, "sibling")
			}
		}
		judge("cksum", c, t)
	})
	// Enumeration
	r.Rule("enum: type map over ids -200..40 and 32771; for each checksum type x selected data lengths x usages: value, every proper prefix, every one-byte extension (quick: 4 byte values, thorough: all 256), the checksum continued by the octets of the untruncated HMAC it was cut from (every length up to the full HMAC), every single-bit flip, other data/key, keys of 0/8/16/24/32 octets where another length is due x {right-key checksum, empty, nil}, every other usage")
	for id := -200; id <= 40; id++ {
		judge("enum", Case{Variant: "typemap", A: id}, nil)
	}
	judge("enum", Case{Variant: "typemap", A: 32771}, nil)
	// every key usage number 0..8191 for every checksum type (value equality): the n-fold of the derivation constant
	// runs through every carry pattern of its arithmetic within a few thousand consecutive numbers
	r.Rule("enum usages: for every checksum type, EVERY key usage 0..8191 (thorough: 0..65535): value equality with the reference (fixed key and data per type)")
	maxU := r.N(8191, 65535)
	evid.Parallel(len(ref.CksumTypes)*16, 16, func(i int) {
		ck := ref.CksumTypes[i/16]
		et := ref.ETypeForCksum(ck)
		lbl := fmt.Sprintf("c07/usages/%d", ck)
		key := hex.EncodeToString(ref.RandomKey(et, kgen.DetBytes(r.Seed(), lbl+"/k", 32)))
		data := hex.EncodeToString(kgen.DetBytes(r.Seed(), lbl+"/d", 23))
		for u := i % 16; u <= maxU; u += 16 {
			judge("enum", Case{Ck: ck, Usage: uint32(u), Key: key, Data: data, Variant: "value"}, nil)
		}
	})
	r.Exhaustive(fmt.Sprintf("checksum type x every key usage 0..%d (value)", maxU))
	type job struct {
		ck int32
		n  int
		u  uint32
	}
	jobs := []job{}
	for _, ck := range ref.CksumTypes {
		for n := 0; n <= 200; n++ {
			for ui, u := range kgen.Usages {
				if r.Quick() && (n*7+ui+int(r.Seed()))%40 != 0 {
					continue
				}
				jobs = append(jobs, job{ck, n, u})
			}
		}
	}
	evid.Parallel(len(jobs), 16, func(i int) {
		j := jobs[i]
		et := ref.ETypeForCksum(j.ck)
		lbl := fmt.Sprintf("c07/%d/%d/%d", j.ck, j.n, j.u)
		base := Case{Ck: j.ck, Usage: j.u,
			Key:  hex.EncodeToString(ref.RandomKey(et, kgen.DetBytes(r.Seed(), lbl+"/k", 32))),
			Data: hex.EncodeToString(kgen.DetBytes(r.Seed(), lbl+"/d", j.n))}
		cl := ref.CksumLen(et)
		c := base
		c.Variant = "value"
		judge("enum", c, nil)
		c.Variant = "correct"
		judge("enum", c, nil)
		for _, o := range ref.CksumTypes {
			if o != j.ck && ref.KeyLen(ref.ETypeForCksum(o)) == ref.KeyLen(et) {
				c = base
				c.Variant, c.Then = "correct", o
				judge("enum", c, nil)
			}
		}
		for l := 0; l < cl; l++ {
			c = base
			c.Variant, c.A = "prefix", l
			judge("enum", c, nil)
		}
		ext := []int{0x00, 0xff, 0x80, int(kgen.DetBytes(r.Seed(), lbl+"/e", 1)[0])}
		if r.Thorough() && i%8 == 0 {
			ext = ext[:0]
			for b := 0; b < 256; b++ {
				ext = append(ext, b)
			}
		}
		for l := cl + 1; l <= 64; l++ {
			c = base
			c.Variant, c.A = "extend-hmac", l
			judge("enum", c, nil)
		}
		for _, b := range ext {
			c = base
			c.Variant, c.A = "extend", b
			judge("enum", c, nil)
		}
		for b := 0; b < cl*8; b++ {
			c = base
			c.Variant, c.A = "bitflip", b
			judge("enum", c, nil)
		}
		c = base
		c.Variant, c.Other = "otherdata", hex.EncodeToString(kgen.DetBytes(r.Seed(), lbl+"/d2", j.n+1))
		judge("enum", c, nil)
		c = base
		c.Variant, c.Other = "otherkey", hex.EncodeToString(ref.RandomKey(et, kgen.DetBytes(r.Seed(), lbl+"/k2", 32)))
		judge("enum", c, nil)
		c.Variant = "otherkey-inplace"
		judge("enum", c, nil)
		// the right key with zero octets behind it is another octet string, hence another key (HMAC pads short keys with zeros)
		for _, z := range []int{1, 2, 16, 48} {
			c = base
			c.Variant, c.A, c.Other = "otherkeylen", 2, base.Key+strings.Repeat("00", z)
			judge("enum", c, nil)
		}
		for _, kl := range []int{0, 8, 16, 24, 32} {
			for a := 0; a <= 2; a++ {
				c = base
				c.Variant, c.A, c.Other = "otherkeylen", a, hex.EncodeToString(kgen.DetBytes(r.Seed(), lbl+"/kl", kl))
				judge("enum", c, nil)
			}
		}
		for _, u := range kgen.Usages {
			c = base
			c.Variant, c.A = "otherusage", int(u)
			judge("enum", c, nil)
		}
	})
}
