// C16 — krb5.conf parsing, realm resolution and KDC selection follow MIT semantics.
package c16

import (
	"encoding/binary"
	"fmt"
	"net"
	"reflect"
	"regexp"
	"strings"
	"testing"
	"time"

	"github.com/jcmturner/gokrb5/v8/config"
	"github.com/jcmturner/gokrb5/v8/test/testdata"
	"pgregory.net/rapid"

	"verif/harness/evid"
	kc "verif/harness/ref/krb5conf"
)

// Case is one evaluation: a configuration model, the layout it is rendered with, and what is asked.
type Case struct {
	Kind   string     `json:"kind"` // load | invalid | resolve | lookup
	Model  kc.Model   `json:"model"`
	Layout []int      `json:"layout,omitempty"`
	Inject *kc.Inject `json:"inject,omitempty"` // invalid: the structural defect
	Host   string     `json:"host,omitempty"`   // resolve
	Reps   int        `json:"reps,omitempty"`   // lookup: calls per realm and function
}

// prepared is a rendered case with its expected values.
type prepared struct {
	text  string
	feats []string
	exp   kc.Expected
}

// prepare renders the model and requires the two independent routes to the expected values
// (model -> values, model -> text -> reference reader -> values) to agree.
func prepare(c Case) (prepared, *evid.Verdict) {
	bad := func(f string, a ...any) (prepared, *evid.Verdict) {
		v := evid.Fail("harness", f, a...)
		return prepared{}, &v
	}
	exp, err := kc.FromModel(c.Model)
	if err != nil {
		return bad("model: %v", err)
	}
	text, feats, err := kc.Render(c.Model, c.Layout, nil)
	if err != nil {
		return bad("render: %v", err)
	}
	got, err := kc.FromText(text)
	if err != nil {
		return bad("reference reader rejects the rendered file: %v\n%s", err, text)
	}
	if !reflect.DeepEqual(got, exp) {
		return bad("reference reader disagrees with the model\nread  %+v\nmodel %+v\n%s", got, exp, text)
	}
	return prepared{text: text, feats: feats, exp: exp}, nil
}

// Eval judges one Case.
func Eval(c Case) evid.Verdict {
	return evid.SafeEval(func() evid.Verdict {
		switch c.Kind {
		case "load":
			return evalLoad(c)
		case "invalid":
			return evalInvalid(c)
		case "resolve":
			return evalResolve(c)
		case "lookup":
			return evalLookup(c)
		}
		return evid.Fail("harness", "bad kind %q", c.Kind)
	})
}

// ---------------------------------------------------------------------------------------------
// load: every field the file sets holds the documented value.

var libField = map[string]func(l *config.LibDefaults) any{
	"allow_weak_crypto":          func(l *config.LibDefaults) any { return l.AllowWeakCrypto },
	"canonicalize":               func(l *config.LibDefaults) any { return l.Canonicalize },
	"ccache_type":                func(l *config.LibDefaults) any { return l.CCacheType },
	"clockskew":                  func(l *config.LibDefaults) any { return l.Clockskew },
	"default_client_keytab_name": func(l *config.LibDefaults) any { return l.DefaultClientKeytabName },
	"default_keytab_name":        func(l *config.LibDefaults) any { return l.DefaultKeytabName },
	"default_realm":              func(l *config.LibDefaults) any { return l.DefaultRealm },
	"default_tgs_enctypes":       func(l *config.LibDefaults) any { return etl{l.DefaultTGSEnctypes, l.DefaultTGSEnctypeIDs} },
	"default_tkt_enctypes":       func(l *config.LibDefaults) any { return etl{l.DefaultTktEnctypes, l.DefaultTktEnctypeIDs} },
	"dns_canonicalize_hostname":  func(l *config.LibDefaults) any { return l.DNSCanonicalizeHostname },
	"dns_lookup_kdc":             func(l *config.LibDefaults) any { return l.DNSLookupKDC },
	"dns_lookup_realm":           func(l *config.LibDefaults) any { return l.DNSLookupRealm },
	"extra_addresses":            func(l *config.LibDefaults) any { return l.ExtraAddresses },
	"forwardable":                func(l *config.LibDefaults) any { return l.Forwardable },
	"ignore_acceptor_hostname":   func(l *config.LibDefaults) any { return l.IgnoreAcceptorHostname },
	"k5login_authoritative":      func(l *config.LibDefaults) any { return l.K5LoginAuthoritative },
	"k5login_directory":          func(l *config.LibDefaults) any { return l.K5LoginDirectory },
	"kdc_default_options":        func(l *config.LibDefaults) any { return l.KDCDefaultOptions },
	"kdc_timesync":               func(l *config.LibDefaults) any { return l.KDCTimeSync },
	"noaddresses":                func(l *config.LibDefaults) any { return l.NoAddresses },
	"permitted_enctypes":         func(l *config.LibDefaults) any { return etl{l.PermittedEnctypes, l.PermittedEnctypeIDs} },
	"preferred_preauth_types":    func(l *config.LibDefaults) any { return l.PreferredPreauthTypes },
	"proxiable":                  func(l *config.LibDefaults) any { return l.Proxiable },
	"rdns":                       func(l *config.LibDefaults) any { return l.RDNS },
	"realm_try_domains":          func(l *config.LibDefaults) any { return l.RealmTryDomains },
	"renew_lifetime":             func(l *config.LibDefaults) any { return l.RenewLifetime },
	"safe_checksum_type":         func(l *config.LibDefaults) any { return l.SafeChecksumType },
	"ticket_lifetime":            func(l *config.LibDefaults) any { return l.TicketLifetime },
	"udp_preference_limit":       func(l *config.LibDefaults) any { return l.UDPPreferenceLimit },
	"verify_ap_req_nofail":       func(l *config.LibDefaults) any { return l.VerifyAPReqNofail },
}

type etl struct {
	Names []string
	IDs   []int32
}

// sigClass is the coarse root-cause class of a libdefaults entry (one defect, one signature).
func sigClass(e kc.LibEntry) string {
	switch e.Kind {
	case "bool":
		return kc.BoolClass(e.Text)
	case "dur":
		if e.Class != "" {
			return e.Class
		}
		return "dur"
	case "etypes":
		if strings.Contains(e.Text, ",") {
			return "etypes:comma-separated"
		}
		return "etypes"
	case "ints":
		if strings.Contains(e.Text, ", ") {
			return "ints:comma-space-separated"
		}
		return "ints"
	}
	return e.Kind
}

func sameIDs(a, b []int32) bool {
	if len(a) != len(b) {
		return false
	}
	for i := range a {
		if a[i] != b[i] {
			return false
		}
	}
	return true
}

// compareLib returns "" or a (signature, message) for the first libdefaults field that does not
// hold the documented value.
func compareLib(c Case, p prepared, cfg *config.Config) (string, string) {
	l := &cfg.LibDefaults
	allowWeak := p.exp.Lib["allow_weak_crypto"].B
	for _, e := range c.Model.Lib {
		if e.Kind == "unknown" {
			continue
		}
		want := p.exp.Lib[e.Key]
		got := libField[e.Key](l)
		ok, wantS := true, ""
		sig := "libdefaults:" + sigClass(e)
		switch e.Kind {
		case "bool":
			ok, wantS = got.(bool) == want.B, fmt.Sprint(want.B)
		case "dur":
			w := time.Duration(want.N) * time.Second
			ok, wantS = got.(time.Duration) == w, w.String()
		case "int":
			ok, wantS = int64(got.(int)) == want.N, fmt.Sprint(want.N)
		case "str":
			ok, wantS = got.(string) == want.S, want.S
		case "ints":
			g := got.([]int)
			ok = len(g) == len(want.Ints)
			for i := 0; ok && i < len(g); i++ {
				ok = int64(g[i]) == want.Ints[i]
			}
			wantS = fmt.Sprint(want.Ints)
		case "hex":
			var b [4]byte
			binary.BigEndian.PutUint32(b[:], uint32(want.N))
			bs := reflect.ValueOf(got) // asn1.BitString{Bytes, BitLength}
			ok = reflect.DeepEqual(bs.FieldByName("Bytes").Bytes(), b[:]) && bs.FieldByName("BitLength").Int() == 32
			wantS = fmt.Sprintf("BitString{%x, 32}", b)
		case "ips":
			g := got.([]net.IP)
			ok = len(g) == len(want.L)
			for i := 0; ok && i < len(g); i++ {
				ok = g[i].Equal(net.ParseIP(want.L[i]))
			}
			wantS = fmt.Sprint(want.L)
		case "etypes":
			g := got.(etl)
			ids := kc.EnctypeIDs(want.L, allowWeak)
			wantS = fmt.Sprintf("names %v ids %v", want.L, ids)
			if !sameIDs(g.IDs, ids) || !reflect.DeepEqual(append([]string{}, g.Names...), want.L) {
				ok = false
				if !strings.Contains(e.Text, ",") {
					// name the enctype whose documented number is missing or wrong
					off := "unexpected-id"
					k := 0
					for _, n := range want.L {
						id, known := kc.EnctypeNames[n]
						if !known || !kc.Implemented[id] || (kc.WeakEnctypes[id] && !allowWeak) {
							continue
						}
						if k >= len(g.IDs) || g.IDs[k] != id {
							off = n
							break
						}
						k++
					}
					sig = "libdefaults:etypes:name:" + off
				}
			}
		}
		if !ok {
			return sig, fmt.Sprintf("[libdefaults] %s = %s: loaded value %v, documented value %s", e.Key, e.Text, got, wantS)
		}
	}
	// relations the file does not contain must leave the library's initial value alone
	base := config.New().LibDefaults
	for _, k := range kc.SortedLibKeys() {
		if _, set := p.exp.Lib[k]; set {
			continue
		}
		if g, b := libField[k](l), libField[k](&base); !reflect.DeepEqual(g, b) {
			return "libdefaults:absent-key-changed", fmt.Sprintf("[libdefaults] has no %s but the field changed from %v to %v", k, b, g)
		}
	}
	return "", ""
}

func realmFeature(r kc.Realm, kind string) string {
	block, v6, final := false, false, false
	for _, it := range r.Items {
		if it.Kind == "block" {
			block = true
		}
		if it.Kind == kind || (kind == "kpasswd_server" && it.Kind == "admin_server") {
			if strings.HasPrefix(it.Host, "[") {
				v6 = true
			}
			if it.Final {
				final = true
			}
		}
	}
	switch {
	case block:
		return "nested-block"
	case v6:
		return "ipv6-literal"
	case final:
		return "final-marker"
	}
	return "plain"
}

// matchServers checks got against the expected servers position by position.
func matchServers(kind string, got []string, want []kc.Server) bool {
	if len(got) != len(want) {
		return false
	}
	for i, s := range want {
		ok := false
		for _, a := range kc.Accept(kind, s) {
			if got[i] == a {
				ok = true
			}
		}
		if !ok {
			return false
		}
	}
	return true
}

func realmLists(r *config.Realm) map[string][]string {
	return map[string][]string{"kdc": r.KDC, "admin_server": r.AdminServer, "kpasswd_server": r.KPasswdServer, "master_kdc": r.MasterKDC}
}

// compareRealm returns "" or the (signature, message) of the first realm field that is wrong.
func compareRealm(mr kc.Realm, er kc.ExpRealm, r *config.Realm) (string, string) {
	if r.Realm != er.Name {
		return "realms:name", fmt.Sprintf("realm name %q, file says %q", r.Realm, er.Name)
	}
	lists := realmLists(r)
	for _, kind := range kc.ServerKinds {
		want := *er.List(kind)
		got := lists[kind]
		if kind == "kpasswd_server" && len(want) == 0 {
			// documented fallback: port 464 on the admin_server hosts
			if d := kc.KPasswdDerived(er.Admin); !reflect.DeepEqual(append([]string{}, got...), d) {
				if f := realmFeature(mr, kind); f == "ipv6-literal" {
					return "realms:ipv6-literal", fmt.Sprintf("realm %s: KPasswdServer %q, documented fallback (admin_server hosts, port 464) %q", er.Name, got, d)
				}
				return "realms:kpasswd-from-admin:" + realmFeature(mr, kind), fmt.Sprintf("realm %s: KPasswdServer %q, documented fallback (admin_server hosts, port 464) %q", er.Name, got, d)
			}
			continue
		}
		if !matchServers(kind, got, want) {
			if f := realmFeature(mr, kind); f == "ipv6-literal" {
				return "realms:ipv6-literal", fmt.Sprintf("realm %s: %s list loaded as %q, file configures %+v (host, port; 0 = default port)", er.Name, kind, got, want)
			}
			return "realms:" + kind + ":" + realmFeature(mr, kind), fmt.Sprintf("realm %s: %s list loaded as %q, file configures %+v (host, port; 0 = default port)", er.Name, kind, got, want)
		}
	}
	if r.DefaultDomain != er.DefaultDomain {
		return "realms:default_domain:" + realmFeature(mr, "default_domain"), fmt.Sprintf("realm %s: default_domain %q, file says %q", er.Name, r.DefaultDomain, er.DefaultDomain)
	}
	return "", ""
}

var reLibErr = regexp.MustCompile(`libdefaults section line \(([^\s=]+)`)

// rejectClass derives the root-cause class of a rejection of a valid file from the error text.
func rejectClass(err error, m kc.Model) string {
	s := err.Error()
	if mm := reLibErr.FindStringSubmatch(s); mm != nil {
		for _, e := range m.Lib {
			if e.Key == mm[1] {
				return "libdefaults:" + sigClass(e)
			}
		}
		return "libdefaults:" + mm[1]
	}
	if strings.Contains(s, "realms section") || strings.Contains(s, "Realms section") || strings.Contains(s, "curly") || strings.Contains(s, "realm configuration") {
		for _, r := range m.Realms {
			for _, it := range r.Items {
				if it.Kind == "block" {
					return "realms:nested-block"
				}
			}
		}
		return "realms:plain"
	}
	if strings.Contains(s, "domaain_realm") || strings.Contains(s, "domain_realm") {
		return "domain_realm"
	}
	return "unclassified"
}

// loadAndCompare loads the text with gokrb5 and compares every modelled field.
func loadAndCompare(c Case, p prepared) (*config.Config, evid.Verdict) {
	cfg, err := config.NewFromString(p.text)
	if err != nil {
		return nil, evid.Fail("rejected:"+rejectClass(err, c.Model), "a valid file is rejected: %v\n--- file ---\n%s", err, p.text)
	}
	if cfg == nil {
		return nil, evid.Fail("nil-config", "NewFromString returned neither a configuration nor an error\n--- file ---\n%s", p.text)
	}
	if sig, msg := compareLib(c, p, cfg); sig != "" {
		return cfg, evid.Fail(sig, "%s\n--- file ---\n%s", msg, p.text)
	}
	if len(cfg.Realms) != len(p.exp.Realms) {
		names := []string{}
		for _, r := range cfg.Realms {
			names = append(names, r.Realm)
		}
		f := "plain"
		for _, r := range c.Model.Realms {
			if realmFeature(r, "") == "nested-block" {
				f = "nested-block"
			}
		}
		return cfg, evid.Fail("realms:count:"+f, "%d realms loaded %q, the file defines %d\n--- file ---\n%s", len(cfg.Realms), names, len(p.exp.Realms), p.text)
	}
	for i := range p.exp.Realms {
		if sig, msg := compareRealm(c.Model.Realms[i], p.exp.Realms[i], &cfg.Realms[i]); sig != "" {
			return cfg, evid.Fail(sig, "%s\n--- file ---\n%s", msg, p.text)
		}
	}
	if len(cfg.DomainRealm) != len(p.exp.Domain) {
		return cfg, evid.Fail("domain_realm:count", "%d domain mappings loaded %v, the file defines %v\n--- file ---\n%s", len(cfg.DomainRealm), cfg.DomainRealm, p.exp.Domain, p.text)
	}
	for d, r := range p.exp.Domain {
		if g, ok := cfg.DomainRealm[d]; !ok || g != r {
			return cfg, evid.Fail("domain_realm:value", "domain %q maps to %q (present %v), the file says %q\n--- file ---\n%s", d, g, ok, r, p.text)
		}
	}
	return cfg, evid.Pass()
}

func evalLoad(c Case) evid.Verdict {
	p, bad := prepare(c)
	if bad != nil {
		return *bad
	}
	_, v := loadAndCompare(c, p)
	return v
}

// ---------------------------------------------------------------------------------------------
// invalid: a structurally invalid file yields an error.

func evalInvalid(c Case) evid.Verdict {
	if c.Inject == nil {
		return evid.Fail("harness", "invalid case without a defect")
	}
	// the underlying model must be a valid file ...
	if _, bad := prepare(c); bad != nil {
		return *bad
	}
	text, _, err := kc.Render(c.Model, c.Layout, c.Inject)
	if err != nil {
		return evid.Fail("harness", "render: %v", err)
	}
	// ... and the reference reader must agree that the defect makes it invalid
	if _, rerr := kc.FromText(text); rerr == nil {
		return evid.Fail("harness", "the reference reader accepts the file meant to be invalid (%s)\n%s", c.Inject.Kind, text)
	}
	cfg, err := config.NewFromString(text)
	if err == nil {
		n := -1
		if cfg != nil {
			n = len(cfg.Realms)
		}
		cls := c.Inject.Kind
		switch {
		case strings.HasPrefix(cls, "unterminated-"):
			cls = "unterminated-block" // one root cause: the end of the section is reached inside an open block
		case strings.HasPrefix(cls, "unpaired-close"):
			cls = "unpaired-close"
		}
		return evid.Fail("invalid-accepted:"+cls, "a structurally invalid file (%s) is loaded without an error (%d realms)\n--- file ---\n%s", c.Inject.Kind, n, text)
	}
	return evid.Pass()
}

// ---------------------------------------------------------------------------------------------
// resolve: the most specific mapping wins.

func evalResolve(c Case) evid.Verdict {
	p, bad := prepare(c)
	if bad != nil {
		return *bad
	}
	cfg, err := config.NewFromString(p.text)
	if err != nil || cfg == nil {
		return evid.Fail("resolve:load-failed", "cannot load the mapping file: %v\n%s", err, p.text)
	}
	got := cfg.ResolveRealm(c.Host)
	d, m := kc.ResolveDesign(p.exp.Domain, c.Host), kc.ResolveMIT(p.exp.Domain, c.Host)
	if got == d || got == m {
		return evid.Pass()
	}
	sig := "resolve:not-most-specific"
	switch {
	case got == "":
		sig = "resolve:match-missed"
	case d == "" && m == "":
		sig = "resolve:spurious-match"
	}
	return evid.Fail(sig, "ResolveRealm(%q) = %q; most specific mapping gives %q (exact name, else longest .suffix)%s\nmappings: %v",
		c.Host, got, d, map[bool]string{true: "", false: fmt.Sprintf(" or %q under MIT's implicit-domain rule", m)}[d == m], p.exp.Domain)
}

// ---------------------------------------------------------------------------------------------
// lookup: every configured server exactly once, configuration untouched.

func deepCopy(v reflect.Value) reflect.Value {
	switch v.Kind() {
	case reflect.Ptr:
		if v.IsNil() {
			return v
		}
		n := reflect.New(v.Type().Elem())
		n.Elem().Set(deepCopy(v.Elem()))
		return n
	case reflect.Struct:
		n := reflect.New(v.Type()).Elem()
		for i := 0; i < v.NumField(); i++ {
			n.Field(i).Set(deepCopy(v.Field(i)))
		}
		return n
	case reflect.Slice:
		if v.IsNil() {
			return v
		}
		n := reflect.MakeSlice(v.Type(), v.Len(), v.Len())
		for i := 0; i < v.Len(); i++ {
			n.Index(i).Set(deepCopy(v.Index(i)))
		}
		return n
	case reflect.Map:
		if v.IsNil() {
			return v
		}
		n := reflect.MakeMapWithSize(v.Type(), v.Len())
		it := v.MapRange()
		for it.Next() {
			n.SetMapIndex(deepCopy(it.Key()), deepCopy(it.Value()))
		}
		return n
	}
	return v
}

// permutationOf checks that the map is keyed 1..n and that its values are the expected servers,
// each exactly once (a server written without a port may appear with its default port).
func permutationOf(kind string, m map[int]string, want []kc.Server, wantExact []string) string {
	n := len(want)
	if wantExact != nil {
		n = len(wantExact)
	}
	if len(m) != n {
		return fmt.Sprintf("map has %d entries, want %d", len(m), n)
	}
	vals := []string{}
	for i := 1; i <= n; i++ {
		v, ok := m[i]
		if !ok {
			return fmt.Sprintf("map lacks key %d (keys must be 1..%d)", i, n)
		}
		vals = append(vals, v)
	}
	used := make([]bool, n)
	take := func(pred func(i int) bool) bool {
		for i := 0; i < n; i++ {
			if !used[i] && pred(i) {
				used[i] = true
				return true
			}
		}
		return false
	}
	var rest []string
	for _, v := range vals { // exact renderings first
		if !take(func(i int) bool {
			if wantExact != nil {
				return wantExact[i] == v
			}
			return kc.Accept(kind, want[i])[0] == v
		}) {
			rest = append(rest, v)
		}
	}
	for _, v := range rest {
		if wantExact != nil || !take(func(i int) bool {
			for _, a := range kc.Accept(kind, want[i]) {
				if a == v {
					return true
				}
			}
			return false
		}) {
			return fmt.Sprintf("value %q is not a configured server or appears too often", v)
		}
	}
	return ""
}

func evalLookup(c Case) evid.Verdict {
	p, bad := prepare(c)
	if bad != nil {
		return *bad
	}
	if v, ok := p.exp.Lib["dns_lookup_kdc"]; ok && v.B {
		return evid.Fail("harness", "lookup case with dns_lookup_kdc enabled")
	}
	cfg, v := loadAndCompare(c, p)
	if !v.OK {
		// the file did not load as modelled: that is the load check's finding, not a lookup verdict
		return evid.Verdict{OK: true, Msg: "skipped: " + v.Sig}
	}
	if cfg.LibDefaults.DNSLookupKDC {
		return evid.Verdict{OK: true, Msg: "skipped: dns"}
	}
	// The order gokrb5 returns is drawn from its own math/rand source. Many calls make the verdict
	// practically independent of it (a 2-server list keeps its order with p=1/2 per call).
	reps := c.Reps
	if reps < 1 {
		reps = 1
	}
	for _, er := range p.exp.Realms {
		for k := 0; k < reps; k++ {
			for _, fn := range []string{"GetKDCs", "GetKpasswdServers"} {
				before := deepCopy(reflect.ValueOf(cfg)).Interface().(*config.Config)
				var n int
				var m map[int]string
				var err error
				var want []kc.Server
				var exact []string
				kind := "kdc"
				if fn == "GetKDCs" {
					n, m, err = cfg.GetKDCs(er.Name, k%2 == 1)
					want = er.KDC
				} else {
					n, m, err = cfg.GetKpasswdServers(er.Name, k%2 == 1)
					kind, want = "kpasswd_server", er.KPasswd
					if len(want) == 0 {
						exact = kc.KPasswdDerived(er.Admin)
					}
				}
				wn := len(want)
				if exact != nil {
					wn = len(exact)
				}
				desc := fmt.Sprintf("%s(%q) call %d", fn, er.Name, k+1)
				if n != wn {
					return evid.Fail("lookup:count:"+fn, "%s returns count %d, the realm configures %d servers (%v %v)\n--- file ---\n%s", desc, n, wn, want, exact, p.text)
				}
				if wn > 0 && err != nil {
					return evid.Fail("lookup:error:"+fn, "%s fails although servers are configured: %v\n--- file ---\n%s", desc, err, p.text)
				}
				if why := permutationOf(kind, m, want, exact); why != "" {
					return evid.Fail("lookup:not-a-permutation:"+fn, "%s returns %v: %s; configured %v %v\n--- file ---\n%s", desc, m, why, want, exact, p.text)
				}
				if !reflect.DeepEqual(cfg, before) {
					return evid.Fail("lookup:config-modified", "%s modified the configuration it was called on:\nbefore %+v\nafter  %+v\n--- file ---\n%s", desc, before.Realms, cfg.Realms, p.text)
				}
			}
		}
	}
	// GetKDCs("") stands for the default realm: exactly the realm of that name, or nothing when no realm is spelt that way
	{
		def := cfg.LibDefaults.DefaultRealm
		var want []kc.Server
		found := false
		for _, er := range p.exp.Realms {
			if er.Name == def {
				want, found = er.KDC, true
			}
		}
		for k := 0; k < 4; k++ {
			n, m, _ := cfg.GetKDCs("", k%2 == 1)
			if !found || len(want) == 0 {
				if n != 0 || len(m) != 0 {
					return evid.Fail("lookup:default-realm:GetKDCs", "GetKDCs(\"\") returns %d servers %v; default_realm is %q and no realm of exactly that name has KDCs\n--- file ---\n%s", n, m, def, p.text)
				}
				continue
			}
			if n != len(want) {
				return evid.Fail("lookup:default-realm:GetKDCs", "GetKDCs(\"\") returns count %d; the default realm %q configures %d KDCs (%v)\n--- file ---\n%s", n, def, len(want), want, p.text)
			}
			if why := permutationOf("kdc", m, want, nil); why != "" {
				return evid.Fail("lookup:default-realm:GetKDCs", "GetKDCs(\"\") returns %v: %s; the default realm %q configures %v\n--- file ---\n%s", m, why, def, want, p.text)
			}
		}
	}
	// realm names are case-sensitive (two realms may differ in nothing else): a spelling that is not a configured realm
	// has no servers, whatever other realm it resembles
	configured := map[string]bool{}
	for _, er := range p.exp.Realms {
		configured[er.Name] = true
	}
	for _, er := range p.exp.Realms {
		for _, name := range []string{strings.ToUpper(er.Name), strings.ToLower(er.Name), swapFirstLetter(er.Name), er.Name + ".", " " + er.Name} {
			if configured[name] || name == "" {
				continue
			}
			if n, m, _ := cfg.GetKDCs(name, false); n != 0 || len(m) != 0 {
				return evid.Fail("lookup:unconfigured-realm:GetKDCs", "GetKDCs(%q) returns %d servers %v, but no realm of that name is configured (it resembles %q)\n--- file ---\n%s", name, n, m, er.Name, p.text)
			}
			if n, m, _ := cfg.GetKpasswdServers(name, true); n != 0 || len(m) != 0 {
				return evid.Fail("lookup:unconfigured-realm:GetKpasswdServers", "GetKpasswdServers(%q) returns %d servers %v, but no realm of that name is configured (it resembles %q)\n--- file ---\n%s", name, n, m, er.Name, p.text)
			}
		}
	}
	return evid.Pass()
}

// swapFirstLetter changes the case of the first letter of s.
func swapFirstLetter(s string) string {
	for i, r := range s {
		switch {
		case r >= 'a' && r <= 'z':
			return s[:i] + string(r-32) + s[i+1:]
		case r >= 'A' && r <= 'Z':
			return s[:i] + string(r+32) + s[i+1:]
		}
	}
	return s
}

// ---------------------------------------------------------------------------------------------

func libNonDefault(m kc.Model) bool {
	for _, e := range m.Lib {
		if e.Kind != "unknown" {
			return true
		}
	}
	return false
}

func caseLabels(c Case, feats []string) []string {
	ls := []string{"kind:" + c.Kind, fmt.Sprintf("realms:%d", len(c.Model.Realms))}
	ls = append(ls, feats...)
	for _, e := range c.Model.Lib {
		if e.Class != "" {
			ls = append(ls, "lib:"+e.Class)
		} else {
			ls = append(ls, "lib:"+e.Kind)
		}
	}
	seen := map[string]bool{}
	add := func(l string) {
		if !seen[l] {
			seen[l] = true
			ls = append(ls, l)
		}
	}
	for _, r := range c.Model.Realms {
		nk := map[string]int{}
		for _, it := range r.Items {
			nk[it.Kind]++
			switch {
			case it.Kind == "block":
				d := 1
				for _, l := range it.Block {
					if l.IsBlock {
						d = 2
					}
				}
				add(fmt.Sprintf("realm:nested-block-depth%d", d))
			case it.Final:
				add("realm:final-marker")
			}
			if strings.HasPrefix(it.Host, "[") {
				add("realm:ipv6-literal")
			}
			if it.Host != "" && it.Port == 0 {
				add("realm:server-without-port")
			}
			if it.Host != "" && it.Port != 0 {
				add("realm:server-with-port")
			}
		}
		for _, k := range kc.ServerKinds {
			add(fmt.Sprintf("realm:%s-count:%d", k, nk[k]))
		}
		if nk["default_domain"] > 0 {
			add("realm:default_domain")
		}
		if nk["unknown"] > 0 {
			add("realm:unknown-key")
		}
	}
	if len(c.Model.Domains) > 0 {
		add("domain_realm:present")
	}
	if len(c.Model.Other) > 0 {
		add("unknown-section:present")
	}
	if c.Inject != nil {
		add("invalid:" + c.Inject.Kind)
	}
	return ls
}

func TestProp(t *testing.T) {
	r := evid.Start(t, "C16", "exploration")
	for _, k := range []string{"grid", "load", "invalid", "invalid-grid", "resolve", "resolve-rand", "lookup", "lookup-grid"} {
		evid.Reg(r, k, Eval)
	}
	if r.Replay() {
		return
	}
	defer r.Finish()
	var pool evid.Pool[Case] // rapid-drawn cases, evaluated side by side once more at the end
	defer func() { evid.Concurrent(r, &pool, 16, Eval) }()
	r.Regress()
	if err := kc.SelfTest(map[string]string{"KRB5_CONF": testdata.KRB5_CONF, "KRB5_CONF_AD": testdata.KRB5_CONF_AD}); err != nil {
		r.Inconclusive("reference krb5.conf model self-test failed: %v", err)
		return
	}
	r.Assume("expected values come from ref/krb5conf (written from the MIT krb5.conf documentation; self-tested on the documentation's examples, the MIT sample file, gokrb5's sample files in test/testdata and a render/read round trip); every case is additionally required to read back to its model through the independent reader before gokrb5 is judged")
	r.Assume("relations absent from a file are only required to keep the value of a fresh config.New(); documented defaults are not asserted")
	r.Assume("port defaults: a kdc without port must carry :88 and the kpasswd fallback must be <admin_server host>:464; admin_server, kpasswd_server and master_kdc values written without a port are accepted as written or with their documented default port (749/464/88), because the statement does not fix their rendering")
	r.Assume("dialect kept from the design: comments after a value and the final marker written as 'value*' (gokrb5's claimed forms); not generated/asserted: MIT boolean spellings on/off/nil and mixed-case true/false, 'tag* =', include directives, repeated sections or keys, quoted values, upper-case tags (MIT tags are case-sensitive), enctype families/DEFAULT/+- operators, repeated enctypes, the name des3-cbc-sha1 (IANA gives it number 7, MIT 16), v4_ relations, white space inside host names or before '*'")

	judge := func(check string, c Case, rt *rapid.T) {
		_, feats, _ := kc.Render(c.Model, c.Layout, nil)
		labels := caseLabels(c, feats)
		nt := ""
		switch c.Kind {
		case "load":
			if len(c.Model.Realms) >= 1 && libNonDefault(c.Model) {
				text, _, _ := kc.Render(c.Model, c.Layout, nil)
				nt = "load|" + text
			}
		case "invalid":
			text, _, _ := kc.Render(c.Model, c.Layout, c.Inject)
			nt = "invalid|" + text
		case "resolve":
			dm := map[string]string{}
			for _, d := range c.Model.Domains {
				dm[d.Domain] = d.Realm
			}
			k := kc.Matching(dm, c.Host)
			labels = append(labels, fmt.Sprintf("resolve:matching-mappings:%d", k), fmt.Sprintf("resolve:host-depth:%d", strings.Count(strings.TrimSuffix(c.Host, "."), ".")+1))
			if strings.HasSuffix(c.Host, ".") {
				labels = append(labels, "resolve:trailing-dot")
			}
			if kc.ResolveDesign(dm, c.Host) != kc.ResolveMIT(dm, c.Host) {
				labels = append(labels, "resolve:mit-implicit-domain-differs(either accepted)")
			}
			if k >= 2 {
				nt = fmt.Sprintf("resolve|%s|%v", c.Host, c.Model.Domains)
			}
		case "lookup":
			for _, rl := range c.Model.Realms {
				n := 0
				for _, it := range rl.Items {
					if it.Kind == "kdc" {
						n++
					}
				}
				if n >= 2 {
					text, _, _ := kc.Render(c.Model, c.Layout, nil)
					nt = "lookup|" + text
				}
			}
		}
		v := Eval(c)
		if v.OK && strings.HasPrefix(v.Msg, "skipped: ") {
			labels = append(labels, "lookup:skipped-because-load-differs")
			nt = ""
		}
		r.Count(nt, labels...)
		cls := c.Kind
		if c.Inject != nil {
			cls += "/" + c.Inject.Kind
		}
		if len(c.Layout) > 0 {
			cls += "/layout"
		}
		r.Sample(check+"/"+cls, c)
		if rt != nil {
			if v.OK {
				pool.Add(check, c)
			}
			if r.Judge(check, c, v) {
				rt.Fatalf("violation %s", v.Sig)
			}
		} else {
			r.Violation(check, c, v)
		}
	}

	// 1. systematic single-feature files
	r.Rule("grid: one file per (bool key x every accepted spelling), (duration key x every documented form x boundary values), integer keys at their limits, every documented enctype name alone and lists under every separator, preauth lists, server lists of every kind x port forms x final-marker position, IPv6 literals, nested blocks at every position and depth 1..2 with shadowing inner keys, unknown keys/sections, every order of the sections; each in the canonical layout and in one seeded random layout")
	grid := gridCases(r.Seed(), r.N(1, 6))
	evid.Parallel(len(grid), 16, func(i int) { judge("grid", grid[i], nil) })
	r.Exhaustive("grid: every libdefaults boolean key x every accepted spelling; every asserted documented enctype name (all but des3-cbc-sha1); final marker at every position of 3-server lists of every kind; nested block at every position of the base realm")

	// 2. random full models with random layout
	r.Rule("load: rapid model (every libdefaults key with p~0.35 in random order with random spelling, 0..4 realms x 0..4 servers of each kind with/without port and final marker, default_domain, unknown keys, nested blocks depth<=2, 0..8 domain mappings, 0..2 unknown sections, random section order) rendered through a random layout tape (indentation, tabs, spacing around '=', blank/whitespace/comment lines, trailing comments, trailing white space, no final newline); non-trivial = >=1 realm and >=1 interpreted libdefaults relation")
	r.Rapid("load", r.N(3000, 60000), func(t *rapid.T) {
		c := Case{Kind: "load", Model: genModel(t, genOpts{}), Layout: genLayout(t)}
		judge("load", c, t)
	})

	// 3. invalid files
	r.Rule("invalid: a valid model plus one structural defect {libdefaults line without '=', realm line without '=', line without '=' inside a block nested in a realm, domain_realm line without '=', unpaired '}' at section level of [realms], closing brace of a realm dropped, closing brace of a nested block dropped, unparsable boolean / duration / integer / integer list}; the reference reader must reject the file too; every such file is non-trivial")
	inv := invalidGrid(r.Seed())
	evid.Parallel(len(inv), 16, func(i int) { judge("invalid-grid", inv[i], nil) })
	r.Rapid("invalid", r.N(1500, 20000), func(t *rapid.T) {
		judge("invalid", genInvalid(t), t)
	})

	// 4. exhaustive host-to-realm resolution
	r.Rule(fmt.Sprintf("resolve: every host name over labels {a,b} of depth 1..5, with and without trailing dot (124) x every subset (128) of the mapping universe %v, each mapping to its own realm; oracle = exact name, else longest '.suffix', else \"\" (where MIT's implicit-domain rule names another mapping, either answer is accepted); non-trivial = >=2 mappings match", resolveUniverse))
	rc := resolveCases(resolveUniverse)
	evid.Parallel(len(rc), 16, func(i int) { judge("resolve", rc[i], nil) })
	r.Exhaustive("resolve: hosts over {a,b} depth<=5 (optional trailing dot) x all 128 subsets of the 7-mapping universe")
	// further universes of 7 mappings drawn (by seed) from all names over {a,b} of depth <= 3, with and without leading dot
	extra := [][]string{}
	for k := 0; k < r.N(1, 8); k++ {
		u := seededUniverse(r.Seed(), k)
		extra = append(extra, u)
		rc := resolveCases(u)
		evid.Parallel(len(rc), 16, func(i int) { judge("resolve", rc[i], nil) })
	}
	r.Extra("resolve_seeded_universes", extra)
	r.Rapid("resolve-rand", r.N(1500, 30000), func(t *rapid.T) {
		judge("resolve-rand", genResolve(t), t)
	})

	// 5. KDC / kpasswd lookup
	r.Rule("lookup: for every realm of a loaded model (no nested blocks, dns_lookup_kdc off) GetKDCs and GetKpasswdServers are called 24..32 times each (udp/tcp alternating): count = number configured, keys 1..count, values a permutation of the configured servers (default port 88 added to a KDC without port; kpasswd falls back to the admin_server hosts on port 464), error only when nothing is configured, the Config deep-equals a copy taken before each call, and spellings of the realm's name that are not configured realms themselves (other letter case, trailing dot, leading blank) have no servers; realm names that differ only in letter case occur side by side; non-trivial = a realm with >=2 KDCs")
	lg := lookupGrid()
	evid.Parallel(len(lg), 16, func(i int) { judge("lookup-grid", lg[i], nil) })
	r.Rapid("lookup", r.N(1200, 20000), func(t *rapid.T) {
		c := Case{Kind: "lookup", Model: genModel(t, genOpts{noBlocks: true, lookups: true}), Layout: genLayout(t), Reps: rapid.IntRange(24, 32).Draw(t, "reps")}
		judge("lookup", c, t)
	})
}
