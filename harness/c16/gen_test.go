package c16

import (
	"fmt"
	"strings"

	"pgregory.net/rapid"

	"verif/harness/kgen"
	kc "verif/harness/ref/krb5conf"
)

// ---------------------------------------------------------------------------------------------
// entry constructors: a known value and the literal rendered from it

func boolEntry(key string, v bool, spelling string) kc.LibEntry {
	return kc.LibEntry{Key: key, Kind: "bool", Text: spelling, B: v, Class: kc.BoolClass(spelling)}
}
func durEntry(key string, d kc.Dur) kc.LibEntry {
	return kc.LibEntry{Key: key, Kind: "dur", Text: d.Text(), N: d.Seconds(), Class: d.Class()}
}
func intEntry(key string, n int64) kc.LibEntry {
	return kc.LibEntry{Key: key, Kind: "int", Text: fmt.Sprint(n), N: n, Class: "int"}
}
func strEntry(key, s string) kc.LibEntry {
	return kc.LibEntry{Key: key, Kind: "str", Text: s, Class: "str"}
}
func etypesEntry(key string, names []string, sep string) kc.LibEntry {
	cls := "etypes:whitespace"
	if len(names) > 1 && strings.Contains(sep, ",") {
		cls = "etypes:comma"
		if strings.TrimSpace(sep) != sep {
			cls = "etypes:comma+space"
		}
	}
	for _, n := range names {
		if id, ok := kc.EnctypeNames[n]; ok && kc.CanonicalEnctypeName[id] != n {
			cls += ":alias"
			break
		}
	}
	return kc.LibEntry{Key: key, Kind: "etypes", Text: strings.Join(names, sep), L: append([]string{}, names...), Class: cls}
}
func intsEntry(key string, v []int64, sep string) kc.LibEntry {
	s := []string{}
	for _, n := range v {
		s = append(s, fmt.Sprint(n))
	}
	cls := "ints:comma"
	if sep != "," && len(v) > 1 {
		cls = "ints:comma+space"
	}
	return kc.LibEntry{Key: key, Kind: "ints", Text: strings.Join(s, sep), Ints: append([]int64{}, v...), Class: cls}
}
func hexEntry(key string, n uint32, upper bool) kc.LibEntry {
	t := fmt.Sprintf("0x%08x", n)
	if upper {
		t = fmt.Sprintf("0x%08X", n)
	}
	return kc.LibEntry{Key: key, Kind: "hex", Text: t, N: int64(n), Class: "hex"}
}
func ipsEntry(key string, ips []string) kc.LibEntry {
	return kc.LibEntry{Key: key, Kind: "ips", Text: strings.Join(ips, ","), L: append([]string{}, ips...), Class: "ips"}
}
func unknownEntry(key, text string) kc.LibEntry {
	return kc.LibEntry{Key: key, Kind: "unknown", Text: text, Class: "unknown-key"}
}

func keysOfKind(kind string) []string {
	out := []string{}
	for _, k := range kc.SortedLibKeys() {
		if kc.LibKeys[k] == kind {
			out = append(out, k)
		}
	}
	return out
}

// names the check does not assert (see the assumptions): IANA and MIT disagree on des3-cbc-sha1.
var etypeNotAsserted = map[string]bool{"des3-cbc-sha1": true}

// etypeNamesByID lists the asserted documented names per number, canonical name first.
func etypeNamesByID() (ids []int32, names map[int32][]string) {
	names = map[int32][]string{}
	for _, id := range []int32{1, 2, 3, 4, 6, 8, 16, 17, 18, 19, 20, 23, 24, 25, 26} {
		ids = append(ids, id)
		names[id] = []string{kc.CanonicalEnctypeName[id]}
	}
	all := []string{}
	for n := range kc.EnctypeNames {
		all = append(all, n)
	}
	sortStrings(all)
	for _, n := range all {
		id := kc.EnctypeNames[n]
		if etypeNotAsserted[n] || kc.CanonicalEnctypeName[id] == n {
			continue
		}
		names[id] = append(names[id], n)
	}
	return
}

func sortStrings(s []string) {
	for i := 1; i < len(s); i++ {
		for j := i; j > 0 && s[j] < s[j-1]; j-- {
			s[j], s[j-1] = s[j-1], s[j]
		}
	}
}

var unknownLibKeys = [][2]string{{"spake_preauth_groups", "edwards25519"}, {"plugin_base_dir", "/usr/lib/krb5/plugins"},
	{"qualify_shortname", "example.com"}, {"default_ccache_name", "KEYRING:persistent:1000"}, {"err_fmt", "%M (%C)"},
	{"pkinit_anchors", "FILE:/etc/pki/tls/certs/ca-bundle.crt"}, {"kdc", "evil.example.com"}, {"enforce_ok_as_delegate", "true"},
	{"some_unknown_flag", "maybe"}, {"dns_uri_lookup", "off"}}

var realmPool = []string{"EXAMPLE.COM", "TEST.GOKRB5", "ATHENA.MIT.EDU", "lowercase.org", "A", "AD.EXAMPLE.COM", "R-1.X", "X.Y.Z.W", "USER.GOKRB5", "Mixed.Case.Org",
	"example.com", "Example.Com", "LOWERCASE.ORG", "MIXED.CASE.ORG", "a"} // realm names are case-sensitive: these are five further realms
var hostPool = []string{"kerberos.example.com", "kerberos-1.example.com", "kdc1.test.gokrb5", "10.80.88.88", "127.0.0.1", "localhost", "kdc", "kerberos.mit.edu", "192.168.88.100", "a.b.c.d.e"}
var unknownRealmKeys = [][2]string{{"auth_to_local", "DEFAULT"}, {"auth_to_local", "RULE:[1:$1]"}, {"auth_to_local", "RULE:[2:$1/$2@$0](.*/admin@EXAMPLE.COM)s/@.*//"},
	{"pkinit_anchors", "FILE:/etc/ssl/ca.pem"}, {"primary_kdc", "kerberos.example.com"}, {"http_anchors", "DIR:/etc/ssl/certs"}, {"sssd_opt", "1"}, {"kdcs", "not.a.kdc"}}
var blockKeys = []string{"auth_to_local_names", "auth_to_local_names", "x_names", "plugin_opts"}
var blockLineKeys = []string{"kdc", "admin_server", "kpasswd_server", "master_kdc", "default_domain", "user1", "guest", "alice/admin"}
var blockLineVals = []string{"localuser", "evil.example.com:88", "evil.example.com*", "nobody", "wrong.domain", "x y z"}
var otherSections = []string{"logging", "appdefaults", "capaths", "plugins", "dbmodules", "kdcdefaults", "custom_section"}
var otherLines = [][2]string{{"default", "FILE:/var/log/krb5libs.log"}, {"kdc", "FILE:/var/log/krb5kdc.log"}, {"admin_server", "FILE:/var/log/kadmind.log"},
	{"default_realm", "WRONG.REALM"}, {"forwardable", "maybe"}, {"ticket_lifetime", "not-a-duration"}, {".example.com", "WRONG.REALM"}, {"debug", "false"}}

type genOpts struct {
	noBlocks          bool
	lookups           bool
	needLibSection    bool
	needRealm         bool
	needRealmsSection bool
	needDomainSection bool
	needBlock         bool
}

func genLayout(t *rapid.T) []int {
	return rapid.SliceOfN(rapid.OneOf(rapid.Just(0), rapid.IntRange(0, 255)), 0, 90).Draw(t, "layout")
}

func genDur(t *rapid.T) kc.Dur {
	small := func(lbl string, max int) int64 { return int64(rapid.IntRange(0, max).Draw(t, lbl)) }
	switch rapid.SampledFrom([]string{"n", "units", "units", "hm", "hms"}).Draw(t, "durform") {
	case "n":
		var s int64
		switch rapid.IntRange(0, 4).Draw(t, "nclass") {
		case 0:
			s = rapid.SampledFrom([]int64{0, 1, 59, 60, 300, 3600, 36000, 86400, kc.MaxDuration}).Draw(t, "nval")
		case 1:
			s = small("nval", 3600)
		case 2:
			s = small("nval", 7*86400)
		default:
			s = small("nval", int(kc.MaxDuration))
		}
		return kc.Dur{Form: "n", Parts: [4]int64{0, 0, 0, s}}
	case "units":
		d := kc.Dur{Form: "units", Use: rapid.IntRange(1, 15).Draw(t, "units"), Space: rapid.Bool().Draw(t, "durspace")}
		d.Parts = [4]int64{small("d", 40), small("h", 60), small("m", 150), small("s", 150)}
		if rapid.IntRange(0, 9).Draw(t, "bigdays") == 0 {
			d.Parts[0] = small("d", 24000)
		}
		return d
	case "hm":
		d := kc.Dur{Form: "hm", Pad: rapid.Bool().Draw(t, "pad")}
		d.Parts = [4]int64{0, small("h", 100), small("m", 59), 0}
		if rapid.IntRange(0, 19).Draw(t, "bighours") == 0 {
			d.Parts[1] = int64(rapid.IntRange(32760, 596522).Draw(t, "h"))
		}
		return d
	}
	d := kc.Dur{Form: "hms", Pad: rapid.Bool().Draw(t, "pad")}
	d.Parts = [4]int64{0, small("h", 100), small("m", 59), small("s", 59)}
	if rapid.IntRange(0, 19).Draw(t, "bighours") == 0 {
		d.Parts[1] = int64(rapid.IntRange(32760, 596522).Draw(t, "h"))
	}
	return d
}

func genEtypes(t *rapid.T, key string) kc.LibEntry {
	ids, names := etypeNamesByID()
	pick := rapid.SliceOfNDistinct(rapid.SampledFrom(ids), 1, 6, rapid.ID[int32]).Draw(t, "etypes")
	list := []string{}
	for _, id := range pick {
		list = append(list, rapid.SampledFrom(names[id]).Draw(t, "etname"))
	}
	if rapid.IntRange(0, 4).Draw(t, "unknownet") == 0 {
		pos := rapid.IntRange(0, len(list)).Draw(t, "unknownpos")
		u := rapid.SampledFrom([]string{"aes512-gcm", "foo-bar", "des3", "chacha20-poly1305"}).Draw(t, "unknownname")
		if u == "des3" { // a family name: its members are not asserted, so keep it out
			u = "not-an-enctype"
		}
		list = append(list[:pos], append([]string{u}, list[pos:]...)...)
	}
	sep := rapid.SampledFrom([]string{" ", " ", "  ", "\t", ",", ", ", " , "}).Draw(t, "etsep")
	return etypesEntry(key, list, sep)
}

func genLibEntry(t *rapid.T, key string) kc.LibEntry {
	switch kc.LibKeys[key] {
	case "bool":
		v := rapid.Bool().Draw(t, "boolval")
		if key == "dns_lookup_kdc" {
			v = false // no network: lookups must never reach DNS
		}
		return boolEntry(key, v, rapid.SampledFrom(kc.BoolSpellings(v)).Draw(t, "spelling"))
	case "dur":
		return durEntry(key, genDur(t))
	case "int":
		var vals []int64
		switch key {
		case "ccache_type":
			vals = []int64{1, 2, 3, 4}
		case "kdc_timesync":
			vals = []int64{0, 1, 2, 2147483647}
		case "realm_try_domains":
			vals = []int64{-1, 0, 1, 5, 2147483647}
		case "safe_checksum_type":
			vals = []int64{0, 1, 8, 12, 16, 2147483647}
		case "udp_preference_limit":
			vals = []int64{0, 1, 1465, 1466, 32699, 32700}
		}
		return intEntry(key, rapid.SampledFrom(vals).Draw(t, "intval"))
	case "str":
		switch key {
		case "default_realm":
			return strEntry(key, rapid.SampledFrom(realmPool).Draw(t, "realmval"))
		case "k5login_directory":
			return strEntry(key, rapid.SampledFrom([]string{"/home/user", "/etc/k5login.d", "/var/lib/krb5/%u"}).Draw(t, "dir"))
		}
		return strEntry(key, rapid.SampledFrom([]string{"FILE:/etc/krb5.keytab", "/etc/krb5.keytab", "FILE:/home/gokrb5/client.keytab", "DIR:/var/kt", "MEMORY:x"}).Draw(t, "ktname"))
	case "etypes":
		return genEtypes(t, key)
	case "ints":
		v := rapid.SliceOfN(rapid.Int64Range(1, 150), 1, 5).Draw(t, "preauth")
		return intsEntry(key, v, rapid.SampledFrom([]string{",", ", "}).Draw(t, "intsep"))
	case "hex":
		return hexEntry(key, rapid.Uint32().Draw(t, "kdcopts"), rapid.Bool().Draw(t, "upperhex"))
	case "ips":
		v := rapid.SliceOfNDistinct(rapid.SampledFrom([]string{"10.0.0.1", "192.168.1.7", "2001:db8::1", "::1", "172.16.0.254"}), 1, 3, rapid.ID[string]).Draw(t, "ips")
		return ipsEntry(key, v)
	}
	panic("bad key " + key)
}

func genHost(t *rapid.T) string {
	switch rapid.IntRange(0, 11).Draw(t, "hostclass") {
	case 0, 1, 2, 3:
		return rapid.SampledFrom(hostPool).Draw(t, "host")
	case 4, 5, 6:
		return rapid.StringMatching(`[a-z][a-z0-9-]{0,6}(\.[a-z][a-z0-9]{0,4}){0,3}`).Draw(t, "host")
	case 7, 8, 9:
		return fmt.Sprintf("10.%d.%d.%d", rapid.IntRange(0, 255).Draw(t, "o2"), rapid.IntRange(0, 255).Draw(t, "o3"), rapid.IntRange(1, 254).Draw(t, "o4"))
	}
	return rapid.SampledFrom([]string{"[2001:db8::1]", "[::1]", "[fe80::88]", "[2001:db8:0:1::a]"}).Draw(t, "host6")
}

func genPort(t *rapid.T) int {
	switch rapid.IntRange(0, 5).Draw(t, "portclass") {
	case 0, 1, 2:
		return 0
	case 3, 4:
		return rapid.SampledFrom([]int{88, 464, 749, 750, 1, 65535}).Draw(t, "port")
	}
	return rapid.IntRange(1, 65535).Draw(t, "port")
}

func genBlockLines(t *rapid.T, depth int) []kc.Line {
	n := rapid.IntRange(0, 3).Draw(t, "blocklines")
	out := []kc.Line{}
	for i := 0; i < n; i++ {
		if depth < 2 && rapid.IntRange(0, 3).Draw(t, "subblock") == 0 {
			out = append(out, kc.Line{Key: rapid.SampledFrom(blockKeys).Draw(t, "subkey"), IsBlock: true, Sub: genBlockLines(t, depth+1)})
			continue
		}
		out = append(out, kc.Line{Key: rapid.SampledFrom(blockLineKeys).Draw(t, "blk"), Value: rapid.SampledFrom(blockLineVals).Draw(t, "blv")})
	}
	return out
}

func genRealm(t *rapid.T, name string, o genOpts) kc.Realm {
	r := kc.Realm{Name: name}
	items := []kc.RealmItem{}
	for _, kind := range kc.ServerKinds {
		max := 4
		hosts := rapid.SliceOfNDistinct(rapid.Custom(genHost), 0, max, rapid.ID[string]).Draw(t, kind)
		start := len(items)
		for _, h := range hosts {
			items = append(items, kc.RealmItem{Kind: kind, Host: h, Port: genPort(t)})
		}
		if len(hosts) > 0 && rapid.IntRange(0, 9).Draw(t, "final?") < 3 {
			items[start+rapid.IntRange(0, len(hosts)-1).Draw(t, "finalpos")].Final = true
			if rapid.IntRange(0, 9).Draw(t, "final2?") == 0 {
				items[start+rapid.IntRange(0, len(hosts)-1).Draw(t, "finalpos2")].Final = true
			}
		}
	}
	if rapid.Bool().Draw(t, "default_domain?") {
		items = append(items, kc.RealmItem{Kind: "default_domain", Value: rapid.SampledFrom([]string{"example.com", "test.gokrb5", "mit.edu", "a.b"}).Draw(t, "dd")})
	}
	for i, n := 0, rapid.IntRange(0, 2).Draw(t, "unknownkeys"); i < n; i++ {
		kv := rapid.SampledFrom(unknownRealmKeys).Draw(t, "unk")
		items = append(items, kc.RealmItem{Kind: "unknown", Key: kv[0], Value: kv[1]})
	}
	if !o.noBlocks {
		nb := 0
		switch rapid.IntRange(0, 5).Draw(t, "blocks") {
		case 3, 4:
			nb = 1
		case 5:
			nb = 2
		}
		for i := 0; i < nb; i++ {
			items = append(items, kc.RealmItem{Kind: "block", Key: rapid.SampledFrom(blockKeys).Draw(t, "blockkey"), Block: genBlockLines(t, 1)})
		}
	}
	if len(items) > 1 {
		items = rapid.Permutation(items).Draw(t, "itemorder")
	}
	r.Items = items
	return r
}

func genDomain(t *rapid.T) string {
	d := rapid.StringMatching(`[a-z]{1,5}(\.[a-z]{1,5}){0,3}`).Draw(t, "dom")
	if rapid.IntRange(0, 4).Draw(t, "dot") < 3 {
		d = "." + d
	}
	return d
}

func genOtherLines(t *rapid.T, depth int) []kc.Line {
	n := rapid.IntRange(0, 4).Draw(t, "otherlines")
	out := []kc.Line{}
	for i := 0; i < n; i++ {
		if depth < 2 && rapid.IntRange(0, 3).Draw(t, "otherblock") == 0 {
			out = append(out, kc.Line{Key: rapid.SampledFrom([]string{"pam", "EXAMPLE.COM", "kinit", "ldap"}).Draw(t, "obk"), IsBlock: true, Sub: genOtherLines(t, depth+1)})
			continue
		}
		kv := rapid.SampledFrom(otherLines).Draw(t, "okv")
		out = append(out, kc.Line{Key: kv[0], Value: kv[1]})
	}
	return out
}

func genModel(t *rapid.T, o genOpts) kc.Model {
	var m kc.Model
	keys := kc.SortedLibKeys()
	var chosen []string
	switch mode := rapid.IntRange(0, 9).Draw(t, "libmode"); {
	case mode == 0:
	case mode == 1:
		chosen = rapid.Permutation(keys).Draw(t, "allkeys")
	default:
		chosen = rapid.SliceOfNDistinct(rapid.SampledFrom(keys), 0, 14, rapid.ID[string]).Draw(t, "keys")
	}
	for _, k := range chosen {
		m.Lib = append(m.Lib, genLibEntry(t, k))
	}
	for i, n := 0, rapid.IntRange(0, 2).Draw(t, "unknownlib"); i < n; i++ {
		kv := rapid.SampledFrom(unknownLibKeys).Draw(t, "unklib")
		pos := rapid.IntRange(0, len(m.Lib)).Draw(t, "unklibpos")
		m.Lib = append(m.Lib[:pos], append([]kc.LibEntry{unknownEntry(kv[0], kv[1])}, m.Lib[pos:]...)...)
	}

	minRealms := 0
	if o.needRealm || o.needBlock || o.lookups {
		minRealms = 1
	}
	names := rapid.SliceOfNDistinct(rapid.OneOf(rapid.SampledFrom(realmPool), rapid.StringMatching(`[A-Z][A-Z0-9]{0,5}(\.[A-Z]{1,4}){0,2}`)), minRealms, 4, rapid.ID[string]).Draw(t, "realms")
	for _, n := range names {
		m.Realms = append(m.Realms, genRealm(t, n, o))
	}
	if o.needBlock {
		has := false
		for _, it := range m.Realms[0].Items {
			if it.Kind == "block" {
				has = true
			}
		}
		if !has {
			pos := rapid.IntRange(0, len(m.Realms[0].Items)).Draw(t, "blockpos")
			b := kc.RealmItem{Kind: "block", Key: "auth_to_local_names", Block: genBlockLines(t, 1)}
			its := m.Realms[0].Items
			m.Realms[0].Items = append(its[:pos:pos], append([]kc.RealmItem{b}, its[pos:]...)...)
		}
	}

	doms := rapid.SliceOfNDistinct(rapid.Custom(genDomain), 0, 8, rapid.ID[string]).Draw(t, "domains")
	rp := append([]string{}, realmPool...)
	rp = append(rp, names...)
	for _, d := range doms {
		m.Domains = append(m.Domains, kc.Mapping{Domain: d, Realm: rapid.SampledFrom(rp).Draw(t, "maprealm")})
	}
	if len(m.Domains) >= 2 && rapid.IntRange(0, 3).Draw(t, "splitdomains") == 0 {
		m.DomainSplit = rapid.IntRange(1, len(m.Domains)-1).Draw(t, "splitat") // [domain_realm] in two occurrences
	}

	on := rapid.SliceOfNDistinct(rapid.SampledFrom(otherSections), 0, 2, rapid.ID[string]).Draw(t, "othersections")
	for _, n := range on {
		m.Other = append(m.Other, kc.Section{Name: n, Lines: genOtherLines(t, 0)})
	}

	order := append([]string{}, on...)
	if len(m.Lib) > 0 || o.needLibSection || rapid.IntRange(0, 3).Draw(t, "emptylib") == 0 {
		order = append(order, "libdefaults")
	}
	if len(m.Realms) > 0 || o.needRealmsSection || rapid.IntRange(0, 3).Draw(t, "emptyrealms") == 0 {
		order = append(order, "realms")
	}
	if len(m.Domains) > 0 || o.needDomainSection || rapid.IntRange(0, 3).Draw(t, "emptydomains") == 0 {
		order = append(order, "domain_realm")
	}
	if len(order) > 1 {
		order = rapid.Permutation(order).Draw(t, "sectionorder")
	}
	m.Order = order
	return m
}

// ---------------------------------------------------------------------------------------------
// invalid files

var noEqLib = []string{"forwardable true", "forwardable", "default_realm EXAMPLE.COM", "ticket_lifetime 24h", "xyz"}
var noEqRealm = []string{"kdc kerberos.example.com", "kdc", "admin_server:749", "kerberos.example.com"}
var noEqDomain = []string{".example.com EXAMPLE.COM", ".example.com", "example.com:EXAMPLE.COM"}
var badBools = []string{"maybe", "2", "tru", "yess", "-1", "enabled"}
var badDurs = []string{"abc", "1x", "1:2:3:4", "12:xx", "h", "1h2x", "ten", "1h2d"}
var badInts = []string{"abc", "1.5", "12abc", "four"}
var badIntLists = []string{"17, x", "abc", "17,,y"}

var invalidKinds = []string{"libdefaults-no-equals", "realm-line-no-equals", "domain-line-no-equals", "unpaired-close", "unpaired-close-in-realm",
	"unterminated-realm", "unterminated-nested-block", "nested-line-no-equals", "unparsable-boolean", "unparsable-duration", "unparsable-integer", "unparsable-integer-list"}

func dropLibKey(m *kc.Model, key string) {
	out := m.Lib[:0:0]
	for _, e := range m.Lib {
		if e.Key != key {
			out = append(out, e)
		}
	}
	m.Lib = out
}

// makeInvalid builds the model requirements and the defect for a kind; pick chooses among n.
func invalidOpts(kind string) genOpts {
	switch kind {
	case "realm-line-no-equals", "unterminated-realm", "unpaired-close-in-realm":
		return genOpts{needRealm: true}
	case "unterminated-nested-block", "nested-line-no-equals":
		return genOpts{needBlock: true}
	case "unpaired-close":
		return genOpts{needRealmsSection: true}
	case "domain-line-no-equals":
		return genOpts{needDomainSection: true}
	}
	return genOpts{needLibSection: true}
}

func makeInject(kind string, m *kc.Model, pick func(n int) int) *kc.Inject {
	at := pick(24)
	valueLine := func(keys, vals []string) *kc.Inject {
		k := keys[pick(len(keys))]
		dropLibKey(m, k)
		return &kc.Inject{Kind: kind, Op: "insert", Section: "libdefaults", Realm: -1, At: at, Line: k + " = " + vals[pick(len(vals))]}
	}
	switch kind {
	case "libdefaults-no-equals":
		return &kc.Inject{Kind: kind, Op: "insert", Section: "libdefaults", Realm: -1, At: at, Line: noEqLib[pick(len(noEqLib))]}
	case "realm-line-no-equals":
		return &kc.Inject{Kind: kind, Op: "insert", Section: "realms", Realm: pick(len(m.Realms)), At: at, Line: noEqRealm[pick(len(noEqRealm))]}
	case "domain-line-no-equals":
		return &kc.Inject{Kind: kind, Op: "insert", Section: "domain_realm", Realm: -1, At: at, Line: noEqDomain[pick(len(noEqDomain))]}
	case "unpaired-close":
		return &kc.Inject{Kind: kind, Op: "insert", Section: "realms", Realm: -1, At: at, Line: "}"}
	case "unpaired-close-in-realm":
		return &kc.Inject{Kind: kind, Op: "insert", Section: "realms", Realm: pick(len(m.Realms)), At: at, Line: "}"}
	case "unterminated-realm":
		return &kc.Inject{Kind: kind, Op: "drop-close", Realm: pick(len(m.Realms))}
	case "unterminated-nested-block":
		return &kc.Inject{Kind: kind, Op: "drop-close", Realm: 0, Nested: true}
	case "nested-line-no-equals":
		return &kc.Inject{Kind: kind, Op: "insert", Section: "realms", Realm: 0, At: at, Nested: true, Line: noEqRealm[pick(len(noEqRealm))]}
	case "unparsable-boolean":
		return valueLine(keysOfKind("bool"), badBools)
	case "unparsable-duration":
		return valueLine(keysOfKind("dur"), badDurs)
	case "unparsable-integer":
		return valueLine(keysOfKind("int"), badInts)
	case "unparsable-integer-list":
		return valueLine(keysOfKind("ints"), badIntLists)
	}
	panic("bad invalid kind " + kind)
}

func genInvalid(t *rapid.T) Case {
	kind := rapid.SampledFrom(invalidKinds).Draw(t, "defect")
	o := invalidOpts(kind)
	if kind != "unterminated-nested-block" {
		o.noBlocks = rapid.IntRange(0, 3).Draw(t, "blocks-too") != 0
	}
	m := genModel(t, o)
	inj := makeInject(kind, &m, func(n int) int { return rapid.IntRange(0, n-1).Draw(t, "pick") })
	return Case{Kind: "invalid", Model: m, Layout: genLayout(t), Inject: inj}
}

// ---------------------------------------------------------------------------------------------
// fixed building blocks for the enumerations

func seedLayout(seed uint64, label string) []int {
	b := kgen.DetBytes(seed, "c16/layout/"+label, 48)
	out := make([]int, len(b))
	for i, x := range b {
		out[i] = int(x)
		if x%3 == 0 {
			out[i] = 0
		}
	}
	return out
}

func srvItems(kind string, hosts []string, ports []int, final int) []kc.RealmItem {
	out := []kc.RealmItem{}
	for i, h := range hosts {
		out = append(out, kc.RealmItem{Kind: kind, Host: h, Port: ports[i%len(ports)], Final: i == final})
	}
	return out
}

func modelOf(lib []kc.LibEntry, realms []kc.Realm, doms []kc.Mapping) kc.Model {
	m := kc.Model{Lib: lib, Realms: realms, Domains: doms}
	if len(lib) > 0 {
		m.Order = append(m.Order, "libdefaults")
	}
	if len(realms) > 0 {
		m.Order = append(m.Order, "realms")
	}
	if len(doms) > 0 {
		m.Order = append(m.Order, "domain_realm")
	}
	return m
}

var baseLib = []kc.LibEntry{strEntry("default_realm", "EXAMPLE.COM"), boolEntry("dns_lookup_kdc", false, "false")}

func baseRealm() kc.Realm {
	return kc.Realm{Name: "EXAMPLE.COM", Items: []kc.RealmItem{{Kind: "kdc", Host: "kerberos.example.com"}, {Kind: "kdc", Host: "kerberos-1.example.com", Port: 750},
		{Kind: "admin_server", Host: "kerberos.example.com", Port: 749}, {Kind: "default_domain", Value: "example.com"}}}
}

func durGrid() []kc.Dur {
	out := []kc.Dur{}
	for _, s := range []int64{0, 1, 59, 60, 300, 3600, 36000, 86400, 604800, kc.MaxDuration} {
		out = append(out, kc.Dur{Form: "n", Parts: [4]int64{0, 0, 0, s}})
	}
	for use := 1; use <= 15; use++ {
		for _, sp := range []bool{false, true} {
			for _, p := range [][4]int64{{1, 2, 3, 4}, {0, 0, 0, 0}, {2, 30, 90, 75}, {7, 23, 59, 59}} {
				out = append(out, kc.Dur{Form: "units", Parts: p, Use: use, Space: sp})
			}
		}
	}
	for _, pad := range []bool{false, true} {
		for _, hm := range [][2]int64{{0, 0}, {0, 5}, {1, 30}, {10, 0}, {24, 0}, {36, 0}, {100, 59}, {32767, 59}, {32768, 0}, {596523, 14}} {
			out = append(out, kc.Dur{Form: "hm", Parts: [4]int64{0, hm[0], hm[1], 0}, Pad: pad})
		}
		for _, h := range [][3]int64{{0, 0, 0}, {0, 5, 0}, {1, 2, 3}, {23, 59, 59}, {32767, 59, 59}, {32768, 0, 1}, {596523, 14, 7}} {
			out = append(out, kc.Dur{Form: "hms", Parts: [4]int64{0, h[0], h[1], h[2]}, Pad: pad})
		}
	}
	return out
}

// gridCases enumerates single-feature files.
func gridCases(seed uint64, layouts int) []Case {
	var models []kc.Model
	add := func(m kc.Model) { models = append(models, m) }
	withBase := func(e ...kc.LibEntry) kc.Model {
		return modelOf(append(append([]kc.LibEntry{}, e...), boolEntry("dns_lookup_kdc", false, "no")), []kc.Realm{baseRealm()}, []kc.Mapping{{Domain: ".example.com", Realm: "EXAMPLE.COM"}})
	}
	libOnly := func(e ...kc.LibEntry) kc.Model { return modelOf(e, nil, nil) }

	// booleans: every key x every spelling (exhaustive)
	for _, k := range keysOfKind("bool") {
		for _, v := range []bool{true, false} {
			if k == "dns_lookup_kdc" && v {
				continue
			}
			for _, sp := range kc.BoolSpellings(v) {
				add(libOnly(boolEntry(k, v, sp)))
			}
		}
	}
	// durations
	for _, k := range keysOfKind("dur") {
		for _, d := range durGrid() {
			add(libOnly(durEntry(k, d)))
		}
	}
	// integers at their limits
	intLimits := map[string][]int64{"ccache_type": {1, 2, 3, 4}, "kdc_timesync": {0, 1, 2147483647}, "realm_try_domains": {-1, 0, 1, 2147483647},
		"safe_checksum_type": {0, 8, 16, 2147483647}, "udp_preference_limit": {0, 1, 1465, 32700}}
	for _, k := range keysOfKind("int") {
		for _, v := range intLimits[k] {
			add(libOnly(intEntry(k, v)))
		}
	}
	// enctype lists
	ids, names := etypeNamesByID()
	for _, k := range keysOfKind("etypes") {
		for _, id := range ids {
			for _, n := range names[id] {
				add(libOnly(etypesEntry(k, []string{n}, " ")))
				add(libOnly(boolEntry("allow_weak_crypto", true, "true"), etypesEntry(k, []string{n}, " ")))
			}
		}
		canon := []string{"aes256-cts-hmac-sha1-96", "aes128-cts-hmac-sha1-96", "arcfour-hmac-md5"}
		alias := []string{"aes256-sha2", "rc4-hmac", "aes128-cts", "des3-cbc-sha1-kd", "camellia256-cts", "des-cbc-crc", "aes128-sha2"}
		junk := []string{"aes256-cts-hmac-sha1-96", "not-an-enctype", "camellia128-cts-cmac", "arcfour-hmac"}
		for _, sep := range []string{" ", "  ", "\t", ",", ", ", " , "} {
			for _, l := range [][]string{canon, alias, junk} {
				add(libOnly(etypesEntry(k, l, sep)))
				add(libOnly(etypesEntry(k, l, sep), boolEntry("allow_weak_crypto", true, "yes")))
			}
		}
	}
	// preferred_preauth_types
	for _, sep := range []string{",", ", "} {
		for _, l := range [][]int64{{17}, {17, 16, 15, 14}, {2, 11}, {138, 2, 19, 11, 3}} {
			add(libOnly(intsEntry("preferred_preauth_types", l, sep)))
		}
	}
	// kdc_default_options, extra_addresses, strings, unknown keys
	for _, n := range []uint32{0x10, 0x40000000, 0x50800000, 0, 0xfffffffe} {
		add(libOnly(hexEntry("kdc_default_options", n, false)))
		add(libOnly(hexEntry("kdc_default_options", n, true)))
	}
	for _, l := range [][]string{{"10.0.0.1"}, {"10.0.0.1", "10.0.0.2"}, {"2001:db8::1", "10.0.0.1", "::1"}} {
		add(libOnly(ipsEntry("extra_addresses", l)))
	}
	for _, k := range keysOfKind("str") {
		for _, s := range []string{"EXAMPLE.COM", "FILE:/etc/krb5.keytab", "/home/user", "lower.case", "X"} {
			add(libOnly(strEntry(k, s)))
		}
	}
	for _, kv := range unknownLibKeys {
		add(withBase(unknownEntry(kv[0], kv[1]), strEntry("default_realm", "EXAMPLE.COM")))
	}
	// every libdefaults key at once, in sorted and reverse order
	all := []kc.LibEntry{}
	for _, k := range kc.SortedLibKeys() {
		switch kc.LibKeys[k] {
		case "bool":
			all = append(all, boolEntry(k, k != "dns_lookup_kdc" && len(k)%2 == 0, map[bool]string{true: "Yes", false: "No"}[k != "dns_lookup_kdc" && len(k)%2 == 0]))
		case "dur":
			all = append(all, durEntry(k, kc.Dur{Form: "units", Parts: [4]int64{1, 2, 3, int64(len(k))}, Use: 15}))
		case "int":
			all = append(all, intEntry(k, 3))
		case "str":
			all = append(all, strEntry(k, "VALUE-OF-"+k))
		case "etypes":
			all = append(all, etypesEntry(k, []string{"aes128-cts-hmac-sha1-96", "aes256-cts-hmac-sha384-192"}[:1+len(k)%2], " "))
		case "ints":
			all = append(all, intsEntry(k, []int64{2, 19}, ","))
		case "hex":
			all = append(all, hexEntry(k, 0x40810010, false))
		case "ips":
			all = append(all, ipsEntry(k, []string{"10.1.2.3"}))
		}
	}
	add(modelOf(all, []kc.Realm{baseRealm()}, nil))
	rev := []kc.LibEntry{}
	for i := len(all) - 1; i >= 0; i-- {
		rev = append(rev, all[i])
	}
	add(modelOf(rev, []kc.Realm{baseRealm()}, nil))

	// server lists: kind x port forms x final-marker position (exhaustive over positions)
	hosts := []string{"kdc1.example.com", "10.0.0.2", "kdc3"}
	for _, kind := range kc.ServerKinds {
		for _, ports := range [][]int{{0}, {88}, {750, 0, 464}, {0, 1088, 0}} {
			for final := -1; final < 3; final++ {
				add(modelOf(baseLib, []kc.Realm{{Name: "EXAMPLE.COM", Items: srvItems(kind, hosts, ports, final)}}, nil))
			}
		}
		for n := 0; n <= 4; n++ {
			add(modelOf(baseLib, []kc.Realm{{Name: "R", Items: srvItems(kind, []string{"h1", "h2", "h3", "h4"}[:n], []int{0, 99}, -1)}}, nil))
		}
		// IPv6 literals, with and without port
		add(modelOf(baseLib, []kc.Realm{{Name: "V6.EXAMPLE", Items: srvItems(kind, []string{"[2001:db8::1]", "[::1]"}, []int{0}, -1)}}, nil))
		add(modelOf(baseLib, []kc.Realm{{Name: "V6.EXAMPLE", Items: srvItems(kind, []string{"[2001:db8::1]", "[::1]"}, []int{88, 750}, 0)}}, nil))
	}
	// all four kinds interleaved, final markers on two of them
	mix := []kc.RealmItem{{Kind: "kdc", Host: "k1"}, {Kind: "admin_server", Host: "a1", Port: 749, Final: true}, {Kind: "kdc", Host: "k2", Port: 88, Final: true},
		{Kind: "master_kdc", Host: "m1"}, {Kind: "admin_server", Host: "a2"}, {Kind: "kdc", Host: "k3"}, {Kind: "kpasswd_server", Host: "p1", Port: 464}, {Kind: "default_domain", Value: "example.com"}}
	add(modelOf(baseLib, []kc.Realm{{Name: "MIX", Items: mix}, baseRealm()}, nil))
	for _, kv := range unknownRealmKeys {
		r := baseRealm()
		r.Items = append([]kc.RealmItem{{Kind: "unknown", Key: kv[0], Value: kv[1]}}, r.Items...)
		add(modelOf(baseLib, []kc.Realm{r}, nil))
	}
	// realm names
	for _, n := range realmPool {
		r := baseRealm()
		r.Name = n
		add(modelOf(baseLib, []kc.Realm{r, {Name: "OTHER.REALM"}}, nil))
	}
	// two realms whose names differ only in letter case, each with its own servers, in both orders
	for _, pair := range [][2]string{{"EXAMPLE.COM", "example.com"}, {"Mixed.Case.Org", "MIXED.CASE.ORG"}, {"A", "a"}} {
		r1, r2 := baseRealm(), baseRealm()
		r1.Name, r2.Name = pair[0], pair[1]
		r2.Items = []kc.RealmItem{{Kind: "kdc", Host: "kdc.of.the.other.spelling.test", Port: 1088}, {Kind: "kpasswd_server", Host: "kpw.of.the.other.spelling.test", Port: 1464}}
		add(modelOf(baseLib, []kc.Realm{r1, r2}, nil))
		add(modelOf(baseLib, []kc.Realm{r2, r1}, nil))
	}

	// nested blocks: at every position of a realm, depth 1 and 2, harmless and shadowing contents
	blocks := [][]kc.Line{
		{},
		{{Key: "user1", Value: "localuser"}},
		{{Key: "kdc", Value: "evil.example.com:88"}, {Key: "admin_server", Value: "evil.example.com*"}, {Key: "default_domain", Value: "wrong.domain"}},
		{{Key: "inner", IsBlock: true, Sub: []kc.Line{{Key: "kdc", Value: "evil.example.com"}}}, {Key: "guest", Value: "nobody"}},
		{{Key: "inner", IsBlock: true}},
	}
	for bi, bl := range blocks {
		for _, key := range []string{"auth_to_local_names", "x_names"} {
			for pos := 0; pos <= 4; pos++ {
				r := baseRealm()
				its := append([]kc.RealmItem{}, r.Items[:pos]...)
				its = append(its, kc.RealmItem{Kind: "block", Key: key, Block: bl})
				r.Items = append(its, r.Items[pos:]...)
				add(modelOf(baseLib, []kc.Realm{r}, nil))
				if bi == 1 && pos == 1 {
					add(modelOf(baseLib, []kc.Realm{{Name: "FIRST"}, r, baseRealm2()}, []kc.Mapping{{Domain: ".example.com", Realm: "EXAMPLE.COM"}}))
				}
			}
		}
	}
	two := baseRealm()
	two.Items = append([]kc.RealmItem{{Kind: "block", Key: "auth_to_local_names", Block: blocks[1]}}, append(two.Items, kc.RealmItem{Kind: "block", Key: "x_names", Block: blocks[3]})...)
	add(modelOf(baseLib, []kc.Realm{two}, nil))

	// domain_realm forms
	add(modelOf(baseLib, nil, []kc.Mapping{{Domain: ".example.com", Realm: "EXAMPLE.COM"}, {Domain: "example.com", Realm: "EXAMPLE.COM"}, {Domain: "host.example.com", Realm: "OTHER.REALM"}, {Domain: ".b", Realm: "lowercase.org"}, {Domain: "single", Realm: "X"}}))

	// unknown sections (with relations that shadow known ones, and nested blocks) in every section order
	other := []kc.Section{{Name: "logging", Lines: []kc.Line{{Key: "kdc", Value: "FILE:/var/log/krb5kdc.log"}, {Key: "default_realm", Value: "WRONG.REALM"}, {Key: "forwardable", Value: "maybe"}}},
		{Name: "appdefaults", Lines: []kc.Line{{Key: "pam", IsBlock: true, Sub: []kc.Line{{Key: "ticket_lifetime", Value: "36000"}, {Key: "EXAMPLE.COM", IsBlock: true, Sub: []kc.Line{{Key: "kdc", Value: "evil"}}}}}, {Key: ".example.com", Value: "WRONG.REALM"}}}}
	secs := []string{"libdefaults", "realms", "domain_realm", "logging", "appdefaults"}
	permute(secs, func(o []string) {
		m := withBase(boolEntry("forwardable", true, "true"), durEntry("ticket_lifetime", kc.Dur{Form: "units", Parts: [4]int64{0, 10, 0, 0}, Use: 4}))
		m.Other = other
		m.Order = append([]string{}, o...)
		add(m)
	})
	// empty known sections
	add(kc.Model{Order: []string{"libdefaults", "realms", "domain_realm"}})
	add(kc.Model{Order: []string{"realms", "libdefaults"}, Lib: baseLib})
	add(kc.Model{Order: []string{"domain_realm", "realms", "logging", "libdefaults"}, Lib: baseLib, Realms: []kc.Realm{baseRealm()}, Other: []kc.Section{{Name: "logging"}}})
	add(kc.Model{})

	out := make([]Case, 0, 2*len(models))
	for i, m := range models {
		out = append(out, Case{Kind: "load", Model: m})
		for k := 0; k < layouts; k++ {
			out = append(out, Case{Kind: "load", Model: m, Layout: seedLayout(seed, fmt.Sprint("grid/", i, "/", k))})
		}
	}
	return out
}

func baseRealm2() kc.Realm {
	return kc.Realm{Name: "LAST.REALM", Items: []kc.RealmItem{{Kind: "kdc", Host: "last.example.org", Port: 88}}}
}

func permute(s []string, f func([]string)) {
	var rec func(k int)
	rec = func(k int) {
		if k == len(s) {
			f(s)
			return
		}
		for i := k; i < len(s); i++ {
			s[k], s[i] = s[i], s[k]
			rec(k + 1)
			s[k], s[i] = s[i], s[k]
		}
	}
	rec(0)
}

// invalidGrid: every defect kind x a few fixed models x positions, canonical and seeded layouts.
func invalidGrid(seed uint64) []Case {
	blockRealm := baseRealm()
	blockRealm.Items = append(blockRealm.Items[:1:1], append([]kc.RealmItem{{Kind: "block", Key: "auth_to_local_names", Block: []kc.Line{{Key: "user1", Value: "localuser"}}}}, blockRealm.Items[1:]...)...)
	base := func(kind string) kc.Model {
		lib := []kc.LibEntry{strEntry("default_realm", "EXAMPLE.COM"), boolEntry("dns_lookup_kdc", false, "false"), boolEntry("rdns", false, "no")}
		realms := []kc.Realm{baseRealm(), baseRealm2()}
		if kind == "unterminated-nested-block" || kind == "nested-line-no-equals" {
			realms = []kc.Realm{blockRealm, baseRealm2()}
		}
		m := modelOf(lib, realms, []kc.Mapping{{Domain: ".example.com", Realm: "EXAMPLE.COM"}, {Domain: "example.com", Realm: "EXAMPLE.COM"}})
		return m
	}
	var out []Case
	for _, kind := range invalidKinds {
		for k := 0; k < 12; k++ {
			ctr := 0
			pick := func(n int) int {
				b := kgen.DetBytes(seed, fmt.Sprintf("c16/inv/%s/%d/%d", kind, k, ctr), 2)
				ctr++
				return (int(b[0])<<8 | int(b[1])) % n
			}
			m := base(kind)
			if k >= 8 { // section orders other than the usual one
				m.Order = [][]string{{"realms", "libdefaults", "domain_realm"}, {"domain_realm", "realms", "libdefaults"}, {"realms", "domain_realm", "libdefaults"}, {"libdefaults", "domain_realm", "realms"}}[k-8]
			}
			inj := makeInject(kind, &m, pick)
			c := Case{Kind: "invalid", Model: m, Inject: inj}
			if k%2 == 1 {
				c.Layout = seedLayout(seed, fmt.Sprintf("inv/%s/%d", kind, k))
			}
			out = append(out, c)
		}
	}
	return out
}

// ---------------------------------------------------------------------------------------------
// resolution

var resolveUniverse = []string{".b", ".a.b", ".b.a.b", ".a.b.a.b", "a.b", "b.a.b", ".a"}

// seededUniverse builds a 7-mapping universe as a pure function of (seed, k): the chain of dotted
// suffixes of a seeded depth-4 name over {a,b} (so that several mappings match one host), two exact
// host names on that chain, and two further names drawn from all names of depth <= 3.
func seededUniverse(seed uint64, k int) []string {
	b := kgen.DetBytes(seed, fmt.Sprint("c16/universe/", k), 64)
	l := make([]string, 4)
	for i := range l {
		l[i] = string(rune('a' + b[i]%2))
	}
	out := []string{"." + l[3], "." + l[2] + "." + l[3], "." + l[1] + "." + l[2] + "." + l[3], l[1] + "." + l[2] + "." + l[3], strings.Join(l, ".")}
	have := map[string]bool{}
	for _, o := range out {
		have[o] = true
	}
	pool := []string{}
	for _, h := range hostsOver([]string{"a", "b"}, 3) {
		for _, c := range []string{h, "." + h} {
			if !have[c] {
				pool = append(pool, c)
			}
		}
	}
	for i := 4; len(out) < 7; i++ {
		j := int(b[i]) % len(pool)
		out = append(out, pool[j])
		pool = append(pool[:j], pool[j+1:]...)
	}
	return out
}

func hostsOver(labels []string, depth int) []string {
	var out []string
	var rec func(prefix string, d int)
	rec = func(prefix string, d int) {
		if d > 0 {
			out = append(out, prefix)
		}
		if d == depth {
			return
		}
		for _, l := range labels {
			if d == 0 {
				rec(l, 1)
			} else {
				rec(l+"."+prefix, d+1)
			}
		}
	}
	rec("", 0)
	return out
}

func resolveCases(universe []string) []Case {
	hosts := hostsOver([]string{"a", "b"}, 5)
	var out []Case
	for mask := 0; mask < 1<<uint(len(universe)); mask++ {
		var doms []kc.Mapping
		for i, d := range universe {
			if mask&(1<<uint(i)) != 0 {
				doms = append(doms, kc.Mapping{Domain: d, Realm: fmt.Sprintf("REALM%d", i)})
			}
		}
		m := kc.Model{Order: []string{"domain_realm"}, Domains: doms}
		for _, h := range hosts {
			out = append(out, Case{Kind: "resolve", Model: m, Host: h}, Case{Kind: "resolve", Model: m, Host: h + "."})
		}
	}
	return out
}

func genResolve(t *rapid.T) Case {
	labels := rapid.SliceOfN(rapid.SampledFrom([]string{"a", "b", "c", "www", "example", "com"}), 1, 6).Draw(t, "labels")
	host := strings.Join(labels, ".")
	cand := []string{}
	for i := range labels {
		s := strings.Join(labels[i:], ".")
		cand = append(cand, "."+s, s)
	}
	cand = append(cand, ".a", ".com", "b.c", ".c.a", "www.example.com", ".example.com", "example.com")
	doms := rapid.SliceOfNDistinct(rapid.SampledFrom(cand), 0, 8, rapid.ID[string]).Draw(t, "mappings")
	m := kc.Model{Order: []string{"domain_realm"}}
	for i, d := range doms {
		m.Domains = append(m.Domains, kc.Mapping{Domain: d, Realm: fmt.Sprintf("REALM%d", i)})
	}
	if rapid.Bool().Draw(t, "withlib") {
		m.Lib = baseLib
		m.Order = []string{"libdefaults", "domain_realm"}
		if rapid.Bool().Draw(t, "libafter") {
			m.Order = []string{"domain_realm", "libdefaults"}
		}
	}
	if len(m.Domains) >= 2 && rapid.IntRange(0, 2).Draw(t, "splitdomains") == 0 {
		m.DomainSplit = rapid.IntRange(1, len(m.Domains)-1).Draw(t, "splitat")
	}
	if rapid.IntRange(0, 3).Draw(t, "dot") == 0 {
		host += "."
	}
	return Case{Kind: "resolve", Model: m, Host: host, Layout: genLayout(t)}
}

// ---------------------------------------------------------------------------------------------
// lookups

func lookupGrid() []Case {
	var out []Case
	hosts := []string{"kdc1.example.com", "10.0.0.2", "kdc3", "kdc4.example.com"}
	for n := 0; n <= 4; n++ {
		for _, ports := range [][]int{{0}, {88}, {750, 0}} {
			for final := -1; final < n; final++ {
				for adm := 0; adm <= 2; adm++ {
					for kp := 0; kp <= 2; kp++ {
						its := srvItems("kdc", hosts[:n], ports, final)
						its = append(its, srvItems("admin_server", []string{"adm1.example.com", "adm2"}[:adm], []int{749, 0}, -1)...)
						its = append(its, srvItems("kpasswd_server", []string{"kp1.example.com", "kp2"}[:kp], []int{464, 4464}, -1)...)
						m := modelOf(baseLib, []kc.Realm{{Name: "EXAMPLE.COM", Items: its}, baseRealm2(), {Name: "EMPTY.REALM"}}, nil)
						out = append(out, Case{Kind: "lookup", Model: m, Reps: 24})
					}
				}
			}
		}
	}
	// two realms whose names differ only in letter case, each with its own servers, in both orders, alone and as default realm
	for _, pair := range [][2]string{{"EXAMPLE.COM", "example.com"}, {"Mixed.Case.Org", "MIXED.CASE.ORG"}, {"A", "a"}, {"corp.example", "Corp.Example"}} {
		r1 := kc.Realm{Name: pair[0], Items: append(srvItems("kdc", hosts[:2], []int{88, 0}, -1), srvItems("kpasswd_server", []string{"kp1.example.com"}, []int{464}, -1)...)}
		r2 := kc.Realm{Name: pair[1], Items: append(srvItems("kdc", []string{"kdc.of.the.other.spelling.test"}, []int{1088}, -1), srvItems("admin_server", []string{"adm.of.the.other.spelling.test"}, []int{0}, -1)...)}
		for _, rs := range [][]kc.Realm{{r1, r2}, {r2, r1}, {r1, baseRealm2(), r2}} {
			for _, def := range []string{pair[0], pair[1]} {
				lib := append([]kc.LibEntry{}, baseLib...)
				for i := range lib {
					if lib[i].Key == "default_realm" {
						lib[i] = strEntry("default_realm", def)
					}
				}
				out = append(out, Case{Kind: "lookup", Model: modelOf(lib, rs, nil), Reps: 24})
			}
		}
	}
	// default_realm spelt in another letter case than the configured realm it resembles: GetKDCs("") finds nothing
	for _, pair := range [][2]string{{"other.org", "OTHER.ORG"}, {"EXAMPLE.COM", "example.com"}, {"Corp.Example", "CORP.EXAMPLE"}} {
		lib := append([]kc.LibEntry{}, baseLib...)
		for i := range lib {
			if lib[i].Key == "default_realm" {
				lib[i] = strEntry("default_realm", pair[0])
			}
		}
		r1 := kc.Realm{Name: pair[1], Items: srvItems("kdc", hosts[:2], []int{88, 0}, -1)}
		out = append(out, Case{Kind: "lookup", Model: modelOf(lib, []kc.Realm{r1, baseRealm2()}, nil), Reps: 24})
	}
	return out
}
