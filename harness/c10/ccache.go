package c10

import (
	"encoding/binary"
	"fmt"
	"io"
	"log"
	"strings"

	"github.com/jcmturner/gokrb5/v8/client"
	"github.com/jcmturner/gokrb5/v8/credentials"

	cf "verif/harness/ref/ccachefmt"
	"verif/harness/sim/kdc"
)

// reloadFromCCache writes what the KDCs issued to the client so far into a version-4 credential cache image (the latest TGT
// of the client's realm first, then the latest ticket of every other server) and builds a client from it.
func reloadFromCCache(w *World) (*client.Client, error) {
	def := cf.Principal{NameType: 1, Realm: RealmName(0), Comps: []string{"alice"}}
	latest := map[string]kdc.Issued{}
	var order []string
	for _, is := range w.IssuedAll() {
		if is.CName != "alice" {
			continue
		}
		if _, ok := latest[is.SName]; !ok {
			order = append(order, is.SName)
		}
		if old, ok := latest[is.SName]; !ok || !is.At.Before(old.At) {
			latest[is.SName] = is
		}
	}
	tgtName := "krbtgt/" + RealmName(0)
	if _, ok := latest[tgtName]; !ok {
		return nil, fmt.Errorf("no TGT has been issued yet")
	}
	file := &cf.File{Version: 4, Header: []cf.HeaderField{cf.KDCOffsetField(0, 0)}, Default: def}
	add := func(is kdc.Issued) {
		renew := is.RenewTill
		if renew.IsZero() {
			renew = is.End
		}
		nt := int32(2)
		file.Creds = append(file.Creds, cf.Credential{Client: def, Server: cf.Principal{NameType: nt, Realm: is.Realm, Comps: strings.Split(is.SName, "/")}, KeyType: int16(is.Session.EType), Key: is.Session.Value,
			AuthTime: int32(is.Start.Unix()), StartTime: int32(is.Start.Unix()), EndTime: int32(is.End.Unix()), RenewTill: int32(renew.Unix()), Flags: is.Flags, Addrs: []cf.Typed{}, AuthData: []cf.Typed{},
			Ticket: is.Ticket, SecondTicket: []byte{}})
	}
	add(latest[tgtName])
	for _, n := range order {
		if n != tgtName && !strings.HasPrefix(n, "krbtgt/") {
			add(latest[n])
		}
	}
	fb, err := cf.Marshal(file, binary.NativeEndian)
	if err != nil {
		return nil, err
	}
	cc := new(credentials.CCache)
	if err := cc.Unmarshal(fb); err != nil {
		return nil, fmt.Errorf("gokrb5 cannot read the cache image: %v", err)
	}
	return client.NewFromCCache(cc, w.Cfg, client.DisablePAFXFAST(true), client.Logger(log.New(io.Discard, "", 0)))
}
