// C10 — tickets obtained and cached by the client are the right ones and still valid.
package c10

import (
	"bytes"
	"fmt"
	"os"
	"reflect"
	"sort"
	"strings"
	"sync"
	"testing"
	"time"

	"github.com/jcmturner/gokrb5/v8/messages"
	"github.com/jcmturner/gokrb5/v8/types"
	"pgregory.net/rapid"

	"verif/harness/evid"
	ref "verif/harness/ref/krbcrypto"
	"verif/harness/refcheck"
	"verif/harness/sim/kdc"
)

// Op is one client operation.
type Op struct {
	K   string `json:"k"`             // login | ticket | cached | wait | destroy | affirm
	SPN int    `json:"spn,omitempty"` // index into the SPN pool
	Ms  int    `json:"ms,omitempty"`
}

// Case is a configuration and a history.
type Case struct {
	Spec Spec `json:"spec"`
	Ops  []Op `json:"ops"`
}

type gotTicket struct {
	t messages.Ticket
	k types.EncryptionKey
}

const maxTGSPerCall = 16 // two chains (cross-realm TGT acquisition, then the service ticket) of at most 7 requests each, plus a renewal; the observed maximum is recorded in the evidence

var maxObserved struct {
	sync.Mutex
	n int
}

// Eval runs the history and checks the invariants.
func Eval(c Case) evid.Verdict {
	return evid.SafeEval(func() evid.Verdict {
		w, err := Build(&c.Spec)
		if err != nil {
			return evid.Fail("harness", "build: %v", err)
		}
		defer w.Stop()
		cfgBefore := DeepCopyConfig(w.Cfg)
		cl := w.NewClient()
		defer cl.Destroy()
		var trace []string
		tr := func(f string, a ...any) { trace = append(trace, fmt.Sprintf(f, a...)) }
		t0 := time.Now()
		ctx := func() string {
			var kl []string
			for _, is := range w.IssuedAll() {
				kl = append(kl, fmt.Sprintf("%6dms %s issued %s for %s (asked %s) valid %s..%s renew-till %s", is.At.Sub(t0).Milliseconds(), is.Realm, is.Kind, is.SName, is.ReqSName, is.Start.Format("05"), is.End.Format("05"), is.RenewTill.Format("05")))
			}
			for _, sn := range w.SeenAll() {
				kl = append(kl, fmt.Sprintf("%6dms %s received %s %v", sn.At.Sub(t0).Milliseconds(), sn.Realm, sn.Kind, sn.Problems))
			}
			sort.Strings(kl)
			return "\n kdc log (t0 second " + t0.UTC().Format("05.000") + "):\n  " + strings.Join(kl, "\n  ") + fmt.Sprintf("\n config: cred=%s etypes=%v preauth=%s salted=%v hops=%d via=%s renew_lifetime=%q ticket_lifetime=%q fwd=%v prox=%v canon=%v noaddr=%v tgt_lives=%v svc_lives=%v\n history:\n  %s",
				c.Spec.Cred, c.Spec.ETypes, c.Spec.Preauth, c.Spec.Salted, c.Spec.Hops, c.Spec.Via, c.Spec.RenewLife, c.Spec.TicketLife, c.Spec.Fwd, c.Spec.Prox, c.Spec.Canon, c.Spec.NoAddr, c.Spec.TGTLives, c.Spec.SvcLives, strings.Join(trace, "\n  "))
		}
		loggedIn, destroyed := false, false
		countTGS := func() int {
			n := 0
			for _, s := range w.SeenAll() {
				if s.Kind == "TGS" {
					n++
				}
			}
			return n
		}
		issuedFor := func(spn string) int {
			n := 0
			for _, is := range w.IssuedAll() {
				if is.SName == spn {
					n++
				}
			}
			return n
		}
		for _, op := range c.Ops {
			if destroyed {
				break
			}
			switch op.K {
			case "wait":
				time.Sleep(time.Duration(op.Ms) * time.Millisecond)
				tr("wait %d ms", op.Ms)
			case "reload-ccache":
				// the client's tickets go through a credential cache file (as after kinit / a restart): the latest TGT and the latest
				// ticket of every service, with the times the KDC gave them, written by the independent writer; the history goes on
				// with a client built from that cache
				ncl, err := reloadFromCCache(w)
				tr("reload-ccache -> %v", err)
				if err != nil {
					return evid.Fail("harness", "reload through a credential cache: %v%s", err, ctx())
				}
				old := cl
				cl = ncl
				old.Destroy()
				defer ncl.Destroy()
				loggedIn = true
			case "login", "affirm":
				var err error
				done := make(chan struct{})
				go func() {
					if op.K == "login" {
						err = cl.Login()
					} else {
						err = cl.AffirmLogin()
					}
					close(done)
				}()
				select {
				case <-done:
				case <-time.After(40 * time.Second):
					return evid.Fail("no-return:"+op.K, "%s did not return within 40 s%s", op.K, ctx())
				}
				tr("%s -> %v", op.K, err)
				if err != nil {
					// against a conformant KDC that knows the client, login must obtain a TGT (I3)
					return evid.Fail("login-failed:"+loginClass(c.Spec, err), "%s failed against a conformant KDC: %v%s", op.K, err, ctx())
				}
				loggedIn = true
				found := false
				for _, is := range w.Realms[0].SnapshotIssued() {
					if is.SName == "krbtgt/"+RealmName(0) && is.CName == "alice" {
						found = true
					}
				}
				if !found {
					return evid.Fail("login-without-tgt", "%s reported success but the KDC never issued a TGT for the client's realm%s", op.K, ctx())
				}
			case "ticket", "cached":
				spn := c.Spec.SPN(op.SPN)
				w.W.TGSLimit = 40 // the KDCs break an endless referral chase so that it can be judged
				w.W.TGSCount.Store(0)
				before := time.Now()
				tgs0, iss0 := countTGS(), issuedFor(spn)
				type res struct {
					ok  bool
					err error
				}
				done := make(chan res, 1)
				var gotTkt = make(chan gotTicket, 1)
				go func() {
					if op.K == "cached" {
						t, k, ok := cl.GetCachedTicket(spn)
						gotTkt <- gotTicket{t, k}
						done <- res{ok, nil}
						return
					}
					t, k, err := cl.GetServiceTicket(spn)
					gotTkt <- gotTicket{t, k}
					done <- res{err == nil, err}
				}()
				var rs res
				select {
				case rs = <-done:
				case <-time.After(60 * time.Second):
					return evid.Fail("no-return:ticket", "GetServiceTicket(%s) did not return within 60 s%s", spn, ctx())
				}
				after := time.Now()
				g := <-gotTkt
				tgsN := countTGS() - tgs0
				maxObserved.Lock()
				if tgsN > maxObserved.n {
					maxObserved.n = tgsN
				}
				maxObserved.Unlock()
				tr("%s(%s) -> ok=%v err=%v (%d TGS requests)", op.K, spn, rs.ok, rs.err, tgsN)
				if tgsN > maxTGSPerCall {
					return evid.Fail("referral-bound", "one service-ticket request caused %d TGS requests (bound %d)%s", tgsN, maxTGSPerCall, ctx())
				}
				if !rs.ok {
					if op.K == "cached" {
						continue
					}
					if op.SPN == 4 {
						continue // unknown service: an error is the right answer
					}
					if c.Spec.Hops > 4 {
						continue // beyond the client's referral bound: an error is admissible
					}
					if c.Spec.Loop && c.Spec.Hops >= 1 && op.SPN == 2 {
						continue // the KDCs refer the client in a circle: an error (after a bounded number of requests) is the right answer
					}
					if !loggedIn {
						// GetServiceTicket logs in on demand; a failure is still a failure to obtain a ticket
					}
					if ticketClass(c, rs.err) == "expired-ticket-presented" {
						// With lifetimes of a couple of seconds a ticket can expire between the client's validity test and
						// the KDC's (scheduling delays under load): judged only when the presented ticket had clearly expired
						// before the call began.
						ago := int64(-1)
						for _, sn := range w.SeenAll() {
							for _, p := range sn.Problems {
								var ms int64
								if n, _ := fmt.Sscanf(p, "presented ticket has expired %d ms ago", &ms); n == 1 && sn.At.After(before) {
									ago = ms
								}
							}
						}
						if ago < 1500+after.Sub(before).Milliseconds() {
							tr("  (expired %d ms before the KDC looked at it: within scheduling tolerance, not judged)", ago)
							continue
						}
					}
					return evid.Fail("ticket-failed:"+ticketClass(c, rs.err), "GetServiceTicket(%s) failed although the KDC would issue the ticket: %v%s", spn, rs.err, ctx())
				}
				if op.SPN == 4 {
					return evid.Fail("ticket-for-unknown-service", "a ticket was returned for a service no KDC knows%s", ctx())
				}
				is, why := w.FindIssued(g.t, g.k)
				if why != "" {
					return evid.Fail("pair-not-issued", "%s(%s): %s%s", op.K, spn, why, ctx())
				}
				if is.SName != spn {
					return evid.Fail("ticket-for-other-service", "%s(%s) returned a ticket the KDC issued for %s%s", op.K, spn, is.SName, ctx())
				}
				if is.CName != "alice" || is.CRealm != RealmName(0) {
					return evid.Fail("ticket-for-other-client", "returned ticket was issued to %s@%s%s", is.CName, is.CRealm, ctx())
				}
				fromCache := issuedFor(spn) == iss0
				if fromCache {
					// I2: served from the cache only while inside its validity period (times as the KDC issued them)
					if !is.Start.Before(after) || !is.End.After(before) {
						return evid.Fail("cache-served-invalid", "%s(%s) was served from the cache at %s..%s but the ticket is valid %s..%s%s", op.K, spn,
							before.UTC().Format("15:04:05.000"), after.UTC().Format("15:04:05.000"), is.Start.Format("15:04:05"), is.End.Format("15:04:05"), ctx())
					}
				}
				if !fromCache {
					// the call made the KDC issue a ticket for this service: a ticket that had already ended before the call
					// began must not be handed back in its place
					var latest *kdc.Issued
					for _, x := range w.IssuedAll() {
						x := x
						if x.SName == spn && (latest == nil || x.At.After(latest.At)) {
							latest = &x
						}
					}
					if latest != nil && !bytes.Equal(latest.Ticket, is.Ticket) && is.End.Before(before) && latest.End.After(after) {
						return evid.Fail("returned-superseded-ticket", "%s(%s) made the KDC issue a ticket valid until %s but returned the earlier one, which had ended at %s, before the call began (%s)%s", op.K, spn,
							latest.End.Format("15:04:05"), is.End.Format("15:04:05"), before.UTC().Format("15:04:05.000"), ctx())
					}
				}
			case "destroy":
				cl.Destroy()
				destroyed = true
				tr("destroy")
			}
		}
		if os.Getenv("VERIF_TRACE") != "" {
			fmt.Println(ctx())
		}
		// the caller's configuration is read, never written
		if !reflect.DeepEqual(cfgBefore, w.Cfg) {
			return evid.Fail("config-modified", "the client's Config differs after the history:\n before %+v\n after  %+v%s", cfgBefore.LibDefaults, w.Cfg.LibDefaults, ctx())
		}
		// I4: everything the KDCs received
		for _, p := range w.RequestProblems() {
			if p[0] == "request:AS:preauth-key" {
				// an optimistic pre-authentication attempt (assumed, or repeated after a first login) cannot know a
				// non-default salt or iteration count; the KDC answers PREAUTH_FAILED with hints and the client retries.
				// A pre-authentication that never succeeds surfaces as a failed login, which is asserted above.
				continue
			}
			return evid.Fail(p[0], "%s%s", p[1], ctx())
		}
		return evid.Pass()
	})
}

func loginClass(s Spec, err error) string {
	e := err.Error()
	switch {
	case strings.Contains(e, "PREAUTH_FAILED"):
		return "preauth-failed:" + s.Preauth + fmt.Sprintf(":salted=%v", s.Salted)
	case strings.Contains(e, "Networking_Error"):
		return "network"
	}
	return "other"
}

func ticketClass(c Case, err error) string {
	e := err.Error()
	switch {
	case strings.Contains(e, "KRB_AP_ERR_TKT_EXPIRED"), strings.Contains(e, "TKT_EXPIRED"):
		return "expired-ticket-presented"
	case strings.Contains(e, "maximum number of referrals"):
		return "referral-bound-too-low"
	case strings.Contains(e, "Networking_Error"):
		return "network"
	case strings.Contains(e, "PREAUTH_FAILED"):
		return "preauth-failed"
	}
	return "other"
}

// ---------------------------------------------------------------------------------------------

func drawSpec(t *rapid.T, timed bool) Spec {
	s := Spec{Seed: rapid.Uint64Range(1, 1<<40).Draw(t, "seed"), Cred: rapid.SampledFrom([]string{"password", "keytab"}).Draw(t, "cred"),
		Preauth: rapid.SampledFrom([]string{"none", "required", "required", "required-bare", "assume"}).Draw(t, "preauth"),
		Salted:  rapid.Bool().Draw(t, "salted"), Params: rapid.Bool().Draw(t, "params"), Fwd: rapid.Bool().Draw(t, "fwd"), Prox: rapid.Bool().Draw(t, "prox"), Canon: rapid.Bool().Draw(t, "canon"),
		NoAddr: rapid.Bool().Draw(t, "noaddr"), RenewLife: rapid.SampledFrom([]string{"", "10m", "7d"}).Draw(t, "renew"),
		TicketLife: rapid.SampledFrom([]string{"", "10m", "1h"}).Draw(t, "tlife"), Hops: rapid.SampledFrom([]int{0, 0, 0, 1, 1, 2, 3, 4, 5, 6, 8}).Draw(t, "hops"),
		Via: rapid.SampledFrom([]string{"referral", "domain_realm"}).Draw(t, "via"), KDCs: rapid.IntRange(1, 3).Draw(t, "kdcs"), DupKDC: rapid.IntRange(0, 5).Draw(t, "dupkdc") == 0, Loop: rapid.IntRange(0, 3).Draw(t, "loop") == 0}
	s.LegacyInfo = rapid.SampledFrom([]string{"", "", "", "after", "before"}).Draw(t, "legacy-info")
	s.UDPFirst = rapid.IntRange(0, 2).Draw(t, "udp-first") == 0
	s.BigTickets = rapid.SampledFrom([]int{0, 0, 0, 300, 1200, 2000, 2600}).Draw(t, "big-tickets")
	n := rapid.IntRange(1, 3).Draw(t, "netypes")
	pool := append([]int32{}, ref.ETypes...)
	for i := 0; i < n; i++ {
		j := rapid.IntRange(0, len(pool)-1).Draw(t, "etype")
		s.ETypes = append(s.ETypes, pool[j])
		pool = append(pool[:j], pool[j+1:]...)
	}
	if s.Cred == "keytab" {
		s.Salted = false
	}
	if timed {
		s.KDCGrace = rapid.Bool().Draw(t, "kdcgrace")
		life := func(lbl string) LifeSpec {
			switch rapid.IntRange(0, 5).Draw(t, lbl) {
			case 0:
				return LifeSpec{StartMs: 0, EndMs: 2300} // short
			case 1:
				return LifeSpec{StartMs: 0, EndMs: 2300, RenewMs: 60000} // short, renewable
			case 2:
				return LifeSpec{StartMs: -5000, EndMs: -1000} // already expired when issued
			case 3:
				return LifeSpec{StartMs: 2500, EndMs: 60000} // not yet valid
			}
			return LifeSpec{StartMs: 0, EndMs: 3600000}
		}
		for i, n := 0, rapid.IntRange(0, 3).Draw(t, "ntgtlives"); i < n; i++ {
			l := life("tgtlife")
			if l.StartMs > 0 || l.EndMs < 0 {
				l = LifeSpec{StartMs: 0, EndMs: 2300} // TGTs: short lifetimes only
			}
			s.TGTLives = append(s.TGTLives, l)
		}
		for i, n := 0, rapid.IntRange(0, 4).Draw(t, "nsvclives"); i < n; i++ {
			s.SvcLives = append(s.SvcLives, life("svclife"))
		}
	}
	return s
}

func drawOps(t *rapid.T, timed bool) []Op {
	n := rapid.IntRange(2, 9).Draw(t, "nops")
	ops := []Op{}
	if rapid.IntRange(0, 3).Draw(t, "startlogin") > 0 {
		ops = append(ops, Op{K: "login"})
	}
	for i := 0; i < n; i++ {
		kinds := []string{"ticket", "ticket", "ticket", "cached", "affirm", "login"}
		if timed {
			kinds = append(kinds, "wait", "wait")
		}
		k := rapid.SampledFrom(kinds).Draw(t, "op")
		switch k {
		case "ticket", "cached":
			ops = append(ops, Op{K: k, SPN: rapid.SampledFrom([]int{0, 0, 0, 1, 2, 3, 3, 4, 5, 5}).Draw(t, "spn")})
		case "wait":
			ops = append(ops, Op{K: k, Ms: rapid.SampledFrom([]int{300, 1200, 2600, 3400}).Draw(t, "ms")})
		default:
			ops = append(ops, Op{K: k})
		}
	}
	if rapid.IntRange(0, 3).Draw(t, "destroy") == 0 {
		ops = append(ops, Op{K: "destroy"})
	}
	return ops
}

func labels(c Case) (string, []string) {
	lab := []string{"cred:" + c.Spec.Cred, "preauth:" + c.Spec.Preauth, fmt.Sprintf("hops:%d", c.Spec.Hops), "via:" + c.Spec.Via, fmt.Sprintf("netypes:%d", len(c.Spec.ETypes))}
	waits, repeats := 0, false
	seen := map[int]bool{}
	for _, o := range c.Ops {
		if o.K == "wait" {
			waits++
		}
		if o.K == "ticket" || o.K == "cached" {
			if seen[o.SPN] {
				repeats = true
			}
			seen[o.SPN] = true
		}
		lab = append(lab, "op:"+o.K)
	}
	nt := ""
	if (repeats && waits > 0) || c.Spec.Hops > 0 || len(c.Spec.SvcLives)+len(c.Spec.TGTLives) > 0 {
		nt = fmt.Sprintf("%+v", c)
	}
	if repeats {
		lab = append(lab, "history:repeated-spn")
	}
	if waits > 0 {
		lab = append(lab, "history:with-wait")
	}
	if len(c.Spec.SvcLives)+len(c.Spec.TGTLives) > 0 {
		lab = append(lab, "kdc:lifetime-policy")
	}
	if c.Spec.Salted {
		lab = append(lab, "salted")
	}
	if c.Spec.Loop && c.Spec.Hops >= 1 {
		lab = append(lab, "topology:referral-loop")
	}
	return nt, lab
}

// shrink removes operations and simplifies the configuration while the same signature keeps failing.
func shrink(c Case, sig string, budget int) Case {
	try := func(x Case) bool {
		if budget <= 0 {
			return false
		}
		budget--
		v := Eval(x)
		return !v.OK && v.Sig == sig
	}
	for i := len(c.Ops) - 1; i >= 0 && budget > 0; i-- {
		x := c
		x.Ops = append(append([]Op{}, c.Ops[:i]...), c.Ops[i+1:]...)
		if len(x.Ops) > 0 && try(x) {
			c = x
		}
	}
	for _, f := range []func(*Spec){
		func(s *Spec) { s.Hops = 0 }, func(s *Spec) { s.Preauth = "none" }, func(s *Spec) { s.Salted = false }, func(s *Spec) { s.Params = false }, func(s *Spec) { s.SvcLives = nil },
		func(s *Spec) { s.TGTLives = nil }, func(s *Spec) { s.RenewLife = "" }, func(s *Spec) { s.TicketLife = "" }, func(s *Spec) { s.ETypes = s.ETypes[:1] },
		func(s *Spec) { s.Fwd, s.Prox, s.Canon = false, false, false }, func(s *Spec) { s.KDCs = 1 }, func(s *Spec) { s.Loop = false }, func(s *Spec) { s.Cred = "password" }, func(s *Spec) { s.Via = "referral" },
		func(s *Spec) {
			if s.Hops > 1 {
				s.Hops--
			}
		},
	} {
		x := c
		x.Spec.ETypes = append([]int32{}, c.Spec.ETypes...)
		f(&x.Spec)
		if fmt.Sprintf("%+v", x) != fmt.Sprintf("%+v", c) && try(x) {
			c = x
		}
	}
	return c
}

func TestProp(t *testing.T) {
	r := evid.Start(t, "C10", "exploration")
	evid.Reg(r, "history", Eval)
	evid.Reg(r, "timed", Eval)
	evid.Reg(r, "enum", Eval)
	if r.Replay() {
		return
	}
	defer r.Finish()
	if err := refcheck.All(); err != nil {
		r.Inconclusive("reference self-test failed: %v", err)
		return
	}
	r.Regress()
	r.Assume("one simulated KDC family (sim/kdc: AS/TGS, ETYPE-INFO2 pre-auth hints, RFC 6806 referrals, renewals) stands for 'any conformant KDC'; it accepts a TGS authenticator whose crealm is not the ticket's crealm (recording it) so that referral chains can be explored behind that finding; validity states are reached mostly by the KDC issuing short, elapsed or post-dated lifetimes, waits are <= 3.4 s; the background auto-renewal makes exact request sequences schedule-dependent, so only invariants over the issue log and request log are asserted")
	r.Rule("history: configuration (credential kind, 1-3 etypes in order, pre-auth policy {none, required with salt hint, required without hints and without cname/crealm in the error, client assumes pre-auth}, salted key, forwardable/proxiable/canonicalize/noaddresses, renew_lifetime, ticket_lifetime, 1-3 KDC hosts, referral chains of 0..8 hops driven by KDC referrals or [domain_realm]) x a history of login / service-ticket requests for repeated and new SPNs (3 remote, 1 local, 1 unknown) / cached look-ups / affirm / destroy; timed histories add waits and KDC lifetime policies (2.3 s tickets, renewable or not, already expired, not yet valid); invariants I1-I6 of DESIGN.md; non-trivial = a cache hit opportunity after a wait, a referral chain, or a KDC lifetime policy")
	run := func(check string, cases []Case, workers int) {
		evid.Parallel(len(cases), workers, func(i int) {
			c := cases[i]
			nt, lab := labels(c)
			r.Count(nt, lab...)
			r.Sample(check+"/"+lab[2]+"/"+lab[1], c)
			v := Eval(c)
			if !v.OK {
				// shrink by hand (the cases run in parallel outside rapid): fewer operations, simpler configuration
				c2 := shrink(c, v.Sig, 14)
				v2 := Eval(c2)
				if !v2.OK && v2.Sig == v.Sig {
					c, v = c2, v2
				}
			}
			r.Violation(check, c, v)
		})
	}
	collect := func(name string, n int, timed bool) []Case {
		var cases []Case
		r.Rapid(name+"-gen", n, func(t *rapid.T) {
			cases = append(cases, Case{Spec: drawSpec(t, timed), Ops: drawOps(t, timed)})
		})
		return cases
	}
	run("history", collect("history", r.N(400, 4000), false), 48)
	timedCases := collect("timed", r.N(110, 1500), true)
	// enumerated timed histories: what a ticket's end does to the next request for the same service, for every kind of
	// lifetime the KDC may grant (short, short and renewable, expired on issue, not yet valid) with and without a KDC
	// that still honours a ticket shortly after its end
	lives := []LifeSpec{{StartMs: 0, EndMs: 2300}, {StartMs: 0, EndMs: 2300, RenewMs: 60000}, {StartMs: -5000, EndMs: -1000}, {StartMs: 2500, EndMs: 60000}}
	for li, l := range lives {
		for gi, grace := range []bool{false, true} {
			for ri, renew := range []string{"", "10m"} {
				k := li*4 + gi*2 + ri
				if r.Quick() && l.RenewMs == 0 && (k+int(r.Seed()))%2 == 1 {
					continue
				}
				timedCases = append(timedCases, Case{Spec: Spec{Seed: r.Seed()*577 + uint64(k), Cred: []string{"keytab", "password"}[k%2], ETypes: []int32{ref.ETypes[k%6]}, Preauth: []string{"none", "required"}[(k/2)%2],
					Via: "referral", KDCs: 1 + k%2, RenewLife: renew, KDCGrace: grace, SvcLives: []LifeSpec{l, {StartMs: 0, EndMs: 3600000}, {StartMs: 0, EndMs: 3600000}}},
					Ops: []Op{{K: "login"}, {K: "ticket", SPN: 0}, {K: "cached", SPN: 0}, {K: "wait", Ms: 2600}, {K: "ticket", SPN: 0}, {K: "cached", SPN: 0}, {K: "ticket", SPN: 0}}})
			}
		}
	}
	// a small clock skew: a ticket requested well after the login (the TGS reply's authtime is that of the login, its
	// starttime is fresh), and a second spelling of a service name in other letter case
	for k := 0; k < r.N(4, 12); k++ {
		timedCases = append(timedCases, Case{Spec: Spec{Seed: r.Seed()*7919 + uint64(k), Cred: []string{"keytab", "password"}[k%2], ETypes: []int32{ref.ETypes[k%6]}, Preauth: []string{"none", "required"}[(k/2)%2],
			Via: "referral", KDCs: 1, ClockSkewS: 3, Hops: k % 2, RenewLife: []string{"", "10m"}[(k/2)%2]},
			Ops: []Op{{K: "login"}, {K: "ticket", SPN: 0}, {K: "ticket", SPN: 5}, {K: "wait", Ms: 3400}, {K: "ticket", SPN: 1}, {K: "cached", SPN: 0}, {K: "ticket", SPN: 5}, {K: "ticket", SPN: 0}}})
	}
	// the tickets go through a credential cache file in the middle of the history (kinit / restart): one service ticket ends
	// 1.3 s after it was issued, long before the TGT; what the new client serves from its cache must still be valid
	for k := 0; k < r.N(4, 12); k++ {
		timedCases = append(timedCases, Case{Spec: Spec{Seed: r.Seed()*9311 + uint64(k), Cred: []string{"password", "keytab"}[k%2], ETypes: []int32{ref.ETypes[k%6]}, Preauth: []string{"none", "required"}[(k/2)%2],
			Via: "referral", KDCs: 1, Hops: (k / 4) % 2, SvcLives: []LifeSpec{{StartMs: 0, EndMs: 1300}, {StartMs: 0, EndMs: 3600000}, {StartMs: 0, EndMs: 3600000}, {StartMs: 0, EndMs: 3600000}}},
			Ops: []Op{{K: "login"}, {K: "ticket", SPN: 0}, {K: "ticket", SPN: 1}, {K: "reload-ccache"}, {K: "cached", SPN: 0}, {K: "cached", SPN: 1}, {K: "wait", Ms: 2700}, {K: "cached", SPN: 0}, {K: "cached", SPN: 1},
				{K: "ticket", SPN: 0}, {K: "ticket", SPN: 1}, {K: "ticket", SPN: 3}, {K: "cached", SPN: 0}}})
	}
	run("timed", timedCases, 55)
	// enumeration: every hop count x via x pre-auth policy x credential kind with a fixed probing history
	var enum []Case
	for hops := 0; hops <= 8; hops++ {
		for _, via := range []string{"referral", "domain_realm"} {
			for pi, pre := range []string{"none", "required", "required-bare", "assume"} {
				for ci, cred := range []string{"password", "keytab"} {
					for _, salted := range []bool{false, true} {
						if cred == "keytab" && salted {
							continue
						}
						if r.Quick() && (hops+pi+ci+int(r.Seed()))%2 == 1 {
							continue
						}
						et := []int32{ref.ETypes[(hops+pi+ci)%6], ref.ETypes[(hops+pi+ci+2)%6]}
						enum = append(enum, Case{Spec: Spec{Seed: r.Seed()*131 + uint64(len(enum)), Cred: cred, ETypes: et, Preauth: pre, Salted: salted, Hops: hops, Via: via, LegacyInfo: []string{"", "after", "before"}[(len(enum)+hops)%3], UDPFirst: len(enum)%3 == 1, BigTickets: []int{0, 1200, 2400, 0}[len(enum)%4],
							Loop: hops >= 1 && hops <= 3 && via == "referral", Params: (hops+pi)%2 == 0, Fwd: hops%2 == 0, Canon: pi%2 == 0, NoAddr: ci == 0, RenewLife: []string{"", "10m", "7d"}[(hops+pi)%3], TicketLife: []string{"", "10m", "1h"}[(hops+ci)%3], KDCs: 1 + hops%3},
							Ops: []Op{{K: "login"}, {K: "ticket", SPN: 0}, {K: "ticket", SPN: 0}, {K: "ticket", SPN: 5}, {K: "ticket", SPN: 3}, {K: "ticket", SPN: 1}, {K: "cached", SPN: 0}, {K: "cached", SPN: 5}, {K: "ticket", SPN: 4}, {K: "ticket", SPN: 2}}})
					}
				}
			}
		}
	}
	run("enum", enum, 48)
	maxObserved.Lock()
	r.Extra("max_tgs_requests_per_service_ticket_call", maxObserved.n)
	maxObserved.Unlock()
	_ = kdc.Answers
}
