package c10

import (
	"os"
	"testing"
	"time"
)

// TestWorldCost reports how long building and stopping a world takes (development aid; C10_COST=1).
func TestWorldCost(t *testing.T) {
	if os.Getenv("C10_COST") == "" {
		t.Skip("C10_COST not set")
	}
	t0 := time.Now()
	for i := 0; i < 50; i++ {
		w, err := Build(&Spec{Seed: uint64(i + 1), Cred: "keytab", ETypes: []int32{18}, Preauth: "none", KDCs: 2, Via: "referral", NoAddr: true})
		if err != nil {
			t.Fatal(err)
		}
		w.Stop()
	}
	t.Logf("50 worlds: %v", time.Since(t0))
}
