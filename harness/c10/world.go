// Package c10 holds the client-history model shared by C10 (tickets obtained and cached are the
// right ones) and C11 (concurrent use): a configuration spec, the simulated multi-realm world built
// from it, and the invariants over the KDC's issue log and request log.
package c10

import (
	"bytes"
	"fmt"
	"io"
	"log"
	"reflect"
	"regexp"
	"strings"
	"time"

	"github.com/jcmturner/gokrb5/v8/client"
	"github.com/jcmturner/gokrb5/v8/config"
	"github.com/jcmturner/gokrb5/v8/keytab"
	"github.com/jcmturner/gokrb5/v8/messages"
	"github.com/jcmturner/gokrb5/v8/types"

	"verif/harness/mint"
	"verif/harness/ref/der"
	ref "verif/harness/ref/krbcrypto"
	"verif/harness/sim/kdc"
)

// LifeSpec is a KDC lifetime decision in milliseconds relative to the issuance.
type LifeSpec struct {
	StartMs int64 `json:"start_ms"`
	EndMs   int64 `json:"end_ms"`
	RenewMs int64 `json:"renew_ms"` // 0 = not renewable
}

// Spec is the configuration of one history.
type Spec struct {
	Seed       uint64     `json:"seed"`
	Cred       string     `json:"cred"`                  // password | keytab
	ETypes     []int32    `json:"etypes"`                // client's configured list, in order
	Preauth    string     `json:"preauth"`               // none | required | required-bare (no salt hint, cname/crealm omitted from the error) | assume
	UDPFirst   bool       `json:"udp_first,omitempty"`   // the default udp_preference_limit instead of TCP only: small requests go out over UDP first
	BigTickets int        `json:"big_tickets,omitempty"` // every ticket issued carries this many octets of further authorization data (as PACs make them): replies of 2-4 KB
	LegacyInfo string     `json:"legacy_info,omitempty"` // the KDC's hints also hold a PA-ETYPE-INFO naming another etype and salt: "after" / "before" the PA-ETYPE-INFO2
	Salted     bool       `json:"salted"`
	Params     bool       `json:"params"` // the client's keys use a non-default iteration count
	Fwd        bool       `json:"forwardable"`
	Prox       bool       `json:"proxiable"`
	Canon      bool       `json:"canonicalize"`
	NoAddr     bool       `json:"noaddresses"`
	RenewLife  string     `json:"renew_lifetime"`  // "", "10m", "7d"
	TicketLife string     `json:"ticket_lifetime"` // "", "10m", "1h"
	Hops       int        `json:"hops"`            // realms between the client and the service realm
	Via        string     `json:"via"`             // referral | domain_realm
	TGTLives   []LifeSpec `json:"tgt_lives,omitempty"`
	SvcLives   []LifeSpec `json:"svc_lives,omitempty"`
	KDCs       int        `json:"kdcs"`                  // configured KDC hosts for the client's realm (1..3), all answering
	DupKDC     bool       `json:"duplicate_kdc_entry"`   // the client's realm lists its first KDC host twice in a row (kdc = A, kdc = A, kdc = B ...)
	ClockSkewS int        `json:"clockskew_s,omitempty"` // libdefaults clockskew in seconds (0 = the default 300)
	KDCGrace   bool       `json:"kdc_grace,omitempty"`   // the KDCs honour a presented ticket up to five minutes after its end time, as KDCs applying their clock skew do
	Loop       bool       `json:"referral_loop"`         // SPN 2 lives in a realm nobody reaches: the KDCs refer the client round in a circle
}

var ETypeNames = map[int32]string{16: "des3-cbc-sha1-kd", 17: "aes128-cts-hmac-sha1-96", 18: "aes256-cts-hmac-sha1-96",
	19: "aes128-cts-hmac-sha256-128", 20: "aes256-cts-hmac-sha384-192", 23: "rc4-hmac"}

// RealmName of hop i.
func RealmName(i int) string { return fmt.Sprintf("R%d.TEST", i) }

// ExtraSPNs is the number of additional services (pool indices 5..) registered in the last realm.
const ExtraSPNs = 40000

// SPN pool: 0..2 remote services (in the last realm), 3 local service, 4 unknown, 5 service 0's name in upper case, 6..40004 further remote services (owned on demand).
func (s *Spec) SPN(i int) string {
	switch {
	case i <= 2:
		return fmt.Sprintf("HTTP/svc%d.r%d.test", i, s.Hops)
	case i == 3:
		return "HTTP/local.r0.test"
	case i == 5:
		// the name of service 0 in other letter case: Kerberos names are case-sensitive, this is another principal with
		// another key
		return fmt.Sprintf("HTTP/SVC0.r%d.test", s.Hops)
	case i > 5 && i < 5+ExtraSPNs:
		return fmt.Sprintf("HTTP/extra%d.r%d.test", i, s.Hops)
	}
	return "HTTP/nonexistent.r0.test"
}

// World is the running simulation.
type World struct {
	Spec     *Spec
	W        *kdc.World
	Realms   []*kdc.Realm
	Servers  []*kdc.Server
	Cfg      *config.Config
	CfgText  string
	Password string
	Keytab   *keytab.Keytab
	LogBuf   *bytes.Buffer
}

func durMs(d string) int64 {
	switch d {
	case "10m":
		return 600000
	case "1h":
		return 3600000
	case "7d":
		return 7 * 24 * 3600000
	}
	return 0
}

// Build starts the KDCs and renders the client configuration.
func Build(s *Spec) (*World, error) {
	w := &World{Spec: s, W: kdc.NewWorld(s.Seed), Password: fmt.Sprintf("pw-%x", s.Seed&0xffffff)}
	ip := kdc.UniqueIP()
	kdcs := map[string][]string{}
	last := RealmName(s.Hops)
	for i := 0; i <= s.Hops; i++ {
		pol := kdc.Policy{Lenient: true, TicketEType: s.ETypes[0]}
		if s.KDCGrace {
			pol.ExpiredGrace = 5 * time.Minute
		}
		if i == 0 {
			switch s.Preauth {
			case "required", "assume":
				pol.PreauthRequired, pol.InfoSalt = true, true
			case "required-bare":
				pol.PreauthRequired, pol.OmitErrCName = true, true
			}
			pol.LegacyInfo = s.LegacyInfo
		}
		r := w.W.AddRealm(RealmName(i), pol)
		w.Realms = append(w.Realms, r)
		for k := 0; k < 3; k++ {
			r.SvcRealm[s.SPN(k)] = last
		}
		if s.Loop && s.Hops >= 1 {
			// a routing loop: every realm refers requests for SPN 2 onwards, the last one back to the first
			r.SvcRealm[s.SPN(2)] = "NOWHERE.TEST"
			r.Next["NOWHERE.TEST"] = RealmName((i + 1) % (s.Hops + 1))
		}
		if i < s.Hops {
			for j := i + 1; j <= s.Hops; j++ {
				r.Next[RealmName(j)] = RealmName(i + 1)
			}
		}
		n := 1
		if i == 0 && s.KDCs > 1 {
			n = s.KDCs
		}
		for k := 0; k < n; k++ {
			srv := kdc.NewServer(r, ip, 8900+10*i+k, kdc.Answers, kdc.Answers, fmt.Sprintf("r%dk%d", i, k))
			if err := srv.Start(); err != nil {
				w.Stop()
				return nil, err
			}
			w.Servers = append(w.Servers, srv)
			kdcs[r.Name] = append(kdcs[r.Name], srv.Addr)
			if i == 0 && k == 0 && s.DupKDC {
				kdcs[r.Name] = append(kdcs[r.Name], srv.Addr)
			}
		}
	}
	var salt *string
	if s.Salted {
		x := fmt.Sprintf("Salt/%x", s.Seed&0xffff)
		salt = &x
	}
	iter := uint32(0)
	if s.Params {
		iter = 48
	}
	cl := w.Realms[0].AddClient("alice", w.Password, salt, iter)
	w.Realms[0].AddService("HTTP/local.r0.test")
	for k := 0; k < 3; k++ {
		if k == 2 && s.Loop && s.Hops >= 1 {
			continue // nobody owns SPN 2 in a loop topology
		}
		w.Realms[s.Hops].AddService(s.SPN(k))
	}
	// the spare services (pool indices 5..) are not registered one by one: the last realm owns every name of their
	// form and every realm routes such a name there
	extra := regexp.MustCompile(fmt.Sprintf(`^HTTP/(extra[0-9]+|SVC0)\.r%d\.test$`, s.Hops))
	w.Realms[s.Hops].AutoService = extra.MatchString
	for _, r := range w.Realms {
		r.AutoRoute = func(name string) (string, bool) { return last, extra.MatchString(name) }
	}
	for _, l := range s.TGTLives {
		w.Realms[0].PushTGTLife(life(l))
	}
	for _, l := range s.SvcLives {
		w.Realms[s.Hops].PushSvcLife(life(l))
	}
	names := []string{}
	for _, e := range s.ETypes {
		names = append(names, ETypeNames[e])
	}
	lim := 1
	if s.UDPFirst {
		lim = 1465
	}
	if s.BigTickets > 0 {
		pad := make([]byte, s.BigTickets)
		for _, r := range w.Realms {
			r.Mutate = func(x *kdc.ReplyCtx) {
				x.Ticket.AuthData = append(x.Ticket.AuthData, mint.AD{Type: 1, Data: der.AuthData.MustEncode([]any{der.M{"ad-type": int64(99), "ad-data": pad}})})
			}
		}
	}
	o := kdc.ConfOpts{DefaultRealm: RealmName(0), ETypes: strings.Join(names, " "), Forwardable: s.Fwd, Proxiable: s.Prox, Canonicalize: s.Canon,
		NoAddresses: s.NoAddr, RenewLifetime: s.RenewLife, TicketLife: s.TicketLife, UDPPrefLimit: &lim, Extra: "  allow_weak_crypto = true\n"}
	if !s.NoAddr {
		o.Extra += "  extra_addresses = 10.9.8.7\n"
	}
	if s.ClockSkewS > 0 {
		o.Extra += fmt.Sprintf("  clockskew = %d\n", s.ClockSkewS)
	}
	if s.Via == "domain_realm" && s.Hops > 0 {
		o.DomainRealm = map[string]string{fmt.Sprintf(".r%d.test", s.Hops): last}
	}
	w.CfgText = kdc.ConfText(o, kdcs)
	cfg, err := config.NewFromString(w.CfgText)
	if err != nil {
		w.Stop()
		return nil, fmt.Errorf("config: %v", err)
	}
	w.Cfg = cfg
	if s.Cred == "keytab" {
		var ents []mint.KeytabEntry
		for _, e := range ref.ETypes {
			ents = append(ents, mint.KeytabEntry{Principal: "alice", Realm: RealmName(0), KVNO: 1, Key: w.Realms[0].Key(cl, e), Timestamp: 1000})
		}
		kt := keytab.New()
		if err := kt.Unmarshal(mint.KeytabBytes(ents)); err != nil {
			w.Stop()
			return nil, err
		}
		w.Keytab = kt
	}
	return w, nil
}

func life(l LifeSpec) kdc.Life {
	return kdc.Life{StartOff: time.Duration(l.StartMs) * time.Millisecond, EndOff: time.Duration(l.EndMs) * time.Millisecond, RenewOff: time.Duration(l.RenewMs) * time.Millisecond}
}

// Stop shuts every listener down.
func (w *World) Stop() {
	for _, s := range w.Servers {
		s.Stop()
	}
}

// NewClient creates a client for the history.
func (w *World) NewClient() *client.Client {
	w.LogBuf = &bytes.Buffer{}
	opts := []func(*client.Settings){client.DisablePAFXFAST(true), client.Logger(log.New(io.Discard, "", 0))}
	if w.Spec.Preauth == "assume" {
		opts = append(opts, client.AssumePreAuthentication(true))
	}
	if w.Spec.Cred == "keytab" {
		return client.NewWithKeytab("alice", RealmName(0), w.Keytab, w.Cfg, opts...)
	}
	return client.NewWithPassword("alice", RealmName(0), w.Password, w.Cfg, opts...)
}

// IssuedAll returns a snapshot of every realm's issue log.
func (w *World) IssuedAll() []kdc.Issued {
	var out []kdc.Issued
	for _, r := range w.Realms {
		out = append(out, r.SnapshotIssued()...)
	}
	return out
}

// SeenAll returns a snapshot of every realm's request log.
func (w *World) SeenAll() []kdc.Seen {
	var out []kdc.Seen
	for _, r := range w.Realms {
		out = append(out, r.SnapshotSeen()...)
	}
	return out
}

// FindIssued returns the log entry of a returned (ticket, key) pair.
func (w *World) FindIssued(tkt messages.Ticket, key types.EncryptionKey) (kdc.Issued, string) {
	b, err := tkt.Marshal()
	if err != nil {
		return kdc.Issued{}, "returned ticket cannot be marshalled: " + err.Error()
	}
	var byTicket *kdc.Issued
	for _, is := range w.IssuedAll() {
		is := is
		if bytes.Equal(is.Ticket, b) {
			byTicket = &is
			if is.Session.EType == key.KeyType && bytes.Equal(is.Session.Value, key.KeyValue) {
				return is, ""
			}
		}
	}
	if byTicket != nil {
		return *byTicket, "the session key returned with the ticket is not the one the KDC issued with it"
	}
	return kdc.Issued{}, "the returned ticket was never issued by the KDC"
}

// IssuedIndex indexes every realm's issue log by ticket bytes (for histories with thousands of tickets).
func (w *World) IssuedIndex() map[string][]kdc.Issued {
	idx := map[string][]kdc.Issued{}
	for _, is := range w.IssuedAll() {
		idx[string(is.Ticket)] = append(idx[string(is.Ticket)], is)
	}
	return idx
}

// FindIssuedIn is FindIssued over an index.
func FindIssuedIn(idx map[string][]kdc.Issued, tkt messages.Ticket, key types.EncryptionKey) (kdc.Issued, string) {
	b, err := tkt.Marshal()
	if err != nil {
		return kdc.Issued{}, "returned ticket cannot be marshalled: " + err.Error()
	}
	l := idx[string(b)]
	for _, is := range l {
		if is.Session.EType == key.KeyType && bytes.Equal(is.Session.Value, key.KeyValue) {
			return is, ""
		}
	}
	if len(l) > 0 {
		return l[len(l)-1], "the session key returned with the ticket is not the one the KDC issued with it"
	}
	return kdc.Issued{}, "the returned ticket was never issued by the KDC"
}

// RequestProblems checks every request the KDCs received against the configuration (invariant I4).
// It returns (signature, description) pairs.
func (w *World) RequestProblems() [][2]string {
	var out [][2]string
	s := w.Spec
	add := func(sig, f string, a ...any) { out = append(out, [2]string{sig, fmt.Sprintf(f, a...)}) }
	for _, sn := range w.SeenAll() {
		if sn.DecodeErr != "" {
			add("request:nonconformant:"+sn.Kind, "%s request received by %s violates the RFC 4120 ASN.1: %s\n%x", sn.Kind, sn.Realm, sn.DecodeErr, sn.Raw)
			continue
		}
		for _, p := range sn.Problems {
			sig := "request:" + sn.Kind + ":" + strings.SplitN(p, " ", 4)[0]
			switch {
			case strings.Contains(p, "authenticator crealm"):
				sig = "request:TGS:authenticator-crealm-is-issuing-realm"
			case strings.Contains(p, "PA-ENC-TIMESTAMP does not decrypt"):
				sig = "request:AS:preauth-key"
			case strings.Contains(p, "RENEW request names"):
				sig = "request:TGS:renew-sname"
			case strings.Contains(p, "has expired"), strings.Contains(p, "renew-till has passed"), strings.Contains(p, "not renewable"):
				continue // a legitimate refusal by the KDC, not a malformed request
			case strings.Contains(p, "checksum"):
				sig = "request:TGS:authenticator-checksum"
			}
			add(sig, "%s request received by %s: %s", sn.Kind, sn.Realm, p)
		}
		body, _ := sn.Req["req-body"].(der.M)
		if body == nil {
			continue
		}
		opts, _ := body["kdc-options"].([]byte)
		flag := func(n int) bool { return len(opts) > n/8 && opts[n/8]&(0x80>>uint(n%8)) != 0 }
		renewReq := sn.Kind == "TGS" && flag(30)
		// etype list in configured order
		var got []int32
		for _, e := range body["etype"].([]any) {
			got = append(got, int32(e.(int64)))
		}
		if fmt.Sprint(got) != fmt.Sprint(s.ETypes) {
			add("request:etypes", "%s request carries etypes %v, configured %v", sn.Kind, got, s.ETypes)
		}
		if flag(1) != s.Fwd {
			add("request:option:forwardable", "%s request forwardable=%v, configured %v", sn.Kind, flag(1), s.Fwd)
		}
		if flag(3) != s.Prox {
			add("request:option:proxiable", "%s request proxiable=%v, configured %v", sn.Kind, flag(3), s.Prox)
		}
		if flag(15) != s.Canon {
			add("request:option:canonicalize", "%s request canonicalize=%v, configured %v", sn.Kind, flag(15), s.Canon)
		}
		if !renewReq && flag(8) != (s.RenewLife != "") {
			add("request:option:renewable", "%s request renewable=%v, renew_lifetime=%q", sn.Kind, flag(8), s.RenewLife)
		}
		tl := durMs(s.TicketLife)
		if tl == 0 {
			tl = 24 * 3600000
		}
		till, _ := body["till"].(time.Time)
		if d := till.Sub(sn.At).Milliseconds() - tl; d > 2500 || d < -2500 {
			add("request:till", "%s request till = request time %+ds, ticket_lifetime is %ds", sn.Kind, till.Sub(sn.At).Milliseconds()/1000, tl/1000)
		}
		rt, hasRT := body["rtime"].(time.Time)
		if !renewReq {
			if s.RenewLife == "" && hasRT {
				add("request:rtime-unexpected", "%s request carries rtime although renew_lifetime is unset", sn.Kind)
			}
			if s.RenewLife != "" {
				if !hasRT {
					add("request:rtime-missing", "%s request carries no rtime although renew_lifetime = %s", sn.Kind, s.RenewLife)
				} else if d := rt.Sub(sn.At).Milliseconds() - durMs(s.RenewLife); d > 2500 || d < -2500 {
					add("request:rtime:"+sn.Kind, "%s request rtime = request time %+ds, renew_lifetime = %s (%ds)", sn.Kind, rt.Sub(sn.At).Milliseconds()/1000, s.RenewLife, durMs(s.RenewLife)/1000)
				}
			}
		}
		_, hasAddr := body["addresses"]
		if hasAddr == s.NoAddr {
			add("request:addresses", "%s request addresses present=%v, noaddresses=%v", sn.Kind, hasAddr, s.NoAddr)
		}
		if sn.Kind == "AS" && nameStr(body["cname"]) != "alice" {
			add("request:cname", "AS request cname %q", nameStr(body["cname"]))
		}
	}
	return out
}

func nameStr(v any) string { return strings.Join(der.NameStrings(v), "/") }

// DeepCopyConfig copies a Config with everything it points to (slices, maps, the option bit string), so that a later
// comparison shows whether the library wrote into the caller's configuration.
func DeepCopyConfig(c *config.Config) *config.Config {
	return deepCopy(reflect.ValueOf(c)).Interface().(*config.Config)
}

func deepCopy(v reflect.Value) reflect.Value {
	switch v.Kind() {
	case reflect.Ptr:
		if v.IsNil() {
			return v
		}
		n := reflect.New(v.Type().Elem())
		n.Elem().Set(deepCopy(v.Elem()))
		return n
	case reflect.Struct:
		n := reflect.New(v.Type()).Elem()
		n.Set(v) // unexported fields are copied as they are
		for i := 0; i < v.NumField(); i++ {
			if n.Field(i).CanSet() {
				n.Field(i).Set(deepCopy(v.Field(i)))
			}
		}
		return n
	case reflect.Slice:
		if v.IsNil() {
			return v
		}
		n := reflect.MakeSlice(v.Type(), v.Len(), v.Len())
		for i := 0; i < v.Len(); i++ {
			n.Index(i).Set(deepCopy(v.Index(i)))
		}
		return n
	case reflect.Map:
		if v.IsNil() {
			return v
		}
		n := reflect.MakeMapWithSize(v.Type(), v.Len())
		for _, k := range v.MapKeys() {
			n.SetMapIndex(k, deepCopy(v.MapIndex(k)))
		}
		return n
	}
	return v
}
