// C09 — the client accepts a KDC reply only if it answers the request it sent.
package c09

import (
	"errors"
	"fmt"
	"io"
	"log"
	"strings"
	"testing"
	"time"

	"github.com/jcmturner/gokrb5/v8/client"
	"github.com/jcmturner/gokrb5/v8/config"
	"github.com/jcmturner/gokrb5/v8/credentials"
	"github.com/jcmturner/gokrb5/v8/iana/errorcode"
	"github.com/jcmturner/gokrb5/v8/keytab"
	"github.com/jcmturner/gokrb5/v8/messages"
	"github.com/jcmturner/gokrb5/v8/types"
	"pgregory.net/rapid"

	"verif/harness/c10"
	"verif/harness/evid"
	"verif/harness/mint"
	"verif/harness/ref/der"
	ref "verif/harness/ref/krbcrypto"
	"verif/harness/refcheck"
	"verif/harness/sim/kdc"
)

// Case is one reply to one request.
type Case struct {
	Exchange string `json:"exchange"` // AS | TGS
	EType    int32  `json:"etype"`
	Cred     string `json:"cred"`              // password | keytab
	Salted   bool   `json:"salted"`            // client key uses a non-default salt which the KDC advertises
	Addrs    bool   `json:"addresses"`         // the request carries addresses
	Perturb  string `json:"perturb"`           // name from the catalogue; "krb-error" uses Code
	Preauth  bool   `json:"preauth,omitempty"` // end-to-end: the KDC requires pre-authentication, so the perturbed reply (or the KRB-ERROR) answers the client's second, pre-authenticated AS-REQ
	Code     int    `json:"code,omitempty"`
	E2E      bool   `json:"end_to_end"` // through Client.Login / GetServiceTicket over loopback sockets
	Seed     uint64 `json:"seed"`
	NameType int    `json:"name_type,omitempty"`   // name type of the client principal in credentials and requests (0 = 1 NT-PRINCIPAL; 10 = NT-ENTERPRISE): a hint that changes no comparison
	Opts     string `json:"opts,omitempty"`        // libdefaults variant: "" | canonicalize | fwd-prox-renew | clockskew60 | clockskew900
	UDPBig   bool   `json:"udp_too_big,omitempty"` // end-to-end: UDP is tried first and answers RESPONSE_TOO_BIG, the reply proper comes over TCP
	Client   string `json:"client,omitempty"`      // the client principal, "" = alice; alice/admin has two components
}

// client is the client principal of the case's own world, components separated by "/".
func (c Case) client() string {
	if c.Client == "" {
		return "alice"
	}
	return c.Client
}

// regrouped is the client's name with the same characters split into components differently: a two-component name
// becomes one component holding a "/", a one-component name is cut in two.
func (c Case) regrouped() der.M {
	n := mint.Name(c.client())
	if len(n) >= 2 {
		return der.Name(1, strings.Join(n, "/"))
	}
	return der.Name(1, n[0][:2], n[0][2:])
}

// skewMs is the clock skew the client's configuration allows (libdefaults clockskew, default 300 s).
func (c Case) skewMs() time.Duration {
	switch c.Opts {
	case "clockskew60":
		return 60000
	case "clockskew900":
		return 900000
	}
	return 300000
}

// optsList: configuration variants under which every perturbation keeps its effect.
var optsList = []string{"", "canonicalize", "fwd-prox-renew", "clockskew60", "clockskew900"}

const margin = 4000 // ms; KDC times have one-second resolution

// effect: "reject", "accept" or "free" (the statement does not constrain the outcome; only no panic)
type perturb struct {
	name string
	as   string
	tgs  string
	f    func(c Case, x *kdc.ReplyCtx, prevNonce int64)
}

func otherName() der.M { return der.Name(1, "mallory") }

func shift(enc der.M, field string, d time.Duration) {
	enc[field] = time.Now().UTC().Add(d).Truncate(time.Second)
}

var catalogue = []perturb{
	{"none", "accept", "accept", func(c Case, x *kdc.ReplyCtx, p int64) {}},
	{"nonce+1", "reject", "reject", func(c Case, x *kdc.ReplyCtx, p int64) { x.Enc["nonce"] = x.Enc["nonce"].(int64) + 1 }},
	{"nonce-1", "reject", "reject", func(c Case, x *kdc.ReplyCtx, p int64) { x.Enc["nonce"] = x.Enc["nonce"].(int64) - 1 }},
	{"nonce-stale", "reject", "reject", func(c Case, x *kdc.ReplyCtx, p int64) { x.Enc["nonce"] = p }},
	// the request's nonce plus or minus a multiple of 2^32: another INTEGER (one that needs more octets), not the same nonce
	{"nonce-plus-2-32", "reject", "reject", func(c Case, x *kdc.ReplyCtx, p int64) { x.Enc["nonce"] = x.Enc["nonce"].(int64) + 1<<32 }},
	{"nonce-minus-2-32", "reject", "reject", func(c Case, x *kdc.ReplyCtx, p int64) { x.Enc["nonce"] = x.Enc["nonce"].(int64) - 1<<32 }},
	{"nonce-plus-2-40", "reject", "reject", func(c Case, x *kdc.ReplyCtx, p int64) { x.Enc["nonce"] = x.Enc["nonce"].(int64) + 1<<40 }},
	{"nonce-plus-256", "reject", "reject", func(c Case, x *kdc.ReplyCtx, p int64) { x.Enc["nonce"] = x.Enc["nonce"].(int64) + 256 }},
	{"cname-other", "reject", "reject", func(c Case, x *kdc.ReplyCtx, p int64) { x.Rep["cname"] = otherName() }},
	{"cname-extra-component", "reject", "reject", func(c Case, x *kdc.ReplyCtx, p int64) {
		x.Rep["cname"] = der.Name(1, append(mint.Name(c.client()), "root")...)
	}},
	// the same characters grouped into components differently name another principal
	{"cname-regrouped", "reject", "reject", func(c Case, x *kdc.ReplyCtx, p int64) { x.Rep["cname"] = c.regrouped() }},
	{"crealm-other", "reject", "reject", func(c Case, x *kdc.ReplyCtx, p int64) { x.Rep["crealm"] = "EVIL.ORG" }},
	{"enc-sname-other", "reject", "free", func(c Case, x *kdc.ReplyCtx, p int64) { x.Enc["sname"] = der.Name(2, "krbtgt", "EVIL.ORG") }},
	{"enc-sname-regrouped", "reject", "free", func(c Case, x *kdc.ReplyCtx, p int64) {
		x.Enc["sname"] = der.Name(2, strings.Join(der.NameStrings(x.Enc["sname"]), "/"))
	}},
	{"enc-srealm-other", "reject", "free", func(c Case, x *kdc.ReplyCtx, p int64) { x.Enc["srealm"] = "EVIL.ORG" }},
	{"ticket-realm-other", "free", "free", func(c Case, x *kdc.ReplyCtx, p int64) { x.Ticket.Realm = "EVIL.ORG" }},
	{"ticket-sname-other", "free", "free", func(c Case, x *kdc.ReplyCtx, p int64) { x.Ticket.SName = "host/other.example.com" }},
	{"caddr-added", "free", "reject", func(c Case, x *kdc.ReplyCtx, p int64) {
		l, _ := x.Enc["caddr"].([]any)
		x.Enc["caddr"] = append(append([]any{}, l...), der.M{"addr-type": int64(2), "address": []byte{192, 0, 2, 77}})
	}},
	// the same with an address of every other registered kind: none of them is exempt from the comparison
	{"caddr-added-netbios", "free", "reject", func(c Case, x *kdc.ReplyCtx, p int64) {
		l, _ := x.Enc["caddr"].([]any)
		x.Enc["caddr"] = append(append([]any{}, l...), der.M{"addr-type": int64(20), "address": []byte("WORKSTATION12   ")})
	}},
	{"caddr-added-ipv6", "free", "reject", func(c Case, x *kdc.ReplyCtx, p int64) {
		l, _ := x.Enc["caddr"].([]any)
		x.Enc["caddr"] = append(append([]any{}, l...), der.M{"addr-type": int64(24), "address": []byte{0x20, 1, 0xd, 0xb8, 0, 0, 0, 0, 0, 0, 0, 0, 0, 0, 0, 0x4d}})
	}},
	{"caddr-added-directional", "free", "reject", func(c Case, x *kdc.ReplyCtx, p int64) {
		l, _ := x.Enc["caddr"].([]any)
		x.Enc["caddr"] = append(append([]any{}, l...), der.M{"addr-type": int64(3), "address": []byte{0, 0, 0, 1}})
	}},
	// the requested addresses with one entry declared as another kind of address (same octets, same count)
	{"caddr-retyped", "reject", "free", func(c Case, x *kdc.ReplyCtx, p int64) {
		l, _ := x.Enc["caddr"].([]any)
		if len(l) == 0 {
			return
		}
		nl := append([]any{}, l...)
		first := nl[0].(der.M)
		nl[0] = der.M{"addr-type": int64(3), "address": first["address"]}
		x.Enc["caddr"] = nl
	}},
	{"caddr-removed", "reject", "accept", func(c Case, x *kdc.ReplyCtx, p int64) { delete(x.Enc, "caddr") }},
	{"caddr-replaced", "reject", "reject", func(c Case, x *kdc.ReplyCtx, p int64) {
		x.Enc["caddr"] = []any{der.M{"addr-type": int64(2), "address": []byte{192, 0, 2, 78}}}
	}},
	{"authtime-past-inside", "accept", "accept", func(c Case, x *kdc.ReplyCtx, p int64) {
		shift(x.Enc, "authtime", -(c.skewMs()-margin)*time.Millisecond)
		shift(x.Enc, "starttime", -(c.skewMs()-margin)*time.Millisecond)
	}},
	{"authtime-past-outside", "reject", "reject", func(c Case, x *kdc.ReplyCtx, p int64) {
		shift(x.Enc, "authtime", -(c.skewMs()+margin)*time.Millisecond)
		shift(x.Enc, "starttime", -(c.skewMs()+margin)*time.Millisecond)
	}},
	{"authtime-future-inside", "accept", "accept", func(c Case, x *kdc.ReplyCtx, p int64) {
		shift(x.Enc, "authtime", (c.skewMs()-margin)*time.Millisecond)
		shift(x.Enc, "starttime", (c.skewMs()-margin)*time.Millisecond)
	}},
	{"authtime-future-outside", "reject", "reject", func(c Case, x *kdc.ReplyCtx, p int64) {
		shift(x.Enc, "authtime", (c.skewMs()+margin)*time.Millisecond)
		shift(x.Enc, "starttime", (c.skewMs()+margin)*time.Millisecond)
	}},
	// centuries away from the client's clock (beyond what a 64-bit nanosecond duration can express)
	{"authtime-year-2400", "reject", "reject", func(c Case, x *kdc.ReplyCtx, p int64) {
		x.Enc["authtime"] = time.Date(2400, 2, 29, 12, 0, 0, 0, time.UTC)
		x.Enc["starttime"] = time.Date(2400, 2, 29, 12, 0, 0, 0, time.UTC)
	}},
	{"authtime-year-9999", "reject", "reject", func(c Case, x *kdc.ReplyCtx, p int64) {
		x.Enc["authtime"] = time.Date(9999, 12, 31, 23, 59, 59, 0, time.UTC)
		x.Enc["starttime"] = time.Date(9999, 12, 31, 23, 59, 59, 0, time.UTC)
		x.Enc["endtime"] = time.Date(9999, 12, 31, 23, 59, 59, 0, time.UTC)
	}},
	{"authtime-year-1700", "reject", "reject", func(c Case, x *kdc.ReplyCtx, p int64) {
		x.Enc["authtime"] = time.Date(1700, 1, 1, 0, 0, 0, 0, time.UTC)
		x.Enc["starttime"] = time.Date(1700, 1, 1, 0, 0, 0, 0, time.UTC)
	}},
	{"no-starttime-authtime-year-2400", "reject", "reject", func(c Case, x *kdc.ReplyCtx, p int64) {
		delete(x.Enc, "starttime")
		x.Enc["authtime"] = time.Date(2400, 2, 29, 12, 0, 0, 0, time.UTC)
	}},
	// RFC 4120: in a TGS reply authtime is that of the original login and may be old; starttime is current
	{"authtime-old-starttime-now", "reject", "accept", func(c Case, x *kdc.ReplyCtx, p int64) {
		shift(x.Enc, "authtime", -2*time.Hour)
	}},
	// starttime is OPTIONAL: a reply without it must still have its authtime inside the skew
	{"no-starttime-authtime-inside", "accept", "accept", func(c Case, x *kdc.ReplyCtx, p int64) {
		delete(x.Enc, "starttime")
		shift(x.Enc, "authtime", -(c.skewMs()-margin)*time.Millisecond)
	}},
	{"no-starttime-authtime-past-outside", "reject", "reject", func(c Case, x *kdc.ReplyCtx, p int64) {
		delete(x.Enc, "starttime")
		shift(x.Enc, "authtime", -(c.skewMs()+margin)*time.Millisecond)
	}},
	{"no-starttime-authtime-future-outside", "reject", "reject", func(c Case, x *kdc.ReplyCtx, p int64) {
		delete(x.Enc, "starttime")
		shift(x.Enc, "authtime", (c.skewMs()+margin)*time.Millisecond)
	}},
	{"key-other", "reject", "reject", func(c Case, x *kdc.ReplyCtx, p int64) {
		x.ReplyKey = mint.Key{EType: x.ReplyKey.EType, Value: ref.RandomKey(x.ReplyKey.EType, []byte("an-unrelated-key-an-unrelated-key-0123456789"))}
	}},
	{"usage-other", "reject", "reject", func(c Case, x *kdc.ReplyCtx, p int64) {
		if x.Usage == 3 {
			x.Usage = 8
		} else {
			x.Usage = 3
		}
	}},
	{"usage-ticket", "reject", "reject", func(c Case, x *kdc.ReplyCtx, p int64) { x.Usage = 2 }},
	{"msgtype-field-wrong", "reject", "reject", func(c Case, x *kdc.ReplyCtx, p int64) {
		if x.Kind == "AS" {
			x.Rep["msg-type"] = int64(13)
		} else {
			x.Rep["msg-type"] = int64(11)
		}
	}},
	{"other-exchange-reply", "reject", "reject", func(c Case, x *kdc.ReplyCtx, p int64) {
		// the whole reply re-labelled as the other exchange's message (application tag and msg-type)
		if x.Kind == "AS" {
			x.RepType, x.Rep["msg-type"] = der.TGSRep, int64(13)
		} else {
			x.RepType, x.Rep["msg-type"] = der.ASRep, int64(11)
		}
	}},
	{"enc-part-tag-other", "free", "free", func(c Case, x *kdc.ReplyCtx, p int64) {
		if x.EncApp == der.EncASRepPart {
			x.EncApp = der.EncTGSRepPart
		} else {
			x.EncApp = der.EncASRepPart
		}
	}},
	{"cipher-flip-first", "reject", "reject", func(c Case, x *kdc.ReplyCtx, p int64) {
		x.Tamper = func(b []byte) []byte { o := append([]byte{}, b...); o[0] ^= 0x20; return o }
	}},
	{"cipher-flip-middle", "reject", "reject", func(c Case, x *kdc.ReplyCtx, p int64) {
		x.Tamper = func(b []byte) []byte { o := append([]byte{}, b...); o[len(o)/2] ^= 0x01; return o }
	}},
	{"cipher-flip-last", "reject", "reject", func(c Case, x *kdc.ReplyCtx, p int64) {
		x.Tamper = func(b []byte) []byte { o := append([]byte{}, b...); o[len(o)-1] ^= 0x80; return o }
	}},
	{"cipher-truncated-1", "reject", "reject", func(c Case, x *kdc.ReplyCtx, p int64) {
		x.Tamper = func(b []byte) []byte { return b[:len(b)-1] }
	}},
	{"cipher-truncated-most", "reject", "reject", func(c Case, x *kdc.ReplyCtx, p int64) {
		x.Tamper = func(b []byte) []byte { return b[:5] }
	}},
	{"cipher-empty", "reject", "reject", func(c Case, x *kdc.ReplyCtx, p int64) {
		x.Tamper = func(b []byte) []byte { return []byte{} }
	}},
	{"reply-truncated", "reject", "reject", func(c Case, x *kdc.ReplyCtx, p int64) {
		x.Post = func(b []byte) []byte { return b[:len(b)*2/3] }
	}},
}

func perturbByName(n string) *perturb {
	for i := range catalogue {
		if catalogue[i].name == n {
			return &catalogue[i]
		}
	}
	return nil
}

var etypeNames = map[int32]string{16: "des3-cbc-sha1-kd", 17: "aes128-cts-hmac-sha1-96", 18: "aes256-cts-hmac-sha1-96",
	19: "aes128-cts-hmac-sha256-128", 20: "aes256-cts-hmac-sha384-192", 23: "rc4-hmac"}

// Effect returns the expected verdict for a case: accept | reject | free.
func Effect(c Case) string {
	if c.Perturb == "krb-error" {
		return "reject"
	}
	p := perturbByName(c.Perturb)
	e := p.tgs
	if c.Exchange == "AS" {
		e = p.as
	}
	if c.Exchange == "TGS-REF" {
		switch c.Perturb {
		case "ticket-sname-other", "ticket-realm-other", "enc-sname-other", "enc-srealm-other":
			return "free" // changes where the client is sent next; the statement does not decide it
		}
	}
	switch c.Perturb {
	case "usage-other":
		if c.EType == ref.RC4 {
			return "accept" // RFC 4757 maps usages 3 and 8 to the same value
		}
	case "caddr-removed":
		if !c.Addrs {
			return "accept" // nothing to remove
		}
	case "caddr-retyped":
		if !c.Addrs {
			return "accept" // nothing to re-type
		}
	case "caddr-added", "caddr-added-netbios", "caddr-added-ipv6", "caddr-added-directional":
		if c.Exchange == "TGS" && !c.Addrs {
			return "reject"
		}
	case "caddr-replaced":
		if c.Exchange == "AS" && !c.Addrs {
			return "free" // the request listed no addresses: same situation as caddr-added
		}
	case "crealm-other":
		if c.Exchange != "AS" && !c.E2E {
			// TGSRep.Verify(cfg, tgsReq) is not given the client's realm (the TGS-REQ body carries only the
			// server realm), so at the message level the comparison cannot be made; the exchange as a whole
			// (Client.GetServiceTicket, end-to-end cases) must reject it
			return "free"
		}
	}
	return e
}

type world struct {
	w     *kdc.World
	realm *kdc.Realm
	cfg   *config.Config
	creds *credentials.Credentials
	kt    *keytab.Keytab
}

func build(c Case, addrs []string) (*world, error) {
	w := kdc.NewWorld(c.Seed)
	r := w.AddRealm("EXAMPLE.COM", kdc.Policy{ETypes: []int32{c.EType}, TicketEType: c.EType, PreauthRequired: c.Preauth})
	var salt *string
	if c.Salted {
		s := "Custom-Salt-" + fmt.Sprint(c.Seed%97)
		salt = &s
	}
	iter := uint32(0)
	if c.EType == ref.AES128SHA2 || c.EType == ref.AES256SHA2 || c.EType == ref.AES128SHA1 || c.EType == ref.AES256SHA1 {
		iter = 64 // keep string-to-key cheap; advertised through ETYPE-INFO2
	}
	pr := r.AddClient(c.client(), "pass-"+fmt.Sprint(c.Seed%1000), salt, iter)
	r.AddService("HTTP/web.example.com")
	lim := 1
	limp := &lim
	if c.UDPBig {
		limp = nil // the default limit: small requests go out over UDP first
	}
	extra := ""
	if c.Addrs {
		extra = "  extra_addresses = 10.9.8.7,10.9.8.6\n"
	}
	co := kdc.ConfOpts{}
	switch c.Opts {
	case "canonicalize":
		co.Canonicalize = true
	case "fwd-prox-renew":
		co.Forwardable, co.Proxiable, co.RenewLifetime = true, true, "1h"
	case "clockskew60":
		extra += "  clockskew = 60\n"
	case "clockskew900":
		extra += "  clockskew = 900\n"
	}
	if len(addrs) == 0 {
		addrs = []string{"127.0.0.1:1"}
	}
	co.DefaultRealm, co.ETypes, co.NoAddresses, co.UDPPrefLimit, co.Extra = "EXAMPLE.COM", etypeNames[c.EType], !c.Addrs, limp, extra+"  allow_weak_crypto = true\n"
	txt := kdc.ConfText(co, map[string][]string{"EXAMPLE.COM": addrs})
	cfg, err := config.NewFromString(txt)
	if err != nil {
		return nil, err
	}
	wd := &world{w: w, realm: r, cfg: cfg}
	if c.Cred == "keytab" {
		kt := keytab.New()
		if err := kt.Unmarshal(mint.KeytabBytes([]mint.KeytabEntry{{Principal: c.client(), Realm: "EXAMPLE.COM", KVNO: 1, Key: r.Key(pr, c.EType), Timestamp: 1000}})); err != nil {
			return nil, err
		}
		wd.kt = kt
		wd.creds = credentials.New(c.client(), "EXAMPLE.COM").WithKeytab(kt)
	} else {
		wd.creds = credentials.New(c.client(), "EXAMPLE.COM").WithPassword(pr.Password)
	}
	return wd, nil
}

func (wd *world) setMutate(c Case, exchange string, prevNonce *int64) {
	wd.realm.Mutate = func(x *kdc.ReplyCtx) {
		if x.Kind != exchange {
			return
		}
		if c.Perturb == "krb-error" {
			code := c.Code
			x.Error = &code
			return
		}
		perturbByName(c.Perturb).f(c, x, *prevNonce)
	}
}

func krbCode(err error) (int32, bool) {
	var ke messages.KRBError
	if errors.As(err, &ke) {
		return ke.ErrorCode, true
	}
	if k, ok := err.(messages.KRBError); ok {
		return k.ErrorCode, true
	}
	return 0, false
}

// Eval runs one case.
func Eval(c Case) evid.Verdict {
	return evid.SafeEval(func() evid.Verdict {
		if c.E2E {
			return evalE2E(c)
		}
		wd, err := build(c, nil)
		if err != nil {
			return evid.Fail("harness", "build: %v", err)
		}
		exp := Effect(c)
		ctx := fmt.Sprintf("%s exchange, etype %d, %s credentials, salted=%v, addresses=%v, perturbation %q", c.Exchange, c.EType, c.Cred, c.Salted, c.Addrs, c.Perturb)
		cname := types.PrincipalName{NameType: int32(max(1, c.NameType)), NameString: mint.Name(c.client())}
		wd.creds.SetCName(cname)
		var prevNonce int64 = 424242
		// AS exchange (always needed: the TGS exchange presents its TGT)
		asReq, err := messages.NewASReqForTGT("EXAMPLE.COM", wd.cfg, cname)
		if err != nil {
			return evid.Fail("harness", "NewASReqForTGT: %v", err)
		}
		if c.Exchange == "AS" {
			// a previous request whose nonce a stale reply would carry
			old, _ := messages.NewASReqForTGT("EXAMPLE.COM", wd.cfg, cname)
			prevNonce = int64(old.ReqBody.Nonce)
			if prevNonce == int64(asReq.ReqBody.Nonce) {
				prevNonce++
			}
			wd.setMutate(c, "AS", &prevNonce)
		}
		rb, err := asReq.Marshal()
		if err != nil {
			return evid.Fail("harness", "ASReq.Marshal: %v", err)
		}
		t0 := time.Now()
		rep := wd.realm.Handle(rb)
		var asRep messages.ASRep
		judge := func(ok bool, verr error, elapsed time.Duration) evid.Verdict {
			if elapsed > 1500*time.Millisecond {
				return evid.Pass() // straddled the time margins on a slow machine: not judged
			}
			if c.Perturb == "krb-error" {
				if ok {
					return evid.Fail("krb-error-accepted", "a KRB-ERROR (code %d) reply was accepted; %s", c.Code, ctx)
				}
				code, isK := krbCode(verr)
				if (!isK || int(code) != c.Code) && !strings.Contains(fmt.Sprint(verr), errorcode.Lookup(int32(c.Code))) {
					return evid.Fail("krb-error-code-lost", "KRB-ERROR code %d reached the caller as %v (no error code); %s", c.Code, verr, ctx)
				}
				return evid.Pass()
			}
			switch exp {
			case "accept":
				if !ok {
					return evid.Fail("reject-valid:"+c.Exchange+":"+c.Perturb, "a reply that answers the request was rejected: %v; %s", verr, ctx)
				}
			case "reject":
				if ok {
					return evid.Fail("accept-despite:"+c.Exchange+":"+c.Perturb, "a reply that does not answer the request was accepted; %s", ctx)
				}
				if verr == nil {
					return evid.Fail("reject-without-error", "verification failed with a nil error; %s", ctx)
				}
			}
			return evid.Pass()
		}
		if c.Exchange == "AS" {
			uerr := asRep.Unmarshal(rep)
			if uerr != nil {
				return judge(false, uerr, time.Since(t0))
			}
			ok, verr := asRep.Verify(wd.cfg, wd.creds, asReq)
			return judge(ok, verr, time.Since(t0))
		}
		if err := asRep.Unmarshal(rep); err != nil {
			return evid.Fail("harness", "unperturbed AS-REP did not decode: %v", err)
		}
		if ok, err := asRep.Verify(wd.cfg, wd.creds, asReq); !ok {
			return evid.Fail("harness", "unperturbed AS-REP did not verify: %v", err)
		}
		tgt, skey := asRep.Ticket, asRep.DecryptedEncPart.Key
		spn := types.PrincipalName{NameType: 2, NameString: []string{"HTTP", "web.example.com"}}
		old, err := messages.NewTGSReq(cname, "EXAMPLE.COM", wd.cfg, tgt, skey, spn, false)
		if err != nil {
			return evid.Fail("harness", "NewTGSReq: %v", err)
		}
		tgsReq, err := messages.NewTGSReq(cname, "EXAMPLE.COM", wd.cfg, tgt, skey, spn, false)
		if err != nil {
			return evid.Fail("harness", "NewTGSReq: %v", err)
		}
		prevNonce = int64(old.ReqBody.Nonce)
		if prevNonce == int64(tgsReq.ReqBody.Nonce) {
			prevNonce++
		}
		wd.setMutate(c, "TGS", &prevNonce)
		tb, err := tgsReq.Marshal()
		if err != nil {
			return evid.Fail("harness", "TGSReq.Marshal: %v", err)
		}
		t0 = time.Now()
		trep := wd.realm.Handle(tb)
		var tgsRep messages.TGSRep
		if uerr := tgsRep.Unmarshal(trep); uerr != nil {
			return judge(false, uerr, time.Since(t0))
		}
		if derr := tgsRep.DecryptEncPart(skey); derr != nil {
			return judge(false, derr, time.Since(t0))
		}
		ok, verr := tgsRep.Verify(wd.cfg, tgsReq)
		return judge(ok, verr, time.Since(t0))
	})
}

// evalReferral: the service lives one realm away and there is no [domain_realm] mapping, so the home KDC
// answers with a referral TGT. The perturbation is applied to that intermediate reply only (Exchange
// "TGS-REF") - the client must check a referral reply like any other TGS reply.
func evalReferral(c Case) evid.Verdict {
	spec := c10.Spec{Seed: c.Seed, Cred: c.Cred, ETypes: []int32{c.EType}, Preauth: "none", NoAddr: !c.Addrs, Hops: 1, Via: "referral", KDCs: 1}
	w, err := c10.Build(&spec)
	if err != nil {
		return evid.Fail("harness", "build: %v", err)
	}
	defer w.Stop()
	var prev int64 = 424242
	applied := 0
	w.Realms[0].Mutate = func(x *kdc.ReplyCtx) {
		if x.Kind != "TGS" || !strings.HasPrefix(x.Ticket.SName, "krbtgt/") {
			return
		}
		applied++
		if c.Perturb == "krb-error" {
			code := c.Code
			x.Error = &code
			return
		}
		perturbByName(c.Perturb).f(c, x, prev)
	}
	cl := w.NewClient()
	defer cl.Destroy()
	done := make(chan error, 1)
	t0 := time.Now()
	go func() {
		if err := cl.Login(); err != nil {
			done <- fmt.Errorf("login: %v", err)
			return
		}
		_, _, err := cl.GetServiceTicket(spec.SPN(0))
		done <- err
	}()
	var rerr error
	select {
	case rerr = <-done:
	case <-time.After(60 * time.Second):
		return evid.Fail("no-return", "client call did not return within 60 s; %+v", c)
	}
	if time.Since(t0) > 1500*time.Millisecond {
		return evid.Pass()
	}
	ctx := fmt.Sprintf("referral reply of the home KDC perturbed (%q, code %d), etype %d, %s credentials; perturbation applied to %d replies; final-realm KDC saw %d requests", c.Perturb, c.Code, c.EType, c.Cred, applied, len(w.Realms[1].SnapshotSeen()))
	if applied == 0 {
		return evid.Fail("harness", "no referral reply was produced; %s", ctx)
	}
	if c.Perturb == "krb-error" {
		if rerr == nil {
			return evid.Fail("krb-error-accepted", "the call succeeded although the KDC answered KRB-ERROR; %s", ctx)
		}
		return evid.Pass()
	}
	switch Effect(c) {
	case "accept":
		if rerr != nil {
			return evid.Fail("reject-valid:TGS-REF:"+c.Perturb, "a correct referral chain failed: %v; %s", rerr, ctx)
		}
	case "reject":
		if rerr == nil {
			return evid.Fail("accept-despite:TGS-REF:"+c.Perturb, "the client followed a referral reply that does not answer its request; %s", ctx)
		}
	}
	return evid.Pass()
}

// evalE2E: the same perturbation sent over the wire to a real client.
func evalE2E(c Case) evid.Verdict {
	if c.Exchange == "TGS-REF" {
		return evalReferral(c)
	}
	ip := kdc.UniqueIP()
	addr := ip + ":8890"
	wd, err := build(c, []string{addr})
	if err != nil {
		return evid.Fail("harness", "build: %v", err)
	}
	udp := kdc.Refuses
	if c.UDPBig {
		udp = kdc.TooBig
	}
	srv := kdc.NewServer(wd.realm, ip, 8890, udp, kdc.Answers, "k")
	if err := srv.Start(); err != nil {
		return evid.Fail("harness", "listen: %v", err)
	}
	defer srv.Stop()
	var prev int64 = 424242
	wd.setMutate(c, c.Exchange, &prev)
	var cl *client.Client
	opts := []func(*client.Settings){client.DisablePAFXFAST(true), client.Logger(log.New(io.Discard, "", 0))}
	if c.Cred == "keytab" {
		cl = client.NewWithKeytab(c.client(), "EXAMPLE.COM", wd.kt, wd.cfg, opts...)
	} else {
		cl = client.NewWithPassword(c.client(), "EXAMPLE.COM", wd.creds.Password(), wd.cfg, opts...)
	}
	defer cl.Destroy()
	done := make(chan error, 1)
	t0 := time.Now()
	go func() {
		if err := cl.Login(); err != nil {
			done <- err
			return
		}
		if c.Exchange == "TGS" {
			_, _, err := cl.GetServiceTicket("HTTP/web.example.com")
			done <- err
			return
		}
		done <- nil
	}()
	var rerr error
	select {
	case rerr = <-done:
	case <-time.After(60 * time.Second):
		return evid.Fail("no-return", "client call did not return within 60 s; %+v", c)
	}
	if time.Since(t0) > 1500*time.Millisecond {
		return evid.Pass()
	}
	ctx := fmt.Sprintf("end-to-end %s exchange, etype %d, %s credentials, perturbation %q (code %d); requests seen by the KDC: %d", c.Exchange, c.EType, c.Cred, c.Perturb, c.Code, len(wd.realm.Seen))
	if len(wd.realm.Seen) > 12 {
		return evid.Fail("unbounded-requests", "the client sent %d requests; %s", len(wd.realm.Seen), ctx)
	}
	if c.Perturb == "krb-error" {
		if rerr == nil {
			return evid.Fail("krb-error-accepted", "the call succeeded although the KDC answered KRB-ERROR %d; %s", c.Code, ctx)
		}
		if !strings.Contains(rerr.Error(), errorcode.Lookup(int32(c.Code))) && !strings.Contains(rerr.Error(), fmt.Sprintf("(%d)", c.Code)) {
			return evid.Fail("krb-error-code-lost", "KRB-ERROR code %d reached the caller as %q; %s", c.Code, rerr, ctx)
		}
		return evid.Pass()
	}
	switch Effect(c) {
	case "accept":
		if rerr != nil {
			return evid.Fail("reject-valid:"+c.Exchange+":"+c.Perturb, "a correct exchange failed: %v; %s", rerr, ctx)
		}
	case "reject":
		if rerr == nil {
			return evid.Fail("accept-despite:"+c.Exchange+":"+c.Perturb, "the client accepted a reply that does not answer its request; %s", ctx)
		}
	}
	return evid.Pass()
}

func count(r *evid.Run, c Case) {
	mode := "fast"
	if c.E2E {
		mode = "e2e"
	}
	nt := ""
	if c.Perturb != "none" {
		nt = fmt.Sprintf("%s|%d|%s|%v|%v|%s|%d|%s", c.Exchange, c.EType, c.Cred, c.Salted, c.Addrs, c.Perturb, c.Code, mode)
	}
	r.Count(nt, "exchange:"+c.Exchange, fmt.Sprintf("etype%d", c.EType), "cred:"+c.Cred, "perturb:"+c.Perturb, "expect:"+Effect(c), "mode:"+mode)
	r.Sample(c.Exchange+"/"+c.Perturb+"/"+mode, c)
}

func TestProp(t *testing.T) {
	r := evid.Start(t, "C09", "exploration")
	evid.Reg(r, "reply", Eval)
	evid.Reg(r, "enum", Eval)
	if r.Replay() {
		return
	}
	defer r.Finish()
	if err := refcheck.All(); err != nil {
		r.Inconclusive("reference self-test failed: %v", err)
		return
	}
	r.Regress()
	r.Assume("replies come from sim/kdc (ref/der + ref/krbcrypto): the correct reply to a request built by gokrb5's own request constructors, with exactly one perturbation applied before encoding/encryption; KDC time windows are probed at +-4 s from the skew edge; perturbations the statement does not constrain (ticket realm/sname, enc-part sname on TGS, enc-part application tag) are only required not to panic")
	var names []string
	for _, p := range catalogue {
		names = append(names, p.name)
	}
	codes := []int{}
	for code := 1; code <= 93; code++ {
		codes = append(codes, code)
	}
	codes = append(codes, 100, 127, 200, 1000)
	r.Rule(fmt.Sprintf("reply: exchange {AS,TGS} x etype (6) x credential {password, keytab} x salted x addresses x one perturbation from a catalogue of %d (nonce +-1/stale, cname, crealm, sname, srealm, ticket realm/sname, address lists, authtime/starttime inside/outside the skew, other key, other usage, wrong message type, other exchange's reply, tampered/truncated ciphertext, truncated reply) or a KRB-ERROR with any code; fast path (Unmarshal+Verify) and end-to-end through Client.Login/GetServiceTicket over loopback; non-trivial = any perturbed reply", len(names)))
	r.Rapid("reply", r.N(2500, 60000), func(t *rapid.T) {
		c := Case{Exchange: rapid.SampledFrom([]string{"AS", "TGS"}).Draw(t, "exchange"), EType: rapid.SampledFrom(ref.ETypes).Draw(t, "etype"),
			Cred: rapid.SampledFrom([]string{"password", "keytab"}).Draw(t, "cred"), Salted: rapid.Bool().Draw(t, "salted"), Addrs: rapid.Bool().Draw(t, "addrs"),
			Seed: rapid.Uint64Range(1, 1<<40).Draw(t, "seed"), E2E: rapid.IntRange(0, 19).Draw(t, "e2e") == 0}
		if rapid.IntRange(0, 6).Draw(t, "kind") == 0 {
			c.Perturb, c.Code = "krb-error", rapid.SampledFrom(codes).Draw(t, "code")
		} else {
			c.Perturb = rapid.SampledFrom(names).Draw(t, "perturb")
		}
		if c.Cred == "keytab" {
			c.Salted = false
		}
		c.Client = rapid.SampledFrom([]string{"", "alice/admin"}).Draw(t, "client")
		c.Opts = rapid.SampledFrom(append([]string{"", ""}, optsList...)).Draw(t, "opts")
		c.NameType = rapid.SampledFrom([]int{0, 0, 10, 2}).Draw(t, "name-type")
		c.UDPBig = c.E2E && rapid.IntRange(0, 2).Draw(t, "udpbig") == 0
		if c.Exchange == "TGS" && rapid.IntRange(0, 9).Draw(t, "referral") == 0 {
			c.Exchange, c.E2E, c.Addrs, c.Salted, c.Client, c.Opts, c.UDPBig = "TGS-REF", true, false, false, "", "", false
		}
		count(r, c)
		if r.Judge("reply", c, Eval(c)) {
			t.Fatalf("violation")
		}
	})
	// enumeration: every perturbation x exchange x etype x credential kind (fast path); every KRB-ERROR code
	var jobs []Case
	k := 0
	for _, ex := range []string{"AS", "TGS"} {
		for _, et := range ref.ETypes {
			for _, cred := range []string{"password", "keytab"} {
				for _, p := range names {
					for _, addrs := range []bool{false, true} {
						k++
						if r.Quick() && (k+int(r.Seed()))%3 != 0 {
							continue
						}
						jobs = append(jobs, Case{Exchange: ex, EType: et, Cred: cred, Addrs: addrs, Perturb: p, Seed: r.Seed()*977 + uint64(k), Salted: cred == "password" && k%2 == 0,
							Client: []string{"", "alice/admin"}[(k/2)%2], Opts: optsList[(k/4)%len(optsList)], NameType: []int{0, 10, 0}[(k/3)%3]})
						if strings.HasPrefix(p, "cname-") || strings.HasPrefix(p, "crealm-") {
							// the client-identity perturbations under every name type x canonicalize on / off
							for _, nt := range []int{10, 2} {
								for _, o := range []string{"", "canonicalize"} {
									jobs = append(jobs, Case{Exchange: ex, EType: et, Cred: cred, Addrs: addrs, Perturb: p, Seed: r.Seed()*983 + uint64(k), Opts: o, NameType: nt})
								}
							}
						}
					}
				}
			}
		}
		for ci, code := range codes {
			et := ref.ETypes[ci%len(ref.ETypes)]
			jobs = append(jobs, Case{Exchange: ex, EType: et, Cred: "password", Perturb: "krb-error", Code: code, Seed: r.Seed()*31 + uint64(code)})
			if r.Thorough() || ci%6 == int(r.Seed())%6 {
				jobs = append(jobs, Case{Exchange: ex, EType: et, Cred: "keytab", Perturb: "krb-error", Code: code, Seed: r.Seed()*37 + uint64(code), E2E: true})
			}
			if ex == "AS" && code != 24 && code != 25 && (r.Thorough() || ci%3 == int(r.Seed())%3) {
				// the KDC first asks for pre-authentication; the error answers the second, pre-authenticated request and it is
				// that error the caller has to see
				jobs = append(jobs, Case{Exchange: ex, EType: et, Cred: []string{"keytab", "password"}[ci%2], Perturb: "krb-error", Code: code, Seed: r.Seed()*43 + uint64(code), E2E: true, Preauth: true, Salted: ci%4 == 1})
			}
			if r.Thorough() || ci%6 == (int(r.Seed())+3)%6 {
				// the KDC's error arrives over TCP after UDP said RESPONSE_TOO_BIG: it is the TCP answer that counts
				jobs = append(jobs, Case{Exchange: ex, EType: et, Cred: "keytab", Perturb: "krb-error", Code: code, Seed: r.Seed()*41 + uint64(code), E2E: true, UDPBig: true})
			}
		}
	}
	// end-to-end sample of the perturbation catalogue
	for pi, p := range names {
		for ei, ex := range []string{"AS", "TGS"} {
			if r.Thorough() || (pi+ei+int(r.Seed()))%3 == 0 {
				jobs = append(jobs, Case{Exchange: ex, EType: ref.ETypes[(pi+ei)%6], Cred: []string{"password", "keytab"}[pi%2], Perturb: p, Seed: r.Seed()*53 + uint64(pi), E2E: true, Addrs: pi%3 == 0,
					Client: []string{"alice/admin", ""}[(pi/2)%2], Opts: optsList[(pi+ei)%len(optsList)], UDPBig: (pi+ei)%4 == 1, Preauth: (pi+ei)%3 == 2})
			}
		}
	}
	for pi, p := range names {
		if r.Thorough() || (pi+int(r.Seed()))%2 == 0 || strings.HasPrefix(p, "crealm") || strings.HasPrefix(p, "nonce") || strings.HasPrefix(p, "cname") {
			jobs = append(jobs, Case{Exchange: "TGS-REF", EType: ref.ETypes[pi%6], Cred: []string{"password", "keytab"}[pi%2], Perturb: p, Seed: r.Seed()*59 + uint64(pi), E2E: true, Addrs: false})
		}
	}
	r.Rule("enum: every perturbation x exchange x etype x credential kind x addresses (quick: a seeded 1/3 slice) on the fast path; every KRB-ERROR code 1..93 and four unknown codes on both exchanges (end-to-end for a slice); the catalogue end-to-end")
	evid.Parallel(len(jobs), 32, func(i int) {
		c := jobs[i]
		count(r, c)
		r.Violation("enum", c, Eval(c))
	})
}
