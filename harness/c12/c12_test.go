// C12 — a KDC exchange succeeds whenever some configured KDC and transport works.
package c12

import (
	"fmt"
	"net"
	"sort"
	"strconv"
	"strings"
	"sync"
	"sync/atomic"
	"testing"
	"time"

	"github.com/jcmturner/gokrb5/v8/client"
	"github.com/jcmturner/gokrb5/v8/config"
	"pgregory.net/rapid"

	"verif/harness/evid"
	"verif/harness/mint"
	"verif/harness/ref/der"
	"verif/harness/refcheck"
	"verif/harness/sim/dns"
	"verif/harness/sim/kdc"
)

// EP is the behaviour of one KDC host on its two transports.
type EP struct {
	UDP kdc.Behaviour `json:"udp"`
	TCP kdc.Behaviour `json:"tcp"`
}

// Case is one fault assignment.
type Case struct {
	EPs   []EP   `json:"kdcs"`
	Limit string `json:"udp_preference_limit"` // "1" (TCP only) | "small" (below the request size: TCP first) | "large" (UDP first)
	Code  int    `json:"code,omitempty"`       // error code of the endpoints answering a KRB-ERROR (0 = 12, KDC_ERR_POLICY)
	Then  []EP   `json:"then,omitempty"`       // a second exchange of the same client after the endpoints changed to these behaviours
	Names string `json:"names,omitempty"`      // the kdc lines name hosts instead of addresses: "single" = each name has one address, "multi" = two dead addresses in front of the real one
	List  []int  `json:"kdc_lines,omitempty"`  // the realm's kdc lines in order, as indices into kdcs (a host may be listed more than once); empty = each once
	Try   int    `json:"try,omitempty"`        // n-th try of the same assignment (the library shuffles the KDC list)
	Size  int    `json:"reply_size,omitempty"` // the KDC's AS-REP is exactly this many octets long (authorization data of that size in the ticket, as PACs make them)
}

var udpBeh = []kdc.Behaviour{kdc.Answers, kdc.Refuses, kdc.ClosesEarly, kdc.Silent, kdc.AnswersErr, kdc.TooBig}
var tcpBeh = []kdc.Behaviour{kdc.Answers, kdc.Refuses, kdc.ClosesEarly, kdc.Silent, kdc.AnswersErr, kdc.CutsBody, kdc.CutsHeader}

func faulty(b kdc.Behaviour) bool {
	return b == kdc.Refuses || b == kdc.ClosesEarly || b == kdc.Silent || b == kdc.CutsBody || b == kdc.CutsHeader
}

// plainCodes are KRB-ERROR codes a client has no business reacting to other than by reporting them (not the
// pre-authentication codes 24/25, RESPONSE_TOO_BIG 52 or WRONG_REALM 68).
var plainCodes = func() []int {
	var out []int
	for c := 1; c <= 93; c++ {
		if c != 24 && c != 25 && c != 52 && c != 68 {
			out = append(out, c)
		}
	}
	return out
}()

// outcome of the reference model: "ok", "fail", or "err:<tag>".
func tryTransport(c Case, proto string, order []int) string {
	for _, i := range order {
		b := c.EPs[i].UDP
		if proto == "tcp" {
			b = c.EPs[i].TCP
		}
		switch {
		case faulty(b):
			continue
		case b == kdc.Answers:
			return "ok"
		case b == kdc.TooBig:
			return fmt.Sprintf("toobig:k%d/%s", i+1, proto)
		default:
			return fmt.Sprintf("err:k%d/%s", i+1, proto)
		}
	}
	return "fail"
}

func perms(n int) [][]int {
	var out [][]int
	var rec func(cur []int, used []bool)
	rec = func(cur []int, used []bool) {
		if len(cur) == n {
			out = append(out, append([]int{}, cur...))
			return
		}
		for i := 0; i < n; i++ {
			if !used[i] {
				used[i] = true
				rec(append(cur, i), used)
				used[i] = false
			}
		}
	}
	rec(nil, make([]bool, n))
	return out
}

// Expected is the set of outcomes the statement admits, over every server order (the order is
// random per attempt): the intended algorithm of RFC 4120 §7.2.1 clients as the statement
// describes it — skip faulty servers, surface a KRB-ERROR, switch to TCP on response-too-big,
// fall back to the other transport when every server of the first one is faulty.
func Expected(c Case) map[string]bool {
	if c.Names == "srv" {
		c.Names = "single" // found through service records instead of kdc lines: the same servers
	}
	if c.Names == "srv-tcp-only" {
		// no _kerberos._udp records: nothing can be reached over UDP, everything over TCP as usual
		eps := append([]EP{}, c.EPs...)
		for i := range eps {
			eps[i].UDP = kdc.Refuses
		}
		c.EPs, c.Names = eps, "single"
	}
	if c.Names == "single+dead" {
		// a further kdc line names a host that does not resolve: one more server whose every endpoint is faulty
		c.EPs, c.Names = append(append([]EP{}, c.EPs...), EP{kdc.Refuses, kdc.Refuses}), "single"
	}
	if c.Names == "multi" {
		// a name whose first address is dead: a TCP connection goes on to the next address, a UDP "connection" does not
		// (nothing tells the sender in time), so over UDP every such host behaves as if it refused
		eps := append([]EP{}, c.EPs...)
		for i := range eps {
			eps[i].UDP = kdc.Refuses
		}
		c.EPs, c.Names = eps, "single"
	}
	exp := map[string]bool{}
	surf := func(r string) string { return "err:" + strings.SplitN(r, ":", 2)[1] }
	ps := perms(len(c.EPs))
	for _, p1 := range ps {
		for _, p2 := range ps {
			switch c.Limit {
			case "1":
				r := tryTransport(c, "tcp", p1)
				switch {
				case r == "ok" || r == "fail":
					exp[r] = true
				default:
					exp[surf(r)] = true
				}
			case "large": // UDP first
				r := tryTransport(c, "udp", p1)
				switch {
				case r == "ok":
					exp["ok"] = true
				case strings.HasPrefix(r, "err:"):
					exp[r] = true
				default: // too-big or all faulty -> TCP
					r2 := tryTransport(c, "tcp", p2)
					switch {
					case r2 == "ok" || r2 == "fail":
						exp[r2] = true
					default:
						exp[surf(r2)] = true
					}
				}
			case "small": // TCP first
				r := tryTransport(c, "tcp", p1)
				switch {
				case r == "ok":
					exp["ok"] = true
				case r == "fail":
					r2 := tryTransport(c, "udp", p2)
					switch {
					case r2 == "ok" || r2 == "fail":
						exp[r2] = true
					default:
						exp[surf(r2)] = true
					}
				default:
					exp[surf(r)] = true
				}
			}
		}
	}
	return exp
}

var sizeMiss atomic.Int64 // a sized reply (Case.Size) that came out at another length: the harness's fault

// Eval runs one login under the fault assignment.
func Eval(c Case) evid.Verdict {
	return evid.SafeEval(func() evid.Verdict {
		w := kdc.NewWorld(99)
		ip := kdc.UniqueIP()
		realm := "EXAMPLE.COM"
		if strings.HasPrefix(c.Names, "srv") {
			// the KDCs are found through DNS service records, which are published per realm: every case has a realm of its own
			realm = "R" + strings.ReplaceAll(ip, ".", "-") + ".TEST"
		}
		r := w.AddRealm(realm, kdc.Policy{})
		r.AddClient("alice", "password1", nil, 0)
		if c.Size > 0 {
			r.Mutate = func(x *kdc.ReplyCtx) {
				if x.Kind != "AS" {
					return
				}
				base := append([]mint.AD{}, x.Ticket.AuthData...)
				pad := 0
				for i := 0; i < 12; i++ {
					x.Ticket.AuthData = append(append([]mint.AD{}, base...), mint.AD{Type: 1, Data: der.AuthData.MustEncode([]any{der.M{"ad-type": int64(99), "ad-data": make([]byte, pad)}})})
					rep := der.M{}
					for k, v := range x.Rep {
						rep[k] = v
					}
					rep["ticket"] = x.Ticket.Value()
					rep["enc-part"] = mint.EncData(x.ReplyKey, x.Usage, x.EncApp.MustEncode(x.Enc), make([]byte, 16), nil)
					n := len(x.RepType.MustEncode(rep))
					if n == c.Size {
						break
					}
					pad = max(0, pad+c.Size-n)
				}
				x.Post = func(b []byte) []byte {
					if len(b) != c.Size {
						sizeMiss.Store(int64(len(b)))
					}
					return b
				}
			}
		}
		var servers []*kdc.Server
		var addrs []string
		code := c.Code
		if code == 0 {
			code = 12 // KDC_ERR_POLICY: never retried by a client
		}
		stopAll := func() {
			for _, s := range servers {
				s.Stop()
			}
			servers = nil
		}
		startAll := func(eps []EP) error {
			for i, ep := range eps {
				s := kdc.NewServer(r, ip, 8800+i, ep.UDP, ep.TCP, fmt.Sprintf("k%d", i+1))
				s.UDP.Code, s.TCP.Code = code, code
				var err error
				for try := 0; try < 20; try++ { // a port just closed may need a moment
					if err = s.Start(); err == nil {
						break
					}
					s.Stop()
					time.Sleep(50 * time.Millisecond)
				}
				if err != nil {
					stopAll()
					return fmt.Errorf("cannot bind %s: %v", s.Addr, err)
				}
				servers = append(servers, s)
			}
			return nil
		}
		if err := startAll(c.EPs); err != nil {
			return evid.Fail("harness", "%v", err)
		}
		for _, s := range servers {
			addrs = append(addrs, s.Addr)
		}
		if c.Names != "" {
			ns, err := dns.Global()
			if err != nil {
				return evid.Fail("harness", "dns: %v", err)
			}
			for i, s := range servers {
				_, port, _ := net.SplitHostPort(s.Addr)
				name := fmt.Sprintf("k%d-%s.verif.test", i+1, strings.ReplaceAll(ip, ".", "-"))
				if c.Names == "multi" {
					ns.Set(name, kdc.UniqueIP(), kdc.UniqueIP(), ip)
				} else {
					ns.Set(name, ip)
				}
				addrs[i] = net.JoinHostPort(name, port)
			}
			if c.Names == "single+dead" {
				// the responder knows no such name (NXDOMAIN at once)
				addrs = append(addrs, fmt.Sprintf("retired-%s.verif.test:88", strings.ReplaceAll(ip, ".", "-")))
			}
			if strings.HasPrefix(c.Names, "srv") {
				// no kdc lines at all: dns_lookup_kdc = true and _kerberos._udp / _kerberos._tcp service records ("srv-tcp-only":
				// the realm publishes no _udp records, as sites do whose KDCs take TCP only)
				var recs []dns.SRV
				for _, a := range addrs {
					h, p, _ := net.SplitHostPort(a)
					pn, _ := strconv.Atoi(p)
					recs = append(recs, dns.SRV{Target: h, Port: pn})
				}
				ns.SetSRV("_kerberos._tcp."+realm, recs...)
				if c.Names == "srv" {
					ns.SetSRV("_kerberos._udp."+realm, recs...)
				}
				addrs = nil
			}
		}
		if len(c.List) > 0 {
			base := addrs
			addrs = nil
			for _, i := range c.List {
				addrs = append(addrs, base[i%len(base)])
			}
		}
		defer stopAll()
		lim := map[string]int{"1": 1, "small": 10, "large": 32700}[c.Limit]
		txt := kdc.ConfText(kdc.ConfOpts{DefaultRealm: realm, ETypes: "aes128-cts-hmac-sha1-96", NoAddresses: true, UDPPrefLimit: &lim}, map[string][]string{realm: addrs})
		if strings.HasPrefix(c.Names, "srv") {
			txt = strings.Replace(txt, "dns_lookup_kdc = false", "dns_lookup_kdc = true", 1)
		}
		cfg, err := config.NewFromString(txt)
		if err != nil {
			return evid.Fail("harness", "config: %v", err)
		}
		cl := client.NewWithPassword("alice", realm, "password1", cfg, client.DisablePAFXFAST(true))
		defer cl.Destroy()
		if v := exchange(c, cl, &servers, ""); !v.OK || len(c.Then) == 0 {
			if n := sizeMiss.Swap(0); c.Size > 0 && n != 0 {
				return evid.Fail("harness", "the simulated KDC's reply was %d octets, not the %d asked for", n, c.Size)
			}
			return v
		}
		// the endpoints change their behaviour; the same client tries again
		stopAll()
		if err := startAll(c.Then); err != nil {
			return evid.Fail("harness", "second phase: %v", err)
		}
		c2 := c
		c2.EPs, c2.Then = c.Then, nil
		v := exchange(c2, cl, &servers, fmt.Sprintf(" (second exchange of a client whose first one ran under %v)", c.EPs))
		if !v.OK && v.Sig != "harness" {
			v.Sig = "second-exchange:" + v.Sig
		}
		return v
	})
}

// exchange runs one login of the client under the endpoints' current behaviour and judges it.
func exchange(c Case, cl *client.Client, serversp *[]*kdc.Server, note string) evid.Verdict {
	servers := *serversp
	{
		type res struct{ err error }
		done := make(chan res, 1)
		start := time.Now()
		go func() { done <- res{cl.Login()} }()
		var lerr error
		select {
		case x := <-done:
			lerr = x.err
		case <-time.After(90 * time.Second):
			return evid.Fail("no-return", "Login did not return within 90 s under %v", c)
		}
		elapsed := time.Since(start)
		exp := Expected(c)
		var got string
		if lerr == nil {
			got = "ok"
		} else {
			got = "fail"
			for i := range c.EPs {
				for _, p := range []string{"udp", "tcp"} {
					// "surfaced as that error": the returned error is the KDC's KRB-ERROR (root cause KDC_Error), not a
					// networking failure whose text merely quotes what was tried
					if strings.Contains(lerr.Error(), "Root cause: KDC_Error") && strings.Contains(lerr.Error(), fmt.Sprintf("k%d/%s", i+1, p)) {
						got = fmt.Sprintf("err:k%d/%s", i+1, p)
					}
				}
			}
		}
		attempts := 0
		for _, s := range servers {
			attempts += int(s.UDP.Attempts.Load()) + int(s.TCP.Attempts.Load())
		}
		keys := []string{}
		for k := range exp {
			keys = append(keys, k)
		}
		sort.Strings(keys)
		desc := fmt.Sprintf("kdcs=%v udp_preference_limit=%s error code %d%s: outcome %q (error: %v); admissible outcomes %v; %d connection attempts seen; %.1fs", c.EPs, c.Limit, c.Code, note, got, lerr, keys, attempts, elapsed.Seconds())
		if !exp[got] {
			switch {
			case exp["ok"] && len(exp) == 1:
				first := "udp-first"
				if c.Limit == "small" {
					first = "tcp-first"
				} else if c.Limit == "1" {
					first = "tcp-only"
				}
				return evid.Fail("must-succeed:"+first+":"+got[:min(4, len(got))], "a working KDC/transport exists and every other permitted endpoint is faulty, yet the exchange did not succeed: %s", desc)
			case got == "ok":
				return evid.Fail("must-not-succeed", "the exchange succeeded although no admissible path leads to a correct answer: %s", desc)
			case strings.HasPrefix(got, "err:"):
				return evid.Fail("wrong-error-surfaced", "an error was surfaced that the algorithm should not have reached or should have retried: %s", desc)
			default:
				return evid.Fail("error-not-surfaced", "a KDC's KRB-ERROR should have been surfaced as that error: %s", desc)
			}
		}
		// only endpoints the permitted transports include may be contacted, at most once per kdc line and try
		lines := len(c.EPs)
		if len(c.List) > lines {
			lines = len(c.List)
		}
		if attempts > 2*lines {
			return evid.Fail("unbounded-attempts", "%d connection attempts for one request with %d KDCs: %s", attempts, len(c.EPs), desc)
		}
		if c.Limit == "1" {
			for i, s := range servers {
				if s.UDP.Attempts.Load() > 0 {
					return evid.Fail("udp-used-despite-limit-1", "KDC %d was contacted over UDP although udp_preference_limit = 1: %s", i+1, desc)
				}
			}
		}
		if lerr != nil && lerr.Error() == "" {
			return evid.Fail("empty-error", "failure reported with an empty error")
		}
		return evid.Pass()
	}
}

func silentCount(c Case) int {
	n := 0
	for _, e := range c.EPs {
		if e.UDP == kdc.Silent {
			n++
		}
		if e.TCP == kdc.Silent {
			n++
		}
	}
	return n
}

func nonTrivial(c Case) bool {
	for _, e := range c.EPs {
		if faulty(e.UDP) || faulty(e.TCP) {
			return true
		}
	}
	return false
}

func TestProp(t *testing.T) {
	r := evid.Start(t, "C12", "fault_enumeration")
	evid.Reg(r, "faults", Eval)
	evid.Reg(r, "enum", Eval)
	if r.Replay() {
		return
	}
	defer r.Finish()
	if err := refcheck.All(); err != nil {
		r.Inconclusive("reference self-test failed: %v", err)
		return
	}
	r.Regress()
	r.Assume("one simulated KDC family (sim/kdc) on loopback addresses unique per case; 'refuses' = nothing bound, 'closes early' = TCP accept+close / empty UDP datagram, 'silent' = request read and never answered (costs the library's fixed 5 s timeout); the admissible outcome set is computed over every server order because the library randomises it")
	var jobs []Case
	add := func(c Case) { jobs = append(jobs, c) }
	limits := []string{"1", "small", "large"}
	// n = 1: every assignment
	for _, u := range udpBeh {
		for _, tc := range tcpBeh {
			for _, l := range limits {
				add(Case{EPs: []EP{{u, tc}}, Limit: l})
			}
		}
	}
	n1 := len(jobs)
	// n = 2: every assignment (thorough) / those with at most one silent endpoint, seeded 1/6 slice (quick)
	k := 0
	for _, u1 := range udpBeh {
		for _, t1 := range tcpBeh {
			for _, u2 := range udpBeh {
				for _, t2 := range tcpBeh {
					for _, l := range limits {
						c := Case{EPs: []EP{{u1, t1}, {u2, t2}}, Limit: l}
						k++
						if r.Quick() && (silentCount(c) > 1 || (k+int(r.Seed()))%9 != 0) {
							continue
						}
						add(c)
					}
				}
			}
		}
	}
	n2 := len(jobs) - n1
	// n = 3: all assignments with at most two non-refusing endpoints (thorough), a slice in quick
	if r.Thorough() {
		type slot struct {
			k   int
			udp bool
		}
		slots := []slot{{0, true}, {0, false}, {1, true}, {1, false}, {2, true}, {2, false}}
		for a := 0; a < len(slots); a++ {
			for b := a; b < len(slots); b++ {
				for _, ba := range udpBeh {
					for _, bb := range udpBeh {
						eps := []EP{{kdc.Refuses, kdc.Refuses}, {kdc.Refuses, kdc.Refuses}, {kdc.Refuses, kdc.Refuses}}
						set := func(s slot, bh kdc.Behaviour) bool {
							if !s.udp && bh == kdc.TooBig {
								return false
							}
							if s.udp {
								eps[s.k].UDP = bh
							} else {
								eps[s.k].TCP = bh
							}
							return true
						}
						if !set(slots[a], ba) || !set(slots[b], bb) {
							continue
						}
						for _, l := range limits {
							add(Case{EPs: append([]EP{}, eps...), Limit: l})
						}
					}
				}
			}
		}
	}
	r.Rule(fmt.Sprintf("enum: every assignment of {answers, refuses, closes early, silent, KRB-ERROR, response-too-big (UDP), reply cut in its body / in its header (TCP)} to each (KDC, transport) endpoint x udp_preference_limit in {1, below the request size, above it}: n=1 all %d; n=2 %d (thorough: all 2700; quick: a seeded 1/9 slice with <= 1 silent endpoint); n=3 (thorough) all assignments with <= 2 non-refusing endpoints; non-trivial = >= 1 faulty endpoint", n1, n2))
	// every KRB-ERROR code in turn on the endpoints that answer an error
	for i := range jobs {
		for _, e := range jobs[i].EPs {
			if e.UDP == kdc.AnswersErr || e.TCP == kdc.AnswersErr {
				jobs[i].Code = plainCodes[(i+int(r.Seed()))%len(plainCodes)]
			}
		}
	}
	for ci, code := range plainCodes { // and every code at least once on the simplest assignment, per transport order
		jobs = append(jobs, Case{EPs: []EP{{kdc.AnswersErr, kdc.AnswersErr}}, Limit: limits[ci%3], Code: code})
	}
	// every code once more from one of two KDCs while the other is unreachable, both list orders, a few tries each (the
	// library shuffles the list): whichever KDC is asked first, the error is an answer and has to be surfaced
	codek := 0
	for _, code := range plainCodes {
		for _, other := range []EP{{kdc.Refuses, kdc.Refuses}, {kdc.ClosesEarly, kdc.ClosesEarly}} {
			codek++
			if r.Quick() && (codek+int(r.Seed()))%2 != 0 {
				continue
			}
			for try := 0; try < 3; try++ {
				eps := []EP{{kdc.AnswersErr, kdc.AnswersErr}, other}
				if try%2 == 1 {
					eps[0], eps[1] = eps[1], eps[0]
				}
				add(Case{EPs: eps, Limit: limits[(codek+try)%3], Code: code, Try: try})
			}
		}
	}
	// two exchanges of one client with the endpoints changing in between: what the first exchange went through must not
	// decide what the second one may use
	phase := []EP{{kdc.Answers, kdc.Answers}, {kdc.TooBig, kdc.Answers}, {kdc.Refuses, kdc.Answers}, {kdc.Answers, kdc.Refuses}, {kdc.ClosesEarly, kdc.Answers}, {kdc.AnswersErr, kdc.Answers}, {kdc.Answers, kdc.CutsBody}}
	for _, p1 := range phase {
		for _, p2 := range phase {
			for _, l := range limits {
				add(Case{EPs: []EP{p1}, Then: []EP{p2}, Limit: l})
			}
		}
	}
	for pi, p1 := range phase {
		for pj, p2 := range phase {
			if r.Thorough() || (pi+pj+int(r.Seed()))%3 == 0 {
				add(Case{EPs: []EP{p1, {kdc.Refuses, kdc.Refuses}}, Then: []EP{{kdc.Refuses, kdc.Refuses}, p2}, Limit: limits[(pi+pj)%3]})
			}
		}
	}
	// a host listed on several kdc lines: the list is still worked through to its end
	dupk := 0
	for _, good := range []EP{{kdc.Answers, kdc.Answers}, {kdc.Refuses, kdc.Answers}, {kdc.Answers, kdc.Refuses}} {
		for _, bad := range []EP{{kdc.Refuses, kdc.Refuses}, {kdc.ClosesEarly, kdc.ClosesEarly}, {kdc.Refuses, kdc.CutsBody}} {
			for _, list := range [][]int{{0, 1, 0}, {0, 0, 1}, {1, 0, 0}, {0, 1, 0, 1, 0}, {0, 0, 0, 0, 1}} {
				for _, l := range limits {
					dupk++
					if r.Quick() && (dupk+int(r.Seed()))%3 != 0 {
						continue
					}
					// several tries per case: the library shuffles the list, and the working host has to come last to matter
					for rep := 0; rep < 3; rep++ {
						add(Case{EPs: []EP{bad, good}, List: list, Limit: l, Code: rep})
					}
				}
			}
		}
	}
	// kdc lines that name hosts (resolved by an in-process DNS responder): one address per name, and names whose first
	// two addresses are dead
	namek := 0
	for _, names := range []string{"single", "multi"} {
		for _, eps := range [][]EP{{{kdc.Answers, kdc.Answers}}, {{kdc.Refuses, kdc.Answers}}, {{kdc.Answers, kdc.Refuses}}, {{kdc.TooBig, kdc.Answers}}, {{kdc.AnswersErr, kdc.AnswersErr}},
			{{kdc.Refuses, kdc.Refuses}, {kdc.Answers, kdc.Answers}}, {{kdc.ClosesEarly, kdc.CutsBody}, {kdc.Refuses, kdc.Answers}}, {{kdc.Refuses, kdc.Refuses}, {kdc.Refuses, kdc.Refuses}}} {
			for _, l := range limits {
				namek++
				add(Case{EPs: eps, Limit: l, Names: names, Code: namek % 3})
			}
		}
	}
	// a kdc line naming a host that no longer resolves, next to working ones (three tries each: the library shuffles the list)
	for _, eps := range [][]EP{{{kdc.Answers, kdc.Answers}}, {{kdc.Answers, kdc.Refuses}}, {{kdc.Refuses, kdc.Answers}}, {{kdc.TooBig, kdc.Answers}}, {{kdc.Answers, kdc.Refuses}, {kdc.Refuses, kdc.Refuses}}} {
		for _, l := range limits {
			for try := 0; try < 3; try++ {
				add(Case{EPs: eps, Limit: l, Names: "single+dead", Try: try})
			}
		}
	}
	// KDCs found through DNS service records (dns_lookup_kdc, no kdc lines), published for both transports or for TCP only
	for _, names := range []string{"srv", "srv-tcp-only"} {
		for _, eps := range [][]EP{{{kdc.Answers, kdc.Answers}}, {{kdc.Refuses, kdc.Answers}}, {{kdc.Answers, kdc.Refuses}}, {{kdc.TooBig, kdc.Answers}}, {{kdc.AnswersErr, kdc.AnswersErr}},
			{{kdc.Refuses, kdc.Refuses}, {kdc.Answers, kdc.Answers}}, {{kdc.ClosesEarly, kdc.CutsBody}, {kdc.Refuses, kdc.Answers}}} {
			for _, l := range limits {
				add(Case{EPs: eps, Limit: l, Names: names})
			}
		}
	}
	// replies of a given size over UDP (tickets carrying authorization data, as PACs make them): up to the 4096 octets a KDC sends
	// in a datagram the reply is complete and has to be taken
	for _, size := range []int{1400, 1465, 1466, 1500, 2048, 3000, 4095, 4096} {
		for li, l := range []string{"large", "small"} {
			add(Case{EPs: []EP{{kdc.Answers, kdc.Refuses}}, Limit: l, Size: size})
			if li == 0 {
				add(Case{EPs: []EP{{kdc.Answers, kdc.Answers}}, Limit: l, Size: size})
			}
		}
	}
	r.Rule("enum (continued): TCP endpoints also cut the reply inside its body or inside its length header; the KRB-ERROR code runs through every code 1..93 except 24, 25, 52 and 68, on a single KDC and again on one of two KDCs while the other refuses or closes early (both list orders, three tries); kdc lines naming hosts that resolve (through an in-process DNS responder) to one address or to two dead addresses followed by the real one; a further kdc line naming a host that does not resolve; AS-REPs of exactly 1400..4096 octets over UDP; no kdc lines at all but dns_lookup_kdc with _kerberos._udp and _kerberos._tcp service records, or _tcp records only; hosts listed on several kdc lines (a faulty host two to four times around one working host, three tries each because the library shuffles the list); two-exchange cases: one client logs in twice while the endpoints change behaviour in between (7 x 7 single-KDC phases x 3 limits, and a slice with the working KDC moving from the first to the second host)")
	var mu sync.Mutex
	var retry []Case
	seenKey := map[string]bool{}
	evid.Parallel(len(jobs), 250, func(i int) {
		c := jobs[i]
		key := fmt.Sprint(c)
		mu.Lock()
		dup := seenKey[key]
		seenKey[key] = true
		mu.Unlock()
		if dup {
			return
		}
		nt := ""
		if nonTrivial(c) {
			nt = key
		}
		exp := Expected(c)
		lab := []string{fmt.Sprintf("n%d", len(c.EPs)), "limit:" + c.Limit}
		switch {
		case exp["ok"] && len(exp) == 1:
			lab = append(lab, "expect:must-succeed")
		case !exp["ok"] && exp["fail"] && len(exp) == 1:
			lab = append(lab, "expect:must-fail")
		case !exp["ok"]:
			lab = append(lab, "expect:error-surfaced")
		default:
			lab = append(lab, "expect:order-dependent")
		}
		r.Count(nt, lab...)
		r.Sample(lab[2]+"/"+lab[0], c)
		v := Eval(c)
		if !v.OK {
			// hundreds of cases run at once: before reporting, the case must fail again on its own (a listener starved of
			// CPU for longer than the library's 5 s timeout is not a verdict on gokrb5)
			mu.Lock()
			retry = append(retry, c)
			mu.Unlock()
			return
		}
		r.Violation("enum", c, v)
	})
	for _, c := range retry {
		// server order is random per attempt, so a real defect may need a few tries to show again
		failed := false
		for k := 0; k < 4 && !failed; k++ {
			if v := Eval(c); !v.OK {
				r.Violation("enum", c, v)
				failed = true
			}
		}
		if !failed {
			r.Label("failed-under-load-but-passed-4-times-alone")
		}
	}
	if r.Thorough() {
		r.Exhaustive("all fault assignments for n=1 and n=2 KDCs x three udp_preference_limit classes")
	} else {
		r.Exhaustive("all fault assignments for n=1 KDC x three udp_preference_limit classes")
	}
	// rapid sample of n = 3
	r.Rule("faults: rapid-drawn assignments for n=3 KDCs (at most one silent endpoint)")
	r.Rapid("faults", r.N(25, 200), func(t *rapid.T) {
		c := Case{Limit: rapid.SampledFrom(limits).Draw(t, "limit")}
		nb := []kdc.Behaviour{kdc.Answers, kdc.Refuses, kdc.ClosesEarly, kdc.AnswersErr}
		for i := 0; i < 3; i++ {
			c.EPs = append(c.EPs, EP{rapid.SampledFrom(append(nb, kdc.TooBig)).Draw(t, "udp"), rapid.SampledFrom(nb).Draw(t, "tcp")})
		}
		if rapid.Bool().Draw(t, "onesilent") {
			i := rapid.IntRange(0, 2).Draw(t, "which")
			if rapid.Bool().Draw(t, "udp") {
				c.EPs[i].UDP = kdc.Silent
			} else {
				c.EPs[i].TCP = kdc.Silent
			}
		}
		nt := ""
		if nonTrivial(c) {
			nt = fmt.Sprint(c)
		}
		r.Count(nt, "n3", "limit:"+c.Limit)
		if r.Judge("faults", c, Eval(c)) {
			t.Fatalf("violation")
		}
	})
}
