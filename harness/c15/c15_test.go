// C15 — credential cache files of every format version parse to what was written.
package c15

import (
	"bytes"
	"encoding/binary"
	"encoding/hex"
	"fmt"
	"math"
	"os"
	"os/exec"
	"path/filepath"
	"reflect"
	"sort"
	"strings"
	"sync"
	"testing"
	"time"
	"unsafe"

	"github.com/jcmturner/gokrb5/v8/client"
	"github.com/jcmturner/gokrb5/v8/config"
	"github.com/jcmturner/gokrb5/v8/credentials"
	"github.com/jcmturner/gokrb5/v8/messages"
	"github.com/jcmturner/gokrb5/v8/test/testdata"
	"github.com/jcmturner/gokrb5/v8/types"
	"pgregory.net/rapid"

	"verif/harness/evid"
	"verif/harness/kgen"
	cf "verif/harness/ref/ccachefmt"
	"verif/harness/ref/der"
)

// Lookup is one query by server principal name.
type Lookup struct {
	NameType int32    `json:"name_type"`
	Comps    []string `json:"comps"`
}

// CredCase is a credential of the model. With RelTimes the four times are offsets in seconds from
// the moment of evaluation (so that "currently valid" stays true when a case is replayed later).
type CredCase struct {
	cf.Credential
	RelTimes bool `json:"rel_times,omitempty"`
}

// Case is a cache model, the queries to make against the parsed cache, and how to load it.
type Case struct {
	Version int              `json:"version"`
	Header  []cf.HeaderField `json:"header"`
	Default cf.Principal     `json:"default"`
	Creds   []CredCase       `json:"creds"`
	Lookups []Lookup         `json:"lookups"`
	ViaFile bool             `json:"via_file,omitempty"` // LoadCCache(path) instead of Unmarshal(bytes)
	Client  bool             `json:"client,omitempty"`   // also build a client with NewFromCCache
}

// native is the byte order of this host, which a version 1/2 file written here uses.
var native binary.ByteOrder = binary.NativeEndian

func hostOrder() string {
	if native.Uint16([]byte{1, 0}) == 1 {
		return "little-endian"
	}
	return "big-endian"
}

func clamp32(x int64) int32 {
	if x > math.MaxInt32 {
		return math.MaxInt32
	}
	if x < math.MinInt32 {
		return math.MinInt32
	}
	return int32(x)
}

// model resolves a Case into the file model that is rendered by the independent writer.
func model(c Case, now time.Time) *cf.File {
	f := &cf.File{Version: c.Version, Header: c.Header, Default: c.Default}
	for _, cc := range c.Creds {
		cr := cc.Credential
		if cc.RelTimes {
			n := now.Unix()
			cr.AuthTime, cr.StartTime = clamp32(n+int64(cr.AuthTime)), clamp32(n+int64(cr.StartTime))
			cr.EndTime, cr.RenewTill = clamp32(n+int64(cr.EndTime)), clamp32(n+int64(cr.RenewTill))
		}
		f.Creds = append(f.Creds, cr)
	}
	return f
}

type info struct {
	labels []string
	file   []byte
}

func (i *info) l(s string) { i.labels = append(i.labels, s) }

// Eval judges one Case.
func Eval(c Case) evid.Verdict { v, _ := eval(c); return v }

func eval(c Case) (v evid.Verdict, inf *info) {
	inf = &info{}
	v = evid.SafeEval(func() evid.Verdict { return evalAt(c, time.Now(), inf) })
	return
}

func sameStrings(a, b []string) bool {
	if len(a) != len(b) {
		return false
	}
	for i := range a {
		if a[i] != b[i] {
			return false
		}
	}
	return true
}

func flagValue(bs interface{ At(int) int }) uint32 {
	var x uint32
	for i := 0; i < 32; i++ {
		if bs.At(i) != 0 {
			x |= 1 << uint(31-i)
		}
	}
	return x
}

func swap32(x uint32) uint32 { return x>>24 | (x>>8)&0xff00 | (x<<8)&0xff0000 | x<<24 }

// cmpPrincipal returns the first differing part of a parsed principal.
func cmpPrincipal(version int, realm string, pn types.PrincipalName, want cf.Principal) (string, string) {
	if version != 1 && pn.NameType != want.NameType {
		return "name-type", fmt.Sprintf("name type %d, written %d", pn.NameType, want.NameType)
	}
	if realm != want.Realm {
		return "realm", fmt.Sprintf("realm %q, written %q", realm, want.Realm)
	}
	if !sameStrings(pn.NameString, want.Comps) {
		return "components", fmt.Sprintf("components %q, written %q", pn.NameString, want.Comps)
	}
	return "", ""
}

// ext16 reports whether got is the zero- or sign-extension of the 16-bit value written (the
// format does not say which; MIT sign-extends key and authdata types and zero-extends address types).
func ext16(got int32, written uint16) bool {
	return got == int32(written) || got == int32(int16(written))
}

// cmpCred compares a parsed credential with the model in file order; returns (field, detail).
func cmpCred(version int, got *credentials.Credential, want *cf.Credential) (string, string) {
	if got == nil {
		return "nil", "nil credential"
	}
	if f, d := cmpPrincipal(version, got.Client.Realm, got.Client.PrincipalName, want.Client); f != "" {
		return "client-" + f, "client " + d
	}
	if f, d := cmpPrincipal(version, got.Server.Realm, got.Server.PrincipalName, want.Server); f != "" {
		return "server-" + f, "server " + d
	}
	if got.Key.KeyType != int32(want.KeyType) {
		return "key-type", fmt.Sprintf("key type %d, written %d", got.Key.KeyType, want.KeyType)
	}
	if !bytes.Equal(got.Key.KeyValue, want.Key) {
		return "key-value", fmt.Sprintf("key %x, written %x", got.Key.KeyValue, []byte(want.Key))
	}
	for _, tm := range []struct {
		n string
		g time.Time
		w int32
	}{{"authtime", got.AuthTime, want.AuthTime}, {"starttime", got.StartTime, want.StartTime}, {"endtime", got.EndTime, want.EndTime}, {"renew-till", got.RenewTill, want.RenewTill}} {
		if tm.g.Unix() != int64(tm.w) || tm.g.Nanosecond() != 0 {
			return tm.n, fmt.Sprintf("%s %d (%v), written %d", tm.n, tm.g.Unix(), tm.g.UTC(), tm.w)
		}
	}
	if got.IsSKey != (want.IsSKey != 0) {
		return "is-skey", fmt.Sprintf("is_skey %v, written %d", got.IsSKey, want.IsSKey)
	}
	if fv := flagValue(got.TicketFlags); fv != want.Flags {
		if fv == swap32(want.Flags) {
			return "flags-byte-order", fmt.Sprintf("ticket flags %#08x (bit string bytes %x), written %#08x: the four bytes are taken in file order instead of as a 32-bit integer", fv, got.TicketFlags.Bytes, want.Flags)
		}
		return "flags", fmt.Sprintf("ticket flags %#08x (bit string bytes %x), written %#08x", fv, got.TicketFlags.Bytes, want.Flags)
	}
	if len(got.Addresses) != len(want.Addrs) {
		return "address-count", fmt.Sprintf("%d addresses, written %d", len(got.Addresses), len(want.Addrs))
	}
	for i, a := range want.Addrs {
		if !ext16(got.Addresses[i].AddrType, a.Type) || !bytes.Equal(got.Addresses[i].Address, a.Data) {
			return "address", fmt.Sprintf("address %d: type %d data %x, written type %d data %x", i, got.Addresses[i].AddrType, got.Addresses[i].Address, a.Type, []byte(a.Data))
		}
	}
	if len(got.AuthData) != len(want.AuthData) {
		return "authdata-count", fmt.Sprintf("%d authdata entries, written %d", len(got.AuthData), len(want.AuthData))
	}
	for i, a := range want.AuthData {
		if !ext16(got.AuthData[i].ADType, a.Type) || !bytes.Equal(got.AuthData[i].ADData, a.Data) {
			return "authdata", fmt.Sprintf("authdata %d: type %d data %x, written type %d data %x", i, got.AuthData[i].ADType, got.AuthData[i].ADData, a.Type, []byte(a.Data))
		}
	}
	if !bytes.Equal(got.Ticket, want.Ticket) {
		return "ticket", fmt.Sprintf("ticket %x, written %x", got.Ticket, []byte(want.Ticket))
	}
	if !bytes.Equal(got.SecondTicket, want.SecondTicket) {
		return "second-ticket", fmt.Sprintf("second ticket %x, written %x", got.SecondTicket, []byte(want.SecondTicket))
	}
	return "", ""
}

func hasUnknownTag(h []cf.HeaderField) bool {
	for _, f := range h {
		if f.Tag != cf.TagKDCOff {
			return true
		}
	}
	return false
}

func evalAt(c Case, now time.Time, inf *info) evid.Verdict {
	f := model(c, now)
	file, err := cf.Marshal(f, native)
	if err != nil {
		return evid.Fail("harness", "independent writer: %v", err)
	}
	inf.file = file
	// the independent reader must see exactly the model in the rendered file (harness self-check)
	back, err := cf.Parse(file, native)
	if err != nil {
		return evid.Fail("harness", "independent reader rejects the rendered file: %v", err)
	}
	if re, _ := cf.Marshal(back, native); !bytes.Equal(re, file) || len(back.Creds) != len(f.Creds) {
		return evid.Fail("harness", "independent reader and writer disagree on the rendered file")
	}
	ver := fmt.Sprintf("v%d", c.Version)

	cc := new(credentials.CCache)
	if c.ViaFile {
		tf, err := os.CreateTemp("", "c15-*.ccache")
		if err != nil {
			return evid.Fail("harness", "temp file: %v", err)
		}
		tf.Write(file)
		tf.Close()
		func() {
			defer os.Remove(tf.Name()) // also when LoadCCache panics
			cc, err = credentials.LoadCCache(tf.Name())
		}()
		if err != nil {
			return parseErr(c, err, file)
		}
	} else if err := cc.Unmarshal(file); err != nil {
		return parseErr(c, err, file)
	}

	// --- parsed structure equals the model (checked again after later steps: the parsed cache is the caller's)
	structure := func() evid.Verdict {
		if int(cc.Version) != c.Version {
			return evid.Fail("mismatch:version", "Version %d, file is version %d", cc.Version, c.Version)
		}
		if fld, d := cmpPrincipal(c.Version, cc.DefaultPrincipal.Realm, cc.DefaultPrincipal.PrincipalName, f.Default); fld != "" {
			return evid.Fail("mismatch:default-"+fld+":"+ver, "default principal: %s\nfile %x", d, file)
		}
		if len(cc.Credentials) != len(f.Creds) {
			return evid.Fail("mismatch:credential-count:"+ver, "%d credentials parsed, %d written\nfile %x", len(cc.Credentials), len(f.Creds), file)
		}
		for i := range f.Creds {
			if fld, d := cmpCred(c.Version, cc.Credentials[i], &f.Creds[i]); fld != "" {
				if fld == "flags-byte-order" {
					return evid.Fail("ticket-flags:file-byte-order-ignored", "credential %d of a version %d file: %s\nfile %x", i, c.Version, d, file)
				}
				return evid.Fail("mismatch:"+fld+":"+ver, "credential %d of a version %d file: %s\nfile %x", i, c.Version, d, file)
			}
		}
		return evid.Pass()
	}
	if v := structure(); !v.OK {
		return v
	}
	if !c.ViaFile {
		// the caller's buffer is the caller's: it is overwritten, and nothing parsed may change with it
		for k := range file {
			file[k] ^= 0xff
		}
		v := structure()
		for k := range file {
			file[k] ^= 0xff
		}
		if !v.OK {
			v.Sig = "aliases-input:" + v.Sig
			v.Msg = "after the buffer handed to Unmarshal was overwritten: " + v.Msg
			return v
		}
	}
	// GetEntries from eight goroutines at once on this one parsed cache: each must get the full list
	{
		want := 0
		for k := range f.Creds {
			if !f.Creds[k].IsConfig() {
				want++
			}
		}
		counts := make([]int, 8)
		var wg sync.WaitGroup
		start := make(chan struct{})
		for g := range counts {
			wg.Add(1)
			go func(g int) {
				defer wg.Done()
				<-start
				counts[g] = len(cc.GetEntries())
			}(g)
		}
		close(start)
		wg.Wait()
		for g, n := range counts {
			if n != want {
				return evid.Fail("entries:concurrent-first-use", "GetEntries called by 8 goroutines at once on a freshly parsed cache: goroutine %d got %d credentials, the cache holds %d non-configuration credentials", g, n, want)
			}
		}
	}

	// --- accessors of the default principal
	if pn := cc.GetClientPrincipalName(); !sameStrings(pn.NameString, f.Default.Comps) || (c.Version != 1 && pn.NameType != f.Default.NameType) {
		return evid.Fail("accessor:GetClientPrincipalName", "GetClientPrincipalName %+v, written %+v", pn, f.Default)
	}
	if r := cc.GetClientRealm(); r != f.Default.Realm {
		return evid.Fail("accessor:GetClientRealm", "GetClientRealm %q, written %q", r, f.Default.Realm)
	}
	cr := cc.GetClientCredentials()
	if cr == nil || cr.UserName() != strings.Join(f.Default.Comps, "/") || cr.Realm() != f.Default.Realm || cr.Domain() != f.Default.Realm ||
		!sameStrings(cr.CName().NameString, f.Default.Comps) {
		return evid.Fail("accessor:GetClientCredentials", "GetClientCredentials gives user %q realm %q cname %v, written %+v", cr.UserName(), cr.Realm(), cr.CName().NameString, f.Default)
	}

	// --- GetEntries: everything but configuration entries, order kept
	var plain []int
	for i := range f.Creds {
		if !f.Creds[i].IsConfig() {
			plain = append(plain, i)
		}
	}
	ents := cc.GetEntries()
	if len(ents) != len(plain) {
		return evid.Fail("entries:config-filter", "GetEntries returns %d credentials; the cache holds %d credentials of which %d are X-CACHECONF: configuration entries", len(ents), len(f.Creds), len(f.Creds)-len(plain))
	}
	for k, i := range plain {
		if fld, d := cmpCred(c.Version, ents[k], &f.Creds[i]); fld != "" {
			return evid.Fail("entries:order-or-content", "GetEntries()[%d] is not written credential %d: %s", k, i, d)
		}
	}

	// --- lookups by server principal name
	for _, q := range c.Lookups {
		first := -1
		for i := range f.Creds {
			if sameStrings(f.Creds[i].Server.Comps, q.Comps) {
				first = i
				break
			}
		}
		pn := types.PrincipalName{NameType: q.NameType, NameString: q.Comps}
		has := cc.Contains(pn)
		e, ok := cc.GetEntry(pn)
		if first < 0 {
			inf.l("lookup:miss")
			if has {
				return evid.Fail("lookup:contains-absent", "Contains(%q) is true; no credential has that server name", q.Comps)
			}
			if ok {
				return evid.Fail("lookup:getentry-absent", "GetEntry(%q) found %q; no credential has that server name", q.Comps, e.Server.PrincipalName.NameString)
			}
			continue
		}
		inf.l("lookup:hit")
		if !has {
			return evid.Fail("lookup:contains-present", "Contains(%q) is false; credential %d has that server name", q.Comps, first)
		}
		if !ok {
			return evid.Fail("lookup:getentry-present", "GetEntry(%q) finds nothing; credential %d has that server name", q.Comps, first)
		}
		if fld, d := cmpCred(c.Version, e, &f.Creds[first]); fld != "" {
			return evid.Fail("lookup:getentry-wrong-entry", "GetEntry(%q) is not the first credential with that server name (%d): %s", q.Comps, first, d)
		}
	}

	if c.Client {
		if v := evalClient(c, cc, f, now, inf); !v.OK {
			return v
		}
		// the client has been built and destroyed: the parsed cache is still the caller's and still says what the file said,
		// and a second client built from it holds the same tickets and keys
		if v := structure(); !v.OK {
			v.Sig = "after-client:" + v.Sig
			v.Msg = "after a client was built from the parsed cache and destroyed: " + v.Msg
			return v
		}
		if v := evalClient(c, cc, f, now, inf); !v.OK {
			v.Sig = "second-client:" + v.Sig
			v.Msg = "second client built from the same parsed cache: " + v.Msg
			return v
		}
	}
	return evid.Pass()
}

func parseErr(c Case, err error, file []byte) evid.Verdict {
	msg := err.Error()
	if strings.Contains(msg, "header") {
		if hasUnknownTag(c.Header) {
			return evid.Fail("header:unknown-tag-rejected", "a version 4 file whose header carries a field with an unknown tag is rejected: %v (the format document: readers should ignore fields with unknown tags)\nheader %+v\nfile %x", err, c.Header, file)
		}
		return evid.Fail("header:rejected", "well-formed version 4 header rejected: %v\nheader %+v\nfile %x", err, c.Header, file)
	}
	return evid.Fail(fmt.Sprintf("parse-error:v%d", c.Version), "well-formed version %d file rejected: %v\nfile %x", c.Version, err, file)
}

// ---------------------------------------------------------------------------------------------
// client built from the cache

type tktView struct {
	vno      int64
	realm    string
	nameType int64
	comps    []string
	etype    int64
	kvno     int64
	hasKvno  bool
	cipher   []byte
	spn      string
}

func viewTicket(b []byte) (tktView, bool) {
	m, err := der.Ticket.DecodeM(b)
	if err != nil {
		return tktView{}, false
	}
	var v tktView
	v.vno = toI(m["tkt-vno"])
	v.realm, _ = m["realm"].(string)
	sn, _ := m["sname"].(der.M)
	v.nameType = toI(sn["name-type"])
	v.comps = der.NameStrings(sn)
	ep, _ := m["enc-part"].(der.M)
	v.etype = toI(ep["etype"])
	if k, ok := ep["kvno"]; ok {
		v.kvno, v.hasKvno = toI(k), true
	}
	v.cipher, _ = ep["cipher"].([]byte)
	v.spn = strings.Join(v.comps, "/")
	return v, true
}

func toI(v any) int64 {
	switch x := v.(type) {
	case int64:
		return x
	case int:
		return int64(x)
	case int32:
		return int64(x)
	case uint32:
		return int64(x)
	case float64:
		return int64(x)
	}
	return math.MinInt64
}

func cmpTicket(got messages.Ticket, w tktView) string {
	if int64(got.TktVNO) != w.vno || got.Realm != w.realm || int64(got.SName.NameType) != w.nameType || !sameStrings(got.SName.NameString, w.comps) ||
		int64(got.EncPart.EType) != w.etype || !bytes.Equal(got.EncPart.Cipher, w.cipher) || (w.hasKvno && int64(got.EncPart.KVNO) != w.kvno) || (!w.hasKvno && got.EncPart.KVNO != 0) {
		return fmt.Sprintf("ticket {vno %d realm %q sname %d %q etype %d kvno %d cipher %x}, cache holds {vno %d realm %q sname %d %q etype %d kvno %d cipher %x}",
			got.TktVNO, got.Realm, got.SName.NameType, got.SName.NameString, got.EncPart.EType, got.EncPart.KVNO, got.EncPart.Cipher,
			w.vno, w.realm, w.nameType, w.comps, w.etype, w.kvno, w.cipher)
	}
	return ""
}

func keyIs(k types.EncryptionKey, cr *cf.Credential) bool {
	return k.KeyType == int32(cr.KeyType) && bytes.Equal(k.KeyValue, cr.Key)
}

type sessView struct {
	realm                        string
	authTime, endTime, renewTill time.Time
	tgt                          messages.Ticket
	key                          types.EncryptionKey
}

func expose(v reflect.Value) reflect.Value {
	return reflect.NewAt(v.Type(), unsafe.Pointer(v.UnsafeAddr())).Elem()
}

// peek reads what the client holds (service-ticket cache and TGT sessions) without going through
// the time-dependent accessors. ok is false when the private layout is not the expected one; the
// check then relies on GetCachedTicket alone.
func peek(cl *client.Client) (cache map[string]client.CacheEntry, sess map[string]sessView, ok bool) {
	defer func() {
		if recover() != nil {
			cache, sess, ok = nil, nil, false
		}
	}()
	v := reflect.ValueOf(cl).Elem()
	fc := v.FieldByName("cache")
	if !fc.IsValid() || fc.Type() != reflect.TypeOf((*client.Cache)(nil)) || fc.IsNil() {
		return nil, nil, false
	}
	cp := (*client.Cache)(unsafe.Pointer(fc.Pointer()))
	cache = map[string]client.CacheEntry{}
	for k, e := range cp.Entries {
		cache[k] = e
	}
	fs := v.FieldByName("sessions")
	if !fs.IsValid() || fs.Kind() != reflect.Ptr || fs.IsNil() {
		return nil, nil, false
	}
	ents := fs.Elem().FieldByName("Entries")
	if !ents.IsValid() || ents.Kind() != reflect.Map {
		return nil, nil, false
	}
	sess = map[string]sessView{}
	for _, k := range ents.MapKeys() {
		sp := ents.MapIndex(k)
		if sp.Kind() != reflect.Ptr || sp.IsNil() {
			return nil, nil, false
		}
		s := sp.Elem()
		var sv sessView
		sv.realm = expose(s.FieldByName("realm")).Interface().(string)
		sv.authTime = expose(s.FieldByName("authTime")).Interface().(time.Time)
		sv.endTime = expose(s.FieldByName("endTime")).Interface().(time.Time)
		sv.renewTill = expose(s.FieldByName("renewTill")).Interface().(time.Time)
		sv.tgt = expose(s.FieldByName("tgt")).Interface().(messages.Ticket)
		sv.key = expose(s.FieldByName("sessionKey")).Interface().(types.EncryptionKey)
		sess[k.String()] = sv
	}
	return cache, sess, true
}

// jdkQuick is the number of files cross-read by the JDK in the quick tier (one JVM start, ~1.5 s).
const jdkQuick = 120

const straddle = 300 // seconds around "now" in which validity is not judged

func near(t int32, now int64) bool { d := int64(t) - now; return d > -straddle && d < straddle }

func evalClient(c Case, cc *credentials.CCache, f *cf.File, now time.Time, inf *info) evid.Verdict {
	cfg := config.New()
	cfg.LibDefaults.DefaultRealm = f.Default.Realm
	// model: TGT = first credential whose server name is krbtgt/<default realm>
	tgtIdx := -1
	for i := range f.Creds {
		if sameStrings(f.Creds[i].Server.Comps, []string{"krbtgt", f.Default.Realm}) {
			tgtIdx = i
			break
		}
	}
	allDER := true
	type cand struct {
		idx int
		tv  tktView
	}
	bySPN := map[string][]cand{}
	for i := range f.Creds {
		if f.Creds[i].IsConfig() {
			continue
		}
		tv, ok := viewTicket(f.Creds[i].Ticket)
		if !ok {
			allDER = false
			continue
		}
		bySPN[tv.spn] = append(bySPN[tv.spn], cand{i, tv})
	}
	cl, err := client.NewFromCCache(cc, cfg)
	if tgtIdx < 0 || !allDER {
		// nothing is demanded of a cache without a TGT or with an undecodable ticket, except no panic
		inf.l("client:no-tgt-or-bad-ticket")
		if err == nil && tgtIdx < 0 {
			return evid.Fail("client:built-without-tgt", "NewFromCCache succeeded although the cache holds no krbtgt/%s credential", f.Default.Realm)
		}
		return evid.Pass()
	}
	if err != nil {
		return evid.Fail("client:rejected-wellformed-cache", "NewFromCCache failed on a cache that holds a TGT (credential %d) and only decodable tickets: %v", tgtIdx, err)
	}
	inf.l("client:built")
	defer cl.Destroy() // the caller is done with the client when this function returns
	if cl.Credentials == nil || cl.Credentials.UserName() != strings.Join(f.Default.Comps, "/") || cl.Credentials.Domain() != f.Default.Realm {
		return evid.Fail("client:identity", "client identity %q@%q, cache default principal %+v", cl.Credentials.UserName(), cl.Credentials.Domain(), f.Default)
	}

	cache, sess, peeked := peek(cl)
	if peeked {
		inf.l("client:peeked")
		// TGT session of the default realm
		want := &f.Creds[tgtIdx]
		s, ok := sess[f.Default.Realm]
		if !ok || len(sess) != 1 {
			return evid.Fail("client:session-missing", "client holds sessions %d (for default realm: %v); the cache has a TGT for %q", len(sess), ok, f.Default.Realm)
		}
		tv, _ := viewTicket(want.Ticket)
		if d := cmpTicket(s.tgt, tv); d != "" {
			return evid.Fail("client:session-tgt", "TGT session holds %s (credential %d)", d, tgtIdx)
		}
		if !keyIs(s.key, want) {
			return evid.Fail("client:session-key", "TGT session key %d/%x, credential %d has %d/%x", s.key.KeyType, s.key.KeyValue, tgtIdx, want.KeyType, []byte(want.Key))
		}
		if s.realm != f.Default.Realm || s.authTime.Unix() != int64(want.AuthTime) || s.endTime.Unix() != int64(want.EndTime) || s.renewTill.Unix() != int64(want.RenewTill) {
			return evid.Fail("client:session-times", "TGT session realm %q auth %d end %d renew %d; credential %d has realm %q auth %d end %d renew %d",
				s.realm, s.authTime.Unix(), s.endTime.Unix(), s.renewTill.Unix(), tgtIdx, f.Default.Realm, want.AuthTime, want.EndTime, want.RenewTill)
		}
		// service-ticket cache: exactly the SPNs of the non-config credentials, each entry one of the written credentials
		var spns []string
		for k := range cache {
			spns = append(spns, k)
		}
		sort.Strings(spns)
		for _, k := range spns {
			if len(bySPN[k]) == 0 {
				return evid.Fail("client:holds-unwritten-ticket", "client cache holds an entry for %q; no non-configuration credential has that server name (holds %q)", k, spns)
			}
		}
		var wantSPNs []string
		for k := range bySPN {
			wantSPNs = append(wantSPNs, k)
		}
		sort.Strings(wantSPNs)
		for _, k := range wantSPNs {
			e, ok := cache[k]
			if !ok {
				return evid.Fail("client:ticket-not-held", "client cache has no entry for %q (credential %d); holds %q", k, bySPN[k][0].idx, spns)
			}
			match := false
			why := ""
			for _, cd := range bySPN[k] {
				w := &f.Creds[cd.idx]
				if d := cmpTicket(e.Ticket, cd.tv); d != "" {
					why = d
					continue
				}
				if !keyIs(e.SessionKey, w) {
					why = fmt.Sprintf("session key %d/%x, written %d/%x", e.SessionKey.KeyType, e.SessionKey.KeyValue, w.KeyType, []byte(w.Key))
					continue
				}
				if e.AuthTime.Unix() != int64(w.AuthTime) || e.StartTime.Unix() != int64(w.StartTime) || e.EndTime.Unix() != int64(w.EndTime) || e.RenewTill.Unix() != int64(w.RenewTill) {
					why = fmt.Sprintf("times %d %d %d %d, written %d %d %d %d", e.AuthTime.Unix(), e.StartTime.Unix(), e.EndTime.Unix(), e.RenewTill.Unix(), w.AuthTime, w.StartTime, w.EndTime, w.RenewTill)
					continue
				}
				match = true
				break
			}
			if !match {
				return evid.Fail("client:held-entry-differs", "client cache entry for %q matches none of the %d written credentials with that server name: %s", k, len(bySPN[k]), why)
			}
		}
	} else {
		inf.l("client:peek-unavailable")
	}

	// public accessor: GetCachedTicket serves exactly the currently valid credentials
	n := now.Unix()
	ask := func(spn string) (messages.Ticket, types.EncryptionKey, bool) { return cl.GetCachedTicket(spn) }
	var keys []string
	for k := range bySPN {
		keys = append(keys, k)
	}
	sort.Strings(keys)
	for _, k := range keys {
		cs := bySPN[k]
		skip := false
		anyRenewable := false
		for _, cd := range cs {
			w := &f.Creds[cd.idx]
			if near(w.StartTime, n) || near(w.EndTime, n) || near(w.RenewTill, n) {
				skip = true
			}
			valid := int64(w.StartTime) < n && n < int64(w.EndTime)
			if !valid && n < int64(w.RenewTill) {
				anyRenewable = true
			}
		}
		if skip {
			inf.l("client:time-straddle-skipped")
			continue
		}
		if anyRenewable {
			inf.l("client:renewable-skipped") // GetCachedTicket would go to a KDC to renew; that path belongs to C10
			continue
		}
		tkt, key, ok := ask(k)
		if len(cs) > 1 {
			inf.l("client:duplicate-spn")
			if !ok {
				continue // which of several credentials for one server wins is not fixed by the statement
			}
			hit := false
			for _, cd := range cs {
				if cmpTicket(tkt, cd.tv) == "" && keyIs(key, &f.Creds[cd.idx]) {
					hit = true
				}
			}
			if !hit {
				return evid.Fail("client:served-ticket-differs", "GetCachedTicket(%q) returns a ticket/key that matches none of the written credentials for that server", k)
			}
			continue
		}
		w := &f.Creds[cs[0].idx]
		valid := int64(w.StartTime) < n && n < int64(w.EndTime)
		if valid {
			inf.l("client:served-valid")
			if !ok {
				return evid.Fail("client:valid-ticket-not-served", "GetCachedTicket(%q) returns nothing; credential %d is valid now (start %d < now %d < end %d)", k, cs[0].idx, w.StartTime, n, w.EndTime)
			}
			if d := cmpTicket(tkt, cs[0].tv); d != "" {
				return evid.Fail("client:served-ticket-differs", "GetCachedTicket(%q): %s", k, d)
			}
			if !keyIs(key, w) {
				return evid.Fail("client:served-key-differs", "GetCachedTicket(%q) key %d/%x, written %d/%x", k, key.KeyType, key.KeyValue, w.KeyType, []byte(w.Key))
			}
		} else {
			inf.l("client:withheld-invalid")
			if ok {
				return evid.Fail("client:invalid-ticket-served", "GetCachedTicket(%q) serves credential %d which is not valid now (start %d end %d now %d)", k, cs[0].idx, w.StartTime, w.EndTime, n)
			}
		}
	}
	// nothing is served for configuration entries or for names that were never written
	for i := range f.Creds {
		if !f.Creds[i].IsConfig() {
			continue
		}
		spn := strings.Join(f.Creds[i].Server.Comps, "/")
		if len(bySPN[spn]) > 0 {
			continue
		}
		if _, _, ok := ask(spn); ok {
			return evid.Fail("client:config-entry-served", "GetCachedTicket(%q) serves a configuration entry", spn)
		}
		inf.l("client:config-not-served")
	}
	for _, q := range c.Lookups {
		spn := strings.Join(q.Comps, "/")
		if len(bySPN[spn]) > 0 {
			continue
		}
		if _, _, ok := ask(spn); ok {
			return evid.Fail("client:unwritten-ticket-served", "GetCachedTicket(%q) serves a ticket; no credential has that server name", spn)
		}
	}
	return evid.Pass()
}

// ---------------------------------------------------------------------------------------------
// generators

var (
	realmPool = []string{"EXAMPLE.COM", "TEST.GOKRB5", "R", "", "sub.realm.example.org", "RÉALM.例", "NOT-X-CACHECONF:", "x-cacheconf:", " X-CACHECONF:", strings.Repeat("LONGREALM.", 30)}
	compPool  = []string{"krbtgt", "HTTP", "host", "host.example.com", "user", "admin", "", "a/b", "with space", "üser", "x@y", "EXAMPLE.COM", "krb5_ccache_conf_data", strings.Repeat("n", 300)}
	nameTypes = []int32{0, 1, 2, 3, 10, 11, -1, -128, math.MaxInt32, math.MinInt32}
	keyTypes  = []int16{0, 1, 3, 16, 17, 18, 19, 20, 23, 24, 25, 26, -133, -135, -1, 255, 256, math.MaxInt16, math.MinInt16}
	timeEdges = []int32{0, 1, -1, math.MaxInt32, math.MinInt32, 0x59665b8e, 0x7ffffffe, -86400, 1 << 24, 255, 256, 65536}
	flagVals  = []uint32{0, cf.FlagForwardable, cf.FlagForwardable | cf.FlagRenewable | cf.FlagInitial | 0x00010000, cf.FlagProxiable, cf.FlagRenewable,
		cf.FlagInitial | cf.FlagPreAuthent, 0x80000000, 0x00000001, 0x00000100, 0x00010000, 0xffffffff, 0x01000001, 0x12345678}
	addrTypes = []uint16{2, 24, 20, 3, 12, 0, 1, 255, 256, 0x7fff, 0x8001, 0xffff}
	adTypes   = []uint16{1, 4, 5, 8, 128, 129, 141, 142, 0, 255, 256, 0x7fff, 0xff7b /* -133 */, 0xffff}
	confKeys  = []string{"fast_avail", "pa_type", "proxy_impersonator", "refresh_time", "start_realm", "pa_config_data", ""}
)

func isConfRealmLike(s string) bool { return strings.HasPrefix(s, "X-CACHECONF") }

func genString(t *rapid.T, label string, pool []string) string {
	if rapid.IntRange(0, 3).Draw(t, label+"/mode") == 0 {
		return rapid.StringN(0, 12, 40).Draw(t, label)
	}
	return rapid.SampledFrom(pool).Draw(t, label)
}

func genRealm(t *rapid.T, label string) string {
	s := genString(t, label, realmPool)
	if isConfRealmLike(s) {
		// a realm that only starts like the configuration realm is outside the statement (see Sound)
		return "EXAMPLE.COM"
	}
	return s
}

func genPrincipal(t *rapid.T, label string) cf.Principal {
	p := cf.Principal{Comps: []string{}}
	if rapid.Bool().Draw(t, label+"/ntpool") {
		p.NameType = rapid.SampledFrom(nameTypes).Draw(t, label+"/nt")
	} else {
		p.NameType = rapid.Int32().Draw(t, label+"/nt")
	}
	p.Realm = genRealm(t, label+"/realm")
	n := rapid.IntRange(0, 3).Draw(t, label+"/ncomp")
	for i := 0; i < n; i++ {
		p.Comps = append(p.Comps, genString(t, fmt.Sprintf("%s/c%d", label, i), compPool))
	}
	return p
}

func genTime(t *rapid.T, label string) int32 {
	if rapid.Bool().Draw(t, label+"/edge") {
		return rapid.SampledFrom(timeEdges).Draw(t, label)
	}
	return rapid.Int32().Draw(t, label)
}

func genFlags(t *rapid.T) uint32 {
	switch rapid.IntRange(0, 2).Draw(t, "flags/mode") {
	case 0:
		return rapid.SampledFrom(flagVals).Draw(t, "flags")
	case 1:
		return 1 << uint(rapid.IntRange(0, 31).Draw(t, "flags/bit"))
	}
	return rapid.Uint32().Draw(t, "flags")
}

func genTyped(t *rapid.T, label string, pool []uint16, maxData int) []cf.Typed {
	n := rapid.IntRange(0, 3).Draw(t, label+"/n")
	out := []cf.Typed{}
	for i := 0; i < n; i++ {
		var ty uint16
		if rapid.IntRange(0, 3).Draw(t, fmt.Sprintf("%s/%d/any", label, i)) == 0 {
			ty = rapid.Uint16().Draw(t, fmt.Sprintf("%s/%d/type", label, i))
		} else {
			ty = rapid.SampledFrom(pool).Draw(t, fmt.Sprintf("%s/%d/type", label, i))
		}
		l := rapid.SampledFrom([]int{0, 1, 4, 16, maxData, -1}).Draw(t, fmt.Sprintf("%s/%d/len", label, i))
		if l < 0 {
			l = rapid.IntRange(0, maxData).Draw(t, fmt.Sprintf("%s/%d/len2", label, i))
		}
		out = append(out, cf.Typed{Type: ty, Data: kgen.Bytes(t, fmt.Sprintf("%s/%d/data", label, i), l)})
	}
	return out
}

func genBlob(t *rapid.T, label string, max int) cf.Hex {
	l := rapid.SampledFrom([]int{0, 1, 2, 255, 256, -1}).Draw(t, label+"/len")
	if l < 0 || l > max {
		l = rapid.IntRange(0, max).Draw(t, label+"/len2")
	}
	return kgen.Bytes(t, label, l)
}

func mkTicket(realm string, nameType int32, comps []string, etype int32, kvno int64, cipher []byte) []byte {
	ep := der.M{"etype": int64(etype), "cipher": cipher}
	if kvno >= 0 {
		ep["kvno"] = kvno
	}
	return der.Ticket.MustEncode(der.M{"tkt-vno": int64(5), "realm": realm, "sname": der.Name(int(nameType), comps...), "enc-part": ep})
}

func genCred(t *rapid.T, i int, def cf.Principal) CredCase {
	lb := fmt.Sprintf("cred%d", i)
	var c CredCase
	if rapid.IntRange(0, 3).Draw(t, lb+"/ownclient") != 0 {
		c.Client = def
	} else {
		c.Client = genPrincipal(t, lb+"/client")
	}
	c.Server = genPrincipal(t, lb+"/server")
	if rapid.Bool().Draw(t, lb+"/ktpool") {
		c.KeyType = rapid.SampledFrom(keyTypes).Draw(t, lb+"/keytype")
	} else {
		c.KeyType = rapid.Int16().Draw(t, lb+"/keytype")
	}
	kl := rapid.SampledFrom([]int{0, 1, 8, 16, 24, 32, 63, 64, -1}).Draw(t, lb+"/keylen")
	if kl < 0 {
		kl = rapid.IntRange(0, 64).Draw(t, lb+"/keylen2")
	}
	c.Key = kgen.Bytes(t, lb+"/key", kl)
	c.AuthTime, c.StartTime, c.EndTime, c.RenewTill = genTime(t, lb+"/auth"), genTime(t, lb+"/start"), genTime(t, lb+"/end"), genTime(t, lb+"/renew")
	c.IsSKey = uint8(rapid.IntRange(0, 1).Draw(t, lb+"/skey"))
	c.Flags = genFlags(t)
	c.Addrs = genTyped(t, lb+"/addr", addrTypes, 20)
	c.AuthData = genTyped(t, lb+"/ad", adTypes, 48)
	if rapid.IntRange(0, 3).Draw(t, lb+"/derticket") == 0 {
		c.Ticket = mkTicket("EXAMPLE.COM", 2, []string{"HTTP", "host.example.com"}, 18, 3, kgen.Bytes(t, lb+"/cipher", 40))
	} else {
		c.Ticket = genBlob(t, lb+"/ticket", 600)
	}
	if rapid.IntRange(0, 3).Draw(t, lb+"/second") == 0 {
		c.SecondTicket = genBlob(t, lb+"/ticket2", 300)
	} else {
		c.SecondTicket = cf.Hex{}
	}
	return c
}

func genConf(t *rapid.T, i int, def cf.Principal) CredCase {
	lb := fmt.Sprintf("conf%d", i)
	key := rapid.SampledFrom(confKeys).Draw(t, lb+"/key")
	princ := rapid.SampledFrom([]string{"", "", "krbtgt/EXAMPLE.COM@EXAMPLE.COM", "HTTP/h@R"}).Draw(t, lb+"/princ")
	val := rapid.SampledFrom([]string{"yes", "2", "", "1500000000", "EXAMPLE.COM", string(kgen.DetBytes(7, "confval", 90))}).Draw(t, lb+"/val")
	return CredCase{Credential: cf.ConfigEntry(def, key, princ, []byte(val))}
}

func genHeader(t *rapid.T, version int, allowUnknown bool) []cf.HeaderField {
	h := []cf.HeaderField{}
	if version != 4 {
		return h
	}
	n := rapid.IntRange(0, 2).Draw(t, "hdr/n")
	for i := 0; i < n; i++ {
		if allowUnknown && rapid.IntRange(0, 2).Draw(t, fmt.Sprintf("hdr/%d/unknown", i)) == 0 {
			tag := rapid.SampledFrom([]uint16{2, 0, 3, 255, 256, 0x7fff, 0x8000, 0xffff}).Draw(t, fmt.Sprintf("hdr/%d/tag", i))
			l := rapid.SampledFrom([]int{0, 1, 4, 8, 12, 33}).Draw(t, fmt.Sprintf("hdr/%d/len", i))
			h = append(h, cf.HeaderField{Tag: tag, Data: kgen.Bytes(t, fmt.Sprintf("hdr/%d/data", i), l)})
		} else {
			h = append(h, cf.KDCOffsetField(rapid.Int32().Draw(t, fmt.Sprintf("hdr/%d/sec", i)), rapid.Int32Range(0, 999999).Draw(t, fmt.Sprintf("hdr/%d/usec", i))))
		}
	}
	return h
}

// genLookups draws queries: names that are present, near misses of them, and unrelated names.
func genLookups(t *rapid.T, creds []CredCase) []Lookup {
	n := rapid.IntRange(0, 4).Draw(t, "lookups/n")
	out := []Lookup{}
	for i := 0; i < n; i++ {
		lb := fmt.Sprintf("lookup%d", i)
		q := Lookup{NameType: rapid.SampledFrom(nameTypes).Draw(t, lb+"/nt"), Comps: []string{}}
		if len(creds) == 0 || rapid.IntRange(0, 4).Draw(t, lb+"/random") == 0 {
			q.Comps = genPrincipal(t, lb+"/p").Comps
			out = append(out, q)
			continue
		}
		base := creds[rapid.IntRange(0, len(creds)-1).Draw(t, lb+"/of")].Server.Comps
		q.Comps = append(q.Comps, base...)
		switch rapid.SampledFrom([]string{"exact", "exact", "drop-last", "append", "case", "alter", "swap"}).Draw(t, lb+"/kind") {
		case "drop-last":
			if len(q.Comps) > 0 {
				q.Comps = q.Comps[:len(q.Comps)-1]
			}
		case "append":
			q.Comps = append(q.Comps, rapid.SampledFrom([]string{"", "x", "EXAMPLE.COM"}).Draw(t, lb+"/extra"))
		case "case":
			for k := range q.Comps {
				q.Comps[k] = strings.ToUpper(q.Comps[k])
			}
		case "alter":
			if len(q.Comps) > 0 {
				k := rapid.IntRange(0, len(q.Comps)-1).Draw(t, lb+"/which")
				q.Comps[k] += "x"
			}
		case "swap":
			if len(q.Comps) > 1 {
				q.Comps[0], q.Comps[1] = q.Comps[1], q.Comps[0]
			}
		}
		out = append(out, q)
	}
	return out
}

// genParseCase draws a cache of any shape.
func genParseCase(t *rapid.T, allowUnknownTag bool) Case {
	c := Case{Version: rapid.IntRange(1, 4).Draw(t, "version"), Creds: []CredCase{}}
	c.Header = genHeader(t, c.Version, allowUnknownTag)
	c.Default = genPrincipal(t, "default")
	n := rapid.IntRange(0, 6).Draw(t, "ncreds")
	for i := 0; i < n; i++ {
		if rapid.IntRange(0, 4).Draw(t, fmt.Sprintf("cred%d/isconf", i)) == 0 {
			c.Creds = append(c.Creds, genConf(t, i, c.Default))
		} else {
			c.Creds = append(c.Creds, genCred(t, i, c.Default))
		}
	}
	c.Lookups = genLookups(t, c.Creds)
	c.ViaFile = rapid.IntRange(0, 7).Draw(t, "viafile") == 7
	return c
}

var (
	cliRealms  = []string{"EXAMPLE.COM", "TEST.GOKRB5", "R"}
	cliServers = [][]string{{"HTTP", "host.example.com"}, {"HTTP", "other.example.com"}, {"cifs", "fs"}, {"host"}, {"krbtgt", "OTHER.REALM"}, {"a/b", "c"}, {"ldap", "dc1", "EXAMPLE.COM"}, {}}
)

// relTimes draws the four times as offsets from "now" for a validity class.
func relTimes(t *rapid.T, lb string) (class string, auth, start, end, renew int32) {
	class = rapid.SampledFrom([]string{"valid", "valid", "valid", "expired", "future", "renewable-expired"}).Draw(t, lb+"/validity")
	h := func(l string, lo, hi int) int32 { return int32(rapid.IntRange(lo, hi).Draw(t, lb+"/"+l)) * 600 }
	switch class {
	case "valid":
		start, end = -h("s", 1, 100), h("e", 1, 100)
		renew = rapid.SampledFrom([]int32{1, -1}).Draw(t, lb+"/rsign") * h("r", 2, 1000)
	case "expired":
		start, end = -h("s", 200, 300), -h("e", 1, 100)
		renew = -h("r", 1, 50)
	case "future":
		start, end = h("s", 1, 100), h("e", 101, 200)
		renew = -h("r", 1, 50)
	case "renewable-expired":
		start, end = -h("s", 200, 300), -h("e", 1, 100)
		renew = h("r", 1, 1000)
	}
	auth = start - int32(rapid.IntRange(0, 3).Draw(t, lb+"/authlag"))*450
	return
}

// genClientCase draws a cache as kinit/kvno leave it: a TGT for the default realm (sometimes
// missing or duplicated), service tickets (valid DER Tickets whose sname is the credential's server),
// configuration entries, in any order and any format version.
func genClientCase(t *rapid.T, jdk bool) Case {
	c := Case{Version: rapid.IntRange(1, 4).Draw(t, "version"), Creds: []CredCase{}, Client: true}
	c.Header = genHeader(t, c.Version, false)
	realm := rapid.SampledFrom(cliRealms).Draw(t, "realm")
	c.Default = cf.Principal{NameType: 1, Realm: realm, Comps: rapid.SampledFrom([][]string{{"user"}, {"user", "admin"}, {"host", "client.example.com"}}).Draw(t, "cname")}
	mk := func(i int, server []string, nt int32) CredCase {
		lb := fmt.Sprintf("cred%d", i)
		var cc CredCase
		cc.Client = c.Default
		cc.Server = cf.Principal{NameType: nt, Realm: realm, Comps: server}
		et := rapid.SampledFrom([]int16{17, 18, 23, 16, 19, 20}).Draw(t, lb+"/etype")
		cc.KeyType = et
		cc.Key = kgen.Bytes(t, lb+"/key", rapid.SampledFrom([]int{16, 32, 24}).Draw(t, lb+"/keylen"))
		if !jdk && rapid.IntRange(0, 5).Draw(t, lb+"/abs") == 0 {
			cc.AuthTime, cc.StartTime, cc.EndTime, cc.RenewTill = genTime(t, lb+"/auth"), genTime(t, lb+"/start"), genTime(t, lb+"/end"), genTime(t, lb+"/renew")
		} else {
			cc.RelTimes = true
			_, cc.AuthTime, cc.StartTime, cc.EndTime, cc.RenewTill = relTimes(t, lb)
		}
		cc.Flags = genFlags(t)
		cc.Addrs = genTyped(t, lb+"/addr", []uint16{2, 24}, 16)
		cc.AuthData = genTyped(t, lb+"/ad", adTypes, 24)
		if jdk {
			// the JDK reader only understands 4- and 16-byte addresses and small positive authdata types
			cc.Addrs, cc.AuthData = []cf.Typed{}, []cf.Typed{}
			for k, n := 0, rapid.IntRange(0, 3).Draw(t, lb+"/jaddr"); k < n; k++ {
				if rapid.Bool().Draw(t, fmt.Sprintf("%s/jaddr%d/v6", lb, k)) {
					cc.Addrs = append(cc.Addrs, cf.Typed{Type: 24, Data: kgen.Bytes(t, fmt.Sprintf("%s/jaddr%d", lb, k), 16)})
				} else {
					cc.Addrs = append(cc.Addrs, cf.Typed{Type: 2, Data: kgen.Bytes(t, fmt.Sprintf("%s/jaddr%d", lb, k), 4)})
				}
			}
			for k, n := 0, rapid.IntRange(0, 3).Draw(t, lb+"/jad"); k < n; k++ {
				cc.AuthData = append(cc.AuthData, cf.Typed{Type: rapid.SampledFrom([]uint16{1, 4, 5, 8, 128, 129, 255, 256, 0x7fff}).Draw(t, fmt.Sprintf("%s/jad%d/t", lb, k)),
					Data: kgen.Bytes(t, fmt.Sprintf("%s/jad%d", lb, k), rapid.IntRange(0, 24).Draw(t, fmt.Sprintf("%s/jad%d/l", lb, k)))})
			}
		}
		kvno := int64(rapid.SampledFrom([]int{-1, 0, 1, 2, 255, 70000}).Draw(t, lb+"/kvno"))
		cc.Ticket = mkTicket(realm, nt, server, int32(rapid.SampledFrom([]int16{17, 18, 23}).Draw(t, lb+"/tetype")), kvno,
			kgen.Bytes(t, lb+"/cipher", rapid.IntRange(1, 120).Draw(t, lb+"/cipherlen")))
		cc.SecondTicket = cf.Hex{}
		return cc
	}
	tgts := rapid.SampledFrom([]int{1, 1, 1, 1, 1, 1, 2, 0}).Draw(t, "ntgt")
	nsvc := rapid.IntRange(0, 5).Draw(t, "nsvc")
	servers := cliServers
	if jdk {
		// distinct, non-empty server names so that the JDK keeps every credential
		tgts = 1
		servers = rapid.Permutation(cliServers[:7]).Draw(t, "servers")
	}
	nconf := rapid.IntRange(0, 2).Draw(t, "nconf")
	kinds := []string{}
	for i := 0; i < tgts; i++ {
		kinds = append(kinds, "tgt")
	}
	for i := 0; i < nsvc; i++ {
		kinds = append(kinds, "svc")
	}
	for i := 0; i < nconf; i++ {
		kinds = append(kinds, "conf")
	}
	kinds = rapid.Permutation(kinds).Draw(t, "order")
	for i, k := range kinds {
		switch k {
		case "tgt":
			c.Creds = append(c.Creds, mk(i, []string{"krbtgt", realm}, 2))
		case "svc":
			srv := servers[i%len(servers)]
			if !jdk {
				srv = rapid.SampledFrom(servers).Draw(t, fmt.Sprintf("cred%d/server", i))
			}
			c.Creds = append(c.Creds, mk(i, srv, rapid.SampledFrom([]int32{1, 2, 3}).Draw(t, fmt.Sprintf("cred%d/nt", i))))
		case "conf":
			ce := genConf(t, i, c.Default)
			if jdk && ce.Server.Comps[1] == "" {
				ce.Server.Comps[1] = "refresh_time" // the JDK drops entries with an empty name component
			}
			c.Creds = append(c.Creds, ce)
		}
	}
	c.Lookups = genLookups(t, c.Creds)
	c.ViaFile = rapid.IntRange(0, 7).Draw(t, "viafile") == 7
	return c
}

// ---------------------------------------------------------------------------------------------

// ---------------------------------------------------------------------------------------------
// JDK referee: sun.security.krb5.internal.ccache.FileCredentialsCache reads files rendered by
// ref/ccachefmt; what it reports must be the model. This validates the independent writer on
// versions 1-3, for which the repository has no MIT sample. Disagreement is harness trouble
// (inconclusive), never a verdict on gokrb5.

var jdkFlags = []string{
	"--add-exports", "java.security.jgss/sun.security.krb5=ALL-UNNAMED",
	"--add-exports", "java.security.jgss/sun.security.krb5.internal=ALL-UNNAMED",
	"--add-exports", "java.security.jgss/sun.security.krb5.internal.ccache=ALL-UNNAMED",
}

// jdkKnownFlags are the ticket flags the JDK reader maps (forwardable ... hw-authent).
const jdkKnownFlags = 0x7ff00000

func jdkPrinc(version int, p cf.Principal) string {
	nt := p.NameType
	if version == 1 {
		nt = 0
	}
	cs := []string{}
	for _, c := range p.Comps {
		cs = append(cs, hex.EncodeToString([]byte(c)))
	}
	return fmt.Sprintf("%d:%x:%s", nt, p.Realm, strings.Join(cs, ","))
}

func jdkTyped(l []cf.Typed) string {
	out := []string{}
	for _, e := range l {
		out = append(out, fmt.Sprintf("%d:%x", e.Type, []byte(e.Data)))
	}
	return strings.Join(out, ";")
}

// jdkExpect renders what CcDump must print for a model.
func jdkExpect(f *cf.File) []string {
	out := []string{fmt.Sprintf("VERSION %d", f.Version)}
	off := "OFFSET null null"
	for _, h := range f.Header {
		if h.Tag == cf.TagKDCOff && len(h.Data) == 8 {
			off = fmt.Sprintf("OFFSET %d %d", int32(binary.BigEndian.Uint32(h.Data)), int32(binary.BigEndian.Uint32(h.Data[4:])))
		}
	}
	out = append(out, off, "PRINC "+jdkPrinc(f.Version, f.Default))
	var confs []string
	for i := range f.Creds {
		c := &f.Creds[i]
		if c.IsConfig() {
			p := ""
			if len(c.Server.Comps) > 2 {
				p = hex.EncodeToString([]byte(c.Server.Comps[2]))
			}
			confs = append(confs, fmt.Sprintf("CONF n=%x p=%s d=%x", c.Server.Comps[1], p, []byte(c.Ticket)))
			continue
		}
		out = append(out, fmt.Sprintf("CRED c=%s s=%s k=%d:%x t=%d,%d,%d,%d skey=%d flags=%08x addrs=%s ad=%s tkt=%x tkt2=%x",
			jdkPrinc(f.Version, c.Client), jdkPrinc(f.Version, c.Server), c.KeyType, []byte(c.Key), c.AuthTime, c.StartTime, c.EndTime, c.RenewTill,
			c.IsSKey, c.Flags&jdkKnownFlags, jdkTyped(c.Addrs), jdkTyped(c.AuthData), []byte(c.Ticket), []byte(c.SecondTicket)))
	}
	return append(out, confs...)
}

// jdkCross renders n client-style caches, lets the JDK read them and compares. It returns the cases
// so that the caller also judges gokrb5 on them.
func jdkCross(r *evid.Run, n int) []Case {
	java, err1 := exec.LookPath("java")
	javac, err2 := exec.LookPath("javac")
	if err1 != nil || err2 != nil {
		r.Assume("JDK not found: generated files were not cross-read by the JDK's FileCredentialsCache")
		return nil
	}
	dir, err := os.MkdirTemp("", "c15-jdk-")
	if err != nil {
		r.Assume("JDK cross-read skipped: " + err.Error())
		return nil
	}
	defer os.RemoveAll(dir)
	src, err := filepath.Abs(filepath.Join("..", "ref", "ccachefmt", "jdk", "CcDump.java"))
	if err != nil {
		r.Assume("JDK cross-read skipped: " + err.Error())
		return nil
	}
	if out, err := exec.Command(javac, append(append([]string{"-nowarn", "-encoding", "UTF-8"}, jdkFlags...), "-d", dir, src)...).CombinedOutput(); err != nil {
		r.Assume(fmt.Sprintf("JDK cross-read skipped: javac failed: %v: %s", err, firstN(string(out), 300)))
		return nil
	}
	gen := rapid.Custom(func(t *rapid.T) Case { return genClientCase(t, true) })
	now := time.Now()
	var cases []Case
	var want [][]string
	args := append(append([]string{}, jdkFlags...), "--add-opens", "java.security.jgss/sun.security.krb5.internal=ALL-UNNAMED",
		"--add-opens", "java.security.jgss/sun.security.krb5.internal.ccache=ALL-UNNAMED", "-Djava.security.krb5.conf=/dev/null", "-Dfile.encoding=UTF-8", "-cp", dir, "CcDump")
	for i := 0; i < n; i++ {
		c := gen.Example(int(r.Seed()%100000)*100000 + i)
		f := model(c, now)
		// freeze the times so that the later gokrb5 evaluation sees the same file
		for k := range c.Creds {
			c.Creds[k].Credential, c.Creds[k].RelTimes = f.Creds[k], false
		}
		b, err := cf.Marshal(f, native)
		if err != nil {
			r.Inconclusive("JDK cross-read: writer: %v", err)
			return nil
		}
		path := filepath.Join(dir, fmt.Sprintf("f%05d.cc", i))
		if err := os.WriteFile(path, b, 0o600); err != nil {
			r.Inconclusive("JDK cross-read: %v", err)
			return nil
		}
		args = append(args, path)
		cases = append(cases, c)
		want = append(want, jdkExpect(f))
	}
	out, err := exec.Command(java, args...).Output()
	if err != nil {
		r.Assume(fmt.Sprintf("JDK cross-read skipped: java failed: %v", err))
		return nil
	}
	blocks := [][]string{}
	var cur []string
	for _, ln := range strings.Split(string(out), "\n") {
		ln = strings.TrimRight(ln, "\r")
		switch {
		case strings.HasPrefix(ln, "FILE "):
			cur = []string{}
		case ln == "END":
			blocks = append(blocks, cur)
		case ln != "":
			cur = append(cur, ln)
		}
	}
	if len(blocks) != n {
		r.Inconclusive("JDK cross-read: %d result blocks for %d files", len(blocks), n)
		return nil
	}
	bad := 0
	for i := range blocks {
		r.Label(fmt.Sprintf("jdk-cross-read:v%d", cases[i].Version))
		if strings.Join(blocks[i], "\n") != strings.Join(want[i], "\n") {
			bad++
			if bad == 1 {
				r.Inconclusive("the JDK's FileCredentialsCache reads a rendered version %d file differently from the model (referee disagrees with ref/ccachefmt)\n JDK:\n  %s\n model:\n  %s",
					cases[i].Version, firstN(strings.Join(blocks[i], "\n  "), 3000), firstN(strings.Join(want[i], "\n  "), 3000))
			}
		}
	}
	r.Extra("jdk_cross_read_files", n)
	r.Extra("jdk_cross_read_disagreements", bad)
	if bad == 0 {
		r.Assume(fmt.Sprintf("%d rendered files (versions 1-4) were read by the JDK's FileCredentialsCache and agreed with the model in principals, keys, times, is_skey, flags (JDK-known bits), addresses, authdata, tickets and configuration entries", n))
	}
	return cases
}

func firstN(s string, n int) string {
	if len(s) > n {
		return s[:n] + "..."
	}
	return s
}

func labelsOf(c Case) (nt bool, labels []string) {
	labels = append(labels, fmt.Sprintf("v%d", c.Version), fmt.Sprintf("creds:%d", len(c.Creds)), fmt.Sprintf("default-comps:%d", len(c.Default.Comps)))
	if c.Version == 4 {
		labels = append(labels, fmt.Sprintf("hdr-fields:%d", len(c.Header)))
		if hasUnknownTag(c.Header) {
			labels = append(labels, "hdr:unknown-tag")
		}
	}
	nconf, naddr, nad, second, asym := 0, 0, 0, 0, 0
	seen := map[string]bool{}
	for i := range c.Creds {
		cr := &c.Creds[i].Credential
		if cr.IsConfig() {
			nconf++
		}
		naddr += len(cr.Addrs)
		nad += len(cr.AuthData)
		if len(cr.SecondTicket) > 0 {
			second++
		}
		if cr.Flags != swap32(cr.Flags) {
			asym++
		}
		for _, l := range []string{fmt.Sprintf("keylen:%d", len(cr.Key)/16*16), fmt.Sprintf("server-comps:%d", len(cr.Server.Comps)),
			fmt.Sprintf("addrs:%d", len(cr.Addrs)), fmt.Sprintf("authdata:%d", len(cr.AuthData))} {
			if !seen[l] {
				seen[l] = true
				labels = append(labels, l)
			}
		}
		if len(cr.Key) == 0 && !seen["key:empty"] {
			seen["key:empty"] = true
			labels = append(labels, "key:empty")
		}
		if len(cr.Key) == 64 && !seen["key:64"] {
			seen["key:64"] = true
			labels = append(labels, "key:64")
		}
	}
	if nconf > 0 {
		labels = append(labels, "config-entries:yes")
		if nconf == len(c.Creds) {
			labels = append(labels, "config-entries:only")
		}
	} else {
		labels = append(labels, "config-entries:no")
	}
	if second > 0 {
		labels = append(labels, "second-ticket:yes")
	}
	if asym > 0 {
		labels = append(labels, "flags:byte-order-sensitive")
	}
	if c.ViaFile {
		labels = append(labels, "via:LoadCCache")
	} else {
		labels = append(labels, "via:Unmarshal")
	}
	if c.Client {
		labels = append(labels, "mode:client")
	}
	nt = (len(c.Creds) >= 2 && naddr+nad >= 1) || c.Version != 4
	return
}

func mitSample() []byte {
	b, _ := hex.DecodeString(testdata.CCACHE_TEST)
	return b
}

// sampleCase turns the MIT kinit sample into a Case (read by the independent reader).
func sampleCase() (Case, error) {
	f, err := cf.Parse(mitSample(), native)
	if err != nil {
		return Case{}, err
	}
	c := Case{Version: f.Version, Header: f.Header, Default: f.Default, Creds: []CredCase{}, Client: true}
	for _, cr := range f.Creds {
		c.Creds = append(c.Creds, CredCase{Credential: cr})
		c.Lookups = append(c.Lookups, Lookup{NameType: cr.Server.NameType, Comps: cr.Server.Comps})
	}
	c.Lookups = append(c.Lookups, Lookup{NameType: 1, Comps: []string{"HTTP"}}, Lookup{NameType: 1, Comps: []string{"krbtgt"}})
	return c, nil
}

func TestProp(t *testing.T) {
	r := evid.Start(t, "C15", "exploration")
	for _, k := range []string{"parse", "header", "client", "jdk-files", "enum-shape", "enum-flags", "enum-header", "mit-sample"} {
		evid.Reg(r, k, Eval)
	}
	if r.Replay() {
		return
	}
	defer r.Finish()
	var pool evid.Pool[Case] // rapid-drawn cases, evaluated side by side once more at the end
	defer func() { evid.Concurrent(r, &pool, 16, Eval) }()
	r.Regress()
	if err := cf.SelfTest(mitSample()); err != nil {
		r.Inconclusive("independent ccache writer/reader self-test failed: %v", err)
		return
	}
	if _, err := der.Ticket.DecodeM(mkTicket("R", 2, []string{"krbtgt", "R"}, 18, 1, []byte{1, 2, 3})); err != nil {
		r.Inconclusive("reference DER ticket encoder/decoder self-test failed: %v", err)
		return
	}
	r.Assume("files are rendered by ref/ccachefmt, written from the MIT ccache format document and validated at start-up: the repo's MIT kinit sample (version 4) is parsed and re-written byte-identically, and hand-assembled version 1-4 files in both byte orders equal the writer's output; versions 1 and 2 are rendered in this host's byte order (" + hostOrder() + ")")
	r.Assume("key types are compared as signed 16-bit values (negative enctypes exist and MIT sign-extends them); 16-bit address and authdata types may come back zero- or sign-extended (the format does not say; MIT zero-extends the former and sign-extends the latter); name types are not compared for version 1 (not stored)")
	r.Assume("excluded by construction: server realms that merely start with X-CACHECONF without being X-CACHECONF:, and X-CACHECONF: entries whose first component is not krb5_ccache_conf_data (the MIT rule and gokrb5's prefix rule differ there and the statement does not settle it); tag-1 header fields of a length other than 8; is_skey values other than 0/1")
	r.Assume("client checks read the client's private ticket cache and TGT session by reflection; GetCachedTicket is only asked about credentials that are at least 300 s away from a validity boundary and would not trigger a renewal exchange (C10)")

	judge := func(check string, c Case, rt *rapid.T) {
		v, inf := eval(c)
		nt, labels := labelsOf(c)
		key := ""
		if nt {
			key = string(inf.file) + fmt.Sprint(c.Lookups, c.Client)
		}
		seen := map[string]bool{}
		for _, l := range inf.labels {
			if !seen[l] {
				seen[l] = true
				labels = append(labels, l)
			}
		}
		r.Count(key, labels...)
		cls := fmt.Sprintf("%s/v%d", check, c.Version)
		if len(c.Creds) <= 2 {
			r.Sample(cls, c)
		}
		if rt != nil {
			if v.OK {
				pool.Add(check, c)
			}
			if r.Judge(check, c, v) {
				rt.Fatalf("violation: %s", v.Sig)
			}
		} else {
			r.Violation(check, c, v)
		}
	}

	// the real file first
	if sc, err := sampleCase(); err != nil {
		r.Inconclusive("MIT sample: %v", err)
		return
	} else {
		sc.Client = true
		judge("mit-sample", sc, nil)
		sc.ViaFile = true
		judge("mit-sample", sc, nil)
	}

	r.Rule("parse: version 1..4 x (v4) 0..2 KDC-offset header fields x default principal x 0..6 credentials (1 in 5 an X-CACHECONF: configuration entry), principals with 0..3 components (pool incl. empty, '/', '@', non-ASCII, 300-byte names + random strings), any int32 name type, any int16 key type, key 0..64 bytes, four times over int32 (boundary-biased), is_skey 0/1, 32 flag bits (named values, single bits, random), 0..3 addresses, 0..3 authdata entries, ticket and second-ticket blobs 0..600 bytes, 0..4 lookups (exact, near-miss, unrelated), 1 in 8 via LoadCCache on a temp file; non-trivial = (>= 2 credentials and >= 1 address or authdata entry) or version != 4, distinct by file bytes + lookups")
	r.Rapid("parse", r.N(20000, 200000), func(t *rapid.T) { judge("parse", genParseCase(t, false), t) })

	r.Rule("header: as parse but version-4 header fields may carry unknown tags (0,2,3,255,256,0x7fff,0x8000,0xffff) with 0..33 value bytes, which the format document tells readers to ignore")
	r.Rapid("header", r.N(4000, 40000), func(t *rapid.T) {
		c := genParseCase(t, true)
		judge("header", c, t)
	})

	r.Rule("client: caches as kinit/kvno leave them in versions 1..4: TGT krbtgt/REALM@REALM (1 in 8 absent, 1 in 8 duplicated), 0..5 service credentials from a pool of 8 server names (duplicates possible) with reference-encoded DER Tickets (ref/der) whose sname is the credential's server, 0..2 configuration entries, any order; times relative to now in classes valid/expired/not-yet-valid/renewable-expired (1 in 6 absolute int32); NewFromCCache + private cache/session inspection + GetCachedTicket")
	r.Rapid("client", r.N(10000, 100000), func(t *rapid.T) { judge("client", genClientCase(t, false), t) })

	r.Rule("jdk-files: client-style caches restricted to what the JDK reader supports (one TGT, distinct non-empty server names, 4/16-byte addresses, positive authdata types, KDC-offset header only) are read by the JDK's FileCredentialsCache (must equal the model, else inconclusive) and by gokrb5 (judged as any other case)")
	for _, c := range jdkCross(r, r.N(jdkQuick, 1500)) {
		judge("jdk-files", c, nil)
	}

	// --- bounded-exhaustive enumerations (deterministic content from the seed)
	seed := r.Seed()
	name := func(lbl string, n int) []string {
		out := []string{}
		for i := 0; i < n; i++ {
			out = append(out, fmt.Sprintf("%s%d-%x", lbl, i, kgen.DetBytes(seed, fmt.Sprintf("c15/name/%s/%d", lbl, i), 1+i)))
		}
		return out
	}
	typed := func(lbl string, n int) []cf.Typed {
		out := []cf.Typed{}
		for i := 0; i < n; i++ {
			out = append(out, cf.Typed{Type: uint16(2 + 11*i), Data: kgen.DetBytes(seed, fmt.Sprintf("c15/typed/%s/%d", lbl, i), 4+6*i)})
		}
		return out
	}
	be32 := func(lbl string) uint32 { return binary.BigEndian.Uint32(kgen.DetBytes(seed, "c15/u32/"+lbl, 4)) }

	r.Rule("enum-shape: every (version 1..4) x (credentials 0..3) x (components 0..3, same count in every principal) x (addresses 0..3) x (authdata 0..3) x (key length 0,1,16,32,64) x (configuration entry none/first/last) with seeded content; lookups for every server name, its prefix and its extension")
	type shape struct{ v, nc, ncomp, na, nad, kl, conf int }
	var shapes []shape
	for v := 1; v <= 4; v++ {
		for nc := 0; nc <= 3; nc++ {
			for ncomp := 0; ncomp <= 3; ncomp++ {
				for na := 0; na <= 3; na++ {
					for nad := 0; nad <= 3; nad++ {
						for _, kl := range []int{0, 1, 16, 32, 64} {
							for conf := 0; conf < 3; conf++ {
								if nc == 0 && (na+nad > 0 || kl != 0) {
									continue // no credential to carry them
								}
								shapes = append(shapes, shape{v, nc, ncomp, na, nad, kl, conf})
							}
						}
					}
				}
			}
		}
	}
	evid.Parallel(len(shapes), 16, func(i int) {
		s := shapes[i]
		lb := fmt.Sprintf("%d/%d/%d/%d/%d/%d/%d", s.v, s.nc, s.ncomp, s.na, s.nad, s.kl, s.conf)
		c := Case{Version: s.v, Header: []cf.HeaderField{}, Creds: []CredCase{}, Lookups: []Lookup{}}
		if s.v == 4 && i%2 == 0 {
			c.Header = append(c.Header, cf.KDCOffsetField(int32(be32("off/"+lb)), 17))
		}
		c.Default = cf.Principal{NameType: 1, Realm: "REALM" + fmt.Sprint(i%7), Comps: name("d", s.ncomp)}
		for k := 0; k < s.nc; k++ {
			kb := fmt.Sprintf("%s/%d", lb, k)
			cr := cf.Credential{Client: c.Default, Server: cf.Principal{NameType: int32(2 + k), Realm: "SREALM", Comps: name(fmt.Sprintf("s%d", k), s.ncomp)},
				KeyType: int16(17 + k), Key: kgen.DetBytes(seed, "c15/key/"+kb, s.kl),
				AuthTime: int32(be32("t1/" + kb)), StartTime: int32(be32("t2/" + kb)), EndTime: int32(be32("t3/" + kb)), RenewTill: int32(be32("t4/" + kb)),
				IsSKey: uint8(k & 1), Flags: be32("fl/" + kb), Addrs: typed("a"+kb, s.na), AuthData: typed("d"+kb, s.nad),
				Ticket: kgen.DetBytes(seed, "c15/tkt/"+kb, 30+k), SecondTicket: kgen.DetBytes(seed, "c15/tkt2/"+kb, (k%2)*9)}
			c.Creds = append(c.Creds, CredCase{Credential: cr})
			c.Lookups = append(c.Lookups, Lookup{NameType: 1, Comps: cr.Server.Comps})
			if len(cr.Server.Comps) > 0 {
				c.Lookups = append(c.Lookups, Lookup{NameType: 1, Comps: cr.Server.Comps[:len(cr.Server.Comps)-1]})
			}
			c.Lookups = append(c.Lookups, Lookup{NameType: 1, Comps: append(append([]string{}, cr.Server.Comps...), "x")})
		}
		conf := CredCase{Credential: cf.ConfigEntry(c.Default, "fast_avail", "krbtgt/R@R", []byte("yes"))}
		switch s.conf {
		case 1:
			c.Creds = append([]CredCase{conf}, c.Creds...)
		case 2:
			c.Creds = append(c.Creds, conf)
		}
		if s.conf != 0 {
			c.Lookups = append(c.Lookups, Lookup{NameType: 0, Comps: conf.Server.Comps})
		}
		judge("enum-shape", c, nil)
	})
	r.Exhaustive("shape: version x credential count 0..3 x component count 0..3 x address count 0..3 x authdata count 0..3 x key length {0,1,16,32,64} x config entry {none,first,last}")

	r.Rule("enum-flags: every version x every single ticket-flag bit, every pair of adjacent bits, the named MIT combinations, 0 and all-ones")
	var fl []uint32
	for b := 0; b < 32; b++ {
		fl = append(fl, 1<<uint(b))
		fl = append(fl, 3<<uint(b))
	}
	fl = append(fl, flagVals...)
	for v := 1; v <= 4; v++ {
		for _, x := range fl {
			p := cf.Principal{NameType: 1, Realm: "R", Comps: []string{"u"}}
			c := Case{Version: v, Header: []cf.HeaderField{}, Default: p, Lookups: []Lookup{}, Creds: []CredCase{{Credential: cf.Credential{Client: p,
				Server: cf.Principal{NameType: 2, Realm: "R", Comps: []string{"krbtgt", "R"}}, KeyType: 18, Key: kgen.DetBytes(seed, "c15/flagkey", 32),
				AuthTime: 1500000000, StartTime: 1500000000, EndTime: 1500036000, RenewTill: 1500600000, Flags: x, Addrs: []cf.Typed{}, AuthData: []cf.Typed{},
				Ticket: mkTicket("R", 2, []string{"krbtgt", "R"}, 18, 1, []byte("cipher")), SecondTicket: cf.Hex{}}}}}
			judge("enum-flags", c, nil)
		}
	}
	r.Exhaustive("flags: version x {single bits, adjacent bit pairs, named combinations}")

	r.Rule("enum-header: version 4 with every sequence of 0..3 header fields drawn from {KDC offset, unknown tag with 0, 1, 8 and 12 value bytes, tag 0, tag 0xffff}")
	alts := []cf.HeaderField{cf.KDCOffsetField(6, 0), {Tag: 2, Data: cf.Hex{}}, {Tag: 2, Data: cf.Hex{9}}, {Tag: 3, Data: kgen.DetBytes(seed, "c15/h8", 8)},
		{Tag: 0x100, Data: kgen.DetBytes(seed, "c15/h12", 12)}, {Tag: 0, Data: cf.Hex{1, 2}}, {Tag: 0xffff, Data: cf.Hex{0, 0, 0, 0}}}
	var seqs [][]cf.HeaderField
	seqs = append(seqs, []cf.HeaderField{})
	for _, a := range alts {
		seqs = append(seqs, []cf.HeaderField{a})
		for _, b := range alts {
			seqs = append(seqs, []cf.HeaderField{a, b})
			for _, d := range alts {
				seqs = append(seqs, []cf.HeaderField{a, b, d})
			}
		}
	}
	for _, h := range seqs {
		p := cf.Principal{NameType: 1, Realm: "R", Comps: []string{"u"}}
		c := Case{Version: 4, Header: h, Default: p, Lookups: []Lookup{{NameType: 2, Comps: []string{"s"}}}, Creds: []CredCase{{Credential: cf.Credential{Client: p,
			Server: cf.Principal{NameType: 2, Realm: "R", Comps: []string{"s"}}, KeyType: 17, Key: kgen.DetBytes(seed, "c15/hk", 16), AuthTime: 1, StartTime: 2, EndTime: 3, RenewTill: 4,
			Flags: cf.FlagInitial, Addrs: []cf.Typed{}, AuthData: []cf.Typed{}, Ticket: cf.Hex("t"), SecondTicket: cf.Hex{}}}}}
		judge("enum-header", c, nil)
	}
	r.Exhaustive("header: all sequences of 0..3 fields over 7 field alternatives")
}
