// Package mint builds Kerberos messages (tickets, authenticators, AP-REQs, KDC replies, SPNEGO
// tokens, keytabs, PACs) from explicit specifications using ONLY the reference encoder (ref/der)
// and the reference crypto (ref/krbcrypto), so that what gokrb5 is fed does not depend on gokrb5.
package mint

import (
	"encoding/binary"
	"fmt"
	"strings"
	"time"

	"verif/harness/ref/der"
	ref "verif/harness/ref/krbcrypto"
)

// Key is a typed protocol key.
type Key struct {
	EType int32
	Value []byte
}

// Addr is a HostAddress.
type Addr struct {
	Type int32
	Data []byte
}

// AD is one authorization-data element.
type AD struct {
	Type int32
	Data []byte
}

// Name splits "a/b" into components; "" is a name with zero components. A literal slash inside a
// component is written %2F ("a%2Fb" is the single component "a/b").
func Name(s string) []string {
	if s == "" {
		return []string{}
	}
	parts := strings.Split(s, "/")
	for i := range parts {
		parts[i] = strings.ReplaceAll(parts[i], "%2F", "/")
	}
	return parts
}

// PN builds a PrincipalName value.
func PN(nameType int, s string) der.M { return der.Name(nameType, Name(s)...) }

func addrs(a []Addr) []any {
	out := []any{}
	for _, x := range a {
		out = append(out, der.M{"addr-type": int64(x.Type), "address": x.Data})
	}
	return out
}

func authData(a []AD) []any {
	out := []any{}
	for _, x := range a {
		out = append(out, der.M{"ad-type": int64(x.Type), "ad-data": x.Data})
	}
	return out
}

// Flags32 renders a 32-bit Kerberos flags value (bit 0 = most significant bit).
func Flags32(v uint32) []byte {
	b := make([]byte, 4)
	binary.BigEndian.PutUint32(b, v)
	return b
}

// Flag returns the mask of Kerberos flag number n (RFC 4120 numbering, bit 0 is the MSB).
func Flag(n int) uint32 { return 1 << uint(31-n) }

// EncData builds an EncryptedData value by encrypting plain with the reference.
func EncData(k Key, usage uint32, plain, confounder []byte, kvno *int) der.M {
	ct, err := ref.Encrypt(k.EType, k.Value, usage, plain, confounder[:ref.ConfounderLen(k.EType)])
	if err != nil {
		panic("mint: " + err.Error())
	}
	m := der.M{"etype": int64(k.EType), "cipher": ct}
	if kvno != nil {
		m["kvno"] = int64(*kvno)
	}
	return m
}

// TicketSpec describes a ticket.
type TicketSpec struct {
	Realm     string
	SName     string
	SNameType int
	KVNO      *int
	EncKey    Key    // key the enc-part is encrypted under
	Usage     uint32 // normally 2
	Conf      []byte // confounder bytes (>= 16)

	Flags     uint32
	Session   Key
	CRealm    string
	CName     string
	CNameType int
	AuthTime  time.Time
	StartTime *time.Time
	EndTime   time.Time
	RenewTill *time.Time
	CAddr     []Addr // nil = absent
	AuthData  []AD   // nil = absent

	MutateCipher func([]byte) []byte // optional ciphertext tamper
	RawEncPart   []byte              // if set, used as the enc-part plaintext instead of the encoded EncTicketPart
	Trailing     []byte              // raw DER appended inside the Ticket SEQUENCE after enc-part [3] (unauthenticated wire data)
}

// EncPart is the EncTicketPart value.
func (t *TicketSpec) EncPart() der.M {
	m := der.M{
		"flags":     Flags32(t.Flags),
		"key":       der.M{"keytype": int64(t.Session.EType), "keyvalue": t.Session.Value},
		"crealm":    t.CRealm,
		"cname":     PN(t.CNameType, t.CName),
		"transited": der.M{"tr-type": int64(0), "contents": []byte{}},
		"authtime":  t.AuthTime,
		"endtime":   t.EndTime,
	}
	if t.StartTime != nil {
		m["starttime"] = *t.StartTime
	}
	if t.RenewTill != nil {
		m["renew-till"] = *t.RenewTill
	}
	if t.CAddr != nil {
		m["caddr"] = addrs(t.CAddr)
	}
	if t.AuthData != nil {
		m["authorization-data"] = authData(t.AuthData)
	}
	return m
}

// Value is the Ticket value (encrypted).
func (t *TicketSpec) Value() der.M {
	plain := t.RawEncPart
	if plain == nil {
		plain = der.EncTicketPart.MustEncode(t.EncPart())
	}
	u := t.Usage
	if u == 0 {
		u = 2
	}
	ed := EncData(t.EncKey, u, plain, t.Conf, t.KVNO)
	if t.MutateCipher != nil {
		ed["cipher"] = t.MutateCipher(ed["cipher"].([]byte))
	}
	return der.M{"tkt-vno": int64(5), "realm": t.Realm, "sname": PN(t.SNameType, t.SName), "enc-part": ed}
}

// Bytes is the DER Ticket.
func (t *TicketSpec) Bytes() []byte {
	return AppendInsideApp(der.Ticket.MustEncode(t.Value()), t.Trailing)
}

// AppendInsideApp appends raw DER inside the SEQUENCE of an [APPLICATION n] SEQUENCE { ... } encoding.
func AppendInsideApp(msg, extra []byte) []byte {
	if len(extra) == 0 {
		return msg
	}
	n, err := der.Parse(msg)
	if err != nil {
		panic("mint: " + err.Error())
	}
	seq, err := n.Explicit()
	if err != nil {
		panic("mint: " + err.Error())
	}
	inner := der.TLV(der.Universal, der.TagSequence, true, append(append([]byte{}, seq.Content...), extra...))
	return der.TLV(n.Class, n.Tag, true, inner)
}

// AuthSpec describes an authenticator.
type AuthSpec struct {
	CRealm    string
	CName     string
	CNameType int
	CTime     time.Time // microsecond part goes to cusec
	Cksum     *der.M
	SubKey    *Key
	Seq       *uint32
	AuthData  []AD
	Key       Key    // encrypting key
	Usage     uint32 // 11 (7 towards the TGS)
	Conf      []byte

	MutateCipher func([]byte) []byte
	RawPlain     []byte
}

// Value is the Authenticator value.
func (a *AuthSpec) Value() der.M {
	ct := a.CTime.UTC()
	m := der.M{
		"authenticator-vno": int64(5),
		"crealm":            a.CRealm,
		"cname":             PN(a.CNameType, a.CName),
		"cusec":             int64(ct.Nanosecond() / 1000),
		"ctime":             ct.Truncate(time.Second),
	}
	if a.Cksum != nil {
		m["cksum"] = *a.Cksum
	}
	if a.SubKey != nil {
		m["subkey"] = der.M{"keytype": int64(a.SubKey.EType), "keyvalue": a.SubKey.Value}
	}
	if a.Seq != nil {
		m["seq-number"] = int64(*a.Seq)
	}
	if a.AuthData != nil {
		m["authorization-data"] = authData(a.AuthData)
	}
	return m
}

// Enc is the encrypted authenticator.
func (a *AuthSpec) Enc() der.M {
	plain := a.RawPlain
	if plain == nil {
		plain = der.Authenticator.MustEncode(a.Value())
	}
	ed := EncData(a.Key, a.Usage, plain, a.Conf, nil)
	if a.MutateCipher != nil {
		ed["cipher"] = a.MutateCipher(ed["cipher"].([]byte))
	}
	return ed
}

// APReq renders an AP-REQ.
func APReq(t *TicketSpec, a *AuthSpec, apOptions uint32) []byte {
	v := der.M{"pvno": int64(5), "msg-type": int64(14), "ap-options": Flags32(apOptions), "authenticator": a.Enc()}
	if len(t.Trailing) > 0 {
		v["ticket"] = der.Raw(t.Bytes())
	} else {
		v["ticket"] = t.Value()
	}
	return der.APReq.MustEncode(v)
}

// ---------------------------------------------------------------------------------------------
// keytab (MIT format version 2, big-endian)

// KeytabEntry is one keytab record.
type KeytabEntry struct {
	Principal string // "a/b"
	Realm     string
	KVNO      uint32
	Key       Key
	Timestamp uint32
}

// KeytabBytes renders a version-2 keytab file with 32-bit kvno fields.
func KeytabBytes(entries []KeytabEntry) []byte {
	out := []byte{5, 2}
	str := func(b []byte, s string) []byte {
		b = binary.BigEndian.AppendUint16(b, uint16(len(s)))
		return append(b, s...)
	}
	for _, e := range entries {
		comps := Name(e.Principal)
		var r []byte
		r = binary.BigEndian.AppendUint16(r, uint16(len(comps)))
		r = str(r, e.Realm)
		for _, c := range comps {
			r = str(r, c)
		}
		r = binary.BigEndian.AppendUint32(r, 1) // name type
		r = binary.BigEndian.AppendUint32(r, e.Timestamp)
		r = append(r, byte(e.KVNO))
		r = binary.BigEndian.AppendUint16(r, uint16(e.Key.EType))
		r = binary.BigEndian.AppendUint16(r, uint16(len(e.Key.Value)))
		r = append(r, e.Key.Value...)
		r = binary.BigEndian.AppendUint32(r, e.KVNO)
		out = binary.BigEndian.AppendUint32(out, uint32(len(r)))
		out = append(out, r...)
	}
	return out
}

// LookupKey is the reference keytab lookup: entries matching principal, realm, etype and kvno
// (any kvno when 0), newest timestamp wins.
func LookupKey(entries []KeytabEntry, principal, realm string, kvno int, etype int32) (KeytabEntry, bool) {
	var best KeytabEntry
	found := false
	for _, e := range entries {
		if e.Principal != principal || e.Realm != realm || e.Key.EType != etype {
			continue
		}
		if kvno != 0 && e.KVNO != uint32(kvno) {
			continue
		}
		if !found || e.Timestamp > best.Timestamp {
			best, found = e, true
		}
	}
	return best, found
}

// ---------------------------------------------------------------------------------------------
// PAC re-signing (MS-PAC 2.3/2.8): used to place a verifiable PAC inside minted tickets.

type pacBuf struct {
	typ  uint32
	data []byte
}

// ResignPAC re-assembles a PAC with its server signature recomputed by the reference checksum
// (key usage 17) for the given checksum type and key. The KDC signature is left as found (the
// service cannot verify it). corrupt flips one bit of the resulting server signature.
func ResignPAC(pac []byte, cksumType int32, key []byte, corrupt bool) ([]byte, error) {
	if len(pac) < 8 {
		return nil, fmt.Errorf("pac too short")
	}
	n := int(binary.LittleEndian.Uint32(pac[0:]))
	if len(pac) < 8+16*n {
		return nil, fmt.Errorf("pac header truncated")
	}
	var bufs []pacBuf
	for i := 0; i < n; i++ {
		h := pac[8+16*i:]
		typ := binary.LittleEndian.Uint32(h[0:])
		sz := int(binary.LittleEndian.Uint32(h[4:]))
		off := int(binary.LittleEndian.Uint64(h[8:]))
		if off+sz > len(pac) {
			return nil, fmt.Errorf("pac buffer out of range")
		}
		bufs = append(bufs, pacBuf{typ, append([]byte{}, pac[off:off+sz]...)})
	}
	sigLen := ref.CksumLen(ref.ETypeForCksum(cksumType))
	for i := range bufs {
		if bufs[i].typ == 6 {
			d := make([]byte, 4+sigLen)
			binary.LittleEndian.PutUint32(d, uint32(cksumType))
			bufs[i].data = d
		}
	}
	out := make([]byte, 8+16*len(bufs))
	binary.LittleEndian.PutUint32(out[0:], uint32(len(bufs)))
	srvOff, kdcOff, kdcLen := -1, -1, 0
	for i, b := range bufs {
		for len(out)%8 != 0 {
			out = append(out, 0)
		}
		off := len(out)
		binary.LittleEndian.PutUint32(out[8+16*i:], b.typ)
		binary.LittleEndian.PutUint32(out[8+16*i+4:], uint32(len(b.data)))
		binary.LittleEndian.PutUint64(out[8+16*i+8:], uint64(off))
		out = append(out, b.data...)
		switch b.typ {
		case 6:
			srvOff = off
		case 7:
			kdcOff = off
			kdcLen = kdcSigLen(b.data)
		}
	}
	for len(out)%8 != 0 {
		out = append(out, 0)
	}
	if srvOff < 0 {
		return nil, fmt.Errorf("pac has no server signature buffer")
	}
	zeroed := append([]byte{}, out...)
	if kdcOff >= 0 {
		for i := 0; i < kdcLen; i++ {
			zeroed[kdcOff+4+i] = 0
		}
	}
	sig, err := ref.Checksum(cksumType, key, 17, zeroed)
	if err != nil {
		return nil, err
	}
	if corrupt {
		sig[len(sig)/2] ^= 0x10
	}
	copy(out[srvOff+4:], sig)
	return out, nil
}

func kdcSigLen(d []byte) int {
	if len(d) < 4 {
		return 0
	}
	switch int32(binary.LittleEndian.Uint32(d)) {
	case ref.CkRC4, ref.CkAES128SHA2:
		return min(16, len(d)-4)
	case ref.CkAES128SHA1, ref.CkAES256SHA1:
		return min(12, len(d)-4)
	case ref.CkAES256SHA2:
		return min(24, len(d)-4)
	}
	return 0
}

// PACAuthData wraps a PAC as AD-IF-RELEVANT { AD-WIN2K-PAC }.
func PACAuthData(pac []byte) AD {
	inner := der.AuthData.MustEncode([]any{der.M{"ad-type": int64(128), "ad-data": pac}})
	return AD{Type: 1, Data: inner}
}
