package c04

import (
	"bytes"
	"encoding/binary"
	"strings"
	"sync"

	"verif/harness/ref/der"
)

// A mutator is an indexable family of derived inputs: count(base) members, at(base, i) the i-th.
// at may return nil ("this member equals the base or does not exist"); such members are skipped.
// Indexability is what lets a worker process regenerate any member from (base, family, index) and
// lets the parent name the member a dead worker was evaluating.
type mutator struct {
	name  string
	count func(base []byte) int
	at    func(base []byte, i int) []byte
}

var mutators = map[string]*mutator{}

func addMut(m *mutator) { mutators[m.name] = m }

// interesting byte values: DER tags and length forms, sign/size boundaries, ASCII structure
// characters of krb5.conf and HTTP headers.
var interesting = []byte{0x00, 0x01, 0x03, 0x04, 0x05, 0x1f, 0x30, 0x7f, 0x80, 0x81, 0x82, 0x84, 0x88, 0xa0, 0xff, '{', '}', '=', '\n', ' ', ':', '[', '\\', '@'}

const nSubst = 27 // len(interesting) + 3 value-relative substitutions

func substValue(b byte, j int) byte {
	switch {
	case j < len(interesting):
		return interesting[j]
	case j == len(interesting):
		return b + 1
	case j == len(interesting)+1:
		return b - 1
	default:
		return b ^ 0x80
	}
}

func init() {
	addMut(&mutator{name: "none", count: func([]byte) int { return 1 }, at: func(b []byte, _ int) []byte { return append([]byte{}, b...) }})

	// all proper prefixes
	addMut(&mutator{name: "prefix", count: func(b []byte) int { return len(b) }, at: func(b []byte, i int) []byte { return append([]byte{}, b[:i]...) }})

	// single-byte substitutions with the interesting-value set
	addMut(&mutator{name: "subst", count: func(b []byte) int { return len(b) * nSubst },
		at: func(b []byte, i int) []byte {
			p, j := i/nSubst, i%nSubst
			v := substValue(b[p], j)
			if v == b[p] {
				return nil
			}
			o := append([]byte{}, b...)
			o[p] = v
			return o
		}})

	// every single-byte substitution (thorough tier)
	addMut(&mutator{name: "subst-all", count: func(b []byte) int { return len(b) * 255 },
		at: func(b []byte, i int) []byte {
			p, j := i/255, i%255
			o := append([]byte{}, b...)
			o[p] = b[p] + byte(j+1)
			return o
		}})

	addMut(&mutator{name: "bitflip", count: func(b []byte) int { return len(b) * 8 },
		at: func(b []byte, i int) []byte {
			o := append([]byte{}, b...)
			o[i/8] ^= 1 << uint(i%8)
			return o
		}})

	// bytes appended / whole input repeated / one byte inserted
	addMut(&mutator{name: "extend", count: func(b []byte) int { return 8 },
		at: func(b []byte, i int) []byte {
			switch i {
			case 0:
				return append(append([]byte{}, b...), 0)
			case 1:
				return append(append([]byte{}, b...), 0xff)
			case 2:
				return append(append([]byte{}, b...), make([]byte, 16)...)
			case 3:
				return append(append([]byte{}, b...), bytes.Repeat([]byte{0xff}, 16)...)
			case 4:
				return append(append([]byte{}, b...), b...)
			case 5:
				return append(append([]byte{}, b...), 0x30, 0x80)
			case 6:
				return append([]byte{0}, b...)
			default:
				if len(b) == 0 {
					return nil
				}
				return append(append([]byte{}, b[1:]...), b[0])
			}
		}})

	// fixed-width count / length / offset fields: every 2-, 4- and 8-octet window set to
	// {0, 1, n-1, n+1, 0x7F.., 0x80.., 0xFF.., n with one of its four top bits set} in both byte orders
	addMut(&mutator{name: "field16", count: func(b []byte) int { return max(0, len(b)-1) * nField },
		at: func(b []byte, i int) []byte { return fieldMut(b, i/nField, 2, i%nField) }})
	addMut(&mutator{name: "field32", count: func(b []byte) int { return max(0, len(b)-3) * nField },
		at: func(b []byte, i int) []byte { return fieldMut(b, i/nField, 4, i%nField) }})
	addMut(&mutator{name: "field64", count: func(b []byte) int { return max(0, len(b)-7) * nField },
		at: func(b []byte, i int) []byte { return fieldMut(b, i/nField, 8, i%nField) }})

	// DER: length octets rewritten without repairing the enclosing lengths
	addMut(&mutator{name: "derlen", count: func(b []byte) int { return len(derNodes(b)) * nDerLen },
		at: func(b []byte, i int) []byte {
			ns := derNodes(b)
			return derLenMut(b, ns[i/nDerLen], i%nDerLen)
		}})
	// DER: structurally VALID edits (all enclosing lengths repaired, nested encodings inside OCTET
	// STRINGs re-wrapped): a node's content emptied / shortened to 1..4 octets / the node removed /
	// the node duplicated. This is the systematic source of "empty sequence where an element is
	// indexed" and of BIT STRINGs with 0-3 octets.
	addMut(&mutator{name: "der-empty", count: func(b []byte) int { return treeCount(b) },
		at: func(b []byte, i int) []byte { return treeEdit(b, i, "empty", 0) }})
	addMut(&mutator{name: "der-short", count: func(b []byte) int { return treeCount(b) * 4 },
		at: func(b []byte, i int) []byte { return treeEdit(b, i/4, "short", 1+i%4) }})
	addMut(&mutator{name: "der-drop", count: func(b []byte) int { return treeCount(b) },
		at: func(b []byte, i int) []byte { return treeEdit(b, i, "drop", 0) }})
	addMut(&mutator{name: "der-dup", count: func(b []byte) int { return treeCount(b) },
		at: func(b []byte, i int) []byte { return treeEdit(b, i, "dup", 0) }})
	// DER: INTEGER / ENUMERATED contents replaced by boundary values (etype, kvno, counts, types)
	addMut(&mutator{name: "der-int", count: func(b []byte) int { return treeCount(b) * len(intVals) },
		at: func(b []byte, i int) []byte { return treeEdit(b, i/len(intVals), "int", i%len(intVals)) }})

	// text formats: line-level edits
	addMut(&mutator{name: "text-line", count: func(b []byte) int { return len(splitLines(b)) * len(lineRepl) },
		at: func(b []byte, i int) []byte {
			ls := splitLines(b)
			l, k := i/len(lineRepl), i%len(lineRepl)
			out := append([]string{}, ls[:l]...)
			switch r := lineRepl[k]; r {
			case "\x00drop":
			case "\x00dup":
				out = append(out, ls[l], ls[l])
			case "\x00lhs":
				s, _, _ := strings.Cut(ls[l], "=")
				out = append(out, s)
			case "\x00rhs":
				_, s, ok := strings.Cut(ls[l], "=")
				if !ok {
					return nil
				}
				out = append(out, "="+s)
			case "\x00v:", "\x00v:,", "\x00v:, ,", "\x00v: ", "\x00v:0", "\x00v:-1", "\x00v:99999999999999999999", "\x00v:x y", "\x00v:0x", "\x00v:1d2h3m4s5", "\x00v:*":
				k, _, ok := strings.Cut(ls[l], "=")
				if !ok {
					return nil
				}
				out = append(out, k+"= "+strings.TrimPrefix(r, "\x00v:"))
			case "\x00open":
				out = append(out, ls[l]+" {")
			case "\x00close":
				out = append(out, ls[l]+" }")
			default:
				out = append(out, r)
			}
			out = append(out, ls[l+1:]...)
			return []byte(strings.Join(out, "\n"))
		}})
}

var lineRepl = []string{"\x00v:", "\x00v:,", "\x00v:, ,", "\x00v: ", "\x00v:0", "\x00v:-1", "\x00v:99999999999999999999", "\x00v:x y", "\x00v:0x", "\x00v:1d2h3m4s5", "\x00v:*", "\x00drop", "\x00dup", "\x00lhs", "\x00rhs", "\x00open", "\x00close", "{", "}", "=", "= {", "[", "[realms", "[realms]", "[libdefaults]", "[domain_realm]", "x", " = y", "}}", "{{", "kdc", "X = {"}

func splitLines(b []byte) []string { return strings.Split(string(b), "\n") }

const nField = 20

func fieldMut(b []byte, off, w, k int) []byte {
	if off+w > len(b) {
		return nil
	}
	o := append([]byte{}, b...)
	f := o[off : off+w]
	get := func(bo binary.ByteOrder) uint64 {
		switch w {
		case 2:
			return uint64(bo.Uint16(f))
		case 4:
			return uint64(bo.Uint32(f))
		}
		return bo.Uint64(f)
	}
	put := func(bo binary.ByteOrder, v uint64) {
		switch w {
		case 2:
			bo.PutUint16(f, uint16(v))
		case 4:
			bo.PutUint32(f, uint32(v))
		default:
			bo.PutUint64(f, v)
		}
	}
	top := uint64(1) << uint(8*w-1)
	var be, le binary.ByteOrder = binary.BigEndian, binary.LittleEndian
	switch k {
	case 0:
		put(be, 0)
	case 1:
		put(be, 1)
	case 2:
		put(le, 1)
	case 3:
		put(be, get(be)+1)
	case 4:
		put(be, get(be)-1)
	case 5:
		put(le, get(le)+1)
	case 6:
		put(le, get(le)-1)
	case 7:
		put(be, top-1)
	case 8:
		put(le, top-1)
	case 9:
		put(be, top)
	case 10:
		put(le, top)
	case 11:
		put(be, ^uint64(0))
	case 12, 13, 14, 15, 16, 17, 18, 19:
		// the value with one of its four top bits set: multiplied by an element size of 2, 4, 8 or 16 in arithmetic
		// of the field's width it wraps round to (a multiple of) the original product, so a "does it fit" test
		// done after the multiplication still passes
		bo := be
		if k >= 16 {
			bo = le
		}
		put(bo, get(bo)|top>>uint(k%4))
	}
	if bytes.Equal(o, b) {
		return nil
	}
	return o
}

// ---------------------------------------------------------------------------------------------
// DER

// derNode is the position of one TLV inside a buffer.
type derNode struct {
	off, hdr, clen int // start, header length, content length
	lenOff, lenN   int // where the length octets are
}

var (
	nodeCacheMu sync.Mutex
	nodeCacheK  string
	nodeCacheV  []derNode
)

// derNodes walks an encoding (leniently: it stops descending where bytes do not parse) and lists
// every TLV, descending into constructed nodes and into OCTET STRING / BIT STRING contents that
// are themselves complete encodings.
func derNodes(b []byte) []derNode {
	nodeCacheMu.Lock()
	defer nodeCacheMu.Unlock()
	if nodeCacheK == string(b) {
		return nodeCacheV
	}
	var out []derNode
	var walk func(base int, buf []byte, depth int)
	walk = func(base int, buf []byte, depth int) {
		for len(buf) > 0 && depth < 24 {
			n, rest, err := der.ParseOne(buf)
			if err != nil {
				return
			}
			hdr := len(n.Raw) - len(n.Content)
			out = append(out, derNode{off: base, hdr: hdr, clen: len(n.Content), lenOff: base + lenStart(n.Raw), lenN: hdr - lenStart(n.Raw)})
			switch {
			case n.Constructed:
				walk(base+hdr, n.Content, depth+1)
			case n.Class == der.Universal && n.Tag == der.TagOctetString && nestedDER(n.Content):
				walk(base+hdr, n.Content, depth+1)
			}
			base += len(n.Raw)
			buf = rest
		}
	}
	walk(0, b, 0)
	nodeCacheK, nodeCacheV = string(b), out
	return out
}

func lenStart(raw []byte) int {
	i := 1
	if raw[0]&0x1f == 0x1f {
		for i < len(raw) && raw[i]&0x80 != 0 {
			i++
		}
		i++
	}
	return i
}

// nestedDER reports whether an OCTET STRING content is itself one complete constructed encoding.
func nestedDER(c []byte) bool {
	if len(c) < 2 {
		return false
	}
	n, err := der.Parse(c)
	return err == nil && n.Constructed
}

const nDerLen = 11

func derLenMut(b []byte, n derNode, k int) []byte {
	var enc []byte
	l := n.clen
	switch k {
	case 0:
		enc = []byte{0}
	case 1:
		enc = []byte{1}
	case 2:
		if l == 0 {
			return nil
		}
		enc = der.LenBytes(l - 1)
	case 3:
		enc = der.LenBytes(l + 1)
	case 4:
		enc = []byte{0x80}
	case 5:
		enc = []byte{0x84, 0xff, 0xff, 0xff, 0xff}
	case 6:
		enc = []byte{0x84, 0x7f, 0xff, 0xff, 0xff}
	case 7:
		enc = []byte{0x88, 0xff, 0xff, 0xff, 0xff, 0xff, 0xff, 0xff, 0xff}
	case 8:
		enc = []byte{0x84, byte(l >> 24), byte(l >> 16), byte(l >> 8), byte(l)} // non-minimal but consistent
	case 9:
		enc = []byte{0x81}
		enc = append(enc, byte(l)) // possibly non-minimal one-octet long form
	case 10:
		enc = []byte{0xff} // reserved length-of-length 127
	}
	o := append([]byte{}, b[:n.lenOff]...)
	o = append(o, enc...)
	o = append(o, b[n.lenOff+n.lenN:]...)
	if bytes.Equal(o, b) {
		return nil
	}
	return o
}

// tnode is an editable DER tree. wrap marks a primitive OCTET STRING whose content is a nested
// encoding (kids hold it).
type tnode struct {
	id    byte // first identifier octet (tags >= 31 are kept verbatim in idRaw)
	idRaw []byte
	prim  []byte
	kids  []*tnode
	cons  bool // kids are the content (constructed node or wrapped nested encoding)
}

func parseTree(b []byte, depth int) ([]*tnode, bool) {
	var out []*tnode
	for len(b) > 0 {
		n, rest, err := der.ParseOne(b)
		if err != nil || depth > 24 {
			return nil, false
		}
		t := &tnode{id: n.Raw[0], idRaw: append([]byte{}, n.Raw[:lenStart(n.Raw)]...)}
		switch {
		case n.Constructed:
			k, ok := parseTree(n.Content, depth+1)
			if !ok {
				return nil, false
			}
			t.kids, t.cons = k, true
		case n.Class == der.Universal && n.Tag == der.TagOctetString && nestedDER(n.Content):
			k, ok := parseTree(n.Content, depth+1)
			if !ok {
				return nil, false
			}
			t.kids, t.cons = k, true
		default:
			t.prim = append([]byte{}, n.Content...)
		}
		out = append(out, t)
		b = rest
	}
	return out, true
}

func (t *tnode) encode() []byte {
	c := t.prim
	if t.cons {
		c = nil
		for _, k := range t.kids {
			c = append(c, k.encode()...)
		}
	}
	out := append([]byte{}, t.idRaw...)
	out = append(out, der.LenBytes(len(c))...)
	return append(out, c...)
}

func flatten(ts []*tnode, parent *tnode, out *[]treeRef) {
	for i, t := range ts {
		*out = append(*out, treeRef{t, parent, i})
		if t.cons {
			flatten(t.kids, t, out)
		}
	}
}

type treeRef struct {
	n      *tnode
	parent *tnode
	idx    int
}

var (
	treeCacheMu sync.Mutex
	treeCacheK  string
	treeCacheN  int
)

func treeCount(b []byte) int {
	treeCacheMu.Lock()
	defer treeCacheMu.Unlock()
	if treeCacheK == string(b) {
		return treeCacheN
	}
	roots, ok := parseTree(b, 0)
	n := 0
	if ok {
		var refs []treeRef
		flatten(roots, nil, &refs)
		n = len(refs)
	}
	treeCacheK, treeCacheN = string(b), n
	return n
}

var intVals = [][]byte{{0}, {1}, {0x7f}, {0x80}, {0xff}, {0x00, 0x80}, {0x7f, 0xff, 0xff, 0xff}, {0x80, 0, 0, 0}, {0x00, 0xff, 0xff, 0xff, 0xff},
	{0x7f, 0xff, 0xff, 0xff, 0xff, 0xff, 0xff, 0xff}, {0x80, 0, 0, 0, 0, 0, 0, 0}, {0x01, 0, 0, 0, 0, 0, 0, 0, 0}, {17}, {18}, {23}, {16}, {19}, {20}, {2}, {11}, {12}}

// treeEdit applies one structurally valid edit to node i of the (pre-order) tree.
func treeEdit(b []byte, i int, kind string, arg int) []byte {
	roots, ok := parseTree(b, 0)
	if !ok {
		return nil
	}
	var refs []treeRef
	flatten(roots, nil, &refs)
	if i >= len(refs) {
		return nil
	}
	r := refs[i]
	sibs := &roots
	if r.parent != nil {
		sibs = &r.parent.kids
	}
	switch kind {
	case "empty":
		if r.n.cons {
			if len(r.n.kids) == 0 {
				return nil
			}
			r.n.kids = nil
		} else {
			if len(r.n.prim) == 0 {
				return nil
			}
			r.n.prim = nil
		}
	case "short":
		if r.n.cons || len(r.n.prim) <= arg {
			return nil
		}
		r.n.prim = r.n.prim[:arg]
	case "drop":
		if r.parent == nil && len(roots) == 1 {
			return nil
		}
		*sibs = append(append([]*tnode{}, (*sibs)[:r.idx]...), (*sibs)[r.idx+1:]...)
	case "dup":
		n := append([]*tnode{}, (*sibs)[:r.idx+1]...)
		n = append(n, r.n)
		*sibs = append(n, (*sibs)[r.idx+1:]...)
	case "int":
		if r.n.cons || (r.n.id != 0x02 && r.n.id != 0x0a) {
			return nil
		}
		if bytes.Equal(r.n.prim, intVals[arg]) {
			return nil
		}
		r.n.prim = intVals[arg]
	}
	var out []byte
	for _, t := range roots {
		out = append(out, t.encode()...)
	}
	if bytes.Equal(out, b) {
		return nil
	}
	return out
}
