package c04

import (
	"encoding/base64"
	"encoding/binary"
	"strconv"

	"github.com/jcmturner/gokrb5/v8/client"
	"github.com/jcmturner/gokrb5/v8/crypto"
	"github.com/jcmturner/gokrb5/v8/gssapi"
	"github.com/jcmturner/gokrb5/v8/kadmin"
	"github.com/jcmturner/gokrb5/v8/service"
	"github.com/jcmturner/gokrb5/v8/test/testdata"
	"github.com/jcmturner/gokrb5/v8/types"

	"verif/harness/mint"
	"verif/harness/ref/der"
	"verif/harness/ref/gsstok"
	ref "verif/harness/ref/krbcrypto"
)

// slowIterations reports that an input advertises a PBKDF2 iteration count that is legal but slow
// (a valid request for seconds of work): such inputs are not presented, because a slow correct
// answer is not what the property is about and would eat the time budget. Counts above the
// library's limit (or any count, on a tree that has no limit) ARE presented: they must be refused
// promptly.
const (
	iterFast  = 100_000
	iterLimit = 0x1000000 // the limit MIT krb5 applies (MAX_ITERATION_COUNT) and the proposed fix adopts
)

func slowIterations(in []byte) bool {
	// s2kparams is an OCTET STRING of four octets (04 04 xx xx xx xx) wherever it is nested - inside
	// PA-DATA values, e-data, a TCP frame - so the raw bytes are scanned rather than a parse attempted.
	for i := 0; i+6 <= len(in); i++ {
		if in[i] == 0x04 && in[i+1] == 0x04 {
			if v := binary.BigEndian.Uint32(in[i+2:]); v > iterFast && v <= iterLimit {
				return true
			}
		}
	}
	return false
}

func etypeSeeds(f func(et int32) []seed) func() []seed {
	return func() []seed {
		var out []seed
		for _, et := range ref.ETypes {
			for _, s := range f(et) {
				s.op = strconv.Itoa(int(et))
				s.name += "-" + etLabel(et)
				out = append(out, s)
			}
		}
		return out
	}
}

// kpasswdReply frames an AP-REP and a KRB-PRIV as RFC 3244 prescribes.
func kpasswdReply(aprep, priv []byte) []byte {
	b := make([]byte, 6)
	binary.BigEndian.PutUint16(b[0:], uint16(6+len(aprep)+len(priv)))
	binary.BigEndian.PutUint16(b[2:], 1)
	binary.BigEndian.PutUint16(b[4:], uint16(len(aprep)))
	return append(append(b, aprep...), priv...)
}

func kpasswdResult(code uint16, text string) []byte {
	return append([]byte{byte(code >> 8), byte(code)}, text...)
}

func init() {
	register(&entryPoint{name: "crypto-decrypt-message", group: "Crypto", prepare: simple(func(op string, in []byte) error {
		et := opEType(op)
		key := wKey("crypto", et)
		_, err := crypto.DecryptMessage(in, types.EncryptionKey{KeyType: et, KeyValue: key.Value}, 2)
		crypto.DecryptEncPart(types.EncryptedData{EType: et, Cipher: in}, types.EncryptionKey{KeyType: et, KeyValue: key.Value}, 3)
		if e, eerr := crypto.GetEtype(et); eerr == nil {
			e.DecryptMessage(key.Value, in, 2)
		}
		return err
	}), structOK: func(op string, in []byte) bool {
		et := opEType(op)
		return len(in) >= ref.ConfounderLen(et)+ref.MACLen(et)
	},
		seeds: etypeSeeds(func(et int32) []seed {
			var s []seed
			for _, n := range []int{0, 1, 16, 33} {
				ct, err := ref.Encrypt(et, wKey("crypto", et).Value, 2, det("plain", n), det("conf", ref.ConfounderLen(et)))
				if err != nil {
					panic("c04: encrypt: " + err.Error())
				}
				s = append(s, seed{name: "ref/ciphertext-" + strconv.Itoa(n), in: ct})
			}
			// messages with a correct integrity tag whose protected part is shorter than a confounder (rc4-hmac, SHA-2 etypes)
			for _, n := range []int{0, 1, 7, 8, 9, 15, 16, 17} {
				if ct, err := ref.SealShort(et, wKey("crypto", et).Value, 2, det("short", n)); err == nil {
					s = append(s, seed{name: "ref/sealed-short-" + strconv.Itoa(n), in: ct})
				}
			}
			return s
		}), muts: []string{"none", "prefix", "subst", "bitflip", "extend"}})

	register(&entryPoint{name: "crypto-verify-checksum", group: "Crypto", prepare: simple(func(op string, in []byte) error {
		et := opEType(op)
		e, err := crypto.GetChksumEtype(ref.CksumForEType(et))
		if err != nil {
			return err
		}
		data := det("cksumdata", 40)
		e.VerifyChecksum(wKey("crypto", et).Value, data, in, 17)
		// and with the roles swapped: the checksummed data are the external bytes
		e.VerifyChecksum(wKey("crypto", et).Value, in, data[:ref.CksumLen(et)], 17)
		return nil
	}), structOK: func(op string, in []byte) bool { return len(in) == ref.CksumLen(opEType(op)) },
		seeds: etypeSeeds(func(et int32) []seed {
			ck, err := ref.Checksum(ref.CksumForEType(et), wKey("crypto", et).Value, 17, det("cksumdata", 40))
			if err != nil {
				panic("c04: checksum: " + err.Error())
			}
			return []seed{{name: "ref/checksum", in: ck}}
		}), muts: []string{"none", "prefix", "subst", "extend"}})

	// password -> key with the PA-DATA a KDC sent (AS-REP padata / KRB-ERROR e-data)
	register(&entryPoint{name: "crypto-key-from-password", group: "Crypto", prepare: func(op string, in []byte) (func() error, func(), error) {
		if slowIterations(in) {
			return nil, nil, nil
		}
		et := opEType(op)
		return func() error {
			var pas types.PADataSequence
			if err := pas.Unmarshal(in); err != nil {
				return err
			}
			_, _, err := crypto.GetKeyFromPassword(wPassword, types.PrincipalName{NameType: 1, NameString: []string{wClient}}, wRealm, et, pas)
			return err
		}, nil, nil
	}, structOK: outerTag(0x30),
		seeds: etypeSeeds(func(et int32) []seed {
			return []seed{{name: "minted/method-data", in: methodData(et)},
				{name: "minted/info2-only", in: der.PADataSeq.MustEncode([]any{der.M{"padata-type": int64(19), "padata-value": info2(et)}})},
				{name: "minted/info-only", in: der.PADataSeq.MustEncode([]any{der.M{"padata-type": int64(11), "padata-value": der.ETypeInfo.MustEncode([]any{der.M{"etype": int64(et), "salt": []byte("salt")}})}})},
				{name: "minted/info2-other-etype", in: der.PADataSeq.MustEncode([]any{der.M{"padata-type": int64(19), "padata-value": der.ETypeInfo2.MustEncode([]any{der.M{"etype": int64(17), "s2kparams": []byte{0, 0, 0, 32}}, der.M{"etype": int64(23)}})}})}}
		}), muts: []string{"none", "prefix", "subst", "bitflip", "derlen", "der-empty", "der-short", "der-drop", "der-dup", "der-int"}})

	gssSeeds := func(kind string) func() []seed {
		return etypeSeeds(func(et int32) []seed {
			var s []seed
			for _, acc := range []bool{false, true} {
				fl := byte(0)
				if acc {
					fl = 1
				}
				key := wKey("gss", et).Value
				var b []byte
				var err error
				if kind == "wrap" {
					b, err = gsstok.BuildWrap(et, key, gsstok.RFCUsage(gsstok.KindWrap, acc), fl, 7, 0, []byte("payload bytes"))
				} else {
					b, err = gsstok.BuildMIC(et, key, gsstok.RFCUsage(gsstok.KindMIC, acc), fl, 7, []byte("payload bytes"))
				}
				if err != nil {
					panic("c04: gsstok: " + err.Error())
				}
				s = append(s, seed{name: "ref/" + kind + "-acceptor-" + strconv.FormatBool(acc), in: b})
				// the smallest well-formed tokens: a header and nothing else (no payload, EC = 0), a header with a payload
				// and no checksum, and a header announcing a rotation count. Prefixes of the tokens above keep their EC and
				// are refused at once, so these shapes are only reached from seeds of their own.
				hdr := append([]byte{}, b[:16]...)
				if kind == "wrap" {
					hdr[4], hdr[5], hdr[6], hdr[7] = 0, 0, 0, 0
					s = append(s, seed{name: "hand/wrap-header-only-" + strconv.FormatBool(acc), in: append([]byte{}, hdr...)},
						seed{name: "hand/wrap-no-checksum-" + strconv.FormatBool(acc), in: append(append([]byte{}, hdr...), []byte("payload")...)})
					rot := append([]byte{}, b...)
					rot[6], rot[7] = 0, 28
					s = append(s, seed{name: "hand/wrap-rrc-28-" + strconv.FormatBool(acc), in: rot})
					hr := append([]byte{}, hdr...)
					hr[7] = 28
					s = append(s, seed{name: "hand/wrap-header-only-rrc-28-" + strconv.FormatBool(acc), in: hr})
				} else {
					s = append(s, seed{name: "hand/mic-header-only-" + strconv.FormatBool(acc), in: hdr})
				}
			}
			return s
		})
	}
	register(&entryPoint{name: "gss-wrap-token", group: "SPNEGO", prepare: simple(func(op string, in []byte) error {
		et := opEType(op)
		key := types.EncryptionKey{KeyType: et, KeyValue: wKey("gss", et).Value}
		var last error
		for _, acc := range []bool{false, true} {
			var w gssapi.WrapToken
			if err := w.Unmarshal(in, acc); err != nil {
				last = err
				continue
			}
			if _, err := w.Verify(key, gsstok.RFCUsage(gsstok.KindWrap, acc)); err != nil {
				return err
			}
			return nil
		}
		return last
	}), structOK: func(_ string, in []byte) bool { return len(in) >= 16 && in[0] == 5 && in[1] == 4 && in[3] == 0xff },
		seeds: gssSeeds("wrap"), muts: binMuts})
	register(&entryPoint{name: "gss-mic-token", group: "SPNEGO", prepare: simple(func(op string, in []byte) error {
		et := opEType(op)
		key := types.EncryptionKey{KeyType: et, KeyValue: wKey("gss", et).Value}
		var last error
		for _, acc := range []bool{false, true} {
			m := gssapi.MICToken{Payload: []byte("payload bytes")}
			if err := m.Unmarshal(in, acc); err != nil {
				last = err
				continue
			}
			if _, err := m.Verify(key, gsstok.RFCUsage(gsstok.KindMIC, acc)); err != nil {
				return err
			}
			return nil
		}
		return last
	}), structOK: func(_ string, in []byte) bool { return len(in) >= 16 && in[0] == 4 && in[1] == 4 && in[3] == 0xff },
		seeds: gssSeeds("mic"), muts: binMuts})

	// kpasswd reply as received from the network
	register(&entryPoint{name: "kadmin-reply", group: "Net", prepare: simple(func(op string, in []byte) error {
		et := opEType(op)
		var r kadmin.Reply
		if err := r.Unmarshal(in); err != nil {
			return err
		}
		return r.Decrypt(types.EncryptionKey{KeyType: et, KeyValue: wKey("session", et).Value})
	}), structOK: func(_ string, in []byte) bool { return len(in) >= 6 && in[2] == 0 && in[3] == 1 },
		seeds: func() []seed {
			et := int32(ref.AES256SHA1)
			k := wKey("session", et)
			errRep := make([]byte, 6)
			ke := krbError(60, kpasswdResult(4, "password too short"), false)
			binary.BigEndian.PutUint16(errRep, uint16(6+len(ke)))
			binary.BigEndian.PutUint16(errRep[2:], 1)
			return []seed{{name: "repo/kpasswd-rep", op: "18", in: unhex(testdata.MarshaledKpasswd_Rep)},
				{name: "minted/kpasswd-rep", op: "18", in: kpasswdReply(apRep(et, k), krbPriv(et, k, encKrbPrivPart(kpasswdResult(0, "ok"))))},
				{name: "minted/kpasswd-rep-krb-error", op: "18", in: append(errRep, ke...)},
				{name: "minted/kpasswd-rep-krb-error-no-edata", op: "18", in: func() []byte {
					ke := krbError(60, nil, false)
					b := make([]byte, 6)
					binary.BigEndian.PutUint16(b, uint16(6+len(ke)))
					binary.BigEndian.PutUint16(b[2:], 1)
					return append(b, ke...)
				}()}}
		}, muts: append([]string{"derlen", "der-empty", "der-drop"}, binMuts...)})

	// Authorization: Basic header handed to the Kerberos basic authenticator
	// op "plain": In is the decoded credential text, base64-encoded here (so that the code behind the
	// base64 decoder is reached); otherwise In is the header value itself.
	register(&entryPoint{name: "basic-auth-header", group: "Net", net: true, prepare: simple(func(op string, in []byte) error {
		if op == "plain" {
			in = []byte(base64.StdEncoding.EncodeToString(in))
		}
		a := service.NewKRB5BasicAuthenticator(string(in), offlineConf(), service.NewSettings(worldKeytab(), service.SName(wSvc)), client.NewSettings())
		_, _, err := a.Authenticate()
		return err
	}), structOK: func(op string, in []byte) bool {
		if op == "plain" {
			return true
		}
		_, err := base64.StdEncoding.DecodeString(string(in))
		return err == nil
	},
		seeds: func() []seed {
			b := func(s string) []byte { return []byte(base64.StdEncoding.EncodeToString([]byte(s))) }
			return []seed{{name: "plain/user-pass", op: "plain", in: []byte("alice:secret")}, {name: "plain/domain-backslash", op: "plain", in: []byte(`EXAMPLE.COM\alice:secret`)},
				{name: "plain/user-at-realm", op: "plain", in: []byte("alice@EXAMPLE.COM:se:cr:et")}, {name: "hand/user-pass", in: b("alice:secret")}, {name: "hand/domain-backslash", in: b(`EXAMPLE.COM\alice:secret`)}, {name: "hand/user-at-realm", in: b("alice@EXAMPLE.COM:se:cr:et")},
				{name: "hand/no-colon", in: b("alice")}, {name: "hand/empty", in: []byte{}}, {name: "hand/only-colon", in: b(":")}, {name: "hand/backslash-only", in: b(`\:`)}, {name: "hand/at-only", in: b("@:x")}}
		}, muts: []string{"none", "prefix", "subst", "extend"}})
	_ = mint.Flag
}
