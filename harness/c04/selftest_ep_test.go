package c04

import (
	"os"
	"time"
)

// Synthetic entry points with which every run proves that the worker machinery recognises each
// failure class (a check whose oracle cannot fail proves nothing). They are not part of the
// campaign or of the fuzz groups.
var sink []byte

func init() {
	st := func(name string, f func()) {
		register(&entryPoint{name: name, group: "selftest", prepare: simple(func(string, []byte) error { f(); return nil }), structOK: always,
			seeds: func() []seed { return nil }})
	}
	st("selftest-ok", func() {})
	st("selftest-panic", func() { var p *int; *p = 1 })
	st("selftest-alloc", func() {
		sink = make([]byte, 64<<20)
		sink[1<<20] = 1
		sink = nil
	})
	st("selftest-oom", func() { sink = make([]byte, 8<<30); sink = nil })
	st("selftest-exit", func() { os.Exit(7) })
	st("selftest-hang", func() {
		for {
			time.Sleep(time.Hour)
		}
	})
}
