package c04

import (
	"bufio"
	"encoding/json"
	"fmt"
	"hash/fnv"
	"io"
	"os"
	"os/exec"
	"regexp"
	"runtime"
	"strconv"
	"strings"
	"sync"
	"sync/atomic"
	"syscall"
	"time"

	"verif/harness/evid"
)

// Crash isolation.
//
// Every case is evaluated in a worker process: this test binary re-executed with C04_WORKER=1,
// its address space capped (RLIMIT_AS = what it maps at start + workerBudget). Three things make
// that necessary: (1) an allocation the kernel refuses is "fatal error: out of memory", which no
// recover() catches (one substituted byte makes github.com/jcmturner/rpc/v2/ndr ask for 34 GB);
// (2) a call that never returns can only be stopped by killing its process; (3) the allocation
// oracle reads the process-wide counter /gc/heap/allocs:bytes, so each process evaluates one case
// at a time and parallelism comes from processes, not goroutines.
//
// A worker is sent batches: (entry point, base input, mutator family, index range). Before each
// member it writes a breadcrumb (batch id, index) to a private file, so that when it dies or stops
// making progress the parent knows which member to blame; the member is regenerated in the parent
// from (base, family, index), re-run alone in a fresh worker to make sure the death is its own,
// and reported as a violation. The batch then resumes behind it.

const (
	workerBudget  = 1 << 30          // address space a worker may add to what it has at start
	watchdog      = 20 * time.Second // a case that makes no progress for this long is a hang candidate
	hangReruns    = 3                // a hang candidate is re-run this often before it counts
	maxDeathBatch = 400              // deaths tolerated per batch before its remainder is abandoned (counted)
)

// wdOverride shortens the watchdog for the oracle's own self-test.
var wdOverride time.Duration

func watchdogNow() time.Duration {
	if wdOverride > 0 {
		return wdOverride
	}
	return watchdog
}

// hangBook remembers the entry points for which a hang has been confirmed in this run: a further
// watchdog hit at the same entry point is reported at once instead of being re-run three times
// (each re-run costs a full watchdog period).
type hangBook struct {
	mu  sync.Mutex
	eps map[string]bool
}

func (h *hangBook) confirmed(ep string) bool {
	if h == nil {
		return false
	}
	h.mu.Lock()
	defer h.mu.Unlock()
	return h.eps[ep]
}

func (h *hangBook) mark(ep string) {
	if h == nil {
		return
	}
	h.mu.Lock()
	if h.eps == nil {
		h.eps = map[string]bool{}
	}
	h.eps[ep] = true
	h.mu.Unlock()
}

type batch struct {
	ID   int      `json:"id"`
	EP   string   `json:"ep"`
	Op   string   `json:"op,omitempty"`
	Seed string   `json:"seed,omitempty"` // name of the corpus item (for Src)
	Base HexBytes `json:"base"`
	Mut  string   `json:"mut"`
	Lo   int      `json:"lo"`
	Hi   int      `json:"hi"`
	Step int      `json:"step"`
}

func (b batch) member(i int) (Case, bool) {
	m := mutators[b.Mut]
	if m == nil || i < 0 || i >= m.count(b.Base) {
		return Case{}, false
	}
	in := m.at(b.Base, i)
	if in == nil {
		return Case{}, false
	}
	return Case{EP: b.EP, Op: b.Op, In: in, Src: fmt.Sprintf("%s/%s#%d", b.Seed, b.Mut, i)}, true
}

type failRec struct {
	I int          `json:"i"`
	V evid.Verdict `json:"v"`
}

// batchRes is one line of worker output.
type batchRes struct {
	ID    int       `json:"id"`
	From  int       `json:"from"`  // first index evaluated by this response (a resumed batch starts late)
	Codes string    `json:"codes"` // one letter per evaluated member: o/e (returned ok/error), O/E the same and non-trivial, s skipped, X/x failed
	NT    []uint64  `json:"nt"`    // hash of (entry point, op, input) of every non-trivial member, in order
	Fails []failRec `json:"fails"`
	Slow  int       `json:"slow"` // members that took more than one second
	MaxNS int64     `json:"max_ns"`
	MaxAl uint64    `json:"max_alloc"`
}

func vmSize() uint64 {
	b, _ := os.ReadFile("/proc/self/statm")
	f := strings.Fields(string(b))
	if len(f) == 0 {
		return 0
	}
	p, _ := strconv.ParseUint(f[0], 10, 64)
	return p * uint64(os.Getpagesize())
}

func capAddressSpace(budget uint64) {
	lim := uint64(3<<30) + budget
	if vm := vmSize(); vm > 0 {
		lim = vm + budget
	}
	syscall.Setrlimit(syscall.RLIMIT_AS, &syscall.Rlimit{Cur: lim, Max: lim})
	// GOTRACEBACK=crash (needed to see the stack of a goroutine that is spinning on another thread when
	// the watchdog's SIGQUIT arrives) ends with SIGABRT: no core files, please
	syscall.Setrlimit(syscall.RLIMIT_CORE, &syscall.Rlimit{Cur: 0, Max: 0})
}

func caseHash(c Case) uint64 {
	h := fnv.New64a()
	h.Write([]byte(c.EP))
	h.Write([]byte{0})
	h.Write([]byte(c.Op))
	h.Write([]byte{0})
	h.Write(c.In)
	return h.Sum64()
}

// workerMain serves batches on stdin until EOF.
func workerMain() {
	runtime.MemProfileRate = 64 << 10
	capAddressSpace(workerBudget)
	crumb, _ := os.OpenFile(os.Getenv("C04_CRUMB"), os.O_WRONLY|os.O_CREATE, 0o644)
	in := bufio.NewReaderSize(os.Stdin, 1<<20)
	for {
		line, err := in.ReadBytes('\n')
		if len(line) > 1 {
			var b batch
			if json.Unmarshal(line, &b) != nil {
				os.Exit(3)
			}
			res := serve(b, crumb)
			out, _ := json.Marshal(res)
			os.Stdout.Write(append(out, '\n'))
		}
		if err != nil {
			return
		}
	}
}

func serve(b batch, crumb *os.File) batchRes {
	res := batchRes{ID: b.ID, From: b.Lo}
	step := max(1, b.Step)
	codes := make([]byte, 0, (b.Hi-b.Lo)/step+1)
	var rec [40]byte
	for i := b.Lo; i < b.Hi; i += step {
		c, ok := b.member(i)
		if !ok {
			codes = append(codes, 's')
			continue
		}
		if crumb != nil {
			n := copy(rec[:], fmt.Sprintf("%d %d\n", b.ID, i))
			for k := n; k < len(rec); k++ {
				rec[k] = ' '
			}
			crumb.WriteAt(rec[:], 0)
		}
		v, inf := evalLocal(c)
		if inf.Dur > time.Second {
			res.Slow++
		}
		if int64(inf.Dur) > res.MaxNS {
			res.MaxNS = int64(inf.Dur)
		}
		if v.OK && inf.Alloc > res.MaxAl {
			res.MaxAl = inf.Alloc
		}
		code := byte('o')
		switch {
		case !v.OK:
			code = 'x'
			res.Fails = append(res.Fails, failRec{I: i, V: v})
		case inf.Outcome == "skip":
			codes = append(codes, 's')
			continue
		case inf.Outcome == "err":
			code = 'e'
		}
		if inf.NT {
			code -= 'a' - 'A'
			res.NT = append(res.NT, caseHash(c))
		}
		codes = append(codes, code)
	}
	res.Codes = string(codes)
	return res
}

// ---------------------------------------------------------------------------------------------
// parent side

type tailBuf struct {
	mu sync.Mutex
	b  []byte
}

func (t *tailBuf) Write(p []byte) (int, error) {
	t.mu.Lock()
	if len(t.b) < 256<<10 {
		t.b = append(t.b, p...)
	}
	t.mu.Unlock()
	return len(p), nil
}

func (t *tailBuf) String() string { t.mu.Lock(); defer t.mu.Unlock(); return string(t.b) }

type worker struct {
	cmd    *exec.Cmd
	in     io.WriteCloser
	out    *bufio.Reader
	stderr *tailBuf
	crumb  string
	lines  chan []byte // one per response line; closed when the worker's stdout ends
}

var workerSeq atomic.Int64

func startWorker() (*worker, error) {
	exe, err := os.Executable()
	if err != nil {
		return nil, err
	}
	dir := os.Getenv("VERIF_BIN")
	if dir == "" {
		dir = os.TempDir()
	}
	crumb := fmt.Sprintf("%s/c04-crumb-%d-%d", dir, os.Getpid(), workerSeq.Add(1))
	os.Remove(crumb)
	cmd := exec.Command(exe, "-test.run=^$")
	cmd.Env = append(os.Environ(), "C04_WORKER=1", "C04_CRUMB="+crumb, "VERIF_STATUS=", "VERIF_EVIDENCE=/dev/null", "VERIF_REPLAY=",
		"GOTRACEBACK=crash", "GOMAXPROCS=2")
	w := &worker{cmd: cmd, stderr: &tailBuf{}, crumb: crumb, lines: make(chan []byte, 4)}
	cmd.Stderr = w.stderr
	if w.in, err = cmd.StdinPipe(); err != nil {
		return nil, err
	}
	op, err := cmd.StdoutPipe()
	if err != nil {
		return nil, err
	}
	w.out = bufio.NewReaderSize(op, 1<<20)
	if err := cmd.Start(); err != nil {
		return nil, err
	}
	go func() {
		for {
			line, err := w.out.ReadBytes('\n')
			if len(line) > 0 && err == nil {
				w.lines <- line
			}
			if err != nil {
				close(w.lines)
				return
			}
		}
	}()
	return w, nil
}

func (w *worker) stop() {
	if w == nil {
		return
	}
	w.in.Close()
	w.cmd.Process.Kill()
	w.cmd.Wait()
	os.Remove(w.crumb)
}

func (w *worker) readCrumb() (id, idx int, ok bool) {
	b, err := os.ReadFile(w.crumb)
	if err != nil {
		return 0, 0, false
	}
	f := strings.Fields(string(b))
	if len(f) < 2 {
		return 0, 0, false
	}
	id, e1 := strconv.Atoi(f[0])
	idx, e2 := strconv.Atoi(f[1])
	return id, idx, e1 == nil && e2 == nil
}

// end describes how a worker stopped serving a batch.
type end struct {
	kind   string // "done", "died", "hung"
	res    *batchRes
	stderr string
	idx    int // breadcrumbed member (died / hung)
	hasIdx bool
}

// send hands the batch to the worker and waits for its response, watching the breadcrumb.
func (w *worker) send(b batch) end {
	rq, _ := json.Marshal(b)
	if _, err := w.in.Write(append(rq, '\n')); err != nil {
		w.cmd.Wait()
		return end{kind: "died", stderr: w.stderr.String()}
	}
	lastIdx, lastMove := -1, time.Now()
	tick := time.NewTicker(500 * time.Millisecond)
	defer tick.Stop()
	for {
		select {
		case line, ok := <-w.lines:
			if !ok {
				w.cmd.Wait()
				e := end{kind: "died", stderr: w.stderr.String()}
				if id, idx, ok := w.readCrumb(); ok && id == b.ID {
					e.idx, e.hasIdx = idx, true
				}
				return e
			}
			var res batchRes
			if json.Unmarshal(line, &res) != nil || res.ID != b.ID {
				w.stop()
				return end{kind: "died", stderr: "worker out of step: " + string(line)}
			}
			return end{kind: "done", res: &res}
		case <-tick.C:
			id, idx, ok := w.readCrumb()
			if ok && id == b.ID && idx != lastIdx {
				lastIdx, lastMove = idx, time.Now()
			}
			if time.Since(lastMove) > watchdogNow() {
				// ask the runtime for the goroutine stacks, then kill
				w.cmd.Process.Signal(syscall.SIGQUIT)
				done := make(chan struct{})
				go func() { w.cmd.Wait(); close(done) }()
				select {
				case <-done:
				case <-time.After(3 * time.Second):
					w.cmd.Process.Kill()
					<-done
				}
				e := end{kind: "hung", stderr: w.stderr.String()}
				if ok && id == b.ID {
					e.idx, e.hasIdx = idx, true
				}
				return e
			}
		}
	}
}

// goroutineOfCase extracts from a runtime dump the goroutine that was evaluating the case.
func goroutineOfCase(dump string) string {
	blocks := strings.Split(dump, "\n\n")
	first := ""
	for _, b := range blocks {
		if !strings.HasPrefix(b, "goroutine ") {
			continue
		}
		if first == "" && !strings.HasPrefix(b, "goroutine 0 ") {
			first = b
		}
		if strings.Contains(b, "verif/harness/c04.measured") || strings.Contains(b, "verif/harness/c04.evalLocal") {
			return b
		}
	}
	return first
}

func headOf(s string, n int) string {
	ls := strings.Split(s, "\n")
	if len(ls) > n {
		ls = ls[:n]
	}
	return strings.Join(ls, "\n")
}

var oomBlockRE = regexp.MustCompile(`cannot allocate (\d+)-byte block`)

// oomBlock extracts the size of the allocation the runtime could not satisfy.
func oomBlock(stderr string) (uint64, bool) {
	m := oomBlockRE.FindStringSubmatch(stderr)
	if m == nil {
		return 0, false
	}
	n, err := strconv.ParseUint(m[1], 10, 64)
	return n, err == nil
}

// deathVerdict turns the death of a worker on a known case into a verdict.
func deathVerdict(c Case, stderr string) evid.Verdict {
	g := goroutineOfCase(stderr)
	frame, dep := frameOf(stackFuncs(g))
	desc := fmt.Sprintf("op=%q in=%s\n%s\n%s", c.Op, clip(c.In), headOf(stderr, 3), headOf(g, 40))
	switch {
	case strings.Contains(stderr, "out of memory"), strings.Contains(stderr, "cannot allocate memory"):
		return evid.Fail(sig("alloc", c.EP, frame, dep),
			"%s requests more memory than the worker's address-space cap allows (start size + %d MiB) for an input of %d bytes: fatal, unrecoverable runtime error; the bound is %d bytes\n%s",
			c.EP, workerBudget>>20, len(c.In), allocBoundFor(c), desc)
	case strings.Contains(stderr, "stack overflow"), strings.Contains(stderr, "stack exceeds"):
		return evid.Fail(sig("stack-overflow", c.EP, frame, dep), "%s overflows the goroutine stack (fatal, unrecoverable) on an input of %d bytes\n%s", c.EP, len(c.In), desc)
	}
	return evid.Fail(sig("fatal", c.EP, frame, dep), "%s ends the process with a fatal runtime error on an input of %d bytes\n%s", c.EP, len(c.In), desc)
}

// runner evaluates batches on a private worker and reports every member.
type runner struct {
	w *worker
	// callbacks
	onRes   func(b batch, res *batchRes)          // results of a (part of a) batch
	onFatal func(b batch, c Case, v evid.Verdict) // a member that killed or hung its worker (confirmed alone)
	onNote  func(label string)                    // histogram-only events
	onInc   func(format string, args ...any)      // harness trouble
	hang    *hangBook
}

func (r *runner) close() { r.w.stop(); r.w = nil }

func (r *runner) worker() (*worker, error) {
	if r.w == nil {
		w, err := startWorker()
		if err != nil {
			return nil, err
		}
		r.w = w
	}
	return r.w, nil
}

// alone re-runs one member in a fresh worker and reports how that ended.
func alone(b batch, idx int) end {
	w, err := startWorker()
	if err != nil {
		return end{kind: "died", stderr: "cannot start worker: " + err.Error()}
	}
	defer w.stop()
	one := b
	one.Lo, one.Hi, one.Step = idx, idx+1, 1
	return w.send(one)
}

// run evaluates the batch, surviving deaths and hangs of the worker.
func (r *runner) run(b batch) {
	step := max(1, b.Step)
	deaths := 0
	for b.Lo < b.Hi {
		w, err := r.worker()
		if err != nil {
			r.onInc("cannot start a worker process: %v", err)
			return
		}
		e := w.send(b)
		if e.kind == "done" {
			r.onRes(b, e.res)
			return
		}
		r.close()
		if !e.hasIdx || e.idx < b.Lo {
			r.onInc("worker %s without a usable breadcrumb while serving %s/%s [%d,%d): %s", e.kind, b.EP, b.Mut, b.Lo, b.Hi, headOf(e.stderr, 4))
			return
		}
		// the members before the breadcrumb were evaluated but their results died with the worker:
		// evaluate them again (they are cheap and the worker is fresh)
		if e.idx > b.Lo {
			pre := b
			pre.Hi = e.idx
			sub := &runner{onRes: r.onRes, onFatal: r.onFatal, onNote: r.onNote, onInc: r.onInc, hang: r.hang}
			sub.runNoRetry(pre)
			sub.close()
		}
		c, ok := b.member(e.idx)
		if !ok {
			r.onInc("breadcrumb names member %d of %s/%s which does not exist", e.idx, b.EP, b.Mut)
			return
		}
		switch e.kind {
		case "died":
			if n, ok := oomBlock(e.stderr); ok && n > allocBoundFor(c) {
				// the refused request alone breaks the bound, whatever the worker held before: no need to
				// spend a second worker on confirming it
				r.onFatal(b, c, deathVerdict(c, e.stderr))
				break
			}
			// make sure the death is the member's own and not the legacy of its predecessors
			again := alone(b, e.idx)
			switch again.kind {
			case "died":
				r.onFatal(b, c, deathVerdict(c, again.stderr))
			case "hung":
				r.onFatal(b, c, r.confirmHang(b, e.idx, c, again.stderr, 1))
			default:
				r.onNote("worker-death-not-reproduced-alone")
				r.onRes(b, again.res)
			}
		case "hung":
			v := r.confirmHang(b, e.idx, c, e.stderr, 0)
			r.onFatal(b, c, v)
			if !v.OK && strings.HasPrefix(v.Sig, "hang:") && b.Lo+step < b.Hi {
				// the rest of this family would most likely hang in the same place, at a watchdog period apiece
				r.onNote("batch-abandoned-after-confirmed-hang")
				return
			}
		}
		deaths++
		b.Lo = e.idx + step
		if deaths >= maxDeathBatch && b.Lo < b.Hi {
			r.onNote("batch-abandoned-after-too-many-worker-deaths")
			return
		}
	}
}

// runNoRetry evaluates a range that is known to be survivable; a death here is harness trouble.
func (r *runner) runNoRetry(b batch) {
	w, err := r.worker()
	if err != nil {
		r.onInc("cannot start a worker process: %v", err)
		return
	}
	e := w.send(b)
	if e.kind != "done" {
		r.close()
		r.onNote("re-evaluated-prefix-died")
		return
	}
	r.onRes(b, e.res)
}

// confirmHang re-runs a hang candidate; only a hang on every run counts.
func (r *runner) confirmHang(b batch, idx int, c Case, dump string, already int) evid.Verdict {
	hangs := 1 + already
	runs := 1 + hangReruns
	if r.hang.confirmed(c.EP) {
		runs = hangs // a hang at this entry point was already confirmed by re-runs in this run
	}
	for k := hangs; k < runs; k++ {
		e := alone(b, idx)
		switch e.kind {
		case "hung":
			hangs++
			dump = e.stderr
		case "died":
			return deathVerdict(c, e.stderr)
		default:
			r.onInc("%s made no progress for %v once but returned when re-run (%s/%s member %d): load, not a verdict", c.EP, watchdogNow(), b.Seed, b.Mut, idx)
			if len(e.res.Fails) > 0 {
				return e.res.Fails[0].V
			}
			return evid.Pass()
		}
	}
	r.hang.mark(c.EP)
	g := goroutineOfCase(dump)
	frame, dep := frameOf(stackFuncs(g))
	return evid.Fail(sig("hang", c.EP, frame, dep), "%s did not return within %v on an input of %d bytes (%d of %d runs)\nop=%q in=%s\n%s",
		c.EP, watchdogNow(), len(c.In), hangs, runs, c.Op, clip(c.In), headOf(g, 40))
}

// ---------------------------------------------------------------------------------------------
// Eval: the replayable evaluator

// Eval judges one Case in a crash-isolated worker process.
func Eval(c Case) evid.Verdict {
	b := batch{ID: 1, EP: c.EP, Op: c.Op, Seed: "replay", Base: c.In, Mut: "none", Lo: 0, Hi: 1, Step: 1}
	var v = evid.Pass()
	got := false
	r := &runner{
		onRes: func(_ batch, res *batchRes) {
			got = true
			if len(res.Fails) > 0 {
				v = res.Fails[0].V
			}
		},
		onFatal: func(_ batch, _ Case, fv evid.Verdict) { got = true; v = fv },
		onNote:  func(string) {},
		onInc:   func(f string, a ...any) { v = evid.Fail("harness:worker", f, a...) },
	}
	r.run(b)
	r.close()
	if !got && v.OK {
		return evid.Fail("harness:worker", "the worker returned no result for the case")
	}
	return v
}
