// C04 — no input makes a decoder or verifier panic, hang or allocate without bound.
//
// Every externally reachable entry point of gokrb5 that consumes bytes or text (the registry in
// ep_*_test.go) is presented with a corpus of valid inputs (repository vectors + inputs minted with
// the reference encoder and crypto) and with deterministic derivations of them: all prefixes,
// single-byte substitutions, bit flips, DER length-octet rewrites, fixed-width count / length /
// offset field corruptions, and structurally VALID edits of DER trees (emptied sequences, short
// primitive values, dropped and duplicated elements, boundary integers). For the entry points that
// sit behind an integrity check a data-provider layer mutates the PLAINTEXT and re-encrypts it under
// the known key. The thorough tier adds all 255 substitutions and native coverage-guided fuzzing.
//
// Oracle per call: no panic, returns within the watchdog, allocates at most 16 MiB + 1024 x input.
// Every call runs in a crash-isolated worker process (worker_test.go).
package c04

import (
	"fmt"
	"os"
	"runtime"
	"sort"
	"strconv"
	"strings"
	"sync"
	"testing"
	"time"

	"verif/harness/evid"
	"verif/harness/kgen"
	"verif/harness/ref/der"
	"verif/harness/ref/gsstok"
	"verif/harness/refcheck"
)

const checkEnum = "enumerate"
const checkFuzz = "fuzz"

func nWorkers() int {
	n := runtime.NumCPU()
	if n > 16 {
		n = 16
	}
	if n < 2 {
		n = 2
	}
	return n
}

// budget is the largest number of members of one (seed, mutator) family evaluated per tier.
func budget(ep *entryPoint, mut string, thorough bool) int {
	q := map[string]int{"none": 1, "prefix": 2000, "subst": 1800, "subst-all": 0, "bitflip": 700, "extend": 8, "derlen": 600, "der-empty": 500, "der-short": 500,
		"der-drop": 500, "der-dup": 200, "der-int": 500, "field16": 700, "field32": 900, "field64": 400, "text-line": 4000}[mut]
	if thorough {
		q = map[string]int{"none": 1, "prefix": 1 << 30, "subst": 1 << 30, "subst-all": 12000, "bitflip": 4000, "extend": 8, "derlen": 1 << 30, "der-empty": 1 << 30, "der-short": 1 << 30,
			"der-drop": 1 << 30, "der-dup": 1 << 30, "der-int": 6000, "field16": 1 << 30, "field32": 1 << 30, "field64": 1 << 30, "text-line": 1 << 30}[mut]
	}
	if thorough && ep.group == "PACNDR" && (mut == "subst-all" || strings.HasPrefix(mut, "field")) {
		// most corruptions of NDR count fields end in the dependency's known over-allocation (a worker restart each)
		q = min(q, 4000)
	}
	if thorough && strings.HasPrefix(mut, "field") {
		q = min(q, 20000)
	}
	if ep.net && q > 8 {
		if thorough {
			q = min(q, 2500)
		} else {
			q = max(8, q/5)
		}
	}
	return q
}

// campaign lays out the deterministic tier as batches.
func campaign(seed uint64, thorough bool) []batch {
	var out []batch
	id := 0
	for _, name := range epNames() {
		ep := registry[name]
		if strings.HasPrefix(name, "selftest-") {
			continue
		}
		muts := append([]string{}, ep.muts...)
		if thorough && !ep.fixedMuts {
			muts = append(muts, "subst-all")
		}
		chunk := 500
		if ep.net {
			chunk = 60
		}
		for _, s := range ep.seeds() {
			for _, mn := range muts {
				m := mutators[mn]
				n := m.count(s.in)
				bud := budget(ep, mn, thorough)
				if n == 0 || bud == 0 {
					continue
				}
				step := (n + bud - 1) / bud
				off := 0
				if step > 1 {
					d := kgen.DetBytes(seed, "c04/slice/"+name+"/"+s.name+"/"+mn, 4)
					off = int(uint32(d[0])<<24|uint32(d[1])<<16|uint32(d[2])<<8|uint32(d[3])) % step
				}
				for lo := off; lo < n; lo += chunk * step {
					id++
					out = append(out, batch{ID: id, EP: name, Op: s.op, Seed: s.name, Base: s.in, Mut: mn, Lo: lo, Hi: min(n, lo+chunk*step), Step: step})
				}
			}
		}
	}
	// slow (socket) batches first so that they do not form the tail of the run
	sort.SliceStable(out, func(i, j int) bool { return registry[out[i].EP].net && !registry[out[j].EP].net })
	return out
}

// tally receives worker results and feeds the evidence run.
type tally struct {
	r          *evid.Run
	mu         sync.Mutex
	sigs       map[string]int
	hang       *hangBook
	maxAlloc   uint64
	maxNS      int64
	slow       int
	notPresent int64
}

func (t *tally) onRes(b batch, res *batchRes) {
	step := max(1, b.Step)
	nt := 0
	epL, mutL := "ep:"+b.EP, "mut:"+b.Mut
	sampled := false
	for k := 0; k < len(res.Codes); k++ {
		code := res.Codes[k]
		if code == 's' {
			t.mu.Lock()
			t.notPresent++
			t.mu.Unlock()
			continue
		}
		key := ""
		if code >= 'A' && code <= 'Z' {
			if nt < len(res.NT) {
				key = strconv.FormatUint(res.NT[nt], 16)
			}
			nt++
			code += 'a' - 'A'
		}
		ret := "returned:value"
		switch code {
		case 'e':
			ret = "returned:error"
		case 'x':
			ret = "failed"
		}
		labels := []string{epL, mutL, ret, "group:" + registry[b.EP].group}
		if key != "" {
			labels = append(labels, "nontrivial:"+b.EP)
		}
		if b.Mut == "none" {
			labels = append(labels, "seed-"+ret)
			if code == 'e' {
				labels = append(labels, "seed-rejected:"+b.EP+"/"+b.Seed)
			}
		}
		t.r.Count(key, labels...)
		if !sampled && key != "" {
			sampled = true
			if c, ok := b.member(res.From + k*step); ok {
				c.In = c.In[:min(len(c.In), 200)]
				t.r.Sample("ep:"+b.EP, c)
			}
		}
	}
	t.mu.Lock()
	t.maxAlloc = max(t.maxAlloc, res.MaxAl)
	t.maxNS = max(t.maxNS, res.MaxNS)
	t.slow += res.Slow
	t.mu.Unlock()
	for _, f := range res.Fails {
		c, ok := b.member(f.I)
		if !ok {
			t.r.Inconclusive("worker reported a failure for member %d of %s/%s/%s which the parent cannot regenerate", f.I, b.EP, b.Seed, b.Mut)
			continue
		}
		t.fail(checkEnum, c, f.V)
	}
}

func (t *tally) fail(check string, c Case, v evid.Verdict) {
	t.mu.Lock()
	t.sigs[v.Sig]++
	t.mu.Unlock()
	t.r.Label("failure-sig:" + v.Sig)
	t.r.Violation(check, c, v)
}

func (t *tally) onFatal(b batch, c Case, v evid.Verdict) {
	labels := []string{"ep:" + b.EP, "mut:" + b.Mut, "group:" + registry[b.EP].group}
	if v.OK {
		t.r.Count("", append(labels, "returned:after-retry")...)
		return
	}
	t.r.Count(strconv.FormatUint(caseHash(c), 16), append(labels, "failed", "worker-death-or-hang")...)
	t.fail(checkEnum, c, v)
}

func selfTests(r *evid.Run) bool {
	if err := refcheck.All(); err != nil {
		r.Inconclusive("reference self-test failed: %v", err)
		return false
	}
	if err := gsstok.SelfTest(); err != nil {
		r.Inconclusive("ref/gsstok self-test failed: %v", err)
		return false
	}
	// mutators: structurally valid edits must stay strict DER; length rewrites must not
	base := der.PADataSeq.MustEncode([]any{der.M{"padata-type": int64(19), "padata-value": der.ETypeInfo2.MustEncode([]any{der.M{"etype": int64(18), "salt": "salt-value"}})}})
	for _, mn := range []string{"der-empty", "der-short", "der-drop", "der-dup", "der-int"} {
		m := mutators[mn]
		seen := 0
		for i := 0; i < m.count(base); i++ {
			o := m.at(base, i)
			if o == nil {
				continue
			}
			seen++
			for rest := o; len(rest) > 0; { // one or more complete encodings, each strictly valid
				n, rr, err := der.ParseOne(rest)
				if err == nil && n.Constructed {
					_, err = n.Kids()
				}
				if err != nil {
					r.Inconclusive("mutator %s member %d is not valid DER: %v (%x)", mn, i, err, o)
					return false
				}
				rest = rr
			}
		}
		if seen == 0 {
			r.Inconclusive("mutator %s yields no member on the self-test input", mn)
			return false
		}
	}
	emptied := false
	for i := 0; i < mutators["der-empty"].count(base); i++ {
		if o := mutators["der-empty"].at(base, i); o != nil {
			if v, err := der.PADataSeq.Decode(o); err == nil {
				if l, ok := v.([]any); ok && len(l) == 1 {
					if pv, ok := l[0].(der.M)["padata-value"].([]byte); ok && string(pv) == "\x30\x00" {
						emptied = true // PA-ETYPE-INFO2 holding an empty SEQUENCE OF, nested inside the OCTET STRING
					}
				}
			}
		}
	}
	if !emptied {
		r.Inconclusive("mutator der-empty did not produce the empty ETYPE-INFO2 nested in a PA-DATA")
		return false
	}
	// the oracle itself: each failure class must be recognised through the worker machinery
	for _, st := range []struct{ ep, wantPrefix string }{
		{"selftest-ok", ""}, {"selftest-panic", "panic:selftest-panic:"}, {"selftest-alloc", "alloc:selftest-alloc:"}, {"selftest-oom", "alloc:selftest-oom:"}, {"selftest-exit", "fatal:selftest-exit:"},
	} {
		v := Eval(Case{EP: st.ep, In: []byte{1, 2, 3}})
		if (st.wantPrefix == "") != v.OK || !strings.HasPrefix(v.Sig, st.wantPrefix) {
			r.Inconclusive("oracle self-test %s: verdict ok=%v sig=%q, want prefix %q\n%s", st.ep, v.OK, v.Sig, st.wantPrefix, headOf(v.Msg, 6))
			return false
		}
	}
	if r.Thorough() {
		wdOverride = 1500 * time.Millisecond
		v := Eval(Case{EP: "selftest-hang", In: []byte{1}})
		wdOverride = 0
		if v.OK || !strings.HasPrefix(v.Sig, "hang:selftest-hang:") {
			r.Inconclusive("oracle self-test selftest-hang: verdict ok=%v sig=%q", v.OK, v.Sig)
			return false
		}
	}
	return true
}

func TestProp(t *testing.T) {
	r := evid.Start(t, "C04", "exploration")
	evid.Reg(r, checkEnum, Eval)
	evid.Reg(r, checkFuzz, Eval)
	if r.Replay() {
		return
	}
	defer r.Finish()
	r.Rule(fmt.Sprintf("%d entry points (decoders of messages/types/spnego/gssapi/pac/kadmin, keytab, ccache and krb5.conf parsers, message decryption and checksum verification for six etypes, "+
		"password-to-key with KDC-supplied PA-DATA, and - behind a re-encrypting data provider - Ticket/AP-REQ/AS-REP/TGS-REP/KRB-PRIV/KRB-CRED/kpasswd-reply processing, service.VerifyAPREQ, the SPNEGO HTTP handler, "+
		"and a real client's Login/GetServiceTicket/ChangePasswd against a scripted loopback KDC incl. TCP framing) x corpus of repository vectors and reference-minted inputs x deterministic mutators "+
		"(prefixes, byte substitutions, bit flips, DER length rewrites, 16/32/64-bit field corruptions, structurally valid DER edits: emptied/short/dropped/duplicated nodes, boundary integers; text line edits); "+
		"each call in a crash-isolated worker with an address-space cap; oracle: no panic, returns within %v, allocates <= 16 MiB + 1024 x len(input)", len(epNames())-6, watchdog))
	r.Rule("non-trivial = the input still passes the harness-side statement of the entry point's first structural test (outer tag and fitting length / magic and version / minimum header), distinct by hash of (entry point, op, input)")
	r.Assume("trusts ref/krbcrypto and ref/der (self-tested against RFC and MIT vectors at start-up) to build inputs; the allocation counter is runtime/metrics /gc/heap/allocs:bytes of a process that evaluates one case at a time")
	r.Assume("PBKDF2 iteration counts between 100 000 and 2^24 in KDC-supplied s2kparams are not presented (legal, merely slow); larger ones are")
	r.Regress()
	if !selfTests(r) {
		return
	}
	tl := &tally{r: r, sigs: map[string]int{}, hang: &hangBook{}}
	batches := campaign(r.Seed(), r.Thorough())
	ch := make(chan batch, len(batches))
	for _, b := range batches {
		ch <- b
	}
	close(ch)
	var wg sync.WaitGroup
	t0 := time.Now()
	for k := 0; k < nWorkers(); k++ {
		wg.Add(1)
		go func() {
			defer wg.Done()
			rn := &runner{onRes: tl.onRes, onFatal: tl.onFatal, onNote: func(l string) { r.Label(l) }, onInc: r.Inconclusive, hang: tl.hang}
			defer rn.close()
			for b := range ch {
				rn.run(b)
			}
		}()
	}
	wg.Wait()
	r.Extra("enumeration_wall_s", time.Since(t0).Seconds())
	r.Extra("batches", len(batches))
	r.Extra("members_not_presented", tl.notPresent)
	r.Extra("max_alloc_bytes_of_a_passing_call", tl.maxAlloc)
	r.Extra("max_duration_ms_of_a_returning_call", tl.maxNS/1e6)
	r.Extra("calls_over_one_second", tl.slow)
	if r.Thorough() {
		r.Exhaustive("all prefixes, all 27-value single-byte substitutions, all DER length rewrites and all structurally valid DER edits (emptied, shortened, dropped, duplicated node) of every corpus item of the entry points that open no sockets")
		runFuzz(r, tl)
	}
	if len(tl.sigs) > 0 {
		sg := sortedKeys(tl.sigs)
		fmt.Printf("  %d distinct failure signatures:\n", len(sg))
		for _, s := range sg {
			fmt.Printf("  sig=%s (%d cases)\n", s, tl.sigs[s])
		}
	}
}

func TestMain(m *testing.M) {
	if os.Getenv("C04_WORKER") == "1" {
		workerMain()
		os.Exit(0)
	}
	for _, a := range os.Args {
		if strings.HasPrefix(a, "-test.fuzzworker") {
			fuzzWorkerInit()
		}
	}
	os.Exit(m.Run())
}
