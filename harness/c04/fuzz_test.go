package c04

import (
	"bufio"
	"bytes"
	"context"
	"fmt"
	"os"
	"os/exec"
	"path/filepath"
	"regexp"
	"runtime"
	"sort"
	"strconv"
	"strings"
	"sync"
	"syscall"
	"testing"
	"time"

	"verif/harness/evid"
)

// Native coverage-guided fuzzing (thorough tier only: it is not reproducible from a seed).
//
// One fuzz target per entry-point group. The fuzzed value is (sel, data): sel picks one of the
// group's (entry point, op) pairs, data is the input. The corpus is every seed of the group plus,
// for every pair, the empty input. The body is evalLocal - the same oracle as the deterministic
// tier - so a failing input is a Case; TestProp re-evaluates every crasher through Eval (isolated
// worker, watchdog) before it counts.

type fuzzPair struct{ ep, op string }

func groupPairs(g string) []fuzzPair {
	set := map[fuzzPair]bool{}
	for _, ep := range epsOfGroup(g) {
		for _, s := range ep.seeds() {
			set[fuzzPair{ep.name, s.op}] = true
		}
	}
	out := []fuzzPair{}
	for p := range set {
		out = append(out, p)
	}
	sort.Slice(out, func(i, j int) bool {
		if out[i].ep != out[j].ep {
			return out[i].ep < out[j].ep
		}
		return out[i].op < out[j].op
	})
	return out
}

var (
	fuzzSkipOnce sync.Once
	fuzzSkip     map[string]bool
)

// skipSig: signatures a fuzz worker does not stop for - the known findings and the signatures the
// deterministic tier of this run has already reported (passed in C04_FUZZ_SKIP), so that the
// campaign searches behind them.
func skipSig(sig string) bool {
	fuzzSkipOnce.Do(func() {
		fuzzSkip = map[string]bool{}
		for _, s := range strings.Split(os.Getenv("C04_FUZZ_SKIP"), "\n") {
			if s = strings.TrimSpace(s); s != "" {
				fuzzSkip[s] = true
			}
		}
		dir := os.Getenv("VERIF_DIR")
		if dir == "" {
			dir = "/verif"
		}
		if f, err := os.Open(filepath.Join(dir, "KNOWN_FINDINGS.txt")); err == nil {
			defer f.Close()
			sc := bufio.NewScanner(f)
			sc.Buffer(make([]byte, 1<<20), 1<<20)
			for sc.Scan() {
				fs := strings.Fields(sc.Text())
				if len(fs) >= 3 && fs[0] == "known:" && fs[1] == "property=C04" && strings.HasPrefix(fs[2], "key=") {
					fuzzSkip[strings.TrimPrefix(fs[2], "key=")] = true
				}
			}
		}
	})
	return fuzzSkip[sig]
}

// fuzzWorkerInit runs in the fuzz worker processes: the heap profile rate the allocation-site
// finder relies on, and an address-space cap generous enough that multi-gigabyte requests are
// MEASURED (and skipped when known) instead of ending the worker, but not the machine.
func fuzzWorkerInit() {
	runtime.MemProfileRate = 64 << 10
	capAddressSpace(6 << 30)
}

const fuzzMaxInput = 64 << 10

func fuzzGroup(f *testing.F, g string) {
	pairs := groupPairs(g)
	if len(pairs) == 0 {
		f.Skip("no entry points in group " + g)
	}
	idx := map[fuzzPair]int{}
	for i, p := range pairs {
		idx[p] = i
		f.Add(uint16(i), []byte{})
	}
	for _, ep := range epsOfGroup(g) {
		for _, s := range ep.seeds() {
			f.Add(uint16(idx[fuzzPair{ep.name, s.op}]), s.in)
		}
	}
	f.Fuzz(func(t *testing.T, sel uint16, data []byte) {
		if len(data) > fuzzMaxInput {
			t.Skip()
		}
		p := pairs[int(sel)%len(pairs)]
		c := Case{EP: p.ep, Op: p.op, In: data}
		type res struct{ v evid.Verdict }
		done := make(chan res, 1)
		go func() {
			defer func() {
				if r := recover(); r != nil { // a panic in the harness's own preparation: not a finding
					done <- res{evid.Fail("harness:prepare-panic", "%v", r)}
				}
			}()
			v, _ := evalLocal(c)
			done <- res{v}
		}()
		select {
		case r := <-done:
			if r.v.OK || skipSig(r.v.Sig) || strings.HasPrefix(r.v.Sig, "harness:") {
				return
			}
			t.Fatalf("C04 %s\n%s", r.v.Sig, r.v.Msg)
		case <-time.After(watchdog + 5*time.Second):
			t.Fatalf("C04 hang-candidate:%s did not return within %v", p.ep, watchdog+5*time.Second)
		}
	})
}

func FuzzASN1(f *testing.F)    { fuzzGroup(f, "ASN1") }
func FuzzSPNEGO(f *testing.F)  { fuzzGroup(f, "SPNEGO") }
func FuzzFiles(f *testing.F)   { fuzzGroup(f, "Files") }
func FuzzPACFlat(f *testing.F) { fuzzGroup(f, "PACFlat") }
func FuzzPACNDR(f *testing.F)  { fuzzGroup(f, "PACNDR") }
func FuzzCrypto(f *testing.F)  { fuzzGroup(f, "Crypto") }
func FuzzDec(f *testing.F)     { fuzzGroup(f, "Dec") }
func FuzzNet(f *testing.F)     { fuzzGroup(f, "Net") }
func FuzzClient(f *testing.F)  { fuzzGroup(f, "Client") }

// ---------------------------------------------------------------------------------------------
// driver: TestProp (thorough) runs `go test -fuzz` per group

var fuzzTargets = []string{"ASN1", "SPNEGO", "Files", "PACFlat", "PACNDR", "Crypto", "Dec", "Net", "Client"}

func fuzzSeconds() int {
	if s, err := strconv.Atoi(os.Getenv("C04_FUZZTIME")); err == nil && s > 0 {
		return s
	}
	return 35
}

var failingInputRE = regexp.MustCompile(`testdata/fuzz/(Fuzz\w+)/([0-9a-f]+)`)

// parseFuzzFile decodes a "go test fuzz v1" corpus file with the values (uint16, []byte).
func parseFuzzFile(b []byte) (sel uint16, data []byte, err error) {
	lines := strings.Split(strings.TrimSpace(string(b)), "\n")
	if len(lines) != 3 || !strings.HasPrefix(lines[0], "go test fuzz v1") {
		return 0, nil, fmt.Errorf("not a fuzz corpus file with two values")
	}
	m := regexp.MustCompile(`^uint16\((\d+)\)$`).FindStringSubmatch(strings.TrimSpace(lines[1]))
	if m == nil {
		return 0, nil, fmt.Errorf("first value is not a uint16: %q", lines[1])
	}
	n, _ := strconv.Atoi(m[1])
	l := strings.TrimSpace(lines[2])
	if !strings.HasPrefix(l, "[]byte(") || !strings.HasSuffix(l, ")") {
		return 0, nil, fmt.Errorf("second value is not a []byte: %q", l)
	}
	s, err := strconv.Unquote(l[len("[]byte(") : len(l)-1])
	if err != nil {
		return 0, nil, err
	}
	return uint16(n), []byte(s), nil
}

func runFuzz(r *evid.Run, tl *tally) {
	harness, err := filepath.Abs("..")
	if err != nil {
		r.Inconclusive("cannot locate the harness module: %v", err)
		return
	}
	if _, err := exec.LookPath("go"); err != nil {
		r.Assume("native fuzzing skipped: no go toolchain on PATH")
		r.Label("fuzz-skipped:no-toolchain")
		return
	}
	args := []string{"test", "-tags", "verif"}
	if bin := os.Getenv("VERIF_BIN"); bin != "" {
		if _, err := os.Stat(filepath.Join(bin, "go.mod")); err == nil && strings.Contains(bin, "alt-") {
			args = append(args, "-modfile="+filepath.Join(bin, "go.mod")) // judging another checkout (VERIF_REPO)
		}
	}
	replays := filepath.Join(os.Getenv("VERIF_DIR"), "replays", "C04")
	if d := os.Getenv("VERIF_REPLAY_DIR"); d != "" {
		replays = filepath.Join(d, "C04")
	}
	os.MkdirAll(replays, 0o755)
	secs := fuzzSeconds()
	execs := map[string]int64{}
	for _, g := range fuzzTargets {
		target := "Fuzz" + g
		deadline := time.Now().Add(time.Duration(secs) * time.Second)
		for attempt := 0; attempt < 5; attempt++ {
			left := int(time.Until(deadline).Seconds())
			if left < 5 {
				break
			}
			tl.mu.Lock()
			skip := strings.Join(sortedKeys(tl.sigs), "\n")
			tl.mu.Unlock()
			ctx, cancel := context.WithTimeout(context.Background(), time.Duration(left+240)*time.Second)
			cmd := exec.CommandContext(ctx, "go", append(append([]string{}, args...), "-run", "^$", "-fuzz", "^"+target+"$", "-fuzztime", fmt.Sprintf("%ds", left), "./c04")...)
			cmd.Dir = harness
			cmd.Env = append(os.Environ(), "GOFLAGS=-mod=mod", "GOPROXY=off", "GOSUMDB=off", "GOTOOLCHAIN=local", "C04_FUZZ_SKIP="+skip, "VERIF_STATUS=", "VERIF_EVIDENCE=/dev/null", "VERIF_REPLAY=")
			cmd.SysProcAttr = &syscall.SysProcAttr{Setpgid: true}
			cmd.Cancel = func() error { return syscall.Kill(-cmd.Process.Pid, syscall.SIGKILL) }
			var out bytes.Buffer
			cmd.Stdout, cmd.Stderr = &out, &out
			err := cmd.Run()
			timedOut := ctx.Err() != nil
			cancel()
			text := out.String()
			for _, m := range regexp.MustCompile(`execs: (\d+)`).FindAllStringSubmatch(text, -1) {
				n, _ := strconv.ParseInt(m[1], 10, 64)
				execs[target] = max(execs[target], n)
			}
			if timedOut {
				r.Inconclusive("go test -fuzz %s did not end %d s after its fuzztime and was killed (a fuzz worker stuck in a call?)\n%s", target, 240, tailOf(text, 12))
				break
			}
			if err == nil {
				break // fuzztime elapsed without a crasher
			}
			m := failingInputRE.FindStringSubmatch(text)
			if m == nil {
				if strings.Contains(text, "[build failed]") || strings.Contains(text, "cannot find") || strings.Contains(text, "no required module") {
					r.Inconclusive("go test -fuzz %s could not be built:\n%s", target, tailOf(text, 15))
					return
				}
				r.Inconclusive("go test -fuzz %s failed without naming a failing input:\n%s", target, tailOf(text, 15))
				break
			}
			file := filepath.Join(harness, "c04", "testdata", "fuzz", m[1], m[2])
			raw, rerr := os.ReadFile(file)
			os.Remove(file) // never leave it behind: it would fail every later run of the package as a seed
			if rerr != nil {
				r.Inconclusive("cannot read the fuzz crasher %s: %v", file, rerr)
				break
			}
			os.WriteFile(filepath.Join(replays, "fuzz-"+m[1]+"-"+m[2]+".txt"), raw, 0o644)
			sel, data, perr := parseFuzzFile(raw)
			if perr != nil {
				r.Inconclusive("cannot decode the fuzz crasher %s: %v", file, perr)
				break
			}
			pairs := groupPairs(g)
			p := pairs[int(sel)%len(pairs)]
			c := Case{EP: p.ep, Op: p.op, In: data, Src: "fuzz/" + m[1] + "/" + m[2]}
			v := Eval(c)
			r.Count(strconv.FormatUint(caseHash(c), 16), "ep:"+c.EP, "mut:native-fuzz-crasher", "group:"+g)
			if v.OK {
				r.Label("fuzz-crasher-not-reproduced-by-eval")
				fmt.Printf("  fuzz crasher %s/%s does not reproduce through Eval (kept in %s)\n", m[1], m[2], replays)
				continue
			}
			tl.fail(checkFuzz, c, v)
		}
	}
	r.Extra("fuzz_execs", execs)
	r.Extra("fuzz_seconds_per_target", secs)
	r.Rule(fmt.Sprintf("thorough: native go test -fuzz, %d targets x %d s, (entry point selector, input) seeded with the whole corpus and the empty input; crashers re-evaluated through Eval", len(fuzzTargets), secs))
	os.RemoveAll(filepath.Join(harness, "c04", "testdata", "fuzz"))
	os.Remove(filepath.Join(harness, "c04", "testdata"))
}

func tailOf(s string, n int) string {
	ls := strings.Split(strings.TrimRight(s, "\n"), "\n")
	if len(ls) > n {
		ls = ls[len(ls)-n:]
	}
	return strings.Join(ls, "\n")
}
