package c04

import (
	"bytes"
	"encoding/base64"
	"errors"
	"fmt"
	"io"
	"net/http"
	"strings"
	"sync"

	"github.com/jcmturner/gokrb5/v8/client"
	"github.com/jcmturner/gokrb5/v8/credentials"
	"github.com/jcmturner/gokrb5/v8/spnego"
)

// The SPNEGO HTTP client consumes what a server sends: status lines, WWW-Authenticate and Location headers. The entry
// point "spnego-client-do" turns the input octets into a server - octet i (cyclically, so that a server may never
// settle) decides the answer to request i+1 - and calls spnego.Client.Do once against it through an in-process
// RoundTripper (no sockets). The Kerberos client is loaded from a reference-made credential cache holding a TGT and a
// ticket for the service, so no KDC is needed. Besides panics and allocation the call must stop: more requests than
// a client following at most ten redirects and answering each hop's challenge once can cause are reported as a hang.

// maxClientRequests is 2*(10 redirects + 1) + 2, the bound C18 uses.
const maxClientRequests = 24

// unboundedErr is returned by a prepared call that found the library not to terminate on its own.
type unboundedErr struct{ what string }

func (e unboundedErr) Error() string { return e.what }

type scriptedServer struct {
	script []byte
	n      int
}

func (s *scriptedServer) RoundTrip(req *http.Request) (*http.Response, error) {
	if req.Body != nil {
		io.Copy(io.Discard, req.Body)
		req.Body.Close()
	}
	s.n++
	if s.n > maxClientRequests+8 {
		return nil, errors.New("c04: scripted server gives up")
	}
	step := byte(0)
	if len(s.script) > 0 {
		step = s.script[(s.n-1)%len(s.script)]
	}
	h := http.Header{}
	status := 200
	other := "http://other.example.com"
	if req.URL.Host == "other.example.com" {
		other = "http://web.example.com"
	}
	switch step & 0x0f {
	case 1:
		status = 401
		h.Set("WWW-Authenticate", "Negotiate")
	case 2: // a challenge carrying the octets that follow as the server's token
		status = 401
		rest := s.script[(s.n-1)%len(s.script):]
		h.Set("WWW-Authenticate", "Negotiate "+base64.StdEncoding.EncodeToString(rest))
	case 3:
		status = 302
		h.Set("Location", fmt.Sprintf("http://%s/hop%d", req.URL.Host, s.n))
	case 4:
		status = 307
		h.Set("Location", fmt.Sprintf("http://%s/hop%d", req.URL.Host, s.n))
	case 5:
		status = 401
		h.Set("WWW-Authenticate", "Basic realm=x")
	case 6:
		status = 500
	case 7:
		status = 302
		h.Set("Location", fmt.Sprintf("%s/hop%d", other, s.n))
	case 8:
		status = 401
		h.Set("WWW-Authenticate", "Negotiate oQcwBaADCgEC") // NegTokenResp { negState reject }
	case 9: // the header value is the raw rest of the script
		status = 401
		h.Set("WWW-Authenticate", strings.ToValidUTF8(string(s.script[(s.n-1)%len(s.script):]), "?"))
	case 10:
		status = 308
		h.Set("Location", fmt.Sprintf("%s/hop%d", other, s.n))
	case 11: // a redirect without a usable Location
		status = 302
		h.Set("Location", strings.ToValidUTF8(string(s.script[(s.n-1)%len(s.script):]), "?"))
	}
	return &http.Response{Status: fmt.Sprintf("%d x", status), StatusCode: status, Proto: "HTTP/1.1", ProtoMajor: 1, ProtoMinor: 1, Header: h,
		Body: io.NopCloser(strings.NewReader("reply")), ContentLength: 5, Request: req}, nil
}

var (
	httpCCOnce sync.Once
	httpCC     []byte
)

func init() {
	register(&entryPoint{name: "spnego-client-do", group: "SPNEGO", prepare: simple(func(_ string, in []byte) error {
		httpCCOnce.Do(func() {
			for _, s := range ccacheSeeds() {
				if s.name == "ref/ccache-v4" {
					httpCC = s.in
				}
			}
		})
		cc := new(credentials.CCache)
		if err := cc.Unmarshal(httpCC); err != nil {
			return err
		}
		cl, err := client.NewFromCCache(cc, offlineConf())
		if err != nil {
			return err
		}
		defer cl.Destroy()
		for _, method := range []string{"GET", "POST"} {
			srv := &scriptedServer{script: in}
			sc := spnego.NewClient(cl, &http.Client{Transport: srv}, "HTTP/web.example.com")
			var body io.Reader
			if method == "POST" {
				body = bytes.NewReader([]byte("the request body"))
			}
			req, err := http.NewRequest(method, "http://web.example.com/start", body)
			if err != nil {
				return err
			}
			resp, err := sc.Do(req)
			if resp != nil && resp.Body != nil {
				resp.Body.Close()
			}
			if srv.n > maxClientRequests {
				return unboundedErr{fmt.Sprintf("one call to spnego.Client.Do (%s) caused %d requests and was only stopped by the server giving up (bound %d)", method, srv.n, maxClientRequests)}
			}
			_ = err
		}
		return nil
	}), structOK: func(_ string, in []byte) bool {
		for _, b := range in {
			if k := b & 0x0f; k >= 1 && k <= 11 && k != 5 && k != 6 {
				return true // the server challenges or redirects at least once
			}
		}
		return false
	}, seeds: func() []seed {
		var s []seed
		kinds := []byte{0, 1, 3, 4, 7, 8, 10}
		for _, a := range kinds {
			s = append(s, seed{name: fmt.Sprintf("script/%d", a), in: []byte{a}})
			for _, b := range kinds {
				s = append(s, seed{name: fmt.Sprintf("script/%d-%d", a, b), in: []byte{a, b}})
			}
		}
		return append(s, seed{name: "script/challenge-redirect-challenge-ok", in: []byte{1, 3, 1, 0}}, seed{name: "script/token-then-ok", in: []byte{2, 0x60, 0x03, 0x30, 0x01, 0x00, 0}},
			seed{name: "script/raw-header", in: append([]byte{9}, []byte("Negotiate abc, Basic realm=x")...)}, seed{name: "script/bad-location", in: append([]byte{11}, []byte("http://%zz/\x7f")...)})
	}, muts: []string{"none", "subst", "bitflip", "extend"}})
}
