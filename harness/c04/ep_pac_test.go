package c04

import (
	"strconv"

	"github.com/jcmturner/gokrb5/v8/pac"
	"github.com/jcmturner/gokrb5/v8/test/testdata"
	"github.com/jcmturner/gokrb5/v8/types"

	"verif/harness/mint"
	ref "verif/harness/ref/krbcrypto"
	"verif/harness/ref/pacfmt"
)

var pacMuts = []string{"none", "prefix", "subst", "bitflip", "extend", "field16", "field32", "field64"}

func ndrHeaderOK(_ string, in []byte) bool {
	return len(in) >= 20 && in[0] == 1 && in[1] == 0x10 && in[2] == 8 && in[3] == 0
}

func ndrEP(name string, f func([]byte) error, seeds func() []seed) {
	register(&entryPoint{name: name, group: "PACNDR", prepare: simple(func(_ string, in []byte) error { return f(in) }), structOK: ndrHeaderOK, seeds: seeds, muts: pacMuts})
}

func opEType(op string) int32 {
	n, err := strconv.Atoi(op)
	if err != nil {
		return ref.AES256SHA1
	}
	return int32(n)
}

func init() {
	register(&entryPoint{name: "pac-type-unmarshal", group: "PACFlat", prepare: simple(func(_ string, in []byte) error {
		var p pac.PACType
		return p.Unmarshal(in)
	}), structOK: func(_ string, in []byte) bool { return len(in) >= 8 },
		seeds: func() []seed {
			return []seed{vec("ms/pac", testdata.MarshaledPAC_AD_WIN2K_PAC), {name: "ref/pac-rich", in: richPAC(ref.AES256SHA1, wKey("svc", ref.AES256SHA1).Value)}}
		}, muts: pacMuts})

	// the whole PAC as the service processes it: buffer table, every buffer decoder, signature.
	// op = etype of the service key; the PAC seeds are signed under that key so that the flow runs to
	// the end. No logger is configured (the default of service.Settings).
	register(&entryPoint{name: "pac-process", group: "PACNDR", prepare: simple(func(op string, in []byte) error {
		var p pac.PACType
		if err := p.Unmarshal(in); err != nil {
			return err
		}
		et := opEType(op)
		err := p.ProcessPACInfoBuffers(types.EncryptionKey{KeyType: et, KeyValue: wKey("svc", et).Value}, nil)
		if err == nil && p.KerbValidationInfo != nil {
			p.KerbValidationInfo.GetGroupMembershipSIDs()
		}
		return err
	}), structOK: func(_ string, in []byte) bool {
		return len(in) >= 8 && in[4] == 0 && in[5] == 0 && in[6] == 0 && in[7] == 0
	},
		seeds: func() []seed {
			s := []seed{}
			for _, et := range pacETypes() {
				s = append(s, seed{name: "ref/pac-signed-" + etLabel(et), op: strconv.Itoa(int(et)), in: signedPAC(et, wKey("svc", et).Value)})
			}
			s = append(s, seed{name: "ref/pac-rich", op: "18", in: richPAC(ref.AES256SHA1, wKey("svc", ref.AES256SHA1).Value)},
				seed{name: "ms/pac-foreign-key", op: "18", in: samplePAC()})
			// a PAC that lacks each mandatory buffer in turn
			src, _ := pacfmt.Parse(samplePAC())
			for _, drop := range []uint32{1, 6, 7, 10} {
				var items []pacfmt.Item
				for i, e := range src.Entries {
					if e.Type != drop {
						items = append(items, pacfmt.Item{Type: e.Type, Data: append([]byte{}, src.Data(i)...)})
					}
				}
				b, _ := pacfmt.Assemble(items, pacfmt.Layout{})
				s = append(s, seed{name: "ref/pac-without-buffer-" + strconv.Itoa(int(drop)), op: "18", in: b})
			}
			return s
		}, muts: pacMuts})

	ndrEP("pac-kerb-validation-info", func(b []byte) error {
		var k pac.KerbValidationInfo
		if err := k.Unmarshal(b); err != nil {
			return err
		}
		k.GetGroupMembershipSIDs()
		return nil
	}, func() []seed {
		return []seed{vec("ms/kerb-validation-info", testdata.MarshaledPAC_Kerb_Validation_Info_MS), vec("repo/kerb-validation-info", testdata.MarshaledPAC_Kerb_Validation_Info),
			vec("repo/kerb-validation-info-trust", testdata.MarshaledPAC_Kerb_Validation_Info_Trust)}
	})
	ndrEP("pac-client-claims-info", func(b []byte) error {
		var k pac.ClientClaimsInfo
		return k.Unmarshal(b)
	}, func() []seed {
		return []seed{vec("repo/claims-str", testdata.MarshaledPAC_ClientClaimsInfoStr), vec("repo/claims-int", testdata.MarshaledPAC_ClientClaimsInfoInt),
			vec("repo/claims-multi", testdata.MarshaledPAC_ClientClaimsInfoMulti), vec("repo/claims-multi-uint", testdata.MarshaledPAC_ClientClaimsInfoMultiUint),
			vec("repo/claims-multi-str", testdata.MarshaledPAC_ClientClaimsInfoMultiStr), vec("repo/claims-xpress-huff", testdata.MarshaledPAC_ClientClaimsInfo_XPRESS_HUFF)}
	})
	ndrEP("pac-device-claims-info", func(b []byte) error {
		var k pac.DeviceClaimsInfo
		return k.Unmarshal(b)
	}, func() []seed {
		return []seed{vec("repo/claims-str", testdata.MarshaledPAC_ClientClaimsInfoStr), vec("repo/claims-multi", testdata.MarshaledPAC_ClientClaimsInfoMulti)}
	})
	ndrEP("pac-device-info", func(b []byte) error {
		var k pac.DeviceInfo
		return k.Unmarshal(b)
	}, func() []seed { return []seed{{name: "hand/device-info", in: ndrDeviceInfo()}} })
	ndrEP("pac-s4u-delegation-info", func(b []byte) error {
		var k pac.S4UDelegationInfo
		return k.Unmarshal(b)
	}, func() []seed {
		return []seed{{name: "hand/s4u-delegation-info", in: ndrS4UDelegationInfo("cifs/fs.example.com", []string{"HTTP/web.example.com", "host/a.example.com"})},
			{name: "hand/s4u-delegation-info-empty", in: ndrS4UDelegationInfo("", nil)}}
	})
	ndrEP("pac-credential-data", func(b []byte) error {
		var k pac.CredentialData
		err := k.Unmarshal(b)
		var s pac.SECPKGSupplementalCred
		s.Unmarshal(b)
		return err
	}, func() []seed {
		return []seed{{name: "hand/credential-data", in: ndrCredentialData("NTLM", ntlmSupplementalCred())}, {name: "hand/secpkg-supplemental-cred", in: ndrSecPkgSupplementalCred("NTLM", ntlmSupplementalCred())}}
	})

	// PAC_CREDENTIAL_INFO: version, etype, ciphertext. op = etype of the AS reply key; In is the
	// PLAINTEXT PAC_CREDENTIAL_DATA, encrypted here (usage 16) so that the NDR decoder is reached.
	register(&entryPoint{name: "dec-pac-credentials-info", group: "PACNDR", prepare: func(op string, in []byte) (func() error, func(), error) {
		et := opEType(op)
		key := wKey("asrep", et)
		ct, err := ref.Encrypt(et, key.Value, 16, in, det("credconf", ref.ConfounderLen(et)))
		if err != nil {
			return nil, nil, err
		}
		buf := append([]byte{0, 0, 0, 0, byte(et), byte(et >> 8), byte(et >> 16), byte(et >> 24)}, ct...)
		return func() error {
			var c pac.CredentialsInfo
			return c.Unmarshal(buf, types.EncryptionKey{KeyType: et, KeyValue: key.Value})
		}, nil, nil
	}, structOK: ndrHeaderOK, seeds: func() []seed {
		return []seed{{name: "hand/credential-data", op: "18", in: ndrCredentialData("NTLM", ntlmSupplementalCred())}, {name: "hand/credential-data-rc4", op: "23", in: ndrCredentialData("NTLM", ntlmSupplementalCred())}}
	}, muts: pacMuts})
	// the same structure presented raw (ciphertext not authentic): header handling
	register(&entryPoint{name: "pac-credentials-info", group: "PACFlat", prepare: simple(func(op string, in []byte) error {
		et := opEType(op)
		var c pac.CredentialsInfo
		return c.Unmarshal(in, types.EncryptionKey{KeyType: et, KeyValue: wKey("asrep", et).Value})
	}), structOK: func(_ string, in []byte) bool {
		return len(in) >= 8 && in[0] == 0 && in[1] == 0 && in[2] == 0 && in[3] == 0
	},
		seeds: func() []seed {
			ct, _ := ref.Encrypt(18, wKey("asrep", 18).Value, 16, ndrCredentialData("NTLM", ntlmSupplementalCred()), det("credconf", 16))
			return []seed{{name: "hand/credentials-info", op: "18", in: append([]byte{0, 0, 0, 0, 18, 0, 0, 0}, ct...)}}
		}, muts: pacMuts})

	flat := func(name string, min int, f func([]byte) error, seeds func() []seed) {
		register(&entryPoint{name: name, group: "PACFlat", prepare: simple(func(_ string, in []byte) error { return f(in) }),
			structOK: func(_ string, in []byte) bool { return len(in) >= min }, seeds: seeds, muts: pacMuts})
	}
	flat("pac-client-info", 10, func(b []byte) error {
		var k pac.ClientInfo
		return k.Unmarshal(b)
	}, func() []seed {
		return []seed{vec("repo/client-info", testdata.MarshaledPAC_Client_Info), {name: "ref/client-info", in: pacfmt.EncodeClientInfo(0x01d1f4e0b0a60000, "alice")}}
	})
	flat("pac-upn-dns-info", 12, func(b []byte) error {
		var k pac.UPNDNSInfo
		return k.Unmarshal(b)
	}, func() []seed {
		return []seed{vec("repo/upn-dns-info", testdata.MarshaledPAC_UPN_DNS_Info), {name: "ref/upn-dns-info", in: pacfmt.EncodeUPNDNSInfo("alice@example.com", "EXAMPLE.COM", 1)}}
	})
	flat("pac-signature-data", 4, func(b []byte) error {
		var k pac.SignatureData
		_, err := k.Unmarshal(b)
		return err
	}, func() []seed {
		r := uint16(0x1234)
		return []seed{vec("repo/server-signature", testdata.MarshaledPAC_Server_Signature), vec("repo/kdc-signature", testdata.MarshaledPAC_KDC_Signature),
			{name: "ref/signature-sha2-rodc", in: pacfmt.SignatureBuffer(20, 24, &r)}, {name: "ref/signature-md5", in: pacfmt.SignatureBuffer(-138, 16, nil)}}
	})
	flat("pac-ntlm-supplemental-cred", 8, func(b []byte) error {
		var k pac.NTLMSupplementalCred
		return k.Unmarshal(b)
	}, func() []seed { return []seed{{name: "hand/ntlm-supplemental-cred", in: ntlmSupplementalCred()}} })
	_ = mint.Flag
}
