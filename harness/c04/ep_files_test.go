package c04

import (
	"encoding/binary"
	"fmt"
	"sync"

	"github.com/jcmturner/gokrb5/v8/client"
	"github.com/jcmturner/gokrb5/v8/config"
	"github.com/jcmturner/gokrb5/v8/credentials"
	"github.com/jcmturner/gokrb5/v8/keytab"
	"github.com/jcmturner/gokrb5/v8/messages"
	"github.com/jcmturner/gokrb5/v8/test/testdata"
	"github.com/jcmturner/gokrb5/v8/types"

	"verif/harness/mint"
	"verif/harness/ref/ccachefmt"
	"verif/harness/ref/keytabfmt"
	ref "verif/harness/ref/krbcrypto"
)

var (
	confKtOnce sync.Once
	confKt     *keytab.Keytab
)

// confClientKeytab holds keys of user@EXAMPLE.COM for three etypes (built once per process).
func confClientKeytab() *keytab.Keytab {
	confKtOnce.Do(func() {
		var es []mint.KeytabEntry
		for _, et := range []int32{ref.AES256SHA1, ref.AES128SHA1, ref.RC4} {
			es = append(es, mint.KeytabEntry{Principal: "user", Realm: "EXAMPLE.COM", KVNO: 1, Key: mint.Key{EType: et, Value: wKey("conf-client", et).Value}, Timestamp: 1000})
		}
		confKt = keytab.New()
		if err := confKt.Unmarshal(mint.KeytabBytes(es)); err != nil {
			panic("c04: conf client keytab: " + err.Error())
		}
	})
	return confKt
}

var binMuts = []string{"none", "prefix", "subst", "bitflip", "extend", "field16", "field32"}

const richConf = `# comment line
; another comment
[libdefaults]
  default_realm = EXAMPLE.COM
  allow_weak_crypto = true
  canonicalize = yes
  ccache_type = 4
  clockskew = 300
  default_client_keytab_name = FILE:/tmp/client.keytab
  default_keytab_name = FILE:/etc/krb5.keytab
  default_tgs_enctypes = aes256-cts-hmac-sha1-96 aes128-cts-hmac-sha1-96, rc4-hmac
  default_tkt_enctypes = aes256-cts-hmac-sha384-192,aes128-cts-hmac-sha256-128 des3-cbc-sha1
  dns_canonicalize_hostname = false
  dns_lookup_kdc = false
  dns_lookup_realm = false
  extra_addresses = 10.1.2.3, 10.1.2.4
  forwardable = yes
  ignore_acceptor_hostname = no
  k5login_authoritative = n
  k5login_directory = /etc/k5login.d
  kdc_default_options = 0x00000010
  kdc_timesync = 1
  noaddresses = true
  permitted_enctypes = aes256-cts aes128-cts
  preferred_preauth_types = 17, 16, 15, 14
  proxiable = t
  rdns = 0
  realm_try_domains = 2
  renew_lifetime = 7d
  safe_checksum_type = 8
  ticket_lifetime = 10h30m
  udp_preference_limit = 1465
  verify_ap_req_nofail = f
  unknown_relation = whatever

[realms]
  EXAMPLE.COM = {
    kdc = 127.0.0.1:88
    kdc = kdc2.example.com
    kdc = [::1]:750
    admin_server = admin.example.com:749
    kpasswd_server = kpw.example.com
    master_kdc = kdc1.example.com*
    default_domain = example.com
    auth_to_local_names = {
      fred = freddy
    }
    auth_to_local = RULE:[1:$1@$0](.*@EXAMPLE\.COM)s/@.*//
  }
  OTHER.ORG = {
    kdc = kdc.other.org:88
    admin_server = kdc.other.org
  }

[domain_realm]
  .example.com = EXAMPLE.COM
  example.com = EXAMPLE.COM
  host.other.org = OTHER.ORG

[appdefaults]
  pam = {
    debug = false
  }

[logging]
  default = FILE:/var/log/krb5.log
`

func keytabSeeds() []seed {
	s := []seed{vec("repo/keytab-testuser1", testdata.KEYTAB_TESTUSER1_TEST_GOKRB5), vec("repo/keytab-http", testdata.HTTP_KEYTAB),
		{name: "minted/keytab-world", in: mint.KeytabBytes(worldKeytabEntries())}}
	for _, ver := range []int{1, 2} {
		var es []keytabfmt.Entry
		for i, et := range ref.ETypes {
			e := keytabfmt.Entry{Realm: wRealm, Components: []string{"HTTP", "web.example.com"}, HasNameType: ver == 2, NameType: 1, Timestamp: 1700000000 + uint32(i), KVNO8: uint8(3 + i),
				KeyType: uint16(et), Key: wKey("svc", et).Value, HasKVNO32: i%2 == 0, KVNO32: uint32(300 + i)}
			es = append(es, e)
		}
		f := keytabfmt.Canonical(ver, es)
		f.Records = append(f.Records[:2], append([]keytabfmt.Record{{Hole: 12}}, f.Records[2:]...)...)
		f.Records[3].Pad = []byte{0, 0, 0, 0, 9}
		f.EndMark = true
		b, err := f.Bytes()
		if err != nil {
			panic("c04: keytabfmt: " + err.Error())
		}
		s = append(s, seed{name: fmt.Sprintf("ref/keytab-v%d-holes", ver), in: b})
	}
	return s
}

func ccacheSeeds() []seed {
	s := []seed{vec("repo/ccache-test", testdata.CCACHE_TEST)}
	def := ccachefmt.Principal{NameType: 1, Realm: wRealm, Comps: []string{wClient}}
	cred := func(server []string, tkt []byte) ccachefmt.Credential {
		return ccachefmt.Credential{Client: def, Server: ccachefmt.Principal{NameType: 2, Realm: wRealm, Comps: server}, KeyType: 18, Key: wKey("session", 18).Value,
			AuthTime: 1704067200, StartTime: 1704067200, EndTime: 2114380800, RenewTill: 2127427200, Flags: 0x40e10000,
			Addrs: []ccachefmt.Typed{{Type: 2, Data: []byte{10, 1, 1, 1}}}, AuthData: []ccachefmt.Typed{{Type: 1, Data: []byte{0x30, 0}}}, Ticket: tkt}
	}
	for v := 1; v <= 4; v++ {
		f := &ccachefmt.File{Version: v, Default: def, Creds: []ccachefmt.Credential{
			cred([]string{"krbtgt", wRealm}, ticketSpec(18, "tgs").Bytes()),
			ccachefmt.ConfigEntry(def, "fast_avail", "krbtgt/EXAMPLE.COM@EXAMPLE.COM", []byte("yes")),
			cred([]string{"HTTP", "web.example.com"}, ticketSpec(18, "plain").Bytes())}}
		if v == 4 {
			f.Header = []ccachefmt.HeaderField{ccachefmt.KDCOffsetField(5, 7), {Tag: 9, Data: []byte{1, 2, 3}}}
		}
		b, err := ccachefmt.Marshal(f, binary.LittleEndian)
		if err != nil {
			panic("c04: ccachefmt: " + err.Error())
		}
		s = append(s, seed{name: fmt.Sprintf("ref/ccache-v%d", v), in: b})
	}
	return s
}

var (
	quietConf *config.Config
)

// offlineConf is a client configuration whose only KDC refuses connections at once.
func offlineConf() *config.Config {
	if quietConf == nil {
		c, err := config.NewFromString("[libdefaults]\n default_realm = EXAMPLE.COM\n dns_lookup_kdc = false\n dns_lookup_realm = false\n udp_preference_limit = 1\n" +
			" default_tkt_enctypes = aes256-cts-hmac-sha1-96 aes128-cts-hmac-sha1-96 aes256-cts-hmac-sha384-192 aes128-cts-hmac-sha256-128 des3-cbc-sha1 rc4-hmac\n" +
			" default_tgs_enctypes = aes256-cts-hmac-sha1-96 aes128-cts-hmac-sha1-96 aes256-cts-hmac-sha384-192 aes128-cts-hmac-sha256-128 des3-cbc-sha1 rc4-hmac\n" +
			" permitted_enctypes = aes256-cts-hmac-sha1-96 aes128-cts-hmac-sha1-96 aes256-cts-hmac-sha384-192 aes128-cts-hmac-sha256-128 des3-cbc-sha1 rc4-hmac\n allow_weak_crypto = true\n" +
			"[realms]\n EXAMPLE.COM = {\n  kdc = 127.0.0.1:1\n }\n")
		if err != nil {
			panic("c04: offline conf: " + err.Error())
		}
		c.LibDefaults.Clockskew = century
		quietConf = c
	}
	return quietConf
}

func init() {
	register(&entryPoint{name: "keytab-unmarshal", group: "Files", prepare: simple(func(_ string, in []byte) error {
		kt := keytab.New()
		if err := kt.Unmarshal(in); err != nil {
			return err
		}
		// what a service does with a loaded keytab
		for _, et := range ref.ETypes {
			kt.GetEncryptionKey(types.PrincipalName{NameType: 2, NameString: []string{"HTTP", "web.example.com"}}, wRealm, 0, et)
			kt.GetEncryptionKey(types.PrincipalName{NameType: 1, NameString: []string{"testuser1"}}, "TEST.GOKRB5", 2, et)
		}
		_ = kt.String()
		kt.JSON()
		return nil
	}), structOK: func(_ string, in []byte) bool { return len(in) >= 2 && in[0] == 5 && (in[1] == 1 || in[1] == 2) },
		seeds: keytabSeeds, muts: binMuts})

	register(&entryPoint{name: "ccache-unmarshal", group: "Files", prepare: simple(func(_ string, in []byte) error {
		c := new(credentials.CCache)
		if err := c.Unmarshal(in); err != nil {
			return err
		}
		// what a client does with a loaded cache
		c.GetClientPrincipalName()
		c.GetClientRealm()
		c.GetClientCredentials()
		c.GetEntries()
		c.Contains(types.PrincipalName{NameType: 2, NameString: []string{"krbtgt", wRealm}})
		c.GetEntry(types.PrincipalName{NameType: 2, NameString: []string{"HTTP", "web.example.com"}})
		cl, err := client.NewFromCCache(c, offlineConf())
		if err == nil {
			cl.Destroy()
		}
		return nil
	}), structOK: func(_ string, in []byte) bool { return len(in) >= 2 && in[0] == 5 && in[1] >= 1 && in[1] <= 4 },
		seeds: ccacheSeeds, muts: binMuts})

	register(&entryPoint{name: "krb5conf-parse", group: "Files", prepare: simple(func(_ string, in []byte) error {
		c, err := config.NewFromString(string(in))
		if c == nil {
			return err
		}
		// what a client does with a loaded configuration
		c.ResolveRealm("host.example.com")
		c.ResolveRealm("example.com")
		c.ResolveRealm("")
		if !c.LibDefaults.DNSLookupKDC {
			c.GetKDCs(c.LibDefaults.DefaultRealm, true)
			c.GetKDCs("EXAMPLE.COM", false)
			c.GetKpasswdServers("EXAMPLE.COM", true)
		}
		c.JSON()
		// ... and a client built on it: requests are constructed from the configuration's values (etype lists,
		// options, lifetimes, pre-authentication types) before anything is sent. The KDC lists are pointed at a closed
		// loopback port and the keytab is built once, so nothing leaves the process and no key derivation is paid for.
		for i := range c.Realms {
			c.Realms[i].KDC = []string{"127.0.0.1:1"}
			c.Realms[i].KPasswdServer = []string{"127.0.0.1:1"}
		}
		c.LibDefaults.DNSLookupKDC, c.LibDefaults.DNSLookupRealm = false, false
		realm := c.LibDefaults.DefaultRealm
		if realm == "" {
			realm = "EXAMPLE.COM"
		}
		for _, assume := range []bool{true, false} {
			cl := client.NewWithKeytab("user", realm, confClientKeytab(), c, client.AssumePreAuthentication(assume), client.DisablePAFXFAST(true))
			cl.Login()
			cl.Destroy()
		}
		cn := types.NewPrincipalName(1, "user")
		messages.NewASReqForTGT(realm, c, cn)
		messages.NewASReqForChgPasswd(realm, c, cn)
		return err
	}), structOK: func(_ string, in []byte) bool {
		for _, b := range in {
			if b == '[' {
				return true
			}
		}
		return false
	},
		seeds: func() []seed {
			return []seed{{name: "repo/krb5.conf", in: []byte(testdata.KRB5_CONF)}, {name: "repo/krb5.conf-ad", in: []byte(testdata.KRB5_CONF_AD)}, {name: "hand/krb5.conf-rich", in: []byte(richConf)}}
		}, muts: []string{"none", "prefix", "subst", "bitflip", "extend", "text-line"}})
}
