package c04

import (
	"encoding/hex"
	"fmt"
	"sort"

	"github.com/jcmturner/gofork/encoding/asn1"
	"github.com/jcmturner/gokrb5/v8/asn1tools"
	"github.com/jcmturner/gokrb5/v8/messages"
	"github.com/jcmturner/gokrb5/v8/spnego"
	"github.com/jcmturner/gokrb5/v8/test/testdata"
	"github.com/jcmturner/gokrb5/v8/types"

	"verif/harness/ref/der"
)

// derHeader decodes an identifier + definite length leniently (BER): header length, content length.
func derHeader(b []byte) (hdr, clen int, ok bool) {
	if len(b) < 2 {
		return 0, 0, false
	}
	i := 1
	if b[0]&0x1f == 0x1f {
		for i < len(b) && b[i]&0x80 != 0 {
			i++
		}
		i++
	}
	if i >= len(b) {
		return 0, 0, false
	}
	l := int(b[i])
	i++
	if l == 0x80 {
		return 0, 0, false
	}
	if l > 0x80 {
		k := l & 0x7f
		if k > 4 || i+k > len(b) {
			return 0, 0, false
		}
		l = 0
		for j := 0; j < k; j++ {
			l = l<<8 | int(b[i+j])
		}
		i += k
	}
	if l < 0 || i+l > len(b) {
		return 0, 0, false
	}
	return i, l, true
}

// outerTag is the first structural test of a DER decoder: the expected identifier octet and a
// length that fits the input.
func outerTag(tags ...byte) func(string, []byte) bool {
	return func(_ string, in []byte) bool {
		if len(in) == 0 {
			return false
		}
		hit := false
		for _, t := range tags {
			if in[0] == t {
				hit = true
			}
		}
		if !hit {
			return false
		}
		_, _, ok := derHeader(in)
		return ok
	}
}

func unhex(s string) []byte {
	b, err := hex.DecodeString(s)
	if err != nil {
		panic("c04: bad hex vector: " + err.Error())
	}
	return b
}

func vec(name, h string) seed { return seed{name: name, in: unhex(h)} }

var derMuts = []string{"none", "prefix", "subst", "bitflip", "extend", "derlen", "der-empty", "der-short", "der-drop", "der-dup", "der-int"}

type unmarshaler func(b []byte) error

func asn1EP(name string, tags []byte, f unmarshaler, seeds func() []seed) {
	register(&entryPoint{name: name, group: "ASN1", prepare: simple(func(_ string, in []byte) error { return f(in) }),
		structOK: outerTag(tags...), seeds: seeds, muts: derMuts})
}

// useFlags does what a caller does with a decoded KerberosFlags value: asks for every flag bit.
func useFlags(f *asn1.BitString) {
	for i := 0; i < 32; i++ {
		types.IsFlagSet(f, i)
	}
}

func usePrincipal(p types.PrincipalName, realm string) {
	p.PrincipalNameString()
	p.GetSalt(realm)
	p.Equal(p)
}

func init() {
	asn1EP("msg-asreq", []byte{0x6a}, func(b []byte) error {
		var m messages.ASReq
		if err := m.Unmarshal(b); err != nil {
			return err
		}
		useFlags(&m.ReqBody.KDCOptions)
		usePrincipal(m.ReqBody.CName, m.ReqBody.Realm)
		usePrincipal(m.ReqBody.SName, m.ReqBody.Realm)
		return nil
	}, func() []seed {
		return append([]seed{vec("mit/as_req", testdata.MarshaledKRB5as_req), vec("mit/as_req-second-ticket", testdata.MarshaledKRB5as_reqOptionalsNULLexceptsecond_ticket),
			vec("mit/as_req-server", testdata.MarshaledKRB5as_reqOptionalsNULLexceptserver)}, mintedKDCReqs(10)...)
	})
	asn1EP("msg-tgsreq", []byte{0x6c}, func(b []byte) error {
		var m messages.TGSReq
		if err := m.Unmarshal(b); err != nil {
			return err
		}
		useFlags(&m.ReqBody.KDCOptions)
		return nil
	}, func() []seed {
		return append([]seed{vec("mit/tgs_req", testdata.MarshaledKRB5tgs_req), vec("mit/tgs_req-second-ticket", testdata.MarshaledKRB5tgs_reqOptionalsNULLexceptsecond_ticket),
			vec("mit/tgs_req-server", testdata.MarshaledKRB5tgs_reqOptionalsNULLexceptserver)}, mintedKDCReqs(12)...)
	})
	asn1EP("msg-kdcreqbody", []byte{0x30}, func(b []byte) error {
		var m messages.KDCReqBody
		if err := m.Unmarshal(b); err != nil {
			return err
		}
		useFlags(&m.KDCOptions)
		return nil
	}, func() []seed {
		return []seed{vec("mit/kdc_req_body", testdata.MarshaledKRB5kdc_req_body), vec("mit/kdc_req_body-second-ticket", testdata.MarshaledKRB5kdc_req_bodyOptionalsNULLexceptsecond_ticket),
			vec("mit/kdc_req_body-server", testdata.MarshaledKRB5kdc_req_bodyOptionalsNULLexceptserver)}
	})
	asn1EP("msg-asrep", []byte{0x6b}, func(b []byte) error {
		var m messages.ASRep
		if err := m.Unmarshal(b); err != nil {
			return err
		}
		usePrincipal(m.CName, m.CRealm)
		usePrincipal(m.Ticket.SName, m.Ticket.Realm)
		return nil
	}, func() []seed {
		return append([]seed{vec("mit/as_rep", testdata.MarshaledKRB5as_rep), vec("mit/as_rep-optionals-null", testdata.MarshaledKRB5as_repOptionalsNULL)}, mintedKDCReps(11)...)
	})
	asn1EP("msg-tgsrep", []byte{0x6d}, func(b []byte) error {
		var m messages.TGSRep
		if err := m.Unmarshal(b); err != nil {
			return err
		}
		usePrincipal(m.Ticket.SName, m.Ticket.Realm)
		return nil
	}, func() []seed {
		return append([]seed{vec("mit/tgs_rep", testdata.MarshaledKRB5tgs_rep), vec("mit/tgs_rep-optionals-null", testdata.MarshaledKRB5tgs_repOptionalsNULL)}, mintedKDCReps(13)...)
	})
	asn1EP("msg-enckdcreppart", []byte{0x79, 0x7a}, func(b []byte) error {
		var m messages.EncKDCRepPart
		if err := m.Unmarshal(b); err != nil {
			return err
		}
		useFlags(&m.Flags)
		usePrincipal(m.SName, m.SRealm)
		return nil
	}, func() []seed {
		return append([]seed{vec("mit/enc_kdc_rep_part", testdata.MarshaledKRB5enc_kdc_rep_part), vec("mit/enc_kdc_rep_part-optionals-null", testdata.MarshaledKRB5enc_kdc_rep_partOptionalsNULL)},
			mintedEncKDCRepParts()...)
	})
	asn1EP("msg-apreq", []byte{0x6e}, func(b []byte) error {
		var m messages.APReq
		if err := m.Unmarshal(b); err != nil {
			return err
		}
		useFlags(&m.APOptions)
		usePrincipal(m.Ticket.SName, m.Ticket.Realm)
		return nil
	}, func() []seed {
		return append([]seed{vec("mit/ap_req", testdata.MarshaledKRB5ap_req)}, mintedAPReqs()...)
	})
	asn1EP("msg-aprep", []byte{0x6f}, func(b []byte) error {
		var m messages.APRep
		return m.Unmarshal(b)
	}, func() []seed { return []seed{vec("mit/ap_rep", testdata.MarshaledKRB5ap_rep)} })
	asn1EP("msg-encapreppart", []byte{0x7b}, func(b []byte) error {
		var m messages.EncAPRepPart
		return m.Unmarshal(b)
	}, func() []seed {
		return []seed{vec("mit/ap_rep_enc_part", testdata.MarshaledKRB5ap_rep_enc_part), vec("mit/ap_rep_enc_part-optionals-null", testdata.MarshaledKRB5ap_rep_enc_partOptionalsNULL)}
	})
	asn1EP("msg-krberror", []byte{0x7e}, func(b []byte) error {
		var m messages.KRBError
		if err := m.Unmarshal(b); err != nil {
			return err
		}
		_ = m.Error()
		usePrincipal(m.CName, m.CRealm)
		usePrincipal(m.SName, m.Realm)
		return nil
	}, func() []seed {
		return append([]seed{vec("mit/error", testdata.MarshaledKRB5error), vec("mit/error-optionals-null", testdata.MarshaledKRB5errorOptionalsNULL)}, mintedKRBErrors()...)
	})
	asn1EP("msg-krbsafe", []byte{0x74}, func(b []byte) error {
		var m messages.KRBSafe
		return m.Unmarshal(b)
	}, func() []seed {
		return []seed{vec("mit/safe", testdata.MarshaledKRB5safe), vec("mit/safe-optionals-null", testdata.MarshaledKRB5safeOptionalsNULL)}
	})
	asn1EP("msg-krbpriv", []byte{0x75}, func(b []byte) error {
		var m messages.KRBPriv
		if err := m.Unmarshal(b); err != nil {
			return err
		}
		return nil
	}, func() []seed { return []seed{vec("mit/priv", testdata.MarshaledKRB5priv)} })
	asn1EP("msg-enckrbprivpart", []byte{0x7c}, func(b []byte) error {
		var m messages.EncKrbPrivPart
		return m.Unmarshal(b)
	}, func() []seed {
		return []seed{vec("mit/enc_priv_part", testdata.MarshaledKRB5enc_priv_part), vec("mit/enc_priv_part-optionals-null", testdata.MarshaledKRB5enc_priv_partOptionalsNULL)}
	})
	asn1EP("msg-krbcred", []byte{0x76}, func(b []byte) error {
		var m messages.KRBCred
		if err := m.Unmarshal(b); err != nil {
			return err
		}
		for _, t := range m.Tickets {
			usePrincipal(t.SName, t.Realm)
		}
		return nil
	}, func() []seed { return append([]seed{vec("mit/cred", testdata.MarshaledKRB5cred)}, mintedKRBCreds()...) })
	asn1EP("msg-enckrbcredpart", []byte{0x7d}, func(b []byte) error {
		var m messages.EncKrbCredPart
		if err := m.Unmarshal(b); err != nil {
			return err
		}
		for i := range m.TicketInfo {
			useFlags(&m.TicketInfo[i].Flags)
			usePrincipal(m.TicketInfo[i].PName, m.TicketInfo[i].PRealm)
		}
		return nil
	}, func() []seed {
		return []seed{vec("mit/enc_cred_part", testdata.MarshaledKRB5enc_cred_part), vec("mit/enc_cred_part-optionals-null", testdata.MarshaledKRB5enc_cred_partOptionalsNULL)}
	})
	asn1EP("msg-ticket", []byte{0x61}, func(b []byte) error {
		var m messages.Ticket
		if err := m.Unmarshal(b); err != nil {
			return err
		}
		usePrincipal(m.SName, m.Realm)
		return nil
	}, func() []seed {
		return append([]seed{vec("mit/ticket", testdata.MarshaledKRB5ticket)}, mintedTickets()...)
	})
	asn1EP("msg-encticketpart", []byte{0x63}, func(b []byte) error {
		var m messages.EncTicketPart
		if err := m.Unmarshal(b); err != nil {
			return err
		}
		useFlags(&m.Flags)
		usePrincipal(m.CName, m.CRealm)
		return nil
	}, func() []seed {
		return append([]seed{vec("mit/enc_tkt_part", testdata.MarshaledKRB5enc_tkt_part), vec("mit/enc_tkt_part-optionals-null", testdata.MarshaledKRB5enc_tkt_partOptionalsNULL)},
			mintedEncTicketParts()...)
	})

	// types
	asn1EP("types-authenticator", []byte{0x62}, func(b []byte) error {
		var m types.Authenticator
		if err := m.Unmarshal(b); err != nil {
			return err
		}
		usePrincipal(m.CName, m.CRealm)
		return nil
	}, func() []seed {
		return append([]seed{vec("mit/authenticator", testdata.MarshaledKRB5authenticator), vec("mit/authenticator-optionals-empty", testdata.MarshaledKRB5authenticatorOptionalsEmpty),
			vec("mit/authenticator-optionals-null", testdata.MarshaledKRB5authenticatorOptionalsNULL)}, mintedAuthenticators()...)
	})
	asn1EP("types-authorizationdata", []byte{0x30}, func(b []byte) error {
		var m types.AuthorizationData
		err := m.Unmarshal(b)
		var e types.AuthorizationDataEntry
		e.Unmarshal(b)
		var k types.ADKDCIssued
		k.Unmarshal(b)
		return err
	}, func() []seed {
		return []seed{vec("mit/authorization_data", testdata.MarshaledKRB5authorization_data), vec("ms/pac-authorization-data", testdata.MarshaledPAC_AuthorizationData_MS),
			vec("gokrb5/pac-authorization-data", testdata.MarshaledPAC_AuthorizationData_GOKRB5), vec("mit/ad_kdcissued", testdata.MarshaledKRB5ad_kdcissued)}
	})
	asn1EP("types-cryptosystem", []byte{0x30}, func(b []byte) error {
		var ed types.EncryptedData
		err := ed.Unmarshal(b)
		var k types.EncryptionKey
		k.Unmarshal(b)
		var c types.Checksum
		c.Unmarshal(b)
		return err
	}, func() []seed {
		return []seed{vec("mit/enc_data", testdata.MarshaledKRB5enc_data), vec("mit/enc_data-msb-kvno", testdata.MarshaledKRB5enc_dataMSBSetkvno),
			vec("mit/enc_data-kvno-neg", testdata.MarshaledKRB5enc_dataKVNONegOne), vec("mit/keyblock", testdata.MarshaledKRB5keyblock),
			{name: "ref/checksum", in: der.Checksum.MustEncode(der.M{"cksumtype": int64(16), "checksum": []byte("123456789012")})}}
	})
	asn1EP("types-padata", []byte{0x30}, func(b []byte) error {
		var s types.PADataSequence
		err := s.Unmarshal(b)
		if err == nil {
			s.Contains(19)
			for i := range s {
				s[i].GetETypeInfo()
				s[i].GetETypeInfo2()
			}
		}
		var p types.PAData
		p.Unmarshal(b)
		var a types.PAReqEncPARep
		a.Unmarshal(b)
		var t types.PAEncTimestamp
		t.Unmarshal(b)
		var e types.PAEncTSEnc
		e.Unmarshal(b)
		var td types.TypedDataSequence
		td.Unmarshal(b)
		return err
	}, func() []seed {
		return append([]seed{vec("mit/padata_sequence", testdata.MarshaledKRB5padata_sequence), vec("mit/padata_sequence-empty", testdata.MarshaledKRB5padataSequenceEmpty),
			vec("mit/typed_data", testdata.MarshaledKRB5typed_data), vec("mit/pa_enc_ts", testdata.MarshaledKRB5pa_enc_ts), vec("mit/pa_enc_ts-no-usec", testdata.MarshaledKRB5pa_enc_tsNoUsec),
			{name: "ref/pa-req-enc-pa-rep", in: der.Checksum.MustEncode(der.M{"cksumtype": int64(16), "checksum": []byte("123456789012")})}}, mintedPADataSeqs()...)
	})
	asn1EP("types-etypeinfo", []byte{0x30}, func(b []byte) error {
		var a types.ETypeInfo
		err := a.Unmarshal(b)
		var a2 types.ETypeInfo2
		err2 := a2.Unmarshal(b)
		var e types.ETypeInfoEntry
		e.Unmarshal(b)
		var e2 types.ETypeInfo2Entry
		e2.Unmarshal(b)
		if err2 == nil {
			return nil
		}
		return err
	}, func() []seed {
		return []seed{vec("mit/etype_info", testdata.MarshaledKRB5etype_info), vec("mit/etype_info-only1", testdata.MarshaledKRB5etype_infoOnly1), vec("mit/etype_info-no-info", testdata.MarshaledKRB5etype_infoNoInfo),
			vec("mit/etype_info2", testdata.MarshaledKRB5etype_info2), vec("mit/etype_info2-only1", testdata.MarshaledKRB5etype_info2Only1)}
	})
	// a KerberosFlags BIT STRING handed to the library's flag test
	asn1EP("types-flags", []byte{0x03}, func(b []byte) error {
		var f asn1.BitString
		if _, err := asn1.Unmarshal(b, &f); err != nil {
			return err
		}
		useFlags(&f)
		return nil
	}, func() []seed {
		s := []seed{}
		for n := 0; n <= 5; n++ {
			s = append(s, seed{name: fmt.Sprintf("ref/flags-%d-octets", n), in: der.BitStr(make([]byte, n), 0)})
		}
		return append(s, seed{name: "ref/flags-7-unused", in: der.BitStr([]byte{0x40, 0x81, 0, 0x80}, 7)})
	})
	// HostAddress.GetAddress decodes the address octets as ASN.1
	register(&entryPoint{name: "types-hostaddress", group: "ASN1", prepare: simple(func(_ string, in []byte) error {
		h := types.HostAddress{AddrType: 2, Address: in}
		_, err := h.GetAddress()
		h.Equal(h)
		types.HostAddressesContains([]types.HostAddress{h}, h)
		_, err2 := types.GetHostAddress(string(in))
		if err2 == nil {
			return nil
		}
		return err
	}), structOK: func(_ string, in []byte) bool { return len(in) > 0 },
		seeds: func() []seed {
			return []seed{{name: "ref/octets-ipv4", in: der.Octets([]byte{10, 1, 2, 3})}, {name: "text/ipv4-port", in: []byte("10.1.2.3:4321")},
				{name: "text/ipv6-port", in: []byte("[2001:db8::1]:88")}, {name: "text/no-port", in: []byte("10.1.2.3")}, {name: "text/name-port", in: []byte("host.example.com:88")}}
		}, muts: []string{"none", "prefix", "subst", "bitflip", "extend", "derlen"}})

	// asn1tools length helpers (fed the bytes of a context-tagged ticket sequence by the messages package)
	register(&entryPoint{name: "asn1tools-length", group: "ASN1", prepare: simple(func(_ string, in []byte) error {
		asn1tools.GetLengthFromASN(in)
		asn1tools.GetNumberBytesInLengthHeader(in)
		return nil
	}), structOK: func(_ string, in []byte) bool { return len(in) >= 2 },
		seeds: func() []seed {
			return []seed{{name: "short-form", in: []byte{0x30, 0x05, 1, 2, 3, 4, 5}}, {name: "long-form-1", in: append([]byte{0x30, 0x81, 0x80}, make([]byte, 128)...)},
				{name: "long-form-2", in: append([]byte{0x30, 0x82, 0x01, 0x00}, make([]byte, 256)...)}, {name: "long-form-4", in: []byte{0x30, 0x84, 0, 0, 0, 1, 9}},
				vec("mit/ticket", testdata.MarshaledKRB5ticket)}
		}, muts: []string{"none", "prefix", "subst", "bitflip", "derlen"}})

	// SPNEGO / KRB5 mechanism tokens (decoding only; verification is under the "spnego-*" entry points)
	register(&entryPoint{name: "spnego-token-unmarshal", group: "SPNEGO", prepare: simple(func(_ string, in []byte) error {
		var t spnego.SPNEGOToken
		err := t.Unmarshal(in)
		var k spnego.KRB5Token
		k.Unmarshal(in)
		return err
	}), structOK: outerTag(0x60, 0xa1), seeds: func() []seed { return spnegoSeeds(0) }, muts: derMuts})
	register(&entryPoint{name: "spnego-negtoken-unmarshal", group: "SPNEGO", prepare: simple(func(_ string, in []byte) error {
		_, _, err := spnego.UnmarshalNegToken(in)
		var i spnego.NegTokenInit
		i.Unmarshal(in)
		var r spnego.NegTokenResp
		r.Unmarshal(in)
		return err
	}), structOK: outerTag(0xa0, 0xa1), seeds: negTokenSeeds, muts: derMuts})
}

func sortedKeys[V any](m map[string]V) []string {
	k := []string{}
	for s := range m {
		k = append(k, s)
	}
	sort.Strings(k)
	return k
}
