package c04

import (
	"fmt"
	"os"
	"testing"
)

// TestSeedsReport is a development aid (C04_SEEDS=1): it presents every unmutated corpus item and
// prints what gokrb5 returned, so that a seed that no longer reaches the code it was minted for is noticed.
func TestSeedsReport(t *testing.T) {
	if os.Getenv("C04_SEEDS") == "" {
		t.Skip("set C04_SEEDS=1")
	}
	for _, name := range epNames() {
		ep := registry[name]
		for _, s := range ep.seeds() {
			call, cleanup, err := ep.prepare(s.op, s.in)
			var res string
			switch {
			case err != nil:
				res = "PREPARE: " + err.Error()
			case call == nil:
				res = "skipped"
			default:
				func() {
					defer func() {
						if p := recover(); p != nil {
							res = fmt.Sprintf("PANIC: %v", p)
						}
					}()
					if e := call(); e != nil {
						res = "error: " + e.Error()
					} else {
						res = "ok"
					}
				}()
			}
			if cleanup != nil {
				cleanup()
			}
			if len(res) > 260 {
				res = res[:260]
			}
			fmt.Printf("%-28s %-44s op=%-22q nt=%-5v %s\n", name, s.name, s.op, ep.structOK(s.op, s.in), res)
		}
	}
}

// TestPlanReport (C04_PLAN=1) prints the size of the deterministic campaign per tier.
func TestPlanReport(t *testing.T) {
	if os.Getenv("C04_PLAN") == "" {
		t.Skip("set C04_PLAN=1")
	}
	for _, th := range []bool{false, true} {
		bs := campaign(1, th)
		total, net := 0, 0
		per := map[string]int{}
		for _, b := range bs {
			n := (b.Hi - b.Lo + b.Step - 1) / b.Step
			total += n
			per[b.Mut] += n
			if registry[b.EP].net {
				net += n
			}
		}
		fmt.Printf("thorough=%v batches=%d members=%d net=%d per-mutator=%v\n", th, len(bs), total, net, per)
	}
}
