package c04

import (
	"fmt"
	"os"
	"testing"
	"time"

	"verif/harness/evid"
)

// TestSeedsReport is a development aid (C04_SEEDS=1): it presents every unmutated corpus item and
// prints what gokrb5 returned, so that a seed that no longer reaches the code it was minted for is noticed.
func TestSeedsReport(t *testing.T) {
	if os.Getenv("C04_SEEDS") == "" {
		t.Skip("set C04_SEEDS=1")
	}
	for _, name := range epNames() {
		ep := registry[name]
		for _, s := range ep.seeds() {
			call, cleanup, err := ep.prepare(s.op, s.in)
			var res string
			switch {
			case err != nil:
				res = "PREPARE: " + err.Error()
			case call == nil:
				res = "skipped"
			default:
				func() {
					defer func() {
						if p := recover(); p != nil {
							res = fmt.Sprintf("PANIC: %v", p)
						}
					}()
					if e := call(); e != nil {
						res = "error: " + e.Error()
					} else {
						res = "ok"
					}
				}()
			}
			if cleanup != nil {
				cleanup()
			}
			if len(res) > 260 {
				res = res[:260]
			}
			fmt.Printf("%-28s %-44s op=%-22q nt=%-5v %s\n", name, s.name, s.op, ep.structOK(s.op, s.in), res)
		}
	}
}

// TestPlanReport (C04_PLAN=1) prints the size of the deterministic campaign per tier.
func TestPlanReport(t *testing.T) {
	if os.Getenv("C04_PLAN") == "" {
		t.Skip("set C04_PLAN=1")
	}
	for _, th := range []bool{false, true} {
		bs := campaign(1, th)
		total, net := 0, 0
		per := map[string]int{}
		for _, b := range bs {
			n := (b.Hi - b.Lo + b.Step - 1) / b.Step
			total += n
			per[b.Mut] += n
			if registry[b.EP].net {
				net += n
			}
		}
		fmt.Printf("thorough=%v batches=%d members=%d net=%d per-mutator=%v\n", th, len(bs), total, net, per)
	}
}

// TestMember (C04_MEMBER="ep|seed|mut|index") evaluates one campaign member in this process and prints timing.
func TestMember(t *testing.T) {
	spec := os.Getenv("C04_MEMBER")
	if spec == "" {
		t.Skip("set C04_MEMBER")
	}
	var epn, sn, mn string
	var idx int
	parts := splitN(spec, "|", 4)
	epn, sn, mn = parts[0], parts[1], parts[2]
	fmt.Sscanf(parts[3], "%d", &idx)
	ep := registry[epn]
	for _, s := range ep.seeds() {
		if s.name != sn {
			continue
		}
		b := batch{EP: epn, Op: s.op, Seed: s.name, Base: s.in, Mut: mn}
		c, ok := b.member(idx)
		if !ok {
			t.Fatal("no such member")
		}
		if os.Getenv("C04_VIA_EVAL") != "" {
			t0 := time.Now()
			v := Eval(c)
			fmt.Printf("Eval: ok=%v sig=%s in %v\n%s\n", v.OK, v.Sig, time.Since(t0), headOf(v.Msg, 4))
			return
		}
		v, inf := evalLocal(c)
		fmt.Printf("verdict ok=%v sig=%s outcome=%s alloc=%d dur=%v\n%s\n", v.OK, v.Sig, inf.Outcome, inf.Alloc, inf.Dur, headOf(v.Msg, 8))
	}
}

func splitN(s, sep string, n int) []string {
	out := []string{}
	for len(out) < n-1 {
		i := indexOf(s, sep)
		if i < 0 {
			break
		}
		out = append(out, s[:i])
		s = s[i+len(sep):]
	}
	return append(out, s)
}

func indexOf(s, sep string) int {
	for i := 0; i+len(sep) <= len(s); i++ {
		if s[i:i+len(sep)] == sep {
			return i
		}
	}
	return -1
}

// TestBatch (C04_BATCH="ep|seed|mut|lo|hi|step") runs one batch through a runner and prints what happened.
func TestBatch(t *testing.T) {
	spec := os.Getenv("C04_BATCH")
	if spec == "" {
		t.Skip("set C04_BATCH")
	}
	parts := splitN(spec, "|", 6)
	var lo, hi, step int
	fmt.Sscanf(parts[3], "%d", &lo)
	fmt.Sscanf(parts[4], "%d", &hi)
	fmt.Sscanf(parts[5], "%d", &step)
	ep := registry[parts[0]]
	for _, s := range ep.seeds() {
		if s.name != parts[1] {
			continue
		}
		b := batch{ID: 7, EP: parts[0], Op: s.op, Seed: s.name, Base: s.in, Mut: parts[2], Lo: lo, Hi: hi, Step: step}
		t0 := time.Now()
		r := &runner{
			onRes: func(_ batch, res *batchRes) {
				fmt.Printf("%v res from=%d n=%d fails=%d\n", time.Since(t0), res.From, len(res.Codes), len(res.Fails))
			},
			onFatal: func(_ batch, c Case, v evid.Verdict) {
				fmt.Printf("%v fatal %s ok=%v sig=%s\n", time.Since(t0), c.Src, v.OK, v.Sig)
			},
			onNote: func(l string) { fmt.Printf("%v note %s\n", time.Since(t0), l) },
			onInc:  func(f string, a ...any) { fmt.Printf("%v INC "+f+"\n", append([]any{time.Since(t0)}, a...)...) },
			hang:   &hangBook{},
		}
		r.run(b)
		r.close()
	}
}
