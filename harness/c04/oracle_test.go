package c04

import (
	"bytes"
	"fmt"
	"runtime"
	"runtime/debug"
	"runtime/metrics"
	"sort"
	"strings"
	"time"

	"verif/harness/evid"
)

// Allocation bound of the property's oracle: bytes allocated by one call.
const (
	allocBase    = 16 << 20
	allocPerByte = 1024
)

func allocBound(n int) uint64 { return allocBase + allocPerByte*uint64(n) }

// allocPerLine is the extra allowance per line of text for the krb5.conf parser: config.NewFromScanner compiles five
// regular expressions for every line it reads (about 16 KiB of short-lived garbage per line, however short the line).
// That is wasteful but linear in the input - a megabyte of newlines costs CPU time, not memory - so it is not what
// the property calls out of proportion; without the allowance a fuzzer-grown file of 3 000 empty lines trips the bound.
const allocPerLine = 32 << 10

// allocBoundFor is the bound for one case.
func allocBoundFor(c Case) uint64 {
	b := allocBound(len(c.In))
	if c.EP == "krb5conf-parse" {
		b += allocPerLine * uint64(bytes.Count(c.In, []byte{'\n'})+1)
	}
	return b
}

// slowCall is the in-process duration above which a call that did return is reported (the hang
// watchdog proper lives in the parent process, which can kill a worker; this catches calls that
// are merely absurdly slow for their input, e.g. a peer-chosen PBKDF2 iteration count).
const slowCall = 20 * time.Second

var allocSample = []metrics.Sample{{Name: "/gc/heap/allocs:bytes"}}

func heapAllocs() uint64 {
	metrics.Read(allocSample)
	if allocSample[0].Value.Kind() != metrics.KindUint64 {
		return 0
	}
	return allocSample[0].Value.Uint64()
}

// info is what the evidence counters need to know about one evaluation.
type info struct {
	NT      bool   // passed the entry point's first structural test
	Outcome string // ok | err | skip | fail
	Alloc   uint64
	Dur     time.Duration
}

// frameOf finds the innermost gokrb5 or dependency function in a list of function names ordered
// innermost first. dep reports that the function belongs to a dependency, not to gokrb5.
func frameOf(funcs []string) (frame string, dep bool) {
	for _, f := range funcs {
		switch {
		case strings.HasPrefix(f, "github.com/jcmturner/gokrb5/v8/"):
			return strings.TrimPrefix(f, "github.com/jcmturner/gokrb5/v8/"), false
		case strings.HasPrefix(f, "github.com/jcmturner/"):
			// a dependency: name the package only. Its defects cannot be repaired in this repository, and
			// "the NDR decoder sizes allocations from unchecked counts" is one defect however many of its
			// functions do it.
			f = strings.TrimPrefix(f, "github.com/jcmturner/")
			if i := strings.LastIndex(f, "/"); i >= 0 {
				if j := strings.Index(f[i:], "."); j >= 0 {
					f = f[:i+j]
				}
			} else if j := strings.Index(f, "."); j >= 0 {
				f = f[:j]
			}
			return f, true
		}
	}
	return "unknown", false
}

// stackFuncs lists the function names of one goroutine dump (text after the "goroutine N [..]:"
// line), innermost first, starting behind the last "panic(" frame when there is one.
func stackFuncs(stack string) []string {
	lines := strings.Split(stack, "\n")
	start := 0
	for i, l := range lines {
		if strings.HasPrefix(l, "panic(") {
			start = i + 1
		}
	}
	out := []string{}
	for _, l := range lines[start:] {
		if l == "" || strings.HasPrefix(l, "\t") || strings.HasPrefix(l, "goroutine ") {
			continue
		}
		if i := strings.LastIndex(l, "("); i > 0 {
			l = l[:i]
		}
		l = strings.TrimPrefix(l, "created by ")
		out = append(out, strings.TrimSpace(l))
	}
	return out
}

// sig composes a failure signature: kind, entry point, innermost frame. A root cause inside a
// dependency is the same defect whichever gokrb5 entry point routes the bytes to it, so there the
// entry point is replaced by "dep" (one defect, one signature).
func sig(kind, ep, frame string, dep bool) string {
	if dep {
		return kind + ":dep:" + frame
	}
	return kind + ":" + ep + ":" + frame
}

// evalLocal runs one Case in this process: recover, allocation delta, duration. It is what the
// worker processes and the native fuzz targets execute; Eval (the replayable evaluator) wraps it
// in a crash-isolated child.
func evalLocal(c Case) (v evid.Verdict, inf info) {
	ep, err := lookup(c.EP)
	if err != nil {
		return evid.Fail("harness:unknown-ep", "%v", err), info{Outcome: "fail"}
	}
	// capacity = length: a read past the end of the input must not be absorbed by spare capacity that
	// happens to sit behind it (whether b[2:4] of a 3-byte slice panics depends on cap(b))
	c.In = c.In[:len(c.In):len(c.In)]
	inf.NT = ep.structOK(c.Op, c.In)
	call, cleanup, err := ep.prepare(c.Op, c.In)
	if cleanup != nil {
		defer cleanup()
	}
	if err != nil {
		return evid.Fail("harness:prepare:"+c.EP, "cannot prepare the case: %v", err), info{Outcome: "fail"}
	}
	if call == nil {
		inf.Outcome = "skip"
		return evid.Pass(), inf
	}
	v, inf.Outcome, inf.Alloc, inf.Dur = measured(c, call)
	if !v.OK {
		if inf.Alloc > profileRefresh {
			refreshProfileBaseline()
		}
		return v, inf
	}
	if inf.Alloc > profileRefresh && inf.Alloc <= allocBoundFor(c) {
		refreshProfileBaseline()
	}
	if inf.Alloc > allocBoundFor(c) {
		inf.Outcome = "fail"
		// find the allocation site: run the call again with the heap profile watching
		frame, dep := allocSite(c, ep)
		return evid.Fail(sig("alloc", c.EP, frame, dep),
			"%s allocated %d bytes (%.1f MiB) for an input of %d bytes; the bound is 16 MiB + 1024 x input (+ 32 KiB per line of krb5.conf text) = %d bytes. Largest allocation site: %s\nop=%q in=%s",
			c.EP, inf.Alloc, float64(inf.Alloc)/(1<<20), len(c.In), allocBoundFor(c), frame, c.Op, clip(c.In)), inf
	}
	if inf.Dur > slowCall {
		inf.Outcome = "fail"
		return evid.Fail(sig("hang", c.EP, "returned-after-watchdog", false),
			"%s took %v for an input of %d bytes (watchdog %v)\nop=%q in=%s", c.EP, inf.Dur, len(c.In), slowCall, c.Op, clip(c.In)), inf
	}
	return v, inf
}

func measured(c Case, call func() error) (v evid.Verdict, outcome string, alloc uint64, dur time.Duration) {
	t0 := time.Now()
	a0 := heapAllocs()
	defer func() {
		if p := recover(); p != nil {
			alloc, dur = heapAllocs()-a0, time.Since(t0)
			st := string(debug.Stack())
			frame, dep := frameOf(stackFuncs(st))
			outcome = "fail"
			v = evid.Fail(sig("panic", c.EP, frame, dep), "%s panics: %v\nop=%q in=%s\n%s", c.EP, p, c.Op, clip(c.In), trimStack(st))
		}
	}()
	err := call()
	alloc, dur = heapAllocs()-a0, time.Since(t0)
	if ub, ok := err.(unboundedErr); ok {
		return evid.Fail(sig("hang", c.EP, "does-not-stop-by-itself", false), "%s: %s\nop=%q in=%s", c.EP, ub.what, c.Op, clip(c.In)), "fail", alloc, dur
	}
	if err != nil {
		return evid.Pass(), "err", alloc, dur
	}
	return evid.Pass(), "ok", alloc, dur
}

func clip(b []byte) string {
	if len(b) > 600 {
		return fmt.Sprintf("%x...(%d bytes)", b[:600], len(b))
	}
	return fmt.Sprintf("%x", b)
}

// trimStack keeps the part of a stack dump between the panic and the harness frames.
func trimStack(st string) string {
	lines := strings.Split(st, "\n")
	start := 0
	for i, l := range lines {
		if strings.HasPrefix(l, "panic(") {
			start = i
		}
	}
	out := []string{}
	for _, l := range lines[start:] {
		if strings.HasPrefix(l, "verif/harness/c04.measured") {
			break
		}
		out = append(out, l)
		if len(out) > 40 {
			break
		}
	}
	return strings.Join(out, "\n")
}

// Allocation-site attribution. The heap profile (allocations of at least runtime.MemProfileRate
// bytes are always sampled; the workers lower the rate to 64 KiB) is compared with a baseline, and
// the site with the largest growth names the failure. The baseline is renewed after every call that
// allocated more than a few MiB - whether it passed, panicked or failed - so that what has grown
// since is the work of the failing call alone, apart from small objects, which are filtered out by
// their average size. (The call is not run a second time under the profiler: a second
// multi-hundred-megabyte request in a process whose address space is capped is exactly what a worker
// should not be asked to survive.)
const profileRefresh = 4 << 20

type profEntry struct{ bytes, objects int64 }

var profBaseline = map[[32]uintptr]profEntry{}

func readProfile() map[[32]uintptr]profEntry {
	runtime.GC() // the profile is published at the end of a collection cycle
	runtime.GC()
	n, _ := runtime.MemProfile(nil, true)
	recs := make([]runtime.MemProfileRecord, n+64)
	n, ok := runtime.MemProfile(recs, true)
	if !ok {
		return nil
	}
	now := map[[32]uintptr]profEntry{}
	for _, r := range recs[:n] {
		e := now[r.Stack0]
		e.bytes += r.AllocBytes
		e.objects += r.AllocObjects
		now[r.Stack0] = e
	}
	return now
}

func refreshProfileBaseline() {
	if now := readProfile(); now != nil {
		profBaseline = now
	}
}

func allocSite(c Case, ep *entryPoint) (string, bool) {
	now := readProfile()
	if now == nil {
		return "unknown", false
	}
	type site struct {
		st    [32]uintptr
		bytes int64
		big   bool
	}
	var sites []site
	for st, e := range now {
		b := profBaseline[st]
		if db, do := e.bytes-b.bytes, e.objects-b.objects; db > 0 && do > 0 {
			sites = append(sites, site{st, db, db/do >= 1<<20})
		}
	}
	profBaseline = now
	// sites that allocated large objects first, then by volume
	sort.Slice(sites, func(i, j int) bool {
		if sites[i].big != sites[j].big {
			return sites[i].big
		}
		return sites[i].bytes > sites[j].bytes
	})
	for _, s := range sites {
		n := 0
		for n < len(s.st) && s.st[n] != 0 {
			n++
		}
		fr := runtime.CallersFrames(s.st[:n])
		var funcs []string
		for {
			f, more := fr.Next()
			funcs = append(funcs, f.Function)
			if !more {
				break
			}
		}
		if frame, dep := frameOf(funcs); frame != "unknown" {
			return frame, dep
		}
	}
	return "unknown", false
}
