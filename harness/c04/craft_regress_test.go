package c04

import (
	"encoding/binary"
	"encoding/json"
	"fmt"
	"os"
	"path/filepath"
	"testing"

	"verif/harness/ref/der"
	ref "verif/harness/ref/krbcrypto"
	"verif/harness/ref/pacfmt"
)

// TestCraftRegress is a development aid (C04_CRAFT=<directory>): it builds, by construction, one
// minimal reproducer per repaired root cause, evaluates it against the tree the package is built
// with (it must FAIL there, i.e. run it against the unrepaired tree) and writes it as a regression
// file. The files it wrote live in /verif/regress/C04 and are re-evaluated by every run.
func TestCraftRegress(t *testing.T) {
	dir := os.Getenv("C04_CRAFT")
	if dir == "" {
		t.Skip("set C04_CRAFT=<output directory>")
	}
	only := os.Getenv("C04_CRAFT_ONLY")
	os.MkdirAll(dir, 0o755)
	et := int32(ref.AES256SHA1)
	encTkt := func(edit func(m der.M)) []byte {
		m := ticketSpec(et, "plain").EncPart()
		edit(m)
		return der.EncTicketPart.MustEncode(m)
	}
	ad := func(typ int64, data []byte) []any { return []any{der.M{"ad-type": typ, "ad-data": data}} }
	pads := func(typ int64, val []byte) []byte {
		return der.PADataSeq.MustEncode([]any{der.M{"padata-type": typ, "padata-value": val}})
	}
	info2iter := func(e int32, iter uint32) []byte {
		return der.ETypeInfo2.MustEncode([]any{der.M{"etype": int64(e), "salt": wRealm + wClient, "s2kparams": binary.BigEndian.AppendUint32(nil, iter)}})
	}
	signed := signedPAC(et, wKey("svc", et).Value)
	pacWith := func(edit func(p []byte)) []byte {
		p := append([]byte{}, signed...)
		edit(p)
		return p
	}
	rich := richPAC(et, wKey("svc", et).Value)
	richBadS4U := append([]byte{}, rich...)
	if rp, err := pacfmt.Parse(rich); err == nil {
		i := pacfmt.First(rp.Entries, 11)
		richBadS4U[rp.Entries[i].Offset] = 0 // NDR common header version 0: S4U_DELEGATION_INFO does not decode
	}
	ccacheSample := ccacheSeeds()[0].in
	kp := kadminSeedsForCraft()
	emptyName := der.PrincipalName.MustEncode(der.M{"name-type": int64(2), "name-string": []any{}})
	body := reqBody(12)
	body["additional-tickets"] = der.Raw([]byte{0x30})

	cases := []struct {
		name string
		c    Case
	}{
		{"isflagset-short-bitstring-types-flags", Case{EP: "types-flags", In: der.BitStr(nil, 0)}},
		{"isflagset-short-bitstring-enc-kdc-rep-part", Case{EP: "msg-enckdcreppart", In: func() []byte {
			m := encKDCRepPart(11, et, "plain")
			m["flags"] = der.Raw(der.BitStr([]byte{0x40}, 0))
			return der.EncASRepPart.MustEncode(m)
		}()}},
		{"isflagset-short-bitstring-client-login", Case{EP: "client-as", Op: "18:fld:enc.flags", In: der.BitStr([]byte{0x40}, 0)}},
		{"isflagset-short-bitstring-ticket-valid", Case{EP: "dec-ticket", Op: "18", In: encTkt(func(m der.M) { m["flags"] = der.Raw(der.BitStr(nil, 0)) })}},
		{"getpactype-empty-ad-if-relevant", Case{EP: "dec-apreq", Op: "18:ticket", In: encTkt(func(m der.M) { m["authorization-data"] = ad(1, []byte{0x30, 0}) })}},
		{"nil-logger-undecodable-ad-if-relevant", Case{EP: "dec-apreq", Op: "18:ticket", In: encTkt(func(m der.M) { m["authorization-data"] = ad(1, []byte("junk")) })}},
		{"nil-logger-malformed-optional-pac-buffer", Case{EP: "pac-process", Op: "18", In: richBadS4U}},
		{"pac-cbuffers-count", Case{EP: "pac-type-unmarshal", In: []byte{0, 0, 0, 0x10, 0, 0, 0, 0}}},
		{"pac-cbuffers-count-in-ticket", Case{EP: "dec-ticket", Op: "18", In: encTkt(func(m der.M) {
			m["authorization-data"] = ad(1, der.AuthData.MustEncode(ad(128, []byte{0xff, 0xff, 0xff, 0xff, 0, 0, 0, 0})))
		})}},
		{"pac-buffer-bounds-size", Case{EP: "pac-process", Op: "18", In: pacWith(func(p []byte) { binary.LittleEndian.PutUint32(p[8+4:], 0xffffffff) })}},
		{"pac-buffer-bounds-offset", Case{EP: "pac-process", Op: "18", In: pacWith(func(p []byte) { binary.LittleEndian.PutUint64(p[8+8:], uint64(len(p))+8) })}},
		{"pac-buffer-bounds-offset-negative", Case{EP: "pac-process", Op: "18", In: pacWith(func(p []byte) { binary.LittleEndian.PutUint64(p[8+8:], 1<<63) })}},
		{"pac-upn-dns-info-offsets", Case{EP: "pac-upn-dns-info", In: []byte{0x10, 0, 0x10, 0, 0, 0, 0x0c, 0, 0, 0, 0, 0}}},
		{"pac-upn-dns-info-offsets-wrap", Case{EP: "pac-upn-dns-info", In: []byte{2, 0, 0xff, 0xff, 0, 0, 0x0c, 0, 0, 0, 0, 0}}},
		{"kadmin-reply-short", Case{EP: "kadmin-reply", Op: "18", In: []byte{0, 6, 0}}},
		{"kadmin-reply-message-length", Case{EP: "kadmin-reply", Op: "18", In: append([]byte{0xff, 0xff}, kp.rep[2:]...)}},
		{"kadmin-reply-aprep-length", Case{EP: "kadmin-reply", Op: "18", In: append(append([]byte{}, kp.rep[:4]...), append([]byte{0xff, 0xf0}, kp.rep[6:]...)...)}},
		{"kadmin-reply-krb-error-without-edata", Case{EP: "kadmin-reply", Op: "18", In: kp.errNoEData}},
		{"kadmin-reply-client-changepasswd", Case{EP: "client-kpasswd", Op: "18:udp", In: kp.errNoEData}},
		{"kadmin-reply-empty-user-data", Case{EP: "dec-kadmin-reply", Op: "18:user", In: []byte{}}},
		{"asn1tools-short-input", Case{EP: "asn1tools-length", In: []byte{}}},
		{"asn1tools-long-form-truncated", Case{EP: "asn1tools-length", In: []byte{0x30, 0x84, 0x01}}},
		{"ticket-sequence-short", Case{EP: "msg-kdcreqbody", In: der.KDCReqBody.MustEncode(body)}},
		{"empty-etype-info2-key-from-password", Case{EP: "crypto-key-from-password", Op: "18", In: pads(19, []byte{0x30, 0})}},
		{"empty-etype-info-key-from-password", Case{EP: "crypto-key-from-password", Op: "18", In: pads(11, []byte{0x30, 0})}},
		{"empty-etype-info2-client-preauth-required", Case{EP: "client-as", Op: "18:edata:25", In: pads(19, []byte{0x30, 0})}},
		{"empty-etype-info-client-preauth-required", Case{EP: "client-as", Op: "18:edata:25", In: pads(11, []byte{0x30, 0})}},
		{"empty-etype-info2-client-as-rep-padata", Case{EP: "client-as", Op: "18:fld:rep.padata", In: pads(19, []byte{0x30, 0})}},
		{"basic-auth-no-colon", Case{EP: "basic-auth-header", Op: "plain", In: []byte("alice")}},
		{"basic-auth-empty", Case{EP: "basic-auth-header", In: []byte{}}},
		{"tcp-reply-length-kdc", Case{EP: "client-as", Op: "18:tcp", In: []byte{0xff, 0xff, 0xff, 0xff}}},
		{"tcp-reply-length-kdc-64mib", Case{EP: "client-as", Op: "18:tcp", In: []byte{0x04, 0, 0, 0}}},
		{"tcp-reply-length-kpasswd", Case{EP: "client-kpasswd", Op: "18:tcp", In: []byte{0x7f, 0xff, 0xff, 0xff}}},
		{"ccache-empty", Case{EP: "ccache-unmarshal", In: []byte{}}},
		{"ccache-one-byte", Case{EP: "ccache-unmarshal", In: []byte{5}}},
		{"ccache-truncated", Case{EP: "ccache-unmarshal", In: ccacheSample[:100]}},
		{"ccache-header-field-length", Case{EP: "ccache-unmarshal", In: []byte{5, 4, 0, 12, 0, 1, 0xff, 0xff, 0, 0, 0, 0}}},
		{"ccache-negative-length", Case{EP: "ccache-unmarshal", In: []byte{5, 3, 0, 0, 0, 1, 0, 0, 0, 1, 0xff, 0xff, 0xff, 0xff}}},
		{"ccache-component-count", Case{EP: "ccache-unmarshal", In: []byte{5, 3, 0, 0, 0, 1, 0x7f, 0xff, 0xff, 0xff, 0, 0, 0, 0}}},
		{"ccache-address-count", Case{EP: "ccache-unmarshal", In: craftCCacheCount()}},
		{"client-empty-ticket-sname-login", Case{EP: "client-as", Op: "18:fld:tkt.sname", In: emptyName}},
		{"client-empty-ticket-sname-tgs", Case{EP: "client-tgs", Op: "18:fld:tkt.sname", In: emptyName}},
		{"s2k-iteration-limit-rfc3962", Case{EP: "crypto-key-from-password", Op: "18", In: pads(19, info2iter(18, 0xffffffff))}},
		{"s2k-iteration-limit-rfc8009-client", Case{EP: "client-as", Op: "19:edata:25", In: pads(19, info2iter(19, 0xfffffff0))}},
		{"krb5conf-one-line-realm-block", Case{EP: "krb5conf-parse", In: []byte("[libdefaults]\n default_realm = EXAMPLE.COM\n[realms]\n EXAMPLE.COM = { }\n")}},
		{"pac-credential-data-conformant-tag", Case{EP: "pac-credential-data", In: ndrCredentialData("NTLM", ntlmSupplementalCred())}},
	}
	failed := 0
	for _, k := range cases {
		if only != "" && only != k.name {
			continue
		}
		k.c.Src = "crafted/" + k.name
		v := Eval(k.c)
		if v.OK {
			t.Errorf("%s: the case does not fail on this tree", k.name)
			failed++
			continue
		}
		raw, _ := json.Marshal(k.c)
		rf := map[string]any{"property": "C04", "check": checkEnum, "sig": v.Sig, "msg": headOf(v.Msg, 12), "case": json.RawMessage(raw)}
		b, _ := json.MarshalIndent(rf, "", " ")
		if err := os.WriteFile(filepath.Join(dir, k.name+".json"), append(b, '\n'), 0o644); err != nil {
			t.Fatal(err)
		}
		fmt.Printf("%-50s %s\n", k.name, v.Sig)
	}
	if failed > 0 {
		t.Fatalf("%d crafted cases do not fail", failed)
	}
}

type kadminCraft struct{ rep, errNoEData []byte }

func kadminSeedsForCraft() kadminCraft {
	et := int32(ref.AES256SHA1)
	k := wKey("session", et)
	ke := krbError(60, nil, false)
	e := make([]byte, 6)
	binary.BigEndian.PutUint16(e, uint16(6+len(ke)))
	binary.BigEndian.PutUint16(e[2:], 1)
	return kadminCraft{rep: kpasswdReply(apRep(et, k), krbPriv(et, k, encKrbPrivPart(kpasswdResult(0, "ok")))), errNoEData: append(e, ke...)}
}

// craftCCacheCount: a version 3 cache whose one credential announces 0x7FFFFFFF addresses.
func craftCCacheCount() []byte {
	b := []byte{5, 3}
	u32 := func(v uint32) { b = binary.BigEndian.AppendUint32(b, v) }
	princ := func() {
		u32(1) // name type
		u32(1) // components
		u32(1)
		b = append(b, 'R')
		u32(1)
		b = append(b, 'a')
	}
	princ() // default principal
	princ() // client
	princ() // server
	b = append(b, 0, 18, 0, 18)
	u32(0) // key length
	u32(0)
	u32(0)
	u32(0)
	u32(0)           // times
	b = append(b, 0) // is_skey
	u32(0)           // flags
	u32(0x7fffffff)  // address count
	return b
}
