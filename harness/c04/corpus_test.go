package c04

import (
	"encoding/binary"
	"fmt"
	"sync"
	"time"

	"github.com/jcmturner/gokrb5/v8/keytab"
	"github.com/jcmturner/gokrb5/v8/test/testdata"

	"verif/harness/kgen"
	"verif/harness/mint"
	"verif/harness/ref/der"
	ref "verif/harness/ref/krbcrypto"
	"verif/harness/ref/pacfmt"
)

// The fixed world of C04: every key is a pure function of (worldSeed, name, etype) and every time
// stamp is a constant, so that a Case (entry point, op, bytes) means the same thing whenever and
// wherever it is replayed. Tickets are valid from 2024 to 2037; the entry points pass a clock skew
// of a century where gokrb5 takes one, so that the time checks never stand in front of the code
// under test.
const (
	worldSeed uint64 = 0xC04C04
	wRealm           = "EXAMPLE.COM"
	wSvc             = "HTTP/web.example.com"
	wTGS             = "krbtgt/EXAMPLE.COM"
	wClient          = "alice"
	wPassword        = "correct horse battery staple"
)

var (
	tAuth   = time.Date(2024, 1, 1, 0, 0, 0, 0, time.UTC)
	tEnd    = time.Date(2037, 1, 1, 0, 0, 0, 0, time.UTC)
	tRenew  = time.Date(2037, 6, 1, 0, 0, 0, 0, time.UTC)
	century = 100 * 365 * 24 * time.Hour
)

func wKey(name string, et int32) mint.Key {
	return mint.Key{EType: et, Value: ref.RandomKey(et, kgen.DetBytes(worldSeed, fmt.Sprintf("c04key/%s/%d", name, et), 32))}
}

func det(label string, n int) []byte { return kgen.DetBytes(worldSeed, "c04/"+label, n) }

var pwKeyCache sync.Map

// pwKey is the client's password key for an etype with the default salt and 64 iterations
// (advertised through ETYPE-INFO2 wherever a reply needs it, to keep string-to-key cheap).
func pwKey(et int32) mint.Key {
	if v, ok := pwKeyCache.Load(et); ok {
		return v.(mint.Key)
	}
	var params []byte
	if et != ref.DES3 && et != ref.RC4 {
		params = []byte{0, 0, 0, 64}
	}
	k, err := ref.StringToKey(et, wPassword, wRealm+wClient, params)
	if err != nil {
		panic("c04: s2k: " + err.Error())
	}
	key := mint.Key{EType: et, Value: k}
	pwKeyCache.Store(et, key)
	return key
}

func info2(et int32) []byte {
	e := der.M{"etype": int64(et), "salt": wRealm + wClient}
	if et != ref.DES3 && et != ref.RC4 {
		e["s2kparams"] = []byte{0, 0, 0, 64}
	}
	return der.ETypeInfo2.MustEncode([]any{e})
}

func worldKeytabEntries() []mint.KeytabEntry {
	var es []mint.KeytabEntry
	for _, et := range ref.ETypes {
		es = append(es,
			mint.KeytabEntry{Principal: wSvc, Realm: wRealm, KVNO: 3, Key: wKey("svc", et), Timestamp: 2000},
			mint.KeytabEntry{Principal: wTGS, Realm: wRealm, KVNO: 3, Key: wKey("tgs", et), Timestamp: 2000},
			mint.KeytabEntry{Principal: wClient, Realm: wRealm, KVNO: 1, Key: wKey("client", et), Timestamp: 2000})
	}
	return es
}

var (
	wktOnce sync.Once
	wkt     *keytab.Keytab
)

// worldKeytab is the service's keytab (parsed once; it is configuration, not input under test).
func worldKeytab() *keytab.Keytab {
	wktOnce.Do(func() {
		wkt = keytab.New()
		if err := wkt.Unmarshal(mint.KeytabBytes(worldKeytabEntries())); err != nil {
			panic("c04: world keytab: " + err.Error())
		}
	})
	return wkt
}

func samplePAC() []byte { return unhex(testdata.MarshaledPAC_AD_WIN2K_PAC) }

// signedPAC re-signs the captured PAC for the service key of an etype.
func signedPAC(et int32, key []byte) []byte {
	p, err := mint.ResignPAC(samplePAC(), ref.CksumForEType(et), key, false)
	if err != nil {
		panic("c04: resign: " + err.Error())
	}
	return p
}

// richPAC assembles a PAC with every buffer type gokrb5 decodes and signs it.
func richPAC(et int32, key []byte) []byte {
	src, err := pacfmt.Parse(samplePAC())
	if err != nil {
		panic("c04: sample pac: " + err.Error())
	}
	var items []pacfmt.Item
	ck := ref.CksumForEType(et)
	for i, e := range src.Entries {
		d := append([]byte{}, src.Data(i)...)
		if e.Type == 6 || e.Type == 7 {
			d = pacfmt.SignatureBuffer(ck, pacfmt.SigLen(ck), nil)
		}
		items = append(items, pacfmt.Item{Type: e.Type, Data: d})
	}
	items = append(items,
		pacfmt.Item{Type: 11, Data: ndrS4UDelegationInfo("cifs/fs.example.com", []string{"HTTP/web.example.com", "host/a.example.com"})},
		pacfmt.Item{Type: 13, Data: unhex(testdata.MarshaledPAC_ClientClaimsInfoStr)},
		pacfmt.Item{Type: 14, Data: ndrDeviceInfo()},
		pacfmt.Item{Type: 15, Data: unhex(testdata.MarshaledPAC_ClientClaimsInfoInt)},
		pacfmt.Item{Type: 2, Data: append([]byte{0, 0, 0, 0, byte(et), 0, 0, 0}, det("credinfo", 48)...)})
	b, es := pacfmt.Assemble(items, pacfmt.Layout{})
	if err := pacfmt.Sign(b, es, ck, key, ck, wKey("kdc", et).Value); err != nil {
		panic("c04: sign: " + err.Error())
	}
	return b
}

func pacETypes() []int32 {
	return []int32{ref.AES256SHA1, ref.AES128SHA1, ref.RC4, ref.AES128SHA2, ref.AES256SHA2}
}

// ticketSpec describes a world ticket. variant: plain | caddr | pac | richpac | adnest | tgs
func ticketSpec(et int32, variant string) *mint.TicketSpec {
	kv := 3
	t := &mint.TicketSpec{Realm: wRealm, SName: wSvc, SNameType: 2, KVNO: &kv, EncKey: wKey("svc", et), Usage: 2, Conf: det("tconf", 16),
		Flags: mint.Flag(1) | mint.Flag(8) | mint.Flag(9) | mint.Flag(10), Session: wKey("session", et), CRealm: wRealm, CName: wClient, CNameType: 1,
		AuthTime: tAuth, StartTime: &tAuth, EndTime: tEnd, RenewTill: &tRenew}
	switch variant {
	case "caddr":
		t.CAddr = []mint.Addr{{Type: 2, Data: []byte{10, 1, 1, 1}}, {Type: 24, Data: make([]byte, 16)}}
	case "pac":
		t.AuthData = []mint.AD{mint.PACAuthData(signedPAC(et, t.EncKey.Value))}
	case "richpac":
		t.AuthData = []mint.AD{mint.PACAuthData(richPAC(et, t.EncKey.Value))}
	case "adnest":
		inner := der.AuthData.MustEncode([]any{der.M{"ad-type": int64(141), "ad-data": []byte("x")}, der.M{"ad-type": int64(128), "ad-data": signedPAC(et, t.EncKey.Value)}})
		t.AuthData = []mint.AD{{Type: 8, Data: []byte{0x30, 0}}, {Type: 1, Data: inner}, {Type: 1, Data: []byte{0x30, 0}}}
	case "tgs":
		t.SName, t.EncKey = wTGS, wKey("tgs", et)
	}
	return t
}

func encTicketPart(et int32, variant string) []byte {
	return der.EncTicketPart.MustEncode(ticketSpec(et, variant).EncPart())
}

var ctimeCounter struct {
	sync.Mutex
	n int64
}

// uniqueCTime returns a client time no other case of this process uses, so that the process-wide
// replay cache never couples two cases.
func uniqueCTime() time.Time {
	ctimeCounter.Lock()
	defer ctimeCounter.Unlock()
	ctimeCounter.n++
	return time.Now().UTC().Truncate(time.Second).Add(time.Duration(ctimeCounter.n%999999) * time.Microsecond).Add(-time.Duration(ctimeCounter.n/999999) * time.Second)
}

func authSpec(et int32, usage uint32, variant string, ctime time.Time) *mint.AuthSpec {
	a := &mint.AuthSpec{CRealm: wRealm, CName: wClient, CNameType: 1, CTime: ctime, Key: wKey("session", et), Usage: usage, Conf: det("aconf", 16)}
	if variant == "full" {
		gss := make([]byte, 24)
		binary.LittleEndian.PutUint32(gss, 16)
		binary.LittleEndian.PutUint32(gss[20:], 0x3e)
		ck := der.M{"cksumtype": int64(0x8003), "checksum": gss}
		a.Cksum = &ck
		sk := wKey("subkey", et)
		a.SubKey = &sk
		s := uint32(0x12345678)
		a.Seq = &s
		a.AuthData = []mint.AD{{Type: 1, Data: der.AuthData.MustEncode([]any{der.M{"ad-type": int64(141), "ad-data": []byte("etypes")}})}}
	}
	return a
}

var fixedCTime = time.Date(2024, 6, 1, 12, 0, 0, 123456000, time.UTC)

func authenticatorPlain(et int32, variant string) []byte {
	return der.Authenticator.MustEncode(authSpec(et, 11, variant, fixedCTime).Value())
}

func etLabel(et int32) string { return fmt.Sprintf("etype%d", et) }

// ---------------------------------------------------------------------------------------------
// minted seeds for the plain decoders

func mintedTickets() []seed {
	s := []seed{}
	for _, et := range ref.ETypes {
		s = append(s, seed{name: "minted/ticket-" + etLabel(et), in: ticketSpec(et, "plain").Bytes()})
	}
	return s
}

func mintedEncTicketParts() []seed {
	s := []seed{}
	for _, v := range []string{"plain", "caddr", "pac", "adnest"} {
		s = append(s, seed{name: "minted/enc-ticket-part-" + v, in: encTicketPart(ref.AES256SHA1, v)})
	}
	return s
}

func mintedAuthenticators() []seed {
	return []seed{{name: "minted/authenticator-plain", in: authenticatorPlain(ref.AES256SHA1, "plain")}, {name: "minted/authenticator-full", in: authenticatorPlain(ref.AES128SHA2, "full")}}
}

func mintedAPReqs() []seed {
	s := []seed{}
	for _, et := range []int32{ref.AES256SHA1, ref.RC4, ref.DES3} {
		s = append(s, seed{name: "minted/ap-req-" + etLabel(et), in: mint.APReq(ticketSpec(et, "plain"), authSpec(et, 11, "full", fixedCTime), 0x20000000)})
	}
	return s
}

func paTimestamp(et int32) []byte {
	plain := der.PAEncTSEnc.MustEncode(der.M{"patimestamp": fixedCTime.Truncate(time.Second), "pausec": int64(123456)})
	return der.EncryptedData.MustEncode(mint.EncData(pwKey(et), 1, plain, det("paconf", 16), nil))
}

func reqBody(app int) der.M {
	b := der.M{"kdc-options": mint.Flags32(0x40810010), "realm": wRealm, "sname": der.Name(2, "krbtgt", wRealm), "till": tEnd, "rtime": tRenew,
		"nonce": int64(0x1234567), "etype": []any{int64(18), int64(17), int64(23)},
		"addresses": []any{der.M{"addr-type": int64(2), "address": []byte{10, 1, 1, 1}}}}
	if app == 10 {
		b["cname"] = der.Name(1, wClient)
	} else {
		b["sname"] = der.Name(2, "HTTP", "web.example.com")
		b["enc-authorization-data"] = mint.EncData(wKey("session", ref.AES256SHA1), 4, der.AuthData.MustEncode([]any{der.M{"ad-type": int64(1), "ad-data": []byte{0x30, 0}}}), det("eadconf", 16), nil)
		b["additional-tickets"] = []any{ticketSpec(ref.AES128SHA1, "plain").Value(), ticketSpec(ref.RC4, "tgs").Value()}
	}
	return b
}

func mintedKDCReqs(app int) []seed {
	t := der.ASReq
	pa := []any{der.M{"padata-type": int64(2), "padata-value": paTimestamp(ref.AES256SHA1)}, der.M{"padata-type": int64(149), "padata-value": []byte{}}}
	if app == 12 {
		t = der.TGSReq
		pa = []any{der.M{"padata-type": int64(1), "padata-value": mint.APReq(ticketSpec(ref.AES256SHA1, "tgs"), authSpec(ref.AES256SHA1, 7, "full", fixedCTime), 0)}}
	}
	m := der.M{"pvno": int64(5), "msg-type": int64(app), "padata": pa, "req-body": reqBody(app)}
	return []seed{{name: fmt.Sprintf("minted/kdc-req-%d", app), in: t.MustEncode(m)}}
}

func encKDCRepPart(app int, et int32, variant string) der.M {
	m := der.M{"key": der.M{"keytype": int64(et), "keyvalue": wKey("session", et).Value},
		"last-req": []any{der.M{"lr-type": int64(0), "lr-value": tAuth}},
		"nonce":    int64(0x1234567), "flags": mint.Flags32(0x40e00000), "authtime": tAuth, "starttime": tAuth, "endtime": tEnd, "renew-till": tRenew,
		"srealm": wRealm, "sname": der.Name(2, "krbtgt", wRealm)}
	if app == 13 {
		m["sname"] = der.Name(2, "HTTP", "web.example.com")
	}
	if variant == "full" {
		m["flags"] = mint.Flags32(0x40e10000) // enc-pa-rep: the client then checks the encrypted-pa-data
		m["key-expiration"] = tEnd
		m["caddr"] = []any{der.M{"addr-type": int64(2), "address": []byte{10, 1, 1, 1}}}
		m["encrypted-pa-data"] = []any{der.M{"padata-type": int64(149), "padata-value": der.Checksum.MustEncode(der.M{"cksumtype": int64(ref.CksumForEType(et)), "checksum": det("fastck", ref.CksumLen(et))})},
			der.M{"padata-type": int64(136), "padata-value": []byte{}}}
	}
	return m
}

func encRepType(app int) *der.Type {
	if app == 13 {
		return der.EncTGSRepPart
	}
	return der.EncASRepPart
}

func mintedEncKDCRepParts() []seed {
	return []seed{{name: "minted/enc-as-rep-part-full", in: der.EncASRepPart.MustEncode(encKDCRepPart(11, ref.AES256SHA1, "full"))},
		{name: "minted/enc-tgs-rep-part", in: der.EncTGSRepPart.MustEncode(encKDCRepPart(13, ref.AES128SHA2, "plain"))}}
}

// kdcRep builds an AS-REP / TGS-REP whose enc-part holds plain (encrypted under key/usage).
func kdcRep(app int, et int32, key mint.Key, usage uint32, plain []byte, padata []any, tkt der.M) []byte {
	t := der.ASRep
	if app == 13 {
		t = der.TGSRep
	}
	m := der.M{"pvno": int64(5), "msg-type": int64(app), "crealm": wRealm, "cname": der.Name(1, wClient), "ticket": tkt,
		"enc-part": mint.EncData(key, usage, plain, det("rconf", 16), nil)}
	if padata != nil {
		m["padata"] = padata
	}
	return t.MustEncode(m)
}

func mintedKDCReps(app int) []seed {
	et := int32(ref.AES256SHA1)
	if app == 11 {
		tk := ticketSpec(et, "tgs").Value()
		pa := []any{der.M{"padata-type": int64(19), "padata-value": info2(et)}, der.M{"padata-type": int64(3), "padata-value": []byte(wRealm + wClient)}}
		return []seed{{name: "minted/as-rep", in: kdcRep(11, et, pwKey(et), 3, der.EncASRepPart.MustEncode(encKDCRepPart(11, et, "full")), pa, tk)}}
	}
	return []seed{{name: "minted/tgs-rep", in: kdcRep(13, et, wKey("session", et), 8, der.EncTGSRepPart.MustEncode(encKDCRepPart(13, et, "plain")), nil, ticketSpec(et, "plain").Value())}}
}

func methodData(et int32) []byte {
	return der.PADataSeq.MustEncode([]any{
		der.M{"padata-type": int64(19), "padata-value": info2(et)},
		der.M{"padata-type": int64(11), "padata-value": der.ETypeInfo.MustEncode([]any{der.M{"etype": int64(et), "salt": []byte(wRealm + wClient)}})},
		der.M{"padata-type": int64(2), "padata-value": []byte{}},
		der.M{"padata-type": int64(3), "padata-value": []byte(wRealm + wClient)},
	})
}

func krbError(code int, edata []byte, withClient bool) []byte {
	m := der.M{"pvno": int64(5), "msg-type": int64(30), "stime": tAuth, "susec": int64(42), "error-code": int64(code), "realm": wRealm,
		"sname": der.Name(2, "krbtgt", wRealm), "e-text": "text"}
	if withClient {
		m["ctime"], m["cusec"], m["crealm"], m["cname"] = tAuth, int64(7), wRealm, der.Name(1, wClient)
	}
	if edata != nil {
		m["e-data"] = edata
	}
	return der.KRBError.MustEncode(m)
}

func mintedKRBErrors() []seed {
	return []seed{{name: "minted/krb-error-preauth-required", in: krbError(25, methodData(ref.AES256SHA1), true)},
		{name: "minted/krb-error-wrong-realm", in: krbError(68, nil, true)}, {name: "minted/krb-error-bare", in: krbError(60, nil, false)}}
}

func krbCredInfo(et int32) der.M {
	return der.M{"key": der.M{"keytype": int64(et), "keyvalue": wKey("session", et).Value}, "prealm": wRealm, "pname": der.Name(1, wClient),
		"flags": mint.Flags32(0x40800000), "authtime": tAuth, "starttime": tAuth, "endtime": tEnd, "renew-till": tRenew, "srealm": wRealm,
		"sname": der.Name(2, "krbtgt", wRealm), "caddr": []any{der.M{"addr-type": int64(2), "address": []byte{10, 1, 1, 1}}}}
}

func encKrbCredPart(et int32) []byte {
	return der.EncKrbCredPart.MustEncode(der.M{"ticket-info": []any{krbCredInfo(et), krbCredInfo(et)}, "nonce": int64(42), "timestamp": tAuth, "usec": int64(1),
		"s-address": der.M{"addr-type": int64(2), "address": []byte{10, 1, 1, 1}}, "r-address": der.M{"addr-type": int64(2), "address": []byte{10, 1, 1, 2}}})
}

func krbCred(et int32, plain []byte) []byte {
	return der.KRBCred.MustEncode(der.M{"pvno": int64(5), "msg-type": int64(22), "tickets": []any{ticketSpec(et, "tgs").Value(), ticketSpec(et, "plain").Value()},
		"enc-part": mint.EncData(wKey("session", et), 14, plain, det("credconf", 16), nil)})
}

func mintedKRBCreds() []seed {
	return []seed{{name: "minted/krb-cred", in: krbCred(ref.AES256SHA1, encKrbCredPart(ref.AES256SHA1))},
		{name: "minted/krb-cred-no-tickets", in: der.KRBCred.MustEncode(der.M{"pvno": int64(5), "msg-type": int64(22), "tickets": []any{},
			"enc-part": der.M{"etype": int64(0), "cipher": encKrbCredPart(ref.AES256SHA1)}})}}
}

func mintedPADataSeqs() []seed {
	return []seed{{name: "minted/method-data", in: methodData(ref.AES256SHA1)}, {name: "minted/method-data-rc4", in: methodData(ref.RC4)},
		{name: "minted/etype-info2-multi", in: der.ETypeInfo2.MustEncode([]any{der.M{"etype": int64(18), "salt": "s", "s2kparams": []byte{0, 0, 16, 0}}, der.M{"etype": int64(23)}})}}
}

func encKrbPrivPart(user []byte) []byte {
	return der.EncKrbPrivPart.MustEncode(der.M{"user-data": user, "timestamp": tAuth, "usec": int64(5), "seq-number": int64(77),
		"s-address": der.M{"addr-type": int64(2), "address": []byte{10, 1, 1, 1}}, "r-address": der.M{"addr-type": int64(2), "address": []byte{10, 1, 1, 2}}})
}

func krbPriv(et int32, key mint.Key, plain []byte) []byte {
	return der.KRBPriv.MustEncode(der.M{"pvno": int64(5), "msg-type": int64(21), "enc-part": mint.EncData(key, 13, plain, det("privconf", 16), nil)})
}

func apRep(et int32, key mint.Key) []byte {
	plain := der.EncAPRepPart.MustEncode(der.M{"ctime": tAuth, "cusec": int64(9), "subkey": der.M{"keytype": int64(et), "keyvalue": wKey("subkey", et).Value}, "seq-number": int64(5)})
	return der.APRep.MustEncode(der.M{"pvno": int64(5), "msg-type": int64(15), "enc-part": mint.EncData(key, 12, plain, det("aprepconf", 16), nil)})
}

// ---------------------------------------------------------------------------------------------
// SPNEGO

func krb5MechToken(tokID uint16, msg []byte) []byte {
	return der.GSSWrap(der.OIDKRB5, append([]byte{byte(tokID >> 8), byte(tokID)}, msg...))
}

func negTokenInit(mechs [][]int, mechToken []byte) []byte {
	l := []any{}
	for _, m := range mechs {
		l = append(l, m)
	}
	v := der.M{"mechTypes": l}
	if mechToken != nil {
		v["mechToken"] = mechToken
	}
	return der.Ctx(0, der.NegTokenInit.MustEncode(v))
}

func negTokenResp(state int64, mech []int, tok []byte) []byte {
	v := der.M{"negState": state}
	if mech != nil {
		v["supportedMech"] = mech
	}
	if tok != nil {
		v["responseToken"] = tok
	}
	return der.Ctx(1, der.NegTokenResp.MustEncode(v))
}

func spnegoInit(inner []byte) []byte { return der.GSSWrap(der.OIDSPNEGO, inner) }

func worldAPReq(et int32, tvariant string, ctime time.Time) []byte {
	return mint.APReq(ticketSpec(et, tvariant), authSpec(et, 11, "full", ctime), 0)
}

func negTokenSeeds() []seed {
	ap := krb5MechToken(0x0100, worldAPReq(ref.AES256SHA1, "plain", fixedCTime.Add(-time.Hour)))
	return []seed{
		{name: "minted/neg-token-init-krb5", in: negTokenInit([][]int{der.OIDKRB5, der.OIDMSKRB5, der.OIDNTLMSSP}, ap)},
		{name: "minted/neg-token-init-no-token", in: negTokenInit([][]int{der.OIDMSKRB5}, nil)},
		{name: "minted/neg-token-resp-krb5", in: negTokenResp(1, der.OIDKRB5, ap)},
		{name: "minted/neg-token-resp-accept-completed", in: negTokenResp(0, der.OIDKRB5, krb5MechToken(0x0200, apRep(ref.AES256SHA1, wKey("session", ref.AES256SHA1))))},
	}
}

// spnegoSeeds: slot keeps the authenticators of different entry points apart (the replay cache is
// process-wide), and every seed has its own client time.
func spnegoSeeds(slot int) []seed {
	ct := func(i int) time.Time { return fixedCTime.Add(time.Duration(slot*10+i) * time.Minute) }
	ap := krb5MechToken(0x0100, worldAPReq(ref.AES256SHA1, "plain", ct(0)))
	return []seed{
		{name: "minted/spnego-init-krb5", in: spnegoInit(negTokenInit([][]int{der.OIDKRB5, der.OIDMSKRB5}, ap))},
		{name: "minted/spnego-init-rc4-pac", in: spnegoInit(negTokenInit([][]int{der.OIDMSKRB5, der.OIDKRB5}, krb5MechToken(0x0100, worldAPReq(ref.RC4, "pac", ct(1)))))},
		{name: "minted/spnego-resp", in: negTokenResp(1, der.OIDKRB5, krb5MechToken(0x0100, worldAPReq(ref.AES128SHA2, "caddr", ct(2))))},
		{name: "minted/raw-krb5-ap-req", in: krb5MechToken(0x0100, worldAPReq(ref.AES128SHA1, "pac", ct(3)))},
		{name: "minted/raw-krb5-error", in: krb5MechToken(0x0300, krbError(60, nil, false))},
		{name: "minted/raw-krb5-ap-rep", in: krb5MechToken(0x0200, apRep(ref.AES256SHA1, wKey("session", ref.AES256SHA1)))},
	}
}

// ---------------------------------------------------------------------------------------------
// NDR (MS-RPCE type serialization version 1) writer for the PAC buffers the repository has no
// captured sample of. Written from [MS-RPCE] 2.2.6 and [MS-PAC] 2.9 / 2.12 / 2.6.

type ndrW struct {
	b   []byte
	ref uint32
}

func (w *ndrW) align(n int) {
	for len(w.b)%n != 0 {
		w.b = append(w.b, 0)
	}
}
func (w *ndrW) u16(v uint16) { w.align(2); w.b = binary.LittleEndian.AppendUint16(w.b, v) }
func (w *ndrW) u32(v uint32) { w.align(4); w.b = binary.LittleEndian.AppendUint32(w.b, v) }

func (w *ndrW) ptr(null bool) {
	if null {
		w.u32(0)
		return
	}
	w.ref += 4
	w.u32(0x00020000 + w.ref)
}

// ustrHdr writes the fixed part of an RPC_UNICODE_STRING, ustrBody its deferred referent.
func (w *ndrW) ustrHdr(s string) {
	n := uint16(len(pacfmt.EncodeUTF16(s)))
	w.u16(n)
	w.u16(n)
	w.ptr(false)
}
func (w *ndrW) ustrBody(s string) {
	u := pacfmt.EncodeUTF16(s)
	w.u32(uint32(len(u) / 2))
	w.u32(0)
	w.u32(uint32(len(u) / 2))
	w.b = append(w.b, u...)
}

func (w *ndrW) sid(subs ...uint32) {
	w.u32(uint32(len(subs))) // conformant max count
	w.b = append(w.b, 1, byte(len(subs)), 0, 0, 0, 0, 0, 5)
	for _, s := range subs {
		w.u32(s)
	}
}

func ndrWrap(body []byte) []byte {
	for len(body)%8 != 0 {
		body = append(body, 0)
	}
	out := []byte{0x01, 0x10, 0x08, 0x00, 0xcc, 0xcc, 0xcc, 0xcc}
	out = binary.LittleEndian.AppendUint32(out, uint32(len(body)))
	out = binary.LittleEndian.AppendUint32(out, 0)
	return append(out, body...)
}

func ndrS4UDelegationInfo(target string, services []string) []byte {
	w := &ndrW{}
	w.u32(0x00020000) // top-level referent
	w.ustrHdr(target)
	w.u32(uint32(len(services)))
	w.ptr(false)
	w.ustrBody(target)
	w.u32(uint32(len(services)))
	for _, s := range services {
		w.ustrHdr(s)
	}
	for _, s := range services {
		w.ustrBody(s)
	}
	return ndrWrap(w.b)
}

func ndrDeviceInfo() []byte {
	w := &ndrW{}
	w.u32(0x00020000)
	w.u32(1105)  // UserId
	w.u32(515)   // PrimaryGroupId
	w.ptr(false) // AccountDomainId
	w.u32(2)     // AccountGroupCount
	w.ptr(false) // AccountGroupIds
	w.u32(1)     // SidCount
	w.ptr(false) // ExtraSids
	w.u32(1)     // DomainGroupCount
	w.ptr(false) // DomainGroup
	// deferred referents in order
	w.sid(21, 111, 222, 333)
	w.u32(2)
	w.u32(513)
	w.u32(7)
	w.u32(515)
	w.u32(7)
	// ExtraSids: max count, then elements (pointer + attributes), then the SIDs
	w.u32(1)
	w.ptr(false)
	w.u32(7)
	w.sid(18, 1)
	// DomainGroup: max count, elements (DomainId pointer, GroupCount, GroupIds pointer), referents
	w.u32(1)
	w.ptr(false)
	w.u32(1)
	w.ptr(false)
	w.sid(21, 444, 555, 666)
	w.u32(1)
	w.u32(1201)
	w.u32(7)
	return ndrWrap(w.b)
}

// ndrSecPkgSupplementalCred is one SECPKG_SUPPLEMENTAL_CRED ([MS-PAC] 2.6.3).
func ndrSecPkgSupplementalCred(pkg string, cred []byte) []byte {
	w := &ndrW{}
	w.u32(0x00020000)
	w.ustrHdr(pkg)
	w.u32(uint32(len(cred)))
	w.ptr(false)
	w.ustrBody(pkg)
	w.u32(uint32(len(cred)))
	w.b = append(w.b, cred...)
	return ndrWrap(w.b)
}

// ndrCredentialData is PAC_CREDENTIAL_DATA ([MS-PAC] 2.6.2): a count and a conformant array of
// SECPKG_SUPPLEMENTAL_CRED embedded in the structure.
func ndrCredentialData(pkg string, cred []byte) []byte {
	w := &ndrW{}
	w.u32(0x00020000)
	w.u32(1) // conformant max count of the embedded array comes first
	w.u32(1) // CredentialCount
	w.ustrHdr(pkg)
	w.u32(uint32(len(cred)))
	w.ptr(false)
	w.ustrBody(pkg)
	w.u32(uint32(len(cred)))
	w.b = append(w.b, cred...)
	return ndrWrap(w.b)
}

func ntlmSupplementalCred() []byte {
	b := make([]byte, 8, 40)
	binary.LittleEndian.PutUint32(b[4:], 3)
	b = append(b, det("lmowf", 16)...)
	return append(b, det("ntowf", 16)...)
}
