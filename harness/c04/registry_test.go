package c04

import (
	"encoding/hex"
	"encoding/json"
	"fmt"
	"sort"
	"sync"
)

// HexBytes serialises to JSON as hexadecimal text, so that replay files can be read by a human.
type HexBytes []byte

func (h HexBytes) MarshalJSON() ([]byte, error) { return json.Marshal(hex.EncodeToString(h)) }
func (h *HexBytes) UnmarshalJSON(b []byte) error {
	var s string
	if err := json.Unmarshal(b, &s); err != nil {
		return err
	}
	d, err := hex.DecodeString(s)
	if err != nil {
		return err
	}
	*h = d
	return nil
}

// Case is one presentation of bytes to one externally reachable entry point.
//
// EP names the entry point of the registry, Op an entry-point specific parameter that is NOT
// attacker controlled (etype of the known key, which field of a KDC reply is replaced, ...), In
// the bytes that originate outside the process. For the "dec-*" entry points In is a plaintext:
// the entry point encrypts it under its known key (reference crypto) before it calls gokrb5, so
// that the code behind the integrity check is what is exercised. Src records where the generator
// got the bytes from; it is not used by Eval.
type Case struct {
	EP  string   `json:"ep"`
	Op  string   `json:"op,omitempty"`
	In  HexBytes `json:"in"`
	Src string   `json:"src,omitempty"`
}

// seed is one valid (or at least well-formed) input of an entry point.
type seed struct {
	name string
	op   string
	in   []byte
}

// entryPoint is one record of the registry.
type entryPoint struct {
	name  string
	group string // fuzz target the entry point belongs to
	// prepare builds everything that is not gokrb5's work (keys, encryption of a plaintext, loopback
	// servers) and returns the call into gokrb5 that is measured, plus a clean-up. A nil call with a
	// nil error means the input cannot be presented to this entry point (counted as skipped).
	prepare func(op string, in []byte) (call func() error, cleanup func(), err error)
	// structOK is the harness-side statement of the entry point's first structural test (outer
	// tag, magic, version, minimum length): a mutated input that still satisfies it reaches inner
	// logic and is counted as non-trivial. It never looks at what gokrb5 did.
	structOK func(op string, in []byte) bool
	// seeds returns the corpus (repository vectors + minted inputs).
	seeds func() []seed
	// muts lists the mutator families applied to every seed.
	muts []string
	// binary marks formats with fixed-width count/length/offset fields (enables the field mutators).
	net bool // the call opens loopback sockets (slower; smaller budgets)
	// fixedMuts: the listed mutators are all there is, also in the thorough tier (entry points whose every case costs the
	// library's own time-out on a correct tree)
	fixedMuts bool
}

var (
	regMu    sync.Mutex
	registry = map[string]*entryPoint{}
)

func register(e *entryPoint) {
	regMu.Lock()
	defer regMu.Unlock()
	if _, dup := registry[e.name]; dup {
		panic("c04: duplicate entry point " + e.name)
	}
	registry[e.name] = e
}

func lookup(name string) (*entryPoint, error) {
	regMu.Lock()
	defer regMu.Unlock()
	e := registry[name]
	if e == nil {
		return nil, fmt.Errorf("unknown entry point %q", name)
	}
	return e, nil
}

func epNames() []string {
	regMu.Lock()
	defer regMu.Unlock()
	n := []string{}
	for k := range registry {
		n = append(n, k)
	}
	sort.Strings(n)
	return n
}

func epsOfGroup(g string) []*entryPoint {
	out := []*entryPoint{}
	for _, n := range epNames() {
		if registry[n].group == g {
			out = append(out, registry[n])
		}
	}
	return out
}

func groups() []string {
	set := map[string]bool{}
	for _, n := range epNames() {
		set[registry[n].group] = true
	}
	out := []string{}
	for g := range set {
		out = append(out, g)
	}
	sort.Strings(out)
	return out
}

// simple wraps a call that needs no preparation.
func simple(f func(op string, in []byte) error) func(string, []byte) (func() error, func(), error) {
	return func(op string, in []byte) (func() error, func(), error) {
		return func() error { return f(op, in) }, nil, nil
	}
}

func always(string, []byte) bool { return true }
