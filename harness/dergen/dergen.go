// Package dergen draws values of the ref/der schema types with rapid. Values respect the
// exception in C13's statement: an OPTIONAL field is either absent or carries a non-zero,
// non-empty value, so that "absent" and "present" are distinguishable after decoding.
package dergen

import (
	"time"

	"pgregory.net/rapid"

	"verif/harness/ref/der"
)

// Opts tunes sizes.
type Opts struct {
	Huge bool // allow one >= 2^24-byte field (thorough only)
}

var intBoundaries = []int64{0, 1, -1, 127, 128, -128, -129, 255, 256, 32767, 32768, -32768, -32769, 65535, 65536,
	1<<31 - 1, -1 << 31, 1 << 31, 1<<32 - 1, 8388607, 8388608, -8388608, -8388609}

func drawInt(t *rapid.T, ty *der.Type, nonzero bool) int64 {
	if ty.Fixed != nil {
		return *ty.Fixed
	}
	lo, hi := ty.Min, ty.Max
	if lo == 0 && hi == 0 {
		lo, hi = -1<<31, 1<<31-1
	}
	var v int64
	if rapid.Bool().Draw(t, "boundary") {
		cands := []int64{lo, hi}
		for _, b := range intBoundaries {
			if b >= lo && b <= hi {
				cands = append(cands, b)
			}
		}
		v = rapid.SampledFrom(cands).Draw(t, "int")
	} else {
		v = rapid.Int64Range(lo, hi).Draw(t, "int")
	}
	if nonzero && v == 0 {
		v = 1
		if hi < 1 {
			v = lo
		}
	}
	return v
}

func drawLen(t *rapid.T, min int, o Opts) int {
	switch rapid.IntRange(0, 19).Draw(t, "lenclass") {
	case 0, 1:
		return rapid.IntRange(max(min, 120), 300).Draw(t, "len") // two length octets around 127/128/255/256
	case 2:
		return rapid.SampledFrom([]int{127, 128, 129, 255, 256, 257}).Draw(t, "len")
	case 3:
		return rapid.SampledFrom([]int{65535, 65536, 65537}).Draw(t, "len") // three length octets
	}
	return rapid.IntRange(min, 24).Draw(t, "len")
}

func drawStr(t *rapid.T, nonempty bool, o Opts) string {
	min := 0
	if nonempty {
		min = 1
	}
	n := drawLen(t, min, o)
	if n > 400 {
		b := make([]byte, n)
		seed := rapid.SliceOfN(rapid.ByteRange(0x20, 0x7e), 8, 8).Draw(t, "strseed")
		for i := range b {
			b[i] = seed[i%8]
		}
		return string(b)
	}
	return string(rapid.SliceOfN(rapid.ByteRange(0x20, 0x7e), n, n).Draw(t, "str"))
}

func drawBytes(t *rapid.T, nonempty bool, o Opts) []byte {
	min := 0
	if nonempty {
		min = 1
	}
	n := drawLen(t, min, o)
	if n > 400 {
		b := make([]byte, n)
		seed := rapid.SliceOfN(rapid.Byte(), 8, 8).Draw(t, "bytesseed")
		for i := range b {
			b[i] = seed[i%8] + byte(i/8)
		}
		return b
	}
	return rapid.SliceOfN(rapid.Byte(), n, n).Draw(t, "bytes")
}

// Time draws a KerberosTime between 1970 and 2105 (whole seconds, UTC).
func Time(t *rapid.T) time.Time {
	if rapid.IntRange(0, 5).Draw(t, "timeclass") == 0 {
		return rapid.SampledFrom([]time.Time{
			time.Unix(0, 0).UTC(), time.Unix(1, 0).UTC(), time.Unix(1<<31-1, 0).UTC(), time.Unix(1<<31, 0).UTC(),
			time.Date(1999, 12, 31, 23, 59, 59, 0, time.UTC), time.Date(2000, 2, 29, 12, 0, 0, 0, time.UTC),
			time.Date(2050, 1, 1, 0, 0, 0, 0, time.UTC), time.Date(2105, 12, 31, 23, 59, 59, 0, time.UTC),
		}).Draw(t, "time")
	}
	return time.Unix(rapid.Int64Range(1, 4291747199).Draw(t, "unix"), 0).UTC()
}

// Value draws a value of the schema type. nonzero forces a value distinguishable from "absent".
func Value(t *rapid.T, ty *der.Type, nonzero bool, o Opts) any {
	switch ty.Kind {
	case der.KInt:
		return drawInt(t, ty, nonzero)
	case der.KEnum:
		if nonzero {
			return int64(rapid.IntRange(1, 3).Draw(t, "enum"))
		}
		return int64(rapid.IntRange(0, 3).Draw(t, "enum"))
	case der.KOctets:
		return drawBytes(t, nonzero, o)
	case der.KStr:
		return drawStr(t, nonzero, o)
	case der.KTime:
		return Time(t)
	case der.KFlags:
		n := 4
		if rapid.IntRange(0, 9).Draw(t, "longflags") == 0 {
			n = rapid.IntRange(5, 8).Draw(t, "flagbytes")
		}
		var b []byte
		if rapid.Bool().Draw(t, "singleflag") {
			b = make([]byte, n)
			bit := rapid.IntRange(0, 31).Draw(t, "flagbit")
			b[bit/8] |= 0x80 >> uint(bit%8)
		} else {
			b = rapid.SliceOfN(rapid.Byte(), n, n).Draw(t, "flags")
		}
		if nonzero {
			b[0] |= 0x40
		}
		return b
	case der.KBits:
		n := rapid.IntRange(1, 4).Draw(t, "bitbytes")
		b := rapid.SliceOfN(rapid.Byte(), n, n).Draw(t, "bits")
		u := rapid.IntRange(0, 7).Draw(t, "unused")
		b[n-1] &^= byte(1<<uint(u) - 1)
		b[0] |= 0x80
		return der.Bits{B: b, Unused: u}
	case der.KOID:
		// arcs are kept below 2^28: Go's asn1 decoders (incl. gokrb5's fork) refuse larger arcs, and decoding leniency is not part of the statement
		first := rapid.IntRange(0, 2).Draw(t, "arc0")
		second := rapid.IntRange(0, 39).Draw(t, "arc1")
		arcs := []int{first, second}
		for i, n := 0, rapid.IntRange(0, 8).Draw(t, "narcs"); i < n; i++ {
			arcs = append(arcs, rapid.SampledFrom([]int{0, 1, 127, 128, 16383, 16384, 113554, 1<<28 - 1, rapid.IntRange(0, 1<<20).Draw(t, "arc")}).Draw(t, "arcv"))
		}
		return arcs
	case der.KBool:
		return rapid.Bool().Draw(t, "bool")
	case der.KSeqOf:
		min := 0
		if nonzero {
			min = 1
		}
		n := rapid.IntRange(min, 4).Draw(t, "count")
		out := []any{}
		for i := 0; i < n; i++ {
			out = append(out, Value(t, ty.Elem, false, o))
		}
		return out
	case der.KSeq:
		m := der.M{}
		for _, f := range ty.Fields {
			if f.Optional {
				if !rapid.Bool().Draw(t, "present:"+f.Name) {
					continue
				}
				m[f.Name] = Value(t, f.Type, true, o)
				continue
			}
			m[f.Name] = Value(t, f.Type, false, o)
		}
		if nonzero {
			// a present optional SEQUENCE must not be all-zero (gokrb5 treats the zero struct as absent)
			for _, f := range ty.Fields {
				if !f.Optional {
					m[f.Name] = Value(t, f.Type, true, o)
					break
				}
			}
		}
		return m
	}
	panic("dergen: bad kind")
}

// Stats classifies a value for the evidence labels.
type Stats struct {
	OptPresent, OptAbsent int
	BoundaryInt           bool
	LongElement           bool // an element longer than 127 bytes
	VeryLongElement       bool // an element longer than 65535 bytes
}

// Classify walks a value.
func Classify(ty *der.Type, v any, s *Stats) {
	switch ty.Kind {
	case der.KInt:
		i, _ := v.(int64)
		for _, b := range intBoundaries {
			if i == b && (i > 127 || i < -127) {
				s.BoundaryInt = true
			}
		}
	case der.KOctets:
		if b, _ := v.([]byte); len(b) > 127 {
			s.LongElement = true
			if len(b) > 65535 {
				s.VeryLongElement = true
			}
		}
	case der.KStr:
		if b, _ := v.(string); len(b) > 127 {
			s.LongElement = true
			if len(b) > 65535 {
				s.VeryLongElement = true
			}
		}
	case der.KSeqOf:
		for _, e := range v.([]any) {
			Classify(ty.Elem, e, s)
		}
	case der.KSeq:
		m := v.(der.M)
		for _, f := range ty.Fields {
			fv, ok := m[f.Name]
			if f.Optional {
				if ok {
					s.OptPresent++
				} else {
					s.OptAbsent++
				}
			}
			if ok {
				Classify(f.Type, fv, s)
			}
		}
	}
}
