module verif/harness

go 1.23

require (
	github.com/jcmturner/gokrb5/v8 v8.0.0
	golang.org/x/crypto v0.6.0
	pgregory.net/rapid v1.3.0
)

require (
	github.com/jcmturner/aescts/v2 v2.0.0 // indirect
	github.com/jcmturner/gofork v1.7.6 // indirect
)

replace github.com/jcmturner/gokrb5/v8 => /repo/v8
