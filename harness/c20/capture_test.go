package c20

import (
	"bytes"
	"fmt"
	"runtime/debug"
	"sort"
	"strings"
	"sync"

	"verif/harness/evid"
	"verif/harness/ref/leak"
)

// syncBuf is a goroutine-safe log sink (the client's renewal goroutine may log concurrently).
type syncBuf struct {
	mu  sync.Mutex
	buf bytes.Buffer
	off int // bytes already handed out by take
}

func (s *syncBuf) Write(p []byte) (int, error) {
	s.mu.Lock()
	defer s.mu.Unlock()
	return s.buf.Write(p)
}

// take returns what was written since the last call.
func (s *syncBuf) take() []byte {
	s.mu.Lock()
	defer s.mu.Unlock()
	b := append([]byte{}, s.buf.Bytes()[s.off:]...)
	s.off = s.buf.Len()
	return b
}

// blob is one captured output.
type blob struct {
	Step    int
	Op      string
	Surface string
	Data    []byte
	Excuse  func(h leak.Hit, secret []byte) bool // optional: a hit the statement does not cover
}

// capture accumulates everything a case produced on the listed surfaces, and the secrets that were live.
type capture struct {
	blobs    []blob
	secrets  []leak.Secret
	errs     int // non-nil errors returned
	logs     int // log lines written
	panics   []string
	surfaces map[string]int // surface -> blobs with content
	step     int
	op       string
	excused  int
}

func newCapture() *capture { return &capture{surfaces: map[string]int{}} }

func (c *capture) at(step int, op string) { c.step, c.op = step, op }

func (c *capture) add(surface string, data []byte) {
	if len(data) == 0 {
		return
	}
	c.surfaces[surface]++
	c.blobs = append(c.blobs, blob{Step: c.step, Op: c.op, Surface: surface, Data: append([]byte{}, data...)})
}

func (c *capture) addExcusable(surface string, data []byte, ex func(h leak.Hit, secret []byte) bool) {
	if len(data) == 0 {
		return
	}
	c.surfaces[surface]++
	c.blobs = append(c.blobs, blob{Step: c.step, Op: c.op, Surface: surface, Data: append([]byte{}, data...), Excuse: ex})
}

// err records a returned error in its three printed forms.
func (c *capture) err(where string, err error) {
	if err == nil {
		return
	}
	c.errs++
	c.add("error:"+where, []byte(err.Error()+"\n"+fmt.Sprintf("%+v", err)+"\n"+fmt.Sprintf("%#v", err)))
}

// log records logger output.
func (c *capture) log(which string, b []byte) {
	if len(b) == 0 {
		return
	}
	c.logs += bytes.Count(b, []byte("\n"))
	c.add("log:"+which, b)
}

// secret registers a live secret.
func (c *capture) secret(name, kind string, v []byte) {
	if len(v) == 0 {
		return
	}
	for _, s := range c.secrets {
		if bytes.Equal(s.Value, v) {
			return
		}
	}
	c.secrets = append(c.secrets, leak.Secret{Name: name, Kind: kind, Value: append([]byte{}, v...)})
}

// guard runs f, turning a panic into a recorded panic text: a panic is the subject of C04; here
// only its text is searched.
func (c *capture) guard(where string, f func()) (panicked bool) {
	defer func() {
		if p := recover(); p != nil {
			panicked = true
			st := string(debug.Stack())
			site := evid.PanicSite(st)
			c.panics = append(c.panics, where+"@"+site)
			c.add("panic-text:"+where, []byte(fmt.Sprintf("%v\n%+v\n%#v", p, p, p)))
		}
	}()
	f()
	return false
}

func excerpt(b []byte, off int) string {
	lo, hi := off-48, off+64
	if lo < 0 {
		lo = 0
	}
	if hi > len(b) {
		hi = len(b)
	}
	if off > len(b) {
		lo, hi = 0, min(len(b), 112)
	}
	return fmt.Sprintf("%q", b[lo:hi])
}

// stats of a case for counting.
type stats struct {
	Errs, Logs int
	Panics     []string
	Surfaces   []string
	Secrets    map[string]int
	Excused    int
	Labels     []string
}

func (c *capture) stats() *stats {
	st := &stats{Errs: c.errs, Logs: c.logs, Panics: c.panics, Secrets: map[string]int{}, Excused: c.excused}
	for s := range c.surfaces {
		st.Surfaces = append(st.Surfaces, s)
	}
	sort.Strings(st.Surfaces)
	for _, s := range c.secrets {
		st.Secrets[s.Kind]++
	}
	return st
}

// surfaceClass strips per-case detail from a surface name for signatures: "error:Client.Login" stays,
// a surface is already a class.
func surfaceClass(s string) string { return s }

// judge searches every captured blob for every secret that was live at any time of the case
// (retroactively: session keys and sub-keys become known only after the fact).
func (c *capture) judge(ctx string) evid.Verdict {
	set := leak.NewSet(c.secrets...)
	for _, b := range c.blobs {
		hits := set.Search(b.Data)
		for _, h := range hits {
			var sv []byte
			for _, s := range c.secrets {
				if s.Name == h.Secret {
					sv = s.Value
				}
			}
			if b.Excuse != nil && b.Excuse(h, sv) {
				c.excused++
				continue
			}
			return evid.Fail("leak:"+surfaceClass(b.Surface)+":"+h.Kind,
				"%s on surface %s (step %d, %s): %s\n%s", h, b.Surface, b.Step, b.Op, excerpt(b.Data, h.BlobOff), ctx)
		}
	}
	return evid.Pass()
}

func joinNonEmpty(sep string, parts ...string) string {
	var out []string
	for _, p := range parts {
		if p != "" {
			out = append(out, p)
		}
	}
	return strings.Join(out, sep)
}
