package c20

import (
	"bytes"
	"encoding/binary"
	"fmt"
	"io"
	"log"
	"strings"
	"sync"
	"time"

	"github.com/jcmturner/gokrb5/v8/client"
	"github.com/jcmturner/gokrb5/v8/config"
	"github.com/jcmturner/gokrb5/v8/credentials"
	"github.com/jcmturner/gokrb5/v8/keytab"

	"verif/harness/evid"
	"verif/harness/kgen"
	"verif/harness/mint"
	cf "verif/harness/ref/ccachefmt"
	ktf "verif/harness/ref/keytabfmt"
	ref "verif/harness/ref/krbcrypto"
	"verif/harness/ref/leak"
	"verif/harness/sim/kdc"
)

// FileCase is one secret-bearing file, possibly damaged, handed to the library's parser.
type FileCase struct {
	Format  string  `json:"format"`  // keytab | ccache
	Version int     `json:"version"` // keytab 1-2, ccache 1-4
	Seed    uint64  `json:"seed"`
	N       int     `json:"n"`      // entries / credentials
	ETypes  []int32 `json:"etypes"` // cycled over the entries
	Shape   string  `json:"shape"`  // keytab: plain | hole | pad | endmark; ccache: plain | addrs | conf
	Mut     string  `json:"mut"`    // none | trunc | byte
	Off     int     `json:"off"`    // trunc: length kept; byte: offset replaced
	Val     int     `json:"val"`    // byte: new value
}

var nativeOrder binary.ByteOrder = binary.NativeEndian

func (c FileCase) etype(i int) int32 {
	if len(c.ETypes) == 0 {
		return ref.AES256SHA1
	}
	return c.ETypes[i%len(c.ETypes)]
}

func (c FileCase) key(i int) []byte {
	return ref.RandomKey(c.etype(i), kgen.DetBytes(c.Seed, fmt.Sprintf("c20/file/key/%d", i), 32))
}

// pristine renders the undamaged file and lists the secrets it carries. fieldAt names the field
// holding a byte offset (labels only).
func (c FileCase) pristine() (b []byte, secrets []leak.Secret, fieldAt func(int) string, err error) {
	n := c.N
	if n < 1 {
		n = 1
	}
	switch c.Format {
	case "keytab":
		f := ktf.File{Version: c.Version}
		for i := 0; i < n; i++ {
			k := c.key(i)
			secrets = append(secrets, leak.Secret{Name: fmt.Sprintf("keytab entry %d key (etype %d)", i, c.etype(i)), Kind: "keytab-key", Value: k})
			e := &ktf.Entry{Realm: "EXAMPLE.COM", Components: []string{fmt.Sprintf("svc%d", i), fmt.Sprintf("host%d.example.com", i)},
				HasNameType: c.Version != 1, NameType: 1, Timestamp: 1700000000 + uint32(i), KVNO8: uint8(i + 1), KeyType: uint16(c.etype(i)), Key: k,
				HasKVNO32: i%2 == 0, KVNO32: uint32(i + 1)}
			rec := ktf.Record{Entry: e}
			if c.Shape == "pad" && i == 0 {
				rec.Pad = []byte{0, 0, 0, 0, 9, 9}
			}
			if c.Shape == "hole" && i == 1 {
				f.Records = append(f.Records, ktf.Record{Hole: 11})
			}
			f.Records = append(f.Records, rec)
		}
		if c.Shape == "endmark" {
			f.EndMark, f.After = true, []byte("trailing bytes after the end mark")
		}
		by, fields, e := f.BytesMap()
		if e != nil {
			return nil, nil, nil, e
		}
		return by, secrets, func(off int) string {
			n := ktf.FieldAt(fields, off)
			if i := strings.Index(n, "."); i >= 0 { // entryN.field -> field
				n = n[i+1:]
			}
			return n
		}, nil
	case "ccache":
		def := cf.Principal{NameType: 1, Realm: "EXAMPLE.COM", Comps: []string{"alice"}}
		f := &cf.File{Version: c.Version, Default: def}
		if c.Version == 4 {
			f.Header = []cf.HeaderField{cf.KDCOffsetField(3, 14)}
		}
		now := int32(time.Now().Unix())
		for i := 0; i < n; i++ {
			k := c.key(i)
			secrets = append(secrets, leak.Secret{Name: fmt.Sprintf("ccache credential %d session key (etype %d)", i, c.etype(i)), Kind: "session-key", Value: k})
			sname := fmt.Sprintf("HTTP/host%d.example.com", i)
			if i == 0 {
				sname = "krbtgt/EXAMPLE.COM"
			}
			tk := &mint.TicketSpec{Realm: "EXAMPLE.COM", SName: sname, SNameType: 2,
				EncKey: mint.Key{EType: c.etype(i), Value: ref.RandomKey(c.etype(i), kgen.DetBytes(c.Seed, fmt.Sprintf("c20/file/tktkey/%d", i), 32))},
				Conf:   kgen.DetBytes(c.Seed, "c20/file/conf", 16), Flags: mint.Flag(1) | mint.Flag(9), Session: mint.Key{EType: c.etype(i), Value: k},
				CRealm: "EXAMPLE.COM", CName: "alice", CNameType: 1, AuthTime: time.Unix(int64(now)-60, 0).UTC(), EndTime: time.Unix(int64(now)+36000, 0).UTC()}
			cr := cf.Credential{Client: def, Server: cf.Principal{NameType: 2, Realm: "EXAMPLE.COM", Comps: mint.Name(sname)},
				KeyType: int16(c.etype(i)), Key: k, AuthTime: now - 60, StartTime: now - 60, EndTime: now + 36000, RenewTill: now + 86400,
				Flags: cf.FlagForwardable | cf.FlagInitial, Addrs: []cf.Typed{}, AuthData: []cf.Typed{}, Ticket: tk.Bytes(), SecondTicket: []byte{}}
			if c.Shape == "addrs" {
				cr.Addrs = []cf.Typed{{Type: 2, Data: []byte{10, 1, 1, byte(i)}}}
				cr.AuthData = []cf.Typed{{Type: 1, Data: []byte("authorization")}}
			}
			f.Creds = append(f.Creds, cr)
		}
		if c.Shape == "conf" {
			f.Creds = append(f.Creds, cf.ConfigEntry(def, "fast_avail", "krbtgt/EXAMPLE.COM@EXAMPLE.COM", []byte("yes")))
		}
		by, e := cf.Marshal(f, nativeOrder)
		if e != nil {
			return nil, nil, nil, e
		}
		return by, secrets, func(int) string { return "" }, nil
	}
	return nil, nil, nil, fmt.Errorf("unknown format %q", c.Format)
}

// damaged applies the mutation.
func (c FileCase) damaged(b []byte) []byte {
	switch c.Mut {
	case "trunc":
		if c.Off >= 0 && c.Off <= len(b) {
			return append([]byte{}, b[:c.Off]...)
		}
	case "byte":
		if c.Off >= 0 && c.Off < len(b) {
			o := append([]byte{}, b...)
			o[c.Off] = byte(c.Val)
			return o
		}
	}
	return append([]byte{}, b...)
}

var (
	fileCfg     *config.Config
	fileCfgOnce sync.Once
)

func staticConfig() *config.Config {
	fileCfgOnce.Do(func() {
		lim := 1
		txt := kdc.ConfText(kdc.ConfOpts{DefaultRealm: "EXAMPLE.COM", NoAddresses: true, UDPPrefLimit: &lim}, map[string][]string{"EXAMPLE.COM": {"127.0.0.1:1"}})
		fileCfg, _ = config.NewFromString(txt)
	})
	return fileCfg
}

func containsAny(window []byte, names ...string) bool {
	for _, n := range names {
		if bytes.Contains([]byte(n), window) {
			return true
		}
	}
	return false
}

func evalFile(c FileCase) (evid.Verdict, *stats) {
	cap := newCapture()
	b0, secrets, fieldAt, err := c.pristine()
	if err != nil {
		return evid.Fail("harness", "cannot render the file: %v", err), cap.stats()
	}
	cap.secrets = secrets
	b := c.damaged(b0)
	field := ""
	if c.Mut != "none" {
		field = fieldAt(c.Off)
	}
	ctx := fmt.Sprintf("%s version %d, %d entries (etypes %v, shape %s), %d bytes; mutation %s at offset %d (value %#x) field %q", c.Format, c.Version, c.N, c.ETypes, c.Shape, len(b0), c.Mut, c.Off, c.Val, field)
	cfg := staticConfig()
	outcome := "parsed"
	switch c.Format {
	case "keytab":
		cap.at(1, "keytab.Unmarshal")
		kt := keytab.New()
		var perr error
		if cap.guard("Keytab.Unmarshal", func() { perr = kt.Unmarshal(b) }) {
			outcome = "panic"
		} else if perr != nil {
			outcome = "error"
			cap.err("Keytab.Unmarshal", perr)
		}
		if outcome == "parsed" {
			// a damaged file may declare key bytes to be part of a name; names are not secrets
			var names []string
			for _, e := range kt.Entries {
				names = append(names, e.Principal.Realm)
				names = append(names, e.Principal.Components...)
			}
			ex := func(h leak.Hit, secret []byte) bool {
				return c.Mut != "none" && h.SecretOff+leak.MinWindow <= len(secret) && containsAny(secret[h.SecretOff:h.SecretOff+leak.MinWindow], names...)
			}
			cap.at(2, "surfaces")
			cap.guard("Keytab.JSON", func() {
				j, err := kt.JSON()
				cap.err("Keytab.JSON", err)
				cap.addExcusable("json:Keytab.JSON", []byte(j), ex)
			})
			cap.guard("Client.Print", func() {
				cl := client.NewWithKeytab("svc0/host0.example.com", "EXAMPLE.COM", kt, cfg, client.Logger(log.New(io.Discard, "", 0)))
				j, err := cl.Credentials.JSON()
				cap.err("Credentials.JSON", err)
				cap.add("json:Credentials.JSON", []byte(j))
				g, err := cl.Credentials.Marshal()
				cap.err("Credentials.Marshal", err)
				cap.add("gob:Credentials.Marshal", g)
				var w bytes.Buffer
				derr := cl.Diagnostics(&w)
				cap.err("Client.Diagnostics", derr)
				cap.addExcusable("print:Client.Diagnostics", w.Bytes(), ex)
			})
		}
	case "ccache":
		cap.at(1, "CCache.Unmarshal")
		cc := new(credentials.CCache)
		var perr error
		if cap.guard("CCache.Unmarshal", func() { perr = cc.Unmarshal(b) }) {
			outcome = "panic"
		} else if perr != nil {
			outcome = "error"
			cap.err("CCache.Unmarshal", perr)
		}
		if outcome == "parsed" {
			names := []string{cc.DefaultPrincipal.Realm}
			names = append(names, cc.DefaultPrincipal.PrincipalName.NameString...)
			for _, cr := range cc.Credentials {
				names = append(names, cr.Client.Realm, cr.Server.Realm)
				names = append(names, cr.Client.PrincipalName.NameString...)
				names = append(names, cr.Server.PrincipalName.NameString...)
			}
			ex := func(h leak.Hit, secret []byte) bool {
				return c.Mut != "none" && h.SecretOff+leak.MinWindow <= len(secret) && containsAny(secret[h.SecretOff:h.SecretOff+leak.MinWindow], names...)
			}
			cap.at(2, "surfaces")
			cap.guard("Credentials.JSON", func() {
				cr := cc.GetClientCredentials()
				j, err := cr.JSON()
				cap.err("Credentials.JSON", err)
				cap.addExcusable("json:Credentials.JSON", []byte(j), ex)
			})
			cap.guard("NewFromCCache", func() {
				var lb syncBuf
				cl, err := client.NewFromCCache(cc, cfg, client.Logger(log.New(&lb, "", 0)))
				cap.err("NewFromCCache", err)
				if cl != nil {
					var w bytes.Buffer
					cap.guard("Client.Print", func() { cl.Print(&w) })
					cap.addExcusable("print:Client.Print", w.Bytes(), ex)
					if err == nil {
						cap.guard("Client.Destroy", func() { cl.Destroy() })
					}
				}
				cap.log("client", lb.take())
			})
		}
	default:
		return evid.Fail("harness", "unknown format %q", c.Format), cap.stats()
	}
	st := cap.stats()
	st.Labels = []string{"file:" + c.Format, fmt.Sprintf("file:%s-v%d", c.Format, c.Version), "file-mut:" + c.Mut, "file-outcome:" + c.Format + ":" + outcome, "file-shape:" + c.Format + ":" + c.Shape}
	if field != "" {
		st.Labels = append(st.Labels, "file-field:"+field)
	}
	v := cap.judge(ctx)
	st.Excused = cap.excused
	return v, st
}

// EvalFile is the pure evaluator of a FileCase.
func EvalFile(c FileCase) evid.Verdict {
	return evid.SafeEval(func() evid.Verdict { v, _ := evalFile(c); return v })
}

// needsIsolation: a replaced byte of a ccache can shift the parse so that gokrb5 reads arbitrary
// bytes as an address or authorization-data count and allocates count*32 bytes (up to 64 GiB): a
// fatal error no recover() catches (the subject of C04). Such cases run in a child process.
func (c FileCase) needsIsolation() bool { return c.Format == "ccache" && c.Mut == "byte" }

func fileNT(st *stats) string {
	if st.Errs > 0 || st.Logs > 0 || len(st.Panics) > 0 {
		return "nt"
	}
	return ""
}
