package c20

import (
	"bufio"
	"encoding/json"
	"fmt"
	"io"
	"os"
	"os/exec"
	"runtime/debug"
	"strconv"
	"strings"
	"sync"
	"syscall"

	"verif/harness/evid"
)

// Crash isolation for damaged credential caches: see FileCase.needsIsolation. The test binary is
// re-executed with C20_WORKER=1 and an address-space cap; it answers one FileCase per line. A
// worker that dies is restarted behind the case that killed it; that case is recorded as outcome
// "fatal" (C04 material: nothing was printed that could be searched).

type fileRes struct {
	V  evid.Verdict `json:"v"`
	St *stats       `json:"st"`
}

const workerBudget = 1 << 30

func vmSize() uint64 {
	b, _ := os.ReadFile("/proc/self/statm")
	f := strings.Fields(string(b))
	if len(f) == 0 {
		return 0
	}
	p, _ := strconv.ParseUint(f[0], 10, 64)
	return p * uint64(os.Getpagesize())
}

func workerMain() {
	lim := uint64(3 << 30)
	if vm := vmSize(); vm > 0 {
		lim = vm + workerBudget
	}
	syscall.Setrlimit(syscall.RLIMIT_AS, &syscall.Rlimit{Cur: lim, Max: lim})
	debug.SetMemoryLimit(256 << 20)
	in := bufio.NewReaderSize(os.Stdin, 1<<20)
	for {
		line, err := in.ReadBytes('\n')
		if len(line) > 1 {
			var c FileCase
			if json.Unmarshal(line, &c) != nil {
				os.Exit(3)
			}
			var res fileRes
			res.V = evid.SafeEval(func() evid.Verdict {
				v, st := evalFile(c)
				res.St = st
				return v
			})
			out, _ := json.Marshal(res)
			os.Stdout.Write(append(out, '\n'))
		}
		if err != nil {
			return
		}
	}
}

type tailBuf struct {
	mu sync.Mutex
	b  []byte
}

func (t *tailBuf) Write(p []byte) (int, error) {
	t.mu.Lock()
	if len(t.b) < 4096 {
		t.b = append(t.b, p...)
	}
	t.mu.Unlock()
	return len(p), nil
}

func (t *tailBuf) head() string {
	t.mu.Lock()
	defer t.mu.Unlock()
	ls := strings.SplitN(string(t.b), "\n", 3)
	if len(ls) > 2 {
		ls = ls[:2]
	}
	return strings.Join(ls, " | ")
}

type worker struct {
	cmd    *exec.Cmd
	in     io.WriteCloser
	out    *bufio.Reader
	stderr *tailBuf
}

func startWorker() (*worker, error) {
	exe, err := os.Executable()
	if err != nil {
		return nil, err
	}
	cmd := exec.Command(exe, "-test.run=^$")
	cmd.Env = append(os.Environ(), "C20_WORKER=1", "VERIF_STATUS=", "VERIF_EVIDENCE=/dev/null", "GOTRACEBACK=single", "GOMAXPROCS=2")
	w := &worker{cmd: cmd, stderr: &tailBuf{}}
	cmd.Stderr = w.stderr
	if w.in, err = cmd.StdinPipe(); err != nil {
		return nil, err
	}
	op, err := cmd.StdoutPipe()
	if err != nil {
		return nil, err
	}
	w.out = bufio.NewReaderSize(op, 1<<16)
	if err := cmd.Start(); err != nil {
		return nil, err
	}
	return w, nil
}

func (w *worker) stop() {
	if w == nil {
		return
	}
	w.in.Close()
	w.cmd.Process.Kill()
	w.cmd.Wait()
}

// isolated evaluates FileCases one at a time in a private child process.
type isolated struct {
	mu sync.Mutex
	w  *worker
}

func (p *isolated) close() {
	p.mu.Lock()
	defer p.mu.Unlock()
	p.w.stop()
	p.w = nil
}

// eval returns the verdict of one case; fatal != "" when the worker died on it (twice).
func (p *isolated) eval(c FileCase) (v evid.Verdict, st *stats, fatal string, err error) {
	p.mu.Lock()
	defer p.mu.Unlock()
	line, _ := json.Marshal(c)
	for attempt := 0; attempt < 2; attempt++ {
		if p.w == nil {
			if p.w, err = startWorker(); err != nil {
				return evid.Pass(), nil, "", err
			}
		}
		if _, werr := p.w.in.Write(append(line, '\n')); werr == nil {
			out, rerr := p.w.out.ReadBytes('\n')
			if rerr == nil {
				var res fileRes
				if json.Unmarshal(out, &res) != nil {
					p.w.stop()
					p.w = nil
					return evid.Pass(), nil, "", fmt.Errorf("file worker answered %q", out)
				}
				if res.St == nil {
					res.St = &stats{Secrets: map[string]int{}}
				}
				return res.V, res.St, "", nil
			}
		}
		p.w.cmd.Wait()
		fatal = fatalClass(p.w.stderr.head())
		p.w.stop()
		p.w = nil
	}
	return evid.Pass(), &stats{Secrets: map[string]int{}, Labels: []string{"file:" + c.Format, "file-mut:" + c.Mut, "file-outcome:" + c.Format + ":fatal:" + fatal}}, fatal, nil
}

func fatalClass(stderr string) string {
	switch {
	case strings.Contains(stderr, "out of memory"), strings.Contains(stderr, "cannot allocate"):
		return "out-of-memory"
	case strings.Contains(stderr, "stack overflow"), strings.Contains(stderr, "stack exceeds"):
		return "stack-overflow"
	case strings.Contains(stderr, "pthread_create failed"), strings.Contains(stderr, "failed to create new OS thread"):
		return "address-space-cap"
	case stderr == "":
		return "killed"
	}
	return "other"
}
