// C20 — keys and passwords never leak into diagnostics, errors, logs or encodings.
//
// High-entropy marker secrets are planted as client password, client and service long-term keys,
// session keys and sub-keys; the library is driven through successful and failing operation
// sequences (against the simulated KDC, a scripted kpasswd endpoint and the SPNEGO HTTP wrapper),
// through damaged secret-bearing files and through decrypt-then-re-encode of every message type;
// everything it prints, logs, returns as an error or puts on the wire is searched by ref/leak for
// any window of eight or more consecutive secret bytes in raw, hex, base64, number-list and
// escaped-string renderings.
package c20

import (
	"encoding/base64"
	"encoding/hex"
	"fmt"
	"os"
	"path/filepath"
	"runtime"
	"sort"
	"strings"
	"sync"
	"testing"

	"github.com/jcmturner/gokrb5/v8/keytab"
	"github.com/jcmturner/gokrb5/v8/test/testdata"
	"pgregory.net/rapid"

	"verif/harness/c01"
	"verif/harness/evid"
	cf "verif/harness/ref/ccachefmt"
	ktf "verif/harness/ref/keytabfmt"
	ref "verif/harness/ref/krbcrypto"
	"verif/harness/ref/leak"
	"verif/harness/refcheck"
)

func TestMain(m *testing.M) {
	if os.Getenv("C20_WORKER") == "1" {
		workerMain()
		os.Exit(0)
	}
	os.Exit(m.Run())
}

func repoDir() string {
	// the module replacement decides which tree is compiled in; the sample files are identical in every checkout
	if d := os.Getenv("VERIF_REPO"); d != "" {
		return d
	}
	return "/repo/v8"
}

func unhex(s string) []byte { b, _ := hex.DecodeString(s); return b }

// sampleSelfTest validates the search library on real MIT-written files from gokrb5's test data:
// the keys of a sample keytab (read by the independent reader) must be found in every rendering of
// that file and in no rendering of another principal's keytab.
func sampleSelfTest() error {
	a, err := os.ReadFile(filepath.Join(repoDir(), "test", "testdata", "testuser1.testtab"))
	if err != nil {
		a = unhex(testdata.KEYTAB_TESTUSER1_TEST_GOKRB5)
	}
	b := unhex(testdata.HTTP_KEYTAB)
	_, ea, err := ktf.Read(a)
	if err != nil || len(ea) == 0 {
		return fmt.Errorf("sample keytab not readable by the reference reader: %v", err)
	}
	set := leak.NewSet()
	for i, e := range ea {
		set.Add(leak.Secret{Name: fmt.Sprintf("sample key %d", i), Kind: "keytab-key", Value: e.Key})
	}
	if set.Len() == 0 {
		return fmt.Errorf("sample keytab holds no searchable key")
	}
	render := map[string]func([]byte) string{
		"raw": func(x []byte) string { return string(x) }, "hex": func(x []byte) string { return hex.EncodeToString(x) },
		"HEX": func(x []byte) string { return strings.ToUpper(hex.EncodeToString(x)) }, "base64": func(x []byte) string { return base64.StdEncoding.EncodeToString(x) },
		"base64url+1": func(x []byte) string { return base64.RawURLEncoding.EncodeToString(append([]byte{7}, x...)) },
		"%v":          func(x []byte) string { return fmt.Sprintf("%v", x) }, "%q": func(x []byte) string { return fmt.Sprintf("%q", x) },
		"%#v": func(x []byte) string { return fmt.Sprintf("%#v", x) }, "% x": func(x []byte) string { return fmt.Sprintf("% x", x) },
	}
	for name, f := range render {
		hits := set.SearchString("keytab: " + f(a) + " end")
		found := map[string]bool{}
		for _, h := range hits {
			found[h.Secret] = true
		}
		if len(found) != set.Len() {
			return fmt.Errorf("rendering %s of the sample keytab: %d of %d keys found", name, len(found), set.Len())
		}
		if hits := set.SearchString("keytab: " + f(b) + " end"); len(hits) != 0 {
			return fmt.Errorf("rendering %s of another principal's keytab matched: %v", name, hits)
		}
	}
	// gokrb5's own klist-style dump prints the keys by design: the search must see them there
	kt := keytab.New()
	if err := kt.Unmarshal(a); err != nil {
		return fmt.Errorf("sample keytab not readable by gokrb5: %v", err)
	}
	if hits := set.SearchString(kt.String()); len(hits) == 0 {
		return fmt.Errorf("Keytab.String() of the sample keytab prints its keys, but the search found none")
	}
	return nil
}

// positiveControl runs a real sequence and then adds two outputs that are known to leak (the
// klist-style keytab dump and a %v of a session key): the judgement must fire on both, otherwise
// the capture-and-search pipeline is broken and nothing it says can be trusted.
func positiveControl() error {
	c := SeqCase{Seed: 20, EType: ref.AES256SHA1, Ops: []Op{{Kind: "new-client", Cred: "kt"}, {Kind: "login"}, {Kind: "ticket", SPN: "known"}, {Kind: "apreq", SubKey: true}}}
	for _, probe := range []string{"none", "keytab-dump", "session-key", "password-json", "subkey-b64"} {
		cap := newCapture()
		w, err := newSeqWorld(c, cap)
		if err != nil {
			return err
		}
		for i, op := range c.Ops {
			w.run(i, op)
		}
		kt := w.cl.Credentials.Keytab()
		w.close()
		if cap.errs != 0 || len(cap.panics) != 0 {
			return fmt.Errorf("control sequence did not run cleanly: %d errors, panics %v", cap.errs, cap.panics)
		}
		if len(w.realm.Issued) < 2 {
			return fmt.Errorf("control sequence: the KDC issued %d tickets, want 2", len(w.realm.Issued))
		}
		want := ""
		switch probe {
		case "keytab-dump":
			cap.add("control", []byte(fmt.Sprintf("client keytab: %v", kt)))
			want = "keytab-key"
		case "session-key":
			cap.add("control", []byte(fmt.Sprintf("decrypt failed with key %v", w.realm.Issued[1].Session.Value)))
			want = "session-key"
		case "password-json":
			cap.add("control", []byte(fmt.Sprintf(`{"Password": %q}`, w.pw)))
			want = "password"
		case "subkey-b64":
			for _, s := range cap.secrets {
				if s.Kind == "subkey" {
					cap.add("control", []byte(base64.StdEncoding.EncodeToString(append([]byte("x"), s.Value...))))
				}
			}
			want = "subkey"
		}
		v := cap.judge("control")
		if probe == "none" {
			if !v.OK {
				return nil // a genuine leak on the control sequence: the searches below will report it properly
			}
			continue
		}
		if v.OK || v.Sig != "leak:control:"+want {
			return fmt.Errorf("positive control %s: verdict %+v, want signature leak:control:%s", probe, v, want)
		}
	}
	return nil
}

var etypes = ref.ETypes

// oddValues: see Op.Odd.
var oddValues = []string{"valid-until", "auth-time", "attr-nan", "attr-func", "kt-timestamp"}

func genOp(t *rapid.T, first bool) Op {
	kinds := []string{"login", "login", "login", "ticket", "ticket", "ticket", "apreq", "apreq", "apreq", "spnego", "spnego", "spnego",
		"minted", "minted", "minted", "kpasswd", "kpasswd", "basic", "affirm", "destroy", "new-client", "new-client"}
	op := Op{Kind: "new-client"}
	if !first {
		op.Kind = rapid.SampledFrom(kinds).Draw(t, "kind")
	}
	fault := func(exchanges ...string) {
		if rapid.IntRange(0, 9).Draw(t, "faulty") < 4 {
			op.Fault = rapid.SampledFrom(exchanges).Draw(t, "exchange") + ":" + rapid.SampledFrom(kdcFaults).Draw(t, "fault")
			if strings.HasSuffix(op.Fault, ":krb-error") {
				op.Code = rapid.SampledFrom(krbCodes).Draw(t, "code")
			}
		}
	}
	spn := func() {
		op.SPN = "known"
		if rapid.IntRange(0, 4).Draw(t, "unknown-spn") == 0 {
			op.SPN = "unknown"
		}
	}
	switch op.Kind {
	case "new-client":
		op.Cred = rapid.SampledFrom([]string{"pw", "pw", "pw", "kt", "kt", "kt", "ccache", "ccache", "pw-wrong", "kt-wrong"}).Draw(t, "cred")
		op.PA = rapid.IntRange(0, 3).Draw(t, "assume-pa") == 0
		op.FAST = rapid.IntRange(0, 3).Draw(t, "fast") == 0
		if rapid.IntRange(0, 3).Draw(t, "odd") == 0 {
			op.Odd = rapid.SampledFrom(oddValues).Draw(t, "odd-value")
		}
	case "login", "affirm":
		fault("AS")
	case "ticket":
		fault("AS", "TGS", "TGS")
		spn()
		op.PAC = rapid.SampledFrom([]string{"", "", "good", "bad"}).Draw(t, "pac")
		if rapid.IntRange(0, 4).Draw(t, "life") == 0 {
			op.Life = rapid.SampledFrom([]string{"expired-renewable", "postdated-renewable", "postdated-renewable"}).Draw(t, "lifetime")
		}
	case "apreq":
		fault("AS", "TGS", "TGS")
		spn()
		op.PAC = rapid.SampledFrom([]string{"", "", "good", "bad"}).Draw(t, "pac")
		op.SubKey = rapid.Bool().Draw(t, "subkey")
		op.Defect = rapid.SampledFrom(append([]string{"", "", ""}, apDefects...)).Draw(t, "defect")
	case "spnego":
		fault("AS", "TGS", "TGS")
		spn()
		op.PAC = rapid.SampledFrom([]string{"", "", "good", "bad"}).Draw(t, "pac")
		op.Defect = rapid.SampledFrom(append([]string{"", "", ""}, spnegoDefects...)).Draw(t, "defect")
		op.SessMgr = rapid.SampledFrom([]string{"none", "memory", "failnew"}).Draw(t, "session-mgr")
	case "minted":
		op.Defect = rapid.SampledFrom(append([]string{""}, c01.DefectNames...)).Draw(t, "defect")
		op.Via = rapid.SampledFrom([]string{"verify", "verify", "http"}).Draw(t, "via")
		op.SessMgr = rapid.SampledFrom([]string{"none", "memory", "failnew"}).Draw(t, "session-mgr")
	case "kpasswd":
		fault("AS")
		op.Reply = rapid.SampledFrom(append([]string{"success", "success", "soft-error"}, kpReplies...)).Draw(t, "reply")
	case "basic":
		fault("AS", "TGS")
		op.Cred = rapid.SampledFrom([]string{"right", "right", "wrong", "malformed"}).Draw(t, "cred")
		op.Defect = rapid.SampledFrom([]string{"", "", "kt-wrong-key", "kt-no-entry"}).Draw(t, "defect")
	}
	return op
}

func genSeq(t *rapid.T) SeqCase {
	c := SeqCase{Seed: rapid.Uint64Range(1, 1<<40).Draw(t, "seed"), EType: rapid.SampledFrom(etypes).Draw(t, "etype"),
		Preauth: rapid.Bool().Draw(t, "preauth"), UDP: rapid.IntRange(0, 3).Draw(t, "udp") == 0}
	n := rapid.IntRange(1, 7).Draw(t, "n")
	c.Ops = append(c.Ops, genOp(t, true))
	for i := 0; i < n; i++ {
		c.Ops = append(c.Ops, genOp(t, false))
	}
	return c
}

func genFile(t *rapid.T) FileCase {
	c := FileCase{Format: rapid.SampledFrom([]string{"keytab", "keytab", "ccache"}).Draw(t, "format"), Seed: rapid.Uint64Range(1, 1<<40).Draw(t, "seed"),
		N: rapid.IntRange(1, 4).Draw(t, "n")}
	c.ETypes = rapid.SliceOfN(rapid.SampledFrom(etypes), 1, 3).Draw(t, "etypes")
	if c.Format == "keytab" {
		c.Version = rapid.IntRange(1, 2).Draw(t, "version")
		c.Shape = rapid.SampledFrom([]string{"plain", "hole", "pad", "endmark"}).Draw(t, "shape")
	} else {
		c.Version = rapid.IntRange(1, 4).Draw(t, "version")
		c.Shape = rapid.SampledFrom([]string{"plain", "addrs", "conf"}).Draw(t, "shape")
	}
	b, _, _, err := c.pristine()
	if err != nil {
		t.Fatalf("harness: %v", err)
	}
	c.Mut = rapid.SampledFrom([]string{"none", "trunc", "trunc", "byte", "byte", "byte"}).Draw(t, "mut")
	switch c.Mut {
	case "trunc":
		c.Off = rapid.IntRange(0, len(b)-1).Draw(t, "off")
	case "byte":
		c.Off = rapid.IntRange(0, len(b)-1).Draw(t, "off")
		switch rapid.IntRange(0, 3).Draw(t, "valmode") {
		case 0:
			c.Val = int(b[c.Off]) ^ (1 << uint(rapid.IntRange(0, 7).Draw(t, "bit")))
		case 1:
			c.Val = rapid.SampledFrom([]int{0, 0xff, 0x7f, 0x80}).Draw(t, "edge")
		default:
			c.Val = rapid.IntRange(0, 255).Draw(t, "val")
		}
		if c.Val == int(b[c.Off]) {
			c.Val ^= 0x55
		}
	}
	return c
}

func genRem(t *rapid.T) RemCase {
	c := RemCase{Msg: rapid.SampledFrom(remMsgs).Draw(t, "msg"), EType: rapid.SampledFrom(etypes).Draw(t, "etype"), Seed: rapid.Uint64Range(1, 1<<40).Draw(t, "seed"),
		SubKey: rapid.Bool().Draw(t, "subkey"), Cred: rapid.SampledFrom([]string{"password", "keytab"}).Draw(t, "cred")}
	c.Variant = rapid.SampledFrom(remVariants(c.Msg)).Draw(t, "variant")
	return c
}

// scripted sequences: every credential kind, fault, defect and kpasswd reply at least once per etype (slice in quick).
func scriptedSeqs(r *evid.Run) []SeqCase {
	var out []SeqCase
	k := uint64(0)
	add := func(et int32, pre, udp bool, ops ...Op) {
		k++
		out = append(out, SeqCase{Seed: r.Seed()*7919 + k, EType: et, Preauth: pre, UDP: udp, Ops: ops})
	}
	for ei, et := range etypes {
		quickSlice := func(i int) bool { return r.Thorough() || (i+ei+int(r.Seed()))%3 == 0 }
		for ci, cred := range clientCreds {
			for _, pre := range []bool{false, true} {
				add(et, pre, ci%2 == 1, Op{Kind: "new-client", Cred: cred, PA: pre && ci%2 == 0, FAST: ci == 0}, Op{Kind: "login"}, Op{Kind: "ticket", SPN: "known", PAC: "good"},
					Op{Kind: "ticket", SPN: "unknown"}, Op{Kind: "apreq", SubKey: true, PAC: "good"}, Op{Kind: "spnego", SessMgr: "memory", PAC: "good"}, Op{Kind: "destroy"}, Op{Kind: "login"})
			}
		}
		// clients holding a value that encoding/json refuses, with every kind of credentials
		for oi, odd := range oddValues {
			for ci, cred := range clientCreds {
				if quickSlice(oi + ci) {
					add(et, false, false, Op{Kind: "new-client", Cred: cred, Odd: odd}, Op{Kind: "login"}, Op{Kind: "ticket", SPN: "known"}, Op{Kind: "destroy"})
				}
			}
		}
		// renewals: a cached service ticket that has expired but is renewable; a TGT in the last sixth of its life
		for li, f := range []string{"", "TGS:krb-error", "TGS:cipher-flip", "TGS:key-other"} {
			for _, life := range []string{"expired-renewable", "postdated-renewable"} {
				add(et, false, li%2 == 1, Op{Kind: "new-client", Cred: []string{"pw", "kt"}[li%2]}, Op{Kind: "login"}, Op{Kind: "ticket", SPN: "known", Life: life},
					Op{Kind: "ticket", SPN: "known", Fault: f, Code: 60}, Op{Kind: "ticket", SPN: "known"})
			}
		}
		if r.Thorough() || ei == int(r.Seed())%len(etypes) {
			for li, f := range []string{"", "TGS:cipher-flip"} {
				// the wait outlasts the TGT: the client's renewal goroutine has renewed it (or failed to, under the fault, and
				// logged the error) and is idle again before the harness touches the KDC's logs
				add(et, false, false, Op{Kind: "new-client", Cred: []string{"kt", "pw"}[li]}, Op{Kind: "login", Life: "short-renewable"}, Op{Kind: "wait", Ms: 3300, Fault: f},
					Op{Kind: "ticket", SPN: "known"}, Op{Kind: "ticket", SPN: "unknown"})
			}
		}
		// the KDC's hints ask for an iteration count outside what the client accepts: a password client refuses; then a normal login
		for fi, f := range []string{"s2k-2-24", "s2k-zero", "s2k-max"} {
			if quickSlice(fi) || ei%2 == 0 {
				add(et, fi%2 == 0, false, Op{Kind: "new-client", Cred: "pw", PA: fi == 1}, Op{Kind: "login", Fault: "AS:" + f}, Op{Kind: "ticket", SPN: "known", Fault: "AS:" + f}, Op{Kind: "login"}, Op{Kind: "destroy"})
			}
		}
		i := 0
		for _, f := range kdcFaults {
			for _, ex := range []string{"AS", "TGS"} {
				i++
				if !quickSlice(i) {
					continue
				}
				code := 0
				if f == "krb-error" {
					code = krbCodes[(i+ei)%len(krbCodes)]
				}
				add(et, i%2 == 0, i%5 == 0, Op{Kind: "new-client", Cred: []string{"pw", "kt"}[i%2]}, Op{Kind: "login", Fault: ex + ":" + f, Code: code},
					Op{Kind: "ticket", SPN: "known", Fault: ex + ":" + f, Code: code}, Op{Kind: "spnego", Fault: ex + ":" + f, Code: code, SessMgr: "none"})
			}
		}
		for ci, code := range krbCodes {
			if !quickSlice(ci) {
				continue
			}
			add(et, false, false, Op{Kind: "new-client", Cred: "pw"}, Op{Kind: "login", Fault: "AS:krb-error", Code: code}, Op{Kind: "login"}, Op{Kind: "ticket", SPN: "known", Fault: "TGS:krb-error", Code: code})
		}
		for di, d := range apDefects {
			for _, pac := range []string{"", "good", "bad"} {
				i++
				if !quickSlice(i) && pac != "bad" {
					continue
				}
				add(et, di%2 == 0, false, Op{Kind: "new-client", Cred: "pw"}, Op{Kind: "apreq", Defect: d, PAC: pac, SubKey: di%2 == 0, SPN: "known"})
			}
		}
		for di, d := range spnegoDefects {
			for _, sm := range []string{"none", "memory", "failnew"} {
				i++
				if !quickSlice(i) {
					continue
				}
				add(et, false, di%3 == 0, Op{Kind: "new-client", Cred: "kt"}, Op{Kind: "spnego", Defect: d, SessMgr: sm, SPN: "known", PAC: []string{"", "good", "bad"}[di%3]})
			}
		}
		for ri, rep := range kpReplies {
			for _, udp := range []bool{false, true} {
				i++
				if !quickSlice(i) && !(rep == "success" && !udp) {
					continue
				}
				add(et, ri%2 == 0, udp, Op{Kind: "new-client", Cred: "pw"}, Op{Kind: "kpasswd", Reply: rep}, Op{Kind: "login"}, Op{Kind: "kpasswd", Reply: "success", Fault: []string{"", "AS:cipher-flip"}[ri%2]})
			}
		}
		for bi, cred := range []string{"right", "wrong", "malformed"} {
			for _, d := range []string{"", "kt-wrong-key", "kt-no-entry"} {
				i++
				if !quickSlice(i) {
					continue
				}
				add(et, bi%2 == 0, false, Op{Kind: "basic", Cred: cred, Defect: d, PAC: []string{"", "bad"}[bi%2]})
			}
		}
		for di, d := range append([]string{""}, c01.DefectNames...) {
			if !quickSlice(di) {
				continue
			}
			add(et, false, false, Op{Kind: "minted", Defect: d, Via: []string{"verify", "http"}[di%2], SessMgr: []string{"none", "memory", "failnew"}[di%3]})
		}
	}
	return out
}

// the files whose every truncation and every single-byte damage is enumerated
func sweepFiles(r *evid.Run) []FileCase {
	files := []FileCase{
		{Format: "keytab", Version: 2, N: 3, ETypes: []int32{18, 17, 23}, Shape: "plain"},
		{Format: "keytab", Version: 1, N: 2, ETypes: []int32{20, 16}, Shape: "hole"},
		{Format: "ccache", Version: 4, N: 2, ETypes: []int32{18, 19}, Shape: "addrs"},
		{Format: "ccache", Version: 3, N: 2, ETypes: []int32{23, 17}, Shape: "conf"},
	}
	if r.Thorough() {
		files = append(files,
			FileCase{Format: "keytab", Version: 2, N: 2, ETypes: []int32{16, 19}, Shape: "pad"},
			FileCase{Format: "keytab", Version: 2, N: 2, ETypes: []int32{20}, Shape: "endmark"},
			FileCase{Format: "keytab", Version: 1, N: 3, ETypes: []int32{18, 23, 17}, Shape: "plain"},
			FileCase{Format: "ccache", Version: 1, N: 2, ETypes: []int32{18}, Shape: "plain"},
			FileCase{Format: "ccache", Version: 2, N: 2, ETypes: []int32{20, 16}, Shape: "addrs"},
			FileCase{Format: "ccache", Version: 4, N: 3, ETypes: []int32{17, 23, 19}, Shape: "conf"})
	}
	for i := range files {
		files[i].Seed = r.Seed()*104729 + uint64(i)
	}
	return files
}

func workers() int {
	n := runtime.NumCPU()
	if n > 16 {
		n = 16
	}
	if n < 2 {
		n = 2
	}
	return n
}

func TestProp(t *testing.T) {
	r := evid.Start(t, "C20", "exploration")
	evid.Reg(r, "seq", EvalSeq)
	evid.Reg(r, "enum-seq", EvalSeq)
	evid.Reg(r, "file", EvalFile)
	evid.Reg(r, "enum-file", EvalFile)
	evid.Reg(r, "remarshal", EvalRem)
	evid.Reg(r, "enum-remarshal", EvalRem)
	if r.Replay() {
		return
	}
	defer r.Finish()
	if err := refcheck.All(); err != nil {
		r.Inconclusive("reference self-test failed: %v", err)
		return
	}
	if err := leak.SelfTest(); err != nil {
		r.Inconclusive("%v", err)
		return
	}
	if err := sampleSelfTest(); err != nil {
		r.Inconclusive("leak search self-test on the sample keytabs failed: %v", err)
		return
	}
	if err := cf.SelfTest(unhex(testdata.CCACHE_TEST)); err != nil {
		r.Inconclusive("independent ccache writer self-test failed: %v", err)
		return
	}
	if err := c01.Warmup(); err != nil {
		r.Inconclusive("minting self-test failed: %v", err)
		return
	}
	if err := positiveControl(); err != nil {
		r.Inconclusive("positive control failed: %v", err)
		return
	}
	r.Regress()

	r.Assume("secrets are searched as windows of >= 8 consecutive bytes (base64: the 60 bits of such a window that whole characters determine) in raw, hex (both cases, contiguous or separated), base64 std/url at all three alignments, number lists (%v, %d, %#v, JSON arrays), backslash-escaped (%q, JSON) and lossy-JSON renderings by ref/leak, which is self-tested at start-up on planted positives, random negatives, seven-byte windows and the keys of a real MIT keytab from gokrb5's test data; a positive control (the klist-style keytab dump, a %v of a session key, a quoted password, a base64 sub-key added to a real sequence's capture) must fire before anything is judged")
	r.Assume("searching raw wire bytes for plaintext keys is sound because every encrypted part is the output of the RFC 3961/4757/8009 encryption of a confounded plaintext (pseudo-random); session keys are taken from the simulated KDC's issue log and sub-keys from the request the library built (decrypted by the reference) after the fact and searched for in everything captured before and after")
	r.Assume("not asserted (by design, per the property's soundness note): Keytab.String()/entry.String() called directly; EncKDCRepPart.Marshal and Authenticator.Marshal (the plaintext of an encrypted part, not a wire message); JSON of message structs; a panic is recorded (C04) and only its text searched; in damaged files, key bytes that the damaged file itself declares to be part of a principal name or realm (names are not secrets) are excused when they show up in name fields of Keytab.JSON / Client.Print; damaged credential caches are parsed in child processes because a shifted count field makes the parser allocate up to 64 GiB (C04)")

	// ---- operation sequences -------------------------------------------------------------------
	countSeq := func(c SeqCase, st *stats) {
		labels := append([]string{}, st.Labels...)
		for _, s := range st.Surfaces {
			labels = append(labels, "surface:"+s)
		}
		for k := range st.Secrets {
			labels = append(labels, "secret-kind:"+k)
		}
		for _, p := range st.Panics {
			labels = append(labels, "panic(C04):"+p)
		}
		r.Count(seqNT(c, st), labels...)
		if len(c.Ops) > 0 {
			r.Sample("seq/"+c.Ops[len(c.Ops)-1].Kind, c)
		}
	}
	r.Rule("seq: a world (simulated KDC realm on loopback TCP/UDP, scripted kpasswd endpoint, service keytab; etype x pre-auth policy x transport) and 2-8 operations drawn from {new-client (right/wrong password, right/wrong keytab, credential cache; assume-preauth; FAST padata), Login, AffirmLogin, GetServiceTicket (known/unknown SPN, PAC good/bad), client-built AP-REQ -> service.VerifyAPREQ (7 defects, sub-key), SetSPNEGOHeader -> SPNEGO HTTP wrapper + AcceptSecContext (7 defects, 3 session managers), reference-minted AP-REQ with one of 60 catalogued defects (direct or through the wrapper), ChangePasswd (9 scripted replies), Kerberos basic authenticator, Destroy}, each optionally with one of 13 KDC reply faults on the AS or TGS exchange; capturing loggers on client and service; after every operation Client.Print, Diagnostics, Credentials JSON+gob, Keytab/Config/Settings JSON, log lines, Error()/%+v/%#v of every error, Status.Error(), session-store bytes, HTTP response and every byte sent are captured and searched for every secret live in the sequence; non-trivial = the sequence produced >= 1 error or >= 1 log line, distinct by (world, operations, set of surfaces that had content)")
	r.Rapid("seq", r.N(1200, 10000), func(t *rapid.T) {
		c := genSeq(t)
		v, st := evalSeq(c)
		countSeq(c, st)
		if r.Judge("seq", c, v) {
			t.Fatalf("violation")
		}
	})
	seqs := scriptedSeqs(r)
	r.Rule(fmt.Sprintf("enum-seq: %d scripted sequences: per etype every credential kind x pre-auth policy through a full life cycle, every KDC fault on each exchange, KRB-ERROR codes, every AP-REQ / SPNEGO / basic-auth defect, every kpasswd reply over TCP and UDP, every catalogued minted defect (quick: a seeded third)", len(seqs)))
	evid.Parallel(len(seqs), workers(), func(i int) {
		v, st := evalSeq(seqs[i])
		countSeq(seqs[i], st)
		r.Violation("enum-seq", seqs[i], v)
	})

	// ---- marshal after decrypt -----------------------------------------------------------------
	countRem := func(c RemCase, st *stats) {
		nt := ""
		if st.Errs > 0 || st.Logs > 0 {
			nt = fmt.Sprintf("rem|%s|%d|%s|%v|%s|%s", c.Msg, c.EType, c.Variant, c.SubKey, c.Cred, strings.Join(st.Surfaces, ","))
		}
		labels := append([]string{}, st.Labels...)
		for _, s := range st.Surfaces {
			labels = append(labels, "surface:"+s)
		}
		for _, p := range st.Panics {
			labels = append(labels, "panic(C04):"+p)
		}
		r.Count(nt, labels...)
		r.Sample("rem/"+c.Msg+"/"+c.Variant, c)
	}
	r.Rule("remarshal: message {Ticket, AP-REQ, AS-REP, TGS-REP, KRB-PRIV (received and library-built, carrying a new password), KRB-CRED, kpasswd request} x etype x {decrypts, wrong key, tampered, short ciphertext, PAC good/bad} built by the reference encoder/crypto or the simulated KDC, decoded and decrypted by the library, then re-encoded; the re-encoding, every error and log line are searched; non-trivial = an error or log line was produced")
	var rems []RemCase
	for _, m := range remMsgs {
		for _, et := range etypes {
			for _, v := range remVariants(m) {
				for k, cred := range []string{"password", "keytab"} {
					if (m != "asrep" && m != "tgsrep" && m != "apreq") && k == 1 {
						continue
					}
					rems = append(rems, RemCase{Msg: m, EType: et, Seed: r.Seed()*613 + uint64(len(rems)), Variant: v, SubKey: k == 0, Cred: cred})
				}
			}
		}
	}
	evid.Parallel(len(rems), workers(), func(i int) {
		v, st := evalRem(rems[i])
		countRem(rems[i], st)
		r.Violation("enum-remarshal", rems[i], v)
	})
	r.Exhaustive("remarshal: message x etype x variant")
	r.Rapid("remarshal", r.N(600, 4000), func(t *rapid.T) {
		c := genRem(t)
		v, st := evalRem(c)
		countRem(c, st)
		if r.Judge("remarshal", c, v) {
			t.Fatalf("violation")
		}
	})

	// ---- secret-bearing files ------------------------------------------------------------------
	var fatalMu sync.Mutex
	fatals := map[string]int{}
	countFile := func(c FileCase, st *stats, fatal string) {
		labels := append([]string{}, st.Labels...)
		for _, s := range st.Surfaces {
			labels = append(labels, "surface:"+s)
		}
		for _, p := range st.Panics {
			labels = append(labels, "panic(C04):"+p)
		}
		if st.Excused > 0 {
			labels = append(labels, "excused:key-bytes-declared-a-name")
		}
		nt := ""
		if fileNT(st) != "" {
			nt = fmt.Sprintf("file|%s|%d|%d|%v|%s|%s|%d|%d", c.Format, c.Version, c.N, c.ETypes, c.Shape, c.Mut, c.Off, c.Val)
		}
		if fatal != "" {
			fatalMu.Lock()
			fatals[fatal]++
			fatalMu.Unlock()
		}
		r.Count(nt, labels...)
		r.Sample("file/"+c.Format+"/"+c.Mut, c)
	}
	r.Rule("file: keytab (versions 1-2; plain, holes, padded entries, end mark) and credential cache (versions 1-4; addresses, authorization data, configuration entries) files written by the independent writers with marker keys, undamaged, truncated or with one byte replaced, parsed by Keytab.Unmarshal / CCache.Unmarshal (+ NewFromCCache); error text (Error, %+v, %#v), panic text, and after a successful parse Keytab.JSON, Credentials JSON/gob, Client.Print/Diagnostics are searched; non-trivial = the parse or a later step returned an error or panicked")
	iso := &isolated{}
	defer iso.close()
	r.Rapid("file", r.N(4000, 20000), func(t *rapid.T) {
		c := genFile(t)
		var v evid.Verdict
		var st *stats
		fatal := ""
		if c.needsIsolation() {
			var err error
			v, st, fatal, err = iso.eval(c)
			if err != nil {
				r.Inconclusive("file worker: %v", err)
				t.Fatalf("harness: %v", err)
			}
		} else {
			v, st = evalFile(c)
		}
		countFile(c, st, fatal)
		if r.Judge("file", c, v) {
			t.Fatalf("violation")
		}
	})
	files := sweepFiles(r)
	var inproc, isolatedCases []FileCase
	for _, f := range files {
		b, _, _, err := f.pristine()
		if err != nil {
			r.Inconclusive("cannot render sweep file: %v", err)
			return
		}
		c := f
		c.Mut = "none"
		inproc = append(inproc, c)
		for off := 0; off < len(b); off++ {
			c := f
			c.Mut, c.Off = "trunc", off
			inproc = append(inproc, c)
			vals := []int{int(b[off]) ^ 0x01, int(b[off]) ^ 0x80, 0x00, 0xff}
			if r.Thorough() {
				vals = append(vals, int(b[off])^0x10, 0x7f, int(b[off])+1&0xff, 0x20)
			}
			seen := map[int]bool{int(b[off]): true}
			for _, v := range vals {
				if seen[v] {
					continue
				}
				seen[v] = true
				c := f
				c.Mut, c.Off, c.Val = "byte", off, v
				if c.needsIsolation() {
					isolatedCases = append(isolatedCases, c)
				} else {
					inproc = append(inproc, c)
				}
			}
		}
		r.Exhaustive(fmt.Sprintf("file: every truncation offset and every offset x {^01,^80,00,ff} of %s v%d n=%d shape=%s (%d bytes)", f.Format, f.Version, f.N, f.Shape, len(b)))
	}
	evid.Parallel(len(inproc), workers(), func(i int) {
		v, st := evalFile(inproc[i])
		countFile(inproc[i], st, "")
		r.Violation("enum-file", inproc[i], v)
	})
	nw := workers()
	var wg sync.WaitGroup
	for k := 0; k < nw; k++ {
		wg.Add(1)
		go func(k int) {
			defer wg.Done()
			p := &isolated{}
			defer p.close()
			for i := k; i < len(isolatedCases); i += nw {
				v, st, fatal, err := p.eval(isolatedCases[i])
				if err != nil {
					r.Inconclusive("file worker: %v", err)
					return
				}
				countFile(isolatedCases[i], st, fatal)
				r.Violation("enum-file", isolatedCases[i], v)
			}
		}(k)
	}
	wg.Wait()
	if len(fatals) > 0 {
		ks := []string{}
		for k, n := range fatals {
			ks = append(ks, fmt.Sprintf("%s x%d", k, n))
		}
		sort.Strings(ks)
		r.Extra("ccache_parses_that_killed_the_worker_process", strings.Join(ks, ", ")+" (C04 material: fatal allocation from a shifted count field; nothing was printed that could leak)")
	}
}
