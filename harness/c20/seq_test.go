package c20

import (
	"bytes"
	"encoding/base64"
	"encoding/binary"
	"errors"
	"fmt"
	"log"
	"math"
	"net/http"
	"net/http/httptest"
	"os"
	"strings"
	"sync"
	"sync/atomic"
	"time"

	"github.com/jcmturner/goidentity/v6"
	"github.com/jcmturner/gokrb5/v8/client"
	"github.com/jcmturner/gokrb5/v8/config"
	"github.com/jcmturner/gokrb5/v8/credentials"
	"github.com/jcmturner/gokrb5/v8/crypto"
	"github.com/jcmturner/gokrb5/v8/keytab"
	"github.com/jcmturner/gokrb5/v8/messages"
	"github.com/jcmturner/gokrb5/v8/service"
	"github.com/jcmturner/gokrb5/v8/spnego"
	"github.com/jcmturner/gokrb5/v8/types"

	"verif/harness/c01"
	"verif/harness/evid"
	"verif/harness/kgen"
	"verif/harness/mint"
	cf "verif/harness/ref/ccachefmt"
	"verif/harness/ref/der"
	ref "verif/harness/ref/krbcrypto"
	"verif/harness/sim/kdc"
)

// Op is one operation of a sequence.
type Op struct {
	Kind    string `json:"kind"`                     // new-client login affirm ticket apreq spnego minted kpasswd basic destroy
	Cred    string `json:"cred,omitempty"`           // new-client: pw pw-wrong kt kt-wrong ccache; basic: right wrong malformed
	PA      bool   `json:"assume_preauth,omitempty"` // new-client
	FAST    bool   `json:"fast,omitempty"`           // new-client: leave the PA-FX-FAST negotiation padata on
	Odd     string `json:"odd,omitempty"`            // new-client: a caller-supplied value no JSON rendering can hold: valid-until | auth-time (year 10000) | attr-nan | attr-func | kt-timestamp (keytab entry stamped year 10000)
	SPN     string `json:"spn,omitempty"`            // known | unknown
	Fault   string `json:"fault,omitempty"`          // "<AS|TGS>:<name>": how the KDC reply of that exchange is damaged during this op
	Code    int    `json:"code,omitempty"`           // fault krb-error: the code
	Defect  string `json:"defect,omitempty"`         // apreq/spnego: service-side or transport defect; minted: a defect of the c01 catalogue
	Reply   string `json:"reply,omitempty"`          // kpasswd: what the scripted kpasswd endpoint answers
	SubKey  bool   `json:"subkey,omitempty"`         // apreq: authenticator with a sub-key
	PAC     string `json:"pac,omitempty"`            // ticket/apreq/spnego: the service ticket carries a PAC: good | bad (signature)
	SessMgr string `json:"session_mgr,omitempty"`    // spnego/minted: none | memory | failnew
	Via     string `json:"via,omitempty"`            // minted: verify | http
	Life    string `json:"life,omitempty"`           // login/ticket: lifetime the KDC gives the next ticket: expired-renewable | postdated-renewable | short-renewable
	Ms      int    `json:"ms,omitempty"`             // wait: milliseconds
}

// SeqCase is an operation sequence in one world.
type SeqCase struct {
	Seed    uint64 `json:"seed"`
	EType   int32  `json:"etype"`
	Preauth bool   `json:"preauth_required"`
	UDP     bool   `json:"udp"` // default udp_preference_limit (UDP first) instead of TCP only
	Ops     []Op   `json:"ops"`
}

var kdcFaults = []string{"s2k-2-24", "s2k-zero", "s2k-max", "krb-error", "cipher-flip", "cipher-trunc", "cipher-empty", "reply-trunc", "reply-garbage", "reply-empty", "key-other",
	"nonce", "cname-other", "crealm-other", "sname-other", "srealm-other"}
var krbCodes = []int{6, 7, 12, 14, 18, 23, 24, 25, 31, 37, 41, 52, 60, 68}
var apDefects = []string{"", "kt-wrong-key", "kt-no-entry", "tamper", "trunc", "replay", "require-addr"}
var spnegoDefects = []string{"", "kt-wrong-key", "kt-no-entry", "header-trunc", "header-garbage", "no-header", "replay"}
var kpReplies = []string{"success", "soft-error", "krb-error", "wrong-key", "truncated", "garbage", "garbage-v1", "short", "empty"}
var clientCreds = []string{"pw", "pw-wrong", "kt", "kt-wrong", "ccache"}

const (
	svcSPN     = "HTTP/web.example.com"
	unknownSPN = "HTTP/nosuch.example.com"
	seqRealm   = "EXAMPLE.COM"
)

type memSM struct {
	mu      sync.Mutex
	failNew bool
	stored  [][]byte
}

func (s *memSM) New(w http.ResponseWriter, r *http.Request, k string, v []byte) error {
	s.mu.Lock()
	defer s.mu.Unlock()
	if s.failNew {
		return errors.New("session store unavailable")
	}
	s.stored = append(s.stored, append([]byte{}, v...))
	http.SetCookie(w, &http.Cookie{Name: "sid", Value: fmt.Sprintf("sess-%d", len(s.stored))})
	return nil
}

func (s *memSM) Get(r *http.Request, k string) ([]byte, error) {
	return nil, errors.New("no such session")
}

type seqWorld struct {
	savedPolicy *kdc.Policy // the realm's policy while a fault has changed it
	c           SeqCase
	cap         *capture
	world       *kdc.World
	realm       *kdc.Realm
	srv         *kdc.Server
	kpEP        []*kdc.Endpoint
	cfg         *config.Config
	ip          string

	pw, wrongpw string
	alice, svc  *kdc.Principal
	otherKey    []byte // a key that is nobody's: wrong keytabs hold it

	cl     *client.Client
	clOpts []func(*client.Settings)
	clog   syncBuf
	slog   syncBuf

	seenDone   int
	issuedDone int

	kpMu   sync.Mutex
	kpMode string
	kpSeen [][]byte
	kpSub  [][]byte
	npw    int
	labels []string
}

func (w *seqWorld) label(l string) { w.labels = append(w.labels, l) }

var ipCounter atomic.Uint32

// ownIP returns a loopback address of the 127.130-229.x.x range that no other case of this process
// uses; the starting point depends on the process id so that checks running at the same time in
// other processes (which use 127.1-120.x.x or another slice of this range) do not collide.
func ownIP() string {
	n := uint32(os.Getpid())*7919 + ipCounter.Add(1)
	return fmt.Sprintf("127.%d.%d.%d", 130+(n>>16)%100, (n>>8)&0xff, 1+n&0xff%254)
}

func newSeqWorld(c SeqCase, cap *capture) (*seqWorld, error) {
	var err error
	for attempt := 0; attempt < 25; attempt++ { // "address already in use": try another address
		var w *seqWorld
		if w, err = newSeqWorldAt(c, cap, ownIP()); err == nil {
			return w, nil
		}
		if !strings.Contains(err.Error(), "listen") {
			break
		}
	}
	return nil, err
}

func newSeqWorldAt(c SeqCase, cap *capture, ip string) (*seqWorld, error) {
	w := &seqWorld{c: c, cap: cap, ip: ip}
	w.world = kdc.NewWorld(c.Seed)
	w.realm = w.world.AddRealm(seqRealm, kdc.Policy{ETypes: []int32{c.EType}, TicketEType: c.EType, PreauthRequired: c.Preauth})
	w.pw, w.wrongpw = markerPassword(c.Seed, "alice"), markerPassword(c.Seed, "alice-wrong")
	w.alice = w.realm.AddClient("alice", w.pw, nil, 64)
	w.svc = w.realm.AddService(svcSPN)
	w.realm.AddService("kadmin/changepw")
	w.otherKey = markerKey(c.Seed, "nobody", c.EType)
	kaddr, paddr := w.ip+":8890", w.ip+":8464"
	opts := kdc.ConfOpts{DefaultRealm: seqRealm, ETypes: etypeNames[c.EType], NoAddresses: true,
		Extra: fmt.Sprintf("  allow_weak_crypto = true\n  preferred_preauth_types = %d\n", c.EType)}
	udp := kdc.Refuses
	if c.UDP {
		udp = kdc.Answers
	} else {
		lim := 1
		opts.UDPPrefLimit = &lim
	}
	txt := kdc.ConfText(opts, map[string][]string{seqRealm: {kaddr}})
	txt = strings.Replace(txt, "  kdc = "+kaddr+"\n", "  kdc = "+kaddr+"\n  kpasswd_server = "+paddr+"\n", 1)
	cfg, err := config.NewFromString(txt)
	if err != nil {
		return nil, fmt.Errorf("config: %v", err)
	}
	w.cfg = cfg
	w.srv = kdc.NewServer(w.realm, w.ip, 8890, udp, kdc.Answers, "k")
	if err := w.srv.Start(); err != nil {
		w.srv.Stop()
		return nil, fmt.Errorf("listen: %v", err)
	}
	protos := []string{"tcp"}
	if c.UDP {
		protos = append(protos, "udp")
	}
	for _, p := range protos {
		ep := &kdc.Endpoint{Proto: p, Addr: paddr, Beh: kdc.Answers, Handler: w.kpasswd}
		if err := ep.Start(); err != nil {
			w.srv.Stop()
			for _, e := range w.kpEP {
				e.Stop()
			}
			return nil, fmt.Errorf("listen kpasswd: %v", err)
		}
		w.kpEP = append(w.kpEP, ep)
	}
	cap.secret("client password", "password", []byte(w.pw))
	cap.secret("client long-term key", "keytab-key", w.realm.Key(w.alice, c.EType).Value)
	cap.secret("service long-term key", "keytab-key", w.realm.Key(w.svc, c.EType).Value)
	return w, nil
}

func (w *seqWorld) close() {
	if w.cl != nil {
		w.cap.guard("Client.Destroy", func() { w.cl.Destroy() })
	}
	w.srv.Stop()
	for _, e := range w.kpEP {
		e.Stop()
	}
}

func svcKeytab(entries ...mint.KeytabEntry) (*keytab.Keytab, error) {
	kt := keytab.New()
	return kt, kt.Unmarshal(mint.KeytabBytes(entries))
}

// serviceKeytab is the keytab the service runs with: right, with a wrong key, or without an entry for the service.
func (w *seqWorld) serviceKeytab(defect string) (*keytab.Keytab, error) {
	et := w.c.EType
	decoy := mint.KeytabEntry{Principal: "host/web.example.com", Realm: seqRealm, KVNO: 2, Key: mint.Key{EType: et, Value: markerKey(w.c.Seed, "decoy-host", et)}, Timestamp: 900}
	w.cap.secret("decoy service keytab key", "keytab-key", decoy.Key.Value)
	switch defect {
	case "kt-wrong-key":
		w.cap.secret("wrong service keytab key", "keytab-key", w.otherKey)
		return svcKeytab(decoy, mint.KeytabEntry{Principal: svcSPN, Realm: seqRealm, KVNO: 2, Key: mint.Key{EType: et, Value: w.otherKey}, Timestamp: 1000})
	case "kt-no-entry":
		return svcKeytab(decoy)
	}
	return svcKeytab(decoy, mint.KeytabEntry{Principal: svcSPN, Realm: seqRealm, KVNO: 2, Key: w.realm.Key(w.svc, et), Timestamp: 1000})
}

// setFault installs the reply hook for one op.
func (w *seqWorld) setFault(op Op) {
	switch op.Life {
	case "expired-renewable": // the next GetServiceTicket finds the cached ticket expired but renewable and renews it
		w.realm.PushLife(kdc.Life{StartOff: -time.Hour, EndOff: -2 * time.Second, RenewOff: time.Hour})
	case "postdated-renewable": // the next GetServiceTicket finds the cached ticket not yet valid but renewable and renews it
		w.realm.PushLife(kdc.Life{StartOff: 40 * time.Second, EndOff: time.Hour, RenewOff: 2 * time.Hour})
	case "short-renewable": // a TGT that enters the last sixth of its life within two seconds: the next use renews it
		w.realm.PushLife(kdc.Life{StartOff: 0, EndOff: 3 * time.Second, RenewOff: time.Hour})
	}
	ex, name, _ := strings.Cut(op.Fault, ":")
	if raw, ok := map[string][]byte{"s2k-2-24": {1, 0, 0, 0}, "s2k-zero": {0, 0, 0, 0}, "s2k-max": {0xff, 0xff, 0xff, 0xff}}[name]; ok && ex == "AS" {
		// the KDC asks for pre-authentication and advertises an iteration count outside what a client accepts: the client
		// has to refuse, and its refusal must not show what it was about to derive the key from
		w.savedPolicy = &kdc.Policy{}
		*w.savedPolicy = w.realm.Policy
		w.realm.Policy.PreauthRequired, w.realm.Policy.InfoParamsRaw = true, raw
	}
	seed := w.c.Seed
	w.realm.Mutate = func(x *kdc.ReplyCtx) {
		if op.PAC != "" && x.Kind == "TGS" && x.Ticket.SName == svcSPN && x.Ticket.EncKey.EType != ref.DES3 {
			if p, err := mint.ResignPAC(c01.SamplePAC(), ref.CksumForEType(x.Ticket.EncKey.EType), x.Ticket.EncKey.Value, op.PAC == "bad"); err == nil {
				x.Ticket.AuthData = append(x.Ticket.AuthData, mint.PACAuthData(p))
			}
		}
		if op.Fault == "" || x.Kind != ex {
			return
		}
		switch name {
		case "krb-error":
			code := op.Code
			x.Error = &code
		case "cipher-flip":
			x.Tamper = func(b []byte) []byte { o := append([]byte{}, b...); o[len(o)/2] ^= 0x01; return o }
		case "cipher-trunc":
			x.Tamper = func(b []byte) []byte { return b[:len(b)-1] }
		case "cipher-empty":
			x.Tamper = func(b []byte) []byte { return []byte{} }
		case "reply-trunc":
			x.Post = func(b []byte) []byte { return b[:len(b)*2/3] }
		case "reply-garbage":
			x.Raw = kgen.DetBytes(seed, "c20/garbage-reply", 97)
		case "reply-empty":
			x.Raw = []byte{}
		case "key-other":
			x.ReplyKey = mint.Key{EType: x.ReplyKey.EType, Value: markerKey(seed, "kdc-other-reply-key", x.ReplyKey.EType)}
		case "nonce":
			x.Enc["nonce"] = x.Enc["nonce"].(int64) ^ 1
		case "cname-other":
			x.Rep["cname"] = der.Name(1, "mallory")
		case "crealm-other":
			x.Rep["crealm"] = "EVIL.ORG"
		case "sname-other":
			x.Enc["sname"] = der.Name(2, "krbtgt", "EVIL.ORG")
		case "srealm-other":
			x.Enc["srealm"] = "EVIL.ORG"
		}
	}
}

func (w *seqWorld) clearFault() {
	w.realm.Mutate = nil
	if w.savedPolicy != nil {
		w.realm.Policy, w.savedPolicy = *w.savedPolicy, nil
	}
}

// harvest registers the secrets that came into being and the requests the client sent since the last call.
func (w *seqWorld) harvest() {
	issued := w.realm.Issued
	for _, is := range issued[w.issuedDone:] {
		w.cap.secret(fmt.Sprintf("session key issued by the KDC (%s for %s)", is.Kind, is.SName), "session-key", is.Session.Value)
	}
	w.issuedDone = len(issued)
	seen := w.realm.Seen
	for _, s := range seen[w.seenDone:] {
		w.cap.add("wire:sent:"+s.Kind+"-REQ", s.Raw)
	}
	w.seenDone = len(seen)
	w.kpMu.Lock()
	for _, b := range w.kpSeen {
		w.cap.add("wire:sent:kpasswd-request", b)
	}
	for _, k := range w.kpSub {
		w.cap.secret("sub-key generated for the kpasswd request", "subkey", k)
	}
	w.kpSeen, w.kpSub = nil, nil
	w.kpMu.Unlock()
	w.cap.log("client", w.clog.take())
	w.cap.log("service", w.slog.take())
}

// snapshot dumps every diagnostic surface of the current client.
func (w *seqWorld) snapshot() {
	cl := w.cl
	if cl == nil {
		return
	}
	w.cap.guard("surfaces", func() {
		if cl.Credentials != nil {
			j, err := cl.Credentials.JSON()
			w.cap.err("Credentials.JSON", err)
			w.cap.add("json:Credentials.JSON", []byte(j))
			g, err := cl.Credentials.Marshal()
			w.cap.err("Credentials.Marshal", err)
			w.cap.add("gob:Credentials.Marshal", g)
			if kt := cl.Credentials.Keytab(); kt != nil {
				k, err := kt.JSON()
				w.cap.err("Keytab.JSON", err)
				w.cap.add("json:Keytab.JSON", []byte(k))
			}
		}
		if cl.Config != nil {
			j, err := cl.Config.JSON()
			w.cap.err("Config.JSON", err)
			w.cap.add("json:Config.JSON", []byte(j))
		}
		s, err := client.NewSettings(w.clOpts...).JSON()
		w.cap.err("Settings.JSON", err)
		w.cap.add("json:Settings.JSON", []byte(s))
	})
	w.cap.guard("Client.Print", func() {
		var b bytes.Buffer
		cl.Print(&b)
		w.cap.add("print:Client.Print", b.Bytes())
	})
	w.cap.guard("Client.Diagnostics", func() {
		var b bytes.Buffer
		err := cl.Diagnostics(&b)
		if err != nil { // the findings of Diagnostics are its purpose: searched, but not counted as a failing operation
			w.cap.add("error:Client.Diagnostics", []byte(err.Error()+"\n"+fmt.Sprintf("%+v\n%#v", err, err)))
		}
		w.cap.add("print:Client.Diagnostics", b.Bytes())
	})
}

func (w *seqWorld) ensureClient() {
	if w.cl == nil {
		w.newClient(Op{Kind: "new-client", Cred: "pw"})
	}
}

func (w *seqWorld) newClient(op Op) {
	if w.cl != nil {
		old := w.cl
		w.cap.guard("Client.Destroy", func() { old.Destroy() })
		w.cl = nil
	}
	et := w.c.EType
	w.clOpts = []func(*client.Settings){client.Logger(log.New(&w.clog, "client: ", 0)), client.DisablePAFXFAST(!op.FAST), client.AssumePreAuthentication(op.PA)}
	decoy := mint.KeytabEntry{Principal: "bob", Realm: seqRealm, KVNO: 1, Key: mint.Key{EType: et, Value: markerKey(w.c.Seed, "decoy-bob", et)}, Timestamp: 900}
	switch op.Cred {
	case "pw-wrong":
		w.cap.secret("wrong client password", "password", []byte(w.wrongpw))
		w.cl = client.NewWithPassword("alice", seqRealm, w.wrongpw, w.cfg, w.clOpts...)
	case "kt", "kt-wrong":
		k := w.realm.Key(w.alice, et)
		if op.Cred == "kt-wrong" {
			k = mint.Key{EType: et, Value: w.otherKey}
			w.cap.secret("wrong client keytab key", "keytab-key", w.otherKey)
		}
		w.cap.secret("decoy client keytab key", "keytab-key", decoy.Key.Value)
		kt, err := svcKeytab(decoy, mint.KeytabEntry{Principal: "alice", Realm: seqRealm, KVNO: 1, Key: k, Timestamp: 1000})
		if err != nil {
			w.cap.err("harness:keytab", err)
			return
		}
		w.cl = client.NewWithKeytab("alice", seqRealm, kt, w.cfg, w.clOpts...)
	case "ccache":
		// a TGT obtained out of band (kinit) and stored in a credential cache file
		pre := w.realm.Policy.PreauthRequired
		w.realm.Policy.PreauthRequired = false
		asReq, err := messages.NewASReqForTGT(seqRealm, w.cfg, types.PrincipalName{NameType: 1, NameString: []string{"alice"}})
		var rb []byte
		if err == nil {
			rb, err = asReq.Marshal()
		}
		if err != nil {
			w.realm.Policy.PreauthRequired = pre
			w.cap.err("harness:as-req", err)
			return
		}
		n0 := len(w.realm.Issued)
		w.realm.Handle(rb)
		w.realm.Policy.PreauthRequired = pre
		if len(w.realm.Issued) != n0+1 {
			w.cap.err("harness:kinit", errors.New("the simulated KDC issued no TGT"))
			return
		}
		is := w.realm.Issued[n0]
		def := cf.Principal{NameType: 1, Realm: seqRealm, Comps: []string{"alice"}}
		file := &cf.File{Version: 4, Header: []cf.HeaderField{cf.KDCOffsetField(0, 0)}, Default: def, Creds: []cf.Credential{{
			Client: def, Server: cf.Principal{NameType: 2, Realm: seqRealm, Comps: []string{"krbtgt", seqRealm}}, KeyType: int16(is.Session.EType), Key: is.Session.Value,
			AuthTime: int32(is.Start.Unix()), StartTime: int32(is.Start.Unix()), EndTime: int32(is.End.Unix()), RenewTill: int32(is.End.Unix()),
			Flags: cf.FlagInitial, Addrs: []cf.Typed{}, AuthData: []cf.Typed{}, Ticket: is.Ticket, SecondTicket: []byte{}}}}
		fb, err := cf.Marshal(file, nativeOrder)
		if err != nil {
			w.cap.err("harness:ccache", err)
			return
		}
		cc := new(credentials.CCache)
		var perr error
		if w.cap.guard("CCache.Unmarshal", func() { perr = cc.Unmarshal(fb) }) || perr != nil {
			w.cap.err("CCache.Unmarshal", perr)
			return
		}
		w.cap.guard("NewFromCCache", func() {
			cl, err := client.NewFromCCache(cc, w.cfg, w.clOpts...)
			w.cap.err("NewFromCCache", err)
			if err == nil {
				w.cl = cl
			}
		})
	default:
		w.cl = client.NewWithPassword("alice", seqRealm, w.pw, w.cfg, w.clOpts...)
	}
	if w.cl == nil || w.cl.Credentials == nil {
		return
	}
	// values an application may set through the exported API and that encoding/json refuses: the diagnostic surfaces must
	// cope with them without falling back to a rendering that shows more
	far := time.Date(10000, 1, 2, 3, 4, 5, 0, time.UTC)
	switch op.Odd {
	case "":
	case "valid-until":
		w.cl.Credentials.SetValidUntil(far)
	case "auth-time":
		w.cl.Credentials.SetAuthTime(far)
	case "attr-nan":
		w.cl.Credentials.SetAttributes(map[string]interface{}{"load": math.NaN()})
	case "attr-func":
		w.cl.Credentials.SetAttributes(map[string]interface{}{"callback": func() {}})
	case "kt-timestamp":
		if kt := w.cl.Credentials.Keytab(); kt != nil {
			for i := range kt.Entries {
				kt.Entries[i].Timestamp = far
			}
		}
	default:
		w.cap.err("harness:odd", fmt.Errorf("bad odd value %q", op.Odd))
	}
	if op.Odd != "" {
		w.label("client-odd:" + op.Odd)
	}
}

// kpasswd is the scripted kpasswd endpoint (RFC 3244 framing).
func (w *seqWorld) kpasswd(req []byte) []byte {
	w.kpMu.Lock()
	mode := w.kpMode
	w.kpSeen = append(w.kpSeen, append([]byte{}, req...))
	w.kpMu.Unlock()
	seed := w.c.Seed
	switch mode {
	case "garbage":
		return kgen.DetBytes(seed, "c20/kpasswd-garbage", 64)
	case "garbage-v1":
		g := kgen.DetBytes(seed, "c20/kpasswd-garbage-v1", 80)
		binary.BigEndian.PutUint16(g[0:], 80)
		binary.BigEndian.PutUint16(g[2:], 1)
		binary.BigEndian.PutUint16(g[4:], 40)
		return g
	case "short":
		return []byte{0, 3, 0}
	case "empty":
		return nil
	}
	frame := func(aprep, rest []byte) []byte {
		out := make([]byte, 6)
		binary.BigEndian.PutUint16(out[0:], uint16(6+len(aprep)+len(rest)))
		binary.BigEndian.PutUint16(out[2:], 1)
		binary.BigEndian.PutUint16(out[4:], uint16(len(aprep)))
		return append(append(out, aprep...), rest...)
	}
	result := func(code uint16, text string) []byte {
		return append([]byte{byte(code >> 8), byte(code)}, text...)
	}
	if mode == "krb-error" {
		return frame(nil, w.realm.KRBError(kdc.ErrGeneric, nil, "", der.Name(2, "kadmin", "changepw"), result(3, "Authentication error"), true))
	}
	// a proper reply needs the sub-key of the request's authenticator
	fail := func() []byte { return kgen.DetBytes(seed, "c20/kpasswd-unparsable", 48) }
	if len(req) < 6 {
		return fail()
	}
	apLen := int(binary.BigEndian.Uint16(req[4:6]))
	if 6+apLen > len(req) {
		return fail()
	}
	ap, err := der.APReq.DecodeM(req[6 : 6+apLen])
	if err != nil {
		return fail()
	}
	var session *mint.Key
	for i := len(w.realm.Issued) - 1; i >= 0; i-- { // the handler runs while the client waits: no concurrent issuance
		if w.realm.Issued[i].SName == "kadmin/changepw" {
			session = &w.realm.Issued[i].Session
			break
		}
	}
	if session == nil {
		return fail()
	}
	aed := ap["authenticator"].(der.M)
	aplain, _, err := ref.Decrypt(int32(aed["etype"].(int64)), session.Value, 11, aed["cipher"].([]byte))
	if err != nil {
		return fail()
	}
	n, _, err := der.ParseOne(aplain)
	if err != nil {
		return fail()
	}
	auth, err := der.Authenticator.DecodeM(n.Raw)
	if err != nil {
		return fail()
	}
	sk, ok := auth["subkey"].(der.M)
	if !ok {
		return fail()
	}
	sub := mint.Key{EType: int32(sk["keytype"].(int64)), Value: sk["keyvalue"].([]byte)}
	w.kpMu.Lock()
	w.kpSub = append(w.kpSub, sub.Value)
	w.kpMu.Unlock()
	encRep := der.M{"ctime": auth["ctime"], "cusec": auth["cusec"]}
	if s, ok := auth["seq-number"]; ok {
		encRep["seq-number"] = s
	}
	aprep := der.APRep.MustEncode(der.M{"pvno": int64(5), "msg-type": int64(15),
		"enc-part": mint.EncData(*session, 12, der.EncAPRepPart.MustEncode(encRep), kgen.DetBytes(seed, "c20/kp/aconf", 16), nil)})
	res := result(0, "Password changed")
	if mode == "soft-error" {
		res = result(4, "Password does not meet the policy of the realm")
	}
	pkey := sub
	if mode == "wrong-key" {
		pkey = mint.Key{EType: sub.EType, Value: markerKey(seed, "kpasswd-other", sub.EType)}
	}
	now := time.Now().UTC()
	priv := der.KRBPriv.MustEncode(der.M{"pvno": int64(5), "msg-type": int64(21), "enc-part": mint.EncData(pkey, 13,
		der.EncKrbPrivPart.MustEncode(der.M{"user-data": res, "timestamp": now.Truncate(time.Second), "usec": int64(now.Nanosecond() / 1000), "seq-number": int64(1),
			"s-address": der.M{"addr-type": int64(2), "address": []byte{127, 0, 0, 1}}}), kgen.DetBytes(seed, "c20/kp/pconf", 16), nil)})
	out := frame(aprep, priv)
	if mode == "truncated" {
		return out[:len(out)*2/3]
	}
	return out
}

func outcomeOf(err error, panicked bool) string {
	switch {
	case panicked:
		return "panic"
	case err != nil:
		return "error"
	}
	return "ok"
}

// apReqFromClient builds an AP-REQ with the library's client-side API from the client's service ticket.
func (w *seqWorld) apReqFromClient(op Op) []byte {
	spn := svcSPN
	if op.SPN == "unknown" {
		spn = unknownSPN
	}
	var out []byte
	w.cap.guard("client-side AP-REQ", func() {
		tkt, key, err := w.cl.GetServiceTicket(spn)
		w.cap.err("Client.GetServiceTicket", err)
		if err != nil {
			return
		}
		auth, err := types.NewAuthenticator(w.cl.Credentials.Domain(), w.cl.Credentials.CName())
		w.cap.err("types.NewAuthenticator", err)
		if err != nil {
			return
		}
		if op.SubKey {
			if et, err := crypto.GetEtype(key.KeyType); err == nil {
				w.cap.err("Authenticator.GenerateSeqNumberAndSubKey", auth.GenerateSeqNumberAndSubKey(et.GetETypeID(), et.GetKeyByteSize()))
				w.cap.secret("sub-key generated by the client for its AP-REQ", "subkey", auth.SubKey.KeyValue)
			}
		}
		ap, err := messages.NewAPReq(tkt, key, auth)
		w.cap.err("messages.NewAPReq", err)
		if err != nil {
			return
		}
		b, err := ap.Marshal()
		w.cap.err("APReq.Marshal", err)
		w.cap.add("wire:sent:AP-REQ", b)
		out = b
	})
	return out
}

func (w *seqWorld) svcOpts(op Op, sm *memSM) []func(*service.Settings) {
	opts := []func(*service.Settings){service.Logger(log.New(&w.slog, "service: ", 0)), service.DecodePAC(true)}
	if op.Defect == "require-addr" {
		opts = append(opts, service.RequireHostAddr(true))
	}
	if sm != nil {
		opts = append(opts, service.SessionManager(sm))
	}
	return opts
}

// credsSurfaces dumps the identity a successful verification returned.
func (w *seqWorld) credsSurfaces(cr *credentials.Credentials) {
	if cr == nil {
		return
	}
	j, err := cr.JSON()
	w.cap.err("Credentials.JSON", err)
	w.cap.add("json:Credentials.JSON(service)", []byte(j))
	g, err := cr.Marshal()
	w.cap.err("Credentials.Marshal", err)
	w.cap.add("gob:Credentials.Marshal(service)", g)
}

// runHandler presents an Authorization header to the SPNEGO HTTP wrapper.
func (w *seqWorld) runHandler(op Op, kt *keytab.Keytab, header string) {
	var sm *memSM
	if op.SessMgr == "memory" || op.SessMgr == "failnew" {
		sm = &memSM{failNew: op.SessMgr == "failnew"}
	}
	served := false
	inner := http.HandlerFunc(func(rw http.ResponseWriter, r *http.Request) {
		served = true
		if id := goidentity.FromHTTPRequestContext(r); id != nil {
			if cr, ok := id.(*credentials.Credentials); ok {
				w.credsSurfaces(cr)
			}
		}
		rw.WriteHeader(200)
	})
	w.cap.guard("spnego.SPNEGOKRB5Authenticate", func() {
		h := spnego.SPNEGOKRB5Authenticate(inner, kt, w.svcOpts(op, sm)...)
		req := httptest.NewRequest("GET", "http://web.example.com/", nil)
		req.RemoteAddr = "10.1.1.1:4321"
		if header != "" {
			req.Header.Set("Authorization", header)
		}
		rec := httptest.NewRecorder()
		h.ServeHTTP(rec, req)
		var dump bytes.Buffer
		fmt.Fprintf(&dump, "%d\n", rec.Code)
		rec.Header().Write(&dump)
		dump.Write(rec.Body.Bytes())
		w.cap.add("http-response:SPNEGO-handler", dump.Bytes())
		if rec.Code != 200 {
			w.cap.errs++ // the handler's way of returning an error
		}
	})
	if sm != nil {
		for _, b := range sm.stored {
			w.cap.add("gob:session-store", b)
		}
	}
	w.label(fmt.Sprintf("handler-served:%v", served))
}

func (w *seqWorld) run(i int, op Op) {
	cap := w.cap
	cap.at(i+1, op.Kind)
	out := "ok"
	errs0, pan0 := cap.errs, len(cap.panics)
	switch op.Kind {
	case "new-client":
		w.newClient(op)
		w.label("client-cred:" + op.Cred)
	case "login":
		w.ensureClient()
		w.setFault(op)
		cap.guard("Client.Login", func() { cap.err("Client.Login", w.cl.Login()) })
	case "affirm":
		w.ensureClient()
		w.setFault(op)
		cap.guard("Client.AffirmLogin", func() { cap.err("Client.AffirmLogin", w.cl.AffirmLogin()) })
	case "ticket":
		w.ensureClient()
		w.setFault(op)
		spn := svcSPN
		if op.SPN == "unknown" {
			spn = unknownSPN
		}
		cap.guard("Client.GetServiceTicket", func() {
			tkt, _, err := w.cl.GetServiceTicket(spn)
			cap.err("Client.GetServiceTicket", err)
			if err == nil {
				b, err := tkt.Marshal()
				cap.err("Ticket.Marshal", err)
				cap.add("wire:Ticket.Marshal", b)
			}
		})
	case "apreq":
		w.ensureClient()
		w.setFault(op)
		b := w.apReqFromClient(op)
		w.clearFault()
		if b == nil {
			break
		}
		switch op.Defect {
		case "tamper":
			b = append([]byte{}, b...)
			b[len(b)*2/3] ^= 0x10
		case "trunc":
			b = b[:len(b)*3/4]
		}
		kt, err := w.serviceKeytab(op.Defect)
		if err != nil {
			cap.err("harness:keytab", err)
			break
		}
		rounds := 1
		if op.Defect == "replay" {
			rounds = 2
		}
		for k := 0; k < rounds; k++ {
			cap.guard("service.VerifyAPREQ", func() {
				var ap messages.APReq
				if err := ap.Unmarshal(b); err != nil {
					cap.err("APReq.Unmarshal", err)
					return
				}
				ok, cr, err := service.VerifyAPREQ(&ap, service.NewSettings(kt, w.svcOpts(op, nil)...))
				cap.err("service.VerifyAPREQ", err)
				w.label(fmt.Sprintf("verify-apreq:%v", ok))
				if ok {
					w.credsSurfaces(cr)
				}
				rb, err := ap.Marshal()
				cap.err("APReq.Marshal", err)
				cap.add("wire:APReq.Marshal-after-verify", rb)
			})
		}
	case "spnego":
		w.ensureClient()
		w.setFault(op)
		spn := svcSPN
		if op.SPN == "unknown" {
			spn = unknownSPN
		}
		req := httptest.NewRequest("GET", "http://web.example.com/", nil)
		cap.guard("spnego.SetSPNEGOHeader", func() { cap.err("spnego.SetSPNEGOHeader", spnego.SetSPNEGOHeader(w.cl, req, spn)) })
		w.clearFault()
		header := req.Header.Get("Authorization")
		var tok []byte
		if v, ok := strings.CutPrefix(header, "Negotiate "); ok {
			tok, _ = base64.StdEncoding.DecodeString(v)
			cap.add("wire:sent:SPNEGO-token", []byte(header))
			cap.add("wire:sent:SPNEGO-token", tok)
		}
		switch op.Defect {
		case "header-trunc":
			if len(header) > 40 {
				header = header[:len(header)*2/3]
			}
		case "header-garbage":
			header = "Negotiate " + base64.StdEncoding.EncodeToString(kgen.DetBytes(w.c.Seed, "c20/garbage-token", 120))
		case "no-header":
			header = ""
		}
		kt, err := w.serviceKeytab(op.Defect)
		if err != nil {
			cap.err("harness:keytab", err)
			break
		}
		w.runHandler(op, kt, header)
		if tok != nil && (op.Defect == "replay" || strings.HasPrefix(op.Defect, "kt-")) {
			// the token-level API on the same token (after a successful handler run this is a replay)
			cap.guard("SPNEGO.AcceptSecContext", func() {
				var st spnego.SPNEGOToken
				if err := st.Unmarshal(tok); err != nil {
					cap.err("SPNEGOToken.Unmarshal", err)
					return
				}
				ok, ctx, status := spnego.SPNEGOService(kt, w.svcOpts(op, nil)...).AcceptSecContext(&st)
				if !ok {
					cap.errs++
				}
				cap.add("status:AcceptSecContext", []byte(status.Error()+"\n"+fmt.Sprintf("%+v\n%#v", status, status)))
				if ok && ctx != nil {
					if cr, _ := ctx.Value("github.com/jcmturner/gokrb5/v8/ctxCredentials").(*credentials.Credentials); cr != nil {
						w.credsSurfaces(cr)
					}
				}
			})
		}
	case "minted":
		w.minted(i, op)
	case "kpasswd":
		w.ensureClient()
		w.setFault(op)
		w.npw++
		newpw := markerPassword(w.c.Seed, fmt.Sprintf("new-%d", w.npw))
		cap.secret("new password given to ChangePasswd", "password", []byte(newpw))
		w.kpMu.Lock()
		w.kpMode = op.Reply
		w.kpMu.Unlock()
		cap.guard("Client.ChangePasswd", func() {
			ok, err := w.cl.ChangePasswd(newpw)
			cap.err("Client.ChangePasswd", err)
			w.label(fmt.Sprintf("changepasswd:%v", ok))
			if ok {
				// the realm's database follows the successful change
				w.alice.Password = newpw
				cap.secret("client long-term key after the password change", "keytab-key", w.realm.Key(w.alice, w.c.EType).Value)
			}
		})
	case "basic":
		pw := w.pw
		if op.Cred == "wrong" {
			pw = w.wrongpw
			cap.secret("wrong client password", "password", []byte(pw))
		}
		hv := base64.StdEncoding.EncodeToString([]byte("alice@" + seqRealm + ":" + pw))
		if op.Cred == "malformed" {
			hv = base64.StdEncoding.EncodeToString([]byte("alice@" + seqRealm + " " + pw))
		}
		kt, err := w.serviceKeytab(op.Defect)
		if err != nil {
			cap.err("harness:keytab", err)
			break
		}
		w.setFault(op)
		cap.guard("KRB5BasicAuthenticator.Authenticate", func() {
			ss := service.NewSettings(kt, append(w.svcOpts(op, nil), service.SName(svcSPN))...)
			a := service.NewKRB5BasicAuthenticator(hv, w.cfg, ss, client.NewSettings(w.clOpts...))
			id, ok, err := a.Authenticate()
			cap.err("KRB5BasicAuthenticator.Authenticate", err)
			w.label(fmt.Sprintf("basic-auth:%v", ok))
			if cr, isC := id.(*credentials.Credentials); ok && isC {
				w.credsSurfaces(cr)
			}
		})
	case "destroy":
		w.ensureClient()
		cap.guard("Client.Destroy", func() { w.cl.Destroy() })
	case "wait":
		w.setFault(op)
		time.Sleep(time.Duration(min(op.Ms, 5000)) * time.Millisecond)
	default:
		cap.err("harness:op", fmt.Errorf("unknown op %q", op.Kind))
	}
	w.clearFault()
	if len(cap.panics) > pan0 {
		out = "panic"
	} else if cap.errs > errs0 {
		out = "error"
	}
	w.label("op:" + op.Kind + ":" + out)
	if op.Fault != "" {
		w.label("fault:" + op.Fault + ":" + out)
	}
	if op.Defect != "" && op.Kind != "minted" {
		w.label("defect:" + op.Kind + ":" + op.Defect + ":" + out)
	}
	if op.Kind == "kpasswd" {
		w.label("kpasswd-reply:" + op.Reply + ":" + out)
	}
	if op.Life != "" {
		w.label("life:" + op.Kind + ":" + op.Life + ":" + out)
	}
	w.harvest()
	w.snapshot()
}

// minted presents an AP-REQ minted by the reference (c01 request model, one catalogued defect)
// to the service: the failure paths of the acceptor that a real client cannot produce.
func (w *seqWorld) minted(i int, op Op) {
	cap := w.cap
	mc := c01.Base(w.c.EType, w.c.Seed*131+uint64(i), "HTTP/svc.example.com")
	mc.DecodePAC = true
	if _, ok := c01.Defects[op.Defect]; ok {
		mc.Apply(op.Defect)
	} else if op.Defect != "" {
		cap.err("harness:defect", fmt.Errorf("unknown defect %q", op.Defect))
		return
	}
	m, err := mc.Mint(c01.SamplePAC())
	if err != nil {
		cap.err("harness:mint", err)
		return
	}
	for _, e := range mc.KeytabEntries() {
		cap.secret(fmt.Sprintf("service keytab key of %s@%s kvno %d etype %d", e.Principal, e.Realm, e.KVNO, e.Key.EType), "keytab-key", e.Key.Value)
	}
	cap.secret("session key sealed in the minted ticket", "session-key", m.Session.Value)
	if m.SubKey != nil {
		cap.secret("sub-key in the minted authenticator", "subkey", m.SubKey.Value)
	}
	kt := keytab.New()
	if err := kt.Unmarshal(m.Keytab); err != nil {
		cap.err("harness:keytab", err)
		return
	}
	w.label("minted-expect-accept:" + fmt.Sprint(mc.Expect().Accept))
	if op.Via == "http" {
		tok := der.GSSWrap(der.OIDSPNEGO, der.Ctx(0, der.NegTokenInit.MustEncode(der.M{"mechTypes": []any{der.OIDKRB5},
			"mechToken": der.GSSWrap(der.OIDKRB5, append([]byte{1, 0}, m.APReq...))})))
		w.runHandler(op, kt, "Negotiate "+base64.StdEncoding.EncodeToString(tok))
		return
	}
	rounds := 1
	if mc.Replay {
		rounds = 2
	}
	for k := 0; k < rounds; k++ {
		cap.guard("service.VerifyAPREQ", func() {
			var ap messages.APReq
			if err := ap.Unmarshal(m.APReq); err != nil {
				cap.err("APReq.Unmarshal", err)
				return
			}
			ok, cr, err := service.VerifyAPREQ(&ap, service.NewSettings(kt, w.svcOpts(op, nil)...))
			cap.err("service.VerifyAPREQ", err)
			w.label(fmt.Sprintf("verify-minted:%v", ok))
			if ok {
				w.credsSurfaces(cr)
			}
			rb, err := ap.Marshal()
			cap.err("APReq.Marshal", err)
			cap.add("wire:APReq.Marshal-after-verify", rb)
		})
	}
}

func evalSeq(c SeqCase) (evid.Verdict, *stats) {
	cap := newCapture()
	c01.SamplePAC()
	w, err := newSeqWorld(c, cap)
	if err != nil {
		return evid.Fail("harness", "world: %v", err), cap.stats()
	}
	done := make(chan struct{})
	go func() {
		defer close(done)
		defer w.close()
		for i, op := range c.Ops {
			w.run(i, op)
		}
	}()
	select {
	case <-done:
	case <-time.After(90 * time.Second):
		return evid.Fail("harness:no-return", "sequence did not finish within 90 s: %+v", c), cap.stats()
	}
	w.harvest()
	var ops []string
	for _, op := range c.Ops {
		ops = append(ops, joinNonEmpty("/", op.Kind, op.Cred, op.SPN, op.Fault, op.Defect, op.Reply, op.PAC, op.Life))
	}
	ctx := fmt.Sprintf("etype %d, preauth required %v, udp %v, ops: %s", c.EType, c.Preauth, c.UDP, strings.Join(ops, " ; "))
	v := cap.judge(ctx)
	st := cap.stats()
	st.Labels = append(w.labels, fmt.Sprintf("etype%d", c.EType), fmt.Sprintf("preauth-required:%v", c.Preauth), fmt.Sprintf("udp:%v", c.UDP))
	return v, st
}

// EvalSeq is the pure evaluator of a SeqCase.
func EvalSeq(c SeqCase) evid.Verdict {
	return evid.SafeEval(func() evid.Verdict { v, _ := evalSeq(c); return v })
}

func seqNT(c SeqCase, st *stats) string {
	if st.Errs == 0 && st.Logs == 0 {
		return ""
	}
	return fmt.Sprintf("%d|%v|%v|%+v|%s", c.EType, c.Preauth, c.UDP, c.Ops, strings.Join(st.Surfaces, ","))
}
