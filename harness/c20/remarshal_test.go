package c20

import (
	"fmt"
	"log"
	"time"

	"github.com/jcmturner/gokrb5/v8/config"
	"github.com/jcmturner/gokrb5/v8/credentials"
	"github.com/jcmturner/gokrb5/v8/kadmin"
	"github.com/jcmturner/gokrb5/v8/keytab"
	"github.com/jcmturner/gokrb5/v8/messages"
	"github.com/jcmturner/gokrb5/v8/types"

	"verif/harness/c01"
	"verif/harness/evid"
	"verif/harness/kgen"
	"verif/harness/mint"
	"verif/harness/ref/der"
	ref "verif/harness/ref/krbcrypto"
	"verif/harness/sim/kdc"
)

// RemCase: a message that carries secrets only inside its encrypted part is decoded, decrypted (or
// fails to decrypt) and re-encoded by the library.
type RemCase struct {
	Msg     string `json:"msg"` // ticket | apreq | asrep | tgsrep | krbpriv | krbpriv-built | krbcred | kpasswd-req
	EType   int32  `json:"etype"`
	Seed    uint64 `json:"seed"`
	Variant string `json:"variant"` // ok | wrong-key | tamper | short | pac-good | pac-bad | auth-wrong-key
	SubKey  bool   `json:"subkey"`
	Cred    string `json:"cred"` // asrep/tgsrep: password | keytab
}

var remMsgs = []string{"ticket", "apreq", "asrep", "tgsrep", "krbpriv", "krbpriv-built", "krbcred", "kpasswd-req"}

func remVariants(msg string) []string {
	switch msg {
	case "ticket":
		return []string{"ok", "wrong-key", "tamper", "short", "pac-good", "pac-bad"}
	case "apreq":
		return []string{"ok", "wrong-key", "tamper", "short", "pac-good", "pac-bad", "auth-wrong-key"}
	case "krbpriv-built", "kpasswd-req":
		return []string{"ok"}
	}
	return []string{"ok", "wrong-key", "tamper", "short"}
}

const pwAlphabet = "ABCDEFGHIJKLMNOPQRSTUVWXYZabcdefghijklmnopqrstuvwxyz0123456789<&"

// markerPassword is a 32-character printable high-entropy password, a pure function of (seed, label).
func markerPassword(seed uint64, label string) string {
	b := kgen.DetBytes(seed, "c20/pw/"+label, 32)
	for i := range b {
		b[i] = pwAlphabet[int(b[i])%len(pwAlphabet)]
	}
	return string(b)
}

func markerKey(seed uint64, label string, et int32) []byte {
	return ref.RandomKey(et, kgen.DetBytes(seed, "c20/key/"+label, 32))
}

func cipherMut(variant string) func([]byte) []byte {
	switch variant {
	case "tamper":
		return func(b []byte) []byte { o := append([]byte{}, b...); o[len(o)/2] ^= 0x04; return o }
	case "short":
		return func(b []byte) []byte { return b[:min(5, len(b))] }
	}
	return nil
}

var etypeNames = map[int32]string{16: "des3-cbc-sha1-kd", 17: "aes128-cts-hmac-sha1-96", 18: "aes256-cts-hmac-sha1-96",
	19: "aes128-cts-hmac-sha256-128", 20: "aes256-cts-hmac-sha384-192", 23: "rc4-hmac"}

func evalRem(c RemCase) (evid.Verdict, *stats) {
	cap := newCapture()
	var slog syncBuf
	logger := log.New(&slog, "", 0)
	et := c.EType
	svc := markerKey(c.Seed, "svc", et)
	other := markerKey(c.Seed, "other", et)
	session := markerKey(c.Seed, "session", et)
	sub := markerKey(c.Seed, "subkey", et)
	newpw := markerPassword(c.Seed, "new")
	cap.secret("service keytab key", "keytab-key", svc)
	cap.secret("unrelated key held by the caller", "keytab-key", other)
	cap.secret("ticket session key", "session-key", session)
	now := time.Now().UTC()
	start := now.Add(-time.Minute).Truncate(time.Second)
	kv := 3
	tk := &mint.TicketSpec{Realm: "EXAMPLE.COM", SName: "HTTP/web.example.com", SNameType: 2, KVNO: &kv, EncKey: mint.Key{EType: et, Value: svc},
		Conf: kgen.DetBytes(c.Seed, "c20/rem/tconf", 16), Flags: mint.Flag(1) | mint.Flag(10), Session: mint.Key{EType: et, Value: session},
		CRealm: "EXAMPLE.COM", CName: fmt.Sprintf("alice-c20-%d", c.Seed), CNameType: 1, AuthTime: start, StartTime: &start, EndTime: now.Add(8 * time.Hour).Truncate(time.Second)}
	if c.Msg == "ticket" || c.Msg == "apreq" {
		tk.MutateCipher = cipherMut(c.Variant)
	}
	if (c.Variant == "pac-good" || c.Variant == "pac-bad") && et != ref.DES3 {
		p, err := mint.ResignPAC(c01.SamplePAC(), ref.CksumForEType(et), svc, c.Variant == "pac-bad")
		if err != nil {
			return evid.Fail("harness", "pac: %v", err), cap.stats()
		}
		tk.AuthData = []mint.AD{mint.PACAuthData(p)}
	}
	ktKey := svc
	if c.Variant == "wrong-key" {
		ktKey = other
	}
	kt := keytab.New()
	if err := kt.Unmarshal(mint.KeytabBytes([]mint.KeytabEntry{{Principal: "HTTP/web.example.com", Realm: "EXAMPLE.COM", KVNO: 3, Key: mint.Key{EType: et, Value: ktKey}, Timestamp: 1000}})); err != nil {
		return evid.Fail("harness", "keytab: %v", err), cap.stats()
	}
	ctx := fmt.Sprintf("message %s, etype %d, variant %s, subkey=%v, cred=%s", c.Msg, et, c.Variant, c.SubKey, c.Cred)
	gkey := func(v []byte) types.EncryptionKey {
		return types.EncryptionKey{KeyType: et, KeyValue: append([]byte{}, v...)}
	}
	cap.at(1, c.Msg)
	switch c.Msg {
	case "ticket":
		var t messages.Ticket
		if err := t.Unmarshal(tk.Bytes()); err != nil {
			return evid.Fail("harness", "minted ticket does not decode: %v", err), cap.stats()
		}
		cap.guard("Ticket.DecryptEncPart", func() { cap.err("Ticket.DecryptEncPart", t.DecryptEncPart(kt, nil)) })
		cap.guard("Ticket.Marshal", func() {
			b, err := t.Marshal()
			cap.err("Ticket.Marshal", err)
			cap.add("wire:Ticket.Marshal-after-decrypt", b)
		})
		if tk.AuthData != nil {
			cap.guard("Ticket.GetPACType", func() {
				_, _, err := t.GetPACType(kt, nil, logger)
				cap.err("Ticket.GetPACType", err)
			})
		}
	case "apreq":
		a := &mint.AuthSpec{CRealm: "EXAMPLE.COM", CName: tk.CName, CNameType: 1, CTime: now, Key: mint.Key{EType: et, Value: session}, Usage: 11,
			Conf: kgen.DetBytes(c.Seed, "c20/rem/aconf", 16)}
		if c.SubKey {
			a.SubKey = &mint.Key{EType: et, Value: sub}
			cap.secret("authenticator sub-key", "subkey", sub)
		}
		var ap messages.APReq
		if err := ap.Unmarshal(mint.APReq(tk, a, 0)); err != nil {
			return evid.Fail("harness", "minted AP-REQ does not decode: %v", err), cap.stats()
		}
		if c.Variant == "auth-wrong-key" {
			cap.guard("APReq.DecryptAuthenticator", func() {
				cap.err("Ticket.DecryptEncPart", ap.Ticket.DecryptEncPart(kt, nil))
				cap.err("APReq.DecryptAuthenticator", ap.DecryptAuthenticator(gkey(other)))
			})
		} else {
			cap.guard("APReq.Verify", func() {
				_, err := ap.Verify(kt, 5*time.Minute, types.HostAddress{}, nil)
				cap.err("APReq.Verify", err)
			})
		}
		cap.guard("APReq.Marshal", func() {
			b, err := ap.Marshal()
			cap.err("APReq.Marshal", err)
			cap.add("wire:APReq.Marshal-after-verify", b)
			b, err = ap.Ticket.Marshal()
			cap.err("Ticket.Marshal", err)
			cap.add("wire:Ticket.Marshal-after-decrypt", b)
		})
		if tk.AuthData != nil {
			cap.guard("Ticket.GetPACType", func() {
				_, _, err := ap.Ticket.GetPACType(kt, nil, logger)
				cap.err("Ticket.GetPACType", err)
			})
		}
	case "asrep", "tgsrep":
		w := kdc.NewWorld(c.Seed)
		r := w.AddRealm("EXAMPLE.COM", kdc.Policy{ETypes: []int32{et}, TicketEType: et})
		pw := markerPassword(c.Seed, "alice")
		wrongpw := markerPassword(c.Seed, "wrong")
		pr := r.AddClient("alice", pw, nil, 64)
		svcp := r.AddService("HTTP/web.example.com")
		ckey := r.Key(pr, et)
		cap.secret("client password", "password", []byte(pw))
		cap.secret("client long-term key", "keytab-key", ckey.Value)
		cap.secret("service long-term key", "keytab-key", r.Key(svcp, et).Value)
		lim := 1
		cfg, err := config.NewFromString(kdc.ConfText(kdc.ConfOpts{DefaultRealm: "EXAMPLE.COM", ETypes: etypeNames[et], NoAddresses: true, UDPPrefLimit: &lim, Extra: "  allow_weak_crypto = true\n"},
			map[string][]string{"EXAMPLE.COM": {"127.0.0.1:1"}}))
		if err != nil {
			return evid.Fail("harness", "config: %v", err), cap.stats()
		}
		var creds *credentials.Credentials
		asWrong := c.Msg == "asrep" && c.Variant == "wrong-key"
		if c.Cred == "keytab" {
			k := ckey.Value
			if asWrong {
				k = other
			}
			ckt := keytab.New()
			if err := ckt.Unmarshal(mint.KeytabBytes([]mint.KeytabEntry{{Principal: "alice", Realm: "EXAMPLE.COM", KVNO: 1, Key: mint.Key{EType: et, Value: k}, Timestamp: 1000}})); err != nil {
				return evid.Fail("harness", "keytab: %v", err), cap.stats()
			}
			creds = credentials.New("alice", "EXAMPLE.COM").WithKeytab(ckt)
		} else {
			p := pw
			if asWrong {
				p = wrongpw
				cap.secret("wrong client password", "password", []byte(wrongpw))
			}
			creds = credentials.New("alice", "EXAMPLE.COM").WithPassword(p)
		}
		if c.Msg == "asrep" {
			if m := cipherMut(c.Variant); m != nil {
				r.Mutate = func(x *kdc.ReplyCtx) { x.Tamper = m }
			}
		}
		cname := types.PrincipalName{NameType: 1, NameString: []string{"alice"}}
		asReq, err := messages.NewASReqForTGT("EXAMPLE.COM", cfg, cname)
		if err != nil {
			return evid.Fail("harness", "NewASReqForTGT: %v", err), cap.stats()
		}
		rb, err := asReq.Marshal()
		if err != nil {
			return evid.Fail("harness", "ASReq.Marshal: %v", err), cap.stats()
		}
		cap.add("wire:sent:AS-REQ", rb)
		var asRep messages.ASRep
		if err := asRep.Unmarshal(r.Handle(rb)); err != nil {
			return evid.Fail("harness", "AS-REP does not decode: %v", err), cap.stats()
		}
		for _, is := range r.Issued {
			cap.secret("session key issued by the KDC for "+is.SName, "session-key", is.Session.Value)
		}
		okAS := false
		cap.guard("ASRep.Verify", func() {
			ok, err := asRep.Verify(cfg, creds, asReq)
			cap.err("ASRep.Verify", err)
			okAS = ok
		})
		cap.guard("ASRep.Marshal", func() {
			b, err := asRep.Marshal()
			cap.err("ASRep.Marshal", err)
			cap.add("wire:ASRep.Marshal-after-decrypt", b)
		})
		if c.Msg == "tgsrep" {
			if !okAS {
				return evid.Fail("harness", "unperturbed AS exchange failed"), cap.stats()
			}
			r.Mutate = nil
			if m := cipherMut(c.Variant); m != nil {
				r.Mutate = func(x *kdc.ReplyCtx) { x.Tamper = m }
			}
			skey := asRep.DecryptedEncPart.Key
			tgsReq, err := messages.NewTGSReq(cname, "EXAMPLE.COM", cfg, asRep.Ticket, skey, types.PrincipalName{NameType: 2, NameString: []string{"HTTP", "web.example.com"}}, false)
			if err != nil {
				return evid.Fail("harness", "NewTGSReq: %v", err), cap.stats()
			}
			tb, err := tgsReq.Marshal()
			if err != nil {
				return evid.Fail("harness", "TGSReq.Marshal: %v", err), cap.stats()
			}
			cap.add("wire:sent:TGS-REQ", tb)
			var tgsRep messages.TGSRep
			if err := tgsRep.Unmarshal(r.Handle(tb)); err != nil {
				return evid.Fail("harness", "TGS-REP does not decode: %v", err), cap.stats()
			}
			for _, is := range r.Issued {
				cap.secret("session key issued by the KDC for "+is.SName, "session-key", is.Session.Value)
			}
			dk := skey
			if c.Variant == "wrong-key" {
				dk = gkey(other)
			}
			cap.guard("TGSRep.DecryptEncPart", func() {
				err := tgsRep.DecryptEncPart(dk)
				cap.err("TGSRep.DecryptEncPart", err)
				if err == nil {
					_, err = tgsRep.Verify(cfg, tgsReq)
					cap.err("TGSRep.Verify", err)
				}
			})
			cap.guard("TGSRep.Marshal", func() {
				b, err := tgsRep.Marshal()
				cap.err("TGSRep.Marshal", err)
				cap.add("wire:TGSRep.Marshal-after-decrypt", b)
				b, err = tgsRep.Ticket.Marshal()
				cap.err("Ticket.Marshal", err)
				cap.add("wire:Ticket.Marshal", b)
			})
		}
	case "krbpriv", "krbpriv-built":
		cap.secret("new password carried by KRB-PRIV", "password", []byte(newpw))
		cap.secret("sub-key protecting KRB-PRIV", "subkey", sub)
		ud := der.ChangePasswdData.MustEncode(der.M{"newpasswd": []byte(newpw), "targname": der.Name(1, "alice"), "targrealm": "EXAMPLE.COM"})
		if c.Msg == "krbpriv-built" {
			kp := messages.NewKRBPriv(messages.EncKrbPrivPart{UserData: ud, Timestamp: now, Usec: 7, SequenceNumber: 99,
				SAddress: types.HostAddress{AddrType: 2, Address: []byte{10, 0, 0, 1}}})
			cap.guard("KRBPriv.EncryptEncPart", func() { cap.err("KRBPriv.EncryptEncPart", kp.EncryptEncPart(gkey(sub))) })
			cap.guard("KRBPriv.Marshal", func() {
				b, err := kp.Marshal()
				cap.err("KRBPriv.Marshal", err)
				cap.add("wire:KRBPriv.Marshal-after-encrypt", b)
			})
			break
		}
		plain := der.EncKrbPrivPart.MustEncode(der.M{"user-data": ud, "timestamp": now.Truncate(time.Second), "usec": int64(7), "seq-number": int64(99),
			"s-address": der.M{"addr-type": int64(2), "address": []byte{10, 0, 0, 1}}})
		ed := mint.EncData(mint.Key{EType: et, Value: sub}, 13, plain, kgen.DetBytes(c.Seed, "c20/rem/pconf", 16), nil)
		if m := cipherMut(c.Variant); m != nil {
			ed["cipher"] = m(ed["cipher"].([]byte))
		}
		var kp messages.KRBPriv
		if err := kp.Unmarshal(der.KRBPriv.MustEncode(der.M{"pvno": int64(5), "msg-type": int64(21), "enc-part": ed})); err != nil {
			return evid.Fail("harness", "minted KRB-PRIV does not decode: %v", err), cap.stats()
		}
		dk := sub
		if c.Variant == "wrong-key" {
			dk = other
		}
		cap.guard("KRBPriv.DecryptEncPart", func() { cap.err("KRBPriv.DecryptEncPart", kp.DecryptEncPart(gkey(dk))) })
		cap.guard("KRBPriv.Marshal", func() {
			b, err := kp.Marshal()
			cap.err("KRBPriv.Marshal", err)
			cap.add("wire:KRBPriv.Marshal-after-decrypt", b)
		})
	case "krbcred":
		cap.secret("key protecting KRB-CRED", "subkey", sub)
		info := der.M{"key": der.M{"keytype": int64(et), "keyvalue": session}, "prealm": "EXAMPLE.COM", "pname": der.Name(1, "alice"),
			"flags": mint.Flags32(mint.Flag(1)), "authtime": start, "endtime": now.Add(8 * time.Hour).Truncate(time.Second), "srealm": "EXAMPLE.COM", "sname": der.Name(2, "HTTP", "web.example.com")}
		plain := der.EncKrbCredPart.MustEncode(der.M{"ticket-info": []any{info}, "nonce": int64(42), "timestamp": now.Truncate(time.Second), "usec": int64(3)})
		ed := mint.EncData(mint.Key{EType: et, Value: sub}, 14, plain, kgen.DetBytes(c.Seed, "c20/rem/cconf", 16), nil)
		if m := cipherMut(c.Variant); m != nil {
			ed["cipher"] = m(ed["cipher"].([]byte))
		}
		var kc messages.KRBCred
		if err := kc.Unmarshal(der.KRBCred.MustEncode(der.M{"pvno": int64(5), "msg-type": int64(22), "tickets": []any{tk.Value()}, "enc-part": ed})); err != nil {
			return evid.Fail("harness", "minted KRB-CRED does not decode: %v", err), cap.stats()
		}
		dk := sub
		if c.Variant == "wrong-key" {
			dk = other
		}
		cap.guard("KRBCred.DecryptEncPart", func() { cap.err("KRBCred.DecryptEncPart", kc.DecryptEncPart(gkey(dk))) })
		// KRBCred has no Marshal method; what can be re-encoded are its tickets
		cap.guard("MarshalTicketSequence", func() {
			for i := range kc.Tickets {
				cap.err("Ticket.DecryptEncPart", kc.Tickets[i].DecryptEncPart(kt, nil))
			}
			raw, err := messages.MarshalTicketSequence(kc.Tickets)
			cap.err("MarshalTicketSequence", err)
			cap.add("wire:MarshalTicketSequence-after-decrypt", raw.Bytes)
		})
	case "kpasswd-req":
		cap.secret("new password carried by the kpasswd request", "password", []byte(newpw))
		var t messages.Ticket
		if err := t.Unmarshal(tk.Bytes()); err != nil {
			return evid.Fail("harness", "minted ticket does not decode: %v", err), cap.stats()
		}
		cap.guard("kadmin.ChangePasswdMsg", func() {
			rq, k, err := kadmin.ChangePasswdMsg(types.PrincipalName{NameType: 1, NameString: []string{"alice"}}, "EXAMPLE.COM", newpw, t, gkey(session))
			cap.err("kadmin.ChangePasswdMsg", err)
			cap.secret("sub-key generated for the kpasswd request", "subkey", k.KeyValue)
			if err == nil {
				b, err := rq.Marshal()
				cap.err("kadmin.Request.Marshal", err)
				cap.add("wire:sent:kpasswd-request", b)
			}
		})
	default:
		return evid.Fail("harness", "unknown message %q", c.Msg), cap.stats()
	}
	cap.log("service", slog.take())
	st := cap.stats()
	st.Labels = []string{"rem-msg:" + c.Msg, "rem-variant:" + c.Variant, fmt.Sprintf("etype%d", et)}
	return cap.judge(ctx), st
}

// EvalRem is the pure evaluator of a RemCase.
func EvalRem(c RemCase) evid.Verdict {
	return evid.SafeEval(func() evid.Verdict { v, _ := evalRem(c); return v })
}
