// C05 — message encryption interoperates with the RFC definitions for all six etypes.
package c05

import (
	"bytes"
	"crypto/rand"
	"encoding/hex"
	"errors"
	"fmt"
	"runtime"
	"sync"
	"testing"

	"github.com/jcmturner/gokrb5/v8/crypto"
	"github.com/jcmturner/gokrb5/v8/types"
	"pgregory.net/rapid"

	"verif/harness/evid"
	"verif/harness/kgen"
	ref "verif/harness/ref/krbcrypto"
)

// Case is one interoperability exchange.
type Case struct {
	EType int32  `json:"etype"`
	Key   string `json:"key"`
	Usage uint32 `json:"usage"`
	Plain string `json:"plain"`
	Conf  string `json:"confounder"`      // used by the reference when it encrypts
	Fault int    `json:"fault,omitempty"` // fresh-faulty-source: octets the random source delivers before it fails
	Dir   string `json:"dir"`             // lib2ref | ref2lib | fresh | fresh-concurrent | fresh-faulty-source
	Then  int32  `json:"then,omitempty"`  // afterwards run both directions with the same key octets and usage under this sibling etype of equal key length, then the first etype again
}

func usageClass(u uint32) string {
	switch {
	case u < 128:
		return "usage<128"
	case u < 1<<28:
		return "usage>=128"
	}
	return "usage>=2^28"
}

func padded(et int32, p []byte) []byte {
	q := append([]byte{}, p...)
	if et == ref.DES3 {
		for (len(q)+8)%8 != 0 {
			q = append(q, 0)
		}
	}
	return q
}

// Eval judges one Case.
func Eval(c Case) evid.Verdict {
	v := eval1(c)
	if v.OK && c.Then != 0 && c.Dir != "fresh" {
		// no hidden state: the same key octets and usage under another etype, then under the first one again
		for _, step := range []struct {
			et  int32
			dir string
		}{{c.Then, "lib2ref"}, {c.Then, "ref2lib"}, {c.EType, "ref2lib"}, {c.EType, "lib2ref"}} {
			c2 := c
			c2.EType, c2.Dir, c2.Then = step.et, step.dir, 0
			if v2 := eval1(c2); !v2.OK {
				if v2.Sig == "harness" {
					return v2
				}
				v2.Sig = "after-sibling-etype:" + v2.Sig
				v2.Msg = fmt.Sprintf("after using the same key octets and usage under etype %d/%d: %s", c.EType, c.Then, v2.Msg)
				return v2
			}
		}
	}
	return v
}

func eval1(c Case) evid.Verdict {
	return evid.SafeEval(func() evid.Verdict {
		key, _ := hex.DecodeString(c.Key)
		plain, _ := hex.DecodeString(c.Plain)
		conf, _ := hex.DecodeString(c.Conf)
		sig := fmt.Sprintf("interop:%s:etype%d:%s", c.Dir, c.EType, usageClass(c.Usage))
		ek := types.EncryptionKey{KeyType: c.EType, KeyValue: key}
		want := padded(c.EType, plain)
		switch c.Dir {
		case "lib2ref":
			ed, err := crypto.GetEncryptedData(plain, ek, c.Usage, 1)
			if err != nil {
				return evid.Fail(sig, "library failed to encrypt: %v", err)
			}
			if ed.EType != c.EType {
				return evid.Fail(sig, "EncryptedData.EType=%d want %d", ed.EType, c.EType)
			}
			if len(ed.Cipher) != ref.EncryptedLen(c.EType, len(plain)) {
				return evid.Fail(sig+":length", "ciphertext length %d, RFC formula gives %d", len(ed.Cipher), ref.EncryptedLen(c.EType, len(plain)))
			}
			got, _, err := ref.Decrypt(c.EType, key, c.Usage, ed.Cipher)
			if err != nil {
				return evid.Fail(sig, "reference cannot decrypt what the library encrypted: %v (ct=%x)", err, ed.Cipher)
			}
			if !bytes.Equal(got, want) {
				return evid.Fail(sig, "reference decrypted %x, want %x", got, want)
			}
			// the caller encrypts the plaintext it holds once more (same slices): the reference must again recover that plaintext
			ed2, err := crypto.GetEncryptedData(plain, ek, c.Usage, 1)
			if err != nil {
				return evid.Fail("again:"+sig, "library failed to encrypt the same plaintext a second time: %v", err)
			}
			if got, _, err := ref.Decrypt(c.EType, key, c.Usage, ed2.Cipher); err != nil || !bytes.Equal(got, want) {
				return evid.Fail("again:"+sig, "second encryption of the same plaintext buffer under the same key buffer: the reference decrypts it to %x (%v), want %x", got, err, want)
			}
		case "ref2lib":
			if len(conf) > ref.ConfounderLen(c.EType) {
				conf = conf[:ref.ConfounderLen(c.EType)]
			}
			ct, err := ref.Encrypt(c.EType, key, c.Usage, plain, conf)
			if err != nil {
				return evid.Fail("harness", "reference failed to encrypt: %v", err)
			}
			got, err := crypto.DecryptMessage(ct, ek, c.Usage)
			if err != nil {
				return evid.Fail(sig, "library cannot decrypt what the reference encrypted: %v (ct=%x)", err, ct)
			}
			if !bytes.Equal(got, want) {
				return evid.Fail(sig, "library decrypted %x, want %x", got, want)
			}
			// the typed entry point must agree
			got2, err := crypto.DecryptEncPart(types.EncryptedData{EType: c.EType, Cipher: ct}, ek, c.Usage)
			if err != nil || !bytes.Equal(got2, want) {
				return evid.Fail(sig, "DecryptEncPart disagrees with DecryptMessage: %x, %v", got2, err)
			}
		case "fresh":
			et, err := crypto.GetEtype(c.EType)
			if err != nil {
				return evid.Fail(sig, "GetEtype: %v", err)
			}
			// six encryptions in a row by one goroutine: all ciphertexts and all confounders differ, and no confounder is made of
			// octets the caller supplied (the plaintext of this or an earlier call)
			const M = 6
			var cts, confs [][]byte
			for i := 0; i < M; i++ {
				_, ct, err := et.EncryptMessage(key, plain, c.Usage)
				if err != nil {
					return evid.Fail(sig, "library failed to encrypt: %v", err)
				}
				got, f, err := ref.Decrypt(c.EType, key, c.Usage, ct)
				if err != nil || !bytes.Equal(got, want) {
					return evid.Fail(sig, "reference cannot decrypt encryption %d of the same plaintext: %x %v", i+1, got, err)
				}
				for j := range cts {
					if bytes.Equal(cts[j], ct) {
						return evid.Fail("confounder:"+fmt.Sprint(c.EType), "encryptions %d and %d of the same plaintext (same key and usage, one after the other) are identical: %x", j+1, i+1, ct)
					}
					if bytes.Equal(confs[j], f) {
						return evid.Fail("confounder:"+fmt.Sprint(c.EType), "encryptions %d and %d used the same confounder %x", j+1, i+1, f)
					}
				}
				if bytes.Equal(f, make([]byte, len(f))) {
					return evid.Fail("confounder:"+fmt.Sprint(c.EType), "all-zero confounder")
				}
				if len(plain) >= len(f) && bytes.Equal(f, plain[:len(f)]) {
					return evid.Fail("confounder:"+fmt.Sprint(c.EType), "encryption %d uses the first octets of the plaintext as its confounder: %x", i+1, f)
				}
				cts, confs = append(cts, ct), append(confs, f)
			}
		case "fresh-concurrent":
			// 8 goroutines encrypt the same plaintext under the same key and usage at the same time: every
			// message must still get its own random confounder
			et, err := crypto.GetEtype(c.EType)
			if err != nil {
				return evid.Fail(sig, "GetEtype: %v", err)
			}
			const G, M = 8, 400
			out := make([][][]byte, G)
			var wg sync.WaitGroup
			start := make(chan struct{})
			for g := 0; g < G; g++ {
				wg.Add(1)
				go func(g int) {
					defer wg.Done()
					<-start
					for i := 0; i < M; i++ {
						_, ct, err := et.EncryptMessage(key, plain, c.Usage)
						if err != nil {
							return
						}
						out[g] = append(out[g], ct)
					}
				}(g)
			}
			close(start)
			wg.Wait()
			seen := map[string]bool{}
			n := 0
			for g := range out {
				for _, ct := range out[g] {
					n++
					if seen[string(ct)] {
						return evid.Fail("confounder-concurrent:"+fmt.Sprint(c.EType), "two of %d messages encrypted concurrently (same key, usage and plaintext) are byte-identical: a confounder was used twice", n)
					}
					seen[string(ct)] = true
				}
			}
			if n != G*M {
				return evid.Fail(sig, "only %d of %d concurrent encryptions succeeded", n, G*M)
			}
			// a sample must still interoperate
			for g := 0; g < G; g++ {
				got, _, err := ref.Decrypt(c.EType, key, c.Usage, out[g][M-1])
				if err != nil || !bytes.Equal(got, want) {
					return evid.Fail(sig, "reference cannot decrypt a concurrently encrypted message: %v", err)
				}
			}
		case "fresh-faulty-source":
			// fault injection: the process's random source delivers c.Fault octets (fewer than a confounder) and then
			// reports an error. Refusing to encrypt is fine; two equal ciphertexts for one plaintext are not.
			if c.Fault < 0 || c.Fault >= ref.ConfounderLen(c.EType) {
				return evid.Fail("harness", "fault after %d octets does not starve a confounder of etype %d", c.Fault, c.EType)
			}
			if !randReaderMayFail() {
				return evid.Pass() // from go1.24 on a failing crypto/rand.Reader aborts the process by design
			}
			et, err := crypto.GetEtype(c.EType)
			if err != nil {
				return evid.Fail(sig, "GetEtype: %v", err)
			}
			old := rand.Reader
			defer func() { rand.Reader = old }()
			rand.Reader = &faultySource{left: c.Fault}
			_, c1, err1 := et.EncryptMessage(key, plain, c.Usage)
			rand.Reader = &faultySource{left: c.Fault}
			_, c2, err2 := et.EncryptMessage(key, plain, c.Usage)
			rand.Reader = old
			if err1 == nil && err2 == nil && bytes.Equal(c1, c2) {
				return evid.Fail("confounder-faulty-source:"+fmt.Sprint(c.EType), "the random source failed after %d octets, yet both encryptions returned no error and the same ciphertext %x", c.Fault, c1)
			}
		default:
			return evid.Fail("harness", "bad dir %q", c.Dir)
		}
		return evid.Pass()
	})
}

// faultySource delivers a fixed octet pattern and reports an error once it has run dry.
type faultySource struct{ left int }

func (f *faultySource) Read(p []byte) (int, error) {
	n := 0
	for n < len(p) && f.left > 0 {
		p[n] = 0xd0 + byte(f.left)
		n++
		f.left--
	}
	if n < len(p) {
		return n, errors.New("c05: injected fault: random source unavailable")
	}
	return n, nil
}

// randReaderMayFail reports whether this toolchain lets crypto/rand.Read return the error of a replaced Reader
// (up to go1.23; later releases treat it as fatal).
func randReaderMayFail() bool {
	var major, minor int
	if _, err := fmt.Sscanf(runtime.Version(), "go%d.%d", &major, &minor); err != nil {
		return false
	}
	return major == 1 && minor <= 23
}

func lenClass(et int32, n int) string {
	b := 16
	if et == ref.DES3 {
		b = 8
	}
	switch {
	case n == 0:
		return "len0"
	case n%b == 0:
		return "len=k*blk"
	case n%b == 1:
		return "len=k*blk+1"
	case n%b == b-1:
		return "len=k*blk-1"
	}
	return "len-other"
}

func count(r *evid.Run, c Case) {
	n := len(c.Plain) / 2
	lab := []string{fmt.Sprintf("etype%d", c.EType), lenClass(c.EType, n), usageClass(c.Usage), c.Dir}
	if c.Then != 0 {
		lab = append(lab, "then-sibling-etype-with-same-key")
	}
	r.Count(fmt.Sprintf("%d|%d|%d|%s|%d", c.EType, n, c.Usage, c.Dir, c.Then), lab...)
	r.Sample(fmt.Sprintf("%s/etype%d", c.Dir, c.EType), c)
}

func TestProp(t *testing.T) {
	r := evid.Start(t, "C05", "exploration")
	evid.Reg(r, "interop", Eval)
	evid.Reg(r, "grid", Eval)
	if r.Replay() {
		return
	}
	r.Regress()
	defer r.Finish()
	if err := ref.SelfTest(); err != nil {
		r.Inconclusive("reference crypto self-test failed: %v", err)
		return
	}
	r.Rule("rapid: etype x plaintext length 0..130 biased to block boundaries x usage set (library constants + 127,128,255,256,1024,2^31) x random key/content/confounder x direction {lib->ref, ref->lib, freshness}; every case is a real interop exchange, distinct by (etype,len,usage,direction)")
	r.Assume("reference implementation ref/krbcrypto validated at start-up against RFC 3961/3962/8009 appendix vectors")
	r.Rapid("interop", r.N(6000, 200000), func(t *rapid.T) {
		et := kgen.EType(t)
		c := Case{EType: et, Usage: kgen.Usage(t), Dir: rapid.SampledFrom([]string{"lib2ref", "ref2lib", "lib2ref", "ref2lib", "fresh"}).Draw(t, "dir")}
		c.Key = hex.EncodeToString(kgen.Key(t, et, "key"))
		n := kgen.BoundaryLen(t, 130)
		if rapid.IntRange(0, 14).Draw(t, "longer") == 0 {
			n = rapid.SampledFrom([]int{200, 257, 600, 1500, 4099, 70000}).Draw(t, "longlen") // beyond the quantifier: ticket-sized and larger
		}
		c.Plain = hex.EncodeToString(kgen.Bytes(t, "plain", n))
		c.Conf = hex.EncodeToString(kgen.Bytes(t, "conf", 16))
		var sib []int32
		for _, o := range ref.ETypes {
			if o != et && ref.KeyLen(o) == ref.KeyLen(et) {
				sib = append(sib, o)
			}
		}
		if len(sib) > 0 && rapid.IntRange(0, 3).Draw(t, "withsibling") == 0 {
			c.Then = rapid.SampledFrom(sib).Draw(t, "sibling")
		}
		count(r, c)
		if r.Judge("interop", c, Eval(c)) {
			t.Fatalf("violation")
		}
	})
	// Grid: every etype x every length 0..130 x every usage, both directions, fresh key per cell.
	// Quick takes a seed-dependent 1/8 slice of the usages per (etype,len); thorough takes all.
	r.Rule("grid: etype x every length 0..130 (thorough: 0..300 and 511..513, 1023..1025, 4095..4097, 65535..65537) x usage set x both directions, key per cell from a seeded stream (quick: 1/6 of the usages per cell, thorough: all)")
	type cell struct {
		et int32
		n  int
	}
	cells := []cell{}
	gridLens := []int{}
	for n := 0; n <= r.N(130, 300); n++ {
		gridLens = append(gridLens, n)
	}
	if r.Thorough() {
		gridLens = append(gridLens, 511, 512, 513, 1023, 1024, 1025, 4095, 4096, 4097, 65535, 65536, 65537)
	}
	for _, et := range ref.ETypes {
		for _, n := range gridLens {
			cells = append(cells, cell{et, n})
		}
	}
	// every key usage number for every etype: the n-fold of the derivation constant runs through every carry pattern of
	// its arithmetic within a few thousand consecutive numbers
	maxU := r.N(8191, 65535)
	r.Rule(fmt.Sprintf("usage sweep: for every etype EVERY key usage 1..%d, library encrypts / reference decrypts and reference encrypts / library decrypts (fixed key and 21-octet plaintext per etype)", maxU))
	evid.Parallel(len(ref.ETypes)*16, 16, func(i int) {
		et := ref.ETypes[i/16]
		lbl := fmt.Sprintf("c05/usages/%d", et)
		key := hex.EncodeToString(ref.RandomKey(et, kgen.DetBytes(r.Seed(), lbl+"/k", 32)))
		plain := hex.EncodeToString(kgen.DetBytes(r.Seed(), lbl+"/p", 21))
		conf := hex.EncodeToString(kgen.DetBytes(r.Seed(), lbl+"/c", ref.ConfounderLen(et)))
		for u := 1 + i%16; u <= maxU; u += 16 {
			for _, dir := range []string{"lib2ref", "ref2lib"} {
				c := Case{EType: et, Usage: uint32(u), Dir: dir, Key: key, Plain: plain, Conf: conf}
				count(r, c)
				r.Violation("grid", c, Eval(c))
			}
		}
	})
	r.Exhaustive(fmt.Sprintf("etype x every key usage 1..%d x direction", maxU))
	evid.Parallel(len(cells), 16, func(i int) {
		ce := cells[i]
		for ui, u := range kgen.Usages {
			if r.Quick() && (ui+ce.n+int(r.Seed()))%6 != 0 {
				continue
			}
			for _, dir := range []string{"lib2ref", "ref2lib"} {
				lbl := fmt.Sprintf("c05/%d/%d/%d", ce.et, ce.n, u)
				c := Case{EType: ce.et, Usage: u, Dir: dir,
					Key:   hex.EncodeToString(ref.RandomKey(ce.et, kgen.DetBytes(r.Seed(), lbl+"/k", 32))),
					Plain: hex.EncodeToString(kgen.DetBytes(r.Seed(), lbl+"/p", ce.n)),
					Conf:  hex.EncodeToString(kgen.DetBytes(r.Seed(), lbl+"/c", ref.ConfounderLen(ce.et)))}
				count(r, c)
				r.Violation("grid", c, Eval(c))
			}
		}
	})
	// fresh, enumerated: plaintext lengths around the confounder and block sizes, six encryptions in a row each
	r.Rule("fresh (enumerated + rapid): for every etype and plaintext length in {0, 1, 7, 8, 15, 16, 17, 31, 32, 33, 64, 100, 500, 600}: six encryptions in a row of the same (key, usage, plaintext): ciphertexts and confounders pairwise distinct, no confounder all-zero or equal to the first octets of the plaintext")
	for _, et := range ref.ETypes {
		for li, n := range []int{0, 1, 7, 8, 15, 16, 17, 31, 32, 33, 64, 100, 500, 600} {
			lbl := fmt.Sprintf("c05/fresh/%d/%d", et, n)
			c := Case{EType: et, Usage: kgen.Usages[(li+int(r.Seed()))%len(kgen.Usages)], Dir: "fresh",
				Key: hex.EncodeToString(ref.RandomKey(et, kgen.DetBytes(r.Seed(), lbl+"/k", 32))), Plain: hex.EncodeToString(kgen.DetBytes(r.Seed(), lbl+"/p", n))}
			count(r, c)
			r.Violation("grid", c, Eval(c))
		}
	}
	r.Rule("fresh-concurrent: for every etype, 8 goroutines x 400 encryptions of the same (key, usage, plaintext of 5, 21, 37, ... octets) at once: all 3200 ciphertexts distinct and decryptable by the reference")
	for _, et := range ref.ETypes {
		for k := 0; k < r.N(3, 8); k++ {
			lbl := fmt.Sprintf("c05/conc/%d/%d", et, k)
			c := Case{EType: et, Usage: kgen.Usages[(k*5+int(r.Seed()))%len(kgen.Usages)], Dir: "fresh-concurrent",
				Key: hex.EncodeToString(ref.RandomKey(et, kgen.DetBytes(r.Seed(), lbl+"/k", 32))), Plain: hex.EncodeToString(kgen.DetBytes(r.Seed(), lbl+"/p", 5+k*16))}
			count(r, c)
			r.Violation("grid", c, Eval(c))
		}
	}
	// injected fault: the random source runs dry inside the confounder (serial: the source is process-wide)
	r.Rule("fresh-faulty-source: for every etype and every count of octets below the confounder length, crypto/rand.Reader is replaced by a source that fails after that many octets; two encryptions of one plaintext must not both succeed with equal ciphertexts")
	if randReaderMayFail() {
		for _, et := range ref.ETypes {
			for f := 0; f < ref.ConfounderLen(et); f++ {
				lbl := fmt.Sprintf("c05/fault/%d/%d", et, f)
				c := Case{EType: et, Usage: kgen.Usages[(f+int(r.Seed()))%len(kgen.Usages)], Dir: "fresh-faulty-source", Fault: f,
					Key: hex.EncodeToString(ref.RandomKey(et, kgen.DetBytes(r.Seed(), lbl+"/k", 32))), Plain: hex.EncodeToString(kgen.DetBytes(r.Seed(), lbl+"/p", 3+f*5))}
				count(r, c)
				r.Violation("grid", c, Eval(c))
			}
		}
		r.Exhaustive("etype x every fault position inside the confounder")
	} else {
		r.Label("fresh-faulty-source:skipped (toolchain aborts on a failing random source)")
	}
	if r.Thorough() {
		r.Exhaustive("etype x length 0..300 x usage set x direction (keys/contents sampled)")
	}
}
