package c14

import (
	"bytes"
	"encoding/hex"
	"fmt"
	"os"
	"os/exec"
	"path/filepath"
	"regexp"
	"strings"
	"sync"

	"verif/harness/evid"
	ktf "verif/harness/ref/keytabfmt"
)

// The JDK's keytab reader (sun.security.krb5.internal.ktab.KeyTab) referees the independent Go
// reader on a sample of generated files in the thorough tier. It judges the reference, never
// gokrb5: a disagreement makes the run inconclusive. The JDK reader is usable only on a subset:
// version 2 (it reads a name type in version-1 files too), nothing after an end mark (it does not
// stop at a zero length), realms and components that its Realm / PrincipalName classes accept.

var (
	jdkMu    sync.Mutex
	jdkFiles [][]byte
	jdkSeen  = map[string]bool{}
	reRealm  = regexp.MustCompile(`^[A-Za-z0-9.\-]+$`)
	reComp   = regexp.MustCompile(`^[A-Za-z0-9.\-_]+$`)
)

const jdkMax = 8000

func jdkSafe(f FileM) bool {
	if f.Version != 2 || f.Hex != "" || f.After != "" {
		return false
	}
	for _, m := range f.Entries {
		if !reRealm.MatchString(string(m.Realm)) || len(m.Comps) == 0 || m.EType >= 0x8000 || m.EType == 0 || len(m.Key) == 0 || m.NameType >= 1<<31 {
			return false
		}
		for _, c := range m.Comps {
			if !reComp.MatchString(string(c)) {
				return false
			}
		}
	}
	return true
}

// jdkCollect remembers a rendered file for the cross-check.
func jdkCollect(f FileM, b []byte) {
	if !jdkSafe(f) {
		return
	}
	jdkMu.Lock()
	defer jdkMu.Unlock()
	if len(jdkFiles) >= jdkMax || jdkSeen[string(b)] {
		return
	}
	jdkSeen[string(b)] = true
	jdkFiles = append(jdkFiles, b)
}

var jdkExports = []string{
	"--add-exports", "java.security.jgss/sun.security.krb5=ALL-UNNAMED",
	"--add-exports", "java.security.jgss/sun.security.krb5.internal=ALL-UNNAMED",
	"--add-exports", "java.security.jgss/sun.security.krb5.internal.ktab=ALL-UNNAMED",
}

func refLine(es []ktf.Entry) string {
	var sb strings.Builder
	fmt.Fprintf(&sb, "OK %d", len(es))
	for _, e := range es {
		cs := []string{}
		for _, c := range e.Components {
			cs = append(cs, hex.EncodeToString([]byte(c)))
		}
		fmt.Fprintf(&sb, " {%x;%s;%d;%d;%d;%d;%x}", e.Realm, strings.Join(cs, ","), e.NameType, e.Timestamp, e.KVNO(), e.KeyType, e.Key)
	}
	return sb.String()
}

// jdkCrossCheck lists the collected files with the JDK and compares with the reference reader.
func jdkCrossCheck(r *evid.Run) {
	jdkMu.Lock()
	files := jdkFiles
	jdkMu.Unlock()
	skip := func(why string) {
		r.Assume("JDK cross-check of ref/keytabfmt skipped: " + why)
	}
	if len(files) == 0 {
		skip("no suitable files were generated")
		return
	}
	javac, err1 := exec.LookPath("javac")
	java, err2 := exec.LookPath("java")
	if err1 != nil || err2 != nil {
		skip("no JDK on PATH")
		return
	}
	dir, err := os.MkdirTemp("", "c14-jdk-")
	if err != nil {
		skip(err.Error())
		return
	}
	defer os.RemoveAll(dir)
	cls, in := filepath.Join(dir, "classes"), filepath.Join(dir, "files")
	os.MkdirAll(cls, 0o755)
	os.MkdirAll(in, 0o755)
	args := append([]string{"-nowarn", "-encoding", "UTF-8"}, jdkExports...)
	args = append(args, "-d", cls, filepath.Join("jdk", "KtList.java"))
	if out, err := exec.Command(javac, args...).CombinedOutput(); err != nil {
		skip(fmt.Sprintf("javac failed: %v: %s", err, firstLine(string(out))))
		return
	}
	for i, b := range files {
		if err := os.WriteFile(filepath.Join(in, fmt.Sprintf("f%06d.keytab", i)), b, 0o600); err != nil {
			skip(err.Error())
			return
		}
	}
	args = append(append([]string{}, jdkExports...), "-Djava.security.krb5.conf=/dev/null", "-cp", cls, "KtList", in)
	cmd := exec.Command(java, args...)
	var stderr bytes.Buffer
	cmd.Stderr = &stderr
	out, err := cmd.Output()
	if err != nil {
		skip(fmt.Sprintf("java failed: %v: %s", err, firstLine(stderr.String())))
		return
	}
	lines := strings.Split(strings.TrimSpace(string(out)), "\n")
	if len(lines) != len(files) {
		skip(fmt.Sprintf("JDK lister printed %d lines for %d files", len(lines), len(files)))
		return
	}
	agree, disagree, entries := 0, 0, 0
	for i, l := range lines {
		sp := strings.SplitN(l, " ", 2)
		if len(sp) != 2 {
			continue
		}
		_, es, err := ktf.Read(files[i])
		want := "ERR reference: " + fmt.Sprint(err)
		if err == nil {
			want = refLine(es)
		}
		if sp[1] == want {
			agree++
			entries += len(es)
			continue
		}
		disagree++
		if disagree <= 3 {
			r.Inconclusive("the JDK keytab reader and ref/keytabfmt disagree on a generated file (reference suspect):\n  file: %x\n  JDK:       %s\n  reference: %s", files[i], cut(sp[1], 600), cut(want, 600))
		}
	}
	r.Extra("jdk_cross_check", map[string]int{"files": len(files), "agree": agree, "disagree": disagree, "entries_compared": entries})
	r.Assume(fmt.Sprintf("ref/keytabfmt agrees with the JDK keytab reader on %d of %d generated version-2 files (holes, slack, missing / zero / overriding 32-bit key versions, end marks)", agree, len(files)))
}

func firstLine(s string) string {
	s = strings.TrimSpace(s)
	if i := strings.Index(s, "\n"); i >= 0 {
		s = s[:i]
	}
	return cut(s, 300)
}

func cut(s string, n int) string {
	if len(s) > n {
		return s[:n] + "..."
	}
	return s
}
