// Lists the entries of keytab files with the JDK's own reader (sun.security.krb5.internal.ktab).
// Used by the thorough tier of C14 as a referee of the independent Go reader, never of gokrb5.
//   java KtList <directory>   -> one line per file (sorted by name):
//   <file> OK <n> {<realm hex>;<comp hex>,<comp hex>...;<name type>;<timestamp mod 2^32>;<kvno>;<etype>;<key hex>} ...
//   <file> ERR <exception>
import java.io.File;
import java.util.Arrays;
import sun.security.krb5.EncryptionKey;
import sun.security.krb5.PrincipalName;
import sun.security.krb5.internal.ktab.KeyTab;
import sun.security.krb5.internal.ktab.KeyTabEntry;

public class KtList {
    static String hex(byte[] b) {
        StringBuilder sb = new StringBuilder();
        for (byte x : b) sb.append(String.format("%02x", x & 0xff));
        return sb.toString();
    }

    public static void main(String[] args) throws Exception {
        File[] files = new File(args[0]).listFiles();
        Arrays.sort(files);
        StringBuilder out = new StringBuilder();
        for (File f : files) {
            out.append(f.getName());
            try {
                KeyTab kt = KeyTab.getInstance(f);
                if (kt.isMissing() || !kt.isValid()) {
                    out.append(" ERR missing-or-invalid\n");
                    continue;
                }
                KeyTabEntry[] es = kt.getEntries();
                out.append(" OK ").append(es.length);
                for (KeyTabEntry e : es) {
                    PrincipalName p = e.getService();
                    EncryptionKey k = e.getKey();
                    out.append(" {").append(hex(p.getRealmString().getBytes("ISO-8859-1"))).append(';');
                    String[] parts = p.getNameStrings();
                    for (int i = 0; i < parts.length; i++) {
                        if (i > 0) out.append(',');
                        out.append(hex(parts[i].getBytes("ISO-8859-1")));
                    }
                    long ts = Math.floorDiv(e.getTimeStamp().getTime(), 1000L) & 0xffffffffL;
                    long kvno = k.getKeyVersionNumber() == null ? -1 : (k.getKeyVersionNumber().intValue() & 0xffffffffL);
                    out.append(';').append(p.getNameType() & 0xffffffffL).append(';').append(ts).append(';').append(kvno)
                       .append(';').append(k.getEType()).append(';').append(hex(k.getBytes())).append('}');
                }
                out.append('\n');
            } catch (Throwable t) {
                out.append(" ERR ").append(t.toString().replace('\n', ' ')).append('\n');
            }
        }
        System.out.print(out);
    }
}
