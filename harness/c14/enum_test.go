package c14

import (
	"encoding/hex"
	"fmt"
	"strings"

	"verif/harness/evid"
	"verif/harness/kgen"
)

type judgeFn func(check string, idx int, c Case, labels ...string)

func u32p(v uint32) *uint32 { return &v }

// enumerate runs the bounded-exhaustive parts.
// judge records a failing case per (check, signature), flush reports them once a parallel section is over.
func enumerate(r *evid.Run, judge judgeFn, flush func()) {
	det := func(label string, n int) string { return hex.EncodeToString(kgen.DetBytes(r.Seed(), label, n)) }

	// ---- layout grid --------------------------------------------------------------------------
	r.Rule("grid (exhaustive): version {1,2} x entries {0,1,2,3} x components {0..4} x 32-bit key version {absent, 0, = vno8, 300, 2^32-1} x hole before the entry {none,1,4,40} x slack {none,1,3,4 zeros,9 zeros} x file end {plain, end mark, trailing hole, trailing hole + end mark}; in files with several entries the features rotate over the entries; contents seeded")
	kvModes := []string{"absent", "zero", "same", "300", "max"}
	holes := []int{0, 1, 4, 40}
	pads := []int{0, 1, 3, 4, 9}
	ends := []string{"plain", "end-mark", "trail-hole", "trail-hole+end-mark"}
	type gj struct{ ver, n, nc, kv, h, p, e int }
	jobs := []gj{}
	for ver := 1; ver <= 2; ver++ {
		for n := 0; n <= 3; n++ {
			for nc := 0; nc <= 4; nc++ {
				for kv := range kvModes {
					for h := range holes {
						for p := range pads {
							for e := range ends {
								if n == 0 && (nc > 0 || kv > 0 || p > 0) {
									continue // nothing to vary without entries (holes and ends still vary)
								}
								jobs = append(jobs, gj{ver, n, nc, kv, h, p, e})
							}
						}
					}
				}
			}
		}
	}
	evid.Parallel(len(jobs), 16, func(i int) {
		j := jobs[i]
		lbl := fmt.Sprintf("grid/%v", j)
		f := FileM{Version: j.ver}
		labels := []string{fmt.Sprintf("version%d", j.ver), fmt.Sprintf("entries%d", j.n), "end:" + ends[j.e]}
		for k := 0; k < j.n; k++ {
			m := EntryM{Realm: BS("R" + det(lbl+"/realm", 2) + ".EXAMPLE"), TS: uint32(1500000000 + 1000*k + int(kgen.DetBytes(r.Seed(), lbl+"/ts", 1)[0])),
				KVNO8: uint8(1 + k + int(kgen.DetBytes(r.Seed(), lbl+"/vno", 1)[0])%200), EType: []uint16{18, 17, 23}[(k+j.kv)%3], Comps: []BS{}}
			for c := 0; c < j.nc; c++ {
				m.Comps = append(m.Comps, BS(fmt.Sprintf("c%d-%s", c, det(fmt.Sprintf("%s/%d/comp%d", lbl, k, c), 1+c))))
			}
			if j.ver == 2 {
				m.NameType = uint32(1 + k)
			}
			m.Key = det(fmt.Sprintf("%s/%d/key", lbl, k), []int{16, 32, 24}[k%3])
			mode := kvModes[(j.kv+k)%len(kvModes)]
			switch mode {
			case "zero":
				m.KV32 = u32p(0)
			case "same":
				m.KV32 = u32p(uint32(m.KVNO8))
			case "300":
				m.KV32 = u32p(300)
			case "max":
				m.KV32 = u32p(1<<32 - 1)
			}
			labels = append(labels, "vno32:"+mode)
			m.HoleBefore = holes[(j.h+k)%len(holes)]
			if m.HoleBefore > 0 {
				labels = append(labels, "hole:between")
			}
			pad := pads[(j.p+k)%len(pads)]
			switch {
			case pad >= 4 && m.KV32 == nil:
				m.Pad = strings.Repeat("00", pad) // the remains of a zero-filled hole: reads as "no 32-bit key version"
			case pad > 0:
				m.Pad = det(fmt.Sprintf("%s/%d/pad", lbl, k), pad)
			}
			if pad > 0 {
				labels = append(labels, fmt.Sprintf("slack:%d", pad))
			}
			f.Entries = append(f.Entries, m)
		}
		if j.n == 0 && holes[j.h] > 0 {
			// a keytab whose only entry was deleted
			f.TrailHole = holes[j.h]
		}
		if strings.HasPrefix(ends[j.e], "trail-hole") {
			f.TrailHole += 5
		}
		f.EndMark = strings.HasSuffix(ends[j.e], "end-mark")
		c := Case{Kind: "grid", File: &f}
		// one exact and one kvno-0 lookup per entry keep the lookup path exercised on every layout
		for _, m := range f.Entries {
			kv := uint32(m.KVNO8)
			if m.KV32 != nil && *m.KV32 != 0 {
				kv = *m.KV32
			}
			c.Lookups = append(c.Lookups, LookupM{Comps: m.Comps, Realm: m.Realm, KVNO: kv, EType: int32(m.EType), Mut: "exact"},
				LookupM{Comps: m.Comps, Realm: m.Realm, KVNO: uint32(m.KVNO8) + 256, EType: int32(m.EType), Mut: "other-kvno"})
		}
		judge("grid", i, c, labels...)
	})
	flush()
	r.Exhaustive("keytab layout grid: version x entries 0..3 x components 0..4 x 32-bit key version mode x hole x slack x file end")

	// ---- name length bounds -------------------------------------------------------------------
	r.Rule("names (exhaustive): version {1,2} x realm length {0,1,254,255,256,257,32767} x component length (same set) x {1,2} components, with an exact lookup and a lookup for the name shortened by one byte")
	lens := []int{0, 1, 254, 255, 256, 257, 32767}
	type nj struct{ ver, rl, cl, nc int }
	njobs := []nj{}
	for ver := 1; ver <= 2; ver++ {
		for _, rl := range lens {
			for _, cl := range lens {
				for nc := 1; nc <= 2; nc++ {
					njobs = append(njobs, nj{ver, rl, cl, nc})
				}
			}
		}
	}
	evid.Parallel(len(njobs), 16, func(i int) {
		j := njobs[i]
		m := EntryM{Realm: rep("R.", j.rl), TS: 1600000000, KVNO8: 3, KV32: u32p(3), EType: 18, Key: det(fmt.Sprintf("names/%v", j), 32), Comps: []BS{}}
		if j.ver == 2 {
			m.NameType = 1
		}
		for c := 0; c < j.nc; c++ {
			m.Comps = append(m.Comps, rep("host", j.cl))
		}
		f := FileM{Version: j.ver, Entries: []EntryM{m, m}}
		f.Entries[1].KV32 = nil
		f.Entries[1].Key = det(fmt.Sprintf("names/%v/2", j), 16)
		f.Entries[1].TS = 1600000001
		c := Case{Kind: "names", File: &f, Lookups: []LookupM{{Comps: m.Comps, Realm: m.Realm, KVNO: 3, EType: 18, Mut: "exact"}, {Comps: m.Comps, Realm: m.Realm, KVNO: 0, EType: 18, Mut: "kvno0"}}}
		if j.rl > 0 {
			c.Lookups = append(c.Lookups, LookupM{Comps: m.Comps, Realm: m.Realm[:j.rl-1], KVNO: 3, EType: 18, Mut: "other-realm"})
		}
		if j.cl > 0 {
			cs := append([]BS{}, m.Comps...)
			cs[len(cs)-1] = cs[len(cs)-1][:j.cl-1]
			c.Lookups = append(c.Lookups, LookupM{Comps: cs, Realm: m.Realm, KVNO: 3, EType: 18, Mut: "comp-mod"})
		}
		judge("names", i, c, fmt.Sprintf("version%d", j.ver), fmt.Sprintf("realm-len%d", j.rl), fmt.Sprintf("comp-len%d", j.cl))
	})
	flush()
	r.Exhaustive("name lengths {0,1,254,255,256,257,32767} for realm x component, both versions")

	// ---- lookup grid --------------------------------------------------------------------------
	r.Rule("lookup-grid (exhaustive): a fixed 15-entry keytab (one principal with key versions 1, 2, 3 (no 32-bit field), 300 (vno8 44), a second etype, a timestamp tie, plus near-miss entries: realm extended / truncated / lower-case, component prefix, extension, truncation, case change, no components, key type 0x8012) in both versions and three entry orders, queried with every combination of 6 realms x 9 component lists x 4 etypes x 12 key versions")
	P0 := []BS{"HTTP", "host.example.com"}
	R0 := BS("EXAMPLE.COM")
	type ge struct {
		comps []BS
		realm BS
		et    uint16
		vno8  uint8
		kv32  *uint32
		ts    uint32
	}
	base := []ge{
		{P0, R0, 18, 1, u32p(1), 1000},
		{P0, R0, 18, 2, u32p(2), 3000},
		{P0, R0, 18, 3, nil, 2000},
		{P0, R0, 18, 44, u32p(300), 2500},
		{P0, R0, 17, 2, u32p(2), 3500},
		{P0, "EXAMPLE.COMX", 18, 2, u32p(2), 4000},
		{P0, "EXAMPLE.CO", 18, 2, u32p(2), 4100},
		{[]BS{"HTTP"}, R0, 18, 2, u32p(2), 4200},
		{[]BS{"HTTP", "host.example.com", "extra"}, R0, 18, 2, u32p(2), 4300},
		{[]BS{"HTTP", "host.example.co"}, R0, 18, 2, u32p(2), 4400},
		{[]BS{"http", "host.example.com"}, R0, 18, 5, u32p(5), 4500},
		{P0, "example.com", 18, 7, u32p(7), 4600},
		{P0, R0, 18, 2, u32p(2), 3000}, // ties with the second entry, other key
		{P0, R0, 0x8012, 9, u32p(9), 5000},
		{[]BS{}, R0, 18, 2, u32p(2), 4700},
	}
	realms := []BS{R0, "EXAMPLE.COMX", "EXAMPLE.CO", "example.com", "", "EXAMPLE.COM "}
	compLists := [][]BS{P0, {"HTTP"}, {"HTTP", "host.example.com", "extra"}, {"HTTP", "host.example.co"}, {"http", "host.example.com"}, {},
		{"HTTP/host.example.com"}, {"host.example.com", "HTTP"}, {"HTTP", ""}}
	etypes := []int32{18, 17, 23, 0}
	kvnos := []uint32{0, 1, 2, 3, 44, 300, 4, 5, 7, 9, 258, 1<<32 - 1}
	type lj struct {
		ver, ord int
		l        LookupM
	}
	ljobs := []lj{}
	for ver := 1; ver <= 2; ver++ {
		for ord := 0; ord < 3; ord++ {
			for _, rl := range realms {
				for ci, cs := range compLists {
					for _, et := range etypes {
						for _, kv := range kvnos {
							mut := "grid"
							if rl == R0 && ci == 0 && et == 18 && (kv == 1 || kv == 2 || kv == 3 || kv == 300) {
								mut = "exact"
							}
							ljobs = append(ljobs, lj{ver, ord, LookupM{Comps: cs, Realm: rl, KVNO: kv, EType: et, Mut: mut}})
						}
					}
				}
			}
		}
	}
	files := map[[2]int]*FileM{}
	for ver := 1; ver <= 2; ver++ {
		for ord := 0; ord < 3; ord++ {
			f := &FileM{Version: ver}
			for k := range base {
				idx := k
				switch ord {
				case 1:
					idx = len(base) - 1 - k
				case 2:
					idx = (k + 7) % len(base)
				}
				b := base[idx]
				m := EntryM{Realm: b.realm, Comps: b.comps, TS: b.ts, KVNO8: b.vno8, KV32: b.kv32, EType: b.et, Key: det(fmt.Sprintf("lookup-grid/key%d", idx), 32)}
				if ver == 2 {
					m.NameType = 1
				}
				f.Entries = append(f.Entries, m)
			}
			files[[2]int{ver, ord}] = f
		}
	}
	evid.Parallel(len(ljobs), 16, func(i int) {
		j := ljobs[i]
		c := Case{Kind: "lookup-grid", File: files[[2]int{j.ver, j.ord}], Lookups: []LookupM{j.l}}
		judge("lookup-grid", i, c, fmt.Sprintf("version%d", j.ver), fmt.Sprintf("order%d", j.ord))
	})
	flush()
	r.Exhaustive("lookups: 6 realms x 9 component lists x 4 etypes x 12 key versions on a fixed 15-entry keytab, both versions, three entry orders")
}
